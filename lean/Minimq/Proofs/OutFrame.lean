import Minimq.Proofs.Ops
/-
The trace is write-only: none of the thirteen machine functions, `poll`, or any directive ever looks
at the lines already printed (`World.out`). Formally: running anything on the world with `o` further
lines at the old end of the trace gives the same result with `o` at the old end of its trace
(`execDirective_addOld`). So two worlds that differ only in their traces stay that way under the same
directives, and what is printed from then on is the same in both.
-/
namespace Minimq
open Gen World

/-- The same world with `o` further (older) lines at the far end of the trace. -/
def World.addOld (w : World) (o : List String) : World := { w with out := w.out ++ o }

theorem addOld_addOld (w : World) (a c : List String) : (w.addOld a).addOld c = w.addOld (a ++ c) := by
  simp [World.addOld, List.append_assoc]

theorem addOld_nil (w : World) : w.addOld [] = w := by
  simp [World.addOld]

/-- Any trace is the empty trace plus old lines. -/
theorem eq_addOld_clear (w : World) : w = ({ w with out := [] } : World).addOld w.out := by
  simp [World.addOld]

/-! ### Projections -/

theorem addOld_sess (w : World) (o : List String) : (w.addOld o).sess = w.sess := rfl
theorem addOld_conn (w : World) (o : List String) : (w.addOld o).conn = w.conn := rfl
theorem addOld_nets (w : World) (o : List String) : (w.addOld o).nets = w.nets := rfl
theorem addOld_fut (w : World) (o : List String) : (w.addOld o).fut = w.fut := rfl
theorem addOld_now (w : World) (o : List String) : (w.addOld o).now = w.now := rfl
theorem addOld_slot (w : World) (o : List String) : (w.addOld o).slot = w.slot := rfl
theorem addOld_handles (w : World) (o : List String) : (w.addOld o).handles = w.handles := rfl
theorem addOld_starved (w : World) (o : List String) : (w.addOld o).lastIoStarved = w.lastIoStarved := rfl
theorem addOld_wakes (w : World) (o : List String) : (w.addOld o).wakes = w.wakes := rfl
theorem addOld_lastRes (w : World) (o : List String) : (w.addOld o).lastRes = w.lastRes := rfl
theorem addOld_tornNets (w : World) (o : List String) : (w.addOld o).tornNets = w.tornNets := rfl
theorem addOld_log (w : World) (o : List String) : (w.addOld o).log = w.log := rfl
theorem addOld_out (w : World) (o : List String) : (w.addOld o).out = w.out ++ o := rfl
theorem addOld_live (w : World) (o : List String) : (w.addOld o).live = w.live := rfl
theorem addOld_curNet (w : World) (o : List String) : (w.addOld o).curNet = w.curNet := rfl
theorem addOld_netIdx (w : World) (o : List String) : (w.addOld o).netIdx = w.netIdx := rfl

/-! ### Elementary updates commute with `addOld` -/

theorem setSess_addOld (w : World) (o : List String) (s : Session) :
    ({ w.addOld o with sess := s } : World) = ({ w with sess := s } : World).addOld o := rfl
theorem setWakes_addOld (w : World) (o : List String) (a : Nat) :
    ({ w.addOld o with wakes := a } : World) = ({ w with wakes := a } : World).addOld o := rfl
theorem setSlot_addOld (w : World) (o : List String) (a : Option Nat) :
    ({ w.addOld o with slot := a } : World) = ({ w with slot := a } : World).addOld o := rfl
theorem setFut_addOld (w : World) (o : List String) (a : Option Pc) :
    ({ w.addOld o with fut := a } : World) = ({ w with fut := a } : World).addOld o := rfl
theorem setNow_addOld (w : World) (o : List String) (a : Nat) :
    ({ w.addOld o with now := a } : World) = ({ w with now := a } : World).addOld o := rfl
theorem pollPrep_addOld (w : World) (o : List String) :
    ({ w.addOld o with wakes := 0, lastIoStarved := false } : World) =
      ({ w with wakes := 0, lastIoStarved := false } : World).addOld o := rfl
/-- The world `poll` resumes the operation in. -/
def World.pollBase (w : World) : World := { w with wakes := 0, lastIoStarved := false, fut := none }
theorem pollBase_addOld (w : World) (o : List String) :
    ({ sess := (w.addOld o).sess, conn := (w.addOld o).conn, nets := (w.addOld o).nets, fut := none,
       now := (w.addOld o).now, slot := (w.addOld o).slot, handles := (w.addOld o).handles,
       lastIoStarved := false, wakes := 0, lastRes := (w.addOld o).lastRes, out := (w.addOld o).out,
       tornNets := (w.addOld o).tornNets, log := (w.addOld o).log } : World) = w.pollBase.addOld o := rfl
theorem pollBase_addOld' (w : World) (o : List String) : (w.addOld o).pollBase = w.pollBase.addOld o := rfl
theorem pollBase_eq (w : World) :
    ({ sess := w.sess, conn := w.conn, nets := w.nets, fut := none, now := w.now, slot := w.slot,
       handles := w.handles, lastIoStarved := false, wakes := 0, lastRes := w.lastRes, out := w.out,
       tornNets := w.tornNets, log := w.log } : World) = w.pollBase := rfl
theorem emit_addOld (w : World) (o : List String) (l : String) : (w.addOld o).emit l = (w.emit l).addOld o := rfl
theorem finish_addOld (w : World) (o : List String) (l : String) : (w.addOld o).finish l = (w.finish l).addOld o := rfl
theorem finishErr_addOld (w : World) (o : List String) (op : String) (e : Err) :
    (w.addOld o).finishErr op e = (w.finishErr op e).addOld o := rfl
theorem suspend_addOld (w : World) (o : List String) (pc : Pc) :
    (w.addOld o).suspend pc = (w.suspend pc).addOld o := rfl
theorem handleDisconnect_addOld (w : World) (o : List String) :
    (w.addOld o).handleDisconnect = (w.handleDisconnect).addOld o := rfl
theorem discFail_addOld (w : World) (o : List String) (ctx : StepCtx) :
    (w.addOld o).discFail ctx = (w.discFail ctx).addOld o := by
  unfold World.discFail; split <;> rfl
theorem failStep_addOld (w : World) (o : List String) (ctx : StepCtx) (st : Outbound.Step) :
    (w.addOld o).failStep ctx st = (w.failStep ctx st).addOld o := by
  cases st with
  | retained id off len s => exact discFail_addOld w o ctx
  | control a s => rfl
  | release id rc s => rfl
theorem finishOp_addOld (w : World) (o : List String) (n : String) (op : Op) :
    (w.addOld o).finishOp n op = (w.finishOp n op).addOld o := rfl
theorem setWritten_addOld (w : World) (o : List String) (pkt : Flushed) (a c : Nat) :
    (w.addOld o).setWritten pkt a c = (w.setWritten pkt a c).addOld o := rfl
theorem completeFlush_addOld (w : World) (o : List String) (pkt : Flushed) (now : Nat) :
    (w.addOld o).completeFlush pkt now = (w.completeFlush pkt now).addOld o := rfl
theorem setCurNet_addOld (w : World) (o : List String) (n : Net) :
    (w.addOld o).setCurNet n = (w.setCurNet n).addOld o := rfl
theorem prepareStep_addOld (w : World) (o : List String) (step : Outbound.Step) :
    prepareStep (w.addOld o) step = prepareStep w step := rfl

theorem foldl_emit_addOld (ls : List String) (w : World) (o : List String) :
    ls.foldl World.emit (w.addOld o) = (ls.foldl World.emit w).addOld o := by
  induction ls generalizing w with
  | nil => rfl
  | cons l ls ih => simp only [List.foldl_cons, emit_addOld, ih]

theorem deliver_addOld (w : World) (o : List String) (name : String) (len : Nat) :
    (w.addOld o).deliver name len = (w.deliver name len).addOld o := by
  unfold World.deliver
  simp only [finish_addOld, addOld_sess]
  split
  · exact foldl_emit_addOld _ _ _
  · rfl

/-! ### The I/O calls -/

theorem ioWrite_addOld (w : World) (o : List String) (bs : Bytes) :
    (w.addOld o).ioWrite bs = ((w.ioWrite bs).1.addOld o, (w.ioWrite bs).2) := by
  unfold World.ioWrite
  rw [addOld_slot]
  cases w.slot with
  | none => rfl
  | some n =>
    simp only []
    split
    · rfl
    · split <;> rfl

theorem ioFlush_addOld (w : World) (o : List String) :
    (w.addOld o).ioFlush = ((w.ioFlush).1.addOld o, (w.ioFlush).2) := by
  unfold World.ioFlush
  rw [addOld_slot]
  cases w.slot with
  | none => rfl
  | some n =>
    simp only []
    split <;> rfl

theorem ioRead_addOld (w : World) (o : List String) (n : Nat) :
    (w.addOld o).ioRead n = ((w.ioRead n).1.addOld o, (w.ioRead n).2) := by
  unfold World.ioRead
  rw [addOld_slot]
  cases w.slot with
  | none => rfl
  | some k =>
    dsimp only [World.addOld, World.curNet, World.setCurNet, World.emit, World.netIdx]
    repeat' split
    all_goals rfl

theorem maybeQueuePingreq_addOld (w : World) (o : List String) (now : Nat) :
    (w.addOld o).maybeQueuePingreq now =
      match w.maybeQueuePingreq now with
      | .error e => .error e
      | .ok w' => .ok (w'.addOld o) := by
  unfold World.maybeQueuePingreq
  rw [addOld_sess]
  cases w.sess.queuePing now <;> rfl

theorem processReceivedPacket_addOld (w : World) (o : List String) :
    (w.addOld o).processReceivedPacket =
      ((w.processReceivedPacket).1.addOld o, (w.processReceivedPacket).2) := by
  unfold World.processReceivedPacket
  rw [addOld_sess]
  split
  · rfl
  · cases h : w.sess.takePkt with
    | mk s1 res =>
      simp only []
      cases res with
      | none => rfl
      | some p =>
        obtain ⟨len, pkt⟩ := p
        simp only []
        cases h2 : Session.handle s1 pkt with
        | mk s2 r =>
          show (match (s2, r) with | (s2, r) => _) = _
          simp only []
          cases r with
          | ok b => cases b <;> rfl
          | error e => cases e <;> rfl

theorem activate_addOld (w : World) (o : List String) (sp : Bool) (block : Bytes) :
    World.activate (w.addOld o) sp block = (World.activate w sp block).addOld o := by
  unfold World.activate
  rw [addOld_sess, addOld_now]
  cases h : w.sess.activate sp block w.now with
  | mk s r =>
    cases r with
    | error e => rfl
    | ok u => rfl

theorem connectGotPacket_addOld (w : World) (o : List String) :
    World.connectGotPacket (w.addOld o) = (World.connectGotPacket w).addOld o := by
  unfold World.connectGotPacket
  rw [addOld_sess]
  cases h : w.sess.takePkt with
  | mk s1 res =>
    simp only []
    cases res with
    | none => rfl
    | some p =>
      obtain ⟨len, pkt⟩ := p
      cases pkt <;> try rfl
      rename_i sp rc block
      simp only []
      split
      · rfl
      · exact activate_addOld ({ w with sess := s1 } : World) o sp block


/-! ### The thirteen machine functions -/

/-- The statement proved for all thirteen mutually recursive machine functions at once. -/
structure FrameM (fuel : Nat) : Prop where
  fl : ∀ w k o, flushLoop fuel (World.addOld w o) k = (flushLoop fuel w k).addOld o
  ps : ∀ w ctx step now o,
    performStep fuel (World.addOld w o) ctx step now = (performStep fuel w ctx step now).addOld o
  dsw : ∀ w ctx pkt bytes wr len now o,
    doStepWrite fuel (World.addOld w o) ctx pkt bytes wr len now =
      (doStepWrite fuel w ctx pkt bytes wr len now).addOld o
  dsf : ∀ w ctx pkt now o,
    doStepFlush fuel (World.addOld w o) ctx pkt now = (doStepFlush fuel w ctx pkt now).addOld o
  sr : ∀ w ctx adv o, stepReturned fuel (World.addOld w o) ctx adv = (stepReturned fuel w ctx adv).addOld o
  af : ∀ w k o, afterFlush fuel (World.addOld w o) k = (afterFlush fuel w k).addOld o
  dlw : ∀ w which bytes o,
    doLocalWrite fuel (World.addOld w o) which bytes = (doLocalWrite fuel w which bytes).addOld o
  dlf : ∀ w which o, doLocalFlush fuel (World.addOld w o) which = (doLocalFlush fuel w which).addOld o
  dcr : ∀ w o, doConnRead fuel (World.addOld w o) = (doConnRead fuel w).addOld o
  dl : ∀ w outer adv o, driveLoop fuel (World.addOld w o) outer adv = (driveLoop fuel w outer adv).addOld o
  das : ∀ w outer adv o,
    driveAfterService fuel (World.addOld w o) outer adv = (driveAfterService fuel w outer adv).addOld o
  de : ∀ w outer o, driveEnter fuel (World.addOld w o) outer = (driveEnter fuel w outer).addOld o
  dwr : ∀ w outer d y o,
    doWaitRead fuel (World.addOld w o) outer d y = (doWaitRead fuel w outer d y).addOld o

theorem frame_zero : FrameM 0 := by
  constructor <;> intros <;>
    simp only [flushLoop, performStep, doStepWrite, doStepFlush, stepReturned, afterFlush, doLocalWrite,
      doLocalFlush, doConnRead, driveLoop, driveAfterService, driveEnter, doWaitRead] <;> rfl

theorem fstep_sr (fuel : Nat) (ih : FrameM fuel) : ∀ w ctx adv o,
    stepReturned (fuel + 1) (World.addOld w o) ctx adv = (stepReturned (fuel + 1) w ctx adv).addOld o := by
  intro w ctx adv o
  unfold stepReturned
  cases ctx with
  | flush k => exact ih.fl _ _ _
  | drive advanced outer => exact ih.das _ _ _ _

theorem fstep_de (fuel : Nat) (ih : FrameM fuel) : ∀ w outer o,
    driveEnter (fuel + 1) (World.addOld w o) outer = (driveEnter (fuel + 1) w outer).addOld o := by
  intro w outer o
  simp only [driveEnter, addOld_live, finishErr_addOld, ih.dl]
  split <;> rfl

theorem fstep_dsf (fuel : Nat) (ih : FrameM fuel) : ∀ w ctx pkt now o,
    doStepFlush (fuel + 1) (World.addOld w o) ctx pkt now =
      (doStepFlush (fuel + 1) w ctx pkt now).addOld o := by
  intro w ctx pkt now o
  simp only [doStepFlush, ioFlush_addOld]
  cases h : w.ioFlush with
  | mk w1 r =>
    cases r with
    | pending => rfl
    | err k => rfl
    | ok => exact ih.sr (w1.completeFlush pkt now) ctx true o

theorem fstep_dsw (fuel : Nat) (ih : FrameM fuel) : ∀ w ctx pkt bytes wr len now o,
    doStepWrite (fuel + 1) (World.addOld w o) ctx pkt bytes wr len now =
      (doStepWrite (fuel + 1) w ctx pkt bytes wr len now).addOld o := by
  intro w ctx pkt bytes wr len now o
  simp only [doStepWrite, ioWrite_addOld]
  cases h : w.ioWrite (bytes.drop wr) with
  | mk w1 r =>
    cases r with
    | pending => rfl
    | zero => simp only [discFail_addOld]; rfl
    | err k => rfl
    | ok count =>
      simp only [setWritten_addOld, ih.sr, ih.dsf]
      split <;> rfl

theorem fstep_ps (fuel : Nat) (ih : FrameM fuel) : ∀ w ctx step now o,
    performStep (fuel + 1) (World.addOld w o) ctx step now =
      (performStep (fuel + 1) w ctx step now).addOld o := by
  intro w ctx step now o
  simp only [performStep, prepareStep_addOld, addOld_live, discFail_addOld, failStep_addOld, finishErr_addOld, ih.sr, ih.dsf, ih.dsw]
  cases prepareStep w step with
  | fail e => rfl
  | done => rfl
  | flush pkt => simp only []; split <;> rfl
  | write pkt bytes written len => simp only []; split <;> rfl

theorem fstep_fl (fuel : Nat) (ih : FrameM fuel) : ∀ w k o,
    flushLoop (fuel + 1) (World.addOld w o) k = (flushLoop (fuel + 1) w k).addOld o := by
  intro w k o
  simp only [flushLoop, maybeQueuePingreq_addOld, addOld_now]
  cases h : w.maybeQueuePingreq w.now with
  | error e => simp only [discFail_addOld]; rfl
  | ok w1 =>
    simp only [addOld_sess, addOld_now, ih.af, ih.ps]
    cases w1.sess.data.outbound.nextStep <;> rfl

theorem fstep_dlf (fuel : Nat) (ih : FrameM fuel) : ∀ w which o,
    doLocalFlush (fuel + 1) (World.addOld w o) which = (doLocalFlush (fuel + 1) w which).addOld o := by
  intro w which o
  simp only [doLocalFlush, ioFlush_addOld]
  cases h : w.ioFlush with
  | mk w1 r =>
    cases r with
    | pending => rfl
    | err k => simp only []; repeat' split
               all_goals rfl
    | ok =>
      simp only [setSess_addOld]
      simp only [addOld_sess, addOld_now, ih.dcr, finish_addOld, handleDisconnect_addOld]
      repeat' split
      all_goals rfl

theorem fstep_dlw (fuel : Nat) (ih : FrameM fuel) : ∀ w which bytes o,
    doLocalWrite (fuel + 1) (World.addOld w o) which bytes =
      (doLocalWrite (fuel + 1) w which bytes).addOld o := by
  intro w which bytes o
  simp only [doLocalWrite, ioWrite_addOld]
  split
  · have e : (w.addOld o).discDone which = (w.discDone which).addOld o := by
      unfold World.discDone; repeat' split
      all_goals rfl
    rw [e, ih.dlf]
  · cases h : w.ioWrite bytes with
    | mk w1 r =>
      cases r with
      | pending => rfl
      | ok n => exact ih.dlw w1 which (bytes.drop n) o
      | zero => simp only []; repeat' split
                all_goals rfl
      | err k => simp only []; repeat' split
                 all_goals rfl

theorem fstep_dcr (fuel : Nat) (ih : FrameM fuel) : ∀ w o,
    doConnRead (fuel + 1) (World.addOld w o) = (doConnRead (fuel + 1) w).addOld o := by
  intro w o
  simp only [doConnRead, addOld_sess, connectGotPacket_addOld]
  split
  · rfl
  · cases hw : w.sess.window with
    | none => rfl
    | some p =>
      obtain ⟨s1, window⟩ := p
      simp only [setSess_addOld, connectGotPacket_addOld, ioRead_addOld]
      split
      · rfl
      · cases h : ({ w with sess := s1 } : World).ioRead window with
        | mk w1 r =>
          cases r with
          | pending => rfl
          | eof => rfl
          | err k => rfl
          | ok bytes => exact ih.dcr ({ w1 with sess := w1.sess.commit bytes }) o

theorem fstep_dwr (fuel : Nat) (ih : FrameM fuel) : ∀ w outer d y o,
    doWaitRead (fuel + 1) (World.addOld w o) outer d y =
      (doWaitRead (fuel + 1) w outer d y).addOld o := by
  intro w outer d y o
  simp only [doWaitRead, addOld_sess, ih.de]
  split
  · rfl
  · cases hw : w.sess.window with
    | none => rfl
    | some p =>
      obtain ⟨s1, window⟩ := p
      simp only [setSess_addOld, ih.de, ioRead_addOld]
      split
      · rfl
      · cases h : ({ w with sess := s1 } : World).ioRead window with
        | mk w1 r =>
          cases r with
          | eof => rfl
          | err k => rfl
          | ok bytes => exact ih.dwr ({ w1 with sess := w1.sess.commit bytes }) outer d y o
          | pending =>
            simp only [setWakes_addOld]
            simp only [addOld_now, addOld_wakes, emit_addOld, suspend_addOld, ih.de, ih.dwr]
            cases d with
            | none => rfl
            | some dd =>
              simp only []
              repeat' split
              all_goals rfl

theorem fstep_dl (fuel : Nat) (ih : FrameM fuel) : ∀ w outer adv o,
    driveLoop (fuel + 1) (World.addOld w o) outer adv = (driveLoop (fuel + 1) w outer adv).addOld o := by
  intro w outer adv o
  unfold driveLoop
  simp only [addOld_sess, addOld_now, processReceivedPacket_addOld, maybeQueuePingreq_addOld,
    handleDisconnect_addOld, finishErr_addOld]
  split
  · cases h : w.processReceivedPacket with
    | mk w1 r =>
      cases r with
      | error e => rfl
      | ok x =>
        cases x with
        | none => exact ih.dl w1 outer true o
        | some len => exact deliver_addOld w1 o _ len
  · cases h : w.maybeQueuePingreq w.now with
    | error e =>
      simp only []
      repeat' split
      all_goals first | rfl | contradiction
    | ok w1 =>
      simp only [addOld_sess, ih.das, ih.ps]
      repeat' split
      all_goals first | rfl | contradiction

theorem fstep_das (fuel : Nat) (ih : FrameM fuel) : ∀ w outer adv o,
    driveAfterService (fuel + 1) (World.addOld w o) outer adv =
      (driveAfterService (fuel + 1) w outer adv).addOld o := by
  intro w outer adv o
  unfold driveAfterService
  simp only [addOld_sess, processReceivedPacket_addOld, finish_addOld, ih.de, ih.dwr, ih.dl]
  split
  · cases h : w.processReceivedPacket with
    | mk w1 r =>
      cases r with
      | error e => rfl
      | ok x =>
        cases x with
        | none => exact ih.dl w1 outer true o
        | some len => exact deliver_addOld w1 o _ len
  · split
    · split
      · cases outer <;> rfl
      · cases outer <;> rfl
    · rfl


theorem fstep_af (fuel : Nat) (ih : FrameM fuel) : ∀ w k o,
    afterFlush (fuel + 1) (World.addOld w o) k = (afterFlush (fuel + 1) w k).addOld o := by
  intro w k o
  unfold afterFlush
  cases k with
  | post name op => rfl
  | discPre d =>
    simp only [addOld_sess, finishErr_addOld, ih.dlw]
    repeat' split
    all_goals first | rfl | contradiction
  | subPre r =>
    simp only [setSess_addOld]
    simp only [addOld_sess, finishErr_addOld, ih.fl]
    repeat' split
    all_goals first | rfl | contradiction
  | unsubPre r =>
    simp only [setSess_addOld]
    simp only [addOld_sess, finishErr_addOld, ih.fl]
    repeat' split
    all_goals first | rfl | contradiction
  | publishPre r =>
    simp only [setSess_addOld]
    simp only [addOld_sess, addOld_live, finishErr_addOld, ih.fl, ih.dlw]
    repeat' split
    all_goals first | rfl | contradiction | (rename_i h; simp only [h, ↓reduceIte])

theorem frame_all : ∀ fuel, FrameM fuel := by
  intro fuel
  induction fuel with
  | zero => exact frame_zero
  | succ fuel ih =>
    exact ⟨fstep_fl fuel ih, fstep_ps fuel ih, fstep_dsw fuel ih, fstep_dsf fuel ih, fstep_sr fuel ih,
      fstep_af fuel ih, fstep_dlw fuel ih, fstep_dlf fuel ih, fstep_dcr fuel ih, fstep_dl fuel ih,
      fstep_das fuel ih, fstep_de fuel ih, fstep_dwr fuel ih⟩


/-! ### `poll` and the directives -/

theorem poll_addOld (w : World) (o : List String) : World.poll (w.addOld o) = (World.poll w).addOld o := by
  have F := frame_all pollFuel
  unfold World.poll
  simp only [addOld_fut]
  cases hf : w.fut with
  | none => rfl
  | some pc =>
    cases pc <;> simp only [pollBase_eq, pollBase_addOld']
    case stepWrite ctx pkt bytes written len now => exact F.dsw _ _ _ _ _ _ _ _
    case stepFlush ctx pkt now => exact F.dsf _ _ _ _ _
    case connWrite bytes => exact F.dlw _ _ _ _
    case connFlush => exact F.dlf _ _ _
    case connRead => exact F.dcr _ _
    case q0Write bytes => exact F.dlw _ _ _ _
    case q0Flush => exact F.dlf _ _ _
    case discWrite bytes => exact F.dlw _ _ _ _
    case discFlush => exact F.dlf _ _ _
    case waitRead outer deadline yielded => exact F.dwr _ _ _ _ _

theorem goLoop_addOld (n : Nat) (w : World) (o : List String) :
    World.goLoop n (w.addOld o) = (World.goLoop n w).addOld o := by
  induction n generalizing w with
  | zero => rfl
  | succ n ih =>
    unfold World.goLoop
    simp only [setSlot_addOld, poll_addOld]
    simp only [addOld_fut, addOld_wakes, addOld_starved, ih]
    repeat' split
    all_goals first | rfl | contradiction

theorem cancelFut_addOld (w : World) (o : List String) : (w.addOld o).cancelFut = w.cancelFut.addOld o := by
  unfold World.cancelFut
  by_cases h : w.fut.isSome = true
  · have h' : (w.addOld o).fut.isSome = true := h
    rw [if_pos h, if_pos h']; rfl
  · have h' : ¬ (w.addOld o).fut.isSome = true := h
    rw [if_neg h, if_neg h']

theorem dropConn_addOld (w : World) (o : List String) : (w.addOld o).dropConn = w.dropConn.addOld o := by
  unfold World.dropConn
  simp only [cancelFut_addOld]
  by_cases h : w.cancelFut.conn.isSome = true
  · have h' : (w.cancelFut.addOld o).conn.isSome = true := h
    rw [if_pos h, if_pos h']; rfl
  · have h' : ¬ (w.cancelFut.addOld o).conn.isSome = true := h
    rw [if_neg h, if_neg h']

/-- The world `Session::connect` encodes its CONNECT in: connection dropped, new transport opened,
transport state reset. -/
def World.connBase (w : World) : World :=
  let w := w.dropConn
  let w := { w with nets := w.nets ++ [({ } : Net)] }
  let w := w.emit s!"net {w.netIdx} open"
  { w with sess := w.sess.beginConnect, wakes := 0, lastIoStarved := false }

/-- The CONNECT packet encoded into the arena of `connBase`: the session afterwards, and the result. -/
def World.connEnc (w : World) : Session × Except SerErr (Nat × Nat) :=
  w.connBase.sess.encode (fun cap _ => encodeConnect cap w.connBase.sess.connectPacket)

theorem startConnect_connEnc (w : World) :
    w.startConnect =
      match w.connEnc.2 with
      | .error e => ({ w.connBase with sess := w.connEnc.1 } : World).finishErr "connect" (Err.ofSer e)
      | .ok (off, len) =>
        doLocalWrite pollFuel { w.connBase with sess := w.connEnc.1 } 0
          (w.connEnc.1.data.outbound.retainedPacket off len) := by
  unfold World.startConnect World.connEnc World.connBase
  generalize pollFuel = f
  rfl

theorem connBase_addOld (w : World) (o : List String) : (w.addOld o).connBase = w.connBase.addOld o := by
  unfold World.connBase
  rw [dropConn_addOld]
  rfl

theorem connEnc_addOld (w : World) (o : List String) : (w.addOld o).connEnc = w.connEnc := by
  unfold World.connEnc
  rw [connBase_addOld]
  rfl

theorem startConnect_addOld (w : World) (o : List String) :
    (w.addOld o).startConnect = w.startConnect.addOld o := by
  have F := frame_all pollFuel
  rw [startConnect_connEnc, startConnect_connEnc, connBase_addOld, connEnc_addOld]
  cases h : w.connEnc.2 with
  | error e => rfl
  | ok p =>
    obtain ⟨off, len⟩ := p
    simp only [setSess_addOld]
    exact F.dlw _ _ _ _

theorem startOp_addOld (w : World) (o : List String) (name : String) (body : World → World)
    (hb : ∀ w' o', body (World.addOld w' o') = (body w').addOld o') :
    (w.addOld o).startOp name body = (w.startOp name body).addOld o := by
  unfold World.startOp
  simp only [addOld_conn, cancelFut_addOld]
  split
  · rfl
  · exact hb ({ w.cancelFut with wakes := 0, lastIoStarved := false }) o

/-- **The trace is write-only.** Every directive does to a world with further old trace lines exactly
what it does to the world without them; the old lines stay at the old end. -/
theorem execDirective_addOld (w : World) (o : List String) (d : Directive) :
    (w.addOld o).execDirective d = (w.execDirective d).addOld o := by
  have F := frame_all pollFuel
  cases d with
  | bad => rfl
  | connect => exact startConnect_addOld w o
  | publish r =>
    simp only [World.execDirective]
    apply startOp_addOld
    intro w' o'
    simp only [addOld_live, finishErr_addOld, F.fl]
    split <;> rfl
  | subscribe r =>
    simp only [World.execDirective]
    apply startOp_addOld
    intro w' o'
    simp only [addOld_live, finishErr_addOld, F.fl]
    repeat' split
    all_goals rfl
  | unsubscribe r =>
    simp only [World.execDirective]
    apply startOp_addOld
    intro w' o'
    simp only [addOld_live, finishErr_addOld, F.fl]
    repeat' split
    all_goals rfl
  | disconnect dd =>
    simp only [World.execDirective]
    apply startOp_addOld
    intro w' o'
    simp only [addOld_live, finishErr_addOld, finish_addOld, F.fl]
    repeat' split
    all_goals rfl
  | poll =>
    simp only [World.execDirective]
    exact startOp_addOld w o _ _ (fun w' o' => F.de w' .poll o')
  | recv =>
    simp only [World.execDirective]
    exact startOp_addOld w o _ _ (fun w' o' => F.de w' .recv o')
  | drive =>
    simp only [World.execDirective]
    exact startOp_addOld w o _ _ (fun w' o' => F.de w' .drive o')
  | d n =>
    simp only [World.execDirective, setSlot_addOld, poll_addOld]
    by_cases h : w.fut.isNone = true
    · have h' : (w.addOld o).fut.isNone = true := h
      rw [if_pos h, if_pos h'] <;> rfl
    · have h' : ¬ (w.addOld o).fut.isNone = true := h
      rw [if_neg h, if_neg h'] <;> rfl
  | go =>
    simp only [World.execDirective, goLoop_addOld]
    by_cases h : w.fut.isNone = true
    · have h' : (w.addOld o).fut.isNone = true := h
      rw [if_pos h, if_pos h'] <;> rfl
    · have h' : ¬ (w.addOld o).fut.isNone = true := h
      rw [if_neg h, if_neg h']
  | tick us =>
    simp only [World.execDirective, setNow_addOld, poll_addOld]
    by_cases h : w.now + us > 4611686018427387904
    · have h' : (w.addOld o).now + us > 4611686018427387904 := h
      rw [if_pos h, if_pos h'] <;> rfl
    · have h' : ¬ (w.addOld o).now + us > 4611686018427387904 := h
      rw [if_neg h, if_neg h']
      by_cases h2 : w.fut.isSome = true
      · have h2' : (w.addOld o).fut.isSome = true := h2
        rw [if_pos h2']
        split
        · rfl
        · contradiction
      · have h2' : ¬ (w.addOld o).fut.isSome = true := h2
        rw [if_neg h2']
        split
        · contradiction
        · rfl
  | rx bytes =>
    simp only [World.execDirective]
    by_cases h : w.nets.isEmpty = true
    · have h' : (w.addOld o).nets.isEmpty = true := h
      rw [if_pos h, if_pos h'] <;> rfl
    · have h' : ¬ (w.addOld o).nets.isEmpty = true := h
      rw [if_neg h, if_neg h'] <;> rfl
  | cancel => exact cancelFut_addOld w o
  | drop => exact dropConn_addOld w o
  | setpid n =>
    simp only [World.execDirective]
    by_cases h : (w.fut.isSome || decide (n = 0) || decide (n > 65535)) = true
    · have h' : ((w.addOld o).fut.isSome || decide (n = 0) || decide (n > 65535)) = true := h
      rw [if_pos h, if_pos h'] <;> rfl
    · have h' : ¬ ((w.addOld o).fut.isSome || decide (n = 0) || decide (n > 65535)) = true := h
      rw [if_neg h, if_neg h'] <;> rfl
  | decode bs => rfl

/-- The same for a whole list of directives. -/
theorem run_addOld (ds : List Directive) (w : World) (o : List String) :
    ds.foldl World.execDirective (w.addOld o) = (ds.foldl World.execDirective w).addOld o := by
  induction ds generalizing w with
  | nil => rfl
  | cons d ds ih => simp only [List.foldl_cons, execDirective_addOld, ih]

end Minimq
