import Minimq.Proofs.WireHist
/-
Keep-alive 0 sends no PINGREQ, session level (C10): the predicates that `Proofs/NoPing.lean` lifts to all
executions, and what every session primitive does to them.

`NpCore s L l` (session `s`, ordinal `L` of the current transport, transmission log `l`): whenever the
effective keep-alive is 0 there is no PINGREQ timer, no PINGREQ in the control queue, and no PINGREQ entry of
transport `L` in the log. `NpHs s L l` is what holds between `begin_connect` and the CONNACK: the same three
facts whatever the (old) keep-alive — `arm_replay` has dropped every queued PINGREQ, the timer is cleared,
and the log of the new transport is empty.

Every primitive other than `activate` preserves `NpCore` (it does not change the keep-alive; a PINGREQ is
queued only when the timer is armed, which it is not under keep-alive 0). `activate` — the only primitive that
sets the keep-alive — yields `NpCore` from `NpHs`; from `NpCore` alone it would not (a PINGREQ queued under
the old keep-alive could survive a CONNACK with session present and Server Keep Alive 0 — finding F22, before
`arm_replay` dropped it).
-/
namespace Minimq
open Gen World Outbound

/-- The actions of the control queue, in order. -/
def Outbound.acts (o : Outbound) : List ControlAction := o.control.map (·.action)

/-- No PINGREQ is in the control queue (in whatever send state). -/
def NoPingQ (o : Outbound) : Prop := ∀ a ∈ o.acts, a.typ ≠ MT_PingReq

/-- No PINGREQ entry of transport `L` is in the log. -/
def NoPingL (L : Nat) (l : List LogEntry) : Prop :=
  ∀ f ∈ l, f.net = L → ∀ a, f.tag = .control a → a.typ ≠ MT_PingReq

structure NpCore (s : Session) (L : Nat) (l : List LogEntry) : Prop where
  ka : KaInv s
  q : s.rt.keepaliveMs = 0 → NoPingQ s.data.outbound
  l : s.rt.keepaliveMs = 0 → NoPingL L l

structure NpHs (s : Session) (L : Nat) (l : List LogEntry) : Prop where
  np : s.rt.nextPing = none
  q : NoPingQ s.data.outbound
  l : NoPingL L l

theorem NpHs.core {s : Session} {L : Nat} {l : List LogEntry} (h : NpHs s L l) : NpCore s L l :=
  ⟨fun _ => h.np, fun _ => h.q, fun _ => h.l⟩

theorem NoPingQ.sub {o o' : Outbound} (h : NoPingQ o) (hs : ∀ a ∈ o'.acts, a ∈ o.acts) : NoPingQ o' :=
  fun a ha => h a (hs a ha)

theorem NoPingQ.congr {o o' : Outbound} (h : NoPingQ o) (hs : o'.control = o.control) : NoPingQ o' :=
  h.sub (fun a ha => by unfold Outbound.acts at ha ⊢; rw [hs] at ha; exact ha)

theorem NoPingL.nil (L : Nat) : NoPingL L [] := by intro f hf; simp at hf

/-! ### The control queue under the outbound operations -/

theorem acts_modifyFirst_state (p : PendingControl → Bool) (st : SendState) (l : List PendingControl) :
    (modifyFirst p (fun e => { e with state := st }) l).map (·.action) = l.map (·.action) :=
  modifyFirst_map p (fun e => { e with state := st }) (·.action) (fun _ => rfl) l

theorem acts_queueControl {o o' : Outbound} {a : ControlAction} (hq : o.queueControl a = some o') :
    o'.acts = o.acts ++ [a] := by
  unfold Outbound.acts
  rw [queueControl_control hq]
  simp only [List.map_append, List.map_cons, List.map_nil]

theorem acts_setWritten (o : Outbound) (pkt : Flushed) (a c : Nat) : (o.setWritten pkt a c).acts = o.acts := by
  cases pkt with
  | control x => exact acts_modifyFirst_state _ _ _
  | release id => rfl
  | retained id => rfl

theorem acts_completeFlush_sub (o : Outbound) (pkt : Flushed) : ∀ a ∈ (o.completeFlush pkt).acts, a ∈ o.acts := by
  cases pkt with
  | release id => intro a ha; exact ha
  | retained id => intro a ha; exact ha
  | control x =>
    intro a ha
    simp only [Outbound.acts, Outbound.completeFlush, Outbound.flushControl, List.mem_map, List.mem_filter] at ha
    obtain ⟨e, ⟨he, _⟩, rfl⟩ := ha
    have : e.action ∈ (modifyFirst (fun e => e.action == x) (fun e => { e with state := .sent }) o.control).map (·.action) :=
      List.mem_map.mpr ⟨e, he, rfl⟩
    rw [acts_modifyFirst_state] at this
    exact this

theorem noPingQ_rearm (o : Outbound) : NoPingQ o.rearm := by
  intro a ha
  simp only [Outbound.acts, List.mem_map] at ha
  obtain ⟨e, he, rfl⟩ := ha
  unfold Outbound.rearm Outbound.armReplay at he
  split at he
  · simp only [Outbound.dropPingreq, List.mem_filter] at he
    simpa using he.2
  · simp only [Outbound.markRetainedDup, List.mem_map] at he
    obtain ⟨x, hx, rfl⟩ := he
    simp only [Outbound.dropPingreq, List.mem_filter] at hx
    simpa using hx.2

theorem noPingQ_clear (o : Outbound) : NoPingQ o.clear := by
  intro a ha; simp [Outbound.acts, Outbound.clear] at ha

/-- Handling an inbound packet leaves the control queue alone or appends one acknowledgement — never a
PINGREQ. -/
theorem handlePacket_acts (d : SessionData) (r : Runtime) (p : Recv) :
    (handlePacket d r p).1.outbound.acts = d.outbound.acts ∨
    ∃ a, a.typ ≠ MT_PingReq ∧ (handlePacket d r p).1.outbound.acts = d.outbound.acts ++ [a] := by
  have hsame : ∀ q : Recv, (handlePacket d r q).1.outbound.control = d.outbound.control →
      (handlePacket d r q).1.outbound.acts = d.outbound.acts := by
    intro q hq; unfold Outbound.acts; rw [hq]
  have hleft : ∀ q : Recv, (∀ a, (handlePacket d r q).1.outbound.control ≠ d.outbound.control ++ [⟨a, .write 0⟩]) →
      (handlePacket d r q).1.outbound.acts = d.outbound.acts := by
    intro q hq
    rcases handlePacket_control d r q with h | ⟨a, h⟩
    · exact hsame q h
    · exact absurd h (hq a)
  cases p with
  | pubRel id rs =>
    simp only [handlePacket]
    repeat' split
    all_goals first
      | exact Or.inl rfl
      | (have hq := acts_queueControl (by assumption)
         exact Or.inr ⟨_, by simp only []; decide, hq⟩)
  | publish topic id props payload retain qos dup =>
    simp only [handlePacket]
    repeat' split
    all_goals first
      | exact Or.inl rfl
      | (have hq := acts_queueControl (by assumption)
         exact Or.inr ⟨_, by simp only []; decide, hq⟩)
  | connAck sp rc props => exact Or.inl rfl
  | pingResp => exact Or.inl rfl
  | disconnect rc props => exact Or.inl rfl
  | subAck id props codes =>
    left; apply hsame
    simp only [handlePacket]
    split
    · rfl
    · split <;> exact (ackPacket_frame d.outbound id .subAck).2.2.1
  | unsubAck id props codes =>
    left; apply hsame
    simp only [handlePacket]
    split
    · rfl
    · split <;> exact (ackPacket_frame d.outbound id .unsubAck).2.2.1
  | pubAck id rs =>
    left; apply hsame
    simp only [handlePacket]
    split
    · rfl
    · split <;> exact (ackPacket_frame d.outbound id .pubAck).2.2.1
  | pubComp id rs =>
    left; apply hsame
    simp only [handlePacket]
    split
    · rfl
    · unfold Outbound.ackRelease
      split <;> split <;> rfl
  | pubRec id rs =>
    left; apply hsame
    simp only [handlePacket]
    have hack := (ackPacket_frame d.outbound id .pubRec).2.2.1
    split
    · split
      · exact hack
      · split
        · exact hack
        · split
          · exact hack
          · rename_i o' hq
            unfold Outbound.queueRelease at hq
            split at hq
            · simp at hq
            · simp only [Option.some.injEq] at hq; subst hq; exact hack
    · split
      · split <;> rfl
      · rfl

theorem handlePacket_noPingQ {d : SessionData} (r : Runtime) (p : Recv) (h : NoPingQ d.outbound) :
    NoPingQ (handlePacket d r p).1.outbound := by
  rcases handlePacket_acts d r p with he | ⟨a, ha, he⟩
  · intro x hx; rw [he] at hx; exact h x hx
  · intro x hx
    rw [he] at hx
    rcases List.mem_append.mp hx with hx | hx
    · exact h x hx
    · simp only [List.mem_singleton] at hx; subst hx; exact ha

/-! ### `NpCore` under the primitives that leave the keep-alive alone -/

section
variable {L : Nat} {l : List LogEntry}

/-- Keep-alive and timer unchanged, control actions a subset. -/
theorem NpCore.same {s s' : Session} (h : NpCore s L l) (hk : s'.rt.keepaliveMs = s.rt.keepaliveMs)
    (hn : s'.rt.nextPing = s.rt.nextPing) (hc : ∀ a ∈ s'.data.outbound.acts, a ∈ s.data.outbound.acts) : NpCore s' L l :=
  ⟨KaInv_of_rt h.ka hk hn, fun h0 => (h.q (hk ▸ h0)).sub hc, fun h0 => h.l (hk ▸ h0)⟩

theorem NpCore.same_ctl {s s' : Session} (h : NpCore s L l) (hr : s'.rt = s.rt)
    (hc : s'.data.outbound.control = s.data.outbound.control) : NpCore s' L l :=
  h.same (by rw [hr]) (by rw [hr]) (fun a ha => by unfold Outbound.acts at ha ⊢; rw [hc] at ha; exact ha)

theorem NpHs.same_ctl {s s' : Session} (h : NpHs s L l) (hn : s'.rt.nextPing = s.rt.nextPing)
    (hc : s'.data.outbound.control = s.data.outbound.control) : NpHs s' L l :=
  ⟨by rw [hn]; exact h.np, h.q.congr hc, h.l⟩

theorem NpCore.of_ne {s : Session} (hk : s.rt.keepaliveMs ≠ 0) : NpCore s L l :=
  ⟨fun h => absurd h hk, fun h => absurd h hk, fun h => absurd h hk⟩

theorem NpCore.queuePing {s s' : Session} {now : Nat} (h : NpCore s L l) (hq : s.queuePing now = .ok s') : NpCore s' L l := by
  by_cases hk : s.rt.keepaliveMs = 0
  · have : s.queuePing now = .ok s := queuePing_no_keepalive s now (h.ka hk)
    rw [this] at hq
    cases hq
    exact h
  · exact NpCore.of_ne (by rw [queuePing_rt hq]; exact hk)

theorem NpCore.completeFlush {s : Session} (h : NpCore s L l) (pkt : Flushed) (now : Nat) : NpCore (s.completeFlush pkt now) L l := by
  have hk : (s.completeFlush pkt now).rt.keepaliveMs = s.rt.keepaliveMs := (completeFlush_rt s pkt now).2.1
  refine ⟨closed_KaInv.completeFlush s pkt now h.ka, fun h0 => ?_, fun h0 => h.l (hk ▸ h0)⟩
  refine (h.q (hk ▸ h0)).sub ?_
  rw [Session.completeFlush_outbound]
  exact acts_completeFlush_sub _ _

theorem NpCore.setWritten {s : Session} (h : NpCore s L l) (pkt : Flushed) (a c : Nat) : NpCore (s.setWritten pkt a c) L l := by
  refine h.same rfl rfl ?_
  rw [Session.setWritten_outbound, acts_setWritten]
  exact fun _ ha => ha

theorem NpCore.takePkt {s : Session} (h : NpCore s L l) : NpCore s.takePkt.1 L l :=
  h.same_ctl (Session.takePkt_data s).2 (by rw [(Session.takePkt_data s).1])

theorem NpHs.takePkt {s : Session} (h : NpHs s L l) : NpHs s.takePkt.1 L l :=
  h.same_ctl (by rw [(Session.takePkt_data s).2]) (by rw [(Session.takePkt_data s).1])

theorem NpCore.handle {s : Session} (h : NpCore s L l) (p : Recv) : NpCore (s.handle p).1 L l := by
  obtain ⟨h1, h2, _⟩ := Session.handle_rt_timing s p
  refine ⟨KaInv_of_rt h.ka h1 h2, fun h0 => ?_, fun h0 => h.l (h1 ▸ h0)⟩
  rw [Session.handle_fst_data]
  exact handlePacket_noPingQ s.rt p (h.q (h1 ▸ h0))

theorem NpCore.handleDisconnect {s : Session} (h : NpCore s L l) : NpCore s.handleDisconnect L l :=
  ⟨fun _ => rfl, fun _ => noPingQ_rearm _, fun h0 => h.l h0⟩

theorem NpCore.alloc {s : Session} (h : NpCore s L l) : NpCore s.alloc.1 L l :=
  h.same_ctl (alloc_rt s) (by rw [Session.alloc_fst]; simp only []; rw [nextPacketId_outbound])

theorem NpCore.encode {ε : Type} {s : Session} (h : NpCore s L l) (enc : Nat → (Nat → Nat → Bytes) → Except ε (Nat × Bytes)) :
    NpCore (s.encode enc).1 L l :=
  h.same_ctl (encode_rt s enc) (by rw [Session.encode_fst]; exact (encodeAt_ids _ _).2.2)

theorem NpHs.encode {ε : Type} {s : Session} (h : NpHs s L l) (enc : Nat → (Nat → Nat → Bytes) → Except ε (Nat × Bytes)) :
    NpHs (s.encode enc).1 L l :=
  h.same_ctl (by rw [encode_rt]) (by rw [Session.encode_fst]; exact (encodeAt_ids _ _).2.2)

theorem NpCore.retain {s s3 : Session} {id off len : Nat} {isPub : Bool} (h : NpCore s L l)
    (hr : s.retain id off len isPub = some s3) : NpCore s3 L l := by
  unfold Session.retain at hr
  split at hr
  · simp at hr
  · rename_i o ho
    have hc : o.control = s.data.outbound.control := by
      unfold Outbound.retainPacket at ho
      split at ho
      · simp at ho
      · simp only [Option.some.injEq] at ho; subst ho; rfl
    simp only [Option.some.injEq] at hr; subst hr
    split
    · exact h.same rfl rfl (fun a ha => by unfold Outbound.acts at ha ⊢; rw [← hc]; exact ha)
    · exact h.same rfl rfl (fun a ha => by unfold Outbound.acts at ha ⊢; rw [← hc]; exact ha)

theorem NpCore.noteActivity {s : Session} (h : NpCore s L l) (now : Nat) : NpCore (s.noteActivity now) L l :=
  ⟨closed_KaInv.noteActivity s now h.ka, h.q, h.l⟩

theorem NpCore.window {s s' : Session} {n : Nat} (h : NpCore s L l) (hw : s.window = some (s', n)) : NpCore s' L l :=
  h.same_ctl (window_fields hw).2 (by rw [(window_fields hw).1])

theorem NpHs.window {s s' : Session} {n : Nat} (h : NpHs s L l) (hw : s.window = some (s', n)) : NpHs s' L l :=
  h.same_ctl (by rw [(window_fields hw).2]) (by rw [(window_fields hw).1])

theorem NpCore.commit {s : Session} (h : NpCore s L l) (bytes : Bytes) : NpCore (s.commit bytes) L l := h.same_ctl rfl rfl
theorem NpHs.commit {s : Session} (h : NpHs s L l) (bytes : Bytes) : NpHs (s.commit bytes) L l := h.same_ctl rfl rfl
theorem NpCore.setPid {s : Session} (h : NpCore s L l) (n : Nat) : NpCore (s.setPid n) L l := h.same_ctl rfl rfl
theorem NpHs.clearPing {s : Session} (h : NpHs s L l) : NpHs s.clearPing L l := ⟨rfl, h.q, h.l⟩

/-- `begin_connect`: the timer is cleared and `arm_replay` drops every queued PINGREQ. -/
theorem NpHs.beginConnect (s : Session) (hl : NoPingL L l) : NpHs s.beginConnect L l :=
  ⟨rfl, noPingQ_rearm _, hl⟩

/-- The log grows by an entry that is no PINGREQ unless the keep-alive is not 0. -/
theorem NpCore.log_append {s : Session} (h : NpCore s L l) (f : LogEntry)
    (hf : s.rt.keepaliveMs = 0 → ∀ a, f.tag = .control a → a.typ ≠ MT_PingReq) : NpCore s L (l ++ [f]) := by
  refine ⟨h.ka, h.q, fun h0 g hg hn a ha => ?_⟩
  rcases List.mem_append.mp hg with hm | hm
  · exact h.l h0 g hm hn a ha
  · simp only [List.mem_singleton] at hm; subst hm
    exact hf h0 a ha

/-! ### The CONNACK -/

theorem noPingQ_preActivate {s : Session} (sp : Bool) (h : NoPingQ s.data.outbound) : NoPingQ (s.preActivate sp).data.outbound := by
  unfold Session.preActivate
  split
  · exact noPingQ_clear _
  · exact h

/-- The only primitive that sets the keep-alive: from the handshake state it yields `NpCore`, whatever the
CONNACK says (accepted: the queue is what it was or empty, the timer is armed iff the new keep-alive is not 0;
rejected: `handle_disconnect`). -/
theorem NpHs.activate {s : Session} (h : NpHs s L l) (sp : Bool) (block : Bytes) (now : Nat) :
    NpCore (s.activate sp block now).1 L l := by
  by_cases hb : connackBlockOk block
  · rw [(activate_eq s sp block now).1 hb]
    refine ⟨KaInv_of_armed (activated_keepalive s sp block now).2.2.1, fun _ => ?_, fun _ => h.l⟩
    exact (noPingQ_preActivate sp h.q).congr rfl
  · rw [(activate_eq s sp block now).2 hb]
    exact ⟨fun _ => rfl, fun _ => noPingQ_rearm _, fun _ => h.l⟩

/-! ### The effective keep-alive is set by the CONNACK and by nothing else -/

theorem retain_keepalive {s s3 : Session} {id off len : Nat} {isPub : Bool} (hr : s.retain id off len isPub = some s3) :
    s3.rt.keepaliveMs = s.rt.keepaliveMs := by
  unfold Session.retain at hr
  split at hr
  · simp at hr
  · simp only [Option.some.injEq] at hr; subst hr
    split <;> rfl

/-- Of all the session primitives only `activate` (the processing of a CONNACK with a success code) writes the
effective keep-alive. -/
theorem Prim.keepalive {s s' : Session} (h : Prim s s') :
    s'.rt.keepaliveMs = s.rt.keepaliveMs ∨ ∃ sp block now, s' = (s.activate sp block now).1 := by
  cases h with
  | queuePing _ now _ hq => left; rw [queuePing_rt hq]
  | completeFlush _ pkt now => exact Or.inl (completeFlush_rt _ _ _).2.1
  | setWritten _ pkt a c => exact Or.inl rfl
  | takePkt => left; rw [(Session.takePkt_data s).2]
  | handle _ p => exact Or.inl (Session.handle_rt_timing _ _).1
  | handleDisconnect => exact Or.inl rfl
  | activate _ sp block now => exact Or.inr ⟨sp, block, now, rfl⟩
  | alloc => left; rw [alloc_rt]
  | encodeConnect _ c => left; rw [encode_rt]
  | encodeAfterAlloc _ enc he => left; rw [alloc_encode_rt]
  | encodeScratch _ enc he => left; rw [encode_rt]
  | enqueue _ enc off len isPub _ typ he ht hp hq hres hr => left; rw [retain_keepalive hr, alloc_encode_rt]
  | clearPing => exact Or.inl rfl
  | noteActivity _ now => exact Or.inl rfl
  | window _ _ n hw => left; rw [(window_fields hw).2]
  | commit _ bytes => exact Or.inl rfl
  | beginConnect => exact Or.inl rfl
  | setPid _ n h1 h2 => exact Or.inl rfl

end
end Minimq
