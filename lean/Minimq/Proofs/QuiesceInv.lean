import Minimq.Proofs.QuiesceFinal
/-
Bounded quiescence (C16, liveness half) — part 6: three of the hypotheses of `Setting` are invariants of
every world a program produces.

* `CtlInv`: the control queue holds at most `MAX_PENDING_CONTROL` entries (`queue_control` checks the
  capacity; nothing else lengthens the queue) and none of them is `Sent` (`flush_control` drops the entry
  it marks; `set_written` only ever writes `Write n` or `Flush`; `arm_replay` writes `Write 0`).
* `SmallIds`: the identifiers in use are below 65536 — those of retained packets come from the allocator
  (`next_packet_id`, 1 … 65535, given the counter is in that range: `SessionData.IdInv`), those of release
  entries are identifiers of retained packets (`handle_packet` queues a PUBREL only for a PUBREC that
  `ack_packet` matched).
-/
namespace Minimq
open Gen World Outbound
namespace Quiesce

/-! ### The control queue -/

/-- The control queue is within its capacity and holds no `Sent` entry. -/
structure CtlInv (o : Outbound) : Prop where
  cap : o.control.length ≤ MAX_PENDING_CONTROL
  clean : ∀ e ∈ o.control, e.state ≠ .sent

theorem CtlInv.congr {o o' : Outbound} (h : CtlInv o) (hc : o'.control = o.control) : CtlInv o' :=
  ⟨by rw [hc]; exact h.cap, by rw [hc]; exact h.clean⟩

theorem CtlInv_nil {o : Outbound} (hc : o.control = []) : CtlInv o :=
  ⟨by rw [hc]; exact Nat.zero_le _, by rw [hc]; intro e he; cases he⟩

theorem CtlInv.queueControl {o o' : Outbound} {a : ControlAction} (h : CtlInv o) (hq : o.queueControl a = some o') :
    CtlInv o' := by
  unfold Outbound.queueControl at hq
  split at hq
  · simp at hq
  · rename_i hlt
    simp only [Option.some.injEq] at hq
    subst hq
    refine ⟨?_, ?_⟩
    · simp only [List.length_append, List.length_cons, List.length_nil]; omega
    · intro e he
      simp only [List.mem_append, List.mem_singleton] at he
      rcases he with he | rfl
      · exact h.clean e he
      · intro h0; cases h0

theorem afterWrite_ne_sent (w len : Nat) : SendState.afterWrite w len ≠ .sent := by
  unfold SendState.afterWrite
  split <;> intro h <;> cases h

theorem CtlInv.setControlWritten {o : Outbound} (h : CtlInv o) (a : ControlAction) (w len : Nat) :
    CtlInv (o.setControlWritten a w len) := by
  refine ⟨?_, ?_⟩
  · show (modifyFirst _ _ o.control).length ≤ _
    rw [modifyFirst_length']; exact h.cap
  · intro e he
    rcases modifyFirst_mem _ _ _ _ (show e ∈ modifyFirst _ _ o.control from he) with he | ⟨x, _, rfl⟩
    · exact h.clean e he
    · exact afterWrite_ne_sent w len

theorem CtlInv.flushControl {o : Outbound} (h : CtlInv o) (a : ControlAction) : CtlInv (o.flushControl a) := by
  refine ⟨?_, ?_⟩
  · show (List.filter _ (modifyFirst _ _ o.control)).length ≤ _
    have h1 := List.length_filter_le (fun e : PendingControl => decide (e.state ≠ .sent))
      (modifyFirst (fun e => e.action == a) (fun e => { e with state := .sent }) o.control)
    rw [modifyFirst_length'] at h1
    exact Nat.le_trans h1 h.cap
  · intro e he
    have he' : e ∈ List.filter (fun e : PendingControl => decide (e.state ≠ .sent))
        (modifyFirst (fun e => e.action == a) (fun e => { e with state := .sent }) o.control) := he
    have := (List.mem_filter.mp he').2
    simpa using this

theorem CtlInv.dropPingreq {o : Outbound} (h : CtlInv o) : CtlInv o.dropPingreq := by
  refine ⟨?_, ?_⟩
  · show (List.filter _ o.control).length ≤ _
    exact Nat.le_trans (List.length_filter_le _ _) h.cap
  · intro e he
    have he' : e ∈ List.filter (fun e : PendingControl => decide (e.action.typ ≠ MT_PingReq)) o.control := he
    exact h.clean e (List.mem_filter.mp he').1

theorem CtlInv.armReplay {o : Outbound} (h : CtlInv o) : CtlInv o.armReplay := by
  unfold Outbound.armReplay
  split
  · exact h
  · refine ⟨?_, ?_⟩
    · simp only [markRetainedDup, List.length_map]; exact h.cap
    · intro e he
      simp only [markRetainedDup, List.mem_map] at he
      obtain ⟨x, _, rfl⟩ := he
      intro h0; cases h0

theorem CtlInv.rearm {o : Outbound} (h : CtlInv o) : CtlInv o.rearm := h.dropPingreq.armReplay

/-- Handling an inbound packet leaves the control queue alone or is a successful `queue_control`. -/
theorem handlePacket_control_queue (d : SessionData) (r : Runtime) (p : Recv) :
    (handlePacket d r p).1.outbound.control = d.outbound.control ∨
    ∃ a o', d.outbound.queueControl a = some o' ∧ (handlePacket d r p).1.outbound.control = o'.control := by
  cases p with
  | pubRel id rs =>
    simp only [handlePacket]
    repeat' split
    all_goals first
      | exact Or.inl rfl
      | exact Or.inr ⟨_, _, (by assumption), rfl⟩
  | publish topic id props payload retain qos dup =>
    simp only [handlePacket]
    repeat' split
    all_goals first
      | exact Or.inl rfl
      | exact Or.inr ⟨_, _, (by assumption), rfl⟩
  | connAck sp rc props => exact Or.inl rfl
  | pingResp => exact Or.inl rfl
  | disconnect rc props => exact Or.inl rfl
  | subAck id props codes =>
    left; simp only [handlePacket]
    split
    · rfl
    · split <;> exact (ackPacket_frame d.outbound id .subAck).2.2.1
  | unsubAck id props codes =>
    left; simp only [handlePacket]
    split
    · rfl
    · split <;> exact (ackPacket_frame d.outbound id .unsubAck).2.2.1
  | pubAck id rs =>
    left; simp only [handlePacket]
    split
    · rfl
    · split <;> exact (ackPacket_frame d.outbound id .pubAck).2.2.1
  | pubComp id rs =>
    left; simp only [handlePacket]
    split
    · rfl
    · unfold Outbound.ackRelease
      split <;> split <;> rfl
  | pubRec id rs =>
    left; simp only [handlePacket]
    have hack := (ackPacket_frame d.outbound id .pubRec).2.2.1
    split
    · split
      · exact hack
      · split
        · exact hack
        · split
          · exact hack
          · rename_i o' hq
            unfold Outbound.queueRelease at hq
            split at hq
            · simp at hq
            · simp only [Option.some.injEq] at hq; subst hq; exact hack
    · split
      · split <;> rfl
      · rfl

theorem CtlInv_handlePacket {d : SessionData} (h : CtlInv d.outbound) (r : Runtime) (p : Recv) :
    CtlInv (handlePacket d r p).1.outbound := by
  rcases handlePacket_control_queue d r p with hc | ⟨a, o', hq, hc⟩
  · exact h.congr hc
  · exact (h.queueControl hq).congr hc

/-- The invariant on the session. -/
def CtlP (s : Session) : Prop := CtlInv s.data.outbound

theorem CtlP_new (cfg : Cfg) : CtlP (Session.new cfg) := CtlInv_nil rfl

theorem closed_CtlP : Closed CtlP where
  queuePing := by
    intro s now s' h hq
    rcases Session.queuePing_ok hq with rfl | ⟨o, ho, rfl⟩
    · exact h
    · exact CtlInv.queueControl h ho
  completeFlush := by
    intro s pkt now h
    cases pkt with
    | control a => exact CtlInv.flushControl h a
    | release id => exact CtlInv.congr h rfl
    | retained id => exact CtlInv.congr h rfl
  setWritten := by
    intro s pkt a c h
    cases pkt with
    | control x => exact CtlInv.setControlWritten h x a c
    | release id => exact CtlInv.congr h rfl
    | retained id => exact CtlInv.congr h rfl
  takePkt := by intro s h; unfold CtlP; rw [(Session.takePkt_data s).1]; exact h
  handle := by intro s p h; unfold CtlP; rw [Session.handle_fst_data]; exact CtlInv_handlePacket h s.rt p
  handleDisconnect := by intro s h; exact CtlInv.rearm h
  activate := by
    intro s sp block now h
    unfold Session.activate
    simp only []
    have h0 : CtlP (if (!sp) = true then { s with data := s.data.reset } else s) := by
      split
      · exact CtlInv_nil rfl
      · exact h
    generalize (if (!sp) = true then { s with data := s.data.reset } else s) = s0 at h0 ⊢
    split
    · exact CtlInv.rearm h0
    · exact h0
  alloc := by
    intro s h
    have ho : s.alloc.1.data.outbound = s.data.outbound := by
      rw [Session.alloc_fst]; exact nextPacketId_outbound s.data
    unfold CtlP; rw [ho]; exact h
  encodeConnect := by
    intro s c h
    unfold CtlP
    rw [Session.encode_fst]
    exact CtlInv.congr h (encodeAt_ids _ _).2.2
  encodeAfterAlloc := by
    intro ε s enc _ h
    unfold CtlP
    rw [Session.encode_fst, Session.alloc_fst]
    simp only [Session.setOutbound]
    rw [nextPacketId_outbound]
    exact CtlInv.congr h (encodeAt_ids _ _).2.2
  encodeScratch := by
    intro ε s enc _ h
    unfold CtlP
    rw [Session.encode_fst]
    exact CtlInv.congr h (encodeAt_ids _ _).2.2
  enqueue := by
    intro ε s enc off len isPub s3 _ _ _ _ h _ _ hr
    rw [Session.encode_fst, Session.alloc_fst, Session.alloc_snd] at hr
    unfold Session.retain at hr
    split at hr
    · simp at hr
    · rename_i o ho
      simp only [Session.setOutbound] at ho
      rw [nextPacketId_outbound] at ho
      have hc : o.control = s.data.outbound.control := by
        unfold Outbound.retainPacket at ho
        split at ho
        · simp at ho
        · simp only [Option.some.injEq] at ho; subst ho; exact (encodeAt_ids _ _).2.2
      have : CtlInv o := CtlInv.congr h hc
      simp at hr; subst hr
      split <;> exact this
  clearPing := by intro s h; exact h
  noteActivity := by intro s now h; exact h
  window := by
    intro s s' n h hw
    unfold Session.window at hw
    split at hw
    · simp at hw
    · simp at hw; rw [← hw.1]; exact h
  commit := by intro s bytes h; exact h
  beginConnect := by intro s h; exact CtlInv.rearm h
  setPid := by intro s n _ _ h; exact h

theorem Produced.ctl {W : World} (h : Produced W) : CtlInv W.sess.data.outbound := by
  obtain ⟨cfg, ds, rfl⟩ := h
  exact run_inv closed_CtlP ds { sess := Session.new cfg } (CtlP_new cfg)

/-! ### The identifiers in use -/

/-- Every identifier in use fits two bytes. -/
def SmallIds (o : Outbound) : Prop := ∀ id ∈ o.usedIds, id < 65536

theorem SmallIds.sub {o o' : Outbound} (h : SmallIds o) (hs : ∀ id ∈ o'.usedIds, id ∈ o.usedIds) : SmallIds o' :=
  fun id hid => h id (hs id hid)

theorem SmallIds.same {o o' : Outbound} (h : SmallIds o) (h1 : o'.retained.map (·.id) = o.retained.map (·.id))
    (h2 : o'.release.map (·.id) = o.release.map (·.id)) : SmallIds o' := by
  have hu : o'.usedIds = o.usedIds := by simp [usedIds, h1, h2]
  intro id hid; rw [hu] at hid; exact h id hid

theorem ackPacket_usedIds_sub (o : Outbound) (id : Nat) (k : AckKind) :
    ∀ x ∈ (o.ackPacket id k).1.usedIds, x ∈ o.usedIds := by
  unfold Outbound.ackPacket
  simp only []
  split
  · intro x hx
    rw [usedIds_compact] at hx
    simp only [usedIds, List.mem_append] at hx ⊢
    rcases hx with hx | hx
    · exact .inl (((removeFirst_sublist _ _).map _).subset hx)
    · exact .inr hx
  · intro x hx; exact hx

theorem ackRelease_usedIds_sub (o : Outbound) (id : Nat) : ∀ x ∈ (o.ackRelease id).1.usedIds, x ∈ o.usedIds := by
  unfold Outbound.ackRelease
  split
  · intro x hx
    simp only [usedIds, List.mem_append] at hx ⊢
    rcases hx with hx | hx
    · exact .inl hx
    · exact .inr (((removeFirst_sublist _ _).map _).subset hx)
  · intro x hx; exact hx

theorem SmallIds.queueControl {o o' : Outbound} {a : ControlAction} (h : SmallIds o) (hq : o.queueControl a = some o') :
    SmallIds o' := by
  unfold Outbound.queueControl at hq
  split at hq
  · simp at hq
  · simp only [Option.some.injEq] at hq; subst hq; exact h.same rfl rfl

theorem SmallIds.queueRelease {o o' : Outbound} {id rc ps : Nat} (h : SmallIds o) (hid : id < 65536)
    (hq : o.queueRelease id rc ps = some o') : SmallIds o' := by
  unfold Outbound.queueRelease at hq
  split at hq
  · simp at hq
  · simp only [Option.some.injEq] at hq; subst hq
    intro x hx
    simp only [usedIds, List.map_append, List.map_cons, List.map_nil, List.mem_append, List.mem_singleton] at hx
    rcases hx with hx | hx | rfl
    · exact h x (by simp only [usedIds, List.mem_append]; exact .inl hx)
    · exact h x (by simp only [usedIds, List.mem_append]; exact .inr hx)
    · exact hid

theorem SmallIds.retainPacket {o o' : Outbound} {id off len : Nat} (h : SmallIds o) (hid : id < 65536)
    (hr : o.retainPacket id off len = some o') : SmallIds o' := by
  unfold Outbound.retainPacket at hr
  split at hr
  · simp at hr
  · simp only [Option.some.injEq] at hr; subst hr
    intro x hx
    simp only [usedIds, List.map_append, List.map_cons, List.map_nil, List.mem_append, List.mem_singleton] at hx
    rcases hx with (hx | rfl) | hx
    · exact h x (by simp only [usedIds, List.mem_append]; exact .inl hx)
    · exact hid
    · exact h x (by simp only [usedIds, List.mem_append]; exact .inr hx)

theorem rearm_usedIds (o : Outbound) : o.rearm.usedIds = o.usedIds := by
  unfold Outbound.rearm Outbound.armReplay
  split
  · rfl
  · simp [usedIds, markRetainedDup, dropPingreq, Function.comp_def]

theorem SmallIds.rearm {o : Outbound} (h : SmallIds o) : SmallIds o.rearm := by
  intro id hid; rw [rearm_usedIds] at hid; exact h id hid

theorem SmallIds.encodeAt {ε} {o : Outbound} (h : SmallIds o) (enc : Nat → (Nat → Nat → Bytes) → Except ε (Nat × Bytes)) :
    SmallIds (o.encodeAt enc).1 :=
  h.same (encodeAt_ids o enc).1 (by rw [(encodeAt_ids o enc).2.1])

theorem SmallIds_handlePacket {d : SessionData} (h : SmallIds d.outbound) (r : Runtime) (p : Recv) :
    SmallIds (handlePacket d r p).1.outbound := by
  have hack := fun id k => h.sub (ackPacket_usedIds_sub d.outbound id k)
  cases p with
  | connAck sp rc props => exact h
  | pingResp => exact h
  | disconnect rc props => exact h
  | subAck id props codes =>
    simp only [handlePacket]
    split
    · exact h
    · split <;> exact hack id .subAck
  | unsubAck id props codes =>
    simp only [handlePacket]
    split
    · exact h
    · split <;> exact hack id .unsubAck
  | pubAck id rs =>
    simp only [handlePacket]
    split
    · exact h
    · split <;> exact hack id .pubAck
  | pubComp id rs =>
    simp only [handlePacket]
    split
    · exact h
    · split <;> exact h.sub (ackRelease_usedIds_sub _ _)
  | pubRec id rs =>
    simp only [handlePacket]
    split
    · rename_i hfound
      have hf : (d.outbound.ackPacket id .pubRec).2 = true := hfound
      have hid : id < 65536 := h id (ackPacket_found_mem hf)
      split
      · exact hack id .pubRec
      · split
        · exact hack id .pubRec
        · split
          · exact hack id .pubRec
          · rename_i o' hq
            exact (hack id .pubRec).queueRelease hid hq
    · split
      · split <;> exact h
      · exact h
  | pubRel id rs =>
    simp only [handlePacket]
    repeat' split
    all_goals first
      | exact h
      | exact h.queueControl (by assumption)
  | publish topic id props payload retain qos dup =>
    simp only [handlePacket]
    repeat' split
    all_goals first
      | exact h
      | exact h.queueControl (by assumption)

/-- The invariant on the session: the identifier invariant (distinct, non-zero, counter in 1 … 65535) and
small identifiers. -/
def SmallP (s : Session) : Prop := s.data.IdInv ∧ SmallIds s.data.outbound

theorem SmallP_new (cfg : Cfg) : SmallP (Session.new cfg) :=
  ⟨⟨IdInv_new cfg.tx, by simp [Session.new]⟩, by intro id hid; simp [Session.new, Outbound.new, usedIds] at hid⟩

theorem closed_SmallP : Closed SmallP where
  queuePing := by
    intro s now s' h hq
    refine ⟨closed_IdInv.queuePing s now s' h.1 hq, ?_⟩
    rcases Session.queuePing_ok hq with rfl | ⟨o, ho, rfl⟩
    · exact h.2
    · exact SmallIds.queueControl h.2 ho
  completeFlush := by
    intro s pkt now h
    refine ⟨closed_IdInv.completeFlush s pkt now h.1, ?_⟩
    simp only [Session.completeFlush, Session.setOutbound]
    cases pkt <;> simp only []
    · exact h.2.same rfl rfl
    · exact h.2.same rfl (by simp [flushRelease, modifyFirst_map_id])
    · exact h.2.same (by simp [flushRetained, modifyFirst_map_id]) rfl
  setWritten := by
    intro s pkt a c h
    refine ⟨closed_IdInv.setWritten s pkt a c h.1, ?_⟩
    simp only [Session.setWritten, Session.setOutbound]
    cases pkt <;> simp only []
    · exact h.2.same rfl rfl
    · exact h.2.same rfl (by simp [setReleaseWritten, modifyFirst_map_id])
    · exact h.2.same (by simp [setRetainedWritten, modifyFirst_map_id]) rfl
  takePkt := by
    intro s h
    refine ⟨closed_IdInv.takePkt s h.1, ?_⟩
    show SmallIds s.takePkt.1.data.outbound
    rw [(Session.takePkt_data s).1]; exact h.2
  handle := by
    intro s p h
    refine ⟨closed_IdInv.handle s p h.1, ?_⟩
    show SmallIds (s.handle p).1.data.outbound
    rw [Session.handle_fst_data]; exact SmallIds_handlePacket h.2 s.rt p
  handleDisconnect := by intro s h; exact ⟨closed_IdInv.handleDisconnect s h.1, SmallIds.rearm h.2⟩
  activate := by
    intro s sp block now h
    refine ⟨closed_IdInv.activate s sp block now h.1, ?_⟩
    unfold Session.activate
    simp only []
    have h0 : SmallIds (if (!sp) = true then { s with data := s.data.reset } else s).data.outbound := by
      split
      · intro id hid; simp [SessionData.reset, Outbound.clear, usedIds] at hid
      · exact h.2
    generalize (if (!sp) = true then { s with data := s.data.reset } else s) = s0 at h0 ⊢
    split
    · exact SmallIds.rearm h0
    · exact h0
  alloc := by
    intro s h
    refine ⟨closed_IdInv.alloc s h.1, ?_⟩
    have ho : s.alloc.1.data.outbound = s.data.outbound := by
      rw [Session.alloc_fst]; exact nextPacketId_outbound s.data
    show SmallIds s.alloc.1.data.outbound
    rw [ho]; exact h.2
  encodeConnect := by
    intro s c h
    refine ⟨closed_IdInv.encodeConnect s c h.1, ?_⟩
    show SmallIds (s.encode _).1.data.outbound
    rw [Session.encode_fst]; exact SmallIds.encodeAt h.2 _
  encodeAfterAlloc := by
    intro ε s enc he h
    refine ⟨closed_IdInv.encodeAfterAlloc s enc he h.1, ?_⟩
    show SmallIds (s.alloc.1.encode enc).1.data.outbound
    rw [Session.encode_fst, Session.alloc_fst]
    simp only [Session.setOutbound]
    rw [nextPacketId_outbound]
    exact SmallIds.encodeAt h.2 _
  encodeScratch := by
    intro ε s enc he h
    refine ⟨closed_IdInv.encodeScratch s enc he h.1, ?_⟩
    show SmallIds (s.encode enc).1.data.outbound
    rw [Session.encode_fst]; exact SmallIds.encodeAt h.2 _
  enqueue := by
    intro ε s enc off len isPub s3 typ he ht hiff h hquota hres hr
    refine ⟨closed_IdInv.enqueue s enc off len isPub s3 typ he ht hiff h.1 hquota hres hr, ?_⟩
    have hf := nextPacketId_fresh s.data h.1.pid h.1.out.retCap h.1.out.relCap
    simp only [] at hf
    have hid : s.data.nextPacketId.2 < 65536 := by omega
    rw [Session.encode_fst, Session.alloc_fst, Session.alloc_snd] at hr
    unfold Session.retain at hr
    split at hr
    · simp at hr
    · rename_i o ho
      simp only [Session.setOutbound] at ho
      rw [nextPacketId_outbound] at ho
      have : SmallIds o := (SmallIds.encodeAt h.2 enc).retainPacket hid ho
      simp at hr; subst hr
      split <;> exact this
  clearPing := by intro s h; exact h
  noteActivity := by intro s now h; exact h
  window := by
    intro s s' n h hw
    unfold Session.window at hw
    split at hw
    · simp at hw
    · simp at hw; rw [← hw.1]; exact h
  commit := by intro s bytes h; exact h
  beginConnect := by intro s h; exact ⟨closed_IdInv.beginConnect s h.1, SmallIds.rearm h.2⟩
  setPid := by intro s n h1 h2 h; exact ⟨closed_IdInv.setPid s n h1 h2 h.1, h.2⟩

theorem Produced.small {W : World} (h : Produced W) : SmallIds W.sess.data.outbound := by
  obtain ⟨cfg, ds, rfl⟩ := h
  exact (run_inv closed_SmallP ds { sess := Session.new cfg } (SmallP_new cfg)).2

end Quiesce
end Minimq
