import Minimq.Proofs.FuelAdequate
import Minimq.Proofs.OutFrame
/-
C13, machine level — cancelling a cancel-safe operation and driving on is the same as resuming it.

Part 1: the thirteen machine functions without their fuel (`ev`), with one unfolding equation each.
-/
namespace Minimq
open Gen World Fuel

/-- The value of a call (fuel adequacy: any fuel from 354 on gives this value). -/
def ev (c : Call) : World := c.run fuelBound

theorem run_ev (c : Call) (f : Nat) (hf : fuelBound ≤ f) : c.run f = ev c := run_uniform c f hf

theorem ev_SR (w : World) (ctx : StepCtx) (adv : Bool) :
    ev (.SR w ctx adv) = match ctx with
      | .flush k => ev (.FL w k)
      | .drive advanced outer => ev (.DAS w outer (advanced || adv)) := by
  rw [← run_ev _ (fuelBound + 1) (Nat.le_succ _)]
  show stepReturned (fuelBound + 1) w ctx adv = _
  unfold stepReturned
  cases ctx <;> rfl

theorem ev_FL (w : World) (k : AfterFlush) :
    ev (.FL w k) = match w.maybeQueuePingreq w.now with
      | .error e => (w.discFail (.flush k)).finishErr (afterFlushName k) e
      | .ok w1 =>
        match w1.sess.data.outbound.nextStep with
        | none => ev (.AF w1 k)
        | some step => ev (.PS w1 (.flush k) step w1.now) := by
  rw [← run_ev _ (fuelBound + 1) (Nat.le_succ _)]
  show flushLoop (fuelBound + 1) w k = _
  rw [flushLoop]
  rfl

theorem ev_PS (w : World) (ctx : StepCtx) (step : Outbound.Step) (now : Nat) :
    ev (.PS w ctx step now) = match prepareStep w step with
      | .fail e => (w.failStep ctx step).finishErr (ctxName ctx) e
      | .done => ev (.SR w ctx false)
      | .flush pkt => if !w.live then (w.discFail ctx).finishErr (ctxName ctx) .disconnected else ev (.DSF w ctx pkt now)
      | .write pkt bytes written len =>
        if !w.live then (w.discFail ctx).finishErr (ctxName ctx) .disconnected else ev (.DSW w ctx pkt bytes written len now) := by
  rw [← run_ev _ (fuelBound + 1) (Nat.le_succ _)]
  show performStep (fuelBound + 1) w ctx step now = _
  rw [performStep]
  rfl

theorem ev_DSW (w : World) (ctx : StepCtx) (pkt : Flushed) (bytes : Bytes) (written len now : Nat) :
    ev (.DSW w ctx pkt bytes written len now) = match w.ioWrite (bytes.drop written) with
      | (w, .pending) => w.suspend (.stepWrite ctx pkt bytes written len now)
      | (w, .zero) => (w.discFail ctx).finishErr (ctxName ctx) .writeZero
      | (w, .err k) => (w.handleDisconnect).finishErr (ctxName ctx) (.transport k)
      | (w, .ok count) =>
        if written + count < len then ev (.SR (w.setWritten pkt (written + count) len) ctx true)
        else ev (.DSF (w.setWritten pkt (written + count) len) ctx pkt now) := by
  rw [← run_ev _ (fuelBound + 1) (Nat.le_succ _)]
  show doStepWrite (fuelBound + 1) w ctx pkt bytes written len now = _
  rw [doStepWrite]
  rfl

theorem ev_DSF (w : World) (ctx : StepCtx) (pkt : Flushed) (now : Nat) :
    ev (.DSF w ctx pkt now) = match w.ioFlush with
      | (w, .pending) => w.suspend (.stepFlush ctx pkt now)
      | (w, .err k) => (w.handleDisconnect).finishErr (ctxName ctx) (.transport k)
      | (w, .ok) => ev (.SR (w.completeFlush pkt now) ctx true) := by
  rw [← run_ev _ (fuelBound + 1) (Nat.le_succ _)]
  show doStepFlush (fuelBound + 1) w ctx pkt now = _
  rw [doStepFlush]
  rfl

theorem ev_AF_post (w : World) (name : String) (op : Op) : ev (.AF w (.post name op)) = w.finishOp name op := by
  rw [← run_ev _ (fuelBound + 1) (Nat.le_succ _)]
  show afterFlush (fuelBound + 1) w (.post name op) = _
  rw [afterFlush]

theorem ev_DE (w : World) (outer : Outer) :
    ev (.DE w outer) = if !w.live then w.finishErr (outerName outer) .disconnected else ev (.DL w outer false) := by
  rw [← run_ev _ (fuelBound + 1) (Nat.le_succ _)]
  show driveEnter (fuelBound + 1) w outer = _
  rw [driveEnter]
  rfl

theorem ev_DL (w : World) (outer : Outer) (advanced : Bool) :
    ev (.DL w outer advanced) =
      if w.sess.reader.packetAvailable then
        match w.processReceivedPacket with
        | (w, .error e) => w.finishErr (outerName outer) e
        | (w, .ok (some len)) => w.deliver (outerName outer) len
        | (w, .ok none) => ev (.DL w outer true)
      else
        if (match w.sess.rt.pingTimeout with
            | some d => decide (w.now ≥ d)
            | none => false) then (w.handleDisconnect).finishErr (outerName outer) .disconnected else
        match w.maybeQueuePingreq w.now with
        | .error e => w.finishErr (outerName outer) e
        | .ok w1 =>
          match w1.sess.data.outbound.nextStep with
          | none => ev (.DAS w1 outer advanced)
          | some step => ev (.PS w1 (.drive advanced outer) step w.now) := by
  rw [← run_ev _ (fuelBound + 1) (Nat.le_succ _)]
  show driveLoop (fuelBound + 1) w outer advanced = _
  rw [driveLoop]
  rfl

theorem ev_DAS (w : World) (outer : Outer) (advanced : Bool) :
    ev (.DAS w outer advanced) =
      if w.sess.reader.packetAvailable then
        match w.processReceivedPacket with
        | (w, .error e) => w.finishErr (outerName outer) e
        | (w, .ok (some len)) => w.deliver (outerName outer) len
        | (w, .ok none) => ev (.DL w outer true)
      else if w.sess.data.outbound.nextStep.isNone then
        if advanced then
          (match outer with
           | .drive => w.finish "ret drive ok none"
           | .poll => w.finish "ret poll ok none"
           | .recv => ev (.DE w .recv))
        else
          (match outer with
           | .drive => w.finish "ret drive ok none"
           | _ => ev (.DWR w outer w.sess.rt.nextDeadline false))
      else ev (.DL w outer advanced) := by
  rw [← run_ev _ (fuelBound + 1) (Nat.le_succ _)]
  show driveAfterService (fuelBound + 1) w outer advanced = _
  unfold driveAfterService
  rfl

theorem ev_DWR (w : World) (outer : Outer) (deadline : Option Nat) (yielded : Bool) :
    ev (.DWR w outer deadline yielded) =
      if w.sess.reader.packetAvailable then ev (.DE w outer) else
      match w.sess.window with
      | none => (w.handleDisconnect).finishErr (outerName outer) .peerInvalid
      | some (s1, window) =>
        if window = 0 then ev (.DE { w with sess := s1 } outer) else
        match ({ w with sess := s1 } : World).ioRead window with
        | (w, .eof) => (w.handleDisconnect).finishErr (outerName outer) .disconnected
        | (w, .err k) => (w.handleDisconnect).finishErr (outerName outer) (.transport k)
        | (w, .ok bytes) => ev (.DWR { w with sess := w.sess.commit bytes } outer deadline yielded)
        | (w, .pending) =>
          match deadline with
          | none => w.suspend (.waitRead outer none true)
          | some d =>
            if w.now ≥ d then
              if yielded then ev (.DE w outer)
              else
                if w.wakes + 1 ≥ 64 then
                  ({ w with wakes := w.wakes + 1 }.emit "spin").suspend (.waitRead outer deadline true)
                else ev (.DWR { w with wakes := w.wakes + 1 } outer deadline true)
            else w.suspend (.waitRead outer deadline true) := by
  rw [← run_ev _ (fuelBound + 1) (Nat.le_succ _)]
  show doWaitRead (fuelBound + 1) w outer deadline yielded = _
  rw [doWaitRead]
  rfl


/-! ### Part 2: time, and what is compared -/

/-- No keep-alive event is due: the next PINGREQ and the ping timeout, if armed, lie in the future. -/
def KaCalm (rt : Runtime) (now : Nat) : Prop :=
  (∀ np, rt.nextPing = some np → now < np) ∧ (∀ pt, rt.pingTimeout = some pt → now < pt)

theorem KaCalm.queuePing {s : Session} {now : Nat} (h : KaCalm s.rt now) : s.queuePing now = .ok s := by
  unfold Session.queuePing
  simp only []
  cases hn : s.rt.nextPing with
  | none => simp
  | some np =>
    have := h.1 np hn
    have hd : decide (now ≥ np) = false := by simp; omega
    simp [hd]

theorem KaCalm.maybe {w : World} (h : KaCalm w.sess.rt w.now) : w.maybeQueuePingreq w.now = .ok w := by
  unfold World.maybeQueuePingreq
  rw [h.queuePing]

theorem KaCalm.notTimedOut {rt : Runtime} {now : Nat} (h : KaCalm rt now) :
    (match rt.pingTimeout with | some d => decide (now ≥ d) | none => false) = false := by
  cases hn : rt.pingTimeout with
  | none => rfl
  | some d => have := h.2 d hn; simp; omega

theorem KaCalm.deadline {rt : Runtime} {now : Nat} (h : KaCalm rt now) : ∀ d, rt.nextDeadline = some d → now < d := by
  intro d hd
  unfold Runtime.nextDeadline at hd
  cases hn : rt.nextPing <;> cases hp : rt.pingTimeout <;> rw [hn, hp] at hd <;> simp only [Option.some.injEq] at hd
  · cases hd
  · subst hd; exact h.2 _ hp
  · subst hd; exact h.1 _ hn
  · subst hd; exact h.2 _ hp

theorem noteOutboundActivity_calm (r : Runtime) (now : Nat) :
    (∀ np, (r.noteOutboundActivity now).nextPing = some np → now < np) ∧
    (r.noteOutboundActivity now).pingTimeout = r.pingTimeout := by
  refine ⟨?_, rfl⟩
  intro np hnp
  simp only [Runtime.noteOutboundActivity, Runtime.keepaliveSendInterval] at hnp
  split at hnp
  · simp at hnp
  · rename_i hka
    simp only [Option.map_some, Option.some.injEq] at hnp
    have h1 : min ROUND_TRIP_TIMEOUT_MS (r.keepaliveMs / 2) ≤ r.keepaliveMs / 2 := Nat.min_le_right _ _
    have h2 : 1 ≤ r.keepaliveMs - min ROUND_TRIP_TIMEOUT_MS (r.keepaliveMs / 2) := by omega
    have h3 : 1000 ≤ (r.keepaliveMs - min ROUND_TRIP_TIMEOUT_MS (r.keepaliveMs / 2)) * 1000 :=
      Nat.le_mul_of_pos_left _ h2
    omega

theorem KaCalm.completeFlush {s : Session} {now : Nat} (h : KaCalm s.rt now) (pkt : Flushed) :
    KaCalm (s.completeFlush pkt now).rt now := by
  have hrtt : 0 < ROUND_TRIP_TIMEOUT_MS * 1000 := by decide
  have hrt : ∀ r0 : Runtime, (∀ pt, r0.pingTimeout = some pt → now < pt) →
      KaCalm (r0.noteOutboundActivity now) now := by
    intro r0 h0
    obtain ⟨n1, n2⟩ := noteOutboundActivity_calm r0 now
    exact ⟨n1, by rw [n2]; exact h0⟩
  unfold Session.completeFlush
  simp only []
  apply hrt
  intro pt hpt
  cases pkt with
  | control a =>
    simp only [] at hpt
    split at hpt
    · simp only [Option.some.injEq] at hpt; omega
    · exact h.2 pt hpt
  | release id => exact h.2 pt hpt
  | retained id => exact h.2 pt hpt

/-- A world up to the trace, the suspended future and the two per-POLL flags. -/
def World.rest (w : World) : World := { w with out := [], fut := none, wakes := 0, lastIoStarved := false }

/-- … and up to the handles and the result of the last completed operation. -/
def World.fin (w : World) : World := { w.rest with handles := [], lastRes := none }

theorem fin_of_rest {a b : World} (h : a.rest = b.rest) : a.fin = b.fin := by unfold World.fin; rw [h]

@[simp] theorem rest_suspend (w : World) (pc : Pc) : (w.suspend pc).rest = w.rest := rfl
@[simp] theorem rest_emit (w : World) (l : String) : (w.emit l).rest = w.rest := rfl
@[simp] theorem rest_addOld (w : World) (o : List String) : (w.addOld o).rest = w.rest := rfl
@[simp] theorem fin_addOld (w : World) (o : List String) : (w.addOld o).fin = w.fin := rfl
@[simp] theorem fin_finish (w : World) (l : String) : (w.finish l).fin = w.fin := rfl
@[simp] theorem fin_finishErr (w : World) (n : String) (e : Err) : (w.finishErr n e).fin = w.fin := rfl
@[simp] theorem fin_finishOp (w : World) (n : String) (op : Op) : (w.finishOp n op).fin = w.fin := rfl
@[simp] theorem fin_emit (w : World) (l : String) : (w.emit l).fin = w.fin := rfl

theorem fin_foldl_emit (ls : List String) (w : World) : (ls.foldl World.emit w).fin = w.fin := by
  induction ls generalizing w with
  | nil => rfl
  | cons l ls ih => simp only [List.foldl]; rw [ih]; rfl

theorem fut_foldl_emit (ls : List String) (w : World) : (ls.foldl World.emit w).fut = w.fut := by
  induction ls generalizing w with
  | nil => rfl
  | cons l ls ih => simp only [List.foldl]; rw [ih]; rfl

theorem fin_deliver (w : World) (n : String) (len : Nat) : (w.deliver n len).fin = w.fin := by
  unfold World.deliver
  simp only []
  split
  · rw [fin_foldl_emit]; rfl
  · rfl

theorem fut_deliver (w : World) (n : String) (len : Nat) : (w.deliver n len).fut = none := by
  unfold World.deliver
  simp only []
  split
  · rw [fut_foldl_emit]; rfl
  · rfl

/-! ### The I/O calls -/

theorem cs_ioWrite_same (w : World) (bs : Bytes) :
    (w.ioWrite bs).1.sess = w.sess ∧ (w.ioWrite bs).1.now = w.now ∧ (w.ioWrite bs).1.conn = w.conn ∧
    (w.ioWrite bs).1.fut = w.fut := by
  unfold World.ioWrite
  cases w.slot with
  | none => exact ⟨rfl, rfl, rfl, rfl⟩
  | some n => simp only []; repeat' split
              all_goals exact ⟨rfl, rfl, rfl, rfl⟩

theorem cs_ioFlush_same (w : World) :
    (w.ioFlush).1.sess = w.sess ∧ (w.ioFlush).1.now = w.now ∧ (w.ioFlush).1.conn = w.conn ∧ (w.ioFlush).1.fut = w.fut := by
  unfold World.ioFlush
  cases w.slot with
  | none => exact ⟨rfl, rfl, rfl, rfl⟩
  | some n => simp only []; split <;> exact ⟨rfl, rfl, rfl, rfl⟩

theorem cs_ioWrite_slot (w : World) (bs : Bytes) : (w.ioWrite bs).1.slot = none := by
  unfold World.ioWrite
  cases h : w.slot with
  | none => exact h
  | some n => simp only []; repeat' split
              all_goals rfl

theorem cs_ioFlush_slot (w : World) : (w.ioFlush).1.slot = none := by
  unfold World.ioFlush
  cases h : w.slot with
  | none => exact h
  | some n => simp only []; split <;> rfl

theorem cs_ioWrite_none {w : World} (bs : Bytes) (h : w.slot = none) :
    w.ioWrite bs = ({ (w.emit s!"wp {w.netIdx}") with lastIoStarved := false }, .pending) := by
  unfold World.ioWrite; rw [h]

theorem cs_ioFlush_none {w : World} (h : w.slot = none) :
    w.ioFlush = ({ (w.emit s!"fp {w.netIdx}") with lastIoStarved := false }, .pending) := by
  unfold World.ioFlush; rw [h]


/-! ### Part 3: an operation inside its `flush_outbound` against a `poll` -/

/-- What the comparison needs of the common state at a write/flush await: no complete inbound packet
is waiting (`drive_packet` would handle it first, `flush_outbound` does not look) and no keep-alive
event is due (`drive_packet` checks the ping timeout, `flush_outbound` does not; and they look at the
queue and at the PINGREQ timer in different orders). -/
structure AwaitOK (w : World) : Prop where
  avail : w.sess.reader.packetAvailable = false
  calm : KaCalm w.sess.rt w.now

/-- Corresponding await points: the same I/O call for the same queue entry, reached from
`flush_outbound` with continuation `k` in run A and from `poll` in run B. -/
inductive PcF (k : AfterFlush) (now : Nat) : Pc → Pc → Prop
  | write (adv : Bool) (pkt : Flushed) (bytes : Bytes) (wr len : Nat) :
      PcF k now (.stepWrite (.flush k) pkt bytes wr len now) (.stepWrite (.drive adv .poll) pkt bytes wr len now)
  | flush (adv : Bool) (pkt : Flushed) :
      PcF k now (.stepFlush (.flush k) pkt now) (.stepFlush (.drive adv .poll) pkt now)

/-- How the final states compare when both operations have completed with an error inside the flush:
they are the same — except that `disconnect` (continuation `.discPre`) ends the connection when its
preliminary flush fails (`disconnect_with`: `handle_disconnect()` before the error is returned), which
`poll` does only for a transport error: then run A's state is run B's after `handle_disconnect`. -/
def DoneF (k : AfterFlush) (a b : World) : Prop :=
  a.fin = b.fin ∨ ((∃ d, k = .discPre d) ∧ a.fin = (b.handleDisconnect).fin)

theorem DoneF.same {k : AfterFlush} {a b : World} (h : DoneF k a b) (hk : ∀ d, k ≠ .discPre d) : a.fin = b.fin := by
  rcases h with h | ⟨⟨d, hd⟩, _⟩
  · exact h
  · exact (hk d hd).elim

theorem doneF_discFail (k : AfterFlush) (adv : Bool) (x : World) (e : Err) :
    DoneF k ((x.discFail (.flush k)).finishErr (ctxName (.flush k)) e)
      ((x.discFail (.drive adv .poll)).finishErr (ctxName (.drive adv .poll)) e) := by
  rcases discFail_cases x (.flush k) with ⟨e1, _⟩ | ⟨e1, d, hd⟩
  · left; rw [e1]; rfl
  · right; refine ⟨⟨d, by injection hd⟩, ?_⟩; rw [e1]; rfl

/-- The three ways one POLL of the two runs can end. -/
inductive OutF (k : AfterFlush) : World → World → Prop
  /-- both suspended again, at corresponding await points, in the same state -/
  | susp {a b : World} {pa pb : Pc} : a.fut = some pa → b.fut = some pb → a.rest = b.rest → AwaitOK a →
      PcF k a.now pa pb → OutF k a b
  /-- both operations completed (with the same error), in the same state -/
  | done {a b : World} : a.fut = none → b.fut = none → DoneF k a b → OutF k a b
  /-- the queues are drained: run B's `poll` completed with `Ok`, and run A went on to its continuation
  `k` from the same state `u0` -/
  | handed {a b : World} (u0 : World) : a = ev (.AF u0 k) → u0.slot = none → b.fut = none →
      b.lastRes = some (.ok ()) → u0.fin = b.fin → OutF k a b

theorem dsfF_none (k : AfterFlush) (u : World) (hs : u.slot = none) (hg : AwaitOK u) (adv : Bool) (pkt : Flushed) :
    OutF k (ev (.DSF u (.flush k) pkt u.now)) (ev (.DSF u (.drive adv .poll) pkt u.now)) := by
  rw [ev_DSF, ev_DSF, cs_ioFlush_none hs]
  exact .susp rfl rfl rfl ⟨hg.avail, hg.calm⟩ (.flush adv pkt)

theorem dswF_none (k : AfterFlush) (u : World) (hs : u.slot = none) (hg : AwaitOK u) (adv : Bool) (pkt : Flushed)
    (bytes : Bytes) (wr len : Nat) :
    OutF k (ev (.DSW u (.flush k) pkt bytes wr len u.now)) (ev (.DSW u (.drive adv .poll) pkt bytes wr len u.now)) := by
  rw [ev_DSW, ev_DSW, cs_ioWrite_none _ hs]
  exact .susp rfl rfl rfl ⟨hg.avail, hg.calm⟩ (.write adv pkt bytes wr len)

theorem psF_none (k : AfterFlush) (u : World) (hs : u.slot = none) (hg : AwaitOK u) (adv : Bool) (st : Outbound.Step)
    (hnd : isDone (prepareStep u st) = false) :
    OutF k (ev (.PS u (.flush k) st u.now)) (ev (.PS u (.drive adv .poll) st u.now)) := by
  rw [ev_PS, ev_PS]
  cases hp : prepareStep u st with
  | fail e =>
    cases st with
    | retained id off len s => exact .done rfl rfl (doneF_discFail k adv u e)
    | control a s => exact .done rfl rfl (.inl rfl)
    | release id rc s => exact .done rfl rfl (.inl rfl)
  | done => rw [hp] at hnd; simp [isDone] at hnd
  | flush pkt =>
    simp only []
    cases hl : u.live with
    | false => exact .done rfl rfl (doneF_discFail k adv u _)
    | true => simp only [Bool.not_true, Bool.false_eq_true, if_false]; exact dsfF_none k u hs hg adv pkt
  | write pkt bytes wr len =>
    simp only []
    cases hl : u.live with
    | false => exact .done rfl rfl (doneF_discFail k adv u _)
    | true => simp only [Bool.not_true, Bool.false_eq_true, if_false]; exact dswF_none k u hs hg adv pkt bytes wr len

/-- After a step has returned (the I/O decision of this POLL is used up): `flush_outbound` in run A and
`drive_packet` in run B take the same next step, or are both done. -/
theorem settleF (k : AfterFlush) (u : World) (hs : u.slot = none) (hg : AwaitOK u) :
    OutF k (ev (.FL u k)) (ev (.DAS u .poll true)) := by
  rw [ev_FL, hg.calm.maybe, ev_DAS]
  simp only [hg.avail, Bool.false_eq_true, if_false]
  cases hn : u.sess.data.outbound.nextStep with
  | none =>
    simp only [Option.isNone_none, if_true]
    exact .handed u rfl hs rfl rfl rfl
  | some st =>
    simp only [Option.isNone_some, Bool.false_eq_true, if_false]
    rw [ev_DL]
    simp only [hg.avail, Bool.false_eq_true, if_false, hg.calm.notTimedOut, hg.calm.maybe, hn]
    exact psF_none k u hs hg true st (nextStep_not_done u _ st hn)

theorem cs_completeFlush_reader (w : World) (pkt : Flushed) (now : Nat) :
    (w.completeFlush pkt now).sess.reader = w.sess.reader := by
  unfold World.completeFlush Session.completeFlush; rfl

theorem cs_setWritten_reader_rt (w : World) (pkt : Flushed) (a c : Nat) :
    (w.setWritten pkt a c).sess.reader = w.sess.reader ∧ (w.setWritten pkt a c).sess.rt = w.sess.rt := by
  unfold World.setWritten Session.setWritten; exact ⟨rfl, rfl⟩

/-- Resuming at the `flush` await with the same I/O decision. -/
theorem dsfF (k : AfterFlush) (u : World) (hg : AwaitOK u) (adv : Bool) (pkt : Flushed) :
    OutF k (ev (.DSF u (.flush k) pkt u.now)) (ev (.DSF u (.drive adv .poll) pkt u.now)) := by
  rw [ev_DSF, ev_DSF]
  obtain ⟨e1, e2, _, _⟩ := cs_ioFlush_same u
  have e3 := cs_ioFlush_slot u
  cases hio : u.ioFlush with
  | mk u1 r =>
    rw [hio] at e1 e2 e3
    simp only [] at e1 e2 e3
    cases r with
    | pending =>
      have hgood : AwaitOK (u1.suspend (.stepFlush (.flush k) pkt u.now)) :=
        ⟨by show u1.sess.reader.packetAvailable = false; rw [e1]; exact hg.avail,
         by show KaCalm u1.sess.rt u1.now; rw [e1, e2]; exact hg.calm⟩
      refine .susp rfl rfl rfl hgood ?_
      show PcF k u1.now _ _
      rw [e2]; exact .flush adv pkt
    | err kk => exact .done rfl rfl (.inl rfl)
    | ok =>
      simp only []
      rw [ev_SR, ev_SR]
      simp only [Bool.or_true]
      refine settleF k _ e3 ⟨?_, ?_⟩
      · rw [cs_completeFlush_reader, e1]; exact hg.avail
      · show KaCalm (u1.sess.completeFlush pkt u.now).rt u1.now
        rw [e1, e2]; exact hg.calm.completeFlush pkt

/-- Resuming at the `write` await with the same I/O decision. -/
theorem dswF (k : AfterFlush) (u : World) (hg : AwaitOK u) (adv : Bool) (pkt : Flushed) (bytes : Bytes) (wr len : Nat) :
    OutF k (ev (.DSW u (.flush k) pkt bytes wr len u.now)) (ev (.DSW u (.drive adv .poll) pkt bytes wr len u.now)) := by
  rw [ev_DSW, ev_DSW]
  obtain ⟨e1, e2, _, _⟩ := cs_ioWrite_same u (bytes.drop wr)
  have e3 := cs_ioWrite_slot u (bytes.drop wr)
  cases hio : u.ioWrite (bytes.drop wr) with
  | mk u1 r =>
    rw [hio] at e1 e2 e3
    simp only [] at e1 e2 e3
    cases r with
    | pending =>
      have hgood : AwaitOK (u1.suspend (.stepWrite (.flush k) pkt bytes wr len u.now)) :=
        ⟨by show u1.sess.reader.packetAvailable = false; rw [e1]; exact hg.avail,
         by show KaCalm u1.sess.rt u1.now; rw [e1, e2]; exact hg.calm⟩
      refine .susp rfl rfl rfl hgood ?_
      show PcF k u1.now _ _
      rw [e2]; exact .write adv pkt bytes wr len
    | zero => exact .done rfl rfl (doneF_discFail k adv u1 _)
    | err kk => exact .done rfl rfl (.inl rfl)
    | ok count =>
      simp only []
      have hg2 : AwaitOK (u1.setWritten pkt (wr + count) len) := by
        obtain ⟨r1, r2⟩ := cs_setWritten_reader_rt u1 pkt (wr + count) len
        refine ⟨by rw [r1, e1]; exact hg.avail, ?_⟩
        rw [r2, e1, show (u1.setWritten pkt (wr + count) len).now = u1.now from rfl, e2]; exact hg.calm
      have hs2 : (u1.setWritten pkt (wr + count) len).slot = none := e3
      have hn2 : (u1.setWritten pkt (wr + count) len).now = u.now := e2
      split
      · rw [ev_SR, ev_SR]
        simp only [Bool.or_true]
        exact settleF k _ hs2 hg2
      · have := dsfF_none k _ hs2 hg2 adv pkt
        rw [hn2] at this
        exact this


/-! ### Part 4: `poll` / `recv` / `drive` against a fresh one of the same kind -/

/-- Await points that differ at most in the `advanced` flag of `drive_packet`. -/
inductive PcD : Pc → Pc → Prop
  | write (a1 a2 : Bool) (o : Outer) (pkt : Flushed) (bytes : Bytes) (wr len now : Nat) :
      PcD (.stepWrite (.drive a1 o) pkt bytes wr len now) (.stepWrite (.drive a2 o) pkt bytes wr len now)
  | flush (a1 a2 : Bool) (o : Outer) (pkt : Flushed) (now : Nat) :
      PcD (.stepFlush (.drive a1 o) pkt now) (.stepFlush (.drive a2 o) pkt now)
  | same (pc : Pc) : PcD pc pc

inductive FutD : Option Pc → Option Pc → Prop
  | none : FutD none none
  | some {pa pb : Pc} : PcD pa pb → FutD (some pa) (some pb)

theorem FutD.refl (f : Option Pc) : FutD f f := by
  cases f with
  | none => exact .none
  | some pc => exact .some (.same pc)

/-- Equal in everything, except possibly that flag inside the suspended future. -/
def EqD (x y : World) : Prop := ({ x with fut := none } : World) = { y with fut := none } ∧ FutD x.fut y.fut

theorem EqD.refl (x : World) : EqD x x := ⟨rfl, FutD.refl _⟩

theorem dsfD (u : World) (a1 a2 : Bool) (o : Outer) (pkt : Flushed) (now : Nat) :
    EqD (ev (.DSF u (.drive a1 o) pkt now)) (ev (.DSF u (.drive a2 o) pkt now)) := by
  rw [ev_DSF, ev_DSF]
  cases hio : u.ioFlush with
  | mk u1 r =>
    cases r with
    | pending => exact ⟨rfl, .some (.flush a1 a2 o pkt now)⟩
    | err kk => exact EqD.refl _
    | ok =>
      simp only []
      rw [ev_SR, ev_SR]
      simp only [Bool.or_true]
      exact EqD.refl _

theorem dswD (u : World) (a1 a2 : Bool) (o : Outer) (pkt : Flushed) (bytes : Bytes) (wr len now : Nat) :
    EqD (ev (.DSW u (.drive a1 o) pkt bytes wr len now)) (ev (.DSW u (.drive a2 o) pkt bytes wr len now)) := by
  rw [ev_DSW, ev_DSW]
  cases hio : u.ioWrite (bytes.drop wr) with
  | mk u1 r =>
    cases r with
    | pending => exact ⟨rfl, .some (.write a1 a2 o pkt bytes wr len now)⟩
    | zero => exact EqD.refl _
    | err kk => exact EqD.refl _
    | ok count =>
      simp only []
      split
      · rw [ev_SR, ev_SR]
        simp only [Bool.or_true]
        exact EqD.refl _
      · exact dsfD _ a1 a2 o pkt now

theorem resumeD (u : World) {pa pb : Pc} (h : PcD pa pb) : EqD (ev (resumeCall u pa)) (ev (resumeCall u pb)) := by
  cases h with
  | write a1 a2 o pkt bytes wr len now => exact dswD u a1 a2 o pkt bytes wr len now
  | flush a1 a2 o pkt now => exact dsfD u a1 a2 o pkt now
  | same pc => exact EqD.refl _

/-! ### Part 5: from the common state to the two worlds -/

/-- A POLL with I/O decision `n` of a suspended world, in terms of `ev`: the result depends on the
world only through `rest` and the future, and the old trace stays at the old end. -/
theorem exec_d_resume (a : World) (pc : Pc) (hf : a.fut = some pc) (n : Nat) :
    a.execDirective (.d n) =
      { (ev (resumeCall { a.rest with slot := some n } pc)).addOld a.out with slot := none } := by
  have F := frame_all pollFuel
  have hX : ({ ({ a with slot := some n } : World) with wakes := 0, lastIoStarved := false, fut := none } : World) =
      ({ a.rest with slot := some n } : World).addOld a.out := rfl
  have key : World.poll { a with slot := some n } = (ev (resumeCall { a.rest with slot := some n } pc)).addOld a.out := by
    rw [poll_eq_pollWith]
    unfold World.pollWith
    simp only [hf]
    rw [hX]
    generalize ({ a.rest with slot := some n } : World) = U
    rw [← run_ev _ pollFuel fuelBound_le_pollFuel]
    cases pc
    case stepWrite ctx pkt bytes written len now => exact F.dsw _ _ _ _ _ _ _ _
    case stepFlush ctx pkt now => exact F.dsf _ _ _ _ _
    case connWrite bytes => exact F.dlw _ _ _ _
    case connFlush => exact F.dlf _ _ _
    case connRead => exact F.dcr _ _
    case q0Write bytes => exact F.dlw _ _ _ _
    case q0Flush => exact F.dlf _ _ _
    case discWrite bytes => exact F.dlw _ _ _ _
    case discFlush => exact F.dlf _ _ _
    case waitRead outer deadline yielded => exact F.dwr _ _ _ _ _
  show (if a.fut.isNone then a.emit "bad-op" else
    ({ (World.poll { a with slot := some n }) with slot := none } : World)) = _
  rw [if_neg (by rw [hf]; simp), key]

/-- What `.d n` does around the machine functions. -/
def wrap (z : World) (o : List String) : World := { z.addOld o with slot := none }

theorem exec_d_wrap (a : World) (pc : Pc) (hf : a.fut = some pc) (n : Nat) :
    a.execDirective (.d n) = wrap (ev (resumeCall { a.rest with slot := some n } pc)) a.out :=
  exec_d_resume a pc hf n

@[simp] theorem wrap_fut (z : World) (o : List String) : (wrap z o).fut = z.fut := rfl
@[simp] theorem wrap_now (z : World) (o : List String) : (wrap z o).now = z.now := rfl
@[simp] theorem wrap_sess (z : World) (o : List String) : (wrap z o).sess = z.sess := rfl
@[simp] theorem wrap_lastRes (z : World) (o : List String) : (wrap z o).lastRes = z.lastRes := rfl
theorem wrap_rest (z : World) (o : List String) : (wrap z o).rest = { z.rest with slot := none } := rfl
theorem wrap_fin (z : World) (o : List String) : (wrap z o).fin = { z.fin with slot := none } := rfl

theorem wrap_rest_congr {x y : World} (h : x.rest = y.rest) (ox oy : List String) : (wrap x ox).rest = (wrap y oy).rest := by
  rw [wrap_rest, wrap_rest, h]

theorem wrap_fin_congr {x y : World} (h : x.fin = y.fin) (ox oy : List String) : (wrap x ox).fin = (wrap y oy).fin := by
  rw [wrap_fin, wrap_fin, h]

/-- **Run A inside `flush_outbound` with continuation `k`, run B inside a `poll`**, suspended at
corresponding await points in the same state. -/
structure RF (k : AfterFlush) (a b : World) : Prop where
  rest : a.rest = b.rest
  good : AwaitOK a
  pcs : ∃ pa pb, a.fut = some pa ∧ b.fut = some pb ∧ PcF k a.now pa pb

/-- How one POLL with the same I/O decision ends. -/
inductive StepF (k : AfterFlush) (a' b' : World) : Prop
  | susp : RF k a' b' → StepF k a' b'
  | done : a'.fut = none → b'.fut = none → DoneF k a' b' → StepF k a' b'
  | handed (u0 : World) (oa : List String) : a' = wrap (ev (.AF u0 k)) oa → u0.slot = none → b'.fut = none →
      b'.lastRes = some (.ok ()) → u0.fin = b'.fin → StepF k a' b'

theorem OutF.wrap {k : AfterFlush} {x y : World} (h : OutF k x y) (ox oy : List String) : StepF k (wrap x ox) (wrap y oy) := by
  cases h with
  | susp h1 h2 h3 h4 h5 => exact .susp ⟨wrap_rest_congr h3 _ _, ⟨h4.avail, h4.calm⟩, _, _, h1, h2, h5⟩
  | done h1 h2 h3 =>
    refine .done h1 h2 ?_
    rcases h3 with h3 | ⟨hd, h3⟩
    · exact .inl (wrap_fin_congr h3 _ _)
    · refine .inr ⟨hd, ?_⟩
      show (Minimq.wrap x ox).fin = ({ (y.handleDisconnect).fin with slot := none } : World)
      rw [wrap_fin, h3]
  | handed u0 h1 h2 h3 h4 h5 =>
    refine .handed u0 ox (by rw [h1]) h2 h3 h4 ?_
    rw [wrap_fin, ← h5, show ({ u0.fin with slot := none } : World) = u0.fin from by
      unfold World.fin World.rest; simp only []; rw [show u0.slot = none from h2]]

theorem awaitOK_rest_slot {a : World} (h : AwaitOK a) (n : Nat) : AwaitOK ({ a.rest with slot := some n } : World) := ⟨h.avail, h.calm⟩

/-- **One POLL, same I/O decision (flush context against `poll`).** -/
theorem RF.step {k : AfterFlush} {a b : World} (h : RF k a b) (n : Nat) :
    StepF k (a.execDirective (.d n)) (b.execDirective (.d n)) := by
  obtain ⟨pa, pb, hfa, hfb, hpc⟩ := h.pcs
  rw [exec_d_wrap a pa hfa n, exec_d_wrap b pb hfb n, ← h.rest]
  have hg := awaitOK_rest_slot h.good n
  cases hpc with
  | write adv pkt bytes wr len => exact (dswF k _ hg adv pkt bytes wr len).wrap _ _
  | flush adv pkt => exact (dsfF k _ hg adv pkt).wrap _ _

/-- **Run A and run B inside `drive_packet` of the same kind of operation**, suspended at the same
await point (up to the `advanced` flag) in the same state. -/
structure RD (a b : World) : Prop where
  rest : a.rest = b.rest
  pcs : ∃ pa pb, a.fut = some pa ∧ b.fut = some pb ∧ PcD pa pb

/-- Both runs did exactly the same: same new trace lines, same state, same result. -/
structure SameD (a a' b b' : World) : Prop where
  out : ∃ new, a'.out = new ++ a.out ∧ b'.out = new ++ b.out
  state : a'.rest = b'.rest
  fut : FutD a'.fut b'.fut

/-- **One POLL, same I/O decision (same kind of operation).** -/
theorem RD.step {a b : World} (h : RD a b) (n : Nat) :
    SameD a (a.execDirective (.d n)) b (b.execDirective (.d n)) := by
  obtain ⟨pa, pb, hfa, hfb, hpc⟩ := h.pcs
  rw [exec_d_wrap a pa hfa n, exec_d_wrap b pb hfb n, ← h.rest]
  obtain ⟨h1, h2⟩ := resumeD ({ a.rest with slot := some n } : World) hpc
  generalize ev (resumeCall ({ a.rest with slot := some n } : World) pa) = x at h1 h2
  generalize ev (resumeCall ({ a.rest with slot := some n } : World) pb) = y at h1 h2
  have hout : x.out = y.out := by have := congrArg World.out h1; exact this
  refine ⟨⟨x.out, rfl, by show y.out ++ b.out = _; rw [hout]⟩, ?_, h2⟩
  show ({ x with out := [], fut := none, slot := none, wakes := 0, lastIoStarved := false } : World) =
    { y with out := [], fut := none, slot := none, wakes := 0, lastIoStarved := false }
  have := congrArg (fun w : World => ({ w with out := [], slot := none, wakes := 0, lastIoStarved := false } : World)) h1
  exact this

theorem SameD.rd {a a' b b' : World} (h : SameD a a' b b') :
    RD a' b' ∨ (a'.fut = none ∧ b'.fut = none) := by
  obtain ⟨_, hs, hf⟩ := h
  generalize ha : a'.fut = fa at hf
  generalize hb : b'.fut = fb at hf
  cases hf with
  | none => exact Or.inr ⟨rfl, rfl⟩
  | some hp =>
    left
    exact ⟨hs, _, _, ha, hb, hp⟩


/-! ### Part 6: re-entry — dropping the future and starting `poll` / `recv` / `drive` -/

/-- The directive that starts the operation of kind `o`. -/
def dirOf : Outer → Directive
  | .poll => .poll
  | .recv => .recv
  | .drive => .drive

/-- Dropping a future that is not inside an operation-local write and starting `poll`/`recv`/`drive`:
`drive_packet` is entered in the state `rest`, and the trace gets the line `cancel`. -/
theorem reenter_eq (a : World) (pc : Pc) (hf : a.fut = some pc) (hc : a.conn.isSome = true)
    (ht : tearsPacket (some pc) = false) (o : Outer) :
    a.execDirective (dirOf o) = (ev (.DE a.rest o)).addOld ("cancel" :: a.out) := by
  have F := frame_all pollFuel
  have hX : ({ ({ (a.emit "cancel") with fut := none, tornNets := a.tornAfterDrop } : World) with
      wakes := 0, lastIoStarved := false } : World) = a.rest.addOld ("cancel" :: a.out) := by
    have : a.tornAfterDrop = a.tornNets := by
      unfold World.tornAfterDrop; rw [hf, ht]; rfl
    rw [this]; rfl
  have key : ∀ name : String, a.startOp name (fun w => driveEnter pollFuel w o) =
      (ev (.DE a.rest o)).addOld ("cancel" :: a.out) := by
    intro name
    unfold World.startOp World.cancelFut
    have hcn : a.conn.isNone = false := by
      cases hcc : a.conn with
      | none => rw [hcc] at hc; cases hc
      | some c => rfl
    simp only [hcn, Bool.false_eq_true, if_false, hf, Option.isSome_some, if_true]
    rw [show ({ ({ (a.emit "cancel") with fut := none, tornNets := a.tornAfterDrop } : World) with
      wakes := 0, lastIoStarved := false } : World) = a.rest.addOld ("cancel" :: a.out) from hX]
    rw [F.de, ← run_ev _ pollFuel fuelBound_le_pollFuel]
    rfl
  cases o <;> exact key _

theorem cs_ioRead_none {w : World} (n : Nat) (h : w.slot = none) :
    w.ioRead n = ({ (w.emit s!"rp {w.netIdx}") with lastIoStarved := false }, .pending) := by
  unfold World.ioRead; rw [h]

theorem prepareStep_rest (a : World) (st : Outbound.Step) : prepareStep a.rest st = prepareStep a st := rfl

/-- **Re-entry at the `write` await.** Run B's first I/O call is run A's: the same entry, the same
packet bytes, the same offset; run B suspends there (it has no I/O decision yet) in the same state. -/
theorem reenter_write (a : World) (ctx : StepCtx) (pkt : Flushed) (bytes : Bytes) (wr len : Nat)
    (hf : a.fut = some (.stepWrite ctx pkt bytes wr len a.now)) (hl : a.live = true) (hs : a.slot = none)
    (hg : AwaitOK a) (st : Outbound.Step) (hn : a.sess.data.outbound.nextStep = some st)
    (hp : prepareStep a st = .write pkt bytes wr len) (o : Outer) :
    let b := a.execDirective (dirOf o)
    b.rest = a.rest ∧ b.fut = some (.stepWrite (.drive false o) pkt bytes wr len a.now) ∧
    b.out = s!"wp {a.netIdx}" :: "cancel" :: a.out := by
  intro b
  have hc : a.conn.isSome = true := by
    unfold World.live at hl; cases hcc : a.conn with
    | none => rw [hcc] at hl; cases hl
    | some c => rfl
  have hb : b = (ev (.DE a.rest o)).addOld ("cancel" :: a.out) := reenter_eq a _ hf hc rfl o
  have hcalm : KaCalm a.rest.sess.rt a.rest.now := hg.calm
  have hev : ev (.DE a.rest o) =
      ({ (a.rest.emit s!"wp {a.rest.netIdx}") with lastIoStarved := false } : World).suspend
        (.stepWrite (.drive false o) pkt bytes wr len a.now) := by
    rw [ev_DE]
    rw [show a.rest.live = true from hl]
    simp only [Bool.not_true, Bool.false_eq_true, if_false]
    rw [ev_DL]
    rw [show a.rest.sess.reader.packetAvailable = false from hg.avail]
    simp only [Bool.false_eq_true, if_false]
    rw [hcalm.notTimedOut, hcalm.maybe]
    simp only [Bool.false_eq_true, if_false]
    rw [show a.rest.sess.data.outbound.nextStep = some st from hn]
    simp only []
    rw [ev_PS, prepareStep_rest, hp]
    simp only []
    rw [show a.rest.live = true from hl]
    simp only [Bool.not_true, Bool.false_eq_true, if_false]
    rw [ev_DSW, cs_ioWrite_none _ (show a.rest.slot = none from hs)]
    rfl
  rw [hb, hev]
  exact ⟨rfl, rfl, rfl⟩

/-- **Re-entry at the `flush` await.** -/
theorem reenter_flush (a : World) (ctx : StepCtx) (pkt : Flushed)
    (hf : a.fut = some (.stepFlush ctx pkt a.now)) (hl : a.live = true) (hs : a.slot = none)
    (hg : AwaitOK a) (st : Outbound.Step) (hn : a.sess.data.outbound.nextStep = some st)
    (hp : prepareStep a st = .flush pkt) (o : Outer) :
    let b := a.execDirective (dirOf o)
    b.rest = a.rest ∧ b.fut = some (.stepFlush (.drive false o) pkt a.now) ∧
    b.out = s!"fp {a.netIdx}" :: "cancel" :: a.out := by
  intro b
  have hc : a.conn.isSome = true := by
    unfold World.live at hl; cases hcc : a.conn with
    | none => rw [hcc] at hl; cases hl
    | some c => rfl
  have hb : b = (ev (.DE a.rest o)).addOld ("cancel" :: a.out) := reenter_eq a _ hf hc rfl o
  have hcalm : KaCalm a.rest.sess.rt a.rest.now := hg.calm
  have hev : ev (.DE a.rest o) =
      ({ (a.rest.emit s!"fp {a.rest.netIdx}") with lastIoStarved := false } : World).suspend
        (.stepFlush (.drive false o) pkt a.now) := by
    rw [ev_DE]
    rw [show a.rest.live = true from hl]
    simp only [Bool.not_true, Bool.false_eq_true, if_false]
    rw [ev_DL]
    rw [show a.rest.sess.reader.packetAvailable = false from hg.avail]
    simp only [Bool.false_eq_true, if_false]
    rw [hcalm.notTimedOut, hcalm.maybe]
    simp only [Bool.false_eq_true, if_false]
    rw [show a.rest.sess.data.outbound.nextStep = some st from hn]
    simp only []
    rw [ev_PS, prepareStep_rest, hp]
    simp only []
    rw [show a.rest.live = true from hl]
    simp only [Bool.not_true, Bool.false_eq_true, if_false]
    rw [ev_DSF, cs_ioFlush_none (show a.rest.slot = none from hs)]
    rfl
  rw [hb, hev]
  exact ⟨rfl, rfl, rfl⟩

/-- **Re-entry at the `read` await** of `poll` / `recv`: with nothing left to send, the new operation
runs through `drive_packet` to the same `read`, with the same deadline. -/
theorem reenter_read (a : World) (o : Outer) (ho : o ≠ .drive) (d : Option Nat) (y : Bool)
    (hf : a.fut = some (.waitRead o d y)) (hl : a.live = true) (hs : a.slot = none) (hg : AwaitOK a)
    (hn : a.sess.data.outbound.nextStep = none) (n : Nat) (hw : a.sess.window = some (a.sess, n)) (hn0 : n ≠ 0) :
    let b := a.execDirective (dirOf o)
    b.rest = a.rest ∧ b.fut = some (.waitRead o a.sess.rt.nextDeadline true) ∧
    b.out = s!"rp {a.netIdx}" :: "cancel" :: a.out := by
  intro b
  have hc : a.conn.isSome = true := by
    unfold World.live at hl; cases hcc : a.conn with
    | none => rw [hcc] at hl; cases hl
    | some c => rfl
  have hb : b = (ev (.DE a.rest o)).addOld ("cancel" :: a.out) := reenter_eq a _ hf hc rfl o
  have hcalm : KaCalm a.rest.sess.rt a.rest.now := hg.calm
  have hev : ev (.DE a.rest o) =
      ({ (a.rest.emit s!"rp {a.rest.netIdx}") with lastIoStarved := false } : World).suspend
        (.waitRead o a.sess.rt.nextDeadline true) := by
    rw [ev_DE]
    rw [show a.rest.live = true from hl]
    simp only [Bool.not_true, Bool.false_eq_true, if_false]
    rw [ev_DL]
    rw [show a.rest.sess.reader.packetAvailable = false from hg.avail]
    simp only [Bool.false_eq_true, if_false]
    rw [hcalm.notTimedOut, hcalm.maybe]
    simp only [Bool.false_eq_true, if_false]
    rw [show a.rest.sess.data.outbound.nextStep = none from hn]
    simp only []
    rw [ev_DAS]
    rw [show a.rest.sess.reader.packetAvailable = false from hg.avail,
      show a.rest.sess.data.outbound.nextStep = none from hn]
    simp only [Bool.false_eq_true, if_false, Option.isNone_none, if_true]
    have hdwr : ev (.DWR a.rest o a.rest.sess.rt.nextDeadline false) =
        ({ (a.rest.emit s!"rp {a.rest.netIdx}") with lastIoStarved := false } : World).suspend
          (.waitRead o a.sess.rt.nextDeadline true) := by
      rw [ev_DWR]
      rw [show a.rest.sess.reader.packetAvailable = false from hg.avail,
        show a.rest.sess.window = some (a.sess, n) from hw]
      simp only [Bool.false_eq_true, if_false, hn0]
      rw [show ({ a.rest with sess := a.sess } : World) = a.rest from rfl,
        cs_ioRead_none n (show a.rest.slot = none from hs)]
      simp only []
      cases hd : a.rest.sess.rt.nextDeadline with
      | none => rw [show a.sess.rt.nextDeadline = none from hd]
      | some dd =>
        have hlt := hcalm.deadline dd hd
        simp only []
        rw [if_neg (by show ¬ a.now ≥ dd; have : a.rest.now = a.now := rfl; omega)]
        rw [show a.sess.rt.nextDeadline = some dd from hd]
    cases o with
    | drive => exact absurd rfl ho
    | poll => exact hdwr
    | recv => exact hdwr
  rw [hb, hev]
  exact ⟨rfl, rfl, rfl⟩

/-! ### Part 7: any number of POLLs -/

/-- Drive a world with a list of I/O decisions, one POLL each. -/
def runD (ks : List Nat) (w : World) : World := ks.foldl (fun w n => w.execDirective (.d n)) w

theorem runD_append (ks1 ks2 : List Nat) (w : World) : runD (ks1 ++ ks2) w = runD ks2 (runD ks1 w) := by
  unfold runD; rw [List.foldl_append]

/-- **Flush context against `poll`, any number of POLLs with the same decisions.** Either the two runs
are still suspended at corresponding await points in the same state, or there is a first POLL (the one
with decision `n`) after which they are not — and then both operations completed in the same state, or
run B's `poll` completed and run A went on to its continuation from that state. -/
theorem RF.run {k : AfterFlush} {a b : World} (h : RF k a b) (ks : List Nat) :
    RF k (runD ks a) (runD ks b) ∨
    ∃ ks1 n ks2, ks = ks1 ++ n :: ks2 ∧ RF k (runD ks1 a) (runD ks1 b) ∧
      StepF k (runD (ks1 ++ [n]) a) (runD (ks1 ++ [n]) b) ∧ ¬ RF k (runD (ks1 ++ [n]) a) (runD (ks1 ++ [n]) b) := by
  induction ks generalizing a b with
  | nil => exact Or.inl h
  | cons n ks ih =>
    have hstep := h.step n
    by_cases hr : RF k (a.execDirective (.d n)) (b.execDirective (.d n))
    · rcases ih hr with h1 | ⟨ks1, m, ks2, e1, e2, e3, e4⟩
      · exact Or.inl h1
      · refine Or.inr ⟨n :: ks1, m, ks2, by rw [e1]; rfl, e2, e3, e4⟩
    · exact Or.inr ⟨[], n, ks, rfl, h, hstep, hr⟩

theorem SameD.trans {a a' a'' b b' b'' : World} (h1 : SameD a a' b b') (h2 : SameD a' a'' b' b'') : SameD a a'' b b'' := by
  obtain ⟨n1, e1, e2⟩ := h1.out
  obtain ⟨n2, e3, e4⟩ := h2.out
  exact ⟨⟨n2 ++ n1, by rw [e3, e1, List.append_assoc], by rw [e4, e2, List.append_assoc]⟩, h2.state, h2.fut⟩

/-- **Same kind of operation, any number of POLLs with the same decisions**: up to the POLL at which
both operations complete (if they do), the two runs add the same lines to their traces, are in the same
state and are suspended at the same await point. -/
theorem RD.run {a b : World} (h : RD a b) (ks : List Nat) :
    ∃ ks1 ks2, ks = ks1 ++ ks2 ∧
      (∃ new, (runD ks1 a).out = new ++ a.out ∧ (runD ks1 b).out = new ++ b.out) ∧
      (runD ks1 a).rest = (runD ks1 b).rest ∧ FutD (runD ks1 a).fut (runD ks1 b).fut ∧
      (ks2 = [] ∨ ((runD ks1 a).fut = none ∧ (runD ks1 b).fut = none)) := by
  induction ks generalizing a b with
  | nil =>
    obtain ⟨pa, pb, ha, hb, hp⟩ := h.pcs
    exact ⟨[], [], rfl, ⟨[], rfl, rfl⟩, h.rest, by show FutD a.fut b.fut; rw [ha, hb]; exact .some hp, Or.inl rfl⟩
  | cons n ks ih =>
    have hstep := h.step n
    rcases hstep.rd with hr | hfin
    · obtain ⟨ks1, ks2, e1, ⟨new, o1, o2⟩, e3, e4, e5⟩ := ih hr
      obtain ⟨n1, p1, p2⟩ := hstep.out
      refine ⟨n :: ks1, ks2, by rw [e1]; rfl, ⟨new ++ n1, ?_, ?_⟩, e3, e4, e5⟩
      · show (runD ks1 (a.execDirective (.d n))).out = _; rw [o1, p1, List.append_assoc]
      · show (runD ks1 (b.execDirective (.d n))).out = _; rw [o2, p2, List.append_assoc]
    · exact ⟨[n], ks, rfl, hstep.out, hstep.state, hstep.fut, Or.inr hfin⟩


/-! ### Part 8: an operation that has not enqueued its request yet -/

/-- **Starting an operation whose request is not enqueued yet** (`k` is the continuation that will
enqueue it) against starting a `poll`, from the same state without an I/O decision: if nothing is left
to send, the operation goes straight on to `k` from the untouched state; otherwise both suspend at the
same I/O call, the one for the entry the scheduler names. -/
theorem startF (k : AfterFlush) (X : World) (hl : X.live = true) (hs : X.slot = none) (hg : AwaitOK X) :
    (X.sess.data.outbound.nextStep = none ∧ ev (.FL X k) = ev (.AF X k)) ∨
    OutF k (ev (.FL X k)) (ev (.DE X .poll)) := by
  rw [ev_FL, hg.calm.maybe]
  cases hn : X.sess.data.outbound.nextStep with
  | none => exact Or.inl ⟨rfl, by simp only [hn]⟩
  | some st =>
    right
    simp only []
    rw [ev_DE, hl]
    simp only [Bool.not_true, Bool.false_eq_true, if_false]
    rw [ev_DL]
    simp only [hg.avail, Bool.false_eq_true, if_false, hg.calm.notTimedOut, hg.calm.maybe, hn]
    exact psF_none k X hs hg false st (nextStep_not_done X _ st hn)

/-- Starting an operation when no future is suspended. -/
theorem startOp_idle (a : World) (hf : a.fut = none) (hc : a.conn.isSome = true) (name : String) (body : World → World) :
    a.startOp name body = body (a.rest.addOld a.out) := by
  unfold World.startOp World.cancelFut
  have hcn : a.conn.isNone = false := by
    cases hcc : a.conn with
    | none => rw [hcc] at hc; cases hc
    | some c => rfl
  simp only [hcn, Bool.false_eq_true, if_false, hf, Option.isSome_none]
  congr 1

theorem flushLoop_rest (a : World) (k : AfterFlush) :
    flushLoop pollFuel (a.rest.addOld a.out) k = (ev (.FL a.rest k)).addOld a.out := by
  rw [(frame_all pollFuel).fl, ← run_ev _ pollFuel fuelBound_le_pollFuel]; rfl

theorem driveEnter_rest (a : World) (o : Outer) :
    driveEnter pollFuel (a.rest.addOld a.out) o = (ev (.DE a.rest o)).addOld a.out := by
  rw [(frame_all pollFuel).de, ← run_ev _ pollFuel fuelBound_le_pollFuel]; rfl

end Minimq
