import Minimq.Proofs.Props
import Minimq.Spec.Mqtt5
/-
The independent reference (Spec/Mqtt5.lean) decodes what the model's encoder writes: primitives,
all 27 property kinds, property lists.
-/
namespace Minimq
open Gen

theorem spec_varint_encode (n : Nat) (r : Bytes) (h : n ≤ MQTT_VARINT_MAX) :
    Spec.varint (encodeVarint n ++ r) = some (n, r) := by
  rw [MAXV] at h
  unfold encodeVarint
  split
  · simp only [Spec.varint, List.cons_append, List.nil_append, b_toNat]
    rw [if_pos (by omega)]
    congr 2; omega
  · split
    · simp only [Spec.varint, List.cons_append, List.nil_append, b_toNat]
      rw [if_neg (by omega), if_pos (by omega), if_neg (by omega)]
      congr 2; omega
    · split
      · simp only [Spec.varint, List.cons_append, List.nil_append, b_toNat]
        rw [if_neg (by omega), if_neg (by omega), if_pos (by omega), if_neg (by omega)]
        congr 2; omega
      · simp only [Spec.varint, List.cons_append, List.nil_append, b_toNat]
        rw [if_neg (by omega), if_neg (by omega), if_neg (by omega), if_pos (by omega), if_neg (by omega)]
        congr 2; omega

theorem spec_u16 (n : Nat) (r : Bytes) (h : n < 65536) : Spec.u16 (u16be n ++ r) = some (n, r) := by
  simp only [u16be, Spec.u16, List.cons_append, List.nil_append, b_toNat]
  congr 2; omega

theorem spec_u32 (n : Nat) (r : Bytes) (h : n < 4294967296) : Spec.u32 (u32be n ++ r) = some (n, r) := by
  simp only [u32be, Spec.u32, List.cons_append, List.nil_append, b_toNat]
  congr 2; omega

theorem spec_take_append (s r : Bytes) : Spec.take s.length (s ++ r) = some (s, r) := by
  simp [Spec.take]

theorem spec_bin (s r : Bytes) (h : s.length ≤ 65535) :
    Spec.bin (u16be s.length ++ (s ++ r)) = some (s, r) := by
  unfold Spec.bin
  rw [spec_u16 _ _ (by omega)]
  simp [spec_take_append]

theorem spec_str (s r : Bytes) (h : s.length ≤ 65535) (hv : validUtf8 s = true) :
    Spec.str (u16be s.length ++ (s ++ r)) = some (s, r) := by
  unfold Spec.str
  rw [spec_bin s r h]
  simp [hv]


/-- The reference's view of a model property. -/
def Property.toSpec (p : Property) : Spec.Prop' :=
  { id := p.kind.id,
    val := match p.kind.serShape, p.val with
      | .u8, .n v => .byte v
      | .u16, .n v => .two v
      | .u32, .n v => .four v
      | .varint, .n v => .var v
      | .str, .s bs => .str bs
      | .bin, .s bs => .bin bs
      | .pair, .p k v => .pair k v
      | _, _ => .byte 0 }

/-- Reference decoding of an encoded property gives the property back (all 27 kinds). -/
theorem spec_oneProp_encode (p : Property) (out r : Bytes) (hwf : p.wf = true)
    (h : p.encode = .ok out) : Spec.oneProp (out ++ r) = some (p.toSpec, r) := by
  obtain ⟨k, v⟩ := p
  unfold Property.encode Property.chunks at h
  obtain ⟨x, r1, hx, hr, ho⟩ := catChunks_cons h
  obtain ⟨hx1, hx2⟩ := varintField_ok hx
  subst ho hx1
  unfold Spec.oneProp
  rw [List.append_assoc, spec_varint_encode _ _ hx2]
  cases k <;> cases v <;> simp [Property.wf, PropKind.declShape] at hwf <;>
    simp only [PropKind.serShape] at hr
  all_goals first
    | (obtain ⟨y, r2, hy, hr2, ho2⟩ := catChunks_cons hr
       obtain ⟨y2, r3, hy2, hr3, ho3⟩ := catChunks_cons hr2
       have := catChunks_nil hr3
       obtain ⟨e1, l1⟩ := lenPrefixed_ok hy
       obtain ⟨e2, l2⟩ := lenPrefixed_ok hy2
       subst ho2 ho3 this e1 e2
       simp only [PropKind.id, Spec.propType, List.append_nil, List.append_assoc]
       rw [spec_str _ _ l1 hwf.1]
       simp only []
       rw [spec_str _ _ l2 hwf.2]
       simp [Property.toSpec, PropKind.serShape, PropKind.id])
    | (obtain ⟨y, r2, hy, hr2, ho2⟩ := catChunks_cons hr
       have := catChunks_nil hr2
       first
        | (obtain ⟨e1, l1⟩ := lenPrefixed_ok hy
           subst ho2 this e1
           simp only [PropKind.id, Spec.propType, List.append_nil, List.append_assoc]
           first
            | (rw [spec_str _ _ l1 hwf]; simp [Property.toSpec, PropKind.serShape, PropKind.id])
            | (rw [spec_bin _ _ l1]; simp [Property.toSpec, PropKind.serShape, PropKind.id]))
        | (obtain ⟨e1, l1⟩ := varintField_ok hy
           subst ho2 this e1
           simp only [PropKind.id, Spec.propType, List.append_nil]
           rw [spec_varint_encode _ _ l1]; simp [Property.toSpec, PropKind.serShape, PropKind.id])
        | (simp at hy; subst ho2 this hy
           simp only [PropKind.id, Spec.propType, List.append_nil]
           first
            | (rw [spec_u16 _ _ hwf]; simp [Property.toSpec, PropKind.serShape, PropKind.id])
            | (rw [spec_u32 _ _ hwf]; simp [Property.toSpec, PropKind.serShape, PropKind.id])
            | (simp [Property.toSpec, PropKind.serShape, PropKind.id]; omega)))

theorem catChunks_append {xs ys : List (Except SerErr Bytes)} {out : Bytes}
    (h : catChunks (xs ++ ys) = .ok out) :
    ∃ a c, catChunks xs = .ok a ∧ catChunks ys = .ok c ∧ out = a ++ c := by
  induction xs generalizing out with
  | nil => exact ⟨[], out, rfl, h, rfl⟩
  | cons x xs ih =>
    obtain ⟨y, r, hy, hr, ho⟩ := catChunks_cons h
    obtain ⟨a, c, ha, hc, hac⟩ := ih hr
    subst hy
    refine ⟨y ++ a, c, ?_, hc, ?_⟩
    · simp [catChunks, ha]
    · subst ho hac; simp

theorem Property.encode_nonempty (p : Property) (out : Bytes) (h : p.encode = .ok out) : out ≠ [] := by
  unfold Property.encode Property.chunks at h
  obtain ⟨x, r1, hx, _, ho⟩ := catChunks_cons h
  obtain ⟨hx1, _⟩ := varintField_ok hx
  subst ho hx1
  have := encodeVarint_length p.kind.id
  intro hc
  have h2 : (encodeVarint p.kind.id ++ r1).length = 0 := by rw [hc]; rfl
  rw [List.length_append] at h2
  have h3 : varintLen p.kind.id ≥ 1 := by
    unfold varintLen Gen.varintLen
    split <;> (try split) <;> (try split) <;> omega
  omega

/-- All properties of a list, encoded one after the other. -/
def encodeProps (l : List Property) : Except SerErr Bytes := catChunks (l.flatMap Property.chunks)

theorem encodeProps_cons {p : Property} {l : List Property} {out : Bytes}
    (h : encodeProps (p :: l) = .ok out) :
    ∃ a c, p.encode = .ok a ∧ encodeProps l = .ok c ∧ out = a ++ c := by
  unfold encodeProps at h
  simp only [List.flatMap_cons] at h
  exact catChunks_append h

theorem encodeProps_length (l : List Property) (out : Bytes) (hwf : ∀ p ∈ l, p.wf = true)
    (h : encodeProps l = .ok out) : out.length = (l.map Property.size).sum := by
  induction l generalizing out with
  | nil => simp [encodeProps, catChunks] at h; subst h; rfl
  | cons p l ih =>
    obtain ⟨a, c, ha, hc, ho⟩ := encodeProps_cons h
    subst ho
    simp [Property.size_eq_encode_length p a (hwf p (by simp)) ha, ih c (fun q hq => hwf q (by simp [hq])) hc]

theorem spec_propsFuel_encode (l : List Property) (out : Bytes) (fuel : Nat)
    (hwf : ∀ p ∈ l, p.wf = true) (h : encodeProps l = .ok out) (hf : out.length ≤ fuel) :
    Spec.propsFuel fuel out = some (l.map Property.toSpec) := by
  induction l generalizing out fuel with
  | nil =>
    simp [encodeProps, catChunks] at h; subst h
    cases fuel <;> simp [Spec.propsFuel]
  | cons p l ih =>
    obtain ⟨a, c, ha, hc, ho⟩ := encodeProps_cons h
    subst ho
    have hne := Property.encode_nonempty p a ha
    cases fuel with
    | zero =>
      simp at hf; exact absurd hf.1 hne
    | succ fuel =>
      have hlen : 0 < a.length := List.length_pos_iff.mpr hne
      cases hac : a ++ c with
      | nil => simp at hac; exact absurd hac.1 hne
      | cons x xs =>
        rw [Spec.propsFuel, ← hac, spec_oneProp_encode p a c (hwf p (by simp)) ha]
        · simp only []
          rw [ih c fuel (fun q hq => hwf q (by simp [hq])) hc (by simp at hf; omega)]
          simp
        · simp
end Minimq
