import Minimq.Proofs.NoSpin
/-
No busy loop inside `poll()` — part 2: one step of each of the thirteen machine functions keeps the
invariant `K b`, adds only trace lines that contain a blank, and never counts a self-wake — except the
one step of a hand-made `waitRead _ d false` with an expired deadline (`b = 1`).
-/
namespace Minimq
open Gen World Fuel
namespace NoSpin

/-- An await point as the machine creates it: `wait_for_progress` is always suspended with
`yielded = true`. -/
def PcOk : Pc → Prop
  | .waitRead _ _ y => y = true
  | _ => True

/-- What a finished run leaves in the suspended-operation slot: nothing, or an await point of the
machine's own making. -/
def FutOk (r : World) : Prop := r.fut = none ∨ ∃ pc, r.fut = some pc ∧ PcOk pc

/-- One step under the invariant. -/
inductive Out2 (b : Nat) (c : Call) : Prop
  | call (c' : Call) (k : K b c') (t : Lines c.world c'.world) (h : ∀ m, c.run (m + 1) = c'.run m)
  | done (r : World) (t : Lines c.world r) (hw : r.wakes ≤ b) (hf : FutOk r) (h : ∀ m, c.run (m + 1) = r)

theorem foldl_emit_fut (ls : List String) (a : World) : (ls.foldl World.emit a).fut = a.fut := by
  induction ls generalizing a with
  | nil => rfl
  | cons x xs ih => simp only [List.foldl, ih]; rfl

theorem foldl_emit_wakes (ls : List String) (a : World) : (ls.foldl World.emit a).wakes = a.wakes := by
  induction ls generalizing a with
  | nil => rfl
  | cons x xs ih => simp only [List.foldl, ih]; rfl

theorem deliver_fut (a : World) (name : String) (len : Nat) : (a.deliver name len).fut = none := by
  unfold World.deliver
  simp only []
  split
  · rw [foldl_emit_fut]; rfl
  · rfl

theorem deliver_wakes (a : World) (name : String) (len : Nat) : (a.deliver name len).wakes = a.wakes := by
  unfold World.deliver
  simp only []
  split
  · rw [foldl_emit_wakes]; rfl
  · rfl

/-! ### Ways to finish -/

theorem Out2.finishErr {b : Nat} (c : Call) {a : World} (hl : Lines c.world a) (hw : a.wakes ≤ b) (op : String) (e : Err)
    (h : ∀ m, c.run (m + 1) = a.finishErr op e) : Out2 b c :=
  .done _ (hl.finishErr op e) hw (.inl rfl) h

theorem Out2.finish {b : Nat} (c : Call) {a : World} (hl : Lines c.world a) (hw : a.wakes ≤ b) (line : String)
    (h : ∀ m, c.run (m + 1) = a.finish line) : Out2 b c :=
  .done _ (hl.finish line) hw (.inl rfl) h

theorem Out2.finishOp {b : Nat} (c : Call) {a : World} (hl : Lines c.world a) (hw : a.wakes ≤ b) (name : String) (op : Op)
    (h : ∀ m, c.run (m + 1) = a.finishOp name op) : Out2 b c :=
  .done _ (hl.finishOp name op) hw (.inl rfl) h

theorem Out2.deliver {b : Nat} (c : Call) {a : World} (hl : Lines c.world a) (hw : a.wakes ≤ b) (name : String) (len : Nat)
    (h : ∀ m, c.run (m + 1) = a.deliver name len) : Out2 b c :=
  .done _ (hl.deliver name len) (by rw [deliver_wakes]; exact hw) (.inl (deliver_fut _ _ _)) h

theorem Out2.suspend {b : Nat} (c : Call) {a : World} (hl : Lines c.world a) (hw : a.wakes ≤ b) (pc : Pc) (hp : PcOk pc)
    (h : ∀ m, c.run (m + 1) = a.suspend pc) : Out2 b c :=
  .done _ (hl.suspend pc) hw (.inr ⟨pc, rfl, hp⟩) h

/-! ### The thirteen functions -/

theorem step2_SR (b : Nat) (w : World) (ctx : StepCtx) (adv : Bool) (k : K b (.SR w ctx adv)) : Out2 b (.SR w ctx adv) := by
  cases ctx with
  | flush kk =>
    exact .call (.FL w kk) (k.same rfl trivial) (Lines.refl _) (fun m => by simp only [Call.run, stepReturned])
  | drive advanced outer =>
    refine .call (.DAS w outer (advanced || adv)) ⟨k.1, ?_⟩ (Lines.refl _) (fun m => by simp only [Call.run, stepReturned])
    rcases k.2 with g | ⟨_, hw, _⟩
    · left
      cases hb : (advanced || adv) with
      | true => trivial
      | false => exact g hb
    · simp [isWait] at hw

theorem step2_DE (b : Nat) (w : World) (outer : Outer) (k : K b (.DE w outer)) : Out2 b (.DE w outer) := by
  cases hl : w.live with
  | false =>
    exact Out2.finishErr (.DE w outer) (Lines.refl w) k.1 (outerName outer) .disconnected
      (fun m => by simp only [Call.run, driveEnter, hl, Bool.not_false, if_true])
  | true =>
    exact .call (.DL w outer false) (k.same rfl trivial) (Lines.refl _) (fun m => by simp [Call.run, driveEnter, hl])

theorem good_of_K_not_wait {b : Nat} {c : Call} (k : K b c) (h : isWait c = false) : Good c := by
  rcases k.2 with g | ⟨_, hw, _⟩
  · exact g
  · rw [h] at hw; exact Bool.noConfusion hw

theorem step2_PS (b : Nat) (w : World) (ctx : StepCtx) (step : Outbound.Step) (now : Nat)
    (k : K b (.PS w ctx step now)) : Out2 b (.PS w ctx step now) := by
  have g := good_of_K_not_wait k rfl
  cases hp : prepareStep w step with
  | fail e =>
    exact Out2.finishErr (.PS w ctx step now) ((Lines.refl w).failStep ctx step) (by rw [failStep_wakes]; exact k.1) (ctxName ctx) e
      (fun m => by simp only [Call.run, performStep, hp])
  | done =>
    refine .call (.SR w ctx false) (k.same rfl ?_) (Lines.refl _) (fun m => by simp only [Call.run, performStep, hp])
    cases ctx with
    | flush kk => trivial
    | drive adv o =>
      intro ha
      simp only [Bool.or_false] at ha
      subst ha
      exact g (by rw [hp]; rfl)
  | flush pkt =>
    cases hl : w.live with
    | false =>
      exact Out2.finishErr (.PS w ctx step now) ((Lines.refl w).discFail ctx) (by rw [discFail_wakes]; exact k.1) (ctxName ctx) .disconnected
        (fun m => by simp [Call.run, performStep, hp, hl])
    | true =>
      exact .call (.DSF w ctx pkt now) (k.same rfl trivial) (Lines.refl _) (fun m => by simp [Call.run, performStep, hp, hl])
  | write pkt bytes written len =>
    cases hl : w.live with
    | false =>
      exact Out2.finishErr (.PS w ctx step now) ((Lines.refl w).discFail ctx) (by rw [discFail_wakes]; exact k.1) (ctxName ctx) .disconnected
        (fun m => by simp [Call.run, performStep, hp, hl])
    | true =>
      exact .call (.DSW w ctx pkt bytes written len now) (k.same rfl trivial) (Lines.refl _)
        (fun m => by simp [Call.run, performStep, hp, hl])

theorem pure_lines {w w1 : World} (hp : Pure w w1) : Lines w w1 := (Lines.refl w).of_eq hp.out

theorem step2_FL (b : Nat) (w : World) (kk : AfterFlush) (k : K b (.FL w kk)) : Out2 b (.FL w kk) := by
  cases hq : w.maybeQueuePingreq w.now with
  | error e =>
    exact Out2.finishErr (.FL w kk) ((Lines.refl w).discFail (.flush kk)) (by rw [discFail_wakes]; exact k.1) (afterFlushName kk) e
      (fun m => by simp only [Call.run, flushLoop, hq])
  | ok w1 =>
    have hp := maybeQueuePingreq_pure hq
    cases hn : w1.sess.data.outbound.nextStep with
    | none =>
      exact .call (.AF w1 kk) (k.same hp.wakes trivial) (pure_lines hp) (fun m => by simp only [Call.run, flushLoop, hq, hn])
    | some step =>
      exact .call (.PS w1 (.flush kk) step w1.now) (k.same hp.wakes trivial) (pure_lines hp)
        (fun m => by simp only [Call.run, flushLoop, hq, hn])

theorem good_SR_true (w : World) (ctx : StepCtx) : Good (.SR w ctx true) := by
  cases ctx with
  | flush kk => trivial
  | drive adv o => intro h; simp at h

theorem step2_DSF (b : Nat) (w : World) (ctx : StepCtx) (pkt : Flushed) (now : Nat) (k : K b (.DSF w ctx pkt now)) :
    Out2 b (.DSF w ctx pkt now) := by
  cases hio : w.ioFlush with
  | mk w1 r =>
    obtain ⟨io, _⟩ := ioFlush_facts hio
    obtain ⟨hl, _⟩ := ioFlush_lines hio
    have hw : w1.wakes ≤ b := by rw [io.wakes]; exact k.1
    cases r with
    | pending =>
      exact Out2.suspend (.DSF w ctx pkt now) hl hw (.stepFlush ctx pkt now) trivial
        (fun m => by simp only [Call.run, doStepFlush, hio])
    | err kd =>
      exact Out2.finishErr (.DSF w ctx pkt now) hl.handleDisconnect hw (ctxName ctx) (.transport kd)
        (fun m => by simp only [Call.run, doStepFlush, hio])
    | ok =>
      exact .call (.SR (w1.completeFlush pkt now) ctx true) ⟨hw, .inl (good_SR_true _ _)⟩ (hl.of_eq rfl)
        (fun m => by simp only [Call.run, doStepFlush, hio])

theorem step2_DSW (b : Nat) (w : World) (ctx : StepCtx) (pkt : Flushed) (bytes : Bytes) (written len now : Nat)
    (k : K b (.DSW w ctx pkt bytes written len now)) : Out2 b (.DSW w ctx pkt bytes written len now) := by
  cases hio : w.ioWrite (bytes.drop written) with
  | mk w1 r =>
    obtain ⟨io, _⟩ := ioWrite_facts hio
    obtain ⟨hl, _⟩ := ioWrite_lines hio
    have hw : w1.wakes ≤ b := by rw [io.wakes]; exact k.1
    cases r with
    | pending =>
      exact Out2.suspend (.DSW w ctx pkt bytes written len now) hl hw (.stepWrite ctx pkt bytes written len now) trivial
        (fun m => by simp only [Call.run, doStepWrite, hio])
    | zero =>
      exact Out2.finishErr (.DSW w ctx pkt bytes written len now) (hl.discFail ctx) (by rw [discFail_wakes]; exact hw) (ctxName ctx) .writeZero
        (fun m => by simp only [Call.run, doStepWrite, hio])
    | err kd =>
      exact Out2.finishErr (.DSW w ctx pkt bytes written len now) hl.handleDisconnect hw (ctxName ctx) (.transport kd)
        (fun m => by simp only [Call.run, doStepWrite, hio])
    | ok count =>
      by_cases hlt : written + count < len
      · exact .call (.SR (w1.setWritten pkt (written + count) len) ctx true) ⟨hw, .inl (good_SR_true _ _)⟩ (hl.of_eq rfl)
          (fun m => by simp only [Call.run, doStepWrite, hio, hlt, if_true])
      · exact .call (.DSF (w1.setWritten pkt (written + count) len) ctx pkt now) ⟨hw, .inl trivial⟩ (hl.of_eq rfl)
          (fun m => by simp only [Call.run, doStepWrite, hio, hlt, if_false])

theorem connectGotPacket_out {b : Nat} (c : Call) {a : World} (hl : Lines c.world a) (hw : a.wakes ≤ b)
    (h : ∀ m, c.run (m + 1) = World.connectGotPacket a) : Out2 b c := by
  have key : Lines c.world (World.connectGotPacket a) ∧ (World.connectGotPacket a).wakes ≤ b ∧
      (World.connectGotPacket a).fut = none := by
    unfold World.connectGotPacket
    simp only []
    split
    · exact ⟨(hl.of_eq (b := _) rfl).handleDisconnect.finishErr _ _, hw, rfl⟩
    · split
      · exact ⟨(hl.of_eq (b := _) rfl).finishErr _ _, hw, rfl⟩
      · unfold World.activate; split
        · exact ⟨(hl.of_eq (b := _) rfl).finishErr _ _, hw, rfl⟩
        · exact ⟨(hl.of_eq (b := _) rfl).finish _, hw, rfl⟩
    · exact ⟨(hl.of_eq (b := _) rfl).handleDisconnect.finishErr _ _, hw, rfl⟩
    · exact ⟨(hl.of_eq (b := _) rfl).handleDisconnect.finishErr _ _, hw, rfl⟩
  exact .done _ key.1 key.2.1 (.inl key.2.2) h

/-- A result that is one of several error exits, each closing with `finishErr`. -/
theorem Out2.of_facts {b : Nat} (c : Call) (r : World) (hl : Lines c.world r) (hw : r.wakes ≤ b) (hf : r.fut = none)
    (h : ∀ m, c.run (m + 1) = r) : Out2 b c := .done r hl hw (.inl hf) h

theorem step2_DLW (b : Nat) (w : World) (which : Nat) (bytes : Bytes) (k : K b (.DLW w which bytes)) :
    Out2 b (.DLW w which bytes) := by
  cases he : bytes.isEmpty with
  | true =>
    exact .call (.DLF (w.discDone which) which)
      (k.same (discDone_wakes w which) trivial) ((Lines.refl w).of_eq (discDone_out w which))
      (fun m => by simp only [Call.run, doLocalWrite, he, if_true])
  | false =>
    cases hio : w.ioWrite bytes with
    | mk w1 r =>
      obtain ⟨io, _⟩ := ioWrite_facts hio
      obtain ⟨hl, _⟩ := ioWrite_lines hio
      have hw : w1.wakes ≤ b := by rw [io.wakes]; exact k.1
      cases r with
      | pending =>
        exact Out2.suspend (.DLW w which bytes) hl hw
          (if which = 0 then Pc.connWrite bytes else if which = 1 then Pc.q0Write bytes else Pc.discWrite bytes)
          (by repeat' split
              all_goals trivial)
          (fun m => by simp only [Call.run, doLocalWrite, he, hio, Bool.false_eq_true, if_false])
      | ok n =>
        exact .call (.DLW w1 which (bytes.drop n)) ⟨hw, .inl trivial⟩ hl
          (fun m => by simp only [Call.run, doLocalWrite, he, hio, Bool.false_eq_true, if_false])
      | zero =>
        refine Out2.of_facts (.DLW w which bytes) _ ?_ ?_ ?_
          (fun m => by simp only [Call.run, doLocalWrite, he, hio, Bool.false_eq_true, if_false]; rfl)
        · repeat' split
          all_goals first
            | exact hl.finishErr _ _
            | exact hl.handleDisconnect.finishErr _ _
        · repeat' split
          all_goals exact hw
        · repeat' split
          all_goals rfl
      | err kd =>
        refine Out2.of_facts (.DLW w which bytes) _ ?_ ?_ ?_
          (fun m => by simp only [Call.run, doLocalWrite, he, hio, Bool.false_eq_true, if_false]; rfl)
        · repeat' split
          all_goals first
            | exact hl.finishErr _ _
            | exact hl.handleDisconnect.finishErr _ _
        · repeat' split
          all_goals exact hw
        · repeat' split
          all_goals rfl

theorem step2_DLF (b : Nat) (w : World) (which : Nat) (k : K b (.DLF w which)) : Out2 b (.DLF w which) := by
  cases hio : w.ioFlush with
  | mk w1 r =>
    obtain ⟨io, _⟩ := ioFlush_facts hio
    obtain ⟨hl, _⟩ := ioFlush_lines hio
    have hw : w1.wakes ≤ b := by rw [io.wakes]; exact k.1
    cases r with
    | pending =>
      exact Out2.suspend (.DLF w which) hl hw
        (if which = 0 then Pc.connFlush else if which = 1 then Pc.q0Flush else Pc.discFlush)
        (by repeat' split
            all_goals trivial)
        (fun m => by simp only [Call.run, doLocalFlush, hio])
    | err kd =>
      refine Out2.of_facts (.DLF w which) _ ?_ ?_ ?_
        (fun m => by simp only [Call.run, doLocalFlush, hio]; rfl)
      · repeat' split
        all_goals first
          | exact hl.finishErr _ _
          | exact hl.handleDisconnect.finishErr _ _
      · repeat' split
        all_goals exact hw
      · repeat' split
        all_goals rfl
    | ok =>
      by_cases h0 : which = 0
      · exact .call (.DCR { w1 with sess := w1.sess.clearPing }) ⟨hw, .inl trivial⟩ (hl.of_eq rfl)
          (fun m => by simp only [Call.run, doLocalFlush, hio, h0, if_true])
      · refine Out2.of_facts (.DLF w which) _ ?_ ?_ ?_
          (fun m => by simp only [Call.run, doLocalFlush, hio, h0, if_false]; rfl)
        · split
          · exact (hl.of_eq (b := _) rfl).finish _
          · exact hl.handleDisconnect.finish _
        · split <;> exact hw
        · split <;> rfl

theorem step2_DCR (b : Nat) (w : World) (k : K b (.DCR w)) : Out2 b (.DCR w) := by
  cases hpa : w.sess.reader.packetAvailable with
  | true =>
    exact connectGotPacket_out (.DCR w) (Lines.refl w) k.1
      (fun m => by simp only [Call.run, doConnRead, hpa, if_true])
  | false =>
    cases hwin : w.sess.window with
    | none =>
      exact Out2.finishErr (.DCR w) (Lines.refl w).handleDisconnect k.1 "connect" .peerInvalid
        (fun m => by simp only [Call.run, doConnRead, hpa, hwin, Bool.false_eq_true, if_false])
    | some p =>
      obtain ⟨s1, window⟩ := p
      by_cases hz : window = 0
      · exact connectGotPacket_out (.DCR w) (a := { w with sess := s1 }) ((Lines.refl w).of_eq rfl) k.1
          (fun m => by simp only [Call.run, doConnRead, hpa, hwin, hz, Bool.false_eq_true, if_false, if_true])
      · cases hio : ({ w with sess := s1 } : World).ioRead window with
        | mk w1 r =>
          obtain ⟨io, _⟩ := ioRead_facts hio
          obtain ⟨hl0, _⟩ := ioRead_lines hio
          have hl : Lines w w1 := hl0.of_eq_left rfl
          have hw : w1.wakes ≤ b := by rw [io.wakes]; exact k.1
          cases r with
          | pending =>
            exact Out2.suspend (.DCR w) hl hw .connRead trivial
              (fun m => by simp only [Call.run, doConnRead, hpa, hwin, hz, hio, Bool.false_eq_true, if_false])
          | eof =>
            exact Out2.finishErr (.DCR w) hl.handleDisconnect hw "connect" .disconnected
              (fun m => by simp only [Call.run, doConnRead, hpa, hwin, hz, hio, Bool.false_eq_true, if_false])
          | err kd =>
            exact Out2.finishErr (.DCR w) hl.handleDisconnect hw "connect" (.transport kd)
              (fun m => by simp only [Call.run, doConnRead, hpa, hwin, hz, hio, Bool.false_eq_true, if_false])
          | ok bytes =>
            exact .call (.DCR { w1 with sess := w1.sess.commit bytes }) ⟨hw, .inl trivial⟩ (hl.of_eq rfl)
              (fun m => by simp only [Call.run, doConnRead, hpa, hwin, hz, hio, Bool.false_eq_true, if_false])


theorem step2_DL (b : Nat) (w : World) (outer : Outer) (adv : Bool) (k : K b (.DL w outer adv)) :
    Out2 b (.DL w outer adv) := by
  cases hpa : w.sess.reader.packetAvailable with
  | true =>
    cases hprp : w.processReceivedPacket with
    | mk w1 res =>
      obtain ⟨_, _, hwakes, hout, _⟩ := processReceivedPacket_facts hprp hpa
      have hl : Lines w w1 := (Lines.refl w).of_eq hout
      have hw : w1.wakes ≤ b := by rw [hwakes]; exact k.1
      cases res with
      | error e =>
        exact Out2.finishErr (.DL w outer adv) hl hw (outerName outer) e
          (fun m => by simp only [Call.run, driveLoop, hpa, hprp, if_true])
      | ok o =>
        cases o with
        | some len =>
          exact Out2.deliver (.DL w outer adv) hl hw (outerName outer) len
            (fun m => by simp only [Call.run, driveLoop, hpa, hprp, if_true])
        | none =>
          exact .call (.DL w1 outer true) ⟨hw, .inl trivial⟩ hl
            (fun m => by simp only [Call.run, driveLoop, hpa, hprp, if_true])
  | false =>
    cases ht : timedOut w with
    | true =>
      exact Out2.finishErr (.DL w outer adv) (Lines.refl w).handleDisconnect k.1 (outerName outer) .disconnected
        (fun m => by simp only [Call.run, driveLoop_service _ _ _ _ hpa, ht, if_true])
    | false =>
      cases hq : w.maybeQueuePingreq w.now with
      | error e =>
        exact Out2.finishErr (.DL w outer adv) (Lines.refl w) k.1 (outerName outer) e
          (fun m => by simp only [Call.run, driveLoop_service _ _ _ _ hpa, ht, hq, Bool.false_eq_true, if_false])
      | ok w1 =>
        obtain ⟨hserved, _, hwakes, hout⟩ := service_served w w1 ht hq
        have hl : Lines w w1 := (Lines.refl w).of_eq hout
        have hw : w1.wakes ≤ b := by rw [hwakes]; exact k.1
        cases hn : w1.sess.data.outbound.nextStep with
        | none =>
          refine .call (.DAS w1 outer adv) ⟨hw, .inl ?_⟩ hl
            (fun m => by simp only [Call.run, driveLoop_service _ _ _ _ hpa, ht, hq, hn, Bool.false_eq_true, if_false])
          cases adv with
          | true => trivial
          | false => exact hserved
        | some step =>
          refine .call (.PS w1 (.drive adv outer) step w.now) ⟨hw, .inl ?_⟩ hl
            (fun m => by simp only [Call.run, driveLoop_service _ _ _ _ hpa, ht, hq, hn, Bool.false_eq_true, if_false])
          cases adv with
          | true => trivial
          | false =>
            intro hd
            rw [nextStep_not_done w1 _ step hn] at hd
            exact Bool.noConfusion hd

theorem step2_DAS (b : Nat) (w : World) (outer : Outer) (adv : Bool) (k : K b (.DAS w outer adv)) :
    Out2 b (.DAS w outer adv) := by
  have g := good_of_K_not_wait k rfl
  cases hpa : w.sess.reader.packetAvailable with
  | true =>
    cases hprp : w.processReceivedPacket with
    | mk w1 res =>
      obtain ⟨_, _, hwakes, hout, _⟩ := processReceivedPacket_facts hprp hpa
      have hl : Lines w w1 := (Lines.refl w).of_eq hout
      have hw : w1.wakes ≤ b := by rw [hwakes]; exact k.1
      cases res with
      | error e =>
        exact Out2.finishErr (.DAS w outer adv) hl hw (outerName outer) e
          (fun m => by simp only [Call.run]; unfold driveAfterService; simp only [hpa, hprp, if_true])
      | ok o =>
        cases o with
        | some len =>
          exact Out2.deliver (.DAS w outer adv) hl hw (outerName outer) len
            (fun m => by simp only [Call.run]; unfold driveAfterService; simp only [hpa, hprp, if_true])
        | none =>
          exact .call (.DL w1 outer true) ⟨hw, .inl trivial⟩ hl
            (fun m => by simp only [Call.run]; unfold driveAfterService; simp only [hpa, hprp, if_true])
  | false =>
    cases hn : w.sess.data.outbound.nextStep with
    | some step =>
      exact .call (.DL w outer adv) (k.same rfl trivial) (Lines.refl w)
        (fun m => by simp only [Call.run]; unfold driveAfterService; simp [hpa, hn] <;> rfl)
    | none =>
      cases adv with
      | true =>
        cases outer with
        | drive =>
          exact Out2.finish (.DAS w .drive true) (Lines.refl w) k.1 "ret drive ok none"
            (fun m => by simp only [Call.run]; unfold driveAfterService; simp [hpa, hn] <;> rfl)
        | poll =>
          exact Out2.finish (.DAS w .poll true) (Lines.refl w) k.1 "ret poll ok none"
            (fun m => by simp only [Call.run]; unfold driveAfterService; simp [hpa, hn] <;> rfl)
        | recv =>
          exact .call (.DE w .recv) (k.same rfl trivial) (Lines.refl w)
            (fun m => by simp only [Call.run]; unfold driveAfterService; simp [hpa, hn] <;> rfl)
      | false =>
        have hfresh : Fresh w.now w.sess.rt.nextDeadline := g hn
        cases outer with
        | drive =>
          exact Out2.finish (.DAS w .drive false) (Lines.refl w) k.1 "ret drive ok none"
            (fun m => by simp only [Call.run]; unfold driveAfterService; simp [hpa, hn] <;> rfl)
        | poll =>
          exact .call (.DWR w .poll w.sess.rt.nextDeadline false) ⟨k.1, .inl hfresh⟩ (Lines.refl w)
            (fun m => by simp only [Call.run]; unfold driveAfterService; simp [hpa, hn] <;> rfl)
        | recv =>
          exact .call (.DWR w .recv w.sess.rt.nextDeadline false) ⟨k.1, .inl hfresh⟩ (Lines.refl w)
            (fun m => by simp only [Call.run]; unfold driveAfterService; simp [hpa, hn] <;> rfl)


/-- `K` for a `doWaitRead` that continues with the same deadline and flag in a world with the same
clock and wake counter. -/
theorem K.wait_same {b : Nat} {w w' : World} {o : Outer} {d : Option Nat} {y : Bool}
    (k : K b (.DWR w o d y)) (hn : w'.now = w.now) (hw : w'.wakes = w.wakes) : K b (.DWR w' o d y) := by
  refine ⟨by show w'.wakes ≤ b; rw [hw]; exact k.1, ?_⟩
  cases y with
  | true => exact .inl trivial
  | false =>
    rcases k.2 with g | ⟨h1, _, h3⟩
    · left; show Fresh w'.now d; rw [hn]; exact g
    · right; exact ⟨h1, rfl, by show w'.wakes = 0; rw [hw]; exact h3⟩

theorem step2_DWR (b : Nat) (w : World) (outer : Outer) (deadline : Option Nat) (yielded : Bool)
    (k : K b (.DWR w outer deadline yielded)) : Out2 b (.DWR w outer deadline yielded) := by
  cases hpa : w.sess.reader.packetAvailable with
  | true =>
    exact .call (.DE w outer) ⟨k.1, .inl trivial⟩ (Lines.refl w)
      (fun m => by simp only [Call.run, doWaitRead, hpa, if_true])
  | false =>
    cases hwin : w.sess.window with
    | none =>
      exact Out2.finishErr (.DWR w outer deadline yielded) (Lines.refl w).handleDisconnect k.1 (outerName outer) .peerInvalid
        (fun m => by simp only [Call.run, doWaitRead, hpa, hwin, Bool.false_eq_true, if_false])
    | some p =>
      obtain ⟨s1, window⟩ := p
      by_cases hz : window = 0
      · exact .call (.DE { w with sess := s1 } outer) ⟨k.1, .inl trivial⟩ ((Lines.refl w).of_eq rfl)
          (fun m => by simp only [Call.run, doWaitRead, hpa, hwin, hz, Bool.false_eq_true, if_false, if_true])
      · cases hio : ({ w with sess := s1 } : World).ioRead window with
        | mk w1 r =>
          obtain ⟨io, _⟩ := ioRead_facts hio
          obtain ⟨hl0, hnow0⟩ := ioRead_lines hio
          have hl : Lines w w1 := hl0.of_eq_left rfl
          have hnow : w1.now = w.now := hnow0
          have hwakes : w1.wakes = w.wakes := io.wakes
          have hw : w1.wakes ≤ b := by rw [hwakes]; exact k.1
          cases r with
          | eof =>
            exact Out2.finishErr (.DWR w outer deadline yielded) hl.handleDisconnect hw (outerName outer) .disconnected
              (fun m => by simp only [Call.run, doWaitRead, hpa, hwin, hz, hio, Bool.false_eq_true, if_false])
          | err kd =>
            exact Out2.finishErr (.DWR w outer deadline yielded) hl.handleDisconnect hw (outerName outer) (.transport kd)
              (fun m => by simp only [Call.run, doWaitRead, hpa, hwin, hz, hio, Bool.false_eq_true, if_false])
          | ok bytes =>
            exact .call (.DWR { w1 with sess := w1.sess.commit bytes } outer deadline yielded)
              (k.wait_same (w' := { w1 with sess := w1.sess.commit bytes }) hnow hwakes) (hl.of_eq rfl)
              (fun m => by simp only [Call.run, doWaitRead, hpa, hwin, hz, hio, Bool.false_eq_true, if_false])
          | pending =>
            cases deadline with
            | none =>
              exact Out2.suspend (.DWR w outer none yielded) hl hw (.waitRead outer none true) rfl
                (fun m => by simp only [Call.run, doWaitRead, hpa, hwin, hz, hio, Bool.false_eq_true, if_false])
            | some d =>
              by_cases hge : w1.now ≥ d
              · cases yielded with
                | true =>
                  -- the timer fired: back to `drive_packet`
                  exact .call (.DE w1 outer) ⟨hw, .inl trivial⟩ hl
                    (fun m => by simp only [Call.run, doWaitRead, hpa, hwin, hz, hio, hge, Bool.false_eq_true, if_false, if_true])
                | false =>
                  -- an expired deadline on entry: impossible after a service pass; a hand-made await
                  -- point wakes itself once
                  rcases k.2 with g | ⟨hb1, _, hw0⟩
                  · exfalso
                    have : w.now < d := g
                    omega
                  · have hw0' : w1.wakes = 0 := by rw [hwakes]; exact hw0
                    have hwk : ¬ (w1.wakes + 1 ≥ 64) := by omega
                    refine .call (.DWR { w1 with wakes := w1.wakes + 1 } outer (some d) true) ⟨?_, .inl trivial⟩ (hl.of_eq rfl)
                      (fun m => by simp only [Call.run, doWaitRead, hpa, hwin, hz, hio, hge, hwk, Bool.false_eq_true, if_false, if_true])
                    show w1.wakes + 1 ≤ b
                    omega
              · exact Out2.suspend (.DWR w outer (some d) yielded) hl hw (.waitRead outer (some d) true) rfl
                  (fun m => by simp only [Call.run, doWaitRead, hpa, hwin, hz, hio, hge, Bool.false_eq_true, if_false])


theorem AF2_done {b : Nat} {w : World} {k : AfterFlush} {m0 : Nat} {r : World} (_hint : r = afterFlush (m0 + 1) w k)
    (hl : Lines w r) (hw : w.wakes ≤ b) (hrw : r.wakes = w.wakes) (hf : r.fut = none)
    (h : ∀ m, afterFlush (m + 1) w k = r) : Out2 b (.AF w k) :=
  .done r hl (by rw [hrw]; exact hw) (.inl hf) (fun m => by simp only [Call.run]; exact h m)

theorem AF2_call_FL {b : Nat} {w w' : World} {k k' : AfterFlush} (_hint : flushLoop 0 w' k' = afterFlush (0 + 1) w k)
    (hp : Pure w w') (kk : K b (.AF w k)) (h : ∀ m, afterFlush (m + 1) w k = flushLoop m w' k') : Out2 b (.AF w k) :=
  .call (.FL w' k') (kk.same hp.wakes trivial) (pure_lines hp) (fun m => by simp only [Call.run]; exact h m)

theorem AF2_call_DLW {b : Nat} {w w' : World} {k : AfterFlush} {which : Nat} {bytes : Bytes}
    (_hint : doLocalWrite 0 w' which bytes = afterFlush (0 + 1) w k)
    (hp : Pure w w') (kk : K b (.AF w k)) (h : ∀ m, afterFlush (m + 1) w k = doLocalWrite m w' which bytes) :
    Out2 b (.AF w k) :=
  .call (.DLW w' which bytes) (kk.same hp.wakes trivial) (pure_lines hp) (fun m => by simp only [Call.run]; exact h m)

/-- Closes every leaf of `afterFlush` (see `af_leaf` in `FuelStep.lean`). -/
macro "af2_leaf" kk:ident : tactic => `(tactic| first
  | (refine AF2_call_FL (by assumption) ?_ $kk (fun m => ?_)
     · first
       | exact Pure.refl _
       | (apply Pure.sess; first | rfl | (rw [retain_reader (by assumption)]; rfl))
     · unfold afterFlush; simp [*])
  | (refine AF2_call_DLW (by assumption) ?_ $kk (fun m => ?_)
     · first
       | exact Pure.refl _
       | (apply Pure.sess; first | rfl | (rw [retain_reader (by assumption)]; rfl))
     · unfold afterFlush; simp [*])
  | (refine AF2_done (by assumption) ?_ (And.left $kk) (by rfl) (by rfl) (fun m => ?_)
     · (first
         | with_reducible apply Lines.finishErr
         | with_reducible apply Lines.finishOp)
       first
         | exact Lines.refl _
         | exact (Lines.refl _).of_eq rfl
     · unfold afterFlush; simp [*]))

theorem step2_AF (b : Nat) (w : World) (k : AfterFlush) (kk : K b (.AF w k)) : Out2 b (.AF w k) := by
  have probe : afterFlush (0 + 1) w k = afterFlush (0 + 1) w k := rfl
  cases k with
  | post name op =>
    conv at probe => lhs; unfold afterFlush
    simp only [] at probe
    af2_leaf kk
  | discPre d =>
    conv at probe => lhs; unfold afterFlush
    simp only [] at probe
    repeat' split at probe
    all_goals af2_leaf kk
  | subPre r =>
    conv at probe => lhs; unfold afterFlush
    simp only [] at probe
    repeat' split at probe
    all_goals af2_leaf kk
  | unsubPre r =>
    conv at probe => lhs; unfold afterFlush
    simp only [] at probe
    repeat' split at probe
    all_goals af2_leaf kk
  | publishPre r =>
    obtain ⟨kd, hkd⟩ : ∃ kd, (if effectiveQos w.sess.rt.maxQos w.sess.downgrade r.qos = 2 then OpKind.pub2
      else OpKind.pub1) = kd := ⟨_, rfl⟩
    conv at probe => lhs; unfold afterFlush
    simp only [hkd] at probe
    repeat' split at probe
    all_goals af2_leaf kk


/-- **One step under the invariant.** Whatever the function: it finishes, with only blank-containing
lines added to the trace, at most `b` self-wakes and the operation cleared or suspended at an await
point of the machine's making; or it continues as a call that satisfies the invariant again. -/
theorem step2 (b : Nat) (c : Call) (k : K b c) : Out2 b c := by
  cases c with
  | FL w kk => exact step2_FL b w kk k
  | PS w ctx step now => exact step2_PS b w ctx step now k
  | DSW w ctx pkt bytes written len now => exact step2_DSW b w ctx pkt bytes written len now k
  | DSF w ctx pkt now => exact step2_DSF b w ctx pkt now k
  | SR w ctx adv => exact step2_SR b w ctx adv k
  | AF w kk => exact step2_AF b w kk k
  | DLW w which bytes => exact step2_DLW b w which bytes k
  | DLF w which => exact step2_DLF b w which k
  | DCR w => exact step2_DCR b w k
  | DL w outer adv => exact step2_DL b w outer adv k
  | DAS w outer adv => exact step2_DAS b w outer adv k
  | DE w outer => exact step2_DE b w outer k
  | DWR w outer deadline yielded => exact step2_DWR b w outer deadline yielded k

end NoSpin
end Minimq
