import Minimq.Proofs.CancelLink
/-
`handles`, `lastRes` and the trace are write-only: no machine function, `poll` or directive reads them —
`handles` is appended to and its length printed (`finishOp`), `lastRes` is overwritten, the trace is
prepended to. Formally (`HSim ha hb a b`, with base worlds `ha`, `hb`): two worlds `a`, `b` that agree on
everything else, whose handle lists are `ha.handles ++ ops` and `hb.handles ++ ops` for the same `ops`,
and whose traces are equal line by line except that the `ret <name> ok op <k> …` line of the `i`-th of
`ops` carries the index `ha.handles.length + i` in the one and `hb.handles.length + i` in the other, are
taken by every machine function / directive to two such worlds. `HSim0` is the same up to the per-POLL
flags `wakes` / `lastIoStarved`, which no directive reads before resetting them (`execDirective_clr`).
`fin_congr` is the resulting statement about `World.fin`.

`OutFrame.lean` proves the corresponding statement for the old end of the trace; the structure of the
proof is the same (one structure of thirteen statements, one lemma per function for the step). The
statements are relational (`HSim a b → HSim (f a) (f b)`); inside a step the first world is written as the
second with other handles, last result and trace (`HSim.exists_withH`), so that everything the function
reads is syntactically the same in both runs.
-/
namespace Minimq
open Gen World Outbound Fuel

/-- The world without `handles`, `lastRes` and the trace. (Keeps the suspended future and the per-POLL
flags: the machine functions read those.) -/
def World.core (w : World) : World := { w with handles := [], lastRes := none, out := [] }

/-- The per-POLL flags reset (what every POLL and every operation start does first). -/
def World.clrFlags (w : World) : World := { w with wakes := 0, lastIoStarved := false }

/-- The trace line `finishOp` prints for the `k`-th handle at time `now`. -/
def opLine (name : String) (op : Op) (k now : Nat) : String :=
  s!"{s!"ret {name} ok op {k} {opKindName op.kind} {op.id} {op.generation}"} @{now}"

theorem finishOp_out (w : World) (name : String) (op : Op) :
    (w.finishOp name op).out = opLine name op w.handles.length w.now :: w.out := rfl

/-- Two traces (newest first) that are equal line by line, except that where the one has the line of
`finishOp` for handle index `da + i` the other has the same line for handle index `db + i`; and `ops`
are the operations of those `finishOp` lines, oldest first (so `i` is the position in `ops`). -/
inductive TrRel (da db : Nat) : List Op → List String → List String → Prop
  | nil : TrRel da db [] [] []
  | same (l : String) {ops : List Op} {x y : List String} : TrRel da db ops x y → TrRel da db ops (l :: x) (l :: y)
  | op (name : String) (op : Op) (now : Nat) {ops : List Op} {x y : List String} : TrRel da db ops x y →
      TrRel da db (ops ++ [op]) (opLine name op (da + ops.length) now :: x) (opLine name op (db + ops.length) now :: y)

theorem TrRel.refl (da db : Nat) (x : List String) : TrRel da db [] x x := by
  induction x with
  | nil => exact .nil
  | cons l x ih => exact .same l ih

theorem TrRel.length {da db : Nat} {ops : List Op} {x y : List String} (h : TrRel da db ops x y) :
    x.length = y.length := by
  induction h with
  | nil => rfl
  | same l _ ih => simp [ih]
  | op name op now _ ih => simp [ih]

/-- With the same base index the traces are equal. -/
theorem TrRel.eq_of_eq {d : Nat} {ops : List Op} {x y : List String} (h : TrRel d d ops x y) : x = y := by
  induction h with
  | nil => rfl
  | same l _ ih => rw [ih]
  | op name op now _ ih => rw [ih]

/-- Position by position: the lines are equal, or they are the `finishOp` lines of the same operation
(the `i`-th of `ops`), name and time with handle indices `da + i` and `db + i`. -/
theorem TrRel.get {da db : Nat} {ops : List Op} {x y : List String} (h : TrRel da db ops x y) :
    ∀ (n : Nat) (la lb : String), x[n]? = some la → y[n]? = some lb →
      la = lb ∨ ∃ name op i now, ops[i]? = some op ∧
        la = opLine name op (da + i) now ∧ lb = opLine name op (db + i) now := by
  induction h with
  | nil => intro n la lb h1; simp at h1
  | same l _ ih =>
    intro n la lb h1 h2
    cases n with
    | zero =>
      simp only [List.getElem?_cons_zero, Option.some.injEq] at h1 h2
      exact Or.inl (h1.symm.trans h2)
    | succ n => simp only [List.getElem?_cons_succ] at h1 h2; exact ih n la lb h1 h2
  | @op name op now ops x y _ ih =>
    intro n la lb h1 h2
    cases n with
    | zero =>
      simp only [List.getElem?_cons_zero, Option.some.injEq] at h1 h2
      exact Or.inr ⟨name, op, ops.length, now, by simp, h1.symm, h2.symm⟩
    | succ n =>
      simp only [List.getElem?_cons_succ] at h1 h2
      rcases ih n la lb h1 h2 with e | ⟨nm, o, i, t, hi, e1, e2⟩
      · exact Or.inl e
      · refine Or.inr ⟨nm, o, i, t, ?_, e1, e2⟩
        have hlt : i < ops.length := (List.getElem?_eq_some_iff.1 hi).1
        rw [List.getElem?_append_left hlt]; exact hi

/-- **The relation.** `a` and `b` agree on everything but handles, last result and trace; their handle
lists are `ha` and `hb` followed by the same operations; their traces are equal up to the printed handle
indices. -/
structure HSim (ha hb : World) (a b : World) : Prop where
  core : a.core = b.core
  hnd : ∃ ops, a.handles = ha.handles ++ ops ∧ b.handles = hb.handles ++ ops ∧
    TrRel ha.handles.length hb.handles.length ops a.out b.out
  res : a.lastRes = b.lastRes ∨ (a.lastRes = ha.lastRes ∧ b.lastRes = hb.lastRes)

namespace HSim
variable {ha hb : World} {a b : World}

theorem proj {β : Type} (h : HSim ha hb a b) (g : World → β) : g a.core = g b.core := congrArg g h.core
theorem sess (h : HSim ha hb a b) : a.sess = b.sess := h.proj World.sess
theorem conn (h : HSim ha hb a b) : a.conn = b.conn := h.proj World.conn
theorem nets (h : HSim ha hb a b) : a.nets = b.nets := h.proj World.nets
theorem fut (h : HSim ha hb a b) : a.fut = b.fut := h.proj World.fut
theorem now (h : HSim ha hb a b) : a.now = b.now := h.proj World.now
theorem slot (h : HSim ha hb a b) : a.slot = b.slot := h.proj World.slot
theorem wakes (h : HSim ha hb a b) : a.wakes = b.wakes := h.proj World.wakes
theorem starved (h : HSim ha hb a b) : a.lastIoStarved = b.lastIoStarved := h.proj World.lastIoStarved
theorem tornNets (h : HSim ha hb a b) : a.tornNets = b.tornNets := h.proj World.tornNets
theorem log (h : HSim ha hb a b) : a.log = b.log := h.proj World.log
theorem live (h : HSim ha hb a b) : a.live = b.live := h.proj World.live
theorem netIdx (h : HSim ha hb a b) : a.netIdx = b.netIdx := h.proj World.netIdx
theorem curNet (h : HSim ha hb a b) : a.curNet = b.curNet := h.proj World.curNet

/-- A change that is a function of the `core` and leaves handles and trace alone. -/
theorem map (h : HSim ha hb a b) (g : World → World) (hc : ∀ w : World, (g w).core = (g w.core).core)
    (hh : ∀ w : World, (g w).handles = w.handles) (ho : ∀ w : World, (g w).out = w.out)
    (hl : ∀ w : World, (g w).lastRes = w.lastRes) :
    HSim ha hb (g a) (g b) :=
  ⟨by rw [hc a, hc b, h.core], by rw [hh, hh, ho, ho]; exact h.hnd, by rw [hl, hl]; exact h.res⟩

theorem setSess (h : HSim ha hb a b) (s : Session) :
    HSim ha hb ({ a with sess := s } : World) ({ b with sess := s } : World) :=
  h.map (fun w => { w with sess := s }) (fun _ => rfl) (fun _ => rfl) (fun _ => rfl) (fun _ => rfl)

theorem setWakes (h : HSim ha hb a b) (n : Nat) :
    HSim ha hb ({ a with wakes := n } : World) ({ b with wakes := n } : World) :=
  h.map (fun w => { w with wakes := n }) (fun _ => rfl) (fun _ => rfl) (fun _ => rfl) (fun _ => rfl)

theorem setSlot (h : HSim ha hb a b) (n : Option Nat) :
    HSim ha hb ({ a with slot := n } : World) ({ b with slot := n } : World) :=
  h.map (fun w => { w with slot := n }) (fun _ => rfl) (fun _ => rfl) (fun _ => rfl) (fun _ => rfl)

theorem setStarved (h : HSim ha hb a b) (x : Bool) :
    HSim ha hb ({ a with lastIoStarved := x } : World) ({ b with lastIoStarved := x } : World) :=
  h.map (fun w => { w with lastIoStarved := x }) (fun _ => rfl) (fun _ => rfl) (fun _ => rfl) (fun _ => rfl)

theorem suspend (h : HSim ha hb a b) (pc : Pc) : HSim ha hb (a.suspend pc) (b.suspend pc) :=
  h.map (fun w => w.suspend pc) (fun _ => rfl) (fun _ => rfl) (fun _ => rfl) (fun _ => rfl)

theorem handleDisconnect (h : HSim ha hb a b) : HSim ha hb a.handleDisconnect b.handleDisconnect :=
  h.map World.handleDisconnect (fun _ => rfl) (fun _ => rfl) (fun _ => rfl) (fun _ => rfl)

theorem setCurNet (h : HSim ha hb a b) (n : Net) : HSim ha hb (a.setCurNet n) (b.setCurNet n) :=
  h.map (fun w => w.setCurNet n) (fun _ => rfl) (fun _ => rfl) (fun _ => rfl) (fun _ => rfl)

theorem completeFlush (h : HSim ha hb a b) (pkt : Flushed) (now : Nat) :
    HSim ha hb (a.completeFlush pkt now) (b.completeFlush pkt now) :=
  h.map (fun w => w.completeFlush pkt now) (fun _ => rfl) (fun _ => rfl) (fun _ => rfl) (fun _ => rfl)

theorem setWritten (h : HSim ha hb a b) (pkt : Flushed) (x y : Nat) :
    HSim ha hb (a.setWritten pkt x y) (b.setWritten pkt x y) :=
  h.map (fun w => w.setWritten pkt x y) (fun _ => rfl) (fun _ => rfl) (fun _ => rfl) (fun _ => rfl)

theorem discFail (h : HSim ha hb a b) (ctx : StepCtx) : HSim ha hb (a.discFail ctx) (b.discFail ctx) := by
  unfold World.discFail
  split
  · exact h.handleDisconnect
  · exact h

theorem failStep (h : HSim ha hb a b) (ctx : StepCtx) (st : Outbound.Step) :
    HSim ha hb (a.failStep ctx st) (b.failStep ctx st) := by
  cases st with
  | retained id off len s => exact h.discFail ctx
  | control x s => exact h.handleDisconnect
  | release id rc s => exact h.handleDisconnect

theorem emit (h : HSim ha hb a b) (l : String) : HSim ha hb (a.emit l) (b.emit l) :=
  ⟨h.core, by obtain ⟨ops, e1, e2, t⟩ := h.hnd; exact ⟨ops, e1, e2, .same l t⟩, h.res⟩

theorem finish (h : HSim ha hb a b) (l : String) : HSim ha hb (a.finish l) (b.finish l) := by
  obtain ⟨ops, e1, e2, t⟩ := h.hnd
  refine ⟨congrArg (fun c : World => ({ c with fut := none } : World)) h.core, ⟨ops, e1, e2, ?_⟩, Or.inl rfl⟩
  show TrRel _ _ _ (s!"{l} @{a.now}" :: a.out) (s!"{l} @{b.now}" :: b.out)
  rw [h.now]
  exact .same _ t

theorem finishErr (h : HSim ha hb a b) (op : String) (e : Err) :
    HSim ha hb (a.finishErr op e) (b.finishErr op e) := by
  have := h.finish s!"ret {op} err {errName e}"
  exact ⟨this.core, this.hnd, Or.inl rfl⟩

theorem finishOp (h : HSim ha hb a b) (name : String) (op : Op) :
    HSim ha hb (a.finishOp name op) (b.finishOp name op) := by
  obtain ⟨ops, e1, e2, t⟩ := h.hnd
  refine ⟨congrArg (fun c : World => ({ c with fut := none } : World)) h.core, ⟨ops ++ [op], ?_, ?_, ?_⟩, Or.inl rfl⟩
  · show a.handles ++ [op] = _
    rw [e1, List.append_assoc]
  · show b.handles ++ [op] = _
    rw [e2, List.append_assoc]
  · rw [finishOp_out, finishOp_out, e1, e2, h.now, List.length_append, List.length_append]
    exact .op name op b.now t

theorem foldl_emit (ls : List String) (h : HSim ha hb a b) :
    HSim ha hb (ls.foldl World.emit a) (ls.foldl World.emit b) := by
  induction ls generalizing a b with
  | nil => exact h
  | cons l ls ih => exact ih (h.emit l)

theorem deliver (h : HSim ha hb a b) (name : String) (len : Nat) :
    HSim ha hb (a.deliver name len) (b.deliver name len) := by
  have h1 := h.finish s!"ret {name} ok msg"
  unfold World.deliver
  simp only []
  rw [show (a.finish s!"ret {name} ok msg").sess = b.sess from h.sess,
    show (b.finish s!"ret {name} ok msg").sess = b.sess from rfl]
  split
  · exact foldl_emit _ h1
  · exact h1.emit _

/-! ### The I/O calls -/

end HSim

/-- The same world with other handles, last result and trace. -/
def World.withH (w : World) (hs : List Op) (lr : Option (Except Err Unit)) (o : List String) : World :=
  { w with handles := hs, lastRes := lr, out := o }

theorem eq_withH_of_core {a b : World} (h : a.core = b.core) : a = b.withH a.handles a.lastRes a.out := by
  cases a; cases b
  simp only [World.core, World.mk.injEq] at h
  obtain ⟨h1, h2, h3, h4, h5, h6, _, h8, h9, _, _, h12, h13⟩ := h
  subst h1 h2 h3 h4 h5 h6 h8 h9 h12 h13
  rfl

/-- Each of the three I/O calls prints one line, which does not depend on handles, last result or the
trace so far, and does not touch the handles. -/
theorem ioWrite_withH (w : World) (bs : Bytes) :
    ∃ l, (w.ioWrite bs).1.out = l :: w.out ∧ (w.ioWrite bs).1.handles = w.handles ∧
      (w.ioWrite bs).1.lastRes = w.lastRes ∧
      ∀ hs lr o, (w.withH hs lr o).ioWrite bs = ((w.ioWrite bs).1.withH hs lr (l :: o), (w.ioWrite bs).2) := by
  have e : ∀ hs lr o, (w.withH hs lr o).slot = w.slot := fun _ _ _ => rfl
  unfold World.ioWrite
  simp only [e]
  cases w.slot with
  | none => exact ⟨_, rfl, rfl, rfl, fun _ _ _ => rfl⟩
  | some n =>
    simp only []
    split
    · exact ⟨_, rfl, rfl, rfl, fun _ _ _ => rfl⟩
    · split
      · exact ⟨_, rfl, rfl, rfl, fun _ _ _ => rfl⟩
      · exact ⟨_, rfl, rfl, rfl, fun _ _ _ => rfl⟩

theorem ioFlush_withH (w : World) :
    ∃ l, (w.ioFlush).1.out = l :: w.out ∧ (w.ioFlush).1.handles = w.handles ∧
      (w.ioFlush).1.lastRes = w.lastRes ∧
      ∀ hs lr o, (w.withH hs lr o).ioFlush = ((w.ioFlush).1.withH hs lr (l :: o), (w.ioFlush).2) := by
  have e : ∀ hs lr o, (w.withH hs lr o).slot = w.slot := fun _ _ _ => rfl
  unfold World.ioFlush
  simp only [e]
  cases w.slot with
  | none => exact ⟨_, rfl, rfl, rfl, fun _ _ _ => rfl⟩
  | some n =>
    simp only []
    split
    · exact ⟨_, rfl, rfl, rfl, fun _ _ _ => rfl⟩
    · exact ⟨_, rfl, rfl, rfl, fun _ _ _ => rfl⟩

theorem ioRead_withH (w : World) (n : Nat) :
    ∃ l, (w.ioRead n).1.out = l :: w.out ∧ (w.ioRead n).1.handles = w.handles ∧
      (w.ioRead n).1.lastRes = w.lastRes ∧
      ∀ hs lr o, (w.withH hs lr o).ioRead n = ((w.ioRead n).1.withH hs lr (l :: o), (w.ioRead n).2) := by
  have e : ∀ hs lr o, (w.withH hs lr o).slot = w.slot := fun _ _ _ => rfl
  unfold World.ioRead
  simp only [e]
  cases w.slot with
  | none => exact ⟨_, rfl, rfl, rfl, fun _ _ _ => rfl⟩
  | some k =>
    dsimp only [World.withH, World.curNet, World.setCurNet, World.emit, World.netIdx]
    repeat' split
    all_goals exact ⟨_, rfl, rfl, rfl, fun _ _ _ => rfl⟩

namespace HSim
variable {ha hb : World} {a b : World}

theorem eq_withH (h : HSim ha hb a b) : a = b.withH a.handles a.lastRes a.out := eq_withH_of_core h.core

/-- `x` is what an I/O call made of `b`, `x.withH …` what it made of `a`. -/
theorem io_step (h : HSim ha hb a b) {x : World} {l : String} (ho : x.out = l :: b.out) (hh : x.handles = b.handles)
    (hl : x.lastRes = b.lastRes)
    (hc : x.core = (x.withH a.handles a.lastRes (l :: a.out)).core := by rfl) :
    HSim ha hb (x.withH a.handles a.lastRes (l :: a.out)) x := by
  refine ⟨hc.symm, ?_, ?_⟩
  · obtain ⟨ops, e1, e2, t⟩ := h.hnd
    rw [hh, ho]; exact ⟨ops, e1, e2, .same l t⟩
  · rw [hl]; exact h.res

theorem ioWrite (h : HSim ha hb a b) (bs : Bytes) :
    HSim ha hb (a.ioWrite bs).1 (b.ioWrite bs).1 ∧ (a.ioWrite bs).2 = (b.ioWrite bs).2 := by
  obtain ⟨l, h1, h2, h2', h3⟩ := ioWrite_withH b bs
  have e := h3 a.handles a.lastRes a.out
  rw [← h.eq_withH] at e
  rw [e]
  exact ⟨h.io_step h1 h2 h2', rfl⟩

theorem ioFlush (h : HSim ha hb a b) :
    HSim ha hb (a.ioFlush).1 (b.ioFlush).1 ∧ (a.ioFlush).2 = (b.ioFlush).2 := by
  obtain ⟨l, h1, h2, h2', h3⟩ := ioFlush_withH b
  have e := h3 a.handles a.lastRes a.out
  rw [← h.eq_withH] at e
  rw [e]
  exact ⟨h.io_step h1 h2 h2', rfl⟩

theorem ioRead (h : HSim ha hb a b) (n : Nat) :
    HSim ha hb (a.ioRead n).1 (b.ioRead n).1 ∧ (a.ioRead n).2 = (b.ioRead n).2 := by
  obtain ⟨l, h1, h2, h2', h3⟩ := ioRead_withH b n
  have e := h3 a.handles a.lastRes a.out
  rw [← h.eq_withH] at e
  rw [e]
  exact ⟨h.io_step h1 h2 h2', rfl⟩

/-! ### Inbound packets, CONNACK -/

theorem processReceivedPacket (h : HSim ha hb a b) :
    HSim ha hb (a.processReceivedPacket).1 (b.processReceivedPacket).1 ∧
      (a.processReceivedPacket).2 = (b.processReceivedPacket).2 := by
  unfold World.processReceivedPacket
  rw [h.sess]
  split
  · exact ⟨h, rfl⟩
  · cases b.sess.takePkt with
    | mk s1 res =>
      simp only []
      cases res with
      | none => exact ⟨(h.setSess s1).handleDisconnect, rfl⟩
      | some p =>
        obtain ⟨len, pkt⟩ := p
        simp only []
        cases Session.handle s1 pkt with
        | mk s2 r =>
          simp only []
          have h2 := (h.setSess s1).setSess s2
          cases r with
          | ok x => cases x <;> exact ⟨h2, rfl⟩
          | error e => cases e <;> first | exact ⟨h2, rfl⟩ | exact ⟨h2.handleDisconnect, rfl⟩

theorem activate (h : HSim ha hb a b) (sp : Bool) (block : Bytes) :
    HSim ha hb (World.activate a sp block) (World.activate b sp block) := by
  unfold World.activate
  rw [show a.sess.activate sp block a.now = b.sess.activate sp block b.now by rw [h.sess, h.now]]
  cases b.sess.activate sp block b.now with
  | mk s r =>
    cases r with
    | error e =>
      exact HSim.finishErr (h.map (fun w => ({ w with sess := s, conn := w.conn.map (fun (c : Conn) => { c with live := false }) } : World))
        (fun _ => rfl) (fun _ => rfl) (fun _ => rfl) (fun _ => rfl)) _ _
    | ok u =>
      exact HSim.finish (h.map (fun w => ({ w with sess := s, conn := some { live := true, resumed := sp } } : World))
        (fun _ => rfl) (fun _ => rfl) (fun _ => rfl) (fun _ => rfl)) _

theorem connectGotPacket (h : HSim ha hb a b) : HSim ha hb (World.connectGotPacket a) (World.connectGotPacket b) := by
  unfold World.connectGotPacket
  rw [h.sess]
  cases b.sess.takePkt with
  | mk s1 res =>
    simp only []
    have h1 := h.setSess s1
    cases res with
    | none => exact h1.handleDisconnect.finishErr _ _
    | some p =>
      obtain ⟨len, pkt⟩ := p
      cases pkt <;> try exact h1.handleDisconnect.finishErr _ _
      rename_i sp rc block
      simp only []
      split
      · exact h1.finishErr _ _
      · exact h1.activate sp block

end HSim

theorem withH_sess (w : World) (hs lr o) : (w.withH hs lr o).sess = w.sess := rfl
theorem withH_now (w : World) (hs lr o) : (w.withH hs lr o).now = w.now := rfl
theorem withH_live (w : World) (hs lr o) : (w.withH hs lr o).live = w.live := rfl
theorem withH_wakes (w : World) (hs lr o) : (w.withH hs lr o).wakes = w.wakes := rfl
theorem withH_conn (w : World) (hs lr o) : (w.withH hs lr o).conn = w.conn := rfl
theorem withH_fut (w : World) (hs lr o) : (w.withH hs lr o).fut = w.fut := rfl
theorem withH_starved (w : World) (hs lr o) : (w.withH hs lr o).lastIoStarved = w.lastIoStarved := rfl
theorem withH_nets (w : World) (hs lr o) : (w.withH hs lr o).nets = w.nets := rfl
theorem prepareStep_withH (w : World) (hs lr o) (step : Outbound.Step) :
    prepareStep (w.withH hs lr o) step = prepareStep w step := rfl

/-- Write `a` as `b` with other handles, last result and trace. -/
theorem HSim.exists_withH {ha hb : World} {a b : World} (h : HSim ha hb a b) :
    ∃ hs lr o, a = b.withH hs lr o := ⟨_, _, _, h.eq_withH⟩

/-- Destructure the results of an I/O call (or of `process_received_packet`) in both runs at once. -/
theorem HSim.pair {ha hb : World} {α : Type} {pa pb : World × α}
    (h : HSim ha hb pa.1 pb.1 ∧ pa.2 = pb.2) : ∃ a1 b1 r, pa = (a1, r) ∧ pb = (b1, r) ∧ HSim ha hb a1 b1 := by
  obtain ⟨a1, ra⟩ := pa
  obtain ⟨b1, rb⟩ := pb
  obtain ⟨h1, h2⟩ := h
  simp only [] at h1 h2
  subst h2
  exact ⟨a1, b1, ra, rfl, rfl, h1⟩

theorem HSim.ite {ha hb : World} {c : Prop} [Decidable c] {x x' y y' : World}
    (h1 : c → HSim ha hb x y) (h2 : ¬ c → HSim ha hb x' y') :
    HSim ha hb (if c then x else x') (if c then y else y') := by
  by_cases hc : c
  · rw [if_pos hc, if_pos hc]; exact h1 hc
  · rw [if_neg hc, if_neg hc]; exact h2 hc

theorem HSim.ite2 {ha hb : World} {c c' : Prop} [Decidable c] [Decidable c'] {x x' y y' : World}
    (hcc : c ↔ c') (h1 : c' → HSim ha hb x y) (h2 : ¬ c' → HSim ha hb x' y') :
    HSim ha hb (if c then x else x') (if c' then y else y') := by
  by_cases hc : c'
  · rw [if_pos hc, if_pos (hcc.2 hc)]; exact h1 hc
  · rw [if_neg hc, if_neg (fun k => hc (hcc.1 k))]; exact h2 hc

/-- Split the same `if` in both runs. -/
macro "hsplit" : tactic => `(tactic| refine HSim.ite (fun _ => ?_) (fun _ => ?_))

/-! ### The thirteen machine functions -/

/-- The statement proved for all thirteen mutually recursive machine functions at once. -/
structure CongrM (ha hb : World) (fuel : Nat) : Prop where
  fl : ∀ a b k, HSim ha hb a b → HSim ha hb (flushLoop fuel a k) (flushLoop fuel b k)
  ps : ∀ a b ctx step now, HSim ha hb a b →
    HSim ha hb (performStep fuel a ctx step now) (performStep fuel b ctx step now)
  dsw : ∀ a b ctx pkt bytes wr len now, HSim ha hb a b →
    HSim ha hb (doStepWrite fuel a ctx pkt bytes wr len now) (doStepWrite fuel b ctx pkt bytes wr len now)
  dsf : ∀ a b ctx pkt now, HSim ha hb a b →
    HSim ha hb (doStepFlush fuel a ctx pkt now) (doStepFlush fuel b ctx pkt now)
  sr : ∀ a b ctx adv, HSim ha hb a b → HSim ha hb (stepReturned fuel a ctx adv) (stepReturned fuel b ctx adv)
  af : ∀ a b k, HSim ha hb a b → HSim ha hb (afterFlush fuel a k) (afterFlush fuel b k)
  dlw : ∀ a b which bytes, HSim ha hb a b →
    HSim ha hb (doLocalWrite fuel a which bytes) (doLocalWrite fuel b which bytes)
  dlf : ∀ a b which, HSim ha hb a b → HSim ha hb (doLocalFlush fuel a which) (doLocalFlush fuel b which)
  dcr : ∀ a b, HSim ha hb a b → HSim ha hb (doConnRead fuel a) (doConnRead fuel b)
  dl : ∀ a b outer adv, HSim ha hb a b → HSim ha hb (driveLoop fuel a outer adv) (driveLoop fuel b outer adv)
  das : ∀ a b outer adv, HSim ha hb a b →
    HSim ha hb (driveAfterService fuel a outer adv) (driveAfterService fuel b outer adv)
  de : ∀ a b outer, HSim ha hb a b → HSim ha hb (driveEnter fuel a outer) (driveEnter fuel b outer)
  dwr : ∀ a b outer d y, HSim ha hb a b →
    HSim ha hb (doWaitRead fuel a outer d y) (doWaitRead fuel b outer d y)

section steps
variable {ha hb : World}

theorem congr_zero : CongrM ha hb 0 := by
  constructor <;> intros <;>
    simp only [flushLoop, performStep, doStepWrite, doStepFlush, stepReturned, afterFlush, doLocalWrite,
      doLocalFlush, doConnRead, driveLoop, driveAfterService, driveEnter, doWaitRead] <;>
    exact HSim.emit (by assumption) _

theorem cstep_sr (fuel : Nat) (ih : CongrM ha hb fuel) : ∀ a b ctx adv, HSim ha hb a b →
    HSim ha hb (stepReturned (fuel + 1) a ctx adv) (stepReturned (fuel + 1) b ctx adv) := by
  intro a b ctx adv h
  unfold stepReturned
  cases ctx with
  | flush k => exact ih.fl _ _ _ h
  | drive advanced outer => exact ih.das _ _ _ _ h

theorem cstep_de (fuel : Nat) (ih : CongrM ha hb fuel) : ∀ a b outer, HSim ha hb a b →
    HSim ha hb (driveEnter (fuel + 1) a outer) (driveEnter (fuel + 1) b outer) := by
  intro a b outer h
  simp only [driveEnter, h.live]
  hsplit
  · exact h.finishErr _ _
  · exact ih.dl _ _ _ _ h

theorem cstep_dsf (fuel : Nat) (ih : CongrM ha hb fuel) : ∀ a b ctx pkt now, HSim ha hb a b →
    HSim ha hb (doStepFlush (fuel + 1) a ctx pkt now) (doStepFlush (fuel + 1) b ctx pkt now) := by
  intro a b ctx pkt now h
  simp only [doStepFlush]
  obtain ⟨h1, e⟩ := h.ioFlush
  cases ea : a.ioFlush with
  | mk a1 ra =>
    cases eb : b.ioFlush with
    | mk b1 rb =>
      rw [ea, eb] at h1 e
      simp only [] at h1 e
      subst e
      cases ra with
      | pending => exact h1.suspend _
      | err k => exact h1.handleDisconnect.finishErr _ _
      | ok => exact ih.sr _ _ _ _ (h1.completeFlush pkt now)

theorem cstep_dsw (fuel : Nat) (ih : CongrM ha hb fuel) : ∀ a b ctx pkt bytes wr len now, HSim ha hb a b →
    HSim ha hb (doStepWrite (fuel + 1) a ctx pkt bytes wr len now)
      (doStepWrite (fuel + 1) b ctx pkt bytes wr len now) := by
  intro a b ctx pkt bytes wr len now h
  simp only [doStepWrite]
  obtain ⟨a1, b1, r, ea, eb, h1⟩ := HSim.pair (h.ioWrite (bytes.drop wr))
  rw [ea, eb]
  cases r with
  | pending => exact h1.suspend _
  | zero => exact (h1.discFail _).finishErr _ _
  | err k => exact h1.handleDisconnect.finishErr _ _
  | ok count =>
    simp only []
    hsplit
    · exact ih.sr _ _ _ _ (h1.setWritten _ _ _)
    · exact ih.dsf _ _ _ _ _ (h1.setWritten _ _ _)

theorem cstep_ps (fuel : Nat) (ih : CongrM ha hb fuel) : ∀ a b ctx step now, HSim ha hb a b →
    HSim ha hb (performStep (fuel + 1) a ctx step now) (performStep (fuel + 1) b ctx step now) := by
  intro a b ctx step now h
  obtain ⟨hs, lr, o, rfl⟩ := h.exists_withH
  simp only [performStep, prepareStep_withH, withH_live]
  cases prepareStep b step with
  | fail e => exact (h.failStep _ _).finishErr _ _
  | done => exact ih.sr _ _ _ _ h
  | flush pkt =>
    simp only []
    hsplit
    · exact (h.discFail _).finishErr _ _
    · exact ih.dsf _ _ _ _ _ h
  | write pkt bytes written len =>
    simp only []
    hsplit
    · exact (h.discFail _).finishErr _ _
    · exact ih.dsw _ _ _ _ _ _ _ _ h

theorem cstep_fl (fuel : Nat) (ih : CongrM ha hb fuel) : ∀ a b k, HSim ha hb a b →
    HSim ha hb (flushLoop (fuel + 1) a k) (flushLoop (fuel + 1) b k) := by
  intro a b k h
  obtain ⟨hs, lr, o, rfl⟩ := h.exists_withH
  simp only [flushLoop, World.maybeQueuePingreq, withH_sess, withH_now]
  cases b.sess.queuePing b.now with
  | error e => exact (h.discFail _).finishErr _ _
  | ok s =>
    simp only []
    cases s.data.outbound.nextStep with
    | none => exact ih.af _ _ _ (h.setSess s)
    | some step => exact ih.ps _ _ _ _ _ (h.setSess s)

theorem cstep_dlf (fuel : Nat) (ih : CongrM ha hb fuel) : ∀ a b which, HSim ha hb a b →
    HSim ha hb (doLocalFlush (fuel + 1) a which) (doLocalFlush (fuel + 1) b which) := by
  intro a b which h
  simp only [doLocalFlush]
  obtain ⟨a1, b1, r, ea, eb, h1⟩ := HSim.pair h.ioFlush
  rw [ea, eb]
  obtain ⟨hs, lr, o, rfl⟩ := h1.exists_withH
  cases r with
  | pending => exact h1.suspend _
  | err k =>
    simp only []
    hsplit
    · exact h1.finishErr _ _
    · hsplit
      · exact h1.handleDisconnect.finishErr _ _
      · exact h1.handleDisconnect.finishErr _ _
  | ok =>
    simp only [withH_sess, withH_now]
    hsplit
    · exact ih.dcr _ _ (h1.setSess _)
    · hsplit
      · exact (h1.setSess _).finish _
      · exact h1.handleDisconnect.finish _

theorem cstep_dlw (fuel : Nat) (ih : CongrM ha hb fuel) : ∀ a b which bytes, HSim ha hb a b →
    HSim ha hb (doLocalWrite (fuel + 1) a which bytes) (doLocalWrite (fuel + 1) b which bytes) := by
  intro a b which bytes h
  simp only [doLocalWrite]
  hsplit
  · apply ih.dlf
    unfold World.discDone
    repeat' split
    · exact h
    · exact h
    · exact h.handleDisconnect
  · obtain ⟨a1, b1, r, ea, eb, h1⟩ := HSim.pair (h.ioWrite bytes)
    rw [ea, eb]
    cases r with
    | pending => exact h1.suspend _
    | ok n => exact ih.dlw _ _ _ _ h1
    | zero =>
      simp only []
      hsplit
      · exact h1.finishErr _ _
      · hsplit
        · exact h1.handleDisconnect.finishErr _ _
        · exact h1.handleDisconnect.finishErr _ _
    | err k =>
      simp only []
      hsplit
      · exact h1.finishErr _ _
      · hsplit
        · exact h1.handleDisconnect.finishErr _ _
        · exact h1.handleDisconnect.finishErr _ _

theorem cstep_dcr (fuel : Nat) (ih : CongrM ha hb fuel) : ∀ a b, HSim ha hb a b →
    HSim ha hb (doConnRead (fuel + 1) a) (doConnRead (fuel + 1) b) := by
  intro a b h
  obtain ⟨hs, lr, o, rfl⟩ := h.exists_withH
  simp only [doConnRead, withH_sess]
  hsplit
  · exact h.connectGotPacket
  · cases b.sess.window with
    | none => exact h.handleDisconnect.finishErr _ _
    | some p =>
      obtain ⟨s1, window⟩ := p
      simp only []
      hsplit
      · exact (h.setSess s1).connectGotPacket
      · obtain ⟨a1, b1, r, ea, eb, h1⟩ := HSim.pair ((h.setSess s1).ioRead window)
        rw [ea, eb]
        cases r with
        | pending => exact h1.suspend _
        | eof => exact h1.handleDisconnect.finishErr _ _
        | err k => exact h1.handleDisconnect.finishErr _ _
        | ok bytes =>
          simp only []
          rw [h1.sess]
          exact ih.dcr _ _ (h1.setSess _)

theorem cstep_dwr (fuel : Nat) (ih : CongrM ha hb fuel) : ∀ a b outer d y, HSim ha hb a b →
    HSim ha hb (doWaitRead (fuel + 1) a outer d y) (doWaitRead (fuel + 1) b outer d y) := by
  intro a b outer d y h
  obtain ⟨hs, lr, o, rfl⟩ := h.exists_withH
  simp only [doWaitRead, withH_sess]
  hsplit
  · exact ih.de _ _ _ h
  · cases b.sess.window with
    | none => exact h.handleDisconnect.finishErr _ _
    | some p =>
      obtain ⟨s1, window⟩ := p
      simp only []
      hsplit
      · exact ih.de _ _ _ (h.setSess s1)
      · obtain ⟨a1, b1, r, ea, eb, h1⟩ := HSim.pair ((h.setSess s1).ioRead window)
        rw [ea, eb]
        cases r with
        | eof => exact h1.handleDisconnect.finishErr _ _
        | err k => exact h1.handleDisconnect.finishErr _ _
        | ok bytes =>
          simp only []
          rw [h1.sess]
          exact ih.dwr _ _ _ _ _ (h1.setSess _)
        | pending =>
          obtain ⟨hs1, lr1, o1, rfl⟩ := h1.exists_withH
          simp only [withH_now, withH_wakes]
          cases d with
          | none => exact h1.suspend _
          | some dd =>
            simp only []
            hsplit
            · hsplit
              · exact ih.de _ _ _ h1
              · hsplit
                · exact ((h1.setWakes _).emit _).suspend _
                · exact ih.dwr _ _ _ _ _ (h1.setWakes _)
            · exact h1.suspend _

theorem cstep_dl (fuel : Nat) (ih : CongrM ha hb fuel) : ∀ a b outer adv, HSim ha hb a b →
    HSim ha hb (driveLoop (fuel + 1) a outer adv) (driveLoop (fuel + 1) b outer adv) := by
  intro a b outer adv h
  obtain ⟨hs, lr, o, rfl⟩ := h.exists_withH
  unfold driveLoop
  simp only [World.maybeQueuePingreq, withH_sess, withH_now]
  hsplit
  · obtain ⟨a1, b1, r, ea, eb, h1⟩ := HSim.pair h.processReceivedPacket
    rw [ea, eb]
    cases r with
    | error e => exact h1.finishErr _ _
    | ok x =>
      cases x with
      | none => exact ih.dl _ _ _ _ h1
      | some len => exact h1.deliver _ len
  · hsplit
    · exact h.handleDisconnect.finishErr _ _
    · cases b.sess.queuePing b.now with
      | error e => exact h.finishErr _ _
      | ok s =>
        simp only []
        cases s.data.outbound.nextStep with
        | none => exact ih.das _ _ _ _ (h.setSess s)
        | some step => exact ih.ps _ _ _ _ _ (h.setSess s)

theorem cstep_das (fuel : Nat) (ih : CongrM ha hb fuel) : ∀ a b outer adv, HSim ha hb a b →
    HSim ha hb (driveAfterService (fuel + 1) a outer adv) (driveAfterService (fuel + 1) b outer adv) := by
  intro a b outer adv h
  obtain ⟨hs, lr, o, rfl⟩ := h.exists_withH
  unfold driveAfterService
  simp only [withH_sess]
  hsplit
  · obtain ⟨a1, b1, r, ea, eb, h1⟩ := HSim.pair h.processReceivedPacket
    rw [ea, eb]
    cases r with
    | error e => exact h1.finishErr _ _
    | ok x =>
      cases x with
      | none => exact ih.dl _ _ _ _ h1
      | some len => exact h1.deliver _ len
  · hsplit
    · hsplit
      · cases outer with
        | drive => exact h.finish _
        | poll => exact h.finish _
        | recv => exact ih.de _ _ _ h
      · cases outer with
        | drive => exact h.finish _
        | poll => exact ih.dwr _ _ _ _ _ h
        | recv => exact ih.dwr _ _ _ _ _ h
    · exact ih.dl _ _ _ _ h

theorem cstep_af (fuel : Nat) (ih : CongrM ha hb fuel) : ∀ a b k, HSim ha hb a b →
    HSim ha hb (afterFlush (fuel + 1) a k) (afterFlush (fuel + 1) b k) := by
  intro a b k h
  obtain ⟨hs, lr, o, rfl⟩ := h.exists_withH
  unfold afterFlush
  cases k with
  | post name op => exact h.finishOp name op
  | discPre d =>
    simp only [withH_sess]
    split
    · exact h.finishErr _ _
    · hsplit
      · exact h.finishErr _ _
      · exact ih.dlw _ _ _ _ h
  | subPre r =>
    simp only [withH_sess]
    hsplit
    · exact h.finishErr _ _
    · split
      · exact (h.setSess _).finishErr _ _
      · hsplit
        · exact (h.setSess _).finishErr _ _
        · split
          · exact (h.setSess _).finishErr _ _
          · exact ih.fl _ _ _ (h.setSess _)
  | unsubPre r =>
    simp only [withH_sess]
    hsplit
    · exact h.finishErr _ _
    · split
      · exact (h.setSess _).finishErr _ _
      · hsplit
        · exact (h.setSess _).finishErr _ _
        · split
          · exact (h.setSess _).finishErr _ _
          · exact ih.fl _ _ _ (h.setSess _)
  | publishPre r =>
    simp only [withH_sess, withH_live]
    hsplit
    · exact h.finishErr _ _
    · hsplit
      · hsplit
        · exact (h.setSess _).finishErr _ _
        · hsplit
          · exact (h.setSess _).finishErr _ _
          · split
            · exact (h.setSess _).finishErr _ _
            · hsplit
              · exact (h.setSess _).finishErr _ _
              · split
                · exact (h.setSess _).finishErr _ _
                · exact ih.fl _ _ _ (h.setSess _)
      · hsplit
        · exact h.finishErr _ _
        · split
          · exact (h.setSess _).finishErr _ _
          · hsplit
            · exact (h.setSess _).finishErr _ _
            · exact ih.dlw _ _ _ _ (h.setSess _)

theorem congr_all (ha hb : World) : ∀ fuel, CongrM ha hb fuel := by
  intro fuel
  induction fuel with
  | zero => exact congr_zero
  | succ fuel ih =>
    exact ⟨cstep_fl fuel ih, cstep_ps fuel ih, cstep_dsw fuel ih, cstep_dsf fuel ih, cstep_sr fuel ih,
      cstep_af fuel ih, cstep_dlw fuel ih, cstep_dlf fuel ih, cstep_dcr fuel ih, cstep_dl fuel ih,
      cstep_das fuel ih, cstep_de fuel ih, cstep_dwr fuel ih⟩

end steps




/-! ### `poll` and the directives -/

theorem withH_curNet (w : World) (hs lr o) : (w.withH hs lr o).curNet = w.curNet := rfl

namespace HSim
variable {ha hb : World} {a b : World}

theorem prep (h : HSim ha hb a b) :
    HSim ha hb ({ a with wakes := 0, lastIoStarved := false } : World) ({ b with wakes := 0, lastIoStarved := false } : World) :=
  h.map (fun w => { w with wakes := 0, lastIoStarved := false }) (fun _ => rfl) (fun _ => rfl) (fun _ => rfl) (fun _ => rfl)

theorem poll (h : HSim ha hb a b) : HSim ha hb (World.poll a) (World.poll b) := by
  have F := congr_all ha hb pollFuel
  obtain ⟨hs, lr, o, rfl⟩ := h.exists_withH
  unfold World.poll
  simp only [withH_fut]
  have h1 : HSim ha hb ((b.withH hs lr o).pollBase) b.pollBase :=
    h.map World.pollBase (fun _ => rfl) (fun _ => rfl) (fun _ => rfl) (fun _ => rfl)
  cases hf : b.fut with
  | none => exact h1
  | some pc =>
    cases pc
    case stepWrite ctx pkt bytes written len now => exact F.dsw _ _ _ _ _ _ _ _ h1
    case stepFlush ctx pkt now => exact F.dsf _ _ _ _ _ h1
    case connWrite bytes => exact F.dlw _ _ _ _ h1
    case connFlush => exact F.dlf _ _ _ h1
    case connRead => exact F.dcr _ _ h1
    case q0Write bytes => exact F.dlw _ _ _ _ h1
    case q0Flush => exact F.dlf _ _ _ h1
    case discWrite bytes => exact F.dlw _ _ _ _ h1
    case discFlush => exact F.dlf _ _ _ h1
    case waitRead outer deadline yielded => exact F.dwr _ _ _ _ _ h1

theorem goLoop (n : Nat) (h : HSim ha hb a b) : HSim ha hb (World.goLoop n a) (World.goLoop n b) := by
  induction n generalizing a b with
  | zero => exact h.emit _
  | succ n ih =>
    unfold World.goLoop
    have h1 := ((h.setSlot (some 250)).poll).setSlot none
    generalize World.poll { a with slot := some 250 } = a1 at h1 ⊢
    generalize World.poll { b with slot := some 250 } = b1 at h1 ⊢
    simp only []
    refine HSim.ite2 (by rw [show a1.fut = b1.fut from h1.fut]) (fun _ => h1) (fun _ => ?_)
    refine HSim.ite2 (by rw [show a1.wakes = b1.wakes from h1.wakes]) (fun _ => h1) (fun _ => ?_)
    refine HSim.ite2 (by rw [show a1.lastIoStarved = b1.lastIoStarved from h1.starved]) (fun _ => h1) (fun _ => ?_)
    exact ih h1

theorem cancelFut (h : HSim ha hb a b) : HSim ha hb a.cancelFut b.cancelFut := by
  obtain ⟨hs, lr, o, rfl⟩ := h.exists_withH
  unfold World.cancelFut
  simp only [withH_fut]
  hsplit
  · exact (h.emit "cancel").map (fun w => { w with fut := none, tornNets := b.tornAfterDrop })
      (fun _ => rfl) (fun _ => rfl) (fun _ => rfl) (fun _ => rfl)
  · exact h

theorem dropConn (h : HSim ha hb a b) : HSim ha hb a.dropConn b.dropConn := by
  unfold World.dropConn
  have h1 := h.cancelFut
  generalize a.cancelFut = a1 at h1 ⊢
  generalize b.cancelFut = b1 at h1 ⊢
  simp only []
  refine HSim.ite2 (by rw [show a1.conn = b1.conn from h1.conn]) (fun _ => ?_) (fun _ => h1)
  exact (h1.emit "drop").map (fun w => { w with conn := none }) (fun _ => rfl) (fun _ => rfl) (fun _ => rfl) (fun _ => rfl)

theorem connBase (h : HSim ha hb a b) : HSim ha hb a.connBase b.connBase := by
  unfold World.connBase
  have h1 := h.dropConn
  generalize a.dropConn = a1 at h1 ⊢
  generalize b.dropConn = b1 at h1 ⊢
  obtain ⟨hs, lr, o, rfl⟩ := h1.exists_withH
  exact ((h1.map (fun w => { w with nets := w.nets ++ [({ } : Net)] }) (fun _ => rfl) (fun _ => rfl) (fun _ => rfl) (fun _ => rfl)).emit _).map
    (fun w => { w with sess := w.sess.beginConnect, wakes := 0, lastIoStarved := false })
    (fun _ => rfl) (fun _ => rfl) (fun _ => rfl) (fun _ => rfl)

theorem connEnc (h : HSim ha hb a b) : a.connEnc = b.connEnc := by
  unfold World.connEnc
  rw [h.connBase.sess]

theorem startConnect (h : HSim ha hb a b) : HSim ha hb a.startConnect b.startConnect := by
  have F := congr_all ha hb pollFuel
  rw [startConnect_connEnc, startConnect_connEnc, h.connEnc]
  have h1 := h.connBase
  cases b.connEnc.2 with
  | error e => exact (h1.setSess _).finishErr _ _
  | ok p =>
    obtain ⟨off, len⟩ := p
    exact F.dlw _ _ _ _ (h1.setSess _)

theorem startOp (h : HSim ha hb a b) (name : String) (body : World → World)
    (hbody : ∀ x y, HSim ha hb x y → HSim ha hb (body x) (body y)) :
    HSim ha hb (a.startOp name body) (b.startOp name body) := by
  unfold World.startOp
  rw [show a.conn = b.conn from h.conn]
  by_cases hc : b.conn.isNone = true
  · rw [if_pos hc, if_pos hc]; exact h.emit _
  · rw [if_neg hc, if_neg hc]; exact hbody _ _ h.cancelFut.prep

/-- **Handles, last result and trace are write-only**: every directive takes related worlds to related
worlds. -/
theorem execDirective (h : HSim ha hb a b) (d : Directive) :
    HSim ha hb (a.execDirective d) (b.execDirective d) := by
  have F := congr_all ha hb pollFuel
  cases d with
  | bad => exact h.emit _
  | connect => exact h.startConnect
  | publish r =>
    simp only [World.execDirective]
    apply h.startOp
    intro x y hxy
    obtain ⟨hs, lr, o, rfl⟩ := hxy.exists_withH
    simp only [withH_live]
    hsplit
    · exact hxy.finishErr _ _
    · exact F.fl _ _ _ hxy
  | subscribe r =>
    simp only [World.execDirective]
    apply h.startOp
    intro x y hxy
    obtain ⟨hs, lr, o, rfl⟩ := hxy.exists_withH
    simp only [withH_live]
    hsplit
    · exact hxy.finishErr _ _
    · hsplit
      · exact hxy.finishErr _ _
      · hsplit
        · exact hxy.finishErr _ _
        · exact F.fl _ _ _ hxy
  | unsubscribe r =>
    simp only [World.execDirective]
    apply h.startOp
    intro x y hxy
    obtain ⟨hs, lr, o, rfl⟩ := hxy.exists_withH
    simp only [withH_live]
    hsplit
    · exact hxy.finishErr _ _
    · hsplit
      · exact hxy.finishErr _ _
      · hsplit
        · exact hxy.finishErr _ _
        · exact F.fl _ _ _ hxy
  | disconnect dd =>
    simp only [World.execDirective]
    apply h.startOp
    intro x y hxy
    obtain ⟨hs, lr, o, rfl⟩ := hxy.exists_withH
    simp only [withH_live]
    hsplit
    · exact hxy.finish _
    · hsplit
      · exact hxy.finishErr _ _
      · exact F.fl _ _ _ hxy
  | poll =>
    simp only [World.execDirective]
    exact h.startOp _ _ (fun x y hxy => F.de x y .poll hxy)
  | recv =>
    simp only [World.execDirective]
    exact h.startOp _ _ (fun x y hxy => F.de x y .recv hxy)
  | drive =>
    simp only [World.execDirective]
    exact h.startOp _ _ (fun x y hxy => F.de x y .drive hxy)
  | d n =>
    simp only [World.execDirective]
    refine HSim.ite2 (by rw [show a.fut = b.fut from h.fut]) (fun _ => h.emit _) (fun _ => ?_)
    exact ((h.setSlot _).poll).setSlot _
  | go =>
    simp only [World.execDirective]
    refine HSim.ite2 (by rw [show a.fut = b.fut from h.fut]) (fun _ => h.emit _) (fun _ => ?_)
    exact h.goLoop _
  | tick us =>
    obtain ⟨hs, lr, o, rfl⟩ := h.exists_withH
    simp only [World.execDirective, withH_now, withH_fut]
    have h1 : HSim ha hb ({ b.withH hs lr o with now := b.now + us } : World) ({ b with now := b.now + us } : World) :=
      h.map (fun w => { w with now := b.now + us }) (fun _ => rfl) (fun _ => rfl) (fun _ => rfl) (fun _ => rfl)
    hsplit
    · exact h.emit _
    · hsplit
      · exact h1.poll
      · exact h1
  | rx bytes =>
    obtain ⟨hs, lr, o, rfl⟩ := h.exists_withH
    simp only [World.execDirective, withH_nets, withH_curNet]
    hsplit
    · exact h.emit _
    · exact h.setCurNet _
  | cancel => exact h.cancelFut
  | drop => exact h.dropConn
  | setpid n =>
    obtain ⟨hs, lr, o, rfl⟩ := h.exists_withH
    simp only [World.execDirective, withH_fut, withH_sess]
    hsplit
    · exact h.emit _
    · exact h.setSess _
  | decode bs => exact h.emit _

/-- The same for a program. -/
theorem run (ds : List Directive) (h : HSim ha hb a b) :
    HSim ha hb (ds.foldl World.execDirective a) (ds.foldl World.execDirective b) := by
  induction ds generalizing a b with
  | nil => exact h
  | cons d ds ih => exact ih (h.execDirective d)

end HSim

/-! ### The per-POLL flags are not carried from one directive to the next

`wakes` and `lastIoStarved` are reset by every POLL and every operation start before they are read, so
what a directive does depends on them only through its own resets. -/

theorem cancelFut_clr (w : World) : w.clrFlags.cancelFut = w.cancelFut.clrFlags := by
  unfold World.cancelFut
  by_cases h : w.fut.isSome = true
  · have h' : w.clrFlags.fut.isSome = true := h
    rw [if_pos h, if_pos h']; rfl
  · have h' : ¬ w.clrFlags.fut.isSome = true := h
    rw [if_neg h, if_neg h']

theorem dropConn_clr (w : World) : w.clrFlags.dropConn = w.dropConn.clrFlags := by
  unfold World.dropConn
  simp only [cancelFut_clr]
  by_cases h : w.cancelFut.conn.isSome = true
  · have h' : w.cancelFut.clrFlags.conn.isSome = true := h
    rw [if_pos h, if_pos h']; rfl
  · have h' : ¬ w.cancelFut.clrFlags.conn.isSome = true := h
    rw [if_neg h, if_neg h']

theorem connBase_clr (w : World) : w.clrFlags.connBase = w.connBase := by
  unfold World.connBase
  rw [dropConn_clr]
  rfl

theorem startConnect_clr (w : World) : w.clrFlags.startConnect = w.startConnect := by
  rw [startConnect_connEnc, startConnect_connEnc]
  unfold World.connEnc
  rw [connBase_clr]

theorem startOp_clr (w : World) (name : String) (body : World → World) :
    (w.clrFlags.startOp name body).clrFlags = (w.startOp name body).clrFlags := by
  unfold World.startOp
  by_cases h : w.conn.isNone = true
  · have h' : w.clrFlags.conn.isNone = true := h
    rw [if_pos h, if_pos h']; rfl
  · have h' : ¬ w.clrFlags.conn.isNone = true := h
    rw [if_neg h, if_neg h', cancelFut_clr]; rfl

theorem poll_clr (w : World) : World.poll w.clrFlags = World.poll w := rfl

theorem goLoop_clr (n : Nat) (w : World) : (World.goLoop n w.clrFlags).clrFlags = (World.goLoop n w).clrFlags := by
  cases n with
  | zero => rfl
  | succ n => unfold World.goLoop; rfl

/-- A directive run on the world with the per-POLL flags reset does the same. -/
theorem execDirective_clr (w : World) (d : Directive) :
    (w.clrFlags.execDirective d).clrFlags = (w.execDirective d).clrFlags := by
  cases d with
  | bad => rfl
  | connect => show (w.clrFlags.startConnect).clrFlags = _; rw [startConnect_clr]; rfl
  | publish r => exact startOp_clr w _ _
  | subscribe r => exact startOp_clr w _ _
  | unsubscribe r => exact startOp_clr w _ _
  | disconnect dd => exact startOp_clr w _ _
  | poll => exact startOp_clr w _ _
  | recv => exact startOp_clr w _ _
  | drive => exact startOp_clr w _ _
  | d n =>
    simp only [World.execDirective]
    by_cases h : w.fut.isNone = true
    · have h' : w.clrFlags.fut.isNone = true := h
      rw [if_pos h, if_pos h']; rfl
    · have h' : ¬ w.clrFlags.fut.isNone = true := h
      rw [if_neg h, if_neg h']; rfl
  | go =>
    simp only [World.execDirective]
    by_cases h : w.fut.isNone = true
    · have h' : w.clrFlags.fut.isNone = true := h
      rw [if_pos h, if_pos h']; rfl
    · have h' : ¬ w.clrFlags.fut.isNone = true := h
      rw [if_neg h, if_neg h']; exact goLoop_clr _ w
  | tick us =>
    simp only [World.execDirective]
    by_cases h : w.now + us > 4611686018427387904
    · have h' : w.clrFlags.now + us > 4611686018427387904 := h
      rw [if_pos h, if_pos h']; rfl
    · have h' : ¬ w.clrFlags.now + us > 4611686018427387904 := h
      rw [if_neg h, if_neg h']
      by_cases h2 : w.fut.isSome = true
      · have e1 : (if ({ w with now := w.now + us } : World).fut.isSome = true then
            World.poll { w with now := w.now + us } else { w with now := w.now + us }) =
            World.poll { w with now := w.now + us } := if_pos h2
        have e2 : (if ({ w.clrFlags with now := w.clrFlags.now + us } : World).fut.isSome = true then
            World.poll { w.clrFlags with now := w.clrFlags.now + us } else { w.clrFlags with now := w.clrFlags.now + us }) =
            World.poll { w.clrFlags with now := w.clrFlags.now + us } := if_pos h2
        rw [e1, e2]; rfl
      · have e1 : (if ({ w with now := w.now + us } : World).fut.isSome = true then
            World.poll { w with now := w.now + us } else { w with now := w.now + us }) =
            { w with now := w.now + us } := if_neg h2
        have e2 : (if ({ w.clrFlags with now := w.clrFlags.now + us } : World).fut.isSome = true then
            World.poll { w.clrFlags with now := w.clrFlags.now + us } else { w.clrFlags with now := w.clrFlags.now + us }) =
            { w.clrFlags with now := w.clrFlags.now + us } := if_neg h2
        rw [e1, e2]; rfl
  | rx bytes =>
    simp only [World.execDirective]
    by_cases h : w.nets.isEmpty = true
    · have h' : w.clrFlags.nets.isEmpty = true := h
      rw [if_pos h, if_pos h']; rfl
    · have h' : ¬ w.clrFlags.nets.isEmpty = true := h
      rw [if_neg h, if_neg h']; rfl
  | cancel => show (w.clrFlags.cancelFut).clrFlags = _; rw [cancelFut_clr]; rfl
  | drop => show (w.clrFlags.dropConn).clrFlags = _; rw [dropConn_clr]; rfl
  | setpid n =>
    simp only [World.execDirective]
    by_cases h : (w.fut.isSome || decide (n = 0) || decide (n > 65535)) = true
    · have h' : (w.clrFlags.fut.isSome || decide (n = 0) || decide (n > 65535)) = true := h
      rw [if_pos h, if_pos h']; rfl
    · have h' : ¬ (w.clrFlags.fut.isSome || decide (n = 0) || decide (n > 65535)) = true := h
      rw [if_neg h, if_neg h']; rfl
  | decode bs => rfl

/-! ### Between directives: the relation up to the per-POLL flags -/

/-- `HSim` up to `wakes` and `lastIoStarved`. -/
def HSim0 (ha hb a b : World) : Prop := HSim ha hb a.clrFlags b.clrFlags

theorem HSim.weak {ha hb a b : World} (h : HSim ha hb a b) : HSim0 ha hb a b :=
  h.map World.clrFlags (fun _ => rfl) (fun _ => rfl) (fun _ => rfl) (fun _ => rfl)

theorem HSim0.execDirective {ha hb a b : World} (h : HSim0 ha hb a b) (d : Directive) :
    HSim0 ha hb (a.execDirective d) (b.execDirective d) := by
  unfold HSim0
  rw [← execDirective_clr a, ← execDirective_clr b]
  exact (HSim.execDirective h d).weak

theorem HSim0.run {ha hb a b : World} (ds : List Directive) (h : HSim0 ha hb a b) :
    HSim0 ha hb (ds.foldl World.execDirective a) (ds.foldl World.execDirective b) := by
  induction ds generalizing a b with
  | nil => exact h
  | cons d ds ih => exact ih (h.execDirective d)

theorem HSim0.fin {ha hb a b : World} (h : HSim0 ha hb a b) : a.fin = b.fin :=
  congrArg (fun c : World => ({ c with fut := none } : World)) h.core

theorem HSim0.fut {ha hb a b : World} (h : HSim0 ha hb a b) : a.fut = b.fut :=
  HSim.fut (a := a.clrFlags) (b := b.clrFlags) h

/-- Two worlds that differ only in handles, last result and trace are related, with themselves as base,
whenever their traces are. -/
theorem HSim.init {a b : World} (h : a.core = b.core)
    (ht : TrRel a.handles.length b.handles.length [] a.out b.out) : HSim a b a b :=
  ⟨h, ⟨[], by simp, by simp, ht⟩, Or.inr ⟨rfl, rfl⟩⟩

/-- Two worlds that agree on `fin` and on the suspended future are related, with themselves as base,
whenever their traces are (for instance: both empty). -/
theorem HSim0.of_fin {a b : World} (h : a.fin = b.fin) (hf : a.fut = b.fut)
    (ht : TrRel a.handles.length b.handles.length [] a.out b.out) : HSim0 a b a b := by
  refine ⟨?_, ⟨[], by simp [World.clrFlags], by simp [World.clrFlags], ht⟩, Or.inr ⟨rfl, rfl⟩⟩
  show ({ a.fin with fut := a.fut } : World) = { b.fin with fut := b.fut }
  rw [h, hf]

/-- The world with an empty trace. -/
def World.clrOut (w : World) : World := { w with out := [] }

theorem eq_addOld_clrOut (w : World) : w = w.clrOut.addOld w.out := eq_addOld_clear w

theorem run_clrOut (ds : List Directive) (w : World) :
    ds.foldl World.execDirective w = (ds.foldl World.execDirective w.clrOut).addOld w.out := by
  rw [← run_addOld, ← eq_addOld_clrOut]

/-- **Main lemma.** From worlds that agree on `fin` and the suspended future, any program leads to
worlds that agree on everything but handles, last result, trace and the per-POLL flags; the new handles
(`ops`) are the same; the new trace lines are the same up to the printed handle indices, which are shifted
by the difference of the handle counts at the start, and the `finishOp` lines among them are those of `ops`,
in order; and the last results agree unless nothing completed. -/
theorem fin_congr {a b : World} (h : a.fin = b.fin) (hf : a.fut = b.fut) (ds : List Directive) :
    let a' := ds.foldl World.execDirective a
    let b' := ds.foldl World.execDirective b
    a'.fin = b'.fin ∧ a'.fut = b'.fut ∧
    (∃ ops newA newB, a'.handles = a.handles ++ ops ∧ b'.handles = b.handles ++ ops ∧
      a'.out = newA ++ a.out ∧ b'.out = newB ++ b.out ∧
      TrRel a.handles.length b.handles.length ops newA newB) ∧
    (a'.lastRes = b'.lastRes ∨ (a'.lastRes = a.lastRes ∧ b'.lastRes = b.lastRes)) := by
  intro a' b'
  have h0 : HSim0 a.clrOut b.clrOut a.clrOut b.clrOut := HSim0.of_fin (a := a.clrOut) (b := b.clrOut) h hf .nil
  have h1 := h0.run ds
  have ea : a' = (ds.foldl World.execDirective a.clrOut).addOld a.out := run_clrOut ds a
  have eb : b' = (ds.foldl World.execDirective b.clrOut).addOld b.out := run_clrOut ds b
  refine ⟨?_, ?_, ?_, ?_⟩
  · rw [ea, eb, fin_addOld, fin_addOld]; exact h1.fin
  · rw [ea, eb]; exact h1.fut
  · obtain ⟨ops, e1, e2, t⟩ := h1.hnd
    exact ⟨ops, _, _, by rw [ea]; exact e1, by rw [eb]; exact e2, by rw [ea]; rfl, by rw [eb]; rfl, t⟩
  · rw [ea, eb]; exact h1.res

/-! ### Lists of I/O decisions are programs -/

theorem runD_eq_foldl (ks : List Nat) (w : World) :
    runD ks w = (ks.map Directive.d).foldl World.execDirective w := by
  unfold runD; rw [List.foldl_map]

theorem runD_idle (ks : List Nat) (w : World) (h : w.fut = none) : (runD ks w).fut = none := by
  induction ks generalizing w with
  | nil => exact h
  | cons n ks ih =>
    apply ih
    show (w.execDirective (.d n)).fut = none
    simp only [World.execDirective, h, Option.isNone_none, if_true]
    exact h

/-! ### Plugging into the simulation of `CancelSim.lean` -/

/-- One POLL from `RF (.post name op)`: related again, or both completed and equal on `fin`. -/
theorem RF.post_step {name : String} {op : Op} {a b : World} (h : RF (.post name op) a b) (n : Nat) :
    RF (.post name op) (a.execDirective (.d n)) (b.execDirective (.d n)) ∨
    ((a.execDirective (.d n)).fut = none ∧ (b.execDirective (.d n)).fut = none ∧
      (a.execDirective (.d n)).fin = (b.execDirective (.d n)).fin) := by
  cases h.step n with
  | susp h1 => exact Or.inl h1
  | done h1 h2 h3 => exact Or.inr ⟨h1, h2, h3.same (fun d hd => by cases hd)⟩
  | handed u0 oa h1 h2 h3 h4 h5 =>
    right
    have e : a.execDirective (.d n) = wrap (u0.finishOp name op) oa := by rw [← ev_AF_post]; exact h1
    refine ⟨by rw [e]; rfl, h3, ?_⟩
    rw [e, wrap_fin, fin_finishOp, ← h5]
    unfold World.fin World.rest; simp only []; rw [h2]

/-- Any number of POLLs from `RF (.post name op)`, then any program. -/
theorem RF.post_then_any_program {name : String} {op : Op} {a b : World} (h : RF (.post name op) a b)
    (ks : List Nat) :
    RF (.post name op) (runD ks a) (runD ks b) ∨
    ((runD ks a).fut = none ∧ (runD ks b).fut = none ∧ (runD ks a).fin = (runD ks b).fin ∧
      ∀ ds : List Directive,
        let a' := ds.foldl World.execDirective (runD ks a)
        let b' := ds.foldl World.execDirective (runD ks b)
        a'.fin = b'.fin ∧ a'.fut = b'.fut ∧
        (∃ ops newA newB, a'.handles = (runD ks a).handles ++ ops ∧ b'.handles = (runD ks b).handles ++ ops ∧
          a'.out = newA ++ (runD ks a).out ∧ b'.out = newB ++ (runD ks b).out ∧
          TrRel (runD ks a).handles.length (runD ks b).handles.length ops newA newB) ∧
        (a'.lastRes = b'.lastRes ∨ (a'.lastRes = (runD ks a).lastRes ∧ b'.lastRes = (runD ks b).lastRes))) := by
  induction ks generalizing a b with
  | nil => exact Or.inl h
  | cons n ks ih =>
    rcases h.post_step n with h' | ⟨fa, fb, hfin⟩
    · exact ih h'
    · right
      have e : (a.execDirective (.d n)).fut = (b.execDirective (.d n)).fut := by rw [fa, fb]
      have hk := fin_congr hfin e (ks.map Directive.d)
      simp only [← runD_eq_foldl] at hk
      have ha1 : (runD (n :: ks) a).fut = none := runD_idle ks _ fa
      have hb1 : (runD (n :: ks) b).fut = none := runD_idle ks _ fb
      exact ⟨ha1, hb1, hk.1, fun ds => fin_congr hk.1 (ha1.trans hb1.symm) ds⟩

/-- A checkable description of "suspended at the `write` await of the outbound step inside the second
flush of the operation called `name`, at the world's time, transport not torn, no inbound packet waiting,
keep-alive timers not armed". -/
def suspendedInPost (name : String) (w : World) : Bool :=
  decide (w.nets.length ∉ w.tornNets) && !w.sess.reader.packetAvailable &&
  (match w.fut with
   | some (.stepWrite (.flush (.post nm _)) _ _ _ _ now) => decide (nm = name) && decide (now = w.now)
   | _ => false) && w.sess.rt.nextPing.isNone && w.sess.rt.pingTimeout.isNone

/-- A world the machine produced that passes the check, and the same world after the future was dropped
and `poll` started, satisfy `RF (.post name op)`. -/
theorem RF_of_suspendedInPost (cfg : Cfg) (ds : List Directive) (name : String) :
    let w := ds.foldl World.execDirective { sess := Session.new cfg }
    suspendedInPost name w = true → ∃ op, RF (.post name op) w (w.execDirective .poll) := by
  intro w hc
  simp only [suspendedInPost, Bool.and_eq_true, decide_eq_true_eq, Bool.not_eq_true', Option.isNone_iff_eq_none] at hc
  obtain ⟨⟨⟨⟨hnt, hav⟩, hm⟩, hnp⟩, hpt⟩ := hc
  have hcalm : KaCalm w.sess.rt w.now := by
    refine ⟨?_, ?_⟩
    · intro np hnp'; rw [hnp] at hnp'; cases hnp'
    · intro pt hpt'; rw [hpt] at hpt'; cases hpt'
  have hshape : ∃ op pkt bytes wr len, w.fut = some (.stepWrite (.flush (.post name op)) pkt bytes wr len w.now) := by
    cases hf : w.fut with
    | none => rw [hf] at hm; cases hm
    | some pc =>
      rw [hf] at hm
      cases pc <;> try (cases hm)
      rename_i ctx pkt bytes wr len now
      cases ctx <;> try (cases hm)
      rename_i k
      cases k <;> try (cases hm)
      rename_i nm op
      simp only [Bool.and_eq_true, decide_eq_true_eq] at hm
      obtain ⟨e1, e2⟩ := hm
      subst e1 e2
      exact ⟨_, _, _, _, _, rfl⟩
  obtain ⟨op, pkt, bytes, wr, len, hf⟩ := hshape
  have hinv := run_WInv ds { sess := Session.new cfg } (WInv_init cfg)
  have hs : w.slot = none := slot_run ds _ rfl
  rcases hinv.cur with ht | hp
  · exact (hnt ht).elim
  · rw [hf] at hp
    have hp' : PcOK w.view (.stepWrite (.flush (.post name op)) pkt bytes wr len w.now) := hp
    obtain ⟨ha, hl, st, hn, hprep⟩ := write_ready hp'
    obtain ⟨hr, hfb, _⟩ := reenter_write w _ pkt bytes wr len hf hl hs ⟨ha, hcalm⟩ st hn hprep .poll
    exact ⟨op, hr.symm, ⟨hav, hcalm⟩, _, _, hf, hfb, .write false pkt bytes wr len⟩

end Minimq
