import Minimq.Proofs.Writer
/-
Packet-level round trips: what the model's encoders write, the independent reference decodes back.
-/
namespace Minimq
open Gen

/-- The user-supplied property lists inside a `Properties` value (not the inbound `encoded` form). -/
def Properties.items : Properties → List Property
  | .slice l => l
  | .withCorrelation c l => c :: l
  | .encoded _ => []

def Properties.isEncoded : Properties → Bool
  | .encoded _ => true
  | _ => false

theorem Properties.chunks_eq (ps : Properties) (h : ps.isEncoded = false) :
    ps.chunks = varintField ps.size :: ps.items.flatMap Property.chunks := by
  cases ps <;> simp [Properties.chunks, Properties.items, Properties.isEncoded] at *

theorem sum_append_singleton (l : List Nat) (x : Nat) : (l ++ [x]).sum = x + l.sum := by
  induction l with
  | nil => simp
  | cons a l ih => simp [ih]; omega

theorem Properties.size_eq (ps : Properties) (h : ps.isEncoded = false) :
    ps.size = (ps.items.map Property.size).sum := by
  cases ps with
  | slice l => rfl
  | encoded _ => simp [Properties.isEncoded] at h
  | withCorrelation c l =>
    simp only [Properties.size, Properties.items, List.map_append, List.map_cons, List.map_nil, List.sum_cons]
    exact sum_append_singleton _ _

/-- The reference decodes an encoded property block to exactly the properties the application gave,
in order (the correlation data first when `correlate` was used), provided each is legal where it is
used. -/
theorem spec_props_block (w : Spec.Where) (ps : Properties) (out rest : Bytes)
    (henc : ps.isEncoded = false)
    (hwf : ∀ p ∈ ps.items, p.wf = true)
    (hlegal : ∀ p ∈ ps.items, Spec.allowedIn w p.kind.id = true ∧ Spec.legalValue p.kind.id p.toSpec.val.num = true)
    (h : catChunks ps.chunks = .ok out) :
    Spec.props w (out ++ rest) = some (ps.items.map Property.toSpec, rest) := by
  rw [Properties.chunks_eq ps henc] at h
  obtain ⟨x, body, hx, hbody, ho⟩ := catChunks_cons h
  obtain ⟨hx1, hx2⟩ := varintField_ok hx
  have hlen := encodeProps_length ps.items body hwf hbody
  rw [← Properties.size_eq ps henc] at hlen
  subst ho hx1
  unfold Spec.props
  rw [List.append_assoc, spec_varint_encode _ _ hx2, ← hlen]
  simp only [spec_take_append]
  rw [spec_propsFuel_encode ps.items body body.length hwf hbody (Nat.le_refl _)]
  simp only []
  rw [if_pos]
  simp only [List.all_map, List.all_eq_true]
  intro p hp
  have := hlegal p hp
  simp only [Function.comp, Bool.and_eq_true]
  exact this

theorem finalize_ok {w : W} {typ flags off : Nat} {pkt : Bytes} (h : w.finalize typ flags = .ok (off, pkt)) :
    w.body.length ≤ MQTT_VARINT_MAX ∧ MAX_FIXED_HEADER_SIZE ≤ w.cap ∧
    pkt = b (typ * 16 + flags % 16) :: (encodeVarint w.body.length ++ w.body) ∧
    off = MAX_FIXED_HEADER_SIZE - varintLen w.body.length - 1 := by
  unfold W.finalize writeVarint at h
  by_cases hmax : w.body.length > MQTT_VARINT_MAX
  · rw [if_pos hmax] at h; simp at h
  · rw [if_neg hmax] at h
    simp only [] at h
    by_cases hc : w.cap < MAX_FIXED_HEADER_SIZE
    · rw [if_pos hc] at h; simp at h
    · rw [if_neg hc] at h
      simp at h
      exact ⟨by omega, by omega, h.2.symm, by rw [← h.1, encodeVarint_length]⟩

/-- What a successful `encode_publish_with_offset` with a byte payload returns. -/
theorem encodePublish_ok {cap off : Nat} {h : PublishHeader} {payload pkt : Bytes}
    (he : encodePublishWithOffset cap h (.bytes payload) = .ok (off, pkt)) :
    ∃ hdr, catChunks h.chunks = .ok hdr ∧
      MAX_FIXED_HEADER_SIZE + hdr.length + payload.length ≤ cap ∧
      (hdr ++ payload).length ≤ MQTT_VARINT_MAX ∧
      pkt = b (MT_Publish * 16 + h.flags % 16) :: (encodeVarint (hdr ++ payload).length ++ (hdr ++ payload)) ∧
      off = MAX_FIXED_HEADER_SIZE - varintLen (hdr ++ payload).length - 1 := by
  unfold encodePublishWithOffset at he
  cases hw : (W.new cap).pushAll h.chunks with
  | error e => rw [hw] at he; simp at he
  | ok w =>
    rw [hw] at he
    simp only [] at he
    obtain ⟨hdr, hhdr, hbody, hcap, hfits⟩ := pushAll_ok hw
    simp only [W.new, List.nil_append] at hbody hcap hfits
    split at he
    · simp at he
    · rename_i hroom
      cases hf : ({ w with body := w.body ++ payload } : W).finalize MT_Publish h.flags with
      | error e => rw [hf] at he; simp at he
      | ok r =>
        rw [hf] at he
        simp at he
        obtain ⟨off', pkt'⟩ := r
        simp at he
        obtain ⟨ho, hp⟩ := he
        subst ho hp
        obtain ⟨f1, f2, f3, f4⟩ := finalize_ok hf
        simp only [] at f1 f2 f3 f4
        rw [hbody] at f1 f3 f4
        refine ⟨hdr, hhdr, ?_, f1, f3, f4⟩
        simp only [W.index] at hroom
        rw [hbody, hcap] at hroom
        rw [hcap] at f2
        by_cases hp0 : payload = []
        · subst hp0
          rcases hfits with h0 | h1
          · subst h0; simp; omega
          · rw [hbody] at h1; simp; omega
        · have : 0 < payload.length := List.length_pos_iff.mpr hp0
          omega

theorem hdr_byte (t f : Nat) (ht : t < 16) (hf : f < 16) :
    (b (t * 16 + f % 16)).toNat / 16 = t ∧ (b (t * 16 + f % 16)).toNat % 16 = f := by
  rw [b_toNat]; omega

theorem parseClientPacket_frame (t f : Nat) (body rest : Bytes) (ht : t < 16) (hf : f < 16)
    (hl : body.length ≤ MQTT_VARINT_MAX) :
    Spec.parseClientPacket (b (t * 16 + f % 16) :: (encodeVarint body.length ++ body) ++ rest) =
      (Spec.parseBody t f body).map fun p => (p, rest) := by
  obtain ⟨h1, h2⟩ := hdr_byte t f ht hf
  simp only [Spec.parseClientPacket, List.cons_append, List.append_assoc]
  rw [spec_varint_encode _ _ hl]
  simp only [spec_take_append, h1, h2]

/-- PUBLISH: the reference decodes exactly the topic, identifier, QoS, retain flag, properties
(correlation data first) and payload bytes the application asked for — for every length. -/
theorem publish_roundtrip (cap off : Nat) (h : PublishHeader) (payload pkt rest : Bytes)
    (hq : h.qos ≤ 2) (hdup : h.dup = false)
    (hid : match h.packetId with
      | some i => 0 < i ∧ i < 65536 ∧ 0 < h.qos
      | none => h.qos = 0)
    (htopic : validUtf8 h.topic = true)
    (henc : h.props.isEncoded = false)
    (hwf : ∀ p ∈ h.props.items, p.wf = true)
    (hlegal : ∀ p ∈ h.props.items, Spec.allowedIn .publish p.kind.id = true ∧
        Spec.legalValue p.kind.id p.toSpec.val.num = true)
    (he : encodePublishWithOffset cap h (.bytes payload) = .ok (off, pkt)) :
    Spec.parseClientPacket (pkt ++ rest) =
      some (.publish false h.qos h.retain h.topic h.packetId (h.props.items.map Property.toSpec) payload, rest) := by
  obtain ⟨hdr, hhdr, _, hmax, hpkt, _⟩ := encodePublish_ok he
  subst hpkt
  have hf : h.flags < 16 := by
    unfold PublishHeader.flags; split <;> split <;> omega
  rw [parseClientPacket_frame MT_Publish h.flags _ rest (by decide) hf hmax]
  -- split the header chunks
  unfold PublishHeader.chunks at hhdr
  obtain ⟨a, c, ha, hc, hac⟩ := catChunks_append hhdr
  obtain ⟨t, tr, ht, htr, hto⟩ := catChunks_append ha
  obtain ⟨t1, t2, ht1, ht2, ht12⟩ := catChunks_cons ht
  have := catChunks_nil ht2
  obtain ⟨e1, l1⟩ := lenPrefixed_ok ht1
  subst this e1 ht12 hto hac
  have hblock := spec_props_block .publish h.props c payload henc hwf hlegal hc
  have hflags1 : h.flags / 2 % 4 = h.qos := by
    unfold PublishHeader.flags; split <;> split <;> omega
  have hflags2 : (h.flags / 8 % 2 = 1) = False := by
    unfold PublishHeader.flags; rw [hdup]; simp; split <;> omega
  have hflags3 : (h.flags % 2 = 1) = (h.retain = true) := by
    unfold PublishHeader.flags; rw [hdup]; simp; split <;> simp_all <;> omega
  simp only [Spec.parseBody, show MT_Publish = 3 from rfl, if_true, hflags1, hflags2, List.append_assoc, List.append_nil]
  have hq3 : (h.qos = 3) = False := by simp; omega
  simp only [hq3, decide_false, Bool.false_and, Bool.or_false, Bool.false_eq_true, if_false]
  rw [spec_str _ _ l1 htopic]
  simp only []
  cases hpid : h.packetId with
  | none =>
    rw [hpid] at hid htr
    simp only [] at hid
    have := catChunks_nil htr
    subst this
    simp only [hid, if_true, List.nil_append]
    rw [hblock]
    simp [hflags3]
  | some i =>
    rw [hpid] at hid htr
    simp only [] at hid
    obtain ⟨i1, i2, hi1, hi2, hi12⟩ := catChunks_cons htr
    have := catChunks_nil hi2
    simp at hi1
    subst this hi1 hi12
    have hq0 : (h.qos = 0) = False := by simp; omega
    simp only [hq0, if_false, List.append_nil]
    rw [spec_u16 _ _ hid.2.1]
    have hi0 : (i = 0) = False := by simp; omega
    simp only [hi0, if_false]
    rw [hblock]
    simp [hflags3]
end Minimq
