import Minimq.Proofs.Writer
/-
Packet-level round trips: what the model's encoders write, the independent reference decodes back.
-/
namespace Minimq
open Gen

/-- The user-supplied property lists inside a `Properties` value (not the inbound `encoded` form). -/
def Properties.items : Properties → List Property
  | .slice l => l
  | .withCorrelation c l => c :: l
  | .encoded _ => []

def Properties.isEncoded : Properties → Bool
  | .encoded _ => true
  | _ => false

theorem Properties.chunks_eq (ps : Properties) (h : ps.isEncoded = false) :
    ps.chunks = varintField ps.size :: ps.items.flatMap Property.chunks := by
  cases ps <;> simp [Properties.chunks, Properties.items, Properties.isEncoded] at *

theorem sum_append_singleton (l : List Nat) (x : Nat) : (l ++ [x]).sum = x + l.sum := by
  induction l with
  | nil => simp
  | cons a l ih => simp [ih]; omega

theorem Properties.size_eq (ps : Properties) (h : ps.isEncoded = false) :
    ps.size = (ps.items.map Property.size).sum := by
  cases ps with
  | slice l => rfl
  | encoded _ => simp [Properties.isEncoded] at h
  | withCorrelation c l =>
    simp only [Properties.size, Properties.items, List.map_append, List.map_cons, List.map_nil, List.sum_cons]
    exact sum_append_singleton _ _

/-- The reference decodes an encoded property block to exactly the properties the application gave,
in order (the correlation data first when `correlate` was used), provided each is legal where it is
used. -/
theorem spec_props_block (w : Spec.Where) (ps : Properties) (out rest : Bytes)
    (henc : ps.isEncoded = false)
    (hwf : ∀ p ∈ ps.items, p.wf = true)
    (hlegal : ∀ p ∈ ps.items, Spec.allowedIn w p.kind.id = true ∧ Spec.legalValue p.kind.id p.toSpec.val.num = true)
    (h : catChunks ps.chunks = .ok out) :
    Spec.props w (out ++ rest) = some (ps.items.map Property.toSpec, rest) := by
  rw [Properties.chunks_eq ps henc] at h
  obtain ⟨x, body, hx, hbody, ho⟩ := catChunks_cons h
  obtain ⟨hx1, hx2⟩ := varintField_ok hx
  have hlen := encodeProps_length ps.items body hwf hbody
  rw [← Properties.size_eq ps henc] at hlen
  subst ho hx1
  unfold Spec.props
  rw [List.append_assoc, spec_varint_encode _ _ hx2, ← hlen]
  simp only [spec_take_append]
  rw [spec_propsFuel_encode ps.items body body.length hwf hbody (Nat.le_refl _)]
  simp only []
  rw [if_pos]
  simp only [List.all_map, List.all_eq_true]
  intro p hp
  have := hlegal p hp
  simp only [Function.comp, Bool.and_eq_true]
  exact this

theorem finalize_ok {w : W} {typ flags off : Nat} {pkt : Bytes} (h : w.finalize typ flags = .ok (off, pkt)) :
    w.body.length ≤ MQTT_VARINT_MAX ∧ MAX_FIXED_HEADER_SIZE ≤ w.cap ∧
    pkt = b (typ * 16 + flags % 16) :: (encodeVarint w.body.length ++ w.body) ∧
    off = MAX_FIXED_HEADER_SIZE - varintLen w.body.length - 1 := by
  unfold W.finalize writeVarint at h
  by_cases hmax : w.body.length > MQTT_VARINT_MAX
  · rw [if_pos hmax] at h; simp at h
  · rw [if_neg hmax] at h
    simp only [] at h
    by_cases hc : w.cap < MAX_FIXED_HEADER_SIZE
    · rw [if_pos hc] at h; simp at h
    · rw [if_neg hc] at h
      simp at h
      exact ⟨by omega, by omega, h.2.symm, by rw [← h.1, encodeVarint_length]⟩

/-- What a successful `encode_publish_with_offset` with a byte payload returns. -/
theorem encodePublish_ok {cap off : Nat} {h : PublishHeader} {payload pkt : Bytes}
    (he : encodePublishWithOffset cap h (.bytes payload) = .ok (off, pkt)) :
    ∃ hdr, catChunks h.chunks = .ok hdr ∧
      MAX_FIXED_HEADER_SIZE + hdr.length + payload.length ≤ cap ∧
      (hdr ++ payload).length ≤ MQTT_VARINT_MAX ∧
      pkt = b (MT_Publish * 16 + h.flags % 16) :: (encodeVarint (hdr ++ payload).length ++ (hdr ++ payload)) ∧
      off = MAX_FIXED_HEADER_SIZE - varintLen (hdr ++ payload).length - 1 := by
  unfold encodePublishWithOffset at he
  cases hw : (W.new cap).pushAll h.chunks with
  | error e => rw [hw] at he; simp at he
  | ok w =>
    rw [hw] at he
    simp only [] at he
    obtain ⟨hdr, hhdr, hbody, hcap, hfits⟩ := pushAll_ok hw
    simp only [W.new, List.nil_append] at hbody hcap hfits
    split at he
    · simp at he
    · rename_i hroom
      cases hf : ({ w with body := w.body ++ payload } : W).finalize MT_Publish h.flags with
      | error e => rw [hf] at he; simp at he
      | ok r =>
        rw [hf] at he
        simp at he
        obtain ⟨off', pkt'⟩ := r
        simp at he
        obtain ⟨ho, hp⟩ := he
        subst ho hp
        obtain ⟨f1, f2, f3, f4⟩ := finalize_ok hf
        simp only [] at f1 f2 f3 f4
        rw [hbody] at f1 f3 f4
        refine ⟨hdr, hhdr, ?_, f1, f3, f4⟩
        simp only [W.index] at hroom
        rw [hbody, hcap] at hroom
        rw [hcap] at f2
        by_cases hp0 : payload = []
        · subst hp0
          rcases hfits with h0 | h1
          · subst h0; simp; omega
          · rw [hbody] at h1; simp; omega
        · have : 0 < payload.length := List.length_pos_iff.mpr hp0
          omega

theorem hdr_byte (t f : Nat) (ht : t < 16) (hf : f < 16) :
    (b (t * 16 + f % 16)).toNat / 16 = t ∧ (b (t * 16 + f % 16)).toNat % 16 = f := by
  rw [b_toNat]; omega

theorem parseClientPacket_frame (t f : Nat) (body rest : Bytes) (ht : t < 16) (hf : f < 16)
    (hl : body.length ≤ MQTT_VARINT_MAX) :
    Spec.parseClientPacket (b (t * 16 + f % 16) :: (encodeVarint body.length ++ body) ++ rest) =
      (Spec.parseBody t f body).map fun p => (p, rest) := by
  obtain ⟨h1, h2⟩ := hdr_byte t f ht hf
  simp only [Spec.parseClientPacket, List.cons_append, List.append_assoc]
  rw [spec_varint_encode _ _ hl]
  simp only [spec_take_append, h1, h2]

/-- PUBLISH: the reference decodes exactly the topic, identifier, QoS, retain flag, properties
(correlation data first) and payload bytes the application asked for — for every length. -/
theorem publish_roundtrip (cap off : Nat) (h : PublishHeader) (payload pkt rest : Bytes)
    (hq : h.qos ≤ 2) (hdup : h.dup = false)
    (hid : match h.packetId with
      | some i => 0 < i ∧ i < 65536 ∧ 0 < h.qos
      | none => h.qos = 0)
    (htopic : validUtf8 h.topic = true)
    (henc : h.props.isEncoded = false)
    (hwf : ∀ p ∈ h.props.items, p.wf = true)
    (hlegal : ∀ p ∈ h.props.items, Spec.allowedIn .publish p.kind.id = true ∧
        Spec.legalValue p.kind.id p.toSpec.val.num = true)
    (he : encodePublishWithOffset cap h (.bytes payload) = .ok (off, pkt)) :
    Spec.parseClientPacket (pkt ++ rest) =
      some (.publish false h.qos h.retain h.topic h.packetId (h.props.items.map Property.toSpec) payload, rest) := by
  obtain ⟨hdr, hhdr, _, hmax, hpkt, _⟩ := encodePublish_ok he
  subst hpkt
  have hf : h.flags < 16 := by
    unfold PublishHeader.flags; split <;> split <;> omega
  rw [parseClientPacket_frame MT_Publish h.flags _ rest (by decide) hf hmax]
  -- split the header chunks
  unfold PublishHeader.chunks at hhdr
  obtain ⟨a, c, ha, hc, hac⟩ := catChunks_append hhdr
  obtain ⟨t, tr, ht, htr, hto⟩ := catChunks_append ha
  obtain ⟨t1, t2, ht1, ht2, ht12⟩ := catChunks_cons ht
  have := catChunks_nil ht2
  obtain ⟨e1, l1⟩ := lenPrefixed_ok ht1
  subst this e1 ht12 hto hac
  have hblock := spec_props_block .publish h.props c payload henc hwf hlegal hc
  have hflags1 : h.flags / 2 % 4 = h.qos := by
    unfold PublishHeader.flags; split <;> split <;> omega
  have hflags2 : (h.flags / 8 % 2 = 1) = False := by
    unfold PublishHeader.flags; rw [hdup]; simp; split <;> omega
  have hflags3 : (h.flags % 2 = 1) = (h.retain = true) := by
    unfold PublishHeader.flags; rw [hdup]; simp; split <;> simp_all <;> omega
  simp only [Spec.parseBody, show MT_Publish = 3 from rfl, if_true, hflags1, hflags2, List.append_assoc, List.append_nil]
  have hq3 : (h.qos = 3) = False := by simp; omega
  simp only [hq3, decide_false, Bool.false_and, Bool.or_false, Bool.false_eq_true, if_false]
  rw [spec_str _ _ l1 htopic]
  simp only []
  cases hpid : h.packetId with
  | none =>
    rw [hpid] at hid htr
    simp only [] at hid
    have := catChunks_nil htr
    subst this
    simp only [hid, if_true, List.nil_append]
    rw [hblock]
    simp [hflags3]
  | some i =>
    rw [hpid] at hid htr
    simp only [] at hid
    obtain ⟨i1, i2, hi1, hi2, hi12⟩ := catChunks_cons htr
    have := catChunks_nil hi2
    simp at hi1
    subst this hi1 hi12
    have hq0 : (h.qos = 0) = False := by simp; omega
    simp only [hq0, if_false, List.append_nil]
    rw [spec_u16 _ _ hid.2.1]
    have hi0 : (i = 0) = False := by simp; omega
    simp only [hi0, if_false]
    rw [hblock]
    simp [hflags3]
/-- PUBACK / PUBREC / PUBREL / PUBCOMP as the client builds them (identifier and reason code). -/
theorem ack_roundtrip (cap off typ flags id rc : Nat) (pkt rest : Bytes)
    (htyp : typ = 4 ∨ typ = 5 ∨ typ = 6 ∨ typ = 7) (hflags : flags = if typ = 6 then 2 else 0)
    (hid : 0 < id ∧ id < 65536) (hrc : rc < 256)
    (he : encodeWithOffset cap (ackChunks id rc) typ flags = .ok (off, pkt)) :
    Spec.parseClientPacket (pkt ++ rest) = some (.ack typ id rc [], rest) := by
  obtain ⟨body, hb, _, hmax, hpkt, _⟩ := encodeWithOffset_ok he
  subst hpkt
  have ht16 : typ < 16 := by omega
  have hf16 : flags < 16 := by subst hflags; split <;> omega
  rw [parseClientPacket_frame typ flags _ rest ht16 hf16 hmax]
  unfold ackChunks at hb
  obtain ⟨x1, r1, h1, hr1, ho1⟩ := catChunks_cons hb
  obtain ⟨x2, r2, h2, hr2, ho2⟩ := catChunks_cons hr1
  have := catChunks_nil hr2
  simp at h1 h2
  subst this h1 h2 ho2 ho1
  have hn3 : (typ = 3) = False := by simp; omega
  have hn1 : (typ = 1) = False := by simp; omega
  have h4567 : (typ = 4 ∨ typ = 5 ∨ typ = 6 ∨ typ = 7) = True := by simp [htyp]
  have h4567' : (typ = 4 || typ = 5 || typ = 6 || typ = 7) = true := by
    rcases htyp with h | h | h | h <;> subst h <;> rfl
  have hfl : (flags ≠ if typ = 6 then 2 else 0) = False := by simp [hflags]
  simp only [Spec.parseBody, hn3, hn1, if_false, h4567', if_true, hfl]
  rw [spec_u16 _ _ hid.2]
  have hi0 : (id = 0) = False := by simp; omega
  simp only [hi0, if_false, List.append_nil]
  simp [b_toNat]; omega

/-- PINGREQ. -/
theorem pingreq_roundtrip (cap off : Nat) (pkt rest : Bytes)
    (he : encodeWithOffset cap [] MT_PingReq FLAGS_PingReq = .ok (off, pkt)) :
    Spec.parseClientPacket (pkt ++ rest) = some (.pingreq, rest) := by
  obtain ⟨body, hb, _, hmax, hpkt, _⟩ := encodeWithOffset_ok he
  subst hpkt
  have := catChunks_nil hb
  subst this
  rw [parseClientPacket_frame MT_PingReq FLAGS_PingReq _ rest (by decide) (by decide) hmax]
  simp [Spec.parseBody, MT_PingReq, FLAGS_PingReq]

/-- DISCONNECT: reason code and properties exactly as requested (an absent reason code is 0). -/
theorem disconnect_roundtrip (cap off : Nat) (d : Disconnect) (pkt rest : Bytes)
    (hrc : ∀ rc, d.reason = some rc → rc < 256)
    (hshape : d.props.isSome = true → d.reason.isSome = true)
    (hwf : ∀ ps, d.props = some ps → ∀ p ∈ ps, p.wf = true)
    (hlegal : ∀ ps, d.props = some ps → ∀ p ∈ ps, Spec.allowedIn .disconnect p.kind.id = true ∧
        Spec.legalValue p.kind.id p.toSpec.val.num = true)
    (he : encodeWithOffset cap d.chunks MT_Disconnect FLAGS_Disconnect = .ok (off, pkt)) :
    Spec.parseClientPacket (pkt ++ rest) =
      some (.disconnect (d.reason.getD 0) ((d.props.getD []).map Property.toSpec), rest) := by
  obtain ⟨body, hb, _, hmax, hpkt, _⟩ := encodeWithOffset_ok he
  subst hpkt
  rw [parseClientPacket_frame MT_Disconnect FLAGS_Disconnect _ rest (by decide) (by decide) hmax]
  unfold Disconnect.chunks at hb
  obtain ⟨a, c, ha, hc, hac⟩ := catChunks_append hb
  subst hac
  simp only [Spec.parseBody, show MT_Disconnect = 14 from rfl, show FLAGS_Disconnect = 0 from rfl]
  simp only [show (14 = 3) = False by simp, show (14 = 1) = False by simp, if_false, Bool.or_eq_true, decide_eq_true_eq,
    show (14 = 8) = False by simp,
    show (14 = 10) = False by simp, show (14 = 12) = False by simp, if_true, ne_eq, not_true_eq_false]
  cases hr : d.reason with
  | none =>
    rw [hr] at ha
    have := catChunks_nil ha
    subst this
    cases hp : d.props with
    | none =>
      rw [hp] at hc
      have := catChunks_nil hc
      subst this
      simp
    | some ps => rw [hp, hr] at hshape; simp at hshape
  | some rc =>
    rw [hr] at ha
    obtain ⟨x1, r1, h1, hr1, ho1⟩ := catChunks_cons ha
    have := catChunks_nil hr1
    simp at h1
    subst this h1 ho1
    have hrc' := hrc rc hr
    cases hp : d.props with
    | none =>
      rw [hp] at hc
      have := catChunks_nil hc
      subst this
      simp [b_toNat]; omega
    | some ps =>
      rw [hp] at hc
      have hblock := spec_props_block .disconnect (.slice ps) c [] rfl
        (by simpa [Properties.items] using hwf ps hp) (by simpa [Properties.items] using hlegal ps hp) hc
      simp only [List.append_nil] at hblock
      obtain ⟨x, body, hx, hbody, ho⟩ := catChunks_cons hc
      obtain ⟨hx1, _⟩ := varintField_ok hx
      have hne : c ≠ [] := by
        subst ho hx1
        intro hcon
        have := congrArg List.length hcon
        simp [encodeVarint_length] at this
        unfold varintLen Gen.varintLen at this
        split at this <;> (try split at this) <;> (try split at this) <;> omega
      cases hcc : c with
      | nil => exact absurd hcc hne
      | cons c0 cs =>
        simp only [List.cons_append, List.nil_append, List.append_nil]
        rw [← hcc, hblock]
        simp [Properties.items, b_toNat]; omega
def TopicFilter.toSpec (t : TopicFilter) : Spec.Filter :=
  { topic := t.topic, maxQos := t.opts.maxQos, noLocal := t.opts.noLocal, rap := t.opts.rap, rh := t.opts.rh }

def SubOpts.wf (o : SubOpts) : Bool := o.maxQos ≤ 2 && o.rh ≤ 2

/-- The subscription options byte carries exactly the four options (all 3×2×2×3 combinations). -/
theorem subopts_byte (o : SubOpts) (h : o.wf = true) :
    o.byte < 64 ∧ o.byte % 4 ≠ 3 ∧ o.byte / 16 % 4 ≠ 3 ∧ o.byte % 4 = o.maxQos ∧
    (o.byte / 4 % 2 = 1 ↔ o.noLocal = true) ∧ (o.byte / 8 % 2 = 1 ↔ o.rap = true) ∧ o.byte / 16 % 4 = o.rh := by
  obtain ⟨q, nl, rap, rh⟩ := o
  simp [SubOpts.wf] at h
  simp only [SubOpts.byte]
  cases nl <;> cases rap <;> simp <;> omega

theorem spec_filters_encode (ts : List TopicFilter) (out : Bytes) (fuel : Nat)
    (hwf : ∀ t ∈ ts, validUtf8 t.topic = true ∧ t.opts.wf = true)
    (h : catChunks (ts.flatMap (fun t => [lenPrefixed t.topic, .ok [b t.opts.byte]])) = .ok out)
    (hf : out.length ≤ fuel) :
    Spec.filtersFuel fuel out = some (ts.map TopicFilter.toSpec) := by
  induction ts generalizing out fuel with
  | nil =>
    simp [catChunks] at h; subst h
    cases fuel <;> simp [Spec.filtersFuel]
  | cons t ts ih =>
    simp only [List.flatMap_cons] at h
    obtain ⟨a, c, ha, hc, hac⟩ := catChunks_append h
    obtain ⟨x1, r1, h1, hr1, ho1⟩ := catChunks_cons ha
    obtain ⟨x2, r2, h2, hr2, ho2⟩ := catChunks_cons hr1
    have := catChunks_nil hr2
    obtain ⟨e1, l1⟩ := lenPrefixed_ok h1
    simp at h2
    subst this e1 h2 ho2 ho1 hac
    obtain ⟨hv, ho⟩ := hwf t (by simp)
    obtain ⟨b1, b2, b3, b4, b5, b6, b7⟩ := subopts_byte t.opts ho
    cases fuel with
    | zero => simp [u16be] at hf
    | succ fuel =>
      simp only [List.append_assoc, List.cons_append, List.nil_append, List.append_nil]
      have hne : u16be t.topic.length ++ (t.topic ++ (b t.opts.byte :: c)) ≠ [] := by simp [u16be]
      cases hcc : u16be t.topic.length ++ (t.topic ++ (b t.opts.byte :: c)) with
      | nil => exact absurd hcc hne
      | cons y ys =>
        rw [Spec.filtersFuel, ← hcc, spec_str _ _ l1 hv]
        · simp only []
          have hb : (b t.opts.byte).toNat = t.opts.byte := by rw [b_toNat]; omega
          rw [hb]
          have hcond : (t.opts.byte ≥ 64 || t.opts.byte % 4 = 3 || t.opts.byte / 16 % 4 = 3) = false := by
            simp; omega
          simp only [hcond, Bool.false_eq_true, if_false]
          rw [ih c fuel (fun t' ht' => hwf t' (by simp [ht'])) hc (by simp [u16be] at hf; omega)]
          simp [TopicFilter.toSpec, b4, b7]
          constructor
          · cases hnl : t.opts.noLocal <;> simp_all
          · cases hr : t.opts.rap <;> simp_all
        · simp

theorem spec_topics_encode (ts : List Bytes) (out : Bytes) (fuel : Nat)
    (hwf : ∀ t ∈ ts, validUtf8 t = true)
    (h : catChunks (ts.map lenPrefixed) = .ok out) (hf : out.length ≤ fuel) :
    Spec.topicsFuel fuel out = some ts := by
  induction ts generalizing out fuel with
  | nil =>
    simp [catChunks] at h; subst h
    cases fuel <;> simp [Spec.topicsFuel]
  | cons t ts ih =>
    simp only [List.map_cons] at h
    obtain ⟨x1, r1, h1, hr1, ho1⟩ := catChunks_cons h
    obtain ⟨e1, l1⟩ := lenPrefixed_ok h1
    subst e1 ho1
    cases fuel with
    | zero => simp [u16be] at hf
    | succ fuel =>
      simp only [List.append_assoc]
      have hne : u16be t.length ++ (t ++ r1) ≠ [] := by simp [u16be]
      cases hcc : u16be t.length ++ (t ++ r1) with
      | nil => exact absurd hcc hne
      | cons y ys =>
        rw [Spec.topicsFuel, ← hcc, spec_str _ _ l1 (hwf t (by simp))]
        · simp only []
          rw [ih r1 fuel (fun t' ht' => hwf t' (by simp [ht'])) hr1 (by simp [u16be] at hf; omega)]
          simp
        · simp

/-- SUBSCRIBE: identifier, properties and every filter with its four options. -/
theorem subscribe_roundtrip (cap off id : Nat) (props : List Property) (ts : List TopicFilter) (pkt rest : Bytes)
    (hid : 0 < id ∧ id < 65536) (hne : ts ≠ [])
    (hts : ∀ t ∈ ts, validUtf8 t.topic = true ∧ t.opts.wf = true)
    (hwf : ∀ p ∈ props, p.wf = true)
    (hlegal : ∀ p ∈ props, Spec.allowedIn .subscribe p.kind.id = true ∧
        Spec.legalValue p.kind.id p.toSpec.val.num = true)
    (he : encodeWithOffset cap (subscribeChunks id (.slice props) ts) MT_Subscribe FLAGS_Subscribe = .ok (off, pkt)) :
    Spec.parseClientPacket (pkt ++ rest) =
      some (.subscribe id (props.map Property.toSpec) (ts.map TopicFilter.toSpec), rest) := by
  obtain ⟨body, hb, _, hmax, hpkt, _⟩ := encodeWithOffset_ok he
  subst hpkt
  rw [parseClientPacket_frame MT_Subscribe FLAGS_Subscribe _ rest (by decide) (by decide) hmax]
  unfold subscribeChunks at hb
  obtain ⟨a, c, ha, hc, hac⟩ := catChunks_append hb
  obtain ⟨a1, a2, ha1, ha2, ha12⟩ := catChunks_append ha
  obtain ⟨x1, r1, h1, hr1, ho1⟩ := catChunks_cons ha1
  have := catChunks_nil hr1
  simp at h1
  subst this h1 ho1 ha12 hac
  have hblock := spec_props_block .subscribe (.slice props) a2 c rfl
    (by simpa [Properties.items] using hwf) (by simpa [Properties.items] using hlegal) ha2
  simp only [Spec.parseBody, show MT_Subscribe = 8 from rfl, show FLAGS_Subscribe = 2 from rfl]
  simp only [show (8 = 3) = False by simp, show (8 = 1) = False by simp, if_false,
    show (8 = 4 || 8 = 5 || 8 = 6 || 8 = 7) = false by rfl, Bool.false_eq_true, if_true, ne_eq, not_true_eq_false,
    List.append_assoc, List.append_nil]
  rw [spec_u16 _ _ hid.2]
  have hi0 : (id = 0) = False := by simp; omega
  simp only [hi0, if_false]
  rw [hblock]
  simp only [Properties.items]
  rw [spec_filters_encode ts c c.length hts hc (Nat.le_refl _)]
  cases ts with
  | nil => exact absurd rfl hne
  | cons t ts => simp

/-- UNSUBSCRIBE: identifier, properties and every topic filter. -/
theorem unsubscribe_roundtrip (cap off id : Nat) (props : List Property) (ts : List Bytes) (pkt rest : Bytes)
    (hid : 0 < id ∧ id < 65536) (hne : ts ≠ [])
    (hts : ∀ t ∈ ts, validUtf8 t = true)
    (hwf : ∀ p ∈ props, p.wf = true)
    (hlegal : ∀ p ∈ props, Spec.allowedIn .unsubscribe p.kind.id = true ∧
        Spec.legalValue p.kind.id p.toSpec.val.num = true)
    (he : encodeWithOffset cap (unsubscribeChunks id (.slice props) ts) MT_Unsubscribe FLAGS_Unsubscribe = .ok (off, pkt)) :
    Spec.parseClientPacket (pkt ++ rest) = some (.unsubscribe id (props.map Property.toSpec) ts, rest) := by
  obtain ⟨body, hb, _, hmax, hpkt, _⟩ := encodeWithOffset_ok he
  subst hpkt
  rw [parseClientPacket_frame MT_Unsubscribe FLAGS_Unsubscribe _ rest (by decide) (by decide) hmax]
  unfold unsubscribeChunks at hb
  obtain ⟨a, c, ha, hc, hac⟩ := catChunks_append hb
  obtain ⟨a1, a2, ha1, ha2, ha12⟩ := catChunks_append ha
  obtain ⟨x1, r1, h1, hr1, ho1⟩ := catChunks_cons ha1
  have := catChunks_nil hr1
  simp at h1
  subst this h1 ho1 ha12 hac
  have hblock := spec_props_block .unsubscribe (.slice props) a2 c rfl
    (by simpa [Properties.items] using hwf) (by simpa [Properties.items] using hlegal) ha2
  simp only [Spec.parseBody, show MT_Unsubscribe = 10 from rfl, show FLAGS_Unsubscribe = 2 from rfl]
  simp only [show (10 = 3) = False by simp, show (10 = 1) = False by simp, if_false,
    show (10 = 4 || 10 = 5 || 10 = 6 || 10 = 7) = false by rfl, Bool.false_eq_true,
    show (10 = 8) = False by simp, if_true, ne_eq, not_true_eq_false,
    List.append_assoc, List.append_nil]
  rw [spec_u16 _ _ hid.2]
  have hi0 : (id = 0) = False := by simp; omega
  simp only [hi0, if_false]
  rw [hblock]
  simp only [Properties.items]
  rw [spec_topics_encode ts c c.length hts hc (Nat.le_refl _)]
  cases ts with
  | nil => exact absurd rfl hne
  | cons t ts => simp
def Will.toSpec (w : Will) : Spec.Will :=
  { props := w.props.map Property.toSpec, topic := w.topic, payload := w.data, qos := w.qos, retain := w.retained }

theorem connect_flags (c : Connect) (hq : ∀ w, c.will = some w → w.qos ≤ 2) :
    c.flags < 256 ∧ c.flags % 2 = 0 ∧ (c.flags / 2 % 2 = 1 ↔ c.cleanStart = true) ∧
    (c.flags / 4 % 2 = 1 ↔ c.will.isSome = true) ∧
    c.flags / 8 % 4 = (match c.will with | some w => w.qos | none => 0) ∧
    (c.flags / 32 % 2 = 1 ↔ (match c.will with | some w => w.retained = true | none => False)) ∧
    (c.flags / 64 % 2 = 1 ↔ c.auth.isSome = true) ∧ (c.flags / 128 % 2 = 1 ↔ c.auth.isSome = true) := by
  unfold Connect.flags
  cases hw : c.will with
  | none =>
    cases c.cleanStart <;> cases c.auth <;> simp
  | some w =>
    have := hq w hw
    obtain ⟨wt, wd, wq, wr, wp⟩ := w
    simp only [] at this
    cases c.cleanStart <;> cases c.auth <;> cases wr <;> simp <;> omega

/-- CONNECT: client identifier, clean start, keep-alive, properties, will (QoS, retain, properties,
topic, payload), user name and password are decoded by the reference exactly as configured. -/
theorem connect_roundtrip (cap off : Nat) (c : Connect) (ps : List Property) (pkt rest : Bytes)
    (hka : c.keepalive < 65536) (hcid : validUtf8 c.clientId = true)
    (hprops : c.props = .slice ps)
    (hwf : ∀ p ∈ ps, p.wf = true)
    (hlegal : ∀ p ∈ ps, Spec.allowedIn .connect p.kind.id = true ∧ Spec.legalValue p.kind.id p.toSpec.val.num = true)
    (hwill : ∀ w, c.will = some w → w.qos ≤ 2 ∧ validUtf8 w.topic = true ∧ (∀ p ∈ w.props, p.wf = true) ∧
        (∀ p ∈ w.props, Spec.allowedIn .will p.kind.id = true ∧ Spec.legalValue p.kind.id p.toSpec.val.num = true))
    (hauth : ∀ a, c.auth = some a → validUtf8 a.user = true)
    (he : encodeConnect cap c = .ok (off, pkt)) :
    Spec.parseClientPacket (pkt ++ rest) =
      some (.connect c.cleanStart c.keepalive (ps.map Property.toSpec) c.clientId (c.will.map Will.toSpec)
              (c.auth.map (·.user)) (c.auth.map (·.pass)), rest) := by
  unfold encodeConnect at he
  obtain ⟨body, hb, _, hmax, hpkt, _⟩ := encodeWithOffset_ok he
  subst hpkt
  rw [parseClientPacket_frame MT_Connect FLAGS_Connect _ rest (by decide) (by decide) hmax]
  obtain ⟨f1, f2, f3, f4, f5, f6, f7, f8⟩ := connect_flags c (fun w hw => (hwill w hw).1)
  unfold Connect.chunks at hb
  obtain ⟨abc, authb, habc, hauthb, e1⟩ := catChunks_append hb
  obtain ⟨ab, willb, hab, hwillb, e2⟩ := catChunks_append habc
  obtain ⟨a, cidb, ha, hcidb, e3⟩ := catChunks_append hab
  obtain ⟨fixedb, propb, hfixed, hpropb, e4⟩ := catChunks_append ha
  -- fixed part
  obtain ⟨x1, r1, h1, hr1, o1⟩ := catChunks_cons hfixed
  obtain ⟨x2, r2, h2, hr2, o2⟩ := catChunks_cons hr1
  obtain ⟨x3, r3, h3, hr3, o3⟩ := catChunks_cons hr2
  obtain ⟨x4, r4, h4, hr4, o4⟩ := catChunks_cons hr3
  have n1 := catChunks_nil hr4
  obtain ⟨hx1, _⟩ := lenPrefixed_ok h1
  simp at h2 h3 h4
  -- client id
  obtain ⟨y1, s1, g1, gs1, p1⟩ := catChunks_cons hcidb
  have n2 := catChunks_nil gs1
  obtain ⟨hy1, ly1⟩ := lenPrefixed_ok g1
  subst n1 hx1 h2 h3 h4 o4 o3 o2 o1 n2 hy1 p1 e4 e3 e2 e1
  rw [hprops] at hpropb
  have hblock := fun r => spec_props_block .connect (.slice ps) propb r rfl
    (by simpa [Properties.items] using hwf) (by simpa [Properties.items] using hlegal) hpropb
  simp only [Spec.parseBody, show MT_Connect = 1 from rfl, show FLAGS_Connect = 0 from rfl,
    show (1 = 3) = False by simp, if_false, if_true, ne_eq, not_true_eq_false, List.append_assoc, List.append_nil,
    List.cons_append, List.nil_append]
  have hname : Spec.bin (u16be ([0x4d, 0x51, 0x54, 0x54] : Bytes).length ++ (([0x4d, 0x51, 0x54, 0x54] : Bytes) ++
      (5 :: b c.flags :: (u16be c.keepalive ++ (propb ++ (u16be c.clientId.length ++ (c.clientId ++ (willb ++ authb)))))))) =
      some ([0x4d, 0x51, 0x54, 0x54], 5 :: b c.flags :: (u16be c.keepalive ++ (propb ++ (u16be c.clientId.length ++ (c.clientId ++ (willb ++ authb)))))) :=
    spec_bin _ _ (by simp)
  simp only [List.cons_append, List.nil_append, List.append_assoc] at hname
  rw [hname]
  have hbf : (b c.flags).toNat = c.flags := by rw [b_toNat]; omega
  simp only [show ((5 : UInt8).toNat ≠ 5) = False by simp, if_false, hbf, f2, show (0 = 1) = False by simp, if_true]
  simp only [not_true_eq_false, if_false]
  rw [spec_u16 _ _ hka]
  simp only []
  rw [hblock]
  simp only [Properties.items]
  rw [spec_str _ _ ly1 hcid]
  simp only []
  cases hw : c.will with
  | none =>
    rw [hw] at hwillb f4 f5 f6
    have := catChunks_nil hwillb
    subst this
    have g4 : (c.flags / 4 % 2 = 1) = False := by simpa using f4
    have g5 : c.flags / 8 % 4 = 0 := by simpa using f5
    have g6 : (c.flags / 32 % 2 = 1) = False := by simpa using f6
    simp only [g4, g5, g6, if_false, decide_false, decide_true, Bool.not_false, Bool.true_and, Bool.or_false,
      show (¬ (0 = 0)) = False by simp, show (0 = 3) = False by simp, Bool.false_eq_true, List.nil_append]
    cases hau : c.auth with
    | none =>
      rw [hau] at hauthb f7 f8
      have := catChunks_nil hauthb
      subst this
      have g7 : (c.flags / 64 % 2 = 1) = False := by simpa using f7
      have g8 : (c.flags / 128 % 2 = 1) = False := by simpa using f8
      simp only [g7, g8, if_false, List.isEmpty_nil, if_true]
      cases hcs : c.cleanStart <;> simp_all
    | some au =>
      rw [hau] at hauthb f7 f8
      obtain ⟨u1, ur1, hu1, hur1, ou1⟩ := catChunks_cons hauthb
      obtain ⟨u2, ur2, hu2, hur2, ou2⟩ := catChunks_cons hur1
      have := catChunks_nil hur2
      obtain ⟨eu1, lu1⟩ := lenPrefixed_ok hu1
      obtain ⟨eu2, lu2⟩ := lenPrefixed_ok hu2
      subst this eu1 eu2 ou2 ou1
      have g7 : (c.flags / 64 % 2 = 1) = True := by simpa using f7
      have g8 : (c.flags / 128 % 2 = 1) = True := by simpa using f8
      simp only [g7, g8, if_true, List.append_assoc, List.append_nil]
      rw [spec_str _ _ lu1 (hauth au hau)]
      simp only [Option.map]
      have := spec_bin au.pass [] lu2
      simp only [List.append_nil] at this
      rw [this]
      simp only [List.isEmpty_nil, if_true]
      cases hcs : c.cleanStart <;> simp_all
  | some w =>
    rw [hw] at hwillb f4 f5 f6
    obtain ⟨hwq, hwt, hwwf, hwlegal⟩ := hwill w hw
    unfold Will.chunks at hwillb
    obtain ⟨wpb, wrest, hwpb, hwrest, ew⟩ := catChunks_append hwillb
    obtain ⟨t1, tr1, ht1, htr1, ot1⟩ := catChunks_cons hwrest
    obtain ⟨t2, tr2, ht2, htr2, ot2⟩ := catChunks_cons htr1
    have := catChunks_nil htr2
    obtain ⟨et1, lt1⟩ := lenPrefixed_ok ht1
    obtain ⟨et2, lt2⟩ := lenPrefixed_ok ht2
    subst this et1 et2 ot2 ot1 ew
    have hwblock := fun r => spec_props_block .will (.slice w.props) wpb r rfl
      (by simpa [Properties.items] using hwwf) (by simpa [Properties.items] using hwlegal) hwpb
    have g4 : (c.flags / 4 % 2 = 1) = True := by simpa using f4
    have g5 : c.flags / 8 % 4 = w.qos := by simpa using f5
    have hq3 : (w.qos = 3) = False := by simp; omega
    simp only [g4, g5, hq3, if_true, decide_true, decide_false, Bool.not_true, Bool.false_and, Bool.or_false,
      Bool.false_eq_true, if_false, List.append_assoc, List.append_nil]
    rw [hwblock]
    simp only [Properties.items]
    rw [spec_str _ _ lt1 hwt]
    simp only []
    rw [spec_bin _ _ lt2]
    simp only []
    cases hau : c.auth with
    | none =>
      rw [hau] at hauthb f7 f8
      have := catChunks_nil hauthb
      subst this
      have g7 : (c.flags / 64 % 2 = 1) = False := by simpa using f7
      have g8 : (c.flags / 128 % 2 = 1) = False := by simpa using f8
      simp only [g7, g8, if_false, List.isEmpty_nil, if_true]
      cases hcs : c.cleanStart <;> cases hr : w.retained <;> simp_all [Will.toSpec]
    | some au =>
      rw [hau] at hauthb f7 f8
      obtain ⟨u1, ur1, hu1, hur1, ou1⟩ := catChunks_cons hauthb
      obtain ⟨u2, ur2, hu2, hur2, ou2⟩ := catChunks_cons hur1
      have := catChunks_nil hur2
      obtain ⟨eu1, lu1⟩ := lenPrefixed_ok hu1
      obtain ⟨eu2, lu2⟩ := lenPrefixed_ok hu2
      subst this eu1 eu2 ou2 ou1
      have g7 : (c.flags / 64 % 2 = 1) = True := by simpa using f7
      have g8 : (c.flags / 128 % 2 = 1) = True := by simpa using f8
      simp only [g7, g8, if_true, List.append_assoc, List.append_nil]
      rw [spec_str _ _ lu1 (hauth au hau)]
      simp only [Option.map]
      have := spec_bin au.pass [] lu2
      simp only [List.append_nil] at this
      rw [this]
      simp only [List.isEmpty_nil, if_true]
      cases hcs : c.cleanStart <;> cases hr : w.retained <;> simp_all [Will.toSpec]
end Minimq
