import Minimq.Proofs.ArenaClosed
import Minimq.Theorems.C09
/-
From the request to the arena: what `afterFlush` (the continuation of publish / subscribe /
unsubscribe after the preliminary `flush_outbound`) does with a request — which identifier it
takes, where the encoded packet ends up in the transmit arena, what the retained list looks like
afterwards, and what is left behind when the request is refused.
-/
namespace Minimq
open Gen World Outbound

/-! ### The allocator touches only the counter -/

theorem nextPacketIdFuel_eta (fuel : Nat) (d : SessionData) :
    (d.nextPacketIdFuel fuel).1 = { d with packetId := (d.nextPacketIdFuel fuel).1.packetId } := by
  induction fuel generalizing d with
  | zero => rfl
  | succ n ih =>
    simp only [SessionData.nextPacketIdFuel]
    split
    · rfl
    · exact ih _

theorem nextPacketId_eta (d : SessionData) :
    d.nextPacketId.1 = { d with packetId := d.nextPacketId.1.packetId } :=
  nextPacketIdFuel_eta _ d

/-! ### Where `encode` puts its result -/

theorem compact_used (o : Outbound) (h : o.ArenaInv) :
    o.compact.used = o.usedAfterCompact ∧ o.compact.capacity - o.compact.used = o.scratchLen := by
  obtain ⟨_, _, _, c4, c5, _⟩ := compact_spec o h
  refine ⟨c4, ?_⟩
  simp only [scratchLen, capacity, usedAfterCompact, c4, c5]

/-- What the encoder is shown of the scratch space: the arena content behind the compacted retained
packets (only a `lie` payload — a `ToPayload` that reports more bytes than it wrote — ever looks at it). -/
def Outbound.scratchView (o : Outbound) : Nat → Nat → Bytes :=
  fun idx n => slice o.compact.buf (o.usedAfterCompact + idx) n

/-- `encode_packet` / `encode_publish`: the arena is compacted, the encoder gets the whole scratch space
(`scratchLen` bytes behind the retained packets), and a packet it returns at offset `off` of that space
is written at `usedAfterCompact + off` of the arena. -/
theorem encodeAt_eq {ε : Type} (o : Outbound) (enc : Nat → (Nat → Nat → Bytes) → Except ε (Nat × Bytes))
    (h : o.ArenaInv) :
    o.encodeAt enc =
      match enc o.scratchLen o.scratchView with
      | .error e => (o.compact, .error e)
      | .ok (off, pkt) =>
        ({ o.compact with buf := setRange o.compact.buf (o.usedAfterCompact + off) pkt },
          .ok (o.usedAfterCompact + off, pkt.length)) := by
  obtain ⟨hu, hs⟩ := compact_used o h
  unfold encodeAt Outbound.scratchView
  simp only [hs]
  rw [hu]
  cases enc o.scratchLen (fun idx n => slice o.compact.buf (o.usedAfterCompact + idx) n) with
  | error e => rfl
  | ok r => rfl

theorem encodeAt_snd {ε : Type} (o : Outbound) (enc : Nat → (Nat → Nat → Bytes) → Except ε (Nat × Bytes))
    (h : o.ArenaInv) :
    (o.encodeAt enc).2 =
      match enc o.scratchLen o.scratchView with
      | .error e => .error e
      | .ok (off, pkt) => .ok (o.usedAfterCompact + off, pkt.length) := by
  rw [encodeAt_eq o enc h]
  cases enc o.scratchLen o.scratchView with
  | error e => rfl
  | ok r => rfl

/-- The bytes of an encoded packet are in the arena where `encode` says they are. -/
theorem encodeAt_bytes {ε : Type} (o : Outbound) (enc : Nat → (Nat → Nat → Bytes) → Except ε (Nat × Bytes))
    (h : o.ArenaInv) (he : EncOk enc)
    (off : Nat) (pkt : Bytes) (hok : enc o.scratchLen o.scratchView = .ok (off, pkt)) :
    (o.encodeAt enc).2 = .ok (o.usedAfterCompact + off, pkt.length) ∧
    (o.encodeAt enc).1.retained = o.compact.retained ∧
    slice (o.encodeAt enc).1.buf (o.usedAfterCompact + off) pkt.length = pkt ∧
    o.usedAfterCompact + off + pkt.length ≤ o.buf.length ∧ 0 < pkt.length := by
  obtain ⟨c1, _, _, c4, c5, _⟩ := compact_spec o h
  obtain ⟨hu, hs⟩ := compact_used o h
  obtain ⟨hb, hpos, _⟩ := he o.scratchLen o.scratchView off pkt (fun _ _ => slice_length_le _ _ _) hok
  have hule := c1.used_le
  rw [hu, c5] at hule
  have hfit : o.usedAfterCompact + off + pkt.length ≤ o.compact.buf.length := by
    rw [c5]; simp only [scratchLen, capacity] at hb; omega
  rw [encodeAt_eq o enc h, hok]
  refine ⟨rfl, rfl, ?_, by rw [← c5]; exact hfit, hpos⟩
  exact slice_setRange_same _ _ _ hfit

/-! ### What a request may change in the session -/

theorem Session.eq_with_data {s s' : Session} :
    s' = { s with data := s'.data } ↔
      s'.clientId = s.clientId ∧ s'.reader = s.reader ∧ s'.rt = s.rt ∧ s'.will = s.will ∧ s'.auth = s.auth ∧
      s'.expiry = s.expiry ∧ s'.downgrade = s.downgrade ∧ s'.inlog = s.inlog ∧ s'.rmark = s.rmark := by
  cases s; cases s'
  simp only [Session.mk.injEq, true_and]

theorem Session.eq_with_data_rt {s s' : Session} :
    s' = { s with data := s'.data, rt := s'.rt } ↔
      s'.clientId = s.clientId ∧ s'.reader = s.reader ∧ s'.will = s.will ∧ s'.auth = s.auth ∧
      s'.expiry = s.expiry ∧ s'.downgrade = s.downgrade ∧ s'.inlog = s.inlog ∧ s'.rmark = s.rmark := by
  cases s; cases s'
  simp only [Session.mk.injEq, true_and]

theorem SessionData.eq_with_arena {d d' : SessionData} :
    d' = { d with packetId := d'.packetId, outbound := d'.outbound } ↔
      d'.generation = d.generation ∧ d'.pendingServerIds = d.pendingServerIds ∧
      d'.sessionPresent = d.sessionPresent ∧ d'.everAccepted = d.everAccepted ∧ d'.halfReset = d.halfReset ∧
      d'.assignedId = d.assignedId := by
  cases d; cases d'
  simp only [SessionData.mk.injEq, true_and]

/-- What a request that is refused (or a QoS 0 publish, which retains nothing) may leave behind in the
session: only the packet identifier counter and the *layout* of the transmit arena — `encode` compacts
it and writes into the scratch space behind the retained packets — can differ. -/
structure Session.Untouched (s s' : Session) : Prop where
  /-- Outside `data` nothing differs: the runtime (send quota, keep-alive deadlines, the broker's limits),
  the packet reader, client identifier, will, credentials, the ghost inbound log. -/
  outer : s' = { s with data := s'.data }
  /-- Inside `data` only the counter and the arena can differ: generation, inbound QoS 2 identifiers,
  session-present flag and the ghost fields are the same. -/
  data : s'.data = { s.data with packetId := s'.data.packetId, outbound := s'.data.outbound }
  /-- The control queue (acknowledgements, PINGREQ) is the same. -/
  control : s'.data.outbound.control = s.data.outbound.control
  /-- The release queue (PUBREL) is the same. -/
  release : s'.data.outbound.release = s.data.outbound.release
  /-- The retained list has the same entries in the same order: identifier, length, send state, serial… -/
  entries : s'.data.outbound.meta = s.data.outbound.meta
  /-- …and each entry's packet bytes are the same (offsets may have moved: compaction). -/
  contents : s'.data.outbound.contents = s.data.outbound.contents
  /-- The same in the vocabulary of `Proofs/ArenaClosed.lean`. -/
  keeps : Keeps s.data.outbound s'.data.outbound
  nextSer : s'.data.outbound.nextSer = s.data.outbound.nextSer
  nextRser : s'.data.outbound.nextRser = s.data.outbound.nextRser
  /-- The arena is still laid out sanely, and has the same capacity. -/
  arena : s'.data.outbound.ArenaInv
  cap : s'.data.outbound.buf.length = s.data.outbound.buf.length

theorem Session.Untouched.refl (s : Session) (h : s.data.outbound.ArenaInv) : s.Untouched s :=
  ⟨rfl, rfl, rfl, rfl, rfl, rfl, Keeps.refl _, rfl, rfl, h, rfl⟩

theorem Session.Untouched.rt {s s' : Session} (h : s.Untouched s') : s'.rt = s.rt :=
  (Session.eq_with_data.mp h.outer).2.2.1

theorem Session.Untouched.generation {s s' : Session} (h : s.Untouched s') : s'.data.generation = s.data.generation :=
  (SessionData.eq_with_arena.mp h.data).1

theorem Session.Untouched.retained_length {s s' : Session} (h : s.Untouched s') :
    s'.data.outbound.retained.length = s.data.outbound.retained.length := by
  have := congrArg List.length h.entries
  simpa [Outbound.meta] using this

theorem Session.Untouched.usedIds {s s' : Session} (h : s.Untouched s') :
    s'.data.outbound.usedIds = s.data.outbound.usedIds := by
  have := congrArg (List.map (fun (t : Nat × Nat × SendState × Nat) => t.1)) h.entries
  simp only [Outbound.meta, List.map_map] at this
  simp only [Outbound.usedIds, h.release]
  congr 1

/-- `next_packet_id` moves the counter and nothing else. -/
theorem Session.Untouched.alloc (s : Session) (h : s.data.outbound.ArenaInv) : s.Untouched s.alloc.1 := by
  have ho : s.alloc.1.data.outbound = s.data.outbound := by
    rw [Session.alloc_fst]; exact nextPacketId_outbound s.data
  have hd : s.alloc.1.data = s.data.nextPacketId.1 := by rw [Session.alloc_fst]
  refine ⟨?_, ?_, by rw [ho], by rw [ho], by rw [ho], by rw [ho], by rw [ho]; exact Keeps.refl _, by rw [ho], by rw [ho],
    by rw [ho]; exact h, by rw [ho]⟩
  · rw [Session.alloc_fst]
  · rw [hd, SessionData.eq_with_arena]
    have := nextPacketId_eta s.data
    rw [this]
    exact ⟨rfl, rfl, rfl, rfl, rfl, rfl⟩

/-- `encode_packet` / `encode_publish` compacts the arena and writes into the scratch space; the retained
packets keep their bytes. -/
theorem Session.Untouched.encode {ε : Type} {s s1 : Session} (h : s.Untouched s1)
    (enc : Nat → (Nat → Nat → Bytes) → Except ε (Nat × Bytes)) (he : EncOk enc) : s.Untouched (s1.encode enc).1 := by
  obtain ⟨e1, e2, e3, e4, e5, e6, e7, e8, e9⟩ := encodeAt_spec s1.data.outbound enc h.arena he
  have hk : Keeps s1.data.outbound (s1.data.outbound.encodeAt enc).1 :=
    Keeps.of_eq e8 (tagged_congr (tags_of_meta e3) (by rw [e2]))
  have hr : (s1.data.outbound.encodeAt enc).1.nextRser = s1.data.outbound.nextRser := by
    unfold encodeAt; simp only []; split <;> rfl
  rw [Session.encode_fst]
  refine ⟨?_, ?_, ?_, ?_, ?_, ?_, ?_, ?_, ?_, ?_, ?_⟩
  · rw [Session.eq_with_data]
    exact (Session.eq_with_data (s := s) (s' := s1)).mp h.outer
  · rw [SessionData.eq_with_arena]
    exact (SessionData.eq_with_arena (d := s.data) (d' := s1.data)).mp h.data
  · exact e7.trans h.control
  · exact e6.trans h.release
  · exact e3.trans h.entries
  · exact e2.trans h.contents
  · exact h.keeps.trans hk
  · exact e8.trans h.nextSer
  · exact hr.trans h.nextRser
  · exact e1
  · exact e5.trans h.cap

/-! ### Accepting a request -/

theorem Keeps.retainPacket {o o' : Outbound} {id off len : Nat} (hr : o.retainPacket id off len = some o') :
    Keeps o o' := by
  unfold Outbound.retainPacket at hr
  split at hr
  · simp at hr
  · simp only [Option.some.injEq] at hr
    subst hr
    refine ⟨by simp, ?_⟩
    simp only [Outbound.tagged, List.map_append, List.filter_append, List.map_cons, List.map_nil]
    have : List.filter (fun (t : (Nat × Nat) × Bytes) => decide (t.1.1 < o.nextSer))
        [((o.nextSer, id), unDup (slice o.buf off len))] = [] := by simp
    rw [this, List.append_nil]
    exact List.filter_sublist

/-- What accepting a request (allocate, encode, retain) does to the session. `id` is the packet
identifier, `pkt` the encoded packet, `isPub` says whether it is a PUBLISH. -/
structure Session.Enqueued (s s' : Session) (id : Nat) (pkt : Bytes) (isPub : Bool) : Prop where
  /-- The identifier is the one `next_packet_id` returned. -/
  ident : id = s.alloc.2
  /-- The retained list is the old one (its entries moved by the compaction that precedes encoding)
  plus ONE entry at the end: it carries `id`, is waiting for its first byte, has the next serial, and
  its bytes in the arena are exactly `pkt`. -/
  entry : ∃ e : RetainedPacket, s'.data.outbound.retained = s.data.outbound.compact.retained ++ [e] ∧
    e.id = id ∧ e.len = pkt.length ∧ e.state = .write 0 ∧ e.ser = s.data.outbound.nextSer ∧
    s'.data.outbound.retainedPacket e.offset e.len = pkt
  /-- The new entry lies in the scratch space: behind the compacted old packets, inside the arena. -/
  placed : ∀ e : RetainedPacket, s'.data.outbound.retained = s.data.outbound.compact.retained ++ [e] →
    s.data.outbound.usedAfterCompact ≤ e.offset ∧ e.offset + e.len ≤ s.data.outbound.buf.length
  /-- Identifier, length, send state and serial of every entry: the old ones, then the new one. -/
  entries : s'.data.outbound.meta = s.data.outbound.meta ++ [(id, pkt.length, .write 0, s.data.outbound.nextSer)]
  /-- The packet bytes of every entry: the old ones unchanged, then `pkt`. -/
  contents : s'.data.outbound.contents = s.data.outbound.contents ++ [pkt]
  /-- No retained packet was altered (vocabulary of `Proofs/ArenaClosed.lean`). -/
  keeps : Keeps s.data.outbound s'.data.outbound
  /-- Control and release queues are the same. -/
  control : s'.data.outbound.control = s.data.outbound.control
  release : s'.data.outbound.release = s.data.outbound.release
  nextSer : s'.data.outbound.nextSer = s.data.outbound.nextSer + 1
  nextRser : s'.data.outbound.nextRser = s.data.outbound.nextRser
  /-- A PUBLISH takes one unit of send quota; SUBSCRIBE / UNSUBSCRIBE leave the runtime alone. -/
  quota : s'.rt = if isPub then { s.rt with sendQuota := s.rt.sendQuota - 1 } else s.rt
  /-- Outside `data` and `rt` nothing differs. -/
  outer : s' = { s with data := s'.data, rt := s'.rt }
  /-- Inside `data` only the counter (moved by the allocator) and the arena differ. -/
  data : s'.data = { s.data with packetId := s.alloc.1.data.packetId, outbound := s'.data.outbound }
  /-- The arena is still laid out sanely, and has the same capacity. -/
  arena : s'.data.outbound.ArenaInv
  cap : s'.data.outbound.buf.length = s.data.outbound.buf.length

/-- The pipeline `next_packet_id` → `encode_packet` → (size check) → `retain_packet` on a session with a
free retained slot, for an encoder that succeeds in the scratch space. -/
theorem Session.enqueue_step {ε : Type} (s : Session) (enc : Nat → (Nat → Nat → Bytes) → Except ε (Nat × Bytes))
    (he : EncOk enc) (ha : s.data.outbound.ArenaInv) (off : Nat) (pkt : Bytes)
    (hok : enc s.data.outbound.scratchLen s.data.outbound.scratchView = .ok (off, pkt))
    (hfree : s.data.outbound.retainedFull = false)
    (isPub : Bool) :
    (s.alloc.1.encode enc).2 = .ok (s.data.outbound.usedAfterCompact + off, pkt.length) ∧
    ∃ s3, (s.alloc.1.encode enc).1.retain s.alloc.2 (s.data.outbound.usedAfterCompact + off) pkt.length isPub = some s3 ∧
      s.Enqueued s3 s.alloc.2 pkt isPub := by
  have hU1 := Session.Untouched.alloc s ha
  have hU2 := hU1.encode enc he
  have ho : s.alloc.1.data.outbound = s.data.outbound := by
    rw [Session.alloc_fst]; exact nextPacketId_outbound s.data
  obtain ⟨b1, b2, b3, b4, hpos⟩ := encodeAt_bytes s.data.outbound enc ha he off pkt hok
  have h2 : (s.alloc.1.encode enc).1.data.outbound = (s.data.outbound.encodeAt enc).1 := by
    rw [Session.encode_fst]
    show (s.alloc.1.data.outbound.encodeAt enc).1 = _
    rw [ho]
  have hres : (s.alloc.1.encode enc).2 = .ok (s.data.outbound.usedAfterCompact + off, pkt.length) := by
    rw [Session.encode_snd, ho]; exact b1
  refine ⟨hres, ?_⟩
  generalize hs2 : (s.alloc.1.encode enc).1 = s2 at hU2 h2
  generalize hid : s.alloc.2 = id
  have hlen : ¬ s2.data.outbound.retained.length ≥ MAX_RETAINED := by
    rw [hU2.retained_length]
    simpa [Outbound.retainedFull] using hfree
  -- the arena after `retain_packet`
  obtain ⟨o3, hr⟩ : ∃ o3, s2.data.outbound.retainPacket id (s.data.outbound.usedAfterCompact + off) pkt.length = some o3 := by
    unfold Outbound.retainPacket; rw [if_neg hlen]; exact ⟨_, rfl⟩
  have hused : s2.data.outbound.used ≤ s.data.outbound.usedAfterCompact + off := by
    have := (encodeAt_spec s.data.outbound enc ha he).2.2.2.1
    rw [h2, this]; exact Nat.le_add_right _ _
  obtain ⟨r1, r2, r3, r4, r5, r6, r7⟩ := retainPacket_spec s2.data.outbound o3 id _ pkt.length hU2.arena hused
    (by rw [hU2.cap]; exact b4) hpos hr
  have hslice : slice s2.data.outbound.buf (s.data.outbound.usedAfterCompact + off) pkt.length = pkt := by
    rw [h2]; exact b3
  have hret : o3.retained = s.data.outbound.compact.retained ++
      [{ id := id, offset := s.data.outbound.usedAfterCompact + off, len := pkt.length, state := .write 0,
         ser := s.data.outbound.nextSer }] := by
    unfold Outbound.retainPacket at hr
    rw [if_neg hlen] at hr
    simp only [Option.some.injEq] at hr
    rw [← hr]
    simp only []
    rw [h2, b2, ← hU2.nextSer, h2]
  have hnr : o3.nextRser = s.data.outbound.nextRser := by
    unfold Outbound.retainPacket at hr
    rw [if_neg hlen] at hr
    simp only [Option.some.injEq] at hr
    rw [← hr]; exact hU2.nextRser
  refine ⟨if isPub then { s2.setOutbound o3 with rt := { s2.rt with sendQuota := s2.rt.sendQuota - 1 } } else s2.setOutbound o3, ?_, ?_⟩
  · unfold Session.retain
    rw [hr]
    cases isPub <;> rfl
  · have hdata : ∀ b : Bool, (if b then { s2.setOutbound o3 with rt := { s2.rt with sendQuota := s2.rt.sendQuota - 1 } }
        else s2.setOutbound o3).data.outbound = o3 := by
      intro b; cases b <;> rfl
    have hpid : s2.data.packetId = s.alloc.1.data.packetId := by
      rw [← hs2, Session.encode_fst]; rfl
    refine ⟨hid.symm, ?_, ?_, ?_, ?_, ?_, ?_, ?_, ?_, ?_, ?_, ?_, ?_, ?_, ?_⟩
    · rw [hdata]
      refine ⟨_, hret, rfl, rfl, rfl, rfl, ?_⟩
      simp only [Outbound.retainedPacket]
      rw [r4]; exact hslice
    · rw [hdata, hret]
      intro e he
      have := List.append_cancel_left he
      simp only [List.cons.injEq, and_true] at this
      rw [← this]
      exact ⟨Nat.le_add_right _ _, b4⟩
    · rw [hdata, r3, hU2.entries, hU2.nextSer]
    · rw [hdata, r2, hU2.contents, hslice]
    · rw [hdata]; exact hU2.keeps.trans (Keeps.retainPacket hr)
    · rw [hdata, r6]; exact hU2.control
    · rw [hdata, r5]; exact hU2.release
    · rw [hdata, r7, hU2.nextSer]
    · rw [hdata]; exact hnr
    · cases isPub
      · exact hU2.rt
      · simp only [if_true]; rw [hU2.rt]
    · rw [Session.eq_with_data_rt]
      have := (Session.eq_with_data (s := s) (s' := s2)).mp hU2.outer
      cases isPub <;> exact ⟨this.1, this.2.1, this.2.2.2.1, this.2.2.2.2.1, this.2.2.2.2.2.1, this.2.2.2.2.2.2.1,
        this.2.2.2.2.2.2.2.1, this.2.2.2.2.2.2.2.2⟩
    · have := (SessionData.eq_with_arena (d := s.data) (d' := s2.data)).mp hU2.data
      have hd : ∀ b : Bool, (if b then { s2.setOutbound o3 with rt := { s2.rt with sendQuota := s2.rt.sendQuota - 1 } }
          else s2.setOutbound o3).data = { s2.data with outbound := o3 } := by
        intro b; cases b <;> rfl
      rw [hd]
      cases hd2 : s2.data
      cases hd1 : s.data
      rw [hd2, hd1] at this
      rw [hd2] at hpid
      simp only at this hpid
      simp only [SessionData.mk.injEq, true_and]
      exact ⟨hpid, this⟩
    · rw [hdata]; exact r1
    · rw [hdata, r4]; exact hU2.cap

theorem Session.Enqueued.generation {s s' : Session} {id : Nat} {pkt : Bytes} {isPub : Bool}
    (h : s.Enqueued s' id pkt isPub) : s'.data.generation = s.data.generation := by
  have := h.data; rw [this]

theorem Session.Enqueued.retained_length {s s' : Session} {id : Nat} {pkt : Bytes} {isPub : Bool}
    (h : s.Enqueued s' id pkt isPub) : s'.data.outbound.retained.length = s.data.outbound.retained.length + 1 := by
  have := congrArg List.length h.entries
  simpa [Outbound.meta] using this

/-! ### The machine: `afterFlush` for the three requests -/

theorem Session.alloc_outbound (s : Session) : s.alloc.1.data.outbound = s.data.outbound := by
  rw [Session.alloc_fst]; exact nextPacketId_outbound s.data

theorem Session.alloc_rt (s : Session) : s.alloc.1.rt = s.rt := by rw [Session.alloc_fst]

theorem Session.encode_rt {ε : Type} (s : Session) (enc : Nat → (Nat → Nat → Bytes) → Except ε (Nat × Bytes)) :
    (s.encode enc).1.rt = s.rt := by rw [Session.encode_fst]; rfl

theorem Session.encode_snd_eq {ε : Type} (s : Session) (enc : Nat → (Nat → Nat → Bytes) → Except ε (Nat × Bytes))
    (ha : s.data.outbound.ArenaInv) :
    (s.encode enc).2 =
      match enc s.data.outbound.scratchLen s.data.outbound.scratchView with
      | .error e => .error e
      | .ok (off, pkt) => .ok (s.data.outbound.usedAfterCompact + off, pkt.length) := by
  rw [Session.encode_snd]; exact encodeAt_snd _ _ ha

theorem Session.alloc_encode_snd_eq {ε : Type} (s : Session) (enc : Nat → (Nat → Nat → Bytes) → Except ε (Nat × Bytes))
    (ha : s.data.outbound.ArenaInv) :
    (s.alloc.1.encode enc).2 =
      match enc s.data.outbound.scratchLen s.data.outbound.scratchView with
      | .error e => .error e
      | .ok (off, pkt) => .ok (s.data.outbound.usedAfterCompact + off, pkt.length) := by
  rw [Session.encode_snd, Session.alloc_outbound]; exact encodeAt_snd _ _ ha

theorem canPublishS_alloc (s : Session) (rt : Runtime) (q : Nat) :
    canPublishS s.alloc.1.data rt q = canPublishS s.data rt q := by
  unfold canPublishS
  rw [Session.alloc_outbound]

theorem World.live_with_sess (w : World) (s : Session) : ({ w with sess := s } : World).live = w.live := rfl

theorem retainedFull_of_can {d : SessionData} {rt : Runtime} {q : Nat} (hq : 0 < q) (h : canPublishS d rt q = true) :
    d.outbound.retainedFull = false ∧ rt.sendQuota ≠ 0 := by
  unfold canPublishS at h
  rw [if_neg (by omega)] at h
  simp only [Outbound.canRetain, Bool.and_eq_true, ne_eq, decide_eq_true_eq] at h
  refine ⟨?_, h.1⟩
  simp only [Outbound.retainedFull, decide_eq_false_iff_not]
  omega

theorem effectiveQos_le_two (m : Option Nat) (dg : Bool) (q : Nat) (h : q ≤ 2) : effectiveQos m dg q ≤ 2 := by
  unfold effectiveQos
  split
  · split
    · rename_i hc; simp at hc; omega
    · exact h
  · exact h

/-- The error of a request whose packet could not be encoded into the scratch space (`toErr` of the
encoder's error) or was encoded but exceeds the broker's Maximum Packet Size. -/
def refusalOfEncoding {ε : Type} (toErr : ε → Err) : Except ε (Nat × Bytes) → Err
  | .error x => toErr x
  | .ok _ => .packetTooLarge

/-- The common tail of publish (QoS above 0), subscribe and unsubscribe once a retained slot is known
to be free and the identifier `w.sess.alloc.2` has been taken: encode into the scratch space, check the
size against the broker's Maximum Packet Size, retain, go on to the second flush. `gen` is how the
operation reads the session generation for its handle. -/
def World.enqTail {ε : Type} (fuel : Nat) (w : World) (name : String) (toErr : ε → Err) (isPub : Bool)
    (kind : OpKind) (gen : Session → Session → Nat)
    (enc : Nat → (Nat → Nat → Bytes) → Except ε (Nat × Bytes)) : World :=
  let o := w.sess.data.outbound
  let s2 := (w.sess.alloc.1.encode enc).1
  match enc o.scratchLen o.scratchView with
  | .error e => ({ w with sess := s2 }).finishErr name (toErr e)
  | .ok (off, pkt) =>
    if w.sess.rt.packetTooLarge pkt.length = true then ({ w with sess := s2 }).finishErr name .packetTooLarge
    else match s2.retain w.sess.alloc.2 (o.usedAfterCompact + off) pkt.length isPub with
      | none => ({ w with sess := s2 }).finishErr name .inflightExhausted
      | some s3 => flushLoop fuel { w with sess := s3 } (.post name
          { kind := kind, id := w.sess.alloc.2, generation := gen s2 s3 })

/-- What the common tail does: either the encoding succeeds within the broker's Maximum Packet Size,
and then the request is retained and the operation goes on to its second flush; or it ends with an
error and nothing but the counter and the arena layout has changed. (The `InflightExhausted` exit after
`retain_packet` is dead code: the free slot was checked before.) -/
theorem World.enqTail_outcome {ε : Type} (fuel : Nat) (w : World) (name : String) (toErr : ε → Err) (isPub : Bool)
    (kind : OpKind) (gen : Session → Session → Nat)
    (enc : Nat → (Nat → Nat → Bytes) → Except ε (Nat × Bytes)) (he : EncOk enc)
    (ha : w.sess.data.outbound.ArenaInv) (hfree : w.sess.data.outbound.retainedFull = false)
    (hgen : ∀ s3 id off len, (w.sess.alloc.1.encode enc).1.retain id off len isPub = some s3 →
      gen (w.sess.alloc.1.encode enc).1 s3 = w.sess.data.generation) :
    (∃ off pkt s', enc w.sess.data.outbound.scratchLen w.sess.data.outbound.scratchView = .ok (off, pkt) ∧
        w.sess.rt.packetTooLarge pkt.length = false ∧
        w.enqTail fuel name toErr isPub kind gen enc = flushLoop fuel { w with sess := s' } (.post name
          { kind := kind, id := w.sess.alloc.2, generation := w.sess.data.generation }) ∧
        w.sess.Enqueued s' w.sess.alloc.2 pkt isPub) ∨
    ((¬ ∃ off pkt, enc w.sess.data.outbound.scratchLen w.sess.data.outbound.scratchView = .ok (off, pkt) ∧
        w.sess.rt.packetTooLarge pkt.length = false) ∧
      ∃ s' e, w.enqTail fuel name toErr isPub kind gen enc = ({ w with sess := s' }).finishErr name e ∧
        w.sess.Untouched s' ∧ s'.data.packetId = w.sess.alloc.1.data.packetId ∧
        e = refusalOfEncoding toErr (enc w.sess.data.outbound.scratchLen w.sess.data.outbound.scratchView)) := by
  have hU := (Session.Untouched.alloc w.sess ha).encode enc he
  have hpid : (w.sess.alloc.1.encode enc).1.data.packetId = w.sess.alloc.1.data.packetId := by
    rw [Session.encode_fst]; rfl
  unfold World.enqTail
  simp only []
  cases hres : enc w.sess.data.outbound.scratchLen w.sess.data.outbound.scratchView with
  | error x =>
    right
    exact ⟨(by rintro ⟨off, pkt, h, _⟩; cases h), _, _, rfl, hU, hpid, rfl⟩
  | ok rr =>
    obtain ⟨off, pkt⟩ := rr
    simp only []
    by_cases hbig : w.sess.rt.packetTooLarge pkt.length = true
    · right
      rw [if_pos hbig]
      refine ⟨?_, _, _, rfl, hU, hpid, rfl⟩
      rintro ⟨off', pkt', h, hsz⟩
      simp only [Except.ok.injEq, Prod.mk.injEq] at h
      rw [← h.2, hbig] at hsz; cases hsz
    · left
      rw [if_neg hbig]
      obtain ⟨_, s3, hs3, hE⟩ := Session.enqueue_step w.sess enc he ha off pkt hres hfree isPub
      refine ⟨off, pkt, s3, rfl, by simpa using hbig, ?_, hE⟩
      rw [hs3]
      simp only []
      rw [hgen s3 _ _ _ hs3]

/-- `retain_packet` does not touch the generation. -/
theorem Session.retain_generation {s s3 : Session} {id off len : Nat} {isPub : Bool}
    (h : s.retain id off len isPub = some s3) : s3.data.generation = s.data.generation := by
  unfold Session.retain at h
  split at h
  · cases h
  · simp only [Option.some.injEq] at h
    rw [← h]
    cases isPub <;> rfl

/-- The header of the PUBLISH that `publish` encodes. -/
def pubHeader (r : PubReq) (q : Nat) (id : Option Nat) : PublishHeader :=
  { topic := r.topic, packetId := id, props := r.props, retain := r.retain, qos := q, dup := false }

/-- `publish` with an effective QoS above 0, after its first flush: the three checks, then the tail. -/
theorem publishPre_tree_pos (fuel : Nat) (w : World) (r : PubReq) (ha : w.sess.data.outbound.ArenaInv)
    (hq0 : 0 < effectiveQos w.sess.rt.maxQos w.sess.downgrade r.qos) :
    afterFlush (fuel + 1) w (.publishPre r) =
      let q := effectiveQos w.sess.rt.maxQos w.sess.downgrade r.qos
      if r.props.validFor .Publish = false then w.finishErr "publish" .invalidRequest
      else if w.sess.data.outbound.retainedFull = true then
        ({ w with sess := w.sess.alloc.1 }).finishErr "publish" .inflightExhausted
      else if (w.live && canPublishS w.sess.data w.sess.rt q) = false then
        ({ w with sess := w.sess.alloc.1 }).finishErr "publish" .notReady
      else w.enqTail fuel "publish" pubErr true (if q = 2 then .pub2 else .pub1) (fun _ s3 => s3.data.generation)
        (fun cap fill => encodePublishWithOffset cap (pubHeader r q (some w.sess.alloc.2)) r.payload fill) := by
  unfold afterFlush World.enqTail pubHeader
  simp only [Bool.not_eq_true', Session.alloc_outbound, canPublishS_alloc, Session.encode_rt, Session.alloc_rt,
    Session.alloc_encode_snd_eq _ _ ha, World.live_with_sess]
  rw [if_pos hq0]
  generalize encodePublishWithOffset w.sess.data.outbound.scratchLen
    { topic := r.topic, packetId := some w.sess.alloc.2, props := r.props, retain := r.retain,
      qos := effectiveQos w.sess.rt.maxQos w.sess.downgrade r.qos, dup := false } r.payload
    w.sess.data.outbound.scratchView = res
  cases res <;> rfl

/-- `publish` with effective QoS 0, after its first flush. -/
theorem publishPre_tree_zero (fuel : Nat) (w : World) (r : PubReq) (ha : w.sess.data.outbound.ArenaInv)
    (hq : effectiveQos w.sess.rt.maxQos w.sess.downgrade r.qos = 0) :
    afterFlush (fuel + 1) w (.publishPre r) =
      let o := w.sess.data.outbound
      let enc := fun cap fill => encodePublishWithOffset cap (pubHeader r 0 none) r.payload fill
      let s2 := (w.sess.encode enc).1
      if r.props.validFor .Publish = false then w.finishErr "publish" .invalidRequest
      else if (w.live && canPublishS w.sess.data w.sess.rt 0) = false then w.finishErr "publish" .notReady
      else match enc o.scratchLen o.scratchView with
        | .error e => ({ w with sess := s2 }).finishErr "publish" (pubErr e)
        | .ok (off, pkt) =>
          if w.sess.rt.packetTooLarge pkt.length = true then ({ w with sess := s2 }).finishErr "publish" .packetTooLarge
          else doLocalWrite fuel { w with sess := s2 } 1
            (s2.data.outbound.retainedPacket (o.usedAfterCompact + off) pkt.length) := by
  unfold afterFlush pubHeader
  simp only [Bool.not_eq_true', Session.encode_rt, Session.encode_snd_eq _ _ ha, hq]
  rw [if_neg (show ¬ (0 > 0) from by omega)]
  generalize encodePublishWithOffset w.sess.data.outbound.scratchLen
    { topic := r.topic, packetId := none, props := r.props, retain := r.retain, qos := 0, dup := false } r.payload
    w.sess.data.outbound.scratchView = res
  cases res <;> rfl

/-- `subscribe` after its first flush. -/
theorem subPre_tree (fuel : Nat) (w : World) (r : SubReq) (ha : w.sess.data.outbound.ArenaInv) :
    afterFlush (fuel + 1) w (.subPre r) =
      if w.sess.data.outbound.retainedFull = true then w.finishErr "subscribe" .inflightExhausted
      else w.enqTail fuel "subscribe" Err.ofSer false .sub (fun s2 _ => s2.data.generation)
        (fun cap _ => encodeWithOffset cap (subscribeChunks w.sess.alloc.2 (.slice r.props) r.topics)
          MT_Subscribe FLAGS_Subscribe) := by
  unfold afterFlush World.enqTail
  simp only [Session.encode_rt, Session.alloc_rt, Session.alloc_encode_snd_eq _ _ ha]
  generalize encodeWithOffset w.sess.data.outbound.scratchLen
    (subscribeChunks w.sess.alloc.2 (.slice r.props) r.topics) MT_Subscribe FLAGS_Subscribe = res
  cases res <;> rfl

/-- `unsubscribe` after its first flush. -/
theorem unsubPre_tree (fuel : Nat) (w : World) (r : UnsubReq) (ha : w.sess.data.outbound.ArenaInv) :
    afterFlush (fuel + 1) w (.unsubPre r) =
      if w.sess.data.outbound.retainedFull = true then w.finishErr "unsubscribe" .inflightExhausted
      else w.enqTail fuel "unsubscribe" Err.ofSer false .unsub (fun s2 _ => s2.data.generation)
        (fun cap _ => encodeWithOffset cap (unsubscribeChunks w.sess.alloc.2 (.slice r.props) r.topics)
          MT_Unsubscribe FLAGS_Unsubscribe) := by
  unfold afterFlush World.enqTail
  simp only [Session.encode_rt, Session.alloc_rt, Session.alloc_encode_snd_eq _ _ ha]
  generalize encodeWithOffset w.sess.data.outbound.scratchLen
    (unsubscribeChunks w.sess.alloc.2 (.slice r.props) r.topics) MT_Unsubscribe FLAGS_Unsubscribe = res
  cases res <;> rfl

/-! ### Exactly when a request is accepted, and what happens otherwise -/

/-- What `encode_publish` returns for the request `r` in world `w`: the PUBLISH with the effective QoS —
and, above QoS 0, the identifier the allocator returns — encoded into the scratch space of the arena. -/
def publishEncoding (w : World) (r : PubReq) : Except PubEncErr (Nat × Bytes) :=
  let q := effectiveQos w.sess.rt.maxQos w.sess.downgrade r.qos
  encodePublishWithOffset w.sess.data.outbound.scratchLen
    (pubHeader r q (if 0 < q then some w.sess.alloc.2 else none)) r.payload w.sess.data.outbound.scratchView

/-- The conditions under which `publish` (after its first flush) accepts the request: the properties are
valid for PUBLISH, the connection is live, `can_publish` holds for the effective QoS (above QoS 0: send
quota left, a retained slot free, five bytes of scratch space), the packet can be encoded into the scratch
space, and it is within the broker's Maximum Packet Size. -/
def PublishAccepted (w : World) (r : PubReq) : Prop :=
  r.props.validFor .Publish = true ∧ w.live = true ∧
  canPublishS w.sess.data w.sess.rt (effectiveQos w.sess.rt.maxQos w.sess.downgrade r.qos) = true ∧
  ∃ off pkt, publishEncoding w r = .ok (off, pkt) ∧ w.sess.rt.packetTooLarge pkt.length = false

/-- The error `publish` returns when it refuses, in the order of the checks. -/
def publishRefusal (w : World) (r : PubReq) : Err :=
  let q := effectiveQos w.sess.rt.maxQos w.sess.downgrade r.qos
  if r.props.validFor .Publish = false then .invalidRequest
  else if 0 < q ∧ w.sess.data.outbound.retainedFull = true then .inflightExhausted
  else if (w.live && canPublishS w.sess.data w.sess.rt q) = false then .notReady
  else refusalOfEncoding pubErr (publishEncoding w r)

theorem publishPre_outcome (fuel : Nat) (w : World) (r : PubReq) (ha : w.sess.data.outbound.ArenaInv) :
    let q := effectiveQos w.sess.rt.maxQos w.sess.downgrade r.qos
    (PublishAccepted w r ∧ 0 < q ∧ ∃ off pkt s', publishEncoding w r = .ok (off, pkt) ∧
      afterFlush (fuel + 1) w (.publishPre r) = flushLoop fuel { w with sess := s' } (.post "publish"
        { kind := if q = 2 then .pub2 else .pub1, id := w.sess.alloc.2, generation := w.sess.data.generation }) ∧
      w.sess.Enqueued s' w.sess.alloc.2 pkt true) ∨
    (PublishAccepted w r ∧ q = 0 ∧ ∃ off pkt s', publishEncoding w r = .ok (off, pkt) ∧
      afterFlush (fuel + 1) w (.publishPre r) = doLocalWrite fuel { w with sess := s' } 1 pkt ∧
      w.sess.Untouched s' ∧ s'.data.packetId = w.sess.data.packetId) ∨
    (¬ PublishAccepted w r ∧ ∃ s',
      afterFlush (fuel + 1) w (.publishPre r) = ({ w with sess := s' }).finishErr "publish" (publishRefusal w r) ∧
      w.sess.Untouched s' ∧
      s'.data.packetId = if r.props.validFor .Publish = true ∧ 0 < q then w.sess.alloc.1.data.packetId
        else w.sess.data.packetId) := by
  intro q
  by_cases hq0 : 0 < q
  · -- effective QoS 1 or 2
    have hE : publishEncoding w r = encodePublishWithOffset w.sess.data.outbound.scratchLen
        (pubHeader r q (some w.sess.alloc.2)) r.payload w.sess.data.outbound.scratchView := by
      unfold publishEncoding; simp only [q, if_pos hq0]
    rw [publishPre_tree_pos fuel w r ha hq0]
    simp only []
    by_cases h1 : r.props.validFor .Publish = false
    · right; right
      have he : publishRefusal w r = .invalidRequest := by unfold publishRefusal; simp only [if_pos h1]
      refine ⟨fun hacc => (by rw [hacc.1] at h1; cases h1), w.sess, ?_, Session.Untouched.refl _ ha, ?_⟩
      · rw [if_pos h1, he]
      · rw [if_neg (by rw [h1]; simp)]
    · have h1' : r.props.validFor .Publish = true := by simpa using h1
      rw [if_neg h1]
      by_cases h2 : w.sess.data.outbound.retainedFull = true
      · right; right
        have he : publishRefusal w r = .inflightExhausted := by
          unfold publishRefusal; simp only [if_neg h1]; rw [if_pos ⟨hq0, h2⟩]
        refine ⟨fun hacc => ?_, w.sess.alloc.1, ?_, Session.Untouched.alloc _ ha, ?_⟩
        · rw [(retainedFull_of_can hq0 hacc.2.2.1).1] at h2; cases h2
        · rw [if_pos h2, he]
        · rw [if_pos ⟨h1', hq0⟩]
      · rw [if_neg h2]
        by_cases h3 : (w.live && canPublishS w.sess.data w.sess.rt q) = false
        · right; right
          have he : publishRefusal w r = .notReady := by
            unfold publishRefusal; simp only [if_neg h1]; rw [if_neg (fun h => h2 h.2), if_pos h3]
          refine ⟨fun hacc => ?_, w.sess.alloc.1, ?_, Session.Untouched.alloc _ ha, ?_⟩
          · rw [hacc.2.1, hacc.2.2.1] at h3; cases h3
          · rw [if_pos h3, he]
          · rw [if_pos ⟨h1', hq0⟩]
        · rw [if_neg h3]
          have h3' : w.live = true ∧ canPublishS w.sess.data w.sess.rt q = true := by
            simpa using h3
          rcases World.enqTail_outcome fuel w "publish" pubErr true (if q = 2 then .pub2 else .pub1)
            (fun _ s3 => s3.data.generation)
            (fun cap fill => encodePublishWithOffset cap (pubHeader r q (some w.sess.alloc.2)) r.payload fill)
            (EncOk_encodePublish _ _) ha (by simpa using h2)
            (fun s3 id off len h => by
              rw [Session.retain_generation h]
              exact ((Session.Untouched.alloc w.sess ha).encode _ (EncOk_encodePublish _ _)).generation)
            with ⟨off, pkt, s', a1, a2, a3, a4⟩ | ⟨b1, s', e, b2, b3, b4, b5⟩
          · left
            exact ⟨⟨h1', h3'.1, h3'.2, off, pkt, hE.trans a1, a2⟩, hq0, off, pkt, s', hE.trans a1, a3, a4⟩
          · right; right
            have he : publishRefusal w r = e := by
              unfold publishRefusal; simp only [if_neg h1]; rw [if_neg (fun h => h2 h.2), if_neg h3, hE, b5]
            refine ⟨fun hacc => ?_, s', ?_, b3, ?_⟩
            · obtain ⟨_, _, _, off, pkt, c1, c2⟩ := hacc
              exact b1 ⟨off, pkt, hE.symm.trans c1, c2⟩
            · rw [b2, he]
            · rw [if_pos ⟨h1', hq0⟩, b4]
  · -- effective QoS 0
    have hq : q = 0 := by omega
    have hqe : effectiveQos w.sess.rt.maxQos w.sess.downgrade r.qos = 0 := hq
    have hE : publishEncoding w r = encodePublishWithOffset w.sess.data.outbound.scratchLen
        (pubHeader r 0 none) r.payload w.sess.data.outbound.scratchView := by
      unfold publishEncoding; simp only [hqe, if_neg (show ¬ (0 < 0) from by omega)]
    have hnoalloc : ∀ c : Prop, ¬ (c ∧ 0 < q) := fun c h => hq0 h.2
    rw [publishPre_tree_zero fuel w r ha hqe]
    simp only []
    by_cases h1 : r.props.validFor .Publish = false
    · right; right
      have he : publishRefusal w r = .invalidRequest := by unfold publishRefusal; simp only [if_pos h1]
      refine ⟨fun hacc => (by rw [hacc.1] at h1; cases h1), w.sess, ?_, Session.Untouched.refl _ ha, ?_⟩
      · rw [if_pos h1, he]
      · rw [if_neg (hnoalloc _)]
    · have h1' : r.props.validFor .Publish = true := by simpa using h1
      rw [if_neg h1]
      by_cases h3 : (w.live && canPublishS w.sess.data w.sess.rt 0) = false
      · right; right
        have he : publishRefusal w r = .notReady := by
          unfold publishRefusal; simp only [if_neg h1, hqe]
          rw [if_neg (fun h => by omega), if_pos h3]
        refine ⟨fun hacc => ?_, w.sess, ?_, Session.Untouched.refl _ ha, ?_⟩
        · have := hacc.2.2.1; rw [hqe] at this; rw [hacc.2.1, this] at h3; cases h3
        · rw [if_pos h3, he]
        · rw [if_neg (hnoalloc _)]
      · rw [if_neg h3]
        have h3' : w.live = true ∧ canPublishS w.sess.data w.sess.rt 0 = true := by
          simpa using h3
        have hU := (Session.Untouched.refl w.sess ha).encode
          (fun cap fill => encodePublishWithOffset cap (pubHeader r 0 none) r.payload fill) (EncOk_encodePublish _ _)
        have hpid : (w.sess.encode (fun cap fill => encodePublishWithOffset cap (pubHeader r 0 none) r.payload fill)).1.data.packetId
            = w.sess.data.packetId := by rw [Session.encode_fst]; rfl
        have hrefE : publishRefusal w r = refusalOfEncoding pubErr (publishEncoding w r) := by
          unfold publishRefusal; simp only [if_neg h1, hqe]
          rw [if_neg (fun h => by omega), if_neg h3]
        cases hres : encodePublishWithOffset w.sess.data.outbound.scratchLen (pubHeader r 0 none) r.payload
            w.sess.data.outbound.scratchView with
        | error x =>
          right; right
          simp only []
          refine ⟨fun hacc => ?_, _, ?_, hU, ?_⟩
          · obtain ⟨_, _, _, off, pkt, c1, _⟩ := hacc
            rw [hE, hres] at c1; cases c1
          · rw [hrefE, hE, hres]; rfl
          · rw [if_neg (hnoalloc _)]; exact hpid
        | ok rr =>
          obtain ⟨off, pkt⟩ := rr
          simp only []
          by_cases hbig : w.sess.rt.packetTooLarge pkt.length = true
          · right; right
            rw [if_pos hbig]
            refine ⟨fun hacc => ?_, _, ?_, hU, ?_⟩
            · obtain ⟨_, _, _, off', pkt', c1, c2⟩ := hacc
              rw [hE, hres] at c1
              simp only [Except.ok.injEq, Prod.mk.injEq] at c1
              rw [← c1.2, hbig] at c2; cases c2
            · rw [hrefE, hE, hres]; rfl
            · rw [if_neg (hnoalloc _)]; exact hpid
          · right; left
            rw [if_neg hbig]
            have hbig' : w.sess.rt.packetTooLarge pkt.length = false := by simpa using hbig
            obtain ⟨_, _, b3, _, _⟩ := encodeAt_bytes w.sess.data.outbound
              (fun cap fill => encodePublishWithOffset cap (pubHeader r 0 none) r.payload fill) ha
              (EncOk_encodePublish _ _) off pkt hres
            have hb3 : (w.sess.encode (fun cap fill => encodePublishWithOffset cap (pubHeader r 0 none) r.payload fill)).1.data.outbound.retainedPacket
                (w.sess.data.outbound.usedAfterCompact + off) pkt.length = pkt := by
              rw [Session.encode_fst]; exact b3
            refine ⟨⟨h1', h3'.1, (by rw [hqe]; exact h3'.2), off, pkt, hE.trans hres, hbig'⟩, hq, off, pkt, _,
              hE.trans hres, ?_, hU, hpid⟩
            rw [hb3]

/-- What `encode_packet` returns for the SUBSCRIBE of request `r` in world `w`: the packet with the identifier
the allocator returns, encoded into the scratch space of the arena. -/
def subscribeEncoding (w : World) (r : SubReq) : Except SerErr (Nat × Bytes) :=
  encodeWithOffset w.sess.data.outbound.scratchLen (subscribeChunks w.sess.alloc.2 (.slice r.props) r.topics)
    MT_Subscribe FLAGS_Subscribe

/-- The conditions under which `subscribe` (after its first flush) accepts the request: a retained slot is
free, the packet can be encoded into the scratch space, and it is within the broker's Maximum Packet Size. -/
def SubscribeAccepted (w : World) (r : SubReq) : Prop :=
  w.sess.data.outbound.retainedFull = false ∧
  ∃ off pkt, subscribeEncoding w r = .ok (off, pkt) ∧ w.sess.rt.packetTooLarge pkt.length = false

/-- The error `subscribe` returns when it refuses, in the order of the checks. -/
def subscribeRefusal (w : World) (r : SubReq) : Err :=
  if w.sess.data.outbound.retainedFull = true then .inflightExhausted
  else refusalOfEncoding Err.ofSer (subscribeEncoding w r)

theorem subPre_outcome (fuel : Nat) (w : World) (r : SubReq) (ha : w.sess.data.outbound.ArenaInv) :
    (SubscribeAccepted w r ∧ ∃ off pkt s', subscribeEncoding w r = .ok (off, pkt) ∧
      afterFlush (fuel + 1) w (.subPre r) = flushLoop fuel { w with sess := s' } (.post "subscribe"
        { kind := .sub, id := w.sess.alloc.2, generation := w.sess.data.generation }) ∧
      w.sess.Enqueued s' w.sess.alloc.2 pkt false) ∨
    (¬ SubscribeAccepted w r ∧ ∃ s',
      afterFlush (fuel + 1) w (.subPre r) = ({ w with sess := s' }).finishErr "subscribe" (subscribeRefusal w r) ∧
      w.sess.Untouched s' ∧
      s'.data.packetId = if w.sess.data.outbound.retainedFull = true then w.sess.data.packetId
        else w.sess.alloc.1.data.packetId) := by
  rw [subPre_tree fuel w r ha]
  by_cases h2 : w.sess.data.outbound.retainedFull = true
  · right
    have he : subscribeRefusal w r = .inflightExhausted := by unfold subscribeRefusal; rw [if_pos h2]
    refine ⟨fun hacc => (by rw [hacc.1] at h2; cases h2), w.sess, ?_, Session.Untouched.refl _ ha, ?_⟩
    · rw [if_pos h2, he]
    · rw [if_pos h2]
  · rw [if_neg h2]
    have h2' : w.sess.data.outbound.retainedFull = false := by simpa using h2
    rcases World.enqTail_outcome fuel w "subscribe" Err.ofSer false .sub (fun s2 _ => s2.data.generation)
      (fun cap _ => encodeWithOffset cap (subscribeChunks w.sess.alloc.2 (.slice r.props) r.topics) MT_Subscribe FLAGS_Subscribe)
      (EncOk_encodeWithOffset _ _ _) ha h2'
      (fun s3 id off len _ => ((Session.Untouched.alloc w.sess ha).encode _ (EncOk_encodeWithOffset _ _ _)).generation)
      with ⟨off, pkt, s', a1, a2, a3, a4⟩ | ⟨b1, s', e, b2, b3, b4, b5⟩
    · left
      exact ⟨⟨h2', off, pkt, a1, a2⟩, off, pkt, s', a1, a3, a4⟩
    · right
      have he : subscribeRefusal w r = e := by
        unfold subscribeRefusal; rw [if_neg h2, b5]; rfl
      refine ⟨fun hacc => b1 hacc.2, s', ?_, b3, ?_⟩
      · rw [b2, he]
      · rw [if_neg h2, b4]

/-- What `encode_packet` returns for the UNSUBSCRIBE of request `r` in world `w`: the packet with the identifier
the allocator returns, encoded into the scratch space of the arena. -/
def unsubscribeEncoding (w : World) (r : UnsubReq) : Except SerErr (Nat × Bytes) :=
  encodeWithOffset w.sess.data.outbound.scratchLen (unsubscribeChunks w.sess.alloc.2 (.slice r.props) r.topics)
    MT_Unsubscribe FLAGS_Unsubscribe

/-- The conditions under which `unsubscribe` (after its first flush) accepts the request: a retained slot is
free, the packet can be encoded into the scratch space, and it is within the broker's Maximum Packet Size. -/
def UnsubscribeAccepted (w : World) (r : UnsubReq) : Prop :=
  w.sess.data.outbound.retainedFull = false ∧
  ∃ off pkt, unsubscribeEncoding w r = .ok (off, pkt) ∧ w.sess.rt.packetTooLarge pkt.length = false

/-- The error `unsubscribe` returns when it refuses, in the order of the checks. -/
def unsubscribeRefusal (w : World) (r : UnsubReq) : Err :=
  if w.sess.data.outbound.retainedFull = true then .inflightExhausted
  else refusalOfEncoding Err.ofSer (unsubscribeEncoding w r)

theorem unsubPre_outcome (fuel : Nat) (w : World) (r : UnsubReq) (ha : w.sess.data.outbound.ArenaInv) :
    (UnsubscribeAccepted w r ∧ ∃ off pkt s', unsubscribeEncoding w r = .ok (off, pkt) ∧
      afterFlush (fuel + 1) w (.unsubPre r) = flushLoop fuel { w with sess := s' } (.post "unsubscribe"
        { kind := .unsub, id := w.sess.alloc.2, generation := w.sess.data.generation }) ∧
      w.sess.Enqueued s' w.sess.alloc.2 pkt false) ∨
    (¬ UnsubscribeAccepted w r ∧ ∃ s',
      afterFlush (fuel + 1) w (.unsubPre r) = ({ w with sess := s' }).finishErr "unsubscribe" (unsubscribeRefusal w r) ∧
      w.sess.Untouched s' ∧
      s'.data.packetId = if w.sess.data.outbound.retainedFull = true then w.sess.data.packetId
        else w.sess.alloc.1.data.packetId) := by
  rw [unsubPre_tree fuel w r ha]
  by_cases h2 : w.sess.data.outbound.retainedFull = true
  · right
    have he : unsubscribeRefusal w r = .inflightExhausted := by unfold unsubscribeRefusal; rw [if_pos h2]
    refine ⟨fun hacc => (by rw [hacc.1] at h2; cases h2), w.sess, ?_, Session.Untouched.refl _ ha, ?_⟩
    · rw [if_pos h2, he]
    · rw [if_pos h2]
  · rw [if_neg h2]
    have h2' : w.sess.data.outbound.retainedFull = false := by simpa using h2
    rcases World.enqTail_outcome fuel w "unsubscribe" Err.ofSer false .unsub (fun s2 _ => s2.data.generation)
      (fun cap _ => encodeWithOffset cap (unsubscribeChunks w.sess.alloc.2 (.slice r.props) r.topics) MT_Unsubscribe FLAGS_Unsubscribe)
      (EncOk_encodeWithOffset _ _ _) ha h2'
      (fun s3 id off len _ => ((Session.Untouched.alloc w.sess ha).encode _ (EncOk_encodeWithOffset _ _ _)).generation)
      with ⟨off, pkt, s', a1, a2, a3, a4⟩ | ⟨b1, s', e, b2, b3, b4, b5⟩
    · left
      exact ⟨⟨h2', off, pkt, a1, a2⟩, off, pkt, s', a1, a3, a4⟩
    · right
      have he : unsubscribeRefusal w r = e := by
        unfold unsubscribeRefusal; rw [if_neg h2, b5]; rfl
      refine ⟨fun hacc => b1 hacc.2, s', ?_, b3, ?_⟩
      · rw [b2, he]
      · rw [if_neg h2, b4]

/-! ### Identifiers and properties of an accepted request -/

theorem Properties.validFor_items {ps : Properties} {c : Ctx} (henc : ps.isEncoded = false)
    (h : ps.validFor c = true) : ∀ p ∈ ps.items, p.validFor c = true := by
  cases ps with
  | slice l =>
    simpa [Properties.validFor, Properties.iter, Properties.items, List.all_eq_true] using h
  | encoded blk => simp [Properties.isEncoded] at henc
  | withCorrelation c0 l =>
    simpa [Properties.validFor, Properties.iter, Properties.items, List.all_eq_true] using h

/-- The identifier the allocator hands out is in 1..65535 and not in use. -/
theorem Session.alloc_fresh (s : Session) (h : s.data.IdInv) :
    1 ≤ s.alloc.2 ∧ s.alloc.2 ≤ 65535 ∧ s.alloc.2 ∉ s.data.outbound.usedIds ∧
    1 ≤ s.alloc.1.data.packetId ∧ s.alloc.1.data.packetId ≤ 65535 := by
  have hf := nextPacketId_fresh s.data h.pid h.out.retCap h.out.relCap
  simp only [] at hf
  obtain ⟨h1, h2, h3, h4, h5, h6, _⟩ := hf
  rw [Session.alloc_snd, Session.alloc_fst]
  refine ⟨h1, h2, ?_, h5, h6⟩
  rw [usedIds_mem]; simp [h3, h4]

theorem Session.Enqueued.idInv {s s' : Session} {id : Nat} {pkt : Bytes} {isPub : Bool}
    (hE : s.Enqueued s' id pkt isPub) (h : s.data.IdInv) (hfree : s.data.outbound.retainedFull = false) :
    s'.data.IdInv := by
  obtain ⟨f1, f2, f3, f4, f5⟩ := Session.alloc_fresh s h
  have hid := hE.ident
  -- a model arena with the same identifiers
  obtain ⟨o2, ho2⟩ : ∃ o2, s.data.outbound.retainPacket id 0 0 = some o2 := by
    unfold Outbound.retainPacket
    rw [if_neg (by simpa [Outbound.retainedFull] using hfree)]
    exact ⟨_, rfl⟩
  have hinv2 := IdInv_retainPacket h.out (by rw [hid]; exact f3) (by rw [hid]; omega) ho2
  have hret2 : o2.retained.map (·.id) = s.data.outbound.retained.map (·.id) ++ [id] := by
    unfold Outbound.retainPacket at ho2
    split at ho2
    · cases ho2
    · simp only [Option.some.injEq] at ho2; rw [← ho2]; simp
  have hrel2 : o2.release = s.data.outbound.release := by
    unfold Outbound.retainPacket at ho2
    split at ho2
    · cases ho2
    · simp only [Option.some.injEq] at ho2; rw [← ho2]
  have hret : s'.data.outbound.retained.map (·.id) = s.data.outbound.retained.map (·.id) ++ [id] := by
    have := congrArg (List.map (fun (t : Nat × Nat × SendState × Nat) => t.1)) hE.entries
    simpa [Outbound.meta, List.map_map, Function.comp_def] using this
  refine ⟨IdInv_of_same_ids hinv2 (by rw [hret, hret2]) (by rw [hE.release, hrel2]), ?_⟩
  have := hE.data
  rw [this]
  exact ⟨f4, f5⟩

/-! ### From the API call: an idle handle -/

/-- No keep-alive probe is due: `maybe_queue_pingreq` does nothing. -/
theorem Session.queuePing_idle (s : Session) (now : Nat) (h : ∀ np, s.rt.nextPing = some np → now < np) :
    s.queuePing now = .ok s := by
  unfold Session.queuePing
  simp only []
  cases hn : s.rt.nextPing with
  | none => simp
  | some np =>
    have := h np hn
    have hd : decide (now ≥ np) = false := by simp; omega
    simp only [hd]
    simp

/-- With no probe due and nothing to send, `flush_outbound` returns at once. -/
theorem flushLoop_idle (fuel : Nat) (w : World) (k : AfterFlush)
    (hka : ∀ np, w.sess.rt.nextPing = some np → w.now < np)
    (hnext : w.sess.data.outbound.nextStep = none) :
    flushLoop (fuel + 1) w k = afterFlush fuel w k := by
  unfold flushLoop
  simp only [World.maybeQueuePingreq, Session.queuePing_idle _ _ hka, hnext]

theorem live_conn {w : World} (h : w.live = true) : w.conn.isNone = false := by
  unfold World.live at h
  cases hc : w.conn with
  | none => rw [hc] at h; cases h
  | some c => rfl

/-- `publish` on an idle live handle (no suspended operation, no probe due, nothing queued to send): its
first `flush_outbound` returns at once and the call continues with the request. -/
theorem execDirective_publish_idle (w : World) (r : PubReq) (hlive : w.live = true) (hfut : w.fut = none)
    (hka : ∀ np, w.sess.rt.nextPing = some np → w.now < np)
    (hnext : w.sess.data.outbound.nextStep = none) :
    w.execDirective (.publish r) =
      afterFlush 3999 { w with wakes := 0, lastIoStarved := false } (.publishPre r) := by
  have hc := live_conn hlive
  have hcf : w.cancelFut = w := by unfold World.cancelFut; rw [hfut]; rfl
  have hpf : pollFuel = 3999 + 1 := rfl
  unfold World.execDirective World.startOp
  simp only [hc, hcf]
  have hl : ({ w with wakes := 0, lastIoStarved := false } : World).live = true := hlive
  simp only [hl]
  rw [hpf]
  exact flushLoop_idle 3999 _ _ hka hnext

theorem nextStepPrio_none {o : Outbound} {b : Bool} (h : o.nextStepPrio b = none) :
    o.control.find? (fun e => e.state.matchesPriority b) = none ∧
    o.release.find? (fun e => e.state.matchesPriority b) = none ∧
    o.retained.find? (fun e => e.state.matchesPriority b) = none := by
  unfold Outbound.nextStepPrio at h
  split at h
  · cases h
  · split at h
    · cases h
    · split at h
      · cases h
      · exact ⟨‹_›, ‹_›, ‹_›⟩

theorem find?_state_none {l l' : List RetainedPacket} (b : Bool) (hs : l'.map (·.state) = l.map (·.state))
    (h : l.find? (fun e => e.state.matchesPriority b) = none) :
    l'.find? (fun e => e.state.matchesPriority b) = none := by
  rw [List.find?_eq_none] at h ⊢
  intro x hx
  have hm : x.state ∈ l'.map (·.state) := List.mem_map_of_mem hx
  rw [hs] at hm
  obtain ⟨y, hy, hys⟩ := List.mem_map.mp hm
  have := h y hy
  rw [hys] at this
  exact this

/-- On a queue with nothing to send, the request just accepted is the next thing `flush_outbound` sends. -/
theorem nextStep_after_enqueue {s s' : Session} {id : Nat} {pkt : Bytes} {isPub : Bool}
    (hE : s.Enqueued s' id pkt isPub) (ha : s.data.outbound.ArenaInv) (hnext : s.data.outbound.nextStep = none)
    (e : RetainedPacket) (he : s'.data.outbound.retained = s.data.outbound.compact.retained ++ [e])
    (hst : e.state = .write 0) :
    s'.data.outbound.nextStep = some (.retained e.id e.offset e.len (.write 0)) := by
  have hp : s.data.outbound.nextStepPrio true = none ∧ s.data.outbound.nextStepPrio false = none := by
    unfold Outbound.nextStep at hnext
    split at hnext
    · cases hnext
    · exact ⟨‹_›, hnext⟩
  obtain ⟨t1, t2, t3⟩ := nextStepPrio_none hp.1
  obtain ⟨f1, f2, f3⟩ := nextStepPrio_none hp.2
  have hstates : s.data.outbound.compact.retained.map (·.state) = s.data.outbound.retained.map (·.state) := by
    have := (compact_spec _ ha).2.2.1
    have := congrArg (List.map (fun (t : Nat × Nat × SendState × Nat) => t.2.2.1)) this
    simpa [Outbound.meta, List.map_map, Function.comp_def] using this
  have ht3 := find?_state_none true hstates t3
  have hf3 := find?_state_none false hstates f3
  unfold Outbound.nextStep Outbound.nextStepPrio
  rw [hE.control, hE.release, he, t1, t2, f1, f2]
  simp only [List.find?_append, ht3, hf3, Option.none_or]
  simp [hst, SendState.matchesPriority, SendState.isInProgress, SendState.isFresh]

/-- With no probe due, a live connection and a fresh retained entry next in line within the broker's
Maximum Packet Size, `flush_outbound` hands exactly that entry's arena bytes to the transport's `write`. -/
theorem flushLoop_first_write (fuel : Nat) (w : World) (k : AfterFlush) (id off len : Nat)
    (hka : ∀ np, w.sess.rt.nextPing = some np → w.now < np) (hlive : w.live = true)
    (hnext : w.sess.data.outbound.nextStep = some (.retained id off len (.write 0)))
    (hsize : w.sess.rt.packetTooLarge len = false) :
    flushLoop (fuel + 2) w k =
      doStepWrite fuel w (.flush k) (.retained id) (w.sess.data.outbound.retainedPacket off len) 0 len w.now := by
  unfold flushLoop
  simp only [World.maybeQueuePingreq, Session.queuePing_idle _ _ hka, hnext]
  unfold performStep
  simp only [World.prepareStep, hsize, hlive]
  rfl

theorem Session.Enqueued.nextPing {s s' : Session} {id : Nat} {pkt : Bytes} {isPub : Bool}
    (h : s.Enqueued s' id pkt isPub) : s'.rt.nextPing = s.rt.nextPing := by
  rw [h.quota]; cases isPub <;> rfl

theorem Session.Enqueued.packetTooLarge {s s' : Session} {id : Nat} {pkt : Bytes} {isPub : Bool}
    (h : s.Enqueued s' id pkt isPub) (len : Nat) : s'.rt.packetTooLarge len = s.rt.packetTooLarge len := by
  rw [h.quota]; cases isPub <;> rfl

theorem Session.Enqueued.sendQuota {s s' : Session} {id : Nat} {pkt : Bytes}
    (h : s.Enqueued s' id pkt true) : s'.rt.sendQuota = s.rt.sendQuota - 1 := by
  rw [h.quota]; rfl

/-- `subscribe` on an idle live handle, with the checks that precede its first flush passed. -/
theorem execDirective_subscribe_idle (w : World) (r : SubReq) (hlive : w.live = true) (hfut : w.fut = none)
    (hka : ∀ np, w.sess.rt.nextPing = some np → w.now < np)
    (hnext : w.sess.data.outbound.nextStep = none)
    (hne : r.topics ≠ []) (hvalid : (Properties.slice r.props).validFor .Subscribe = true) :
    w.execDirective (.subscribe r) =
      afterFlush 3999 { w with wakes := 0, lastIoStarved := false } (.subPre r) := by
  have hc := live_conn hlive
  have hcf : w.cancelFut = w := by unfold World.cancelFut; rw [hfut]; rfl
  have hpf : pollFuel = 3999 + 1 := rfl
  have hemp : r.topics.isEmpty = false := by cases h : r.topics with
    | nil => exact absurd h hne
    | cons _ _ => rfl
  unfold World.execDirective World.startOp
  simp only [hc, hcf]
  have hl : ({ w with wakes := 0, lastIoStarved := false } : World).live = true := hlive
  simp only [hl, hemp, hvalid]
  rw [hpf]
  exact flushLoop_idle 3999 _ _ hka hnext

/-- `unsubscribe` on an idle live handle, with the checks that precede its first flush passed. -/
theorem execDirective_unsubscribe_idle (w : World) (r : UnsubReq) (hlive : w.live = true) (hfut : w.fut = none)
    (hka : ∀ np, w.sess.rt.nextPing = some np → w.now < np)
    (hnext : w.sess.data.outbound.nextStep = none)
    (hne : r.topics ≠ []) (hvalid : (Properties.slice r.props).validFor .Unsubscribe = true) :
    w.execDirective (.unsubscribe r) =
      afterFlush 3999 { w with wakes := 0, lastIoStarved := false } (.unsubPre r) := by
  have hc := live_conn hlive
  have hcf : w.cancelFut = w := by unfold World.cancelFut; rw [hfut]; rfl
  have hpf : pollFuel = 3999 + 1 := rfl
  have hemp : r.topics.isEmpty = false := by cases h : r.topics with
    | nil => exact absurd h hne
    | cons _ _ => rfl
  unfold World.execDirective World.startOp
  simp only [hc, hcf]
  have hl : ({ w with wakes := 0, lastIoStarved := false } : World).live = true := hlive
  simp only [hl, hemp, hvalid]
  rw [hpf]
  exact flushLoop_idle 3999 _ _ hka hnext

/-! ### Every exit of the three continuations -/

/-- The continuations that carry a request. -/
def AfterFlush.isRequest : AfterFlush → Bool
  | .publishPre _ => true
  | .subPre _ => true
  | .unsubPre _ => true
  | _ => false

theorem request_exits (fuel : Nat) (w : World) (k : AfterFlush) (ha : w.sess.data.outbound.ArenaInv)
    (hk : k.isRequest = true) :
    (∃ s' e, afterFlush (fuel + 1) w k = ({ w with sess := s' }).finishErr (afterFlushName k) e ∧
      w.sess.Untouched s' ∧
      (s'.data.packetId = w.sess.data.packetId ∨ s'.data.packetId = w.sess.alloc.1.data.packetId)) ∨
    (∃ s' op pkt isPub, afterFlush (fuel + 1) w k = flushLoop fuel { w with sess := s' } (.post (afterFlushName k) op) ∧
      w.sess.Enqueued s' op.id pkt isPub) ∨
    (∃ s' pkt, afterFlush (fuel + 1) w k = doLocalWrite fuel { w with sess := s' } 1 pkt ∧
      w.sess.Untouched s' ∧ s'.data.packetId = w.sess.data.packetId) := by
  cases k with
  | publishPre r =>
    rcases publishPre_outcome fuel w r ha with ⟨_, _, off, pkt, s', _, h2, h3⟩ | ⟨_, _, off, pkt, s', _, h2, h3, h4⟩ |
      ⟨_, s', h2, h3, h4⟩
    · exact .inr (.inl ⟨s', _, pkt, true, h2, h3⟩)
    · exact .inr (.inr ⟨s', pkt, h2, h3, h4⟩)
    · refine .inl ⟨s', _, h2, h3, ?_⟩
      split at h4
      · exact .inr h4
      · exact .inl h4
  | subPre r =>
    rcases subPre_outcome fuel w r ha with ⟨_, off, pkt, s', _, h2, h3⟩ | ⟨_, s', h2, h3, h4⟩
    · exact .inr (.inl ⟨s', _, pkt, false, h2, h3⟩)
    · refine .inl ⟨s', _, h2, h3, ?_⟩
      split at h4
      · exact .inl h4
      · exact .inr h4
  | unsubPre r =>
    rcases unsubPre_outcome fuel w r ha with ⟨_, off, pkt, s', _, h2, h3⟩ | ⟨_, s', h2, h3, h4⟩
    · exact .inr (.inl ⟨s', _, pkt, false, h2, h3⟩)
    · refine .inl ⟨s', _, h2, h3, ?_⟩
      split at h4
      · exact .inl h4
      · exact .inr h4
  | discPre d => cases hk
  | post n op => cases hk

/-! ### The statements of `Theorems/C09Request.lean` -/

theorem publish_request_retained (fuel : Nat) (w : World) (r : PubReq) (pl : Bytes)
    (hids : w.sess.data.IdInv) (ha : w.sess.data.outbound.ArenaInv)
    (hpl : r.payload = .bytes pl) (hqos : r.qos ≤ 2) (htopic : validUtf8 r.topic = true)
    (hlist : r.props.isEncoded = false) (hwf : ∀ p ∈ r.props.items, p.wf = true)
    (hq0 : 0 < effectiveQos w.sess.rt.maxQos w.sess.downgrade r.qos)
    (hacc : PublishAccepted w r) :
    let q := effectiveQos w.sess.rt.maxQos w.sess.downgrade r.qos
    ∃ (s' : Session) (e : RetainedPacket) (off : Nat) (pkt : Bytes),
      publishEncoding w r = .ok (off, pkt) ∧
      afterFlush (fuel + 1) w (.publishPre r) = flushLoop fuel { w with sess := s' } (.post "publish"
        { kind := if q = 2 then .pub2 else .pub1, id := e.id, generation := w.sess.data.generation }) ∧
      s'.data.outbound.retained = w.sess.data.outbound.compact.retained ++ [e] ∧
      e.id = w.sess.alloc.2 ∧ e.id ≠ 0 ∧ e.id ∉ w.sess.data.outbound.usedIds ∧
      e.state = .write 0 ∧ e.ser = w.sess.data.outbound.nextSer ∧ e.len = pkt.length ∧
      s'.data.outbound.retainedPacket e.offset e.len = pkt ∧
      Spec.parseClientPacket (s'.data.outbound.retainedPacket e.offset e.len) =
        some (.publish false q r.retain r.topic (some e.id) (r.props.items.map Property.toSpec) pl, []) ∧
      s'.rt.sendQuota + 1 = w.sess.rt.sendQuota ∧
      w.sess.Enqueued s' e.id pkt true ∧ s'.data.IdInv ∧ s'.data.outbound.ArenaInv := by
  intro q
  obtain ⟨f1, f2, f3, _, _⟩ := Session.alloc_fresh w.sess hids
  rcases publishPre_outcome fuel w r ha with ⟨_, _, off, pkt, s', h1, h2, h3⟩ | ⟨_, hq, _⟩ | ⟨hn, _⟩
  · obtain ⟨e, e1, e2, e3, e4, e5, e6⟩ := h3.entry
    have hE : publishEncoding w r = encodePublishWithOffset w.sess.data.outbound.scratchLen
        (pubHeader r q (some w.sess.alloc.2)) (.bytes pl) := by
      unfold publishEncoding; rw [hpl]; simp only [q, if_pos hq0]; rfl
    have hparse := C09_publish _ off (pubHeader r q (some w.sess.alloc.2)) pl pkt []
      (effectiveQos_le_two _ _ _ hqos) rfl
      (by show 0 < w.sess.alloc.2 ∧ w.sess.alloc.2 < 65536 ∧ 0 < q; omega) htopic hlist hwf
      (Properties.validFor_items hlist hacc.1) (hE.symm.trans h1)
    have hquota := (retainedFull_of_can hq0 hacc.2.2.1)
    refine ⟨s', e, off, pkt, h1, by rw [e2]; exact h2, e1, e2, by rw [e2]; omega, by rw [e2]; exact f3, e4, e5, e3, e6,
      ?_, ?_, by rw [e2]; exact h3, h3.idInv hids hquota.1, h3.arena⟩
    · rw [e6, e2]
      simpa [pubHeader] using hparse
    · have := h3.sendQuota
      have := hquota.2
      omega
  · exact absurd hq (by omega)
  · exact absurd hacc hn

theorem publish_qos0_request_written (fuel : Nat) (w : World) (r : PubReq) (pl : Bytes)
    (ha : w.sess.data.outbound.ArenaInv)
    (hpl : r.payload = .bytes pl) (htopic : validUtf8 r.topic = true)
    (hlist : r.props.isEncoded = false) (hwf : ∀ p ∈ r.props.items, p.wf = true)
    (hq : effectiveQos w.sess.rt.maxQos w.sess.downgrade r.qos = 0)
    (hacc : PublishAccepted w r) :
    ∃ (s' : Session) (off : Nat) (pkt : Bytes),
      publishEncoding w r = .ok (off, pkt) ∧
      afterFlush (fuel + 1) w (.publishPre r) = doLocalWrite fuel { w with sess := s' } 1 pkt ∧
      Spec.parseClientPacket pkt =
        some (.publish false 0 r.retain r.topic none (r.props.items.map Property.toSpec) pl, []) ∧
      w.sess.Untouched s' ∧ s'.data.packetId = w.sess.data.packetId := by
  rcases publishPre_outcome fuel w r ha with ⟨_, hq0, _⟩ | ⟨_, _, off, pkt, s', h1, h2, h3, h4⟩ | ⟨hn, _⟩
  · exact absurd hq (by omega)
  · have hE : publishEncoding w r = encodePublishWithOffset w.sess.data.outbound.scratchLen
        (pubHeader r 0 none) (.bytes pl) := by
      unfold publishEncoding; rw [hpl]; simp only [hq, if_neg (show ¬ (0 < 0) from by omega)]; rfl
    have hparse := C09_publish _ off (pubHeader r 0 none) pl pkt [] (by show 0 ≤ 2; omega) rfl
      (by show (0 : Nat) = 0; rfl) htopic hlist hwf (Properties.validFor_items hlist hacc.1) (hE.symm.trans h1)
    exact ⟨s', off, pkt, h1, h2, by simpa [pubHeader] using hparse, h3, h4⟩
  · exact absurd hacc hn

theorem subscribe_request_retained (fuel : Nat) (w : World) (r : SubReq)
    (hids : w.sess.data.IdInv) (ha : w.sess.data.outbound.ArenaInv)
    (hne : r.topics ≠ []) (hts : ∀ t ∈ r.topics, validUtf8 t.topic = true ∧ t.opts.wf = true)
    (hwf : ∀ p ∈ r.props, p.wf = true) (hvalid : (Properties.slice r.props).validFor .Subscribe = true)
    (hacc : SubscribeAccepted w r) :
    ∃ (s' : Session) (e : RetainedPacket) (off : Nat) (pkt : Bytes),
      subscribeEncoding w r = .ok (off, pkt) ∧
      afterFlush (fuel + 1) w (.subPre r) = flushLoop fuel { w with sess := s' } (.post "subscribe"
        { kind := .sub, id := e.id, generation := w.sess.data.generation }) ∧
      s'.data.outbound.retained = w.sess.data.outbound.compact.retained ++ [e] ∧
      e.id = w.sess.alloc.2 ∧ e.id ≠ 0 ∧ e.id ∉ w.sess.data.outbound.usedIds ∧
      e.state = .write 0 ∧ e.ser = w.sess.data.outbound.nextSer ∧ e.len = pkt.length ∧
      s'.data.outbound.retainedPacket e.offset e.len = pkt ∧
      Spec.parseClientPacket (s'.data.outbound.retainedPacket e.offset e.len) =
        some (.subscribe e.id (r.props.map Property.toSpec) (r.topics.map TopicFilter.toSpec), []) ∧
      s'.rt = w.sess.rt ∧
      w.sess.Enqueued s' e.id pkt false ∧ s'.data.IdInv ∧ s'.data.outbound.ArenaInv := by
  obtain ⟨f1, f2, f3, _, _⟩ := Session.alloc_fresh w.sess hids
  rcases subPre_outcome fuel w r ha with ⟨_, off, pkt, s', h1, h2, h3⟩ | ⟨hn, _⟩
  · obtain ⟨e, e1, e2, e3, e4, e5, e6⟩ := h3.entry
    have hparse := C09_subscribe _ off w.sess.alloc.2 r.props r.topics pkt [] ⟨by omega, by omega⟩ hne hts hwf
      (Properties.validFor_items (ps := .slice r.props) rfl hvalid) h1
    refine ⟨s', e, off, pkt, h1, by rw [e2]; exact h2, e1, e2, by rw [e2]; omega, by rw [e2]; exact f3, e4, e5, e3, e6,
      ?_, h3.quota, by rw [e2]; exact h3, h3.idInv hids hacc.1, h3.arena⟩
    rw [e6, e2]
    simpa using hparse
  · exact absurd hacc hn

theorem unsubscribe_request_retained (fuel : Nat) (w : World) (r : UnsubReq)
    (hids : w.sess.data.IdInv) (ha : w.sess.data.outbound.ArenaInv)
    (hne : r.topics ≠ []) (hts : ∀ t ∈ r.topics, validUtf8 t = true)
    (hwf : ∀ p ∈ r.props, p.wf = true) (hvalid : (Properties.slice r.props).validFor .Unsubscribe = true)
    (hacc : UnsubscribeAccepted w r) :
    ∃ (s' : Session) (e : RetainedPacket) (off : Nat) (pkt : Bytes),
      unsubscribeEncoding w r = .ok (off, pkt) ∧
      afterFlush (fuel + 1) w (.unsubPre r) = flushLoop fuel { w with sess := s' } (.post "unsubscribe"
        { kind := .unsub, id := e.id, generation := w.sess.data.generation }) ∧
      s'.data.outbound.retained = w.sess.data.outbound.compact.retained ++ [e] ∧
      e.id = w.sess.alloc.2 ∧ e.id ≠ 0 ∧ e.id ∉ w.sess.data.outbound.usedIds ∧
      e.state = .write 0 ∧ e.ser = w.sess.data.outbound.nextSer ∧ e.len = pkt.length ∧
      s'.data.outbound.retainedPacket e.offset e.len = pkt ∧
      Spec.parseClientPacket (s'.data.outbound.retainedPacket e.offset e.len) =
        some (.unsubscribe e.id (r.props.map Property.toSpec) r.topics, []) ∧
      s'.rt = w.sess.rt ∧
      w.sess.Enqueued s' e.id pkt false ∧ s'.data.IdInv ∧ s'.data.outbound.ArenaInv := by
  obtain ⟨f1, f2, f3, _, _⟩ := Session.alloc_fresh w.sess hids
  rcases unsubPre_outcome fuel w r ha with ⟨_, off, pkt, s', h1, h2, h3⟩ | ⟨hn, _⟩
  · obtain ⟨e, e1, e2, e3, e4, e5, e6⟩ := h3.entry
    have hparse := C09_unsubscribe _ off w.sess.alloc.2 r.props r.topics pkt [] ⟨by omega, by omega⟩ hne hts hwf
      (Properties.validFor_items (ps := .slice r.props) rfl hvalid) h1
    refine ⟨s', e, off, pkt, h1, by rw [e2]; exact h2, e1, e2, by rw [e2]; omega, by rw [e2]; exact f3, e4, e5, e3, e6,
      ?_, h3.quota, by rw [e2]; exact h3, h3.idInv hids hacc.1, h3.arena⟩
    rw [e6, e2]
    simpa using hparse
  · exact absurd hacc hn

theorem publish_call_reaches_write (w : World) (r : PubReq) (pl : Bytes)
    (hids : w.sess.data.IdInv) (ha : w.sess.data.outbound.ArenaInv)
    (hlive : w.live = true) (hfut : w.fut = none)
    (hka : ∀ np, w.sess.rt.nextPing = some np → w.now < np)
    (hnext : w.sess.data.outbound.nextStep = none)
    (hpl : r.payload = .bytes pl) (hqos : r.qos ≤ 2) (htopic : validUtf8 r.topic = true)
    (hlist : r.props.isEncoded = false) (hwf : ∀ p ∈ r.props.items, p.wf = true)
    (hq0 : 0 < effectiveQos w.sess.rt.maxQos w.sess.downgrade r.qos)
    (hacc : PublishAccepted w r) :
    let q := effectiveQos w.sess.rt.maxQos w.sess.downgrade r.qos
    ∃ (s' : Session) (e : RetainedPacket) (pkt : Bytes),
      w.execDirective (.publish r) =
        doStepWrite 3996 { w with sess := s', wakes := 0, lastIoStarved := false }
          (.flush (.post "publish" { kind := if q = 2 then .pub2 else .pub1, id := e.id,
                                     generation := w.sess.data.generation }))
          (.retained e.id) pkt 0 pkt.length w.now ∧
      s'.data.outbound.retained = w.sess.data.outbound.compact.retained ++ [e] ∧
      e.id = w.sess.alloc.2 ∧ e.id ≠ 0 ∧ e.id ∉ w.sess.data.outbound.usedIds ∧
      s'.data.outbound.retainedPacket e.offset e.len = pkt ∧
      Spec.parseClientPacket pkt =
        some (.publish false q r.retain r.topic (some e.id) (r.props.items.map Property.toSpec) pl, []) := by
  intro q
  let w0 : World := { w with wakes := 0, lastIoStarved := false }
  obtain ⟨s', e, off, pkt, g1, g2, g3, g4, g5, g6, g7, _, glen, g9, g10, _, g12, _, _⟩ :=
    publish_request_retained 3998 w0 r pl hids ha hpl hqos htopic hlist hwf hq0 hacc
  have hsz : s'.rt.packetTooLarge e.len = false := by
    rw [g12.packetTooLarge]
    obtain ⟨_, _, _, off', pkt', c1, c2⟩ := hacc
    have hE : publishEncoding w r = Except.ok (off, pkt) := g1
    rw [c1] at hE
    simp only [Except.ok.injEq, Prod.mk.injEq] at hE
    rw [glen, ← hE.2]; exact c2
  refine ⟨s', e, pkt, ?_, g3, g4, g5, g6, g9, by rw [← g9]; exact g10⟩
  rw [execDirective_publish_idle w r hlive hfut hka hnext]
  show afterFlush (3998 + 1) w0 (.publishPre r) = _
  rw [g2]
  have hn := nextStep_after_enqueue g12 ha hnext e g3 g7
  have := flushLoop_first_write 3996 ({ w0 with sess := s' } : World)
    (.post "publish" { kind := if q = 2 then .pub2 else .pub1, id := e.id, generation := w.sess.data.generation })
    e.id e.offset e.len (by intro np h; exact hka np (by rw [← g12.nextPing]; exact h)) hlive hn hsz
  rw [this, g9, glen]

theorem subscribe_call_reaches_write (w : World) (r : SubReq)
    (hids : w.sess.data.IdInv) (ha : w.sess.data.outbound.ArenaInv)
    (hlive : w.live = true) (hfut : w.fut = none)
    (hka : ∀ np, w.sess.rt.nextPing = some np → w.now < np)
    (hnext : w.sess.data.outbound.nextStep = none)
    (hne : r.topics ≠ []) (hts : ∀ t ∈ r.topics, validUtf8 t.topic = true ∧ t.opts.wf = true)
    (hwf : ∀ p ∈ r.props, p.wf = true) (hvalid : (Properties.slice r.props).validFor .Subscribe = true)
    (hacc : SubscribeAccepted w r) :
    ∃ (s' : Session) (e : RetainedPacket) (pkt : Bytes),
      w.execDirective (.subscribe r) =
        doStepWrite 3996 { w with sess := s', wakes := 0, lastIoStarved := false }
          (.flush (.post "subscribe" { kind := .sub, id := e.id, generation := w.sess.data.generation }))
          (.retained e.id) pkt 0 pkt.length w.now ∧
      s'.data.outbound.retained = w.sess.data.outbound.compact.retained ++ [e] ∧
      e.id = w.sess.alloc.2 ∧ e.id ≠ 0 ∧ e.id ∉ w.sess.data.outbound.usedIds ∧
      s'.data.outbound.retainedPacket e.offset e.len = pkt ∧
      Spec.parseClientPacket pkt =
        some (.subscribe e.id (r.props.map Property.toSpec) (r.topics.map TopicFilter.toSpec), []) := by
  let w0 : World := { w with wakes := 0, lastIoStarved := false }
  obtain ⟨s', e, off, pkt, g1, g2, g3, g4, g5, g6, g7, _, glen, g9, g10, _, g12, _, _⟩ :=
    subscribe_request_retained 3998 w0 r hids ha hne hts hwf hvalid hacc
  have hsz : s'.rt.packetTooLarge e.len = false := by
    rw [g12.packetTooLarge]
    obtain ⟨_, off', pkt', c1, c2⟩ := hacc
    have hE : subscribeEncoding w r = Except.ok (off, pkt) := g1
    rw [c1] at hE
    simp only [Except.ok.injEq, Prod.mk.injEq] at hE
    rw [glen, ← hE.2]; exact c2
  refine ⟨s', e, pkt, ?_, g3, g4, g5, g6, g9, by rw [← g9]; exact g10⟩
  rw [execDirective_subscribe_idle w r hlive hfut hka hnext hne hvalid]
  show afterFlush (3998 + 1) w0 (.subPre r) = _
  rw [g2]
  have hn := nextStep_after_enqueue g12 ha hnext e g3 g7
  have := flushLoop_first_write 3996 ({ w0 with sess := s' } : World)
    (.post "subscribe" { kind := .sub, id := e.id, generation := w.sess.data.generation })
    e.id e.offset e.len (by intro np h; exact hka np (by rw [← g12.nextPing]; exact h)) hlive hn hsz
  rw [this, g9, glen]

theorem unsubscribe_call_reaches_write (w : World) (r : UnsubReq)
    (hids : w.sess.data.IdInv) (ha : w.sess.data.outbound.ArenaInv)
    (hlive : w.live = true) (hfut : w.fut = none)
    (hka : ∀ np, w.sess.rt.nextPing = some np → w.now < np)
    (hnext : w.sess.data.outbound.nextStep = none)
    (hne : r.topics ≠ []) (hts : ∀ t ∈ r.topics, validUtf8 t = true)
    (hwf : ∀ p ∈ r.props, p.wf = true) (hvalid : (Properties.slice r.props).validFor .Unsubscribe = true)
    (hacc : UnsubscribeAccepted w r) :
    ∃ (s' : Session) (e : RetainedPacket) (pkt : Bytes),
      w.execDirective (.unsubscribe r) =
        doStepWrite 3996 { w with sess := s', wakes := 0, lastIoStarved := false }
          (.flush (.post "unsubscribe" { kind := .unsub, id := e.id, generation := w.sess.data.generation }))
          (.retained e.id) pkt 0 pkt.length w.now ∧
      s'.data.outbound.retained = w.sess.data.outbound.compact.retained ++ [e] ∧
      e.id = w.sess.alloc.2 ∧ e.id ≠ 0 ∧ e.id ∉ w.sess.data.outbound.usedIds ∧
      s'.data.outbound.retainedPacket e.offset e.len = pkt ∧
      Spec.parseClientPacket pkt = some (.unsubscribe e.id (r.props.map Property.toSpec) r.topics, []) := by
  let w0 : World := { w with wakes := 0, lastIoStarved := false }
  obtain ⟨s', e, off, pkt, g1, g2, g3, g4, g5, g6, g7, _, glen, g9, g10, _, g12, _, _⟩ :=
    unsubscribe_request_retained 3998 w0 r hids ha hne hts hwf hvalid hacc
  have hsz : s'.rt.packetTooLarge e.len = false := by
    rw [g12.packetTooLarge]
    obtain ⟨_, off', pkt', c1, c2⟩ := hacc
    have hE : unsubscribeEncoding w r = Except.ok (off, pkt) := g1
    rw [c1] at hE
    simp only [Except.ok.injEq, Prod.mk.injEq] at hE
    rw [glen, ← hE.2]; exact c2
  refine ⟨s', e, pkt, ?_, g3, g4, g5, g6, g9, by rw [← g9]; exact g10⟩
  rw [execDirective_unsubscribe_idle w r hlive hfut hka hnext hne hvalid]
  show afterFlush (3998 + 1) w0 (.unsubPre r) = _
  rw [g2]
  have hn := nextStep_after_enqueue g12 ha hnext e g3 g7
  have := flushLoop_first_write 3996 ({ w0 with sess := s' } : World)
    (.post "unsubscribe" { kind := .unsub, id := e.id, generation := w.sess.data.generation })
    e.id e.offset e.len (by intro np h; exact hka np (by rw [← g12.nextPing]; exact h)) hlive hn hsz
  rw [this, g9, glen]

/-- For the non-vacuity examples: `Except` has no decidable equality, its `toOption` has. -/
theorem Except.eq_ok_of_toOption {ε α : Type} {x : Except ε α} {a : α} (h : x.toOption = some a) : x = .ok a := by
  cases x with
  | error e => simp [Except.toOption] at h
  | ok v => simp [Except.toOption] at h; rw [h]

end Minimq
