import Minimq.Proofs.WireQuota
import Minimq.Proofs.ReleaseStep
/-
The PUBREL entries of the transmission log, across all transports (C03 on the wire).

`RHist`: a predicate on session and log, preserved by every primitive and by `World.setWritten`
(`HClosed`, hence an invariant of every program): the ghost data of the release queue and of the PUBREL
log entries is consistent — serials below the counters, the PUBLISH a release entry continues is no
longer retained, identifiers agree, two log entries with the same release serial are the same PUBREL,
and in the log every transmission of that PUBLISH precedes every transmission of the PUBREL.

`RTraced`: on top of it, every release serial was created by one particular step of the execution: the
handling of a successful PUBREC that removed the retained PUBLISH in the same step.
-/
namespace Minimq
open Gen World Outbound

/-! ### The invariant on session and log -/

theorem tag_eq {e e' : PendingRelease} (h : e.tag = e'.tag) :
    e.rser = e'.rser ∧ e.pser = e'.pser ∧ e.id = e'.id ∧ e.rc = e'.rc := by
  simp only [PendingRelease.tag, Prod.mk.injEq] at h
  exact h

theorem rser_inj {o : Outbound} (h : o.RelInv) {e1 e2 : PendingRelease} (h1 : e1 ∈ o.release) (h2 : e2 ∈ o.release)
    (he : e1.rser = e2.rser) : e1 = e2 := by
  have hinc := h.inc
  unfold Outbound.rsers at hinc
  generalize o.release = l at h1 h2 hinc
  induction l with
  | nil => simp at h1
  | cons x xs ih =>
    simp only [List.map_cons, List.pairwise_cons] at hinc
    rcases List.mem_cons.mp h1 with rfl | h1' <;> rcases List.mem_cons.mp h2 with rfl | h2'
    · rfl
    · have := hinc.1 e2.rser (List.mem_map.mpr ⟨e2, h2', rfl⟩); omega
    · have := hinc.1 e1.rser (List.mem_map.mpr ⟨e1, h1', rfl⟩); omega
    · exact ih h1' h2' hinc.2

/-- The ghost data of the release queue and of the PUBREL entries of the log, on all transports. -/
structure RHist (s : Session) (l : List LogEntry) : Prop where
  hist : Hist s l
  rel : s.data.outbound.RelInv
  /-- The PUBLISH that a release entry continues has been handed a serial and is no longer retained;
  the entry asks for a PUBREL with reason Success. -/
  qgone : ∀ e ∈ s.data.outbound.release,
    e.pser < s.data.outbound.nextSer ∧ e.pser ∉ s.data.outbound.sers ∧ e.rc = RC_Success
  /-- Every transmission of that PUBLISH, on whichever transport, is a PUBLISH with the entry's identifier. -/
  qid : ∀ e ∈ s.data.outbound.release, ∀ f ∈ l, ∀ i, f.tag = .retained e.pser i → i = e.id ∧ isPubPkt f.bytes = true
  /-- No two release entries continue the same PUBLISH. -/
  qinj : ∀ e1 ∈ s.data.outbound.release, ∀ e2 ∈ s.data.outbound.release, e1.pser = e2.pser → e1.rser = e2.rser
  /-- A PUBREL in the log: serials below the counters, its PUBLISH no longer retained, reason Success,
  and the bytes are the PUBREL packet for that identifier. -/
  lbelow : ∀ g ∈ l, ∀ r t id rc, g.tag = .release r t id rc →
    r < s.data.outbound.nextRser ∧ t < s.data.outbound.nextSer ∧ t ∉ s.data.outbound.sers ∧ rc = RC_Success ∧
    g.bytes = pubrelBytes id rc
  /-- A PUBREL in the log and a release entry with the same release serial, or continuing the same
  PUBLISH, are the same exchange. -/
  lcur : ∀ g ∈ l, ∀ e ∈ s.data.outbound.release, ∀ r t id rc, g.tag = .release r t id rc → (r = e.rser ∨ t = e.pser) →
    r = e.rser ∧ t = e.pser ∧ id = e.id ∧ rc = e.rc
  /-- So are two PUBRELs in the log. -/
  lsame : ∀ g ∈ l, ∀ g' ∈ l, ∀ r t id rc r' t' id' rc', g.tag = .release r t id rc → g'.tag = .release r' t' id' rc' →
    (r = r' ∨ t = t') → r = r' ∧ t = t' ∧ id = id' ∧ rc = rc'
  /-- Every transmission of the PUBLISH that a logged PUBREL continues is a PUBLISH with the PUBREL's identifier… -/
  lid : ∀ g ∈ l, ∀ f ∈ l, ∀ r t id rc i, g.tag = .release r t id rc → f.tag = .retained t i → i = id ∧ isPubPkt f.bytes = true
  /-- … and precedes it in the log: behind a PUBREL there is no transmission of its PUBLISH. -/
  order : l.Pairwise (fun a c => ∀ r t id rc, a.tag = .release r t id rc → c.ser? ≠ some t)

theorem RHist.prim {s s' : Session} (l : List LogEntry) (hp : Prim s s') (h : RHist s l) : RHist s' l := by
  have hh' := Hist.prim l hp h.hist
  have harena : ArenaP s.data.outbound s' := (closed_ArenaP s.data.outbound).prim hp ⟨h.hist.inv, Keeps.refl _, rfl⟩
  obtain ⟨_, hkeeps, _⟩ := harena
  have hrel' : s'.data.outbound.RelInv := closed_RelP.prim hp h.rel
  obtain ⟨hnr, hstep⟩ := hp.step.relStep
  have hns : s.data.outbound.nextSer ≤ s'.data.outbound.nextSer := hkeeps.1
  have gone : ∀ t, t < s.data.outbound.nextSer → t ∉ s.data.outbound.sers → t ∉ s'.data.outbound.sers :=
    fun t h1 h2 => hkeeps.gone_stays_gone h1 h2
  -- the PUBLISH removed by a PUBREC that creates a release entry
  have hnew : ∀ id rs, s' = (s.handle (.pubRec id rs)).1 → s.data.pubrecCreates s.rt id rs = true →
      ∃ x ∈ s.data.outbound.retained, x.ser = s.data.outbound.ackedSer id .pubRec ∧ x.id = id ∧
        isPubPkt (slice s.data.outbound.buf x.offset x.len) = true ∧ x.ser ∉ s'.data.outbound.sers := by
    intro id rs hs' hc
    obtain ⟨_, _, _, l1, x, l2, hr, _, hid, hack, hser, hkeys⟩ := pubrecCreates_spec hc
    have hx : x ∈ s.data.outbound.retained := by rw [hr]; simp
    refine ⟨x, hx, hser.symm, hid, ?_, ?_⟩
    · rw [headerAt_isPub _ h.hist.inv.1 x hx, acknowledges_pub _ _ hack]; rfl
    · subst hs'
      rw [sers_eq_keys, Session.handle_fst_data, hkeys]
      have := SerInv.removed_gone h.hist.inv.2 hr
      simpa [RetainedPacket.key, Function.comp_def] using this
  refine ⟨hh', hrel', ?_, ?_, ?_, ?_, ?_, h.lsame, h.lid, h.order⟩
  · -- qgone
    intro e' he'
    rcases hstep e' he' with ⟨e, he, htag⟩ | ⟨id, rs, hs', hc, rfl, _⟩
    · obtain ⟨_, t2, _, t4⟩ := tag_eq htag
      obtain ⟨h1, h2, h3⟩ := h.qgone e he
      rw [← t2, ← t4]
      exact ⟨Nat.lt_of_lt_of_le h1 hns, gone _ h1 h2, h3⟩
    · obtain ⟨x, hx, hxs, _, _, hxg⟩ := hnew id rs hs' hc
      show s.data.outbound.ackedSer id .pubRec < _ ∧ s.data.outbound.ackedSer id .pubRec ∉ _ ∧ RC_Success = RC_Success
      rw [← hxs]
      exact ⟨Nat.lt_of_lt_of_le (h.hist.inv.2.lt x hx) hns, hxg, rfl⟩
  · -- qid
    intro e' he' f hf i ht
    rcases hstep e' he' with ⟨e, he, htag⟩ | ⟨id, rs, hs', hc, rfl, _⟩
    · obtain ⟨_, t2, t3, _⟩ := tag_eq htag
      rw [← t3]
      exact h.qid e he f hf i (by rw [t2]; exact ht)
    · obtain ⟨x, hx, hxs, hxid, hxp, _⟩ := hnew id rs hs' hc
      have ht' : f.tag = .retained x.ser i := by rw [hxs]; exact ht
      have hc := h.hist.cur f hf x hx i ht'
      exact ⟨hc.1.trans hxid, by rw [isPubPkt_of_unDup_eq hc.2]; exact hxp⟩
  · -- qinj
    intro e1 he1 e2 he2 hps
    rcases hstep e1 he1 with ⟨a1, ha1, htag1⟩ | ⟨id1, rs1, hs1, hc1, rfl, _⟩ <;>
      rcases hstep e2 he2 with ⟨a2, ha2, htag2⟩ | ⟨id2, rs2, hs2, hc2, rfl, _⟩
    · obtain ⟨u1, u2, _, _⟩ := tag_eq htag1
      obtain ⟨v1, v2, _, _⟩ := tag_eq htag2
      rw [← u1, ← v1]
      exact h.qinj a1 ha1 a2 ha2 (by rw [u2, v2]; exact hps)
    · exfalso
      obtain ⟨_, u2, _, _⟩ := tag_eq htag1
      obtain ⟨x, hx, hxs, _⟩ := hnew id2 rs2 hs2 hc2
      have hin : a1.pser ∈ s.data.outbound.sers := by
        rw [u2, hps]; show s.data.outbound.ackedSer id2 .pubRec ∈ _
        rw [← hxs]; exact List.mem_map.mpr ⟨x, hx, rfl⟩
      exact (h.qgone a1 ha1).2.1 hin
    · exfalso
      obtain ⟨_, v2, _, _⟩ := tag_eq htag2
      obtain ⟨x, hx, hxs, _⟩ := hnew id1 rs1 hs1 hc1
      have hin : a2.pser ∈ s.data.outbound.sers := by
        rw [v2, ← hps]; show s.data.outbound.ackedSer id1 .pubRec ∈ _
        rw [← hxs]; exact List.mem_map.mpr ⟨x, hx, rfl⟩
      exact (h.qgone a2 ha2).2.1 hin
    · rfl
  · -- lbelow
    intro g hg r t id rc ht
    obtain ⟨h1, h2, h3, h4, h5⟩ := h.lbelow g hg r t id rc ht
    exact ⟨Nat.lt_of_lt_of_le h1 hnr, Nat.lt_of_lt_of_le h2 hns, gone _ h2 h3, h4, h5⟩
  · -- lcur
    intro g hg e' he' r t id rc ht hor
    rcases hstep e' he' with ⟨e, he, htag⟩ | ⟨id', rs, hs', hc, rfl, _⟩
    · obtain ⟨t1, t2, t3, t4⟩ := tag_eq htag
      rw [← t1, ← t2, ← t3, ← t4]
      exact h.lcur g hg e he r t id rc ht (by rw [t1, t2]; exact hor)
    · exfalso
      obtain ⟨h1, _, h3, _⟩ := h.lbelow g hg r t id rc ht
      obtain ⟨x, hx, hxs, _⟩ := hnew id' rs hs' hc
      rcases hor with hr | htt
      · have : r = s.data.outbound.nextRser := hr
        omega
      · have : t = s.data.outbound.ackedSer id' .pubRec := htt
        exact h3 (by rw [this, ← hxs]; exact List.mem_map.mpr ⟨x, hx, rfl⟩)


/-- What `doneFrame` records for a release entry: an entry that is in the queue, and its PUBREL. -/
theorem doneFrame_release (w : World) (pkt : Flushed) (r t id rc : Nat) (ht : (w.doneFrame pkt).tag = .release r t id rc) :
    ∃ e ∈ w.sess.data.outbound.release, e.tag = (r, t, id, rc) ∧
      (w.doneFrame pkt).bytes = ((encodePubrel id rc).toOption).getD [] := by
  unfold World.doneFrame at ht ⊢
  cases pkt with
  | control x => simp at ht
  | retained i =>
    simp only [] at ht
    split at ht <;> simp at ht
  | release i =>
    simp only [] at ht ⊢
    split at ht
    · rename_i e hfind
      simp only [Tag.release.injEq] at ht
      have hid : e.id = i := by
        have := List.find?_some hfind; simpa using this
      obtain ⟨h1, h2, h3, h4⟩ := ht
      refine ⟨e, List.mem_of_find?_eq_some hfind, ?_, ?_⟩
      · simp only [PendingRelease.tag, h1, h2, h4, hid, h3]
      · show (encodePubrel i e.rc).toOption.getD [] = _
        rw [h3, h4]
    · simp at ht

theorem doneFrame_ser_some (w : World) (pkt : Flushed) (t : Nat) (h : (w.doneFrame pkt).ser? = some t) :
    ∃ i, (w.doneFrame pkt).tag = .retained t i := by
  unfold LogEntry.ser? at h
  split at h
  · rename_i s i heq
    simp only [Option.some.injEq] at h; subst h
    exact ⟨i, heq⟩
  · cases h

theorem RHist.done (w : World) (pkt : Flushed) (a c : Nat) (h : RHist w.sess w.log) :
    RHist (w.setWritten pkt a c).sess (w.setWritten pkt a c).log := by
  have h1 : RHist (w.sess.setWritten pkt a c) w.log := RHist.prim _ (Prim.setWritten _ pkt a c) h
  have hhist := Hist.done w pkt a c h.hist
  show RHist (w.sess.setWritten pkt a c) (if a ≥ c then w.log ++ [w.doneFrame pkt] else w.log)
  have hhist' : Hist (w.sess.setWritten pkt a c) (if a ≥ c then w.log ++ [w.doneFrame pkt] else w.log) := hhist
  split
  case isFalse => exact h1
  case isTrue hge =>
  rw [if_pos hge] at hhist'
  -- the new entry against the session after the step
  have hP : ∀ t i, (w.doneFrame pkt).tag = .retained t i → t ∈ (w.sess.setWritten pkt a c).data.outbound.sers := by
    intro t i ht
    obtain ⟨e, he, hser⟩ := doneFrame_retained w pkt t i ht
    have hmem : (e.ser, e.id, e.offset, e.len) ∈
        w.sess.data.outbound.retained.map (fun x => (x.ser, x.id, x.offset, x.len)) := List.mem_map.mpr ⟨e, he, rfl⟩
    rw [← setWritten_retained_same w.sess.data.outbound pkt a c, ← Session.setWritten_outbound] at hmem
    obtain ⟨e', he', heq⟩ := List.mem_map.mp hmem
    simp only [Prod.mk.injEq] at heq
    exact List.mem_map.mpr ⟨e', he', heq.1.trans hser⟩
  have hR : ∀ r t id rc, (w.doneFrame pkt).tag = .release r t id rc →
      ∃ e' ∈ (w.sess.setWritten pkt a c).data.outbound.release, e'.rser = r ∧ e'.pser = t ∧ e'.id = id ∧ e'.rc = rc ∧
        (w.doneFrame pkt).bytes = pubrelBytes id rc := by
    intro r t id rc ht
    obtain ⟨e, he, htag, hb⟩ := doneFrame_release w pkt r t id rc ht
    have hmem : e.tag ∈ w.sess.data.outbound.relTags := List.mem_map.mpr ⟨e, he, rfl⟩
    rw [← setWritten_relTags w.sess.data.outbound pkt a c, ← Session.setWritten_outbound] at hmem
    obtain ⟨e', he', heq⟩ := List.mem_map.mp hmem
    have : e'.tag = (r, t, id, rc) := heq.trans htag
    simp only [PendingRelease.tag, Prod.mk.injEq] at this
    refine ⟨e', he', this.1, this.2.1, this.2.2.1, this.2.2.2, ?_⟩
    rw [hb, encodePubrel_eq]; rfl
  refine ⟨hhist', h1.rel, h1.qgone, ?_, h1.qinj, ?_, ?_, ?_, ?_, ?_⟩
  · -- qid
    intro e he f hf i ht
    rcases List.mem_append.mp hf with hm | hm
    · exact h1.qid e he f hm i ht
    · simp only [List.mem_singleton] at hm; subst hm
      exact absurd (hP _ _ ht) (h1.qgone e he).2.1
  · -- lbelow
    intro g hg r t id rc ht
    rcases List.mem_append.mp hg with hm | hm
    · exact h1.lbelow g hm r t id rc ht
    · simp only [List.mem_singleton] at hm; subst hm
      obtain ⟨e', he', e1, e2, e3, e4, hb⟩ := hR r t id rc ht
      obtain ⟨q1, q2, q3⟩ := h1.qgone e' he'
      exact ⟨by rw [← e1]; exact h1.rel.lt e' he', by rw [← e2]; exact q1, by rw [← e2]; exact q2, by rw [← e4]; exact q3, hb⟩
  · -- lcur
    intro g hg e he r t id rc ht hor
    rcases List.mem_append.mp hg with hm | hm
    · exact h1.lcur g hm e he r t id rc ht hor
    · simp only [List.mem_singleton] at hm; subst hm
      obtain ⟨e', he', e1, e2, e3, e4, _⟩ := hR r t id rc ht
      have hrs : e'.rser = e.rser := by
        rcases hor with hr | htt
        · exact e1.trans hr
        · exact h1.qinj e' he' e he (e2.trans htt)
      have : e' = e := rser_inj h1.rel he' he hrs
      subst this
      exact ⟨e1.symm, e2.symm, e3.symm, e4.symm⟩
  · -- lsame
    intro g hg g' hg' r t id rc r' t' id' rc' ht ht' hor
    rcases List.mem_append.mp hg with hm | hm <;> rcases List.mem_append.mp hg' with hm' | hm'
    · exact h1.lsame g hm g' hm' r t id rc r' t' id' rc' ht ht' hor
    · simp only [List.mem_singleton] at hm'; subst hm'
      obtain ⟨e', he', e1, e2, e3, e4, _⟩ := hR r' t' id' rc' ht'
      have := h1.lcur g hm e' he' r t id rc ht (by rw [e1, e2]; exact hor)
      rw [← e1, ← e2, ← e3, ← e4]; exact this
    · simp only [List.mem_singleton] at hm; subst hm
      obtain ⟨e', he', e1, e2, e3, e4, _⟩ := hR r t id rc ht
      have := h1.lcur g' hm' e' he' r' t' id' rc' ht' (by rw [e1, e2]; exact hor.imp Eq.symm Eq.symm)
      rw [← e1, ← e2, ← e3, ← e4]
      exact ⟨this.1.symm, this.2.1.symm, this.2.2.1.symm, this.2.2.2.symm⟩
    · simp only [List.mem_singleton] at hm hm'; subst hm; subst hm'
      rw [ht] at ht'
      simp only [Tag.release.injEq] at ht'
      exact ht'
  · -- lid
    intro g hg f hf r t id rc i ht hft
    rcases List.mem_append.mp hg with hm | hm <;> rcases List.mem_append.mp hf with hm' | hm'
    · exact h1.lid g hm f hm' r t id rc i ht hft
    · simp only [List.mem_singleton] at hm'; subst hm'
      exact absurd (hP _ _ hft) (h1.lbelow g hm r t id rc ht).2.2.1
    · simp only [List.mem_singleton] at hm; subst hm
      obtain ⟨e', he', e1, e2, e3, e4, _⟩ := hR r t id rc ht
      rw [← e3]
      exact h1.qid e' he' f hm' i (by rw [e2]; exact hft)
    · simp only [List.mem_singleton] at hm hm'; subst hm; subst hm'
      rw [ht] at hft; cases hft
  · -- order
    rw [List.pairwise_append]
    refine ⟨h1.order, by simp, ?_⟩
    intro x hx y hy r t id rc ht hs
    simp only [List.mem_singleton] at hy; subst hy
    obtain ⟨i, hti⟩ := doneFrame_ser_some w pkt t hs
    exact (h1.lbelow x hx r t id rc ht).2.2.1 (hP _ _ hti)

theorem hclosed_RHist : HClosed RHist := ⟨fun l hp h => RHist.prim l hp h, RHist.done⟩

theorem RHist_init (cfg : Cfg) : RHist (Session.new cfg) [] := by
  refine ⟨Hist_init cfg, RelP_new cfg, ?_, ?_, ?_, ?_, ?_, ?_, ?_, List.Pairwise.nil⟩
  · intro e he; simp [Session.new, Outbound.new] at he
  · intro e he; simp [Session.new, Outbound.new] at he
  · intro e he; simp [Session.new, Outbound.new] at he
  · intro g hg; simp at hg
  · intro g hg; simp at hg
  · intro g hg; simp at hg
  · intro g hg; simp at hg


/-! ### Where the release serials come from -/

/-- The release serial `r` was created in the step from `a` to `b`: the step handled a PUBREC for
identifier `id` with a success code; the PUBREL fits the broker's packet size limit; the first retained
entry with that identifier whose header is a QoS 2 PUBLISH — its serial is `t` — was removed in this
step (all other retained entries keep serial, identifier, length, state and order), and one fresh release
entry with that identifier, reason Success, serial `r` (the counter) and origin `t` was appended at the
end of the release queue. -/
def CreatedAt (a b : Session) (r t id : Nat) : Prop :=
  ∃ rs, b = (a.handle (.pubRec id rs)).1 ∧ reasonSuccess rs.rc = true ∧ a.rt.packetTooLarge 5 = false ∧
    a.data.outbound.nextRser = r ∧ b.data.outbound.nextRser = r + 1 ∧
    b.data.outbound.release = a.data.outbound.release ++ [⟨id, RC_Success, .write 0, r, t⟩] ∧
    ∃ l₁ e l₂, a.data.outbound.retained = l₁ ++ e :: l₂ ∧ (∀ x ∈ l₁, ackPred a.data.outbound id .pubRec x = false) ∧
      e.ser = t ∧ e.id = id ∧ AckKind.pubRec.acknowledges (a.data.outbound.headerAt e.offset) = true ∧
      b.data.outbound.keys = (l₁ ++ l₂).map RetainedPacket.key

theorem createdAt_of_creates {s : Session} {id : Nat} {rs : ReasonIn} (hc : s.data.pubrecCreates s.rt id rs = true) :
    CreatedAt s (s.handle (.pubRec id rs)).1 s.data.outbound.nextRser (s.data.outbound.ackedSer id .pubRec) id := by
  obtain ⟨h1, h2, _, l₁, e, l₂, e1, e2, e3, e4, e5, e6⟩ := pubrecCreates_spec hc
  have hrel := handlePacket_release s.data s.rt (.pubRec id rs)
  have hnext := handlePacket_nextRser s.data s.rt (.pubRec id rs)
  simp only [] at hrel hnext
  have hc' : (s.data.awaits id .pubRec && reasonSuccess rs.rc && !s.rt.packetTooLarge 5 &&
      decide (s.data.outbound.release.length < MAX_PENDING_RELEASE)) = true := hc
  rw [hc'] at hrel
  rw [hc] at hnext
  simp only [if_true] at hrel hnext
  refine ⟨rs, rfl, h1, h2, rfl, ?_, ?_, l₁, e, l₂, e1, e2, e5.symm, e3, e4, ?_⟩
  · rw [Session.handle_fst_data]; exact hnext
  · rw [Session.handle_fst_data]; exact hrel
  · rw [Session.handle_fst_data]; exact e6

/-- The history of the release serials: each, in the queue or in the log, was created by one
particular earlier step. -/
structure RTraced (I : Session → Prop) (s0 s : Session) (l : List LogEntry) : Prop where
  hist : RHist s l
  inv : I s
  reach : Reach I s0 s
  queue : ∀ e ∈ s.data.outbound.release,
    ∃ a b, Reach I s0 a ∧ SessStep a b ∧ Reach I b s ∧ CreatedAt a b e.rser e.pser e.id
  logged : ∀ g ∈ l, ∀ r t id rc, g.tag = .release r t id rc →
    ∃ a b, Reach I s0 a ∧ SessStep a b ∧ Reach I b s ∧ CreatedAt a b r t id

theorem RTraced.prim {I : Session → Prop} (hI : Closed I) {s0 s s' : Session} (l : List LogEntry) (hp : Prim s s')
    (h : RTraced I s0 s l) : RTraced I s0 s' l := by
  have hi' : I s' := hI.prim hp h.inv
  refine ⟨RHist.prim l hp h.hist, hi', h.reach.tail hp.step hi', ?_, ?_⟩
  · intro e' he'
    rcases (hp.step.relStep).2 e' he' with ⟨e, he, htag⟩ | ⟨id, rs, hs', hc, rfl, _⟩
    · obtain ⟨t1, t2, t3, _⟩ := tag_eq htag
      obtain ⟨a, c, r1, st, r2, hcr⟩ := h.queue e he
      rw [← t1, ← t2, ← t3]
      exact ⟨a, c, r1, st, r2.tail hp.step hi', hcr⟩
    · subst hs'
      exact ⟨s, _, h.reach, hp.step, Reach.refl _, createdAt_of_creates hc⟩
  · intro g hg r t id rc ht
    obtain ⟨a, c, r1, st, r2, hcr⟩ := h.logged g hg r t id rc ht
    exact ⟨a, c, r1, st, r2.tail hp.step hi', hcr⟩

theorem doneFrame_release_after (w : World) (pkt : Flushed) (a c r t id rc : Nat)
    (ht : (w.doneFrame pkt).tag = .release r t id rc) :
    ∃ e' ∈ (w.sess.setWritten pkt a c).data.outbound.release, e'.rser = r ∧ e'.pser = t ∧ e'.id = id ∧ e'.rc = rc := by
  obtain ⟨e, he, htag, _⟩ := doneFrame_release w pkt r t id rc ht
  have hmem : e.tag ∈ w.sess.data.outbound.relTags := List.mem_map.mpr ⟨e, he, rfl⟩
  rw [← setWritten_relTags w.sess.data.outbound pkt a c, ← Session.setWritten_outbound] at hmem
  obtain ⟨e', he', heq⟩ := List.mem_map.mp hmem
  have : e'.tag = (r, t, id, rc) := heq.trans htag
  simp only [PendingRelease.tag, Prod.mk.injEq] at this
  exact ⟨e', he', this.1, this.2.1, this.2.2.1, this.2.2.2⟩

theorem RTraced.done {I : Session → Prop} (hI : Closed I) {s0 : Session} (w : World) (pkt : Flushed) (a c : Nat)
    (h : RTraced I s0 w.sess w.log) : RTraced I s0 (w.setWritten pkt a c).sess (w.setWritten pkt a c).log := by
  have h1 : RTraced I s0 (w.sess.setWritten pkt a c) w.log := RTraced.prim hI _ (Prim.setWritten _ pkt a c) h
  refine ⟨RHist.done w pkt a c h.hist, h1.inv, h1.reach, h1.queue, ?_⟩
  show ∀ g ∈ (if a ≥ c then w.log ++ [w.doneFrame pkt] else w.log), _
  split
  · intro g hg r t id rc ht
    rcases List.mem_append.mp hg with hm | hm
    · exact h1.logged g hm r t id rc ht
    · simp only [List.mem_singleton] at hm; subst hm
      obtain ⟨e', he', e1, e2, e3, _⟩ := doneFrame_release_after w pkt a c r t id rc ht
      rw [← e1, ← e2, ← e3]
      exact h1.queue e' he'
  · exact h1.logged

theorem hclosed_RTraced {I : Session → Prop} (hI : Closed I) (s0 : Session) : HClosed (RTraced I s0) :=
  ⟨fun l hp h => RTraced.prim hI l hp h, RTraced.done hI⟩

theorem RTraced_init {I : Session → Prop} (cfg : Cfg) (h : I (Session.new cfg)) :
    RTraced I (Session.new cfg) (Session.new cfg) [] :=
  ⟨RHist_init cfg, h, Reach.refl _, by intro e he; simp [Session.new, Outbound.new] at he, by intro g hg; simp at hg⟩


/-! ### The mark of the current connection -/

theorem retain_rmark {s s3 : Session} {id off len : Nat} {isPub : Bool} (hr : s.retain id off len isPub = some s3) :
    s3.rmark = s.rmark := by
  unfold Session.retain at hr
  split at hr
  · simp at hr
  · simp only [Option.some.injEq] at hr; subst hr
    split <;> rfl

theorem encode_rmark {ε : Type} (s : Session) (enc : Nat → (Nat → Nat → Bytes) → Except ε (Nat × Bytes)) :
    (s.encode enc).1.rmark = s.rmark := by rw [Session.encode_fst]; rfl

/-- Of all the primitives only `activate` on an acceptable CONNACK writes the mark, and it writes the
current value of the release-serial counter. -/
theorem Prim.rmark_changes {s s' : Session} (h : Prim s s') :
    s'.rmark = s.rmark ∨
    ∃ sp block now, s' = (s.activate sp block now).1 ∧ (s.activate sp block now).2 = .ok () ∧
      s'.rmark = s'.data.outbound.nextRser ∧ s'.data.outbound.nextRser = s.data.outbound.nextRser := by
  cases h with
  | queuePing _ now _ hq =>
    left
    rcases Session.queuePing_ok hq with rfl | ⟨o, _, rfl⟩ <;> rfl
  | completeFlush _ pkt now => exact Or.inl (completeFlush_rmark _ _ _)
  | setWritten _ pkt a c => exact Or.inl (setWritten_rmark _ _ _ _)
  | takePkt => exact Or.inl (takePkt_rmark _)
  | handle _ p => exact Or.inl rfl
  | handleDisconnect => exact Or.inl rfl
  | activate _ sp block now =>
    by_cases hb : connackBlockOk block
    · right
      refine ⟨sp, block, now, rfl, (activate_ok_iff s sp block now).2 hb, ?_, ?_⟩
      · rw [(activate_eq s sp block now).1 hb]; rfl
      · rw [(activate_eq s sp block now).1 hb]; cases sp <;> rfl
    · left
      rw [(activate_eq s sp block now).2 hb]
      cases sp <;> rfl
  | alloc => exact Or.inl (alloc_rmark _)
  | encodeConnect _ c => exact Or.inl (encode_rmark _ _)
  | encodeAfterAlloc _ enc he => exact Or.inl ((encode_rmark _ _).trans (alloc_rmark _))
  | encodeScratch _ enc he => exact Or.inl (encode_rmark _ _)
  | enqueue _ enc off len isPub _ typ he ht hp hq hres hr =>
    exact Or.inl ((retain_rmark hr).trans ((encode_rmark _ _).trans (alloc_rmark _)))
  | clearPing => exact Or.inl rfl
  | noteActivity _ now => exact Or.inl rfl
  | window _ _ n hw => exact Or.inl (window_rmark hw)
  | commit _ bytes => exact Or.inl rfl
  | beginConnect => exact Or.inl rfl
  | setPid _ n h1 h2 => exact Or.inl rfl

end Minimq
