import Minimq.Proofs.Framed
import Minimq.Proofs.SessionFacts
/-
Session-level facts for the wire-framing theorem (C01): which entry of the three outbound queues is
"the current one", that at most one entry is ever partially written, and that the lookups by
identifier / action of `set_written` and `complete_flush` find exactly that entry.
-/
namespace Minimq
open Gen World Outbound

/-! ### List helpers -/

theorem modifyFirst_hit {α} (p : α → Bool) (f : α → α) (pre : List α) (e : α) (post : List α)
    (hpre : ∀ x ∈ pre, p x = false) (he : p e = true) :
    modifyFirst p f (pre ++ e :: post) = pre ++ f e :: post := by
  induction pre with
  | nil => simp [modifyFirst, he]
  | cons x xs ih =>
    have hx : p x = false := hpre x (by simp)
    have := ih (fun y hy => hpre y (by simp [hy]))
    simp [modifyFirst, hx, this]

theorem find?_hit {α} (p : α → Bool) (pre : List α) (e : α) (post : List α)
    (hpre : ∀ x ∈ pre, p x = false) (he : p e = true) : (pre ++ e :: post).find? p = some e := by
  induction pre with
  | nil => simp [he]
  | cons x xs ih =>
    have hx : p x = false := hpre x (by simp)
    have := ih (fun y hy => hpre y (by simp [hy]))
    simp [hx, this]

theorem find?_none_of_all {α} {p : α → Bool} {l : List α} (h : ∀ x ∈ l, p x = false) : l.find? p = none :=
  List.find?_eq_none.mpr (fun x hx => by simp [h x hx])

theorem isFresh_iff (st : SendState) : st.isFresh = true ↔ st = .write 0 := by
  cases st with
  | write n => cases n <;> simp [SendState.isFresh]
  | flush => simp [SendState.isFresh]
  | sent => simp [SendState.isFresh]

theorem afterWrite_lt {wr len : Nat} (h : wr < len) : SendState.afterWrite wr len = .write wr := by
  unfold SendState.afterWrite; rw [if_neg (by omega)]

theorem afterWrite_ge {wr len : Nat} (h : len ≤ wr) : SendState.afterWrite wr len = .flush := by
  unfold SendState.afterWrite; rw [if_pos (by omega)]

/-! ### The current entry -/

/-- Which queue entry a step refers to, as `set_written` / `complete_flush` name it. -/
def Outbound.Step.flushed : Outbound.Step → Flushed
  | .control a _ => .control a
  | .release id _ _ => .release id
  | .retained id _ _ _ => .retained id

def Outbound.Step.withState : Outbound.Step → SendState → Outbound.Step
  | .control a _, s => .control a s
  | .release id rc _, s => .release id rc s
  | .retained id off len _, s => .retained id off len s

@[simp] theorem Step.withState_state (step : Outbound.Step) (s : SendState) : (step.withState s).state = s := by
  cases step <;> rfl

@[simp] theorem Step.withState_flushed (step : Outbound.Step) (s : SendState) : (step.withState s).flushed = step.flushed := by
  cases step <;> rfl

/-- The outbound part of `Session.setWritten`. -/
def Outbound.setWritten (o : Outbound) (pkt : Flushed) (written len : Nat) : Outbound :=
  match pkt with
  | .control a => o.setControlWritten a written len
  | .release id => o.setReleaseWritten id written len
  | .retained id => o.setRetainedWritten id written len

/-- The outbound part of `Session.completeFlush`. -/
def Outbound.completeFlush (o : Outbound) (pkt : Flushed) : Outbound :=
  match pkt with
  | .control a => o.flushControl a
  | .release id => o.flushRelease id
  | .retained id => o.flushRetained id

theorem Session.setWritten_outbound (s : Session) (pkt : Flushed) (a c : Nat) :
    (s.setWritten pkt a c).data.outbound = s.data.outbound.setWritten pkt a c := by
  unfold Session.setWritten Outbound.setWritten; cases pkt <;> rfl

theorem Session.completeFlush_outbound (s : Session) (pkt : Flushed) (now : Nat) :
    (s.completeFlush pkt now).data.outbound = s.data.outbound.completeFlush pkt := by
  unfold Session.completeFlush Outbound.completeFlush; cases pkt <;> rfl

/-- No entry is in the middle of a transmission: every owed acknowledgement / PINGREQ waits for its
first byte, and no PUBREL or retained packet is partially written or waiting for its flush. -/
structure Outbound.Quiet (o : Outbound) : Prop where
  control : ∀ e ∈ o.control, e.state = .write 0
  release : ∀ e ∈ o.release, e.state.isInProgress = false
  retained : ∀ e ∈ o.retained, e.state.isInProgress = false

/-- `step` denotes an entry of its queue — the one the lookups of `set_written` and `complete_flush`
find (first entry with that action / identifier) — and no *other* entry of any queue is in the middle
of a transmission (the other acknowledgements all wait for their first byte). -/
inductive Outbound.Slot (o : Outbound) : Outbound.Step → Prop
  | control (a : ControlAction) (st : SendState) (rest : List PendingControl)
      (hc : o.control = ⟨a, st⟩ :: rest) (hrest : ∀ x ∈ rest, x.state = .write 0)
      (hrel : ∀ e ∈ o.release, e.state.isInProgress = false)
      (hret : ∀ e ∈ o.retained, e.state.isInProgress = false) : Slot o (.control a st)
  | release (pre : List PendingRelease) (id rc : Nat) (st : SendState) (rs ps : Nat) (post : List PendingRelease)
      (hr : o.release = pre ++ ⟨id, rc, st, rs, ps⟩ :: post)
      (hpre : ∀ x ∈ pre, x.id ≠ id ∧ x.state.isInProgress = false)
      (hpost : ∀ x ∈ post, x.state.isInProgress = false)
      (hctl : ∀ e ∈ o.control, e.state = .write 0)
      (hret : ∀ e ∈ o.retained, e.state.isInProgress = false)
      (hsent : ∀ x ∈ pre, x.state = .sent) : Slot o (.release id rc st)
  | retained (pre : List RetainedPacket) (e : RetainedPacket) (post : List RetainedPacket)
      (hr : o.retained = pre ++ e :: post)
      (hpre : ∀ x ∈ pre, x.id ≠ e.id ∧ x.state.isInProgress = false)
      (hpost : ∀ x ∈ post, x.state.isInProgress = false)
      (hctl : ∀ e ∈ o.control, e.state = .write 0)
      (hrel : ∀ e ∈ o.release, e.state.isInProgress = false)
      (hsent : ∀ x ∈ pre, x.state = .sent) : Slot o (.retained e.id e.offset e.len e.state)

/-- The bytes `perform_outbound_step` writes for a step: acknowledgements, PINGREQ and PUBREL are
encoded afresh each time, a retained packet is read from the arena. -/
def Outbound.StepBytes (o : Outbound) : Outbound.Step → Bytes → Prop
  | .control a _, bs => encodeControl a = .ok bs
  | .release id rc _, bs => encodePubrel id rc = .ok bs
  | .retained _ off len _, bs => bs = slice o.buf off len ∧ bs.length = len

theorem StepBytes_unique {o : Outbound} {step : Outbound.Step} {b1 b2 : Bytes}
    (h1 : o.StepBytes step b1) (h2 : o.StepBytes step b2) : b1 = b2 := by
  cases step with
  | control a st => simp only [Outbound.StepBytes] at h1 h2; rw [h1] at h2; cases h2; rfl
  | release id rc st => simp only [Outbound.StepBytes] at h1 h2; rw [h1] at h2; cases h2; rfl
  | retained id off len st => simp only [Outbound.StepBytes] at h1 h2; rw [h1.1, h2.1]

theorem StepBytes_withState {o : Outbound} {step : Outbound.Step} {bs : Bytes} (h : o.StepBytes step bs) (s : SendState) :
    o.StepBytes (step.withState s) bs := by
  cases step <;> exact h

theorem StepBytes_congr {o o' : Outbound} {step : Outbound.Step} {bs : Bytes} (h : o.StepBytes step bs) (hb : o'.buf = o.buf) :
    o'.StepBytes step bs := by
  cases step with
  | control a st => exact h
  | release id rc st => exact h
  | retained id off len st => simp only [Outbound.StepBytes] at h ⊢; rw [hb]; exact h

/-! ### `set_written` and `complete_flush` act on the current entry -/

theorem Outbound.Slot.setWritten {o : Outbound} {step : Outbound.Step} (h : o.Slot step) (wr len : Nat) :
    (o.setWritten step.flushed wr len).Slot (step.withState (SendState.afterWrite wr len)) := by
  cases h with
  | control a st rest hc hrest hrel hret =>
    refine Slot.control a _ rest ?_ hrest hrel hret
    simp [Outbound.setWritten, Outbound.Step.flushed, setControlWritten, hc, modifyFirst]
  | release pre id rc st rs ps post hr hpre hpost hctl hret hsent =>
    refine Slot.release pre id rc _ rs ps post ?_ hpre hpost hctl hret hsent
    simp only [Outbound.setWritten, Outbound.Step.flushed, setReleaseWritten, hr]
    rw [modifyFirst_hit _ _ pre _ post (fun x hx => by simp [(hpre x hx).1]) (by simp)]
  | retained pre e post hr hpre hpost hctl hrel hsent =>
    refine Slot.retained pre { e with state := SendState.afterWrite wr len } post ?_ hpre hpost hctl hrel hsent
    simp only [Outbound.setWritten, Outbound.Step.flushed, setRetainedWritten, hr]
    rw [modifyFirst_hit _ _ pre _ post (fun x hx => by simp [(hpre x hx).1]) (by simp)]

theorem setWritten_buf (o : Outbound) (pkt : Flushed) (wr len : Nat) : (o.setWritten pkt wr len).buf = o.buf := by
  cases pkt <;> rfl

theorem Outbound.Slot.completeFlush {o : Outbound} {step : Outbound.Step} (h : o.Slot step) :
    (o.completeFlush step.flushed).Quiet := by
  cases h with
  | control a st rest hc hrest hrel hret =>
    refine ⟨?_, hrel, hret⟩
    intro e he
    simp only [Outbound.completeFlush, Outbound.Step.flushed, flushControl, hc, modifyFirst, beq_self_eq_true, if_true] at he
    rw [List.mem_filter] at he
    rcases List.mem_cons.mp he.1 with rfl | hm
    · simp at he
    · exact hrest e hm
  | release pre id rc st rs ps post hr hpre hpost hctl hret =>
    refine ⟨hctl, ?_, hret⟩
    intro e he
    simp only [Outbound.completeFlush, Outbound.Step.flushed, flushRelease, hr] at he
    rw [modifyFirst_hit _ _ pre _ post (fun x hx => by simp [(hpre x hx).1]) (by simp)] at he
    rcases List.mem_append.mp he with hm | hm
    · exact (hpre e hm).2
    · rcases List.mem_cons.mp hm with rfl | hm
      · rfl
      · exact hpost e hm
  | retained pre x post hr hpre hpost hctl hrel =>
    refine ⟨hctl, hrel, ?_⟩
    intro e he
    simp only [Outbound.completeFlush, Outbound.Step.flushed, flushRetained, hr] at he
    rw [modifyFirst_hit _ _ pre _ post (fun y hy => by simp [(hpre y hy).1]) (by simp)] at he
    rcases List.mem_append.mp he with hm | hm
    · exact (hpre e hm).2
    · rcases List.mem_cons.mp hm with rfl | hm
      · rfl
      · exact hpost e hm

/-- An entry that still waits for its first byte is not in progress: everything is quiet. -/
theorem Outbound.Slot.quiet_of_fresh {o : Outbound} {step : Outbound.Step} (h : o.Slot step) (hs : step.state = .write 0) : o.Quiet := by
  cases h with
  | control a st rest hc hrest hrel hret =>
    simp only [Outbound.Step.state] at hs
    refine ⟨?_, hrel, hret⟩
    intro e he
    rw [hc] at he
    rcases List.mem_cons.mp he with rfl | hm
    · exact hs
    · exact hrest e hm
  | release pre id rc st rs ps post hr hpre hpost hctl hret =>
    simp only [Outbound.Step.state] at hs
    refine ⟨hctl, ?_, hret⟩
    intro e he
    rw [hr] at he
    rcases List.mem_append.mp he with hm | hm
    · exact (hpre e hm).2
    · rcases List.mem_cons.mp hm with rfl | hm
      · simp only [hs]; rfl
      · exact hpost e hm
  | retained pre x post hr hpre hpost hctl hrel =>
    simp only [Outbound.Step.state] at hs
    refine ⟨hctl, hrel, ?_⟩
    intro e he
    rw [hr] at he
    rcases List.mem_append.mp he with hm | hm
    · exact (hpre e hm).2
    · rcases List.mem_cons.mp hm with rfl | hm
      · rw [hs]; rfl
      · exact hpost e hm

/-! ### Queueing an acknowledgement or a PINGREQ behind everything -/

theorem Outbound.Quiet.queueControl {o o' : Outbound} {a : ControlAction} (h : o.Quiet) (hq : o.queueControl a = some o') : o'.Quiet := by
  unfold Outbound.queueControl at hq
  split at hq
  · simp at hq
  · simp only [Option.some.injEq] at hq; subst hq
    refine ⟨?_, h.release, h.retained⟩
    intro e he
    rcases List.mem_append.mp he with hm | hm
    · exact h.control e hm
    · simp only [List.mem_singleton] at hm; subst hm; rfl

theorem Outbound.Slot.queueControl {o o' : Outbound} {a : ControlAction} {step : Outbound.Step} (h : o.Slot step)
    (hq : o.queueControl a = some o') : o'.Slot step := by
  unfold Outbound.queueControl at hq
  split at hq
  · simp at hq
  · simp only [Option.some.injEq] at hq; subst hq
    have happ : ∀ (l : List PendingControl), (∀ x ∈ l, x.state = .write 0) →
        ∀ x ∈ l ++ [({ action := a, state := .write 0 } : PendingControl)], x.state = .write 0 := by
      intro l hl x hx
      rcases List.mem_append.mp hx with hm | hm
      · exact hl x hm
      · simp only [List.mem_singleton] at hm; subst hm; rfl
    cases h with
    | control a' st rest hc hrest hrel hret =>
      refine Slot.control a' st (rest ++ [{ action := a, state := .write 0 }]) ?_ (happ rest hrest) hrel hret
      simp [hc]
    | release pre id rc st rs ps post hr hpre hpost hctl hret hsent =>
      exact Slot.release pre id rc st rs ps post hr hpre hpost (happ _ hctl) hret hsent
    | retained pre e post hr hpre hpost hctl hrel hsent =>
      exact Slot.retained pre e post hr hpre hpost (happ _ hctl) hrel hsent

theorem queueControl_buf {o o' : Outbound} {a : ControlAction} (hq : o.queueControl a = some o') : o'.buf = o.buf := by
  unfold Outbound.queueControl at hq
  split at hq
  · simp at hq
  · simp only [Option.some.injEq] at hq; subst hq; rfl


/-! ### What `next_step` hands out -/

theorem matchesPriority_true (st : SendState) : st.matchesPriority true = st.isInProgress := by
  simp [SendState.matchesPriority]

theorem matchesPriority_false (st : SendState) : st.matchesPriority false = st.isFresh := by
  simp [SendState.matchesPriority]

/-- The scheduler continues the entry that is in progress (C01: no packet is started inside another). -/
theorem Outbound.Slot.nextStep {o : Outbound} {step : Outbound.Step} (h : o.Slot step) (hp : step.state.isInProgress = true) :
    o.nextStep = some step := by
  have hfresh : ∀ (l : List PendingControl), (∀ x ∈ l, x.state = .write 0) →
      l.find? (fun e => e.state.matchesPriority true) = none := by
    intro l hl
    apply find?_none_of_all
    intro x hx; rw [matchesPriority_true, hl x hx]; rfl
  unfold Outbound.nextStep Outbound.nextStepPrio
  cases h with
  | control a st rest hc hrest hrel hret =>
    simp only [Outbound.Step.state] at hp
    simp [hc, matchesPriority_true, hp]
  | release pre id rc st rs ps post hr hpre hpost hctl hret =>
    simp only [Outbound.Step.state] at hp
    rw [hfresh _ hctl]
    simp only []
    rw [hr, find?_hit _ pre _ post (fun x hx => by rw [matchesPriority_true]; exact (hpre x hx).2)
      (by rw [matchesPriority_true]; exact hp)]
  | retained pre e post hr hpre hpost hctl hrel =>
    simp only [Outbound.Step.state] at hp
    rw [hfresh _ hctl]
    simp only []
    rw [find?_none_of_all (l := o.release) (fun x hx => by rw [matchesPriority_true]; exact hrel x hx)]
    simp only []
    rw [hr, find?_hit _ pre _ post (fun x hx => by rw [matchesPriority_true]; exact (hpre x hx).2)
      (by rw [matchesPriority_true]; exact hp)]

theorem Outbound.Quiet.nextStepPrio_true {o : Outbound} (h : o.Quiet) : o.nextStepPrio true = none := by
  unfold Outbound.nextStepPrio
  rw [find?_none_of_all (l := o.control) (fun x hx => by rw [matchesPriority_true, h.control x hx]; rfl)]
  simp only []
  rw [find?_none_of_all (l := o.release) (fun x hx => by rw [matchesPriority_true]; exact h.release x hx)]
  simp only []
  rw [find?_none_of_all (l := o.retained) (fun x hx => by rw [matchesPriority_true]; exact h.retained x hx)]

theorem nodup_pre_ne {α} (f : α → Nat) (pre : List α) (e : α) (post : List α)
    (h : ((pre ++ e :: post).map f).Nodup) : ∀ x ∈ pre, f x ≠ f e := by
  intro x hx heq
  rw [List.map_append, List.map_cons, List.nodup_append] at h
  exact h.2.2 (f x) (List.mem_map.mpr ⟨x, hx, rfl⟩) (f e) (by simp) heq

/-- With nothing in progress the scheduler picks an entry waiting for its first byte, and — in-flight
identifiers being distinct — that entry is the one the later lookups by identifier find. -/
theorem Outbound.Quiet.nextStep {o : Outbound} {step : Outbound.Step} (h : o.Quiet) (hid : o.IdInv)
    (hn : o.nextStep = some step) : o.Slot step ∧ step.state = .write 0 := by
  unfold Outbound.nextStep at hn
  rw [h.nextStepPrio_true] at hn
  simp only [] at hn
  have hnd := hid.nodup
  simp only [Outbound.usedIds, List.nodup_append] at hnd
  rcases nextStepPrio_cases o false with ⟨e, hf, hs⟩ | ⟨_, ⟨e, hf, hs⟩ | ⟨_, ⟨e, hf, hs⟩ | ⟨_, hs⟩⟩⟩
  · rw [hs] at hn; cases hn
    have hst : e.state = .write 0 := h.control e (List.mem_of_find?_eq_some hf)
    refine ⟨?_, hst⟩
    cases hc : o.control with
    | nil => rw [hc] at hf; simp at hf
    | cons c rest =>
      have hcst : c.state = .write 0 := h.control c (by rw [hc]; simp)
      rw [hc] at hf
      simp only [List.find?_cons, matchesPriority_false, hcst, SendState.isFresh] at hf
      cases hf
      exact Slot.control e.action e.state rest hc (fun x hx => h.control x (by rw [hc]; simp [hx])) h.release h.retained
  · rw [hs] at hn; cases hn
    have hfr := List.find?_some hf
    rw [matchesPriority_false, isFresh_iff] at hfr
    refine ⟨?_, hfr⟩
    obtain ⟨_, pre, post, hl, hnf⟩ := List.find?_eq_some_iff_append.mp hf
    have hne := nodup_pre_ne (fun (x : PendingRelease) => x.id) pre e post (by rw [← hl]; exact hnd.2.1)
    exact Slot.release pre e.id e.rc e.state e.rser e.pser post hl
      (fun x hx => ⟨hne x hx, h.release x (by rw [hl]; simp [hx])⟩)
      (fun x hx => h.release x (by rw [hl]; simp [hx])) h.control h.retained
      (fun x hx => sent_of_neither _ (by have := hnf x hx; rw [matchesPriority_false] at this; simpa using this)
        (h.release x (by rw [hl]; simp [hx])))
  · rw [hs] at hn; cases hn
    have hfr := List.find?_some hf
    rw [matchesPriority_false, isFresh_iff] at hfr
    refine ⟨?_, hfr⟩
    obtain ⟨_, pre, post, hl, hnf⟩ := List.find?_eq_some_iff_append.mp hf
    have hne := nodup_pre_ne (fun (x : RetainedPacket) => x.id) pre e post (by rw [← hl]; exact hnd.1)
    exact Slot.retained pre e post hl
      (fun x hx => ⟨hne x hx, h.retained x (by rw [hl]; simp [hx])⟩)
      (fun x hx => h.retained x (by rw [hl]; simp [hx])) h.control h.release
      (fun x hx => sent_of_neither _ (by have := hnf x hx; rw [matchesPriority_false] at this; simpa using this)
        (h.retained x (by rw [hl]; simp [hx])))
  · rw [hs] at hn; cases hn

/-- Two descriptions of "the entry in progress" agree. -/
theorem Outbound.Slot.unique {o : Outbound} {s1 s2 : Outbound.Step} (h1 : o.Slot s1) (h2 : o.Slot s2)
    (p1 : s1.state.isInProgress = true) (p2 : s2.state.isInProgress = true) : s1 = s2 := by
  have a := h1.nextStep p1
  have c := h2.nextStep p2
  rw [a] at c; cases c; rfl

theorem Outbound.Quiet.not_slot {o : Outbound} {step : Outbound.Step} (h : o.Quiet) (hs : o.Slot step)
    (hp : step.state.isInProgress = true) : False := by
  have a := hs.nextStep hp
  unfold Outbound.nextStep at a
  rw [h.nextStepPrio_true] at a
  simp only [] at a
  have := nextStepPrio_state o false step a
  rw [matchesPriority_false, isFresh_iff] at this
  rw [this] at hp; simp [SendState.isInProgress] at hp

/-! ### The state of the queues, as seen from the wire -/

/-- What the queues say about the last, possibly incomplete, packet on the wire: `part` is the part of
it that has been written. Either nothing is in progress (`part = []`), or one entry has been written
completely and waits for its flush (`part = []`: the whole packet is on the wire), or exactly one
entry is partially written and `part` is the `n + 1` bytes of it that have been accepted. `ok` is
whatever was checked about the packet when its first byte was offered (its size). -/
inductive Outbound.OState (o : Outbound) (ok : Bytes → Prop) : Bytes → Prop
  | quiet (h : o.Quiet) : OState o ok []
  | flushing (step : Outbound.Step) (hs : o.Slot step) (hst : step.state = .flush) : OState o ok []
  | writing (step : Outbound.Step) (n : Nat) (bytes : Bytes) (hs : o.Slot step) (hst : step.state = .write (n + 1))
      (hb : o.StepBytes step bytes) (hn : n + 1 < bytes.length) (hf : Framed bytes) (hok : ok bytes) :
      OState o ok (bytes.take (n + 1))

theorem Outbound.OState.queueControl {o o' : Outbound} {ok : Bytes → Prop} {a : ControlAction} {part : Bytes}
    (h : o.OState ok part) (hq : o.queueControl a = some o') : o'.OState ok part := by
  cases h with
  | quiet h => exact .quiet (h.queueControl hq)
  | flushing step hs hst => exact .flushing step (hs.queueControl hq) hst
  | writing step n bytes hs hst hb hn hf hok =>
    exact .writing step n bytes (hs.queueControl hq) hst (StepBytes_congr hb (queueControl_buf hq)) hn hf hok

theorem Outbound.OState.of_nextStep_none {o : Outbound} {ok : Bytes → Prop} {part : Bytes} (h : o.OState ok part)
    (hn : o.nextStep = none) : o.Quiet ∧ part = [] := by
  cases h with
  | quiet h => exact ⟨h, rfl⟩
  | flushing step hs hst =>
    have := hs.nextStep (by rw [hst]; rfl)
    rw [hn] at this; cases this
  | writing step n bytes hs hst hb hn' hf hok =>
    have := hs.nextStep (by rw [hst]; rfl)
    rw [hn] at this; cases this

theorem Outbound.OState.of_quiet {o : Outbound} {ok : Bytes → Prop} {part : Bytes} (h : o.OState ok part) (hq : o.Quiet) :
    part = [] := by
  cases h with
  | quiet h => rfl
  | flushing step hs hst => rfl
  | writing step n bytes hs hst hb hn' hf hok => exact (hq.not_slot hs (by rw [hst]; rfl)).elim

/-- What the scheduler's answer means for the wire. -/
theorem Outbound.OState.of_nextStep {o : Outbound} {ok : Bytes → Prop} {part : Bytes} {step : Outbound.Step}
    (h : o.OState ok part) (hid : o.IdInv) (hn : o.nextStep = some step) :
    o.Slot step ∧
    ((step.state = .write 0 ∧ part = []) ∨ (step.state = .flush ∧ part = []) ∨
     (∃ n bytes, step.state = .write (n + 1) ∧ o.StepBytes step bytes ∧ n + 1 < bytes.length ∧ Framed bytes ∧
        ok bytes ∧ part = bytes.take (n + 1))) := by
  cases h with
  | quiet h =>
    obtain ⟨a, c⟩ := h.nextStep hid hn
    exact ⟨a, Or.inl ⟨c, rfl⟩⟩
  | flushing step' hs hst =>
    have := hs.nextStep (by rw [hst]; rfl)
    rw [hn] at this; cases this
    exact ⟨hs, Or.inr (Or.inl ⟨hst, rfl⟩)⟩
  | writing step' n bytes hs hst hb hn' hf hok =>
    have := hs.nextStep (by rw [hst]; rfl)
    rw [hn] at this; cases this
    exact ⟨hs, Or.inr (Or.inr ⟨n, bytes, hst, hb, hn', hf, hok, rfl⟩)⟩

/-- The part of the last packet that is on the wire is a prefix of a whole framed packet. -/
theorem Outbound.OState.part_prefix {o : Outbound} {ok : Bytes → Prop} {part : Bytes} (h : o.OState ok part) :
    part = [] ∨ ∃ rest, Framed (part ++ rest) := by
  cases h with
  | quiet h => exact Or.inl rfl
  | flushing step hs hst => exact Or.inl rfl
  | writing step n bytes hs hst hb hn hf hok =>
    exact Or.inr ⟨bytes.drop (n + 1), by rw [List.take_append_drop]; exact hf⟩

/-! ### Operations that leave the queues quiet -/

theorem Quiet_of_states {o o' : Outbound} (h : o.Quiet) (hc : o'.control = o.control) (hr : o'.release = o.release)
    (hs : o'.retained.map (·.state) = o.retained.map (·.state)) : o'.Quiet := by
  refine ⟨hc ▸ h.control, hr ▸ h.release, ?_⟩
  intro e he
  have : e.state ∈ o'.retained.map (·.state) := List.mem_map.mpr ⟨e, he, rfl⟩
  rw [hs] at this
  obtain ⟨x, hx, hxe⟩ := List.mem_map.mp this
  rw [← hxe]; exact h.retained x hx

theorem Outbound.AllFresh.quiet {o : Outbound} (h : o.AllFresh) : o.Quiet :=
  ⟨h.control, fun e he => fresh_not_inProgress _ (h.release e he), fun e he => fresh_not_inProgress _ (h.retained e he)⟩

theorem Quiet_rearm (o : Outbound) : o.rearm.Quiet := (armReplay_allFresh _).quiet

theorem Quiet_clear (o : Outbound) : o.clear.Quiet := by
  constructor <;> simp [Outbound.clear]

theorem Quiet_compact {o : Outbound} (h : o.Quiet) : o.compact.Quiet :=
  Quiet_of_states h rfl rfl (by simp [compact, compactGo_states])

theorem Quiet_encodeAt {ε : Type} {o : Outbound} (enc : Nat → (Nat → Nat → Bytes) → Except ε (Nat × Bytes))
    (h : o.Quiet) : (o.encodeAt enc).1.Quiet := by
  have hc := Quiet_compact h
  unfold encodeAt
  simp only []
  split
  · exact hc
  · exact Quiet_of_states hc rfl rfl rfl

theorem Quiet_retainPacket {o o' : Outbound} {id off len : Nat} (h : o.Quiet) (hr : o.retainPacket id off len = some o') :
    o'.Quiet := by
  obtain ⟨h1, h2, h3, _⟩ := retainPacket_appends o o' id off len hr
  refine ⟨h2 ▸ h.control, h3 ▸ h.release, ?_⟩
  intro e he
  rw [h1] at he
  rcases List.mem_append.mp he with hm | hm
  · exact h.retained e hm
  · simp only [List.mem_singleton] at hm; subst hm; rfl

theorem Quiet_ackPacket {o : Outbound} (id : Nat) (k : AckKind) (h : o.Quiet) : (o.ackPacket id k).1.Quiet := by
  unfold ackPacket
  simp only []
  split
  · apply Quiet_compact
    exact ⟨h.control, h.release, fun e he => h.retained e ((removeFirst_sublist _ _).subset he)⟩
  · exact h

theorem Quiet_ackRelease {o : Outbound} (id : Nat) (h : o.Quiet) : (o.ackRelease id).1.Quiet := by
  unfold ackRelease
  split
  · exact ⟨h.control, fun e he => h.release e ((removeFirst_sublist _ _).subset he), h.retained⟩
  · exact h

theorem Quiet_queueRelease {o o' : Outbound} {id rc ps : Nat} (h : o.Quiet) (hq : o.queueRelease id rc ps = some o') : o'.Quiet := by
  unfold Outbound.queueRelease at hq
  split at hq
  · simp at hq
  · simp only [Option.some.injEq] at hq; subst hq
    refine ⟨h.control, ?_, h.retained⟩
    intro e he
    rcases List.mem_append.mp he with hm | hm
    · exact h.release e hm
    · simp only [List.mem_singleton] at hm; subst hm; rfl

/-- Handling an inbound packet while nothing is in progress leaves nothing in progress. -/
theorem Quiet_handlePacket (d : SessionData) (r : Runtime) (p : Recv) (hf : d.outbound.Quiet) :
    (handlePacket d r p).1.outbound.Quiet := by
  have hack := fun id k => Quiet_ackPacket (o := d.outbound) id k hf
  cases p with
  | connAck sp rc props => exact hf
  | pingResp => exact hf
  | disconnect rc props => exact hf
  | subAck id props codes =>
    simp only [handlePacket]
    split
    · exact hf
    · split <;> exact hack id .subAck
  | unsubAck id props codes =>
    simp only [handlePacket]
    split
    · exact hf
    · split <;> exact hack id .unsubAck
  | pubAck id rs =>
    simp only [handlePacket]
    split
    · exact hf
    · split <;> exact hack id .pubAck
  | pubComp id rs =>
    simp only [handlePacket]
    split
    · exact hf
    · split <;> exact Quiet_ackRelease _ hf
  | pubRec id rs =>
    simp only [handlePacket]
    split
    · split
      · exact hack id .pubRec
      · split
        · exact hack id .pubRec
        · split
          · exact hack id .pubRec
          · rename_i o' hq
            exact Quiet_queueRelease (hack id .pubRec) hq
    · split
      · split <;> exact hf
      · exact hf
  | pubRel id rs =>
    simp only [handlePacket]
    repeat' split
    all_goals first
      | exact hf
      | exact Outbound.Quiet.queueControl hf (by assumption)
  | publish topic id props payload retain qos dup =>
    simp only [handlePacket]
    repeat' split
    all_goals first
      | exact hf
      | exact Outbound.Quiet.queueControl hf (by assumption)

theorem Quiet_handle (s : Session) (p : Recv) (h : s.data.outbound.Quiet) : (s.handle p).1.data.outbound.Quiet := by
  rw [Session.handle_fst_data]; exact Quiet_handlePacket _ _ _ h

theorem Quiet_takePkt (s : Session) (h : s.data.outbound.Quiet) : s.takePkt.1.data.outbound.Quiet := by
  rw [(Session.takePkt_data s).1]; exact h

theorem Quiet_handleDisconnect (s : Session) : s.handleDisconnect.data.outbound.Quiet := Quiet_rearm _
theorem Quiet_beginConnect (s : Session) : s.beginConnect.data.outbound.Quiet := Quiet_rearm _

theorem Quiet_activate (s : Session) (sp : Bool) (block : Bytes) (now : Nat) (h : s.data.outbound.Quiet) :
    (s.activate sp block now).1.data.outbound.Quiet := by
  unfold Session.activate
  simp only []
  have h0 : (if (!sp) = true then { s with data := s.data.reset } else s).data.outbound.Quiet := by
    split
    · exact Quiet_clear _
    · exact h
  generalize (if (!sp) = true then { s with data := s.data.reset } else s) = s0 at h0 ⊢
  split
  · exact Quiet_rearm _
  · exact h0

theorem Quiet_encode {ε : Type} (s : Session) (enc : Nat → (Nat → Nat → Bytes) → Except ε (Nat × Bytes))
    (h : s.data.outbound.Quiet) : (s.encode enc).1.data.outbound.Quiet := by
  rw [Session.encode_fst]; exact Quiet_encodeAt enc h

theorem alloc_outbound (s : Session) : s.alloc.1.data.outbound = s.data.outbound := by
  rw [Session.alloc_fst]; exact nextPacketId_outbound s.data

theorem Quiet_retain {s s3 : Session} {id off len : Nat} {isPub : Bool} (h : s.data.outbound.Quiet)
    (hr : s.retain id off len isPub = some s3) : s3.data.outbound.Quiet := by
  unfold Session.retain at hr
  split at hr
  · simp at hr
  · rename_i o ho
    simp only [Option.some.injEq] at hr; subst hr
    have := Quiet_retainPacket h ho
    split <;> exact this

theorem OState_queuePing {s s' : Session} {ok : Bytes → Prop} {now : Nat} {part : Bytes} (hq : s.queuePing now = .ok s')
    (h : s.data.outbound.OState ok part) : s'.data.outbound.OState ok part := by
  rcases Session.queuePing_ok hq with rfl | ⟨o, ho, rfl⟩
  · exact h
  · exact h.queueControl ho

/-! ### The reader -/

theorem takePkt_not_avail (s : Session) : s.takePkt.1.reader.packetAvailable = false := by
  unfold Session.takePkt Reader.takePacket
  cases hp : s.reader.packetLength with
  | none => simp [Reader.packetAvailable, hp]
  | some l =>
    simp only []
    split <;> simp [Reader.packetAvailable]

theorem window_fields {s s1 : Session} {n : Nat} (h : s.window = some (s1, n)) :
    s1.data = s.data ∧ s1.rt = s.rt := by
  unfold Session.window at h
  split at h
  · simp at h
  · simp only [Option.some.injEq, Prod.mk.injEq] at h
    obtain ⟨rfl, _⟩ := h
    exact ⟨rfl, rfl⟩

/-- A non-empty window is offered only while the packet is incomplete. -/
theorem window_not_avail {s s1 : Session} {n : Nat} (h : s.window = some (s1, n)) (hn : n ≠ 0) :
    s1.reader.packetAvailable = false := by
  unfold Session.window at h
  split at h
  · simp at h
  · rename_i rd k hrw
    simp only [Option.some.injEq, Prod.mk.injEq] at h
    obtain ⟨rfl, rfl⟩ := h
    simp only []
    unfold Reader.receiveWindow at hrw
    simp only [] at hrw
    split at hrw
    · simp at hrw
    · rename_i r2 hr2
      cases hpl : r2.packetLength with
      | none =>
        rw [hpl] at hrw
        simp only [] at hrw
        split at hrw
        · simp only [Option.some.injEq, Prod.mk.injEq] at hrw
          obtain ⟨rfl, _⟩ := hrw
          simp [Reader.packetAvailable, hpl]
        · simp at hrw
      | some l =>
        rw [hpl] at hrw
        simp only [] at hrw
        split at hrw
        · simp only [Option.some.injEq, Prod.mk.injEq] at hrw
          obtain ⟨rfl, rfl⟩ := hrw
          simp only [Reader.packetAvailable, hpl, decide_eq_false_iff_not, Nat.not_le]
          simp only [Reader.readBytes] at hn ⊢
          omega
        · simp at hrw

theorem handle_reader (s : Session) (p : Recv) : (s.handle p).1.reader = s.reader := by
  unfold Session.handle
  cases handlePacket s.data s.rt p with
  | mk d r => cases r; rfl

theorem setWritten_reader (s : Session) (pkt : Flushed) (a c : Nat) : (s.setWritten pkt a c).reader = s.reader := rfl
theorem completeFlush_reader (s : Session) (pkt : Flushed) (now : Nat) : (s.completeFlush pkt now).reader = s.reader := rfl

theorem queuePing_reader {s s' : Session} {now : Nat} (hq : s.queuePing now = .ok s') : s'.reader = s.reader := by
  rcases Session.queuePing_ok hq with rfl | ⟨o, _, rfl⟩ <;> rfl

theorem encode_reader {ε : Type} (s : Session) (enc : Nat → (Nat → Nat → Bytes) → Except ε (Nat × Bytes)) :
    (s.encode enc).1.reader = s.reader := by
  rw [Session.encode_fst]; rfl

theorem alloc_reader (s : Session) : s.alloc.1.reader = s.reader := by
  rw [Session.alloc_fst]

theorem retain_reader {s s3 : Session} {id off len : Nat} {isPub : Bool} (hr : s.retain id off len isPub = some s3) :
    s3.reader = s.reader := by
  unfold Session.retain at hr
  split at hr
  · simp at hr
  · simp only [Option.some.injEq] at hr; subst hr
    split <;> rfl

theorem activate_reader (s : Session) (sp : Bool) (block : Bytes) (now : Nat) :
    (s.activate sp block now).2 = .ok () → (s.activate sp block now).1.reader = s.reader := by
  unfold Session.activate
  simp only []
  split
  · intro h; simp at h
  · intro _
    split <;> rfl

end Minimq
