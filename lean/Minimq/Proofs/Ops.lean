import Minimq.Directive
/-
Small facts about the operation machines used by several property files.
-/
namespace Minimq
open Gen World

/-- A dead handle: a connection exists, it is not live, no operation is suspended. -/
def World.dead (w : World) : Prop := (∃ c, w.conn = some c ∧ c.live = false) ∧ w.fut = none

theorem dead_live_false {w : World} (h : w.dead) : w.live = false := by
  obtain ⟨⟨c, hc, hl⟩, _⟩ := h
  simp [World.live, hc, hl]

@[simp] theorem finish_conn (w : World) (l : String) : (w.finish l).conn = w.conn := rfl
@[simp] theorem finish_nets (w : World) (l : String) : (w.finish l).nets = w.nets := rfl
@[simp] theorem finish_sess (w : World) (l : String) : (w.finish l).sess = w.sess := rfl
@[simp] theorem finish_fut (w : World) (l : String) : (w.finish l).fut = none := rfl
@[simp] theorem finishErr_conn (w : World) (o : String) (e : Err) : (w.finishErr o e).conn = w.conn := rfl
@[simp] theorem finishErr_nets (w : World) (o : String) (e : Err) : (w.finishErr o e).nets = w.nets := rfl
@[simp] theorem finishErr_sess (w : World) (o : String) (e : Err) : (w.finishErr o e).sess = w.sess := rfl
@[simp] theorem finishErr_fut (w : World) (o : String) (e : Err) : (w.finishErr o e).fut = none := rfl
@[simp] theorem finishErr_lastRes (w : World) (o : String) (e : Err) : (w.finishErr o e).lastRes = some (.error e) := rfl
@[simp] theorem finish_lastRes (w : World) (l : String) : (w.finish l).lastRes = some (.ok ()) := rfl

/-- `discFail` is the identity except in the flush loop that precedes DISCONNECT. -/
theorem discFail_cases (w : World) (ctx : StepCtx) :
    (w.discFail ctx = w ∧ ∀ d, ctx ≠ .flush (.discPre d)) ∨
    (w.discFail ctx = w.handleDisconnect ∧ ∃ d, ctx = .flush (.discPre d)) := by
  unfold World.discFail
  split
  · exact .inr ⟨rfl, _, rfl⟩
  · rename_i hne; exact .inl ⟨rfl, fun d hd => hne d hd⟩
@[simp] theorem discFail_drive (w : World) (a : Bool) (o : Outer) : w.discFail (.drive a o) = w := rfl
@[simp] theorem discFail_discPre (w : World) (d : Disconnect) :
    w.discFail (.flush (.discPre d)) = w.handleDisconnect := rfl
@[simp] theorem discFail_post (w : World) (n : String) (op : Op) : w.discFail (.flush (.post n op)) = w := rfl
@[simp] theorem discFail_publishPre (w : World) (r) : w.discFail (.flush (.publishPre r)) = w := rfl
@[simp] theorem discFail_subPre (w : World) (r) : w.discFail (.flush (.subPre r)) = w := rfl
@[simp] theorem discFail_unsubPre (w : World) (r) : w.discFail (.flush (.unsubPre r)) = w := rfl
@[simp] theorem discFail_nets (w : World) (ctx : StepCtx) : (w.discFail ctx).nets = w.nets := by
  rcases discFail_cases w ctx with ⟨h, _⟩ | ⟨h, _⟩ <;> rw [h] <;> rfl
@[simp] theorem discFail_wakes (w : World) (ctx : StepCtx) : (w.discFail ctx).wakes = w.wakes := by
  rcases discFail_cases w ctx with ⟨h, _⟩ | ⟨h, _⟩ <;> rw [h] <;> rfl
@[simp] theorem discFail_out (w : World) (ctx : StepCtx) : (w.discFail ctx).out = w.out := by
  rcases discFail_cases w ctx with ⟨h, _⟩ | ⟨h, _⟩ <;> rw [h] <;> rfl
@[simp] theorem discFail_now (w : World) (ctx : StepCtx) : (w.discFail ctx).now = w.now := by
  rcases discFail_cases w ctx with ⟨h, _⟩ | ⟨h, _⟩ <;> rw [h] <;> rfl
@[simp] theorem discFail_slot (w : World) (ctx : StepCtx) : (w.discFail ctx).slot = w.slot := by
  rcases discFail_cases w ctx with ⟨h, _⟩ | ⟨h, _⟩ <;> rw [h] <;> rfl
@[simp] theorem discFail_fut (w : World) (ctx : StepCtx) : (w.discFail ctx).fut = w.fut := by
  rcases discFail_cases w ctx with ⟨h, _⟩ | ⟨h, _⟩ <;> rw [h] <;> rfl

theorem failStep_cases (w : World) (ctx : StepCtx) (step : Outbound.Step) :
    w.failStep ctx step = w ∨ w.failStep ctx step = w.handleDisconnect := by
  cases step with
  | retained id off len st =>
    show w.discFail ctx = w ∨ w.discFail ctx = w.handleDisconnect
    rcases discFail_cases w ctx with ⟨e, _⟩ | ⟨e, _⟩
    · exact .inl e
    · exact .inr e
  | control a st => exact .inr rfl
  | release id rc st => exact .inr rfl
@[simp] theorem failStep_retained (w : World) (ctx : StepCtx) (id off len : Nat) (st : SendState) :
    w.failStep ctx (.retained id off len st) = w.discFail ctx := rfl
@[simp] theorem failStep_control (w : World) (ctx : StepCtx) (a : ControlAction) (st : SendState) :
    w.failStep ctx (.control a st) = w.handleDisconnect := rfl
@[simp] theorem failStep_release (w : World) (ctx : StepCtx) (id rc : Nat) (st : SendState) :
    w.failStep ctx (.release id rc st) = w.handleDisconnect := rfl
@[simp] theorem failStep_wakes (w : World) (ctx : StepCtx) (s : Outbound.Step) : (w.failStep ctx s).wakes = w.wakes := by
  rcases failStep_cases w ctx s with h | h <;> rw [h] <;> rfl
@[simp] theorem failStep_out (w : World) (ctx : StepCtx) (s : Outbound.Step) : (w.failStep ctx s).out = w.out := by
  rcases failStep_cases w ctx s with h | h <;> rw [h] <;> rfl
@[simp] theorem failStep_nets (w : World) (ctx : StepCtx) (s : Outbound.Step) : (w.failStep ctx s).nets = w.nets := by
  rcases failStep_cases w ctx s with h | h <;> rw [h] <;> rfl
@[simp] theorem failStep_fut (w : World) (ctx : StepCtx) (s : Outbound.Step) : (w.failStep ctx s).fut = w.fut := by
  rcases failStep_cases w ctx s with h | h <;> rw [h] <;> rfl
@[simp] theorem failStep_slot (w : World) (ctx : StepCtx) (s : Outbound.Step) : (w.failStep ctx s).slot = w.slot := by
  rcases failStep_cases w ctx s with h | h <;> rw [h] <;> rfl

@[simp] theorem discDone_zero (w : World) : w.discDone 0 = w := rfl
@[simp] theorem discDone_one (w : World) : w.discDone 1 = w := rfl
@[simp] theorem discDone_two (w : World) : w.discDone 2 = w.handleDisconnect := rfl
theorem discDone_cases (w : World) (which : Nat) :
    (w.discDone which = w ∧ (which = 0 ∨ which = 1)) ∨
    (w.discDone which = w.handleDisconnect ∧ which ≠ 0 ∧ which ≠ 1) := by
  unfold World.discDone
  split
  · exact .inl ⟨rfl, .inl ‹_›⟩
  · split
    · exact .inl ⟨rfl, .inr ‹_›⟩
    · exact .inr ⟨rfl, ‹_›, ‹_›⟩
@[simp] theorem discDone_wakes (w : World) (k : Nat) : (w.discDone k).wakes = w.wakes := by
  rcases discDone_cases w k with ⟨h, _⟩ | ⟨h, _⟩ <;> rw [h] <;> rfl
@[simp] theorem discDone_out (w : World) (k : Nat) : (w.discDone k).out = w.out := by
  rcases discDone_cases w k with ⟨h, _⟩ | ⟨h, _⟩ <;> rw [h] <;> rfl
@[simp] theorem discDone_slot (w : World) (k : Nat) : (w.discDone k).slot = w.slot := by
  rcases discDone_cases w k with ⟨h, _⟩ | ⟨h, _⟩ <;> rw [h] <;> rfl
@[simp] theorem discDone_nets (w : World) (k : Nat) : (w.discDone k).nets = w.nets := by
  rcases discDone_cases w k with ⟨h, _⟩ | ⟨h, _⟩ <;> rw [h] <;> rfl
@[simp] theorem discDone_fut (w : World) (k : Nat) : (w.discDone k).fut = w.fut := by
  rcases discDone_cases w k with ⟨h, _⟩ | ⟨h, _⟩ <;> rw [h] <;> rfl

theorem driveEnter_dead (w : World) (o : Outer) (hl : w.live = false) :
    driveEnter pollFuel w o = w.finishErr (outerName o) .disconnected := by
  show driveEnter (3999 + 1) w o = _
  simp [driveEnter, hl]

@[simp] theorem handleDisconnect_live (w : World) : (w.handleDisconnect).live = false := by
  unfold World.handleDisconnect World.live
  cases w.conn <;> simp

@[simp] theorem finishErr_live (w : World) (o : String) (e : Err) : (w.finishErr o e).live = w.live := rfl
@[simp] theorem finish_live (w : World) (l : String) : (w.finish l).live = w.live := rfl

theorem ioWrite_fault (w : World) (bytes : Bytes) (k : Nat) (hs : w.slot = some k) (hk : 252 ≤ k) :
    ∃ w', w.ioWrite bytes = (w', .err k) ∧ w'.conn = w.conn ∧ w'.nets = w.nets := by
  unfold World.ioWrite
  rw [hs]
  simp only []
  rw [if_neg (by omega), if_neg (by omega)]
  exact ⟨_, rfl, rfl, rfl⟩

theorem ioFlush_fault (w : World) (k : Nat) (hs : w.slot = some k) (hk : 252 ≤ k) :
    ∃ w', w.ioFlush = (w', .err k) ∧ w'.conn = w.conn ∧ w'.nets = w.nets := by
  unfold World.ioFlush
  rw [hs]
  simp only []
  rw [if_neg (by omega)]
  exact ⟨_, rfl, rfl, rfl⟩

end Minimq
