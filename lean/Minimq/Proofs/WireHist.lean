import Minimq.Proofs.WireTop
/-
Lifting for predicates on the session *and the transmission log*: the session changes only through the
primitives (`Prim`), the log only through `World.setWritten`; a predicate preserved by both is an
invariant of every program. Architecture of `Proofs/Lift.lean`.

Instance (`Hist`): every log entry of a retained packet, on whichever transport it was written, carries
the bytes of that packet up to the DUP bit — the same as every other entry with that serial, and the
same as the arena holds now if the packet is still retained.
-/
namespace Minimq
open Gen World Outbound

/-- What it takes for a predicate on session and log to be an invariant of every execution. -/
structure HClosed (H : Session → List LogEntry → Prop) : Prop where
  prim : ∀ {s s' : Session} (l : List LogEntry), Prim s s' → H s l → H s' l
  done : ∀ (w : World) (pkt : Flushed) (a c : Nat), H w.sess w.log →
    H (w.setWritten pkt a c).sess (w.setWritten pkt a c).log

def HQ (H : Session → List LogEntry → Prop) (w : World) : Prop := H w.sess w.log

theorem ioFlush_log (w : World) : (w.ioFlush).1.log = w.log := by
  unfold World.ioFlush
  cases w.slot with
  | none => rfl
  | some k => simp only []; split <;> rfl

section
variable {H : Session → List LogEntry → Prop} (hc : HClosed H)
include hc

omit hc in
theorem HQ.eq {w w' : World} (h : HQ H w) (hs : w'.sess = w.sess) (hl : w'.log = w.log) : HQ H w' := by
  unfold HQ; rw [hs, hl]; exact h

theorem HQ.step {w w' : World} (h : HQ H w) (hp : Prim w.sess w'.sess) (hl : w'.log = w.log) : HQ H w' := by
  unfold HQ; rw [hl]; exact hc.prim _ hp h

omit hc in
theorem HQ.ioWrite {w w' : World} {bs : Bytes} {r : WriteRes} (heq : w.ioWrite bs = (w', r)) (h : HQ H w) : HQ H w' :=
  h.eq (io_write_sess' heq) (by have := ioWrite_log w bs; rw [heq] at this; exact this)
omit hc in
theorem HQ.ioFlush {w w' : World} {r : FlushRes} (heq : w.ioFlush = (w', r)) (h : HQ H w) : HQ H w' :=
  h.eq (io_flush_sess' heq) (by have := ioFlush_log w; rw [heq] at this; exact this)
omit hc in
theorem HQ.ioRead {w w' : World} {n : Nat} {r : ReadRes} (heq : w.ioRead n = (w', r)) (h : HQ H w) : HQ H w' :=
  h.eq (io_read_sess' heq) (by have := ioRead_log w n; rw [heq] at this; exact this)

theorem HQ.hd (w : World) (h : HQ H w) : HQ H w.handleDisconnect := HQ.step hc h (Prim.handleDisconnect _) rfl

theorem HQ.fs (w : World) (ctx : StepCtx) (st : Outbound.Step) (h : HQ H w) : HQ H (w.failStep ctx st) := by
  rcases failStep_cases w ctx st with e | e <;> rw [e]
  · exact h
  · exact HQ.hd hc _ h

theorem HQ.df (w : World) (ctx : StepCtx) (h : HQ H w) : HQ H (w.discFail ctx) := by
  rcases discFail_cases w ctx with ⟨e, _⟩ | ⟨e, _⟩ <;> rw [e]
  · exact h
  · exact HQ.hd hc _ h

omit hc in
theorem deliver_log (w : World) (n : String) (len : Nat) : (w.deliver n len).log = w.log := by
  unfold World.deliver
  simp only []
  have : ∀ (ls : List String) (w0 : World), (ls.foldl World.emit w0).log = w0.log := by
    intro ls; induction ls with
    | nil => intro w0; rfl
    | cons l ls ih => intro w0; simp only [List.foldl]; exact (ih _).trans rfl
  split
  · exact (this _ _).trans rfl
  · rfl

theorem HQ.processReceivedPacket (w : World) (h : HQ H w) : HQ H (w.processReceivedPacket).1 := by
  unfold World.processReceivedPacket
  split
  · exact h
  · simp only []
    have h1 : HQ H { w with sess := w.sess.takePkt.1 } := HQ.step hc h (Prim.takePkt _) rfl
    split
    · exact HQ.hd hc _ h1
    · rename_i len pkt hres
      have h2 : HQ H { ({ w with sess := w.sess.takePkt.1 } : World) with sess := (w.sess.takePkt.1.handle pkt).1 } :=
        HQ.step hc h1 (Prim.handle _ pkt) rfl
      split <;> first | exact h2 | exact HQ.hd hc _ h2

theorem HQ.activate (w : World) (sp : Bool) (block : Bytes) (h : HQ H w) : HQ H (World.activate w sp block) := by
  unfold World.activate
  split
  · rename_i s e heq
    have hp : Prim w.sess s := by
      have := Prim.activate w.sess sp block w.now; rw [heq] at this; exact this
    exact HQ.step hc h hp rfl
  · rename_i s heq
    have hp : Prim w.sess s := by
      have := Prim.activate w.sess sp block w.now; rw [heq] at this; exact this
    exact HQ.step hc h hp rfl

theorem HQ.connectGotPacket (w : World) (h : HQ H w) : HQ H (World.connectGotPacket w) := by
  unfold World.connectGotPacket
  simp only []
  have h1 : HQ H { w with sess := w.sess.takePkt.1 } := HQ.step hc h (Prim.takePkt _) rfl
  split
  · exact (HQ.hd hc _ h1).eq rfl rfl
  · split
    · exact h1.eq rfl rfl
    · exact HQ.activate hc _ _ _ h1
  · exact (HQ.hd hc _ h1).eq rfl rfl
  · exact (HQ.hd hc _ h1).eq rfl rfl

theorem HQ.maybeQueuePingreq {w w' : World} {now : Nat} (heq : w.maybeQueuePingreq now = .ok w') (h : HQ H w) : HQ H w' := by
  unfold World.maybeQueuePingreq at heq
  split at heq
  · simp at heq
  · rename_i s hs
    simp at heq; subst heq
    exact HQ.step hc h (Prim.queuePing _ _ _ hs) rfl

/-- The statement proved for all thirteen mutually recursive machine functions at once. -/
def HMachine (H : Session → List LogEntry → Prop) (fuel : Nat) : Prop :=
  (∀ w k, HQ H w → HQ H (flushLoop fuel w k)) ∧
  (∀ w ctx step now, HQ H w → HQ H (performStep fuel w ctx step now)) ∧
  (∀ w ctx pkt bytes wr len now, HQ H w → HQ H (doStepWrite fuel w ctx pkt bytes wr len now)) ∧
  (∀ w ctx pkt now, HQ H w → HQ H (doStepFlush fuel w ctx pkt now)) ∧
  (∀ w ctx adv, HQ H w → HQ H (stepReturned fuel w ctx adv)) ∧
  (∀ w k, HQ H w → HQ H (afterFlush fuel w k)) ∧
  (∀ w which bytes, HQ H w → HQ H (doLocalWrite fuel w which bytes)) ∧
  (∀ w which, HQ H w → HQ H (doLocalFlush fuel w which)) ∧
  (∀ w, HQ H w → HQ H (doConnRead fuel w)) ∧
  (∀ w o adv, HQ H w → HQ H (driveLoop fuel w o adv)) ∧
  (∀ w o adv, HQ H w → HQ H (driveAfterService fuel w o adv)) ∧
  (∀ w o, HQ H w → HQ H (driveEnter fuel w o)) ∧
  (∀ w o d y, HQ H w → HQ H (doWaitRead fuel w o d y))

omit hc in
theorem hmachine_zero : HMachine H 0 := by
  refine ⟨?_, ?_, ?_, ?_, ?_, ?_, ?_, ?_, ?_, ?_, ?_, ?_, ?_⟩ <;> intros <;>
    simp only [flushLoop, performStep, doStepWrite, doStepFlush, stepReturned, afterFlush, doLocalWrite, doLocalFlush,
      doConnRead, driveLoop, driveAfterService, driveEnter, doWaitRead] <;> assumption

omit hc in
theorem hstep_stepReturned (fuel : Nat) (ih : HMachine H fuel) :
    ∀ w ctx adv, HQ H w → HQ H (stepReturned (fuel + 1) w ctx adv) := by
  intro w ctx adv h
  obtain ⟨i1, _, _, _, _, _, _, _, _, _, i11, _, _⟩ := ih
  unfold stepReturned
  split
  · exact i1 _ _ h
  · exact i11 _ _ _ h

theorem hstep_doStepFlush (fuel : Nat) (ih : HMachine H fuel) :
    ∀ w ctx pkt now, HQ H w → HQ H (doStepFlush (fuel + 1) w ctx pkt now) := by
  intro w ctx pkt now h
  obtain ⟨_, _, _, _, i5, _⟩ := ih
  simp only [doStepFlush]
  split
  · rename_i w' heq; exact (h.ioFlush heq).eq rfl rfl
  · rename_i w' k heq; exact (HQ.hd hc _ (h.ioFlush heq)).eq rfl rfl
  · rename_i w' heq
    exact i5 _ _ _ (HQ.step hc (h.ioFlush heq) (Prim.completeFlush _ pkt now) rfl)

theorem hstep_doStepWrite (fuel : Nat) (ih : HMachine H fuel) :
    ∀ w ctx pkt bytes wr len now, HQ H w → HQ H (doStepWrite (fuel + 1) w ctx pkt bytes wr len now) := by
  intro w ctx pkt bytes wr len now h
  obtain ⟨_, _, _, i4, i5, _⟩ := ih
  simp only [doStepWrite]
  split
  · rename_i w' heq; exact (h.ioWrite heq).eq rfl rfl
  · rename_i w' heq; exact (HQ.df hc _ _ (h.ioWrite heq)).eq rfl rfl
  · rename_i w' k heq; exact (HQ.hd hc _ (h.ioWrite heq)).eq rfl rfl
  · rename_i w' count heq
    have h2 : HQ H (w'.setWritten pkt (wr + count) len) := hc.done w' pkt (wr + count) len (h.ioWrite heq)
    split
    · exact i5 _ _ _ h2
    · exact i4 _ _ _ _ h2

theorem hstep_performStep (fuel : Nat) (ih : HMachine H fuel) :
    ∀ w ctx step now, HQ H w → HQ H (performStep (fuel + 1) w ctx step now) := by
  intro w ctx step now h
  obtain ⟨_, _, i3, i4, i5, _⟩ := ih
  simp only [performStep]
  split
  · exact (HQ.fs hc _ _ _ h).eq rfl rfl
  · exact i5 _ _ _ h
  · split
    · exact (HQ.df hc _ _ h).eq rfl rfl
    · exact i4 _ _ _ _ h
  · split
    · exact (HQ.df hc _ _ h).eq rfl rfl
    · exact i3 _ _ _ _ _ _ _ h

theorem hstep_flushLoop (fuel : Nat) (ih : HMachine H fuel) :
    ∀ w k, HQ H w → HQ H (flushLoop (fuel + 1) w k) := by
  intro w k h
  obtain ⟨_, i2, _, _, _, i6, _⟩ := ih
  simp only [flushLoop]
  split
  · exact (HQ.df hc _ _ h).eq rfl rfl
  · rename_i w' heq
    have h' := HQ.maybeQueuePingreq hc heq h
    split
    · exact i6 _ _ h'
    · exact i2 _ _ _ _ h'

omit hc in
theorem hstep_driveEnter (fuel : Nat) (ih : HMachine H fuel) :
    ∀ w o, HQ H w → HQ H (driveEnter (fuel + 1) w o) := by
  intro w o h
  obtain ⟨_, _, _, _, _, _, _, _, _, i10, _⟩ := ih
  simp only [driveEnter]
  split
  · exact h.eq rfl rfl
  · exact i10 _ _ _ h

theorem hstep_doLocalFlush (fuel : Nat) (ih : HMachine H fuel) :
    ∀ w which, HQ H w → HQ H (doLocalFlush (fuel + 1) w which) := by
  intro w which h
  obtain ⟨_, _, _, _, _, _, _, _, i9, _⟩ := ih
  simp only [doLocalFlush]
  split
  · rename_i w' heq; exact (h.ioFlush heq).eq rfl rfl
  · rename_i w' k heq
    have hs := h.ioFlush heq
    split
    · exact hs.eq rfl rfl
    · split <;> exact (HQ.hd hc _ hs).eq rfl rfl
  · rename_i w' heq
    have hs := h.ioFlush heq
    split
    · exact i9 _ (HQ.step hc hs (Prim.clearPing _) rfl)
    · split
      · exact (HQ.step hc hs (Prim.noteActivity _ w'.now) rfl : HQ H { w' with sess := w'.sess.noteActivity w'.now }).eq rfl rfl
      · exact (HQ.hd hc _ hs).eq rfl rfl

theorem hstep_doLocalWrite (fuel : Nat) (ih : HMachine H fuel) :
    ∀ w which bytes, HQ H w → HQ H (doLocalWrite (fuel + 1) w which bytes) := by
  intro w which bytes h
  obtain ⟨_, _, _, _, _, _, i7, i8, _⟩ := ih
  simp only [doLocalWrite]
  split
  · apply i8
    rcases discDone_cases w which with ⟨e, _⟩ | ⟨e, _⟩ <;> rw [e]
    · exact h
    · exact HQ.hd hc _ h
  · split
    · rename_i w' heq; exact (h.ioWrite heq).eq rfl rfl
    · rename_i w' n heq; exact i7 _ _ _ (h.ioWrite heq)
    · rename_i w' heq
      have hs := h.ioWrite heq
      split
      · exact hs.eq rfl rfl
      · split <;> exact (HQ.hd hc _ hs).eq rfl rfl
    · rename_i w' k heq
      have hs := h.ioWrite heq
      split
      · exact hs.eq rfl rfl
      · split <;> exact (HQ.hd hc _ hs).eq rfl rfl

theorem hstep_doConnRead (fuel : Nat) (ih : HMachine H fuel) :
    ∀ w, HQ H w → HQ H (doConnRead (fuel + 1) w) := by
  intro w h
  obtain ⟨_, _, _, _, _, _, _, _, i9, _⟩ := ih
  simp only [doConnRead]
  split
  · exact HQ.connectGotPacket hc _ h
  · split
    · exact (HQ.hd hc _ h).eq rfl rfl
    · rename_i s1 window hw
      have h1 : HQ H { w with sess := s1 } := HQ.step hc h (Prim.window _ _ _ hw) rfl
      split
      · exact HQ.connectGotPacket hc _ h1
      · split
        · rename_i w' heq; exact (h1.ioRead heq).eq rfl rfl
        · rename_i w' heq; exact (HQ.hd hc _ (h1.ioRead heq)).eq rfl rfl
        · rename_i w' k heq; exact (HQ.hd hc _ (h1.ioRead heq)).eq rfl rfl
        · rename_i w' bytes heq
          exact i9 _ (HQ.step hc (h1.ioRead heq) (Prim.commit _ bytes) rfl)

theorem hstep_doWaitRead (fuel : Nat) (ih : HMachine H fuel) :
    ∀ w o d y, HQ H w → HQ H (doWaitRead (fuel + 1) w o d y) := by
  intro w o d y h
  obtain ⟨_, _, _, _, _, _, _, _, _, _, _, i12, i13⟩ := ih
  simp only [doWaitRead]
  split
  · exact i12 _ _ h
  · split
    · exact (HQ.hd hc _ h).eq rfl rfl
    · rename_i s1 window hw
      have h1 : HQ H { w with sess := s1 } := HQ.step hc h (Prim.window _ _ _ hw) rfl
      split
      · exact i12 _ _ h1
      · split
        · rename_i w' heq; exact (HQ.hd hc _ (h1.ioRead heq)).eq rfl rfl
        · rename_i w' k heq; exact (HQ.hd hc _ (h1.ioRead heq)).eq rfl rfl
        · rename_i w' bytes heq
          exact i13 _ _ _ _ (HQ.step hc (h1.ioRead heq) (Prim.commit _ bytes) rfl)
        · rename_i w' heq
          have hs := h1.ioRead heq
          split
          · exact hs.eq rfl rfl
          · split
            · split
              · exact i12 _ _ hs
              · split
                · exact hs.eq rfl rfl
                · exact i13 _ _ _ _ (hs.eq rfl rfl)
            · exact hs.eq rfl rfl

theorem hstep_driveLoop (fuel : Nat) (ih : HMachine H fuel) :
    ∀ w o adv, HQ H w → HQ H (driveLoop (fuel + 1) w o adv) := by
  intro w o adv h
  obtain ⟨_, i2, _, _, _, _, _, _, _, i10, i11, _, _⟩ := ih
  simp only [driveLoop]
  split
  · have h1 := HQ.processReceivedPacket hc w h
    split
    · rename_i w' e heq; rw [heq] at h1; exact h1.eq rfl rfl
    · rename_i w' len heq; rw [heq] at h1; exact h1.eq (deliver_sess _ _ _) (deliver_log _ _ _)
    · rename_i w' heq; rw [heq] at h1; exact i10 _ _ _ h1
  · repeat' split
    all_goals first
      | exact (HQ.hd hc _ h).eq rfl rfl
      | exact h.eq rfl rfl
      | exact i11 _ _ _ (HQ.maybeQueuePingreq hc (by assumption) h)
      | exact i2 _ _ _ _ (HQ.maybeQueuePingreq hc (by assumption) h)

theorem hstep_driveAfterService (fuel : Nat) (ih : HMachine H fuel) :
    ∀ w o adv, HQ H w → HQ H (driveAfterService (fuel + 1) w o adv) := by
  intro w o adv h
  obtain ⟨_, _, _, _, _, _, _, _, _, i10, _, i12, i13⟩ := ih
  unfold driveAfterService
  split
  · have h1 := HQ.processReceivedPacket hc w h
    split
    · rename_i w' e heq; rw [heq] at h1; exact h1.eq rfl rfl
    · rename_i w' len heq; rw [heq] at h1; exact h1.eq (deliver_sess _ _ _) (deliver_log _ _ _)
    · rename_i w' heq; rw [heq] at h1; exact i10 _ _ _ h1
  · split
    · split
      · split
        · exact h.eq rfl rfl
        · exact h.eq rfl rfl
        · exact i12 _ _ h
      · split
        · exact h.eq rfl rfl
        · exact i13 _ _ _ _ h
    · exact i10 _ _ _ h

theorem hstep_afterFlush (fuel : Nat) (ih : HMachine H fuel) :
    ∀ w k, HQ H w → HQ H (afterFlush (fuel + 1) w k) := by
  intro w k h
  obtain ⟨i1, _, _, _, _, _, i7, _⟩ := ih
  unfold afterFlush
  cases k with
  | post name op => exact h.eq rfl rfl
  | discPre d =>
    simp only []
    repeat' split
    all_goals first
      | exact h.eq rfl rfl
      | exact i7 _ _ _ h
  | subPre r =>
    simp only []
    split
    · exact h.eq rfl rfl
    · have hE := EncOk_encodeWithOffset (subscribeChunks w.sess.alloc.2 (.slice r.props) r.topics) MT_Subscribe FLAGS_Subscribe
      have ha : HQ H { ({ w with sess := w.sess.alloc.1 } : World) with sess := (w.sess.alloc.1.encode (fun cap _ =>
          encodeWithOffset cap (subscribeChunks w.sess.alloc.2 (.slice r.props) r.topics) MT_Subscribe FLAGS_Subscribe)).1 } :=
        HQ.step hc h (Prim.encodeAfterAlloc w.sess _ hE) rfl
      split
      · exact ha.eq rfl rfl
      · split
        · exact ha.eq rfl rfl
        · split
          · exact ha.eq rfl rfl
          · rename_i s3 hs3
            apply i1
            rename_i _ off len hres _ _
            exact HQ.step hc h (Prim.enqueue w.sess _ off len false s3 _ hE (EncTyp_encodeWithOffset _ _ _ (by decide))
              (by decide) (by simp) hres hs3) rfl
  | unsubPre r =>
    simp only []
    split
    · exact h.eq rfl rfl
    · have hE := EncOk_encodeWithOffset (unsubscribeChunks w.sess.alloc.2 (.slice r.props) r.topics) MT_Unsubscribe FLAGS_Unsubscribe
      have ha : HQ H { ({ w with sess := w.sess.alloc.1 } : World) with sess := (w.sess.alloc.1.encode (fun cap _ =>
          encodeWithOffset cap (unsubscribeChunks w.sess.alloc.2 (.slice r.props) r.topics) MT_Unsubscribe FLAGS_Unsubscribe)).1 } :=
        HQ.step hc h (Prim.encodeAfterAlloc w.sess _ hE) rfl
      split
      · exact ha.eq rfl rfl
      · split
        · exact ha.eq rfl rfl
        · split
          · exact ha.eq rfl rfl
          · rename_i s3 hs3
            apply i1
            rename_i _ off len hres _ _
            exact HQ.step hc h (Prim.enqueue w.sess _ off len false s3 _ hE (EncTyp_encodeWithOffset _ _ _ (by decide))
              (by decide) (by simp) hres hs3) rfl
  | publishPre r =>
    simp only []
    split
    · exact h.eq rfl rfl
    · generalize effectiveQos w.sess.rt.maxQos w.sess.downgrade r.qos = qos
      split
      · have h1 : HQ H { w with sess := w.sess.alloc.1 } := HQ.step hc h (Prim.alloc _) rfl
        split
        · exact h1.eq rfl rfl
        · split
          · exact h1.eq rfl rfl
          · rename_i hcan
            have hE := EncOk_encodePublish { topic := r.topic, packetId := some w.sess.alloc.2, props := r.props, retain := r.retain, qos := qos, dup := false } r.payload
            have ha : HQ H { ({ w with sess := w.sess.alloc.1 } : World) with sess := (w.sess.alloc.1.encode (fun cap fill =>
                encodePublishWithOffset cap { topic := r.topic, packetId := some w.sess.alloc.2, props := r.props, retain := r.retain, qos := qos, dup := false } r.payload fill)).1 } :=
              HQ.step hc h (Prim.encodeAfterAlloc w.sess _ hE) rfl
            split
            · exact ha.eq rfl rfl
            · split
              · exact ha.eq rfl rfl
              · split
                · exact ha.eq rfl rfl
                · rename_i s3 hs3
                  apply i1
                  rename_i _ off len hres _ _
                  refine HQ.step hc h (Prim.enqueue w.sess _ off len true s3 _ hE (EncTyp_encodePublish _ _) (by decide) ?_ hres hs3) rfl
                  intro _
                  have hq : qos ≠ 0 := by omega
                  have hcp : canPublishS w.sess.alloc.1.data w.sess.alloc.1.rt qos = true := by
                    simp at hcan; exact hcan.2
                  simp only [canPublishS, hq, if_false, Bool.and_eq_true, ne_eq, decide_eq_true_eq] at hcp
                  have hrt : w.sess.alloc.1.rt = w.sess.rt := rfl
                  rw [hrt] at hcp
                  exact hcp.1
      · split
        · exact h.eq rfl rfl
        · have hE := EncOk_encodePublish { topic := r.topic, packetId := none, props := r.props, retain := r.retain, qos := 0, dup := false } r.payload
          have ha : HQ H { w with sess := (w.sess.encode (fun cap fill => encodePublishWithOffset cap
              { topic := r.topic, packetId := none, props := r.props, retain := r.retain, qos := 0, dup := false } r.payload fill)).1 } :=
            HQ.step hc h (Prim.encodeScratch w.sess _ hE) rfl
          split
          · exact ha.eq rfl rfl
          · split
            · exact ha.eq rfl rfl
            · exact i7 _ _ _ ha

theorem hmachine : ∀ fuel, HMachine H fuel := by
  intro fuel
  induction fuel with
  | zero => exact hmachine_zero
  | succ fuel ih =>
    exact ⟨hstep_flushLoop hc fuel ih, hstep_performStep hc fuel ih, hstep_doStepWrite hc fuel ih,
      hstep_doStepFlush hc fuel ih, hstep_stepReturned fuel ih, hstep_afterFlush hc fuel ih,
      hstep_doLocalWrite hc fuel ih, hstep_doLocalFlush hc fuel ih, hstep_doConnRead hc fuel ih,
      hstep_driveLoop hc fuel ih, hstep_driveAfterService hc fuel ih, hstep_driveEnter fuel ih,
      hstep_doWaitRead hc fuel ih⟩


theorem hpoll (w : World) (h : HQ H w) : HQ H (World.poll w) := by
  obtain ⟨_, _, i3, i4, _, _, i7, i8, i9, _, _, _, i13⟩ := hmachine hc pollFuel
  unfold World.poll
  simp only []
  split
  · exact h.eq rfl rfl
  · have h1 : HQ H { ({ w with wakes := 0, lastIoStarved := false } : World) with fut := none } := h.eq rfl rfl
    split
    · exact i3 _ _ _ _ _ _ _ h1
    · exact i4 _ _ _ _ h1
    · exact i7 _ _ _ h1
    · exact i8 _ _ h1
    · exact i9 _ h1
    · exact i7 _ _ _ h1
    · exact i8 _ _ h1
    · exact i7 _ _ _ h1
    · exact i8 _ _ h1
    · exact i13 _ _ _ _ h1

theorem hgoLoop (n : Nat) (w : World) (h : HQ H w) : HQ H (World.goLoop n w) := by
  induction n generalizing w with
  | zero => exact h.eq rfl rfl
  | succ n ih =>
    simp only [World.goLoop]
    have h1 : HQ H { (World.poll { w with slot := some 250 }) with slot := none } :=
      (hpoll hc { w with slot := some 250 } (h.eq rfl rfl)).eq rfl rfl
    repeat' split
    all_goals first
      | exact h1
      | exact ih _ h1

omit hc in
theorem hcancel (w : World) (h : HQ H w) : HQ H w.cancelFut := by
  unfold World.cancelFut
  split
  · exact h.eq rfl rfl
  · exact h

omit hc in
theorem hdropConn (w : World) (h : HQ H w) : HQ H w.dropConn := by
  rw [dropConn_eq]
  split
  · exact (hcancel w h).eq rfl rfl
  · exact hcancel w h

omit hc in
theorem hstartOp (w : World) (name : String) (body : World → World)
    (hb : ∀ w', HQ H w' → HQ H (body w')) (h : HQ H w) : HQ H (w.startOp name body) := by
  unfold World.startOp
  split
  · exact h.eq rfl rfl
  · exact hb _ ((hcancel w h).eq rfl rfl)

theorem hstartConnect (w : World) (h : HQ H w) : HQ H w.startConnect := by
  rw [startConnect_eq]
  have h1 : HQ H w.connectStart := by
    have hs : w.connectStart.sess = w.sess.beginConnect := (connectStart_spec w).1
    have hl : w.connectStart.log = w.log := connectStart_log w
    unfold HQ
    rw [hs, hl]
    exact hc.prim _ (Prim.beginConnect _) h
  have h2 : HQ H { w.connectStart with sess := (w.connectStart.sess.encode (connEnc w.connectStart.sess.connectPacket)).1 } :=
    HQ.step hc h1 (Prim.encodeConnect _ _) rfl
  simp only []
  split
  · exact h2.eq rfl rfl
  · exact (hmachine hc pollFuel).2.2.2.2.2.2.1 _ _ _ h2

/-- **Every directive preserves it.** -/
theorem hexec (w : World) (d : Directive) (h : HQ H w) : HQ H (w.execDirective d) := by
  obtain ⟨i1, _, _, _, _, _, _, _, _, _, _, i12, _⟩ := hmachine hc pollFuel
  cases d with
  | bad => exact h.eq rfl rfl
  | connect => exact hstartConnect hc w h
  | publish r =>
    simp only [World.execDirective]
    apply hstartOp w _ _ _ h
    intro w' hw'
    split
    · exact hw'.eq rfl rfl
    · exact i1 _ _ hw'
  | subscribe r =>
    simp only [World.execDirective]
    apply hstartOp w _ _ _ h
    intro w' hw'
    repeat' split
    all_goals first
      | exact hw'.eq rfl rfl
      | exact i1 _ _ hw'
  | unsubscribe r =>
    simp only [World.execDirective]
    apply hstartOp w _ _ _ h
    intro w' hw'
    repeat' split
    all_goals first
      | exact hw'.eq rfl rfl
      | exact i1 _ _ hw'
  | disconnect dd =>
    simp only [World.execDirective]
    apply hstartOp w _ _ _ h
    intro w' hw'
    repeat' split
    all_goals first
      | exact hw'.eq rfl rfl
      | exact i1 _ _ hw'
  | poll =>
    simp only [World.execDirective]
    exact hstartOp w _ _ (fun w' hw' => i12 _ _ hw') h
  | recv =>
    simp only [World.execDirective]
    exact hstartOp w _ _ (fun w' hw' => i12 _ _ hw') h
  | drive =>
    simp only [World.execDirective]
    exact hstartOp w _ _ (fun w' hw' => i12 _ _ hw') h
  | d n =>
    simp only [World.execDirective]
    split
    · exact h.eq rfl rfl
    · exact (hpoll hc { w with slot := some n } (h.eq rfl rfl)).eq rfl rfl
  | go =>
    simp only [World.execDirective]
    split
    · exact h.eq rfl rfl
    · exact hgoLoop hc _ _ h
  | tick us =>
    simp only [World.execDirective]
    split
    · exact h.eq rfl rfl
    · split
      · exact hpoll hc { w with now := w.now + us } (h.eq rfl rfl)
      · exact h.eq rfl rfl
  | rx bytes =>
    simp only [World.execDirective]
    split
    · exact h.eq rfl rfl
    · exact h.eq rfl rfl
  | cancel => exact hcancel w h
  | drop => exact hdropConn w h
  | setpid n =>
    simp only [World.execDirective]
    split
    · exact h.eq rfl rfl
    · rename_i hn
      simp at hn
      exact HQ.step hc h (Prim.setPid _ n (by omega) (by omega)) rfl
  | decode bs => exact h.eq rfl rfl

/-- **Every program preserves it.** -/
theorem hrun (ds : List Directive) (w : World) (h : HQ H w) : HQ H (ds.foldl World.execDirective w) := by
  induction ds generalizing w with
  | nil => exact h
  | cons d ds ih =>
    simp only [List.foldl]
    exact ih _ (hexec hc w d h)

end
end Minimq

namespace Minimq
open Gen World Outbound

/-! ### Every transmission of a retained packet carries its bytes -/

/-- The log against the arena, across all transports: the entries of retained packets name serials
that have been assigned; an entry whose packet is still retained carries that packet's identifier and,
up to the DUP bit, the bytes the arena holds for it; two entries with the same serial carry the same
identifier and, up to the DUP bit, the same bytes. -/
structure Hist (s : Session) (l : List LogEntry) : Prop where
  inv : s.data.outbound.ArenaInv ∧ s.data.outbound.SerInv
  below : ∀ f ∈ l, ∀ t i, f.tag = .retained t i → t < s.data.outbound.nextSer
  cur : ∀ f ∈ l, ∀ e ∈ s.data.outbound.retained, ∀ i, f.tag = .retained e.ser i →
    i = e.id ∧ unDup f.bytes = unDup (slice s.data.outbound.buf e.offset e.len)
  same : ∀ f ∈ l, ∀ g ∈ l, ∀ t i j, f.tag = .retained t i → g.tag = .retained t j →
    i = j ∧ unDup f.bytes = unDup g.bytes

theorem ser_inj {o : Outbound} (h : o.SerInv) {e1 e2 : RetainedPacket} (h1 : e1 ∈ o.retained) (h2 : e2 ∈ o.retained)
    (he : e1.ser = e2.ser) : e1 = e2 := by
  have hinc := h.inc
  generalize o.retained = l at h1 h2 hinc
  induction l with
  | nil => simp at h1
  | cons x xs ih =>
    simp only [List.map_cons, List.pairwise_cons] at hinc
    rcases List.mem_cons.mp h1 with rfl | h1' <;> rcases List.mem_cons.mp h2 with rfl | h2'
    · rfl
    · have := hinc.1 e2.ser (List.mem_map.mpr ⟨e2, h2', rfl⟩); omega
    · have := hinc.1 e1.ser (List.mem_map.mpr ⟨e1, h1', rfl⟩); omega
    · exact ih h1' h2' hinc.2

/-- A retained packet of `b` that already existed at `a` is in `a`, with the same serial and
identifier and, up to the DUP bit, the same bytes. -/
theorem Keeps_find {a c : Outbound} (h : Keeps a c) {e' : RetainedPacket} (he' : e' ∈ c.retained) (hlt : e'.ser < a.nextSer) :
    ∃ e ∈ a.retained, e.ser = e'.ser ∧ e.id = e'.id ∧
      unDup (slice a.buf e.offset e.len) = unDup (slice c.buf e'.offset e'.len) := by
  have hm : ((e'.ser, e'.id), unDup (slice c.buf e'.offset e'.len)) ∈ c.tagged.filter (fun t => decide (t.1.1 < a.nextSer)) := by
    rw [List.mem_filter]
    exact ⟨List.mem_map.mpr ⟨e', he', rfl⟩, by simpa using hlt⟩
  have := h.2.subset hm
  simp only [Outbound.tagged, List.mem_map, Prod.mk.injEq] at this
  obtain ⟨e, he, ⟨h1, h2⟩, h3⟩ := this
  exact ⟨e, he, h1, h2, h3⟩

theorem Hist.prim {s s' : Session} (l : List LogEntry) (hp : Prim s s') (h : Hist s l) : Hist s' l := by
  have harena : ArenaP s.data.outbound s' := (closed_ArenaP s.data.outbound).prim hp ⟨h.inv, Keeps.refl _, rfl⟩
  obtain ⟨hinv', hkeeps, _⟩ := harena
  refine ⟨hinv', ?_, ?_, h.same⟩
  · intro f hf t i ht
    exact Nat.lt_of_lt_of_le (h.below f hf t i ht) hkeeps.1
  · intro f hf e' he' i ht
    have hlt := h.below f hf e'.ser i ht
    obtain ⟨e, he, h1, h2, h3⟩ := Keeps_find hkeeps he' hlt
    have := h.cur f hf e he i (by rw [h1]; exact ht)
    exact ⟨this.1.trans h2, this.2.trans h3⟩

theorem setWritten_retained_same (o : Outbound) (pkt : Flushed) (a c : Nat) :
    (o.setWritten pkt a c).retained.map (fun e => (e.ser, e.id, e.offset, e.len)) =
      o.retained.map (fun e => (e.ser, e.id, e.offset, e.len)) := by
  cases pkt with
  | control x => rfl
  | release id => rfl
  | retained id => exact map_modifyFirst_state _ (fun _ => SendState.afterWrite a c) _

theorem Hist.done (w : World) (pkt : Flushed) (a c : Nat) (h : Hist w.sess w.log) :
    Hist (w.setWritten pkt a c).sess (w.setWritten pkt a c).log := by
  have h1 : Hist (w.sess.setWritten pkt a c) w.log := Hist.prim _ (Prim.setWritten _ pkt a c) h
  show Hist (w.sess.setWritten pkt a c) (if a ≥ c then w.log ++ [w.doneFrame pkt] else w.log)
  split
  · -- the entry is recorded
    have hsame := setWritten_retained_same w.sess.data.outbound pkt a c
    have hbuf : (w.sess.setWritten pkt a c).data.outbound.buf = w.sess.data.outbound.buf := by
      rw [Session.setWritten_outbound]; exact setWritten_buf _ _ _ _
    have hnext : (w.sess.setWritten pkt a c).data.outbound.nextSer = w.sess.data.outbound.nextSer := by
      rw [Session.setWritten_outbound]; cases pkt <;> rfl
    -- what the new entry is, if it is a retained packet
    have hnew : ∀ t i, (w.doneFrame pkt).tag = .retained t i →
        ∃ e ∈ w.sess.data.outbound.retained, e.ser = t ∧ e.id = i ∧
          (w.doneFrame pkt).bytes = slice w.sess.data.outbound.buf e.offset e.len := by
      intro t i ht
      unfold World.doneFrame at ht ⊢
      cases pkt with
      | control x => simp at ht
      | release id =>
        simp only [] at ht
        split at ht <;> simp at ht
      | retained id =>
        simp only [] at ht ⊢
        split at ht
        · rename_i e hfind
          simp only [Tag.retained.injEq] at ht
          have hid : e.id = id := by
            have := List.find?_some hfind; simpa using this
          exact ⟨e, List.mem_of_find?_eq_some hfind, ht.1, hid.trans ht.2, rfl⟩
        · simp at ht
    refine ⟨h1.inv, ?_, ?_, ?_⟩
    · intro f hf t i ht
      rcases List.mem_append.mp hf with hm | hm
      · exact h1.below f hm t i ht
      · simp only [List.mem_singleton] at hm; subst hm
        obtain ⟨e, he, hs, _, _⟩ := hnew t i ht
        rw [hnext, ← hs]; exact h.inv.2.lt e he
    · intro f hf e' he' i ht
      rcases List.mem_append.mp hf with hm | hm
      · exact h1.cur f hm e' he' i ht
      · simp only [List.mem_singleton] at hm; subst hm
        obtain ⟨e, he, hs, hi, hb⟩ := hnew e'.ser i ht
        -- `e'` is `e` with another state
        have hmem : (e'.ser, e'.id, e'.offset, e'.len) ∈
            (w.sess.setWritten pkt a c).data.outbound.retained.map (fun x => (x.ser, x.id, x.offset, x.len)) :=
          List.mem_map.mpr ⟨e', he', rfl⟩
        rw [Session.setWritten_outbound, hsame] at hmem
        obtain ⟨e0, he0, heq⟩ := List.mem_map.mp hmem
        simp only [Prod.mk.injEq] at heq
        have : e0 = e := ser_inj h.inv.2 he0 he (by rw [heq.1, hs])
        subst this
        refine ⟨by rw [← hi, heq.2.1], ?_⟩
        rw [hb, hbuf, heq.2.2.1, heq.2.2.2]
    · intro f hf g hg t i j hft hgt
      rcases List.mem_append.mp hf with hm | hm <;> rcases List.mem_append.mp hg with hn | hn
      · exact h1.same f hm g hn t i j hft hgt
      · simp only [List.mem_singleton] at hn; subst hn
        obtain ⟨e, he, hs, hi, hb⟩ := hnew t j hgt
        have := h.cur f hm e he i (by rw [hs]; exact hft)
        exact ⟨this.1.trans hi, by rw [hb]; exact this.2⟩
      · simp only [List.mem_singleton] at hm; subst hm
        obtain ⟨e, he, hs, hi, hb⟩ := hnew t i hft
        have := h.cur g hn e he j (by rw [hs]; exact hgt)
        exact ⟨hi.symm.trans this.1.symm, by rw [hb]; exact this.2.symm⟩
      · simp only [List.mem_singleton] at hm hn; subst hm; subst hn
        rw [hft] at hgt
        simp only [Tag.retained.injEq] at hgt
        exact ⟨hgt.2, rfl⟩
  · exact h1

theorem hclosed_Hist : HClosed Hist := ⟨fun l hp h => Hist.prim l hp h, Hist.done⟩

theorem Hist_init (cfg : Cfg) : Hist (Session.new cfg) [] :=
  ⟨⟨ArenaInv_new cfg.tx, ⟨by simp [Session.new, Outbound.new], by simp [Session.new, Outbound.new]⟩⟩,
   by intro f hf; simp at hf, by intro f hf; simp at hf, by intro f hf; simp at hf⟩


/-- What `unDup a = unDup b` says: the same length, the same bytes after the first, and first bytes
that agree in the packet type (high nibble) and in the three low flag bits — only bit 3, DUP, may differ. -/
theorem unDup_eq {a c : Bytes} (h : unDup a = unDup c) :
    a.length = c.length ∧ a.drop 1 = c.drop 1 ∧
    ∀ x y, a.head? = some x → c.head? = some y → x.toNat / 16 = y.toNat / 16 ∧ x.toNat % 8 = y.toNat % 8 := by
  cases a with
  | nil =>
    cases c with
    | nil => exact ⟨rfl, rfl, fun x y hx => by simp at hx⟩
    | cons y ys => simp [unDup] at h
  | cons x xs =>
    cases c with
    | nil => simp [unDup] at h
    | cons y ys =>
      simp only [unDup, List.cons.injEq] at h
      refine ⟨by simp [h.2], by simp [h.2], ?_⟩
      intro x' y' hx hy
      simp only [List.head?_cons, Option.some.injEq] at hx hy
      subst hx; subst hy
      have hb := congrArg UInt8.toNat h.1
      simp only [unDupByte, b, UInt8.toNat_ofNat'] at hb
      have := x.toNat_lt; have := y.toNat_lt
      omega

end Minimq
