import Minimq.Proofs.LiftHandle
import Minimq.Proofs.QuiesceSetting
/-
The send-quota books balance (C06 / C16): on a live connection, unless the last CONNACK announced a Receive
Maximum below the number of publishes that had to be replayed (ghost flag `deficit`, finding F5c), the
remaining send quota plus the number of QoS 1/2 exchanges in flight IS the maximum send quota — not only at
most (`QuotaP`, `Proofs/Quota.lean`).

Who keeps the books:
* an accepted CONNACK sets `send_quota = max_send_quota - inflight_publishes` (`activate`);
* an accepted QoS 1/2 publish takes one from the quota and adds one retained PUBLISH, in one synchronous
  step (`retain`; `can_publish` has checked that the quota is not 0);
* PUBACK, PUBREC with a failure code and PUBCOMP remove one exchange and return one to the quota — the
  `min(…, max_send_quota)` and the saturation at 65535 do not bite, because the books balanced before and the
  maximum is at most 8;
* PUBREC with a success code replaces the retained PUBLISH by a release entry — unless the PUBREL would be
  over the broker's Maximum Packet Size (`Resource.PacketTooLarge`: the PUBLISH is gone, no release entry is
  made, nothing is returned — the books are short by one; but `process_received_packet` ends the connection
  at once, and the next accepted CONNACK recomputes the quota), or the release queue is full (impossible:
  a retained QoS 2 PUBLISH plus `MAX_PENDING_RELEASE` release entries are more than the maximum send quota);
* a CONNACK that is rejected after it reset the session (F19) leaves the quota of the old session beside
  the emptied queues — with the handle dead.

Hence the statement is about live handles, and the lifting is that of `Proofs/LiftHandle.lean`.
-/
namespace Minimq
open Gen World Outbound

/-- The books of a session balance: the maximum send quota is within the local limit, and — `deficit`
clear — remaining quota plus exchanges in flight is the maximum. -/
def bOk (o : Outbound) (r : Runtime) : Prop :=
  r.maxSendQuota ≤ maxInflight ∧ (r.deficit = false → r.sendQuota + o.inflightPublishes = r.maxSendQuota)

def Bal (s : Session) : Prop := bOk s.data.outbound s.rt

theorem maxInflight_le : maxInflight ≤ 65535 ∧ maxInflight ≤ MAX_PENDING_RELEASE := by decide

theorem bOk_inc {o o' : Outbound} {r : Runtime} (h : bOk o r) (hi : o'.inflightPublishes + 1 = o.inflightPublishes) :
    bOk o' (quotaInc r) := by
  obtain ⟨h1, h2⟩ := h
  have hm := maxInflight_le.1
  refine ⟨h1, fun hd => ?_⟩
  have := h2 hd
  show min (min (r.sendQuota + 1) 65535) r.maxSendQuota + o'.inflightPublishes = r.maxSendQuota
  omega

theorem bOk_eq {o o' : Outbound} {r : Runtime} (h : bOk o r) (hi : o'.inflightPublishes = o.inflightPublishes) :
    bOk o' r := by
  unfold bOk at *
  rw [hi]; exact h

theorem queueRelease_none {o : Outbound} {id rc ps : Nat} (h : o.queueRelease id rc ps = none) :
    MAX_PENDING_RELEASE ≤ o.release.length := by
  unfold Outbound.queueRelease at h
  split at h
  · assumption
  · cases h

/-- Every inbound packet keeps the books balanced — or its handling fails with an error that ends the
connection. The only case of the second kind that unbalances them is a PUBREC whose PUBREL is over the
broker's Maximum Packet Size. -/
theorem handlePacket_bal (d : SessionData) (r : Runtime) (p : Recv) (ha : d.outbound.ArenaInv) (h : bOk d.outbound r) :
    bOk (handlePacket d r p).1.outbound (handlePacket d r p).2.1 ∨ HandleFatal (handlePacket d r p).2.2 := by
  have hack := fun id k hf => ackPacket_inflight d.outbound id k ha hf
  cases p with
  | connAck sp rc props => exact Or.inl h
  | pingResp => exact Or.inl h
  | disconnect rc props => exact Or.inl h
  | subAck id props codes =>
    left
    simp only [handlePacket]
    split
    · exact h
    · rename_i hf
      have := (hack id .subAck (by simpa using hf)).1
      simp at this
      split <;> exact bOk_eq h (by simp only []; omega)
  | unsubAck id props codes =>
    left
    simp only [handlePacket]
    split
    · exact h
    · rename_i hf
      have := (hack id .unsubAck (by simpa using hf)).1
      simp at this
      split <;> exact bOk_eq h (by simp only []; omega)
  | pubAck id rs =>
    left
    simp only [handlePacket]
    split
    · exact h
    · rename_i hf
      have := (hack id .pubAck (by simpa using hf)).1
      simp at this
      split <;> exact bOk_inc h this
  | pubComp id rs =>
    left
    simp only [handlePacket]
    split
    · exact h
    · rename_i hf
      have := ackRelease_inflight d.outbound id
      simp at hf
      rw [hf] at this
      simp at this
      split <;> exact bOk_inc h this
  | pubRec id rs =>
    simp only [handlePacket]
    split
    · rename_i hf
      have hinf := (hack id .pubRec hf).1
      have hrel := (hack id .pubRec hf).2
      simp at hinf
      split
      · exact Or.inl (bOk_inc h hinf)
      · split
        · -- the PUBREL would not fit: `Resource.PacketTooLarge`, nothing else
          rename_i e he
          right; right; right
          rcases (checkSize_ack _ _ (encodePubrel_len id RC_Success)).2 with h1 | h1
          · rw [h1] at he; cases he
          · rw [h1] at he; cases he; rfl
        · split
          · -- the release queue cannot be full
            rename_i hq
            have hfull := queueRelease_none hq
            rw [hrel] at hfull
            have hge : d.outbound.release.length ≤ (d.outbound.ackPacket id .pubRec).1.inflightPublishes := by
              rw [inflight_def, hrel]; omega
            have hm := maxInflight_le.2
            left
            refine ⟨h.1, fun hd => ?_⟩
            have := h.2 hd
            have := h.1
            exfalso; omega
          · rename_i o' hq
            have := queueRelease_inflight hq
            exact Or.inl (bOk_eq h (by simp only []; omega))
    · left
      split
      · split <;> exact h
      · exact h
  | pubRel id rs =>
    left
    simp only [handlePacket]
    repeat' split
    all_goals first
      | exact h
      | exact bOk_eq h (queueControl_inflight (by assumption))
  | publish topic id props payload retain qos dup =>
    left
    simp only [handlePacket]
    repeat' split
    all_goals first
      | exact h
      | exact bOk_eq h (queueControl_inflight (by assumption))

theorem Bal_same {s s' : Session} (h : Bal s)
    (hq : s'.rt.sendQuota = s.rt.sendQuota ∧ s'.rt.maxSendQuota = s.rt.maxSendQuota ∧ s'.rt.deficit = s.rt.deficit)
    (hi : s'.data.outbound.inflightPublishes = s.data.outbound.inflightPublishes) : Bal s' := by
  unfold Bal bOk at *
  rw [hq.1, hq.2.1, hq.2.2, hi]; exact h

/-- An accepted CONNACK balances the books (or sets `deficit`). -/
theorem activated_Bal (s : Session) (sp : Bool) (block : Bytes) (now : Nat) : Bal (s.activated sp block now) := by
  have hq := connackSettings_quota (s.preActivate sp).rt.configuredKeepaliveMs block
  have hmax : (s.activated sp block now).rt.maxSendQuota = negotiatedQuota block := hq.2
  have hsq : (s.activated sp block now).rt.sendQuota =
      (connackSettings (s.preActivate sp).rt.configuredKeepaliveMs block).1 - (s.preActivate sp).data.outbound.inflightPublishes := rfl
  have hdef : (s.activated sp block now).rt.deficit =
      decide ((connackSettings (s.preActivate sp).rt.configuredKeepaliveMs block).1 < (s.preActivate sp).data.outbound.inflightPublishes) := rfl
  have hout : (s.activated sp block now).data.outbound = (s.preActivate sp).data.outbound := rfl
  refine ⟨by rw [hmax]; exact negotiatedQuota_le block, fun hd => ?_⟩
  rw [hdef] at hd
  simp only [decide_eq_false_iff_not] at hd
  rw [hsq, hmax, hout]
  rw [hq.1] at hd ⊢
  omega

/-- Given the window invariant `QuotaP` (for the layout of the arena), every primitive that leaves the handle
as it is keeps the books balanced, and an accepted CONNACK balances them. -/
theorem liveClosed_Bal : LiveClosed QuotaP Bal where
  queuePing := by
    intro s now s' hI h hq
    rcases Session.queuePing_ok hq with rfl | ⟨o, ho, rfl⟩
    · exact h
    · exact Bal_same h ⟨rfl, rfl, rfl⟩ (queueControl_inflight ho)
  completeFlush := by
    intro s pkt now hI h
    refine Bal_same h (completeFlush_quota_fields s pkt now) ?_
    simp only [Session.completeFlush, Session.setOutbound]
    cases pkt <;> simp only []
    · exact inflight_congr rfl rfl rfl
    · exact inflight_congr rfl rfl (by simp [flushRelease, modifyFirst_length])
    · exact inflight_congr rfl (offsets_modifyFirst_state _ (fun _ => .sent) _) rfl
  setWritten := by
    intro s pkt a c hI h
    refine Bal_same h ⟨rfl, rfl, rfl⟩ ?_
    simp only [Session.setWritten, Session.setOutbound]
    cases pkt <;> simp only []
    · exact inflight_congr rfl rfl rfl
    · exact inflight_congr rfl rfl (by simp [setReleaseWritten, modifyFirst_length])
    · exact inflight_congr rfl (offsets_modifyFirst_state _ (fun _ => SendState.afterWrite a c) _) rfl
  takePkt := by
    intro s hI h
    have := Session.takePkt_data s
    unfold Bal; rw [this.1, this.2]; exact h
  handle := by
    intro s p hI h hn
    have hb := handlePacket_bal s.data s.rt p hI.1.1 h
    unfold Bal
    unfold Session.handle at hn ⊢
    cases hh : handlePacket s.data s.rt p with
    | mk d rest =>
      cases rest with
      | mk rt res =>
        rw [hh] at hb hn
        rcases hb with hb | hb
        · exact hb
        · exact absurd hb hn
  activateOk := by
    intro s sp block now _ hok
    have hb := (activate_ok_iff s sp block now).1 hok
    rw [(activate_eq s sp block now).1 hb]
    exact activated_Bal s sp block now
  alloc := by
    intro s hI h
    have ho : s.alloc.1.data.outbound = s.data.outbound := by
      rw [Session.alloc_fst]; exact nextPacketId_outbound s.data
    have hr : s.alloc.1.rt = s.rt := by rw [Session.alloc_fst]
    unfold Bal; rw [ho, hr]; exact h
  encodeConnect := by
    intro s c hI h
    refine Bal_same h ?_ ?_
    · rw [Session.encode_fst]; exact ⟨rfl, rfl, rfl⟩
    · rw [Session.encode_fst]; exact encodeAt_inflight _ _ hI.1.1 (EncOk_encodeConnect c)
  encodeAfterAlloc := by
    intro ε s enc he hI h
    refine Bal_same h ?_ ?_
    · rw [Session.encode_fst, Session.alloc_fst]; exact ⟨rfl, rfl, rfl⟩
    · rw [Session.encode_fst, Session.alloc_fst]
      simp only [Session.setOutbound]
      rw [nextPacketId_outbound]
      exact encodeAt_inflight _ _ hI.1.1 he
  encodeScratch := by
    intro ε s enc he hI h
    refine Bal_same h ?_ ?_
    · rw [Session.encode_fst]; exact ⟨rfl, rfl, rfl⟩
    · rw [Session.encode_fst]; exact encodeAt_inflight _ _ hI.1.1 he
  enqueue := by
    intro ε s enc off len isPub s3 typ he ht hiff hI h hquota hres hr
    rw [Session.encode_fst, Session.alloc_fst, Session.alloc_snd] at hr
    rw [Session.encode_snd, Session.alloc_fst] at hres
    unfold Session.retain at hr
    split at hr
    · simp at hr
    · rename_i o ho
      simp only [Session.setOutbound] at ho hres
      rw [nextPacketId_outbound] at ho hres
      have hinf := retain_inflight s.data.outbound o enc hI.1.1 he typ ht _ off len hres ho
      simp at hr; subst hr
      unfold Bal bOk
      cases isPub with
      | true =>
        have hty : typ = MT_Publish := hiff.mp rfl
        have hnz := hquota rfl
        rw [if_pos hty] at hinf
        simp only [if_true, Session.setOutbound]
        refine ⟨h.1, fun hd => ?_⟩
        have := h.2 hd
        show s.rt.sendQuota - 1 + o.inflightPublishes = s.rt.maxSendQuota
        omega
      | false =>
        have hty : typ ≠ MT_Publish := fun hh => by have := hiff.mpr hh; simp at this
        rw [if_neg hty] at hinf
        simp only [Bool.false_eq_true, if_false, Session.setOutbound]
        refine ⟨h.1, fun hd => ?_⟩
        have := h.2 hd
        show s.rt.sendQuota + o.inflightPublishes = s.rt.maxSendQuota
        omega
  clearPing := by intro s _ h; exact Bal_same h ⟨rfl, rfl, rfl⟩ rfl
  noteActivity := by intro s now _ h; exact Bal_same h ⟨rfl, rfl, rfl⟩ rfl
  window := by
    intro s s' n _ h hw
    unfold Session.window at hw
    split at hw
    · simp at hw
    · simp at hw; rw [← hw.1]; exact h
  commit := by intro s bytes _ h; exact h
  beginConnect := by
    intro s hI h
    exact Bal_same h ⟨rfl, rfl, rfl⟩ (rearm_inflight _ hI.1.1)
  setPid := by intro s n _ _ _ h; exact h

theorem QuotaP_new (cfg : Cfg) : QuotaP (Session.new cfg) :=
  ⟨⟨ArenaInv_new cfg.tx, ⟨by simp [Session.new, Outbound.new], by simp [Session.new, Outbound.new]⟩⟩,
   Or.inr (by simp [Session.new, Outbound.new, inflight_def])⟩

/-- **The books balance on every live handle**: after any program, if the handle is live, the maximum send
quota is at most 8, and — `deficit` clear — remaining quota plus exchanges in flight is the maximum. -/
theorem bal_of_live (cfg : Cfg) (ds : List Directive) :
    (ds.foldl World.execDirective { sess := Session.new cfg }).live = true →
      Bal (ds.foldl World.execDirective { sess := Session.new cfg }).sess :=
  live_runH closed_QuotaP liveClosed_Bal cfg (QuotaP_new cfg) ds

namespace Quiesce

theorem Produced.bal {W : World} (h : Produced W) (hl : W.live = true) : Bal W.sess := by
  obtain ⟨cfg, ds, rfl⟩ := h
  exact bal_of_live cfg ds hl

/-- `Setting'` without `quotaEq`: it follows from `live` and `deficit` for a world a program produced. -/
structure Setting'' (w : World) : Prop where
  live : w.live = true
  slot : w.slot = none
  calm : KaCalm w.sess.rt w.now
  noPing : ∀ e ∈ w.sess.data.outbound.control, e.action.typ ≠ MT_PingReq
  fits : Fits w.sess
  deficit : w.sess.rt.deficit = false
  kinds : KnownKinds w.sess.data.outbound
  cap : 6 ≤ w.sess.reader.cap
  rdData : w.sess.reader.data = []
  rdLen : w.sess.reader.packetLength = none
  sync : ∃ as, w.curNet.rx = enc as ∧ as.Perm (expected w.sess.data.outbound)

theorem setting'_of (w : World) (hp : Produced w) (h : Setting'' w) : Setting' w :=
  ⟨h.live, h.slot, h.calm, h.noPing, h.fits, h.deficit, (hp.bal h.live).2 h.deficit, h.kinds, h.cap, h.rdData,
    h.rdLen, h.sync⟩

theorem Setting'.dropQuota {w : World} (h : Setting' w) : Setting'' w :=
  ⟨h.live, h.slot, h.calm, h.noPing, h.fits, h.deficit, h.kinds, h.cap, h.rdData, h.rdLen, h.sync⟩

/-- `SettingQ` without `quotaEq`. -/
structure SettingQ' (w : World) : Prop where
  live : w.live = true
  slot : w.slot = none
  calm : KaCalm w.sess.rt w.now
  noPing : ∀ e ∈ w.sess.data.outbound.control, e.action.typ ≠ MT_PingReq
  fits : Fits w.sess
  deficit : w.sess.rt.deficit = false
  cap : 6 ≤ w.sess.reader.cap
  rdData : w.sess.reader.data = []
  rdLen : w.sess.reader.packetLength = none
  sync : ∃ as, w.curNet.rx = enc as ∧ as.Perm (expected w.sess.data.outbound)

theorem settingQ_of (w : World) (hp : Produced w) (h : SettingQ' w) : SettingQ w :=
  ⟨h.live, h.slot, h.calm, h.noPing, h.fits, h.deficit, (hp.bal h.live).2 h.deficit, h.cap, h.rdData, h.rdLen, h.sync⟩

theorem SettingQ.dropQuota {w : World} (h : SettingQ w) : SettingQ' w :=
  ⟨h.live, h.slot, h.calm, h.noPing, h.fits, h.deficit, h.cap, h.rdData, h.rdLen, h.sync⟩

end Quiesce
end Minimq
