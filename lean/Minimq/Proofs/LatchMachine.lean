import Minimq.Proofs.Ops
import Minimq.Proofs.OutFrame
import Minimq.Proofs.FuelAdequate
/-
C11, whole-program part: no fatal result is ever reported while the handle stays live.

`Latched w`: if the call that completed last reported a fatal error (transport error, `Disconnected`,
invalid inbound packet) then `w.live = false`. The invariant that is inductive over the thirteen machine
functions and over programs is `LatchInv` = `Latched` + "while `connect` is suspended there is no live
handle" (the CONNECT path reports transport errors without calling `handle_disconnect`: there is no
handle yet, `startConnect` dropped the old one).
-/
namespace Minimq
open Gen World

/-- The errors the property lists: transport error, end of stream / broker DISCONNECT / keep-alive
timeout (all reported as `Disconnected`), invalid inbound packet. -/
def Err.fatal : Err → Bool
  | .transport _ | .disconnected | .peerInvalid => true
  | _ => false

/-- Whenever the result of the call that completed last is a fatal error, the handle is dead. -/
def Latched (w : World) : Prop := ∀ e, w.lastRes = some (.error e) → e.fatal = true → w.live = false

/-- The await points of `Session::connect`. -/
def Pc.isConn : Pc → Bool
  | .connWrite _ | .connFlush | .connRead => true
  | _ => false

/-- The inductive invariant: `Latched`, and a suspended `connect` has no live handle beside it. -/
def LatchInv (w : World) : Prop :=
  Latched w ∧ ∀ pc, w.fut = some pc → pc.isConn = true → w.live = false

theorem LatchInv.latched {w : World} (h : LatchInv w) : Latched w := h.1

/-- `LatchInv` looks at `lastRes`, `fut` and `live` only, and is monotone in `live`. -/
theorem LatchInv.mono {w w' : World} (h : LatchInv w) (hr : w'.lastRes = w.lastRes) (hf : w'.fut = w.fut)
    (hl : w'.live = true → w.live = true) : LatchInv w' := by
  have hl' : w.live = false → w'.live = false := by
    intro h0; cases h1 : w'.live with
    | false => rfl
    | true => rw [hl h1] at h0; exact h0
  refine ⟨fun e he hfat => hl' (h.1 e (hr ▸ he) hfat), fun pc hpc hc => hl' (h.2 pc (hf ▸ hpc) hc)⟩

theorem LatchInv.keep {w w' : World} (h : LatchInv w) (hr : w'.lastRes = w.lastRes) (hf : w'.fut = w.fut)
    (hc : w'.conn = w.conn) : LatchInv w' :=
  h.mono hr hf (fun h1 => by unfold World.live at h1 ⊢; rw [← hc]; exact h1)

theorem LatchInv.clearFut {w w' : World} (h : LatchInv w) (hr : w'.lastRes = w.lastRes) (hf : w'.fut = none)
    (hl : w'.live = true → w.live = true) : LatchInv w' := by
  have hl' : w.live = false → w'.live = false := by
    intro h0; cases h1 : w'.live with
    | false => rfl
    | true => rw [hl h1] at h0; exact h0
  refine ⟨fun e he hfat => hl' (h.1 e (hr ▸ he) hfat), fun pc hpc _ => ?_⟩
  rw [hf] at hpc; cases hpc

theorem LatchInv.sess {w : World} (h : LatchInv w) (s : Session) : LatchInv { w with sess := s } :=
  h.keep rfl rfl rfl

theorem LatchInv.emit {w : World} (h : LatchInv w) (l : String) : LatchInv (w.emit l) := h.keep rfl rfl rfl

theorem LatchInv.handleDisconnect {w : World} (h : LatchInv w) : LatchInv w.handleDisconnect :=
  h.mono rfl rfl (fun h1 => by rw [handleDisconnect_live] at h1; cases h1)

theorem LatchInv.discFail {w : World} (h : LatchInv w) (ctx : StepCtx) : LatchInv (w.discFail ctx) := by
  rcases discFail_cases w ctx with ⟨e, _⟩ | ⟨e, _⟩ <;> rw [e]
  · exact h
  · exact h.handleDisconnect

/-! ### Ways to end a call -/

theorem latch_of_ok {w : World} (hr : w.lastRes = some (.ok ())) (hf : w.fut = none) : LatchInv w := by
  refine ⟨fun e he _ => ?_, fun pc hpc _ => ?_⟩
  · rw [hr] at he; cases he
  · rw [hf] at hpc; cases hpc

theorem latch_finish (w : World) (l : String) : LatchInv (w.finish l) := latch_of_ok rfl rfl

theorem latch_finishOp (w : World) (n : String) (op : Op) : LatchInv (w.finishOp n op) := latch_of_ok rfl rfl

theorem foldl_emit_keep (ls : List String) (a : World) :
    (ls.foldl World.emit a).lastRes = a.lastRes ∧ (ls.foldl World.emit a).fut = a.fut := by
  induction ls generalizing a with
  | nil => exact ⟨rfl, rfl⟩
  | cons x xs ih => simp only [List.foldl]; exact ⟨(ih _).1.trans rfl, (ih _).2.trans rfl⟩

theorem latch_deliver (w : World) (n : String) (len : Nat) : LatchInv (w.deliver n len) := by
  unfold World.deliver
  simp only []
  split
  · exact latch_of_ok ((foldl_emit_keep _ _).1.trans rfl) ((foldl_emit_keep _ _).2.trans rfl)
  · exact latch_of_ok rfl rfl

/-- An error that is not fatal may be reported with the handle as it is. -/
theorem latch_err_nonfatal (w : World) (o : String) (e : Err) (he : e.fatal = false) :
    LatchInv (w.finishErr o e) := by
  refine ⟨fun e' he' hfat => ?_, fun pc hpc _ => ?_⟩
  · rw [finishErr_lastRes] at he'
    simp only [Option.some.injEq, Except.error.injEq] at he'
    subst he'; rw [he] at hfat; cases hfat
  · rw [finishErr_fut] at hpc; cases hpc

/-- Any error may be reported once the handle is dead. -/
theorem latch_err_dead (w : World) (o : String) (e : Err) (hl : w.live = false) :
    LatchInv (w.finishErr o e) := by
  refine ⟨fun _ _ _ => hl, fun pc hpc _ => ?_⟩
  rw [finishErr_fut] at hpc; cases hpc

theorem latch_err_hd (w : World) (o : String) (e : Err) : LatchInv ((w.handleDisconnect).finishErr o e) :=
  latch_err_dead _ _ _ (handleDisconnect_live w)

theorem latch_suspend {w : World} (h : LatchInv w) (pc : Pc) (hpc : pc.isConn = true → w.live = false) :
    LatchInv (w.suspend pc) := by
  refine ⟨h.1, fun pc' hpc' hc => ?_⟩
  have : pc' = pc := by
    simp only [World.suspend, Option.some.injEq] at hpc'; exact hpc'.symm
  subst this; exact hpc hc

/-! ### Which errors the synchronous code can produce -/

theorem ofSer_not_fatal (e : SerErr) : (Err.ofSer e).fatal = false := by cases e <;> rfl

theorem pubErr_not_fatal (e : PubEncErr) : (World.pubErr e).fatal = false := by
  cases e with
  | payload => rfl
  | encode e => exact ofSer_not_fatal e

theorem checkSize_not_fatal {r : Runtime} {enc : Except SerErr Bytes} {e : Err} (h : checkSize r enc = .error e) :
    e.fatal = false := by
  unfold checkSize at h
  split at h
  · simp only [Except.error.injEq] at h; subst h; exact ofSer_not_fatal _
  · split at h
    · simp only [Except.error.injEq] at h; subst h; rfl
    · cases h

theorem queuePing_not_fatal {s : Session} {now : Nat} {e : Err} (h : s.queuePing now = .error e) :
    e.fatal = false := by
  unfold Session.queuePing at h
  simp only [] at h
  cases hnp : s.rt.nextPing <;> simp only [hnp] at h
  all_goals
    split at h
    · split at h
      · simp only [Except.error.injEq] at h; subst h; exact checkSize_not_fatal (by assumption)
      · split at h
        · simp only [Except.error.injEq] at h; subst h; rfl
        · cases h
    · cases h

theorem maybeQueuePingreq_not_fatal {w : World} {now : Nat} {e : Err} (h : w.maybeQueuePingreq now = .error e) :
    e.fatal = false := by
  unfold World.maybeQueuePingreq at h
  split at h
  · rename_i e' hq
    simp only [Except.error.injEq] at h; subst h; exact queuePing_not_fatal hq
  · cases h

theorem maybeQueuePingreq_keep {w w' : World} {now : Nat} (h : w.maybeQueuePingreq now = .ok w') :
    w'.lastRes = w.lastRes ∧ w'.fut = w.fut ∧ w'.conn = w.conn := by
  unfold World.maybeQueuePingreq at h
  split at h
  · cases h
  · simp only [Except.ok.injEq] at h; subst h; exact ⟨rfl, rfl, rfl⟩

theorem LatchInv.queuePing {w w' : World} {now : Nat} (h : LatchInv w) (hq : w.maybeQueuePingreq now = .ok w') :
    LatchInv w' := by
  obtain ⟨a, b, c⟩ := maybeQueuePingreq_keep hq
  exact h.keep a b c

theorem maybeQueuePingreq_live {w w' : World} {now : Nat} (hq : w.maybeQueuePingreq now = .ok w') :
    w'.live = w.live := by
  obtain ⟨_, _, c⟩ := maybeQueuePingreq_keep hq
  unfold World.live; rw [c]

theorem prepareStep_not_fatal {w : World} {step : Outbound.Step} {e : Err} (h : prepareStep w step = .fail e) :
    e.fatal = false := by
  unfold World.prepareStep at h
  simp only [] at h
  repeat' split at h
  all_goals first
    | (simp only [Prepared.fail.injEq] at h; subst h; first | rfl | exact ofSer_not_fatal _)
    | cases h

/-- `handle_packet` reports `Disconnected`, an invalid packet, or an error that is not fatal. -/
theorem handlePacket_err (d : SessionData) (r : Runtime) (p : Recv) (e : Err)
    (h : (handlePacket d r p).2.2 = .error e) : e = .disconnected ∨ e = .peerInvalid ∨ e.fatal = false := by
  unfold handlePacket at h
  simp only [] at h
  repeat' split at h
  all_goals first
    | (simp only [Except.error.injEq] at h; subst h
       first
         | exact .inl rfl
         | exact .inr (.inl rfl)
         | exact .inr (.inr rfl)
         | exact .inr (.inr (checkSize_not_fatal (by assumption))))
    | cases h


/-! ### The I/O calls and `process_received_packet` -/

/-- The three fields `LatchInv` looks at (through `conn` for `live`) are not touched. -/
structure Keep (w w' : World) : Prop where
  lastRes : w'.lastRes = w.lastRes
  fut : w'.fut = w.fut
  conn : w'.conn = w.conn

theorem Keep.live {w w' : World} (k : Keep w w') : w'.live = w.live := by
  unfold World.live; rw [k.conn]

theorem LatchInv.of_keep {w w' : World} (h : LatchInv w) (k : Keep w w') : LatchInv w' :=
  h.keep k.lastRes k.fut k.conn

theorem ioWrite_keep {w w' : World} {bs : Bytes} {r : WriteRes} (h : w.ioWrite bs = (w', r)) : Keep w w' := by
  unfold World.ioWrite at h
  cases hs : w.slot with
  | none => rw [hs] at h; simp only [Prod.mk.injEq] at h; obtain ⟨rfl, _⟩ := h; exact ⟨rfl, rfl, rfl⟩
  | some n =>
    rw [hs] at h; simp only [] at h
    repeat' split at h
    all_goals (simp only [Prod.mk.injEq] at h; obtain ⟨rfl, _⟩ := h; exact ⟨rfl, rfl, rfl⟩)

theorem ioFlush_keep {w w' : World} {r : FlushRes} (h : w.ioFlush = (w', r)) : Keep w w' := by
  unfold World.ioFlush at h
  cases hs : w.slot with
  | none => rw [hs] at h; simp only [Prod.mk.injEq] at h; obtain ⟨rfl, _⟩ := h; exact ⟨rfl, rfl, rfl⟩
  | some n =>
    rw [hs] at h; simp only [] at h
    repeat' split at h
    all_goals (simp only [Prod.mk.injEq] at h; obtain ⟨rfl, _⟩ := h; exact ⟨rfl, rfl, rfl⟩)

theorem ioRead_keep {w w' : World} {n : Nat} {r : ReadRes} (h : w.ioRead n = (w', r)) : Keep w w' := by
  unfold World.ioRead at h
  cases hs : w.slot with
  | none => rw [hs] at h; simp only [Prod.mk.injEq] at h; obtain ⟨rfl, _⟩ := h; exact ⟨rfl, rfl, rfl⟩
  | some k =>
    rw [hs] at h; simp only [] at h
    repeat' split at h
    all_goals (simp only [Prod.mk.injEq] at h; obtain ⟨rfl, _⟩ := h; exact ⟨rfl, rfl, rfl⟩)

/-- `process_received_packet`: the result of the last call and the suspended future are untouched, the
handle can only die, and it does die whenever the error is fatal. -/
theorem prp_facts (w : World) :
    (w.processReceivedPacket).1.lastRes = w.lastRes ∧ (w.processReceivedPacket).1.fut = w.fut ∧
    ((w.processReceivedPacket).1.live = true → w.live = true) ∧
    ∀ e, (w.processReceivedPacket).2 = .error e → e.fatal = true → (w.processReceivedPacket).1.live = false := by
  unfold World.processReceivedPacket
  split
  · exact ⟨rfl, rfl, id, (fun e he => by cases he)⟩
  · simp only []
    split
    · exact ⟨rfl, rfl, (fun h => by rw [handleDisconnect_live] at h; cases h), fun _ _ _ => handleDisconnect_live _⟩
    · rename_i len pkt hres
      split
      · exact ⟨rfl, rfl, id, (fun e he => by cases he)⟩
      · exact ⟨rfl, rfl, id, (fun e he => by cases he)⟩
      · exact ⟨rfl, rfl, (fun h => by rw [handleDisconnect_live] at h; cases h), fun _ _ _ => handleDisconnect_live _⟩
      · exact ⟨rfl, rfl, (fun h => by rw [handleDisconnect_live] at h; cases h), fun _ _ _ => handleDisconnect_live _⟩
      · exact ⟨rfl, rfl, (fun h => by rw [handleDisconnect_live] at h; cases h), fun _ _ _ => handleDisconnect_live _⟩
      · rename_i e hne1 hne2 hne3 heq
        refine ⟨rfl, rfl, id, fun e' he' hfat => ?_⟩
        simp only [Except.error.injEq] at he'; subst he'
        rcases handlePacket_err _ _ pkt e (by simpa [Session.handle] using heq) with h | h | h
        · exact (hne1 h).elim
        · exact (hne2 h).elim
        · rw [h] at hfat; cases hfat

theorem LatchInv.prp {w : World} (h : LatchInv w) : LatchInv (w.processReceivedPacket).1 :=
  h.mono (prp_facts w).1 (prp_facts w).2.1 (prp_facts w).2.2.1

/-- An error of `process_received_packet` reported as it is. -/
theorem latch_prp_err {w w' : World} {e : Err} (o : String) (heq : w.processReceivedPacket = (w', .error e)) :
    LatchInv (w'.finishErr o e) := by
  have h4 := (prp_facts w).2.2.2
  rw [heq] at h4
  cases hf : e.fatal with
  | false => exact latch_err_nonfatal _ _ _ hf
  | true => exact latch_err_dead _ _ _ (h4 e rfl hf)


/-! ### The thirteen machine functions -/

/-- The statement proved for all thirteen mutually recursive machine functions at once: each of them
preserves `LatchInv`; the three that belong to `connect` (`doLocalWrite`/`doLocalFlush` with
`which = 0`, `doConnRead`) are run without a live handle. -/
def LMachine (fuel : Nat) : Prop :=
  (∀ w k, LatchInv w → LatchInv (flushLoop fuel w k)) ∧
  (∀ w ctx step now, LatchInv w → LatchInv (performStep fuel w ctx step now)) ∧
  (∀ w ctx pkt bytes wr len now, LatchInv w → LatchInv (doStepWrite fuel w ctx pkt bytes wr len now)) ∧
  (∀ w ctx pkt now, LatchInv w → LatchInv (doStepFlush fuel w ctx pkt now)) ∧
  (∀ w ctx adv, LatchInv w → LatchInv (stepReturned fuel w ctx adv)) ∧
  (∀ w k, LatchInv w → LatchInv (afterFlush fuel w k)) ∧
  (∀ w which bytes, LatchInv w → (which = 0 → w.live = false) → LatchInv (doLocalWrite fuel w which bytes)) ∧
  (∀ w which, LatchInv w → (which = 0 → w.live = false) → LatchInv (doLocalFlush fuel w which)) ∧
  (∀ w, LatchInv w → w.live = false → LatchInv (doConnRead fuel w)) ∧
  (∀ w o adv, LatchInv w → LatchInv (driveLoop fuel w o adv)) ∧
  (∀ w o adv, LatchInv w → LatchInv (driveAfterService fuel w o adv)) ∧
  (∀ w o, LatchInv w → LatchInv (driveEnter fuel w o)) ∧
  (∀ w o d y, LatchInv w → LatchInv (doWaitRead fuel w o d y))

theorem lmachine_zero : LMachine 0 := by
  refine ⟨?_, ?_, ?_, ?_, ?_, ?_, ?_, ?_, ?_, ?_, ?_, ?_, ?_⟩ <;> intros <;>
    simp only [flushLoop, performStep, doStepWrite, doStepFlush, stepReturned, afterFlush, doLocalWrite, doLocalFlush,
      doConnRead, driveLoop, driveAfterService, driveEnter, doWaitRead] <;>
    exact LatchInv.emit (by assumption) _

theorem lstep_stepReturned (fuel : Nat) (ih : LMachine fuel) :
    ∀ w ctx adv, LatchInv w → LatchInv (stepReturned (fuel + 1) w ctx adv) := by
  intro w ctx adv h
  obtain ⟨i1, _, _, _, _, _, _, _, _, _, i11, _, _⟩ := ih
  unfold stepReturned
  split
  · exact i1 _ _ h
  · exact i11 _ _ _ h

/-- The `!w.live` guard of `perform_outbound_step`. -/
theorem latch_discFail_guard {w : World} (ctx : StepCtx) (o : String) (e : Err) (hl : w.live = false) :
    LatchInv ((w.discFail ctx).finishErr o e) := by
  apply latch_err_dead
  rcases discFail_cases w ctx with ⟨e, _⟩ | ⟨e, _⟩ <;> rw [e]
  · exact hl
  · exact handleDisconnect_live _

theorem lstep_doStepFlush (fuel : Nat) (ih : LMachine fuel) :
    ∀ w ctx pkt now, LatchInv w → LatchInv (doStepFlush (fuel + 1) w ctx pkt now) := by
  intro w ctx pkt now h
  obtain ⟨_, _, _, _, i5, _⟩ := ih
  simp only [doStepFlush]
  split
  · rename_i w' heq; exact latch_suspend (h.of_keep (ioFlush_keep heq)) _ (fun hc => by cases hc)
  · exact latch_err_hd _ _ _
  · rename_i w' heq
    exact i5 _ _ _ ((h.of_keep (ioFlush_keep heq)).keep rfl rfl rfl)

theorem setWritten_keep (w : World) (pkt : Flushed) (a c : Nat) : Keep w (w.setWritten pkt a c) :=
  ⟨rfl, rfl, rfl⟩

theorem lstep_doStepWrite (fuel : Nat) (ih : LMachine fuel) :
    ∀ w ctx pkt bytes wr len now, LatchInv w → LatchInv (doStepWrite (fuel + 1) w ctx pkt bytes wr len now) := by
  intro w ctx pkt bytes wr len now h
  obtain ⟨_, _, _, i4, i5, _⟩ := ih
  simp only [doStepWrite]
  split
  · rename_i w' heq; exact latch_suspend (h.of_keep (ioWrite_keep heq)) _ (fun hc => by cases hc)
  · exact latch_err_nonfatal _ _ _ rfl
  · exact latch_err_hd _ _ _
  · rename_i w' count heq
    have h2 : LatchInv (w'.setWritten pkt (wr + count) len) :=
      (h.of_keep (ioWrite_keep heq)).of_keep (setWritten_keep _ _ _ _)
    split
    · exact i5 _ _ _ h2
    · exact i4 _ _ _ _ h2

theorem lstep_performStep (fuel : Nat) (ih : LMachine fuel) :
    ∀ w ctx step now, LatchInv w → LatchInv (performStep (fuel + 1) w ctx step now) := by
  intro w ctx step now h
  obtain ⟨_, _, i3, i4, i5, _⟩ := ih
  simp only [performStep]
  split
  · rename_i e hp; exact latch_err_nonfatal _ _ _ (prepareStep_not_fatal hp)
  · exact i5 _ _ _ h
  · split
    · rename_i hl; exact latch_discFail_guard _ _ _ (by simpa using hl)
    · exact i4 _ _ _ _ h
  · split
    · rename_i hl; exact latch_discFail_guard _ _ _ (by simpa using hl)
    · exact i3 _ _ _ _ _ _ _ h

theorem lstep_flushLoop (fuel : Nat) (ih : LMachine fuel) :
    ∀ w k, LatchInv w → LatchInv (flushLoop (fuel + 1) w k) := by
  intro w k h
  obtain ⟨_, i2, _, _, _, i6, _⟩ := ih
  simp only [flushLoop]
  split
  · rename_i e hq; exact latch_err_nonfatal _ _ _ (maybeQueuePingreq_not_fatal hq)
  · rename_i w' heq
    have h' := h.queuePing heq
    split
    · exact i6 _ _ h'
    · exact i2 _ _ _ _ h'

theorem lstep_driveEnter (fuel : Nat) (ih : LMachine fuel) :
    ∀ w o, LatchInv w → LatchInv (driveEnter (fuel + 1) w o) := by
  intro w o h
  obtain ⟨_, _, _, _, _, _, _, _, _, i10, _⟩ := ih
  simp only [driveEnter]
  split
  · rename_i hl; exact latch_err_dead _ _ _ (by simpa using hl)
  · exact i10 _ _ _ h

theorem lstep_doLocalFlush (fuel : Nat) (ih : LMachine fuel) :
    ∀ w which, LatchInv w → (which = 0 → w.live = false) → LatchInv (doLocalFlush (fuel + 1) w which) := by
  intro w which h h0
  obtain ⟨_, _, _, _, _, _, _, _, i9, _⟩ := ih
  simp only [doLocalFlush]
  split
  · rename_i w' heq
    have k := ioFlush_keep heq
    apply latch_suspend (h.of_keep k)
    intro hc
    rw [k.live]
    apply h0
    split at hc
    · assumption
    · split at hc <;> cases hc
  · rename_i w' kk heq
    have k := ioFlush_keep heq
    split
    · rename_i hw; exact latch_err_dead _ _ _ (by rw [k.live]; exact h0 hw)
    · split <;> exact latch_err_hd _ _ _
  · rename_i w' heq
    have k := ioFlush_keep heq
    split
    · rename_i hw
      exact i9 _ ((h.of_keep k).sess _) (by show w'.live = false; rw [k.live]; exact h0 hw)
    · split
      · exact latch_finish _ _
      · exact latch_finish _ _

theorem lstep_doLocalWrite (fuel : Nat) (ih : LMachine fuel) :
    ∀ w which bytes, LatchInv w → (which = 0 → w.live = false) → LatchInv (doLocalWrite (fuel + 1) w which bytes) := by
  intro w which bytes h h0
  obtain ⟨_, _, _, _, _, _, i7, i8, _⟩ := ih
  simp only [doLocalWrite]
  split
  · rcases discDone_cases w which with ⟨e, _⟩ | ⟨e, hn0, _⟩ <;> rw [e]
    · exact i8 _ _ h h0
    · exact i8 _ _ h.handleDisconnect (fun h00 => (hn0 h00).elim)
  · split
    · rename_i w' heq
      have k := ioWrite_keep heq
      apply latch_suspend (h.of_keep k)
      intro hc
      rw [k.live]
      apply h0
      split at hc
      · assumption
      · split at hc <;> cases hc
    · rename_i w' n heq
      have k := ioWrite_keep heq
      exact i7 _ _ _ (h.of_keep k) (fun hw => by rw [k.live]; exact h0 hw)
    · rename_i w' heq
      split
      · exact latch_err_nonfatal _ _ _ rfl
      · split <;> exact latch_err_hd _ _ _
    · rename_i w' kk heq
      have k := ioWrite_keep heq
      split
      · rename_i hw; exact latch_err_dead _ _ _ (by rw [k.live]; exact h0 hw)
      · split <;> exact latch_err_hd _ _ _

/-- `activate`: a rejected CONNACK kills whatever handle there is; an accepted one reports `Ok`. -/
theorem latch_activate (w : World) (sp : Bool) (block : Bytes) : LatchInv (World.activate w sp block) := by
  unfold World.activate
  split
  · apply latch_err_dead
    show World.live _ = false
    unfold World.live
    simp only []
    cases w.conn <;> rfl
  · exact latch_finish _ _

theorem latch_connectGotPacket (w : World) : LatchInv (World.connectGotPacket w) := by
  unfold World.connectGotPacket
  simp only []
  split
  · exact latch_err_hd _ _ _
  · split
    · exact latch_err_nonfatal _ _ _ rfl
    · exact latch_activate _ _ _
  · exact latch_err_hd _ _ _
  · exact latch_err_hd _ _ _

theorem lstep_doConnRead (fuel : Nat) (ih : LMachine fuel) :
    ∀ w, LatchInv w → w.live = false → LatchInv (doConnRead (fuel + 1) w) := by
  intro w h h0
  obtain ⟨_, _, _, _, _, _, _, _, i9, _⟩ := ih
  simp only [doConnRead]
  split
  · exact latch_connectGotPacket _
  · split
    · exact latch_err_hd _ _ _
    · rename_i s1 window hw
      split
      · exact latch_connectGotPacket _
      · split
        · rename_i w' heq
          have k := ioRead_keep heq
          exact latch_suspend ((h.sess s1).of_keep k) _ (fun _ => by rw [k.live]; exact h0)
        · exact latch_err_hd _ _ _
        · exact latch_err_hd _ _ _
        · rename_i w' bytes heq
          have k := ioRead_keep heq
          exact i9 _ (((h.sess s1).of_keep k).sess _) (by show w'.live = false; rw [k.live]; exact h0)

theorem lstep_doWaitRead (fuel : Nat) (ih : LMachine fuel) :
    ∀ w o d y, LatchInv w → LatchInv (doWaitRead (fuel + 1) w o d y) := by
  intro w o d y h
  obtain ⟨_, _, _, _, _, _, _, _, _, _, _, i12, i13⟩ := ih
  simp only [doWaitRead]
  split
  · exact i12 _ _ h
  · split
    · exact latch_err_hd _ _ _
    · rename_i s1 window hw
      have h1 := h.sess s1
      split
      · exact i12 _ _ h1
      · split
        · exact latch_err_hd _ _ _
        · exact latch_err_hd _ _ _
        · rename_i w' bytes heq
          exact i13 _ _ _ _ ((h1.of_keep (ioRead_keep heq)).sess _)
        · rename_i w' heq
          have h2 := h1.of_keep (ioRead_keep heq)
          split
          · exact latch_suspend h2 _ (fun hc => by cases hc)
          · split
            · split
              · exact i12 _ _ h2
              · split
                · exact latch_suspend ((h2.keep (w' := { w' with wakes := w'.wakes + 1 }) rfl rfl rfl).emit _) _
                    (fun hc => by cases hc)
                · exact i13 _ _ _ _ (h2.keep rfl rfl rfl)
            · exact latch_suspend h2 _ (fun hc => by cases hc)

theorem lstep_driveLoop (fuel : Nat) (ih : LMachine fuel) :
    ∀ w o adv, LatchInv w → LatchInv (driveLoop (fuel + 1) w o adv) := by
  intro w o adv h
  obtain ⟨_, i2, _, _, _, _, _, _, _, i10, i11, _, _⟩ := ih
  simp only [driveLoop]
  split
  · have h1 := h.prp
    split
    · rename_i w' e heq; exact latch_prp_err _ heq
    · exact latch_deliver _ _ _
    · rename_i w' heq; rw [heq] at h1; exact i10 _ _ _ h1
  · repeat' split
    all_goals first
      | exact latch_err_hd _ _ _
      | exact latch_err_nonfatal _ _ _ (maybeQueuePingreq_not_fatal (by assumption))
      | exact i11 _ _ _ (h.queuePing (by assumption))
      | exact i2 _ _ _ _ (h.queuePing (by assumption))

theorem lstep_driveAfterService (fuel : Nat) (ih : LMachine fuel) :
    ∀ w o adv, LatchInv w → LatchInv (driveAfterService (fuel + 1) w o adv) := by
  intro w o adv h
  obtain ⟨_, _, _, _, _, _, _, _, _, i10, _, i12, i13⟩ := ih
  unfold driveAfterService
  split
  · have h1 := h.prp
    split
    · rename_i w' e heq; exact latch_prp_err _ heq
    · exact latch_deliver _ _ _
    · rename_i w' heq; rw [heq] at h1; exact i10 _ _ _ h1
  · split
    · split
      · split
        · exact latch_finish _ _
        · exact latch_finish _ _
        · exact i12 _ _ h
      · split
        · exact latch_finish _ _
        · exact i13 _ _ _ _ h
    · exact i10 _ _ _ h

theorem lstep_afterFlush (fuel : Nat) (ih : LMachine fuel) :
    ∀ w k, LatchInv w → LatchInv (afterFlush (fuel + 1) w k) := by
  intro w k h
  obtain ⟨i1, _, _, _, _, _, i7, _⟩ := ih
  unfold afterFlush
  cases k with
  | post name op => exact latch_finishOp _ _ _
  | discPre d =>
    simp only []
    repeat' split
    all_goals first
      | exact latch_err_nonfatal _ _ _ (ofSer_not_fatal _)
      | exact latch_err_nonfatal _ _ _ rfl
      | exact i7 _ _ _ h (fun hw => by cases hw)
  | subPre r =>
    simp only []
    repeat' split
    all_goals first
      | exact latch_err_nonfatal _ _ _ (ofSer_not_fatal _)
      | exact latch_err_nonfatal _ _ _ rfl
      | exact i1 _ _ (h.keep rfl rfl rfl)
  | unsubPre r =>
    simp only []
    repeat' split
    all_goals first
      | exact latch_err_nonfatal _ _ _ (ofSer_not_fatal _)
      | exact latch_err_nonfatal _ _ _ rfl
      | exact i1 _ _ (h.keep rfl rfl rfl)
  | publishPre r =>
    simp only []
    repeat' split
    all_goals first
      | exact latch_err_nonfatal _ _ _ (pubErr_not_fatal _)
      | exact latch_err_nonfatal _ _ _ rfl
      | exact i1 _ _ (h.keep rfl rfl rfl)
      | exact i7 _ _ _ (h.keep rfl rfl rfl) (fun hw => by cases hw)

theorem lmachine : ∀ fuel, LMachine fuel := by
  intro fuel
  induction fuel with
  | zero => exact lmachine_zero
  | succ fuel ih =>
    exact ⟨lstep_flushLoop fuel ih, lstep_performStep fuel ih, lstep_doStepWrite fuel ih,
      lstep_doStepFlush fuel ih, lstep_stepReturned fuel ih, lstep_afterFlush fuel ih,
      lstep_doLocalWrite fuel ih, lstep_doLocalFlush fuel ih, lstep_doConnRead fuel ih,
      lstep_driveLoop fuel ih, lstep_driveAfterService fuel ih, lstep_driveEnter fuel ih,
      lstep_doWaitRead fuel ih⟩


/-! ### POLL, the directives, programs -/

theorem latch_poll (w : World) (h : LatchInv w) : LatchInv (World.poll w) := by
  obtain ⟨_, _, i3, i4, _, _, i7, i8, i9, _, _, _, i13⟩ := lmachine pollFuel
  unfold World.poll
  simp only []
  split
  · exact h.keep rfl rfl rfl
  · rename_i pc hpc
    have hpc' : w.fut = some pc := hpc
    have h1 : LatchInv ({ ({ w with wakes := 0, lastIoStarved := false } : World) with fut := none } : World) :=
      h.clearFut rfl rfl id
    have hconn : pc.isConn = true →
        ({ ({ w with wakes := 0, lastIoStarved := false } : World) with fut := none } : World).live = false :=
      fun hc => h.2 pc hpc' hc
    split
    · exact i3 _ _ _ _ _ _ _ h1
    · exact i4 _ _ _ _ h1
    · exact i7 _ _ _ h1 (fun _ => hconn rfl)
    · exact i8 _ _ h1 (fun _ => hconn rfl)
    · exact i9 _ h1 (hconn rfl)
    · exact i7 _ _ _ h1 (fun hw => by cases hw)
    · exact i8 _ _ h1 (fun hw => by cases hw)
    · exact i7 _ _ _ h1 (fun hw => by cases hw)
    · exact i8 _ _ h1 (fun hw => by cases hw)
    · exact i13 _ _ _ _ h1

theorem latch_goLoop (n : Nat) (w : World) (h : LatchInv w) : LatchInv (World.goLoop n w) := by
  induction n generalizing w with
  | zero => exact h.emit _
  | succ n ih =>
    simp only [World.goLoop]
    have h1 : LatchInv ({ World.poll { w with slot := some 250 } with slot := none } : World) :=
      (latch_poll { w with slot := some 250 } (h.keep rfl rfl rfl)).keep rfl rfl rfl
    repeat' split
    all_goals first
      | exact h1
      | exact ih _ h1

theorem latch_cancelFut (w : World) (h : LatchInv w) : LatchInv w.cancelFut := by
  unfold World.cancelFut
  split
  · exact h.clearFut rfl rfl id
  · exact h

theorem cancelFut_conn' (w : World) : w.cancelFut.conn = w.conn := by
  unfold World.cancelFut; split <;> rfl

theorem cancelFut_fut' (w : World) : w.cancelFut.fut = none := by
  unfold World.cancelFut
  split
  · rfl
  · rename_i hn; cases hf : w.fut with
    | none => rfl
    | some pc => rw [hf] at hn; exact absurd rfl hn

/-- Dropping the handle: no live handle, nothing suspended; the last result stays. -/
theorem latch_dropConn (w : World) (h : LatchInv w) : LatchInv w.dropConn ∧ w.dropConn.live = false := by
  have h1 := latch_cancelFut w h
  unfold World.dropConn
  simp only []
  split
  · exact ⟨h1.mono rfl rfl (fun hl => by cases hl), rfl⟩
  · rename_i hn
    refine ⟨h1, ?_⟩
    unfold World.live
    cases hc : w.cancelFut.conn with
    | none => rfl
    | some c => rw [hc] at hn; exact absurd rfl hn

theorem latch_startConnect (w : World) (h : LatchInv w) : LatchInv w.startConnect := by
  obtain ⟨_, _, _, _, _, _, i7, _⟩ := lmachine pollFuel
  obtain ⟨hd, hl⟩ := latch_dropConn w h
  unfold World.startConnect
  simp only []
  split
  · exact latch_err_nonfatal _ _ _ (ofSer_not_fatal _)
  · refine i7 _ _ _ (hd.keep rfl rfl rfl) (fun _ => ?_)
    show World.live _ = false
    unfold World.live at hl ⊢
    exact hl

theorem latch_startOp (w : World) (name : String) (body : World → World)
    (hb : ∀ w', LatchInv w' → w'.conn = w.conn → LatchInv (body w')) (h : LatchInv w) :
    LatchInv (w.startOp name body) := by
  unfold World.startOp
  split
  · exact h.emit _
  · exact hb _ ((latch_cancelFut w h).keep rfl rfl rfl) (cancelFut_conn' w)

/-- **Every directive preserves `LatchInv`.** -/
theorem latch_execDirective (w : World) (d : Directive) (h : LatchInv w) : LatchInv (w.execDirective d) := by
  obtain ⟨i1, _, _, _, _, _, _, _, _, _, _, i12, _⟩ := lmachine pollFuel
  cases d with
  | bad => exact h.emit _
  | connect => exact latch_startConnect w h
  | publish r =>
    simp only [World.execDirective]
    apply latch_startOp w _ _ _ h
    intro w' hw' _
    split
    · rename_i hl; exact latch_err_dead _ _ _ (by simpa using hl)
    · exact i1 _ _ hw'
  | subscribe r =>
    simp only [World.execDirective]
    apply latch_startOp w _ _ _ h
    intro w' hw' _
    split
    · rename_i hl; exact latch_err_dead _ _ _ (by simpa using hl)
    · repeat' split
      all_goals first
        | exact latch_err_nonfatal _ _ _ rfl
        | exact i1 _ _ hw'
  | unsubscribe r =>
    simp only [World.execDirective]
    apply latch_startOp w _ _ _ h
    intro w' hw' _
    split
    · rename_i hl; exact latch_err_dead _ _ _ (by simpa using hl)
    · repeat' split
      all_goals first
        | exact latch_err_nonfatal _ _ _ rfl
        | exact i1 _ _ hw'
  | disconnect dd =>
    simp only [World.execDirective]
    apply latch_startOp w _ _ _ h
    intro w' hw' _
    split
    · exact latch_finish _ _
    · repeat' split
      all_goals first
        | exact latch_err_nonfatal _ _ _ rfl
        | exact i1 _ _ hw'
  | poll =>
    simp only [World.execDirective]
    exact latch_startOp w _ _ (fun w' hw' _ => i12 _ _ hw') h
  | recv =>
    simp only [World.execDirective]
    exact latch_startOp w _ _ (fun w' hw' _ => i12 _ _ hw') h
  | drive =>
    simp only [World.execDirective]
    exact latch_startOp w _ _ (fun w' hw' _ => i12 _ _ hw') h
  | d n =>
    simp only [World.execDirective]
    split
    · exact h.emit _
    · exact (latch_poll { w with slot := some n } (h.keep rfl rfl rfl)).keep rfl rfl rfl
  | go =>
    simp only [World.execDirective]
    split
    · exact h.emit _
    · exact latch_goLoop _ _ h
  | tick us =>
    simp only [World.execDirective]
    split
    · exact h.emit _
    · split
      · exact latch_poll _ (h.keep rfl rfl rfl)
      · exact h.keep rfl rfl rfl
  | rx bytes =>
    simp only [World.execDirective]
    split
    · exact h.emit _
    · exact h.keep rfl rfl rfl
  | cancel => exact latch_cancelFut w h
  | drop => exact (latch_dropConn w h).1
  | setpid n =>
    simp only [World.execDirective]
    split
    · exact h.emit _
    · exact h.sess _
  | decode bs => exact h.emit _

/-- The initial world: nothing has completed, nothing is suspended. -/
theorem latch_init (cfg : Cfg) : LatchInv ({ sess := Session.new cfg } : World) :=
  ⟨(fun e he _ => by cases he), (fun pc hpc _ => by cases hpc)⟩

/-- **Every program preserves it.** -/
theorem latch_run (ds : List Directive) (w : World) (h : LatchInv w) :
    LatchInv (ds.foldl World.execDirective w) := by
  induction ds generalizing w with
  | nil => exact h
  | cons d ds ih => simp only [List.foldl]; exact ih _ (latch_execDirective w d h)


/-! ## `disconnect()` that completes leaves a dead handle

The part of the machine that belongs to `disconnect`: the preliminary `flush_outbound` (context
`.flush (.discPre d)`), the encoding of the DISCONNECT (`afterFlush (.discPre d)`), its `write_all` and
`flush` (`doLocalWrite`/`doLocalFlush` with `which = 2`). -/

/-- The await points of `disconnect()`. -/
def Pc.isDisc : Pc → Bool
  | .stepWrite (.flush (.discPre _)) _ _ _ _ _ => true
  | .stepFlush (.flush (.discPre _)) _ _ => true
  | .discWrite _ => true
  | .discFlush => true
  | _ => false

/-- The errors with which `disconnect()` refuses locally, before any byte of the DISCONNECT is offered to
the transport: invalid properties (`InvalidRequest`, also a field that is too long to encode), a
DISCONNECT that does not fit the control packet buffer (`BufferTooSmall`) or exceeds the broker's Maximum
Packet Size (`PacketTooLarge`). -/
def Err.localRefusal : Err → Bool
  | .invalidRequest | .bufferTooSmall | .packetTooLarge => true
  | _ => false

/-- Where a `disconnect()` can be: still suspended at one of its own await points, or completed — and then
the handle is dead, or the call refused locally. -/
def DiscDone (r : World) : Prop :=
  (∃ pc, r.fut = some pc ∧ pc.isDisc = true) ∨
  (r.fut = none ∧ (r.live = false ∨ ∃ e, r.lastRes = some (.error e) ∧ e.localRefusal = true))

/-- The same with the way out the fuel-based functions have: the line `fuel` was printed. -/
def DiscOut (r : World) : Prop := DiscDone r ∨ "fuel" ∈ r.out

theorem DiscDone.keep {w w' : World} (h : DiscDone w) (hr : w'.lastRes = w.lastRes) (hf : w'.fut = w.fut)
    (hc : w'.conn = w.conn) : DiscDone w' := by
  have hl : w'.live = w.live := by unfold World.live; rw [hc]
  unfold DiscDone at h ⊢
  rw [hr, hf, hl]; exact h

theorem disc_dead {r : World} (hf : r.fut = none) (hl : r.live = false) : DiscOut r := .inl (.inr ⟨hf, .inl hl⟩)

theorem disc_susp (w : World) (pc : Pc) (hd : pc.isDisc = true) : DiscOut (w.suspend pc) :=
  .inl (.inl ⟨pc, rfl, hd⟩)

theorem disc_refuse (w : World) (o : String) (e : Err) (he : e.localRefusal = true) : DiscOut (w.finishErr o e) :=
  .inl (.inr ⟨rfl, .inr ⟨e, rfl, he⟩⟩)

theorem disc_hd_err (w : World) (o : String) (e : Err) : DiscOut ((w.handleDisconnect).finishErr o e) :=
  disc_dead rfl (handleDisconnect_live w)

theorem disc_hd_ok (w : World) (l : String) : DiscOut ((w.handleDisconnect).finish l) :=
  disc_dead rfl (handleDisconnect_live w)

theorem ofSer_localRefusal (e : SerErr) : (Err.ofSer e).localRefusal = true := by cases e <;> rfl

/-- The statement proved simultaneously for the eight machine functions `disconnect` runs through. -/
def DMachine (fuel : Nat) : Prop :=
  (∀ w d, DiscOut (flushLoop fuel w (.discPre d))) ∧
  (∀ w d step now, DiscOut (performStep fuel w (.flush (.discPre d)) step now)) ∧
  (∀ w d pkt bytes wr len now, DiscOut (doStepWrite fuel w (.flush (.discPre d)) pkt bytes wr len now)) ∧
  (∀ w d pkt now, DiscOut (doStepFlush fuel w (.flush (.discPre d)) pkt now)) ∧
  (∀ w d adv, DiscOut (stepReturned fuel w (.flush (.discPre d)) adv)) ∧
  (∀ w d, DiscOut (afterFlush fuel w (.discPre d))) ∧
  (∀ w bytes, DiscOut (doLocalWrite fuel w 2 bytes)) ∧
  (∀ w, DiscOut (doLocalFlush fuel w 2))

theorem dmachine_zero : DMachine 0 := by
  refine ⟨?_, ?_, ?_, ?_, ?_, ?_, ?_, ?_⟩ <;> intros <;>
    simp only [flushLoop, performStep, doStepWrite, doStepFlush, stepReturned, afterFlush, doLocalWrite,
      doLocalFlush] <;>
    exact .inr (List.mem_cons_self ..)

theorem dmachine_succ (fuel : Nat) (ih : DMachine fuel) : DMachine (fuel + 1) := by
  obtain ⟨i1, i2, i3, i4, i5, i6, i7, i8⟩ := ih
  refine ⟨?_, ?_, ?_, ?_, ?_, ?_, ?_, ?_⟩
  · intro w d
    simp only [flushLoop]
    split
    · exact disc_hd_err _ _ _
    · split
      · exact i6 _ _
      · exact i2 _ _ _ _
  · intro w d step now
    simp only [performStep]
    split
    · cases step <;> exact disc_hd_err _ _ _
    · exact i5 _ _ _
    · split
      · exact disc_hd_err _ _ _
      · exact i4 _ _ _ _
    · split
      · exact disc_hd_err _ _ _
      · exact i3 _ _ _ _ _ _ _
  · intro w d pkt bytes wr len now
    simp only [doStepWrite]
    split
    · exact disc_susp _ _ rfl
    · exact disc_hd_err _ _ _
    · exact disc_hd_err _ _ _
    · split
      · exact i5 _ _ _
      · exact i4 _ _ _ _
  · intro w d pkt now
    simp only [doStepFlush]
    split
    · exact disc_susp _ _ rfl
    · exact disc_hd_err _ _ _
    · exact i5 _ _ _
  · intro w d adv
    simp only [stepReturned]
    exact i1 _ _
  · intro w d
    simp only [afterFlush]
    split
    · exact disc_refuse _ _ _ (ofSer_localRefusal _)
    · split
      · exact disc_refuse _ _ _ rfl
      · exact i7 _ _
  · intro w bytes
    simp only [doLocalWrite]
    split
    · exact i8 _
    · split
      · exact disc_susp _ _ rfl
      · exact i7 _ _
      · exact disc_hd_err _ _ _
      · exact disc_hd_err _ _ _
  · intro w
    simp only [doLocalFlush]
    split
    · exact disc_susp _ _ rfl
    · exact disc_hd_err _ _ _
    · exact disc_hd_ok _ _

theorem dmachine : ∀ fuel, DMachine fuel := by
  intro fuel
  induction fuel with
  | zero => exact dmachine_zero
  | succ fuel ih => exact dmachine_succ fuel ih

/-- Resuming a suspended `disconnect()` (before the fuel argument is discharged). -/
theorem disc_poll_raw (w : World) (pc : Pc) (hf : w.fut = some pc) (hd : pc.isDisc = true) :
    DiscOut (World.poll w) := by
  obtain ⟨_, _, i3, i4, _, _, i7, i8⟩ := dmachine pollFuel
  unfold World.poll
  simp only [hf]
  cases pc with
  | stepWrite ctx pkt bytes written len now =>
    cases ctx with
    | drive a o => cases hd
    | flush k => cases k <;> first | exact i3 _ _ _ _ _ _ _ | cases hd
  | stepFlush ctx pkt now =>
    cases ctx with
    | drive a o => cases hd
    | flush k => cases k <;> first | exact i4 _ _ _ _ | cases hd
  | discWrite bytes => exact i7 _ _
  | discFlush => exact i8 _
  | connWrite _ => cases hd
  | connFlush => cases hd
  | connRead => cases hd
  | q0Write _ => cases hd
  | q0Flush => cases hd
  | waitRead _ _ _ => cases hd

/-- Starting `disconnect()` on a handle (before the fuel argument is discharged). -/
theorem disc_start_raw (w : World) (d : Disconnect) (hc : w.conn.isSome = true) :
    DiscOut (w.execDirective (.disconnect d)) := by
  obtain ⟨i1, _⟩ := dmachine pollFuel
  have hn : w.conn.isNone = false := by cases hw : w.conn <;> simp_all
  simp only [World.execDirective, World.startOp, hn, Bool.false_eq_true, if_false]
  split
  · rename_i hl
    exact disc_dead rfl (by simpa using hl)
  · repeat' split
    all_goals first
      | exact disc_refuse _ _ Err.invalidRequest rfl
      | exact i1 _ _

/-! ### Discharging the fuel: the trace is write-only and never shows `fuel` -/

theorem discDone_addOld {x : World} {o : List String} (h : DiscDone x) : DiscDone (x.addOld o) := h

theorem discDone_of_quiet {w0 r : World} (hq : Fuel.Quiet w0 r) (h0 : w0.out = []) (ho : DiscOut r) : DiscDone r := by
  rcases ho with h | h
  · exact h
  · exact absurd (List.mem_reverse.mpr h) (Fuel.not_fuel_of_quiet hq h0)

/-- Resuming a suspended `disconnect()`: it is suspended again inside `disconnect`, or it has completed
with a dead handle or a local refusal. -/
theorem disc_poll (w : World) (pc : Pc) (hf : w.fut = some pc) (hd : pc.isDisc = true) :
    DiscDone (World.poll w) := by
  have h0 := discDone_of_quiet (Fuel.quiet_poll ({ w with out := [] } : World)) rfl
    (disc_poll_raw ({ w with out := [] } : World) pc hf hd)
  have e := poll_addOld ({ w with out := [] } : World) w.out
  rw [← eq_addOld_clear] at e
  rw [e]; exact discDone_addOld h0

/-- `disconnect()` called on a handle. -/
theorem disc_start (w : World) (d : Disconnect) (hc : w.conn.isSome = true) :
    DiscDone (w.execDirective (.disconnect d)) := by
  have h0 := discDone_of_quiet (Fuel.quiet_execDirective ({ w with out := [] } : World) (.disconnect d)) rfl
    (disc_start_raw ({ w with out := [] } : World) d hc)
  have e := execDirective_addOld ({ w with out := [] } : World) w.out (.disconnect d)
  rw [← eq_addOld_clear] at e
  rw [e]; exact discDone_addOld h0

/-- POLL on a world where a `disconnect()` is suspended or has completed. -/
theorem disc_poll_any (w : World) (h : DiscDone w) : DiscDone (World.poll w) := by
  rcases h with ⟨pc, hf, hd⟩ | ⟨hf, h⟩
  · exact disc_poll w pc hf hd
  · have e : World.poll w = { w with wakes := 0, lastIoStarved := false } := by
      unfold World.poll; simp only [hf]
    rw [e]
    exact DiscDone.keep (.inr ⟨hf, h⟩) rfl rfl rfl

theorem disc_goLoop (n : Nat) (w : World) (h : DiscDone w) : DiscDone (World.goLoop n w) := by
  induction n generalizing w with
  | zero => exact h.keep rfl rfl rfl
  | succ n ih =>
    simp only [World.goLoop]
    have h1 : DiscDone ({ World.poll { w with slot := some 250 } with slot := none } : World) :=
      (disc_poll_any { w with slot := some 250 } (h.keep rfl rfl rfl)).keep rfl rfl rfl
    repeat' split
    all_goals first
      | exact h1
      | exact ih _ h1

/-- The directives that let a suspended operation run on: an I/O decision, `go`, the clock. -/
def Directive.isResume : Directive → Bool
  | .d _ | .go | .tick _ => true
  | _ => false

theorem disc_resume (w : World) (r : Directive) (hr : r.isResume = true) (h : DiscDone w) :
    DiscDone (w.execDirective r) := by
  cases r with
  | d n =>
    simp only [World.execDirective]
    split
    · exact h.keep rfl rfl rfl
    · exact (disc_poll_any { w with slot := some n } (h.keep rfl rfl rfl)).keep rfl rfl rfl
  | go =>
    simp only [World.execDirective]
    split
    · exact h.keep rfl rfl rfl
    · exact disc_goLoop _ _ h
  | tick us =>
    simp only [World.execDirective]
    split
    · exact h.keep rfl rfl rfl
    · split
      · exact disc_poll_any _ (h.keep rfl rfl rfl)
      · exact h.keep rfl rfl rfl
  | _ => cases hr

theorem disc_resume_run (rs : List Directive) (w : World) (hrs : ∀ r ∈ rs, r.isResume = true) (h : DiscDone w) :
    DiscDone (rs.foldl World.execDirective w) := by
  induction rs generalizing w with
  | nil => exact h
  | cons r rs ih =>
    simp only [List.foldl]
    exact ih _ (fun x hx => hrs x (List.mem_cons_of_mem _ hx)) (disc_resume w r (hrs r (List.mem_cons_self ..)) h)

end Minimq
