import Minimq.Proofs.WireSess
import Minimq.Proofs.Release
/-
The transmission log (ghost field `World.log`) against the retained queue: on one connection the
retained packets are handed to the transport in the order of their serial numbers, each at most once,
the ones recorded as sent are exactly the ones in the log (with the bytes that are in the arena now),
and the ones still waiting have serials above everything in the log.
-/
namespace Minimq
open Gen World Outbound

/-- The serial of a retained packet's log entry. -/
def LogEntry.ser? (f : LogEntry) : Option Nat :=
  match f.tag with
  | .retained s _ => some s
  | _ => none

/-- The serials of the retained packets in a log, in the order they were written. -/
def sers (l : List LogEntry) : List Nat := l.filterMap LogEntry.ser?

theorem sers_append (l l' : List LogEntry) : Minimq.sers (l ++ l') = Minimq.sers l ++ sers l' := by
  simp [sers, List.filterMap_append]

def SendState.isWrite : SendState → Bool
  | .write _ => true
  | _ => false

/-- Serial, identifier, send state and current bytes of a retained packet. -/
structure Row where
  ser : Nat
  id : Nat
  state : SendState
  bytes : Bytes

def rowOf (buf : Bytes) (e : RetainedPacket) : Row := ⟨e.ser, e.id, e.state, slice buf e.offset e.len⟩

/-- The retained queue as rows, oldest first. -/
def Outbound.rows (o : Outbound) : List Row := o.retained.map (rowOf o.buf)

theorem rows_of_meta_contents (buf buf' : Bytes) (l l' : List RetainedPacket)
    (hm : l'.map (fun e => (e.id, e.len, e.state, e.ser)) = l.map (fun e => (e.id, e.len, e.state, e.ser)))
    (hc : contents buf' l' = contents buf l) : l'.map (rowOf buf') = l.map (rowOf buf) := by
  induction l generalizing l' with
  | nil => cases l' with
    | nil => rfl
    | cons x xs => simp at hm
  | cons e es ih =>
    cases l' with
    | nil => simp at hm
    | cons x xs =>
      simp only [List.map_cons, List.cons.injEq, Prod.mk.injEq, contents] at hm hc
      obtain ⟨⟨h1, _, h3, h4⟩, hm'⟩ := hm
      obtain ⟨hc1, hc'⟩ := hc
      simp only [List.map_cons, List.cons.injEq]
      refine ⟨?_, ih xs hm' hc'⟩
      simp only [rowOf, h1, h3, h4, hc1]

theorem rows_congr {o o' : Outbound} (hm : o'.meta = o.meta) (hc : o'.contents = o.contents) : o'.rows = o.rows :=
  rows_of_meta_contents _ _ _ _ hm hc

/-- The log `l` of the transport with ordinal `k` agrees with the retained queue. -/
structure Outbound.PLog (o : Outbound) (k : Nat) (l : List LogEntry) : Prop where
  /-- Retained packets went out in the order of their serials, none twice. -/
  sorted : (Minimq.sers l).Pairwise (· < ·)
  below : ∀ s ∈ Minimq.sers l, s < o.nextSer
  /-- A packet recorded as written (waiting for its flush, or sent) is in the log, with the bytes that are in the arena. -/
  written : ∀ r ∈ o.rows, (r.state = .sent ∨ r.state = .flush) → (⟨k, .retained r.ser r.id, r.bytes⟩ : LogEntry) ∈ l
  /-- A packet not yet completely written is not in the log, and everything in the log is older. -/
  unwritten : ∀ r ∈ o.rows, r.state.isWrite = true → ∀ s ∈ Minimq.sers l, s < r.ser
  /-- Behind a packet that has been started, nothing has been started: everything in front of a
  started packet is sent. -/
  ord : (o.rows.map (·.state)).Pairwise (fun a b => b ≠ .write 0 → a = .sent)

theorem Outbound.PLog.congr {o o' : Outbound} {k : Nat} {l : List LogEntry} (h : o.PLog k l) (hr : o'.rows = o.rows)
    (hn : o'.nextSer = o.nextSer) : o'.PLog k l :=
  ⟨h.sorted, by rw [hn]; exact h.below, by rw [hr]; exact h.written, by rw [hr]; exact h.unwritten, by rw [hr]; exact h.ord⟩

theorem Outbound.PLog.sublist {o o' : Outbound} {k : Nat} {l : List LogEntry} (h : o.PLog k l) (hr : o'.rows.Sublist o.rows)
    (hn : o.nextSer ≤ o'.nextSer) : o'.PLog k l :=
  ⟨h.sorted, fun s hs => Nat.lt_of_lt_of_le (h.below s hs) hn, fun r hm => h.written r (hr.subset hm),
   fun r hm => h.unwritten r (hr.subset hm), h.ord.sublist (hr.map _)⟩

/-- Appending a log entry that is not a retained packet. -/
theorem Outbound.PLog.append_other {o : Outbound} {k : Nat} {l : List LogEntry} (h : o.PLog k l) (f : LogEntry)
    (hf : f.ser? = none) : o.PLog k (l ++ [f]) := by
  have hs : Minimq.sers (l ++ [f]) = Minimq.sers l := by simp [sers_append, Minimq.sers, hf]
  exact ⟨by rw [hs]; exact h.sorted, by rw [hs]; exact h.below,
    fun r hm hst => List.mem_append_left _ (h.written r hm hst), by rw [hs]; exact h.unwritten, h.ord⟩

/-! ### Arena operations keep the rows -/

theorem rows_compact (o : Outbound) (h : o.ArenaInv) : o.compact.rows = o.rows ∧ o.compact.nextSer = o.nextSer := by
  obtain ⟨_, c2, c3, _, _, _, _, c8⟩ := compact_spec o h
  exact ⟨rows_congr c3 c2, c8⟩

theorem rows_encodeAt {ε : Type} (o : Outbound) (enc : Nat → (Nat → Nat → Bytes) → Except ε (Nat × Bytes))
    (h : o.ArenaInv) (he : EncOk enc) : (o.encodeAt enc).1.rows = o.rows ∧ (o.encodeAt enc).1.nextSer = o.nextSer := by
  obtain ⟨_, c2, c3, _, _, _, _, c8, _⟩ := encodeAt_spec o enc h he
  exact ⟨rows_congr c3 c2, c8⟩

theorem rows_ackPacket (o : Outbound) (id : Nat) (k : AckKind) (h : o.ArenaInv) :
    (o.ackPacket id k).1.rows.Sublist o.rows ∧ (o.ackPacket id k).1.nextSer = o.nextSer := by
  obtain ⟨_, ht, hn, hs, _⟩ := ackPacket_spec o id k h
  refine ⟨?_, hs⟩
  cases hfound : (o.ackPacket id k).2 with
  | false => rw [hn hfound]; exact List.Sublist.refl _
  | true =>
    obtain ⟨hc, hm⟩ := ht hfound
    have : (o.ackPacket id k).1.rows =
        (removeFirst (fun (e : RetainedPacket) => e.id == id && k.acknowledges (o.headerAt e.offset)) o.retained).map (rowOf o.buf) :=
      rows_of_meta_contents _ _ _ _ hm hc
    rw [this]
    exact (removeFirst_sublist _ _).map _

theorem rows_retainPacket (o o' : Outbound) (id off len : Nat) (h : o.ArenaInv)
    (hoff : o.used ≤ off) (hend : off + len ≤ o.buf.length) (hpos : 0 < len) (hr : o.retainPacket id off len = some o') :
    o'.rows = o.rows ++ [⟨o.nextSer, id, .write 0, slice o.buf off len⟩] ∧ o'.nextSer = o.nextSer + 1 := by
  obtain ⟨_, _, _, rb, _, _, rn⟩ := retainPacket_spec o o' id off len h hoff hend hpos hr
  obtain ⟨h1, _, _, _⟩ := retainPacket_appends o o' id off len hr
  refine ⟨?_, rn⟩
  simp only [Outbound.rows, h1, rb, List.map_append, List.map_cons, List.map_nil, rowOf]

/-- A new retained packet gets a serial above everything in the log. -/
theorem Outbound.PLog.retain {o o' : Outbound} {k : Nat} {l : List LogEntry} (h : o.PLog k l) (r : Row)
    (hrows : o'.rows = o.rows ++ [r]) (hser : r.ser = o.nextSer) (hst : r.state = .write 0) (hn : o'.nextSer = o.nextSer + 1) :
    o'.PLog k l := by
  refine ⟨h.sorted, fun s hs => by rw [hn]; exact Nat.lt_succ_of_lt (h.below s hs), ?_, ?_, ?_⟩
  · intro x hx hstx
    rw [hrows] at hx
    rcases List.mem_append.mp hx with hm | hm
    · exact h.written x hm hstx
    · simp only [List.mem_singleton] at hm; subst hm
      rw [hst] at hstx; rcases hstx with h1 | h1 <;> cases h1
  · intro x hx hw s hs
    rw [hrows] at hx
    rcases List.mem_append.mp hx with hm | hm
    · exact h.unwritten x hm hw s hs
    · simp only [List.mem_singleton] at hm; subst hm
      rw [hser]; exact h.below s hs
  · rw [hrows, List.map_append, List.pairwise_append]
    refine ⟨h.ord, by simp, ?_⟩
    intro a _ c hc hne
    simp only [List.map_cons, List.map_nil, List.mem_singleton] at hc
    subst hc
    exact absurd hst hne

/-! ### The state of one entry changes -/

theorem rows_split (buf : Bytes) (pre : List RetainedPacket) (e : RetainedPacket) (post : List RetainedPacket) :
    (pre ++ e :: post).map (rowOf buf) = pre.map (rowOf buf) ++ rowOf buf e :: post.map (rowOf buf) := by simp

/-- What the entry in progress looks like in the queue: everything in front of it is sent, everything
behind it still waits for its first byte. -/
theorem Outbound.PLog.post_fresh {o : Outbound} {k : Nat} {l : List LogEntry} (h : o.PLog k l)
    {pre post : List RetainedPacket} {e : RetainedPacket} (hr : o.retained = pre ++ e :: post) (hne : e.state ≠ .sent) :
    ∀ x ∈ post, x.state = .write 0 := by
  intro x hx
  have ho := h.ord
  simp only [Outbound.rows, hr, List.map_append, List.map_cons, List.map_map, List.pairwise_append] at ho
  have := (List.pairwise_cons.mp ho.2.1).1 (rowOf o.buf x).state
    (by simp only [List.mem_map, Function.comp]; exact ⟨x, hx, rfl⟩)
  by_cases hx0 : x.state = .write 0
  · exact hx0
  · exact absurd (this hx0) hne

/-- The state of the current retained entry changes from one unfinished state to another. -/
theorem Outbound.PLog.setState_write {o o' : Outbound} {k : Nat} {l : List LogEntry} (h : o.PLog k l)
    {pre post : List RetainedPacket} {e : RetainedPacket} (hr : o.retained = pre ++ e :: post)
    (hsent : ∀ x ∈ pre, x.state = .sent) (hw : e.state.isWrite = true) (n : Nat)
    (hr' : o'.retained = pre ++ { e with state := .write n } :: post) (hb : o'.buf = o.buf) (hn : o'.nextSer = o.nextSer) :
    o'.PLog k l := by
  have hpost := h.post_fresh hr (by intro hs; rw [hs] at hw; cases hw)
  have hrows : o.rows = pre.map (rowOf o.buf) ++ rowOf o.buf e :: post.map (rowOf o.buf) := by
    simp only [Outbound.rows, hr]; exact rows_split _ _ _ _
  have hrows' : o'.rows = pre.map (rowOf o.buf) ++ rowOf o.buf { e with state := .write n } :: post.map (rowOf o.buf) := by
    simp only [Outbound.rows, hr', hb]; exact rows_split _ _ _ _
  refine ⟨h.sorted, by rw [hn]; exact h.below, ?_, ?_, ?_⟩
  · intro r hm hst
    rw [hrows'] at hm
    rcases List.mem_append.mp hm with hm | hm
    · exact h.written r (by rw [hrows]; exact List.mem_append_left _ hm) hst
    · rcases List.mem_cons.mp hm with rfl | hm
      · simp only [rowOf] at hst; rcases hst with h1 | h1 <;> cases h1
      · exact h.written r (by rw [hrows]; exact List.mem_append_right _ (List.mem_cons_of_mem _ hm)) hst
  · intro r hm hwr s hs
    rw [hrows'] at hm
    rcases List.mem_append.mp hm with hm | hm
    · exact h.unwritten r (by rw [hrows]; exact List.mem_append_left _ hm) hwr s hs
    · rcases List.mem_cons.mp hm with rfl | hm
      · exact h.unwritten (rowOf o.buf e) (by rw [hrows]; simp) hw s hs
      · exact h.unwritten r (by rw [hrows]; exact List.mem_append_right _ (List.mem_cons_of_mem _ hm)) hwr s hs
  · have ho := h.ord
    rw [hrows] at ho
    rw [hrows']
    simp only [List.map_append, List.map_cons, List.map_map, List.pairwise_append, List.pairwise_cons] at ho ⊢
    refine ⟨ho.1, ⟨?_, ho.2.1.2⟩, ?_⟩
    · intro b hb hne
      simp only [List.mem_map, Function.comp] at hb
      obtain ⟨x, hx, rfl⟩ := hb
      exact absurd (hpost x hx) hne
    · intro a ha b hb hne
      simp only [List.mem_map, Function.comp] at ha
      obtain ⟨x, hx, rfl⟩ := ha
      exact hsent x hx

/-- The last byte of the current retained entry has been accepted: it goes into the log. -/
theorem Outbound.PLog.setState_flush {o o' : Outbound} {k : Nat} {l : List LogEntry} (h : o.PLog k l) (hser : o.SerInv)
    {pre post : List RetainedPacket} {e : RetainedPacket} (hr : o.retained = pre ++ e :: post)
    (hsent : ∀ x ∈ pre, x.state = .sent) (hw : e.state.isWrite = true)
    (hr' : o'.retained = pre ++ { e with state := .flush } :: post) (hb : o'.buf = o.buf) (hn : o'.nextSer = o.nextSer) :
    o'.PLog k (l ++ [⟨k, .retained e.ser e.id, slice o.buf e.offset e.len⟩]) := by
  have hpost := h.post_fresh hr (by intro hs; rw [hs] at hw; cases hw)
  have hrows : o.rows = pre.map (rowOf o.buf) ++ rowOf o.buf e :: post.map (rowOf o.buf) := by
    simp only [Outbound.rows, hr]; exact rows_split _ _ _ _
  have hrows' : o'.rows = pre.map (rowOf o.buf) ++ rowOf o.buf { e with state := .flush } :: post.map (rowOf o.buf) := by
    simp only [Outbound.rows, hr', hb]; exact rows_split _ _ _ _
  have hs : Minimq.sers (l ++ [(⟨k, .retained e.ser e.id, slice o.buf e.offset e.len⟩ : LogEntry)]) = Minimq.sers l ++ [e.ser] := by
    simp [sers_append, Minimq.sers, LogEntry.ser?]
  have hbelow_e : ∀ s ∈ Minimq.sers l, s < e.ser := h.unwritten (rowOf o.buf e) (by rw [hrows]; simp) hw
  have hinc := hser.inc
  rw [hr, List.map_append, List.map_cons, List.pairwise_append] at hinc
  have hpost_ser : ∀ x ∈ post, e.ser < x.ser := fun x hx =>
    (List.pairwise_cons.mp hinc.2.1).1 x.ser (List.mem_map.mpr ⟨x, hx, rfl⟩)
  refine ⟨?_, ?_, ?_, ?_, ?_⟩
  · rw [hs, List.pairwise_append]
    exact ⟨h.sorted, by simp, fun a ha c hc => by simp only [List.mem_singleton] at hc; subst hc; exact hbelow_e a ha⟩
  · intro s hm
    rw [hs] at hm
    rcases List.mem_append.mp hm with hm | hm
    · rw [hn]; exact h.below s hm
    · simp only [List.mem_singleton] at hm; subst hm
      rw [hn]; exact hser.lt e (by rw [hr]; simp)
  · intro r hm hst
    rw [hrows'] at hm
    rcases List.mem_append.mp hm with hm | hm
    · exact List.mem_append_left _ (h.written r (by rw [hrows]; exact List.mem_append_left _ hm) hst)
    · rcases List.mem_cons.mp hm with rfl | hm
      · exact List.mem_append_right _ (by simp [rowOf])
      · exact List.mem_append_left _
          (h.written r (by rw [hrows]; exact List.mem_append_right _ (List.mem_cons_of_mem _ hm)) hst)
  · intro r hm hwr s hsm
    rw [hrows'] at hm
    rw [hs] at hsm
    rcases List.mem_append.mp hm with hm | hm
    · simp only [List.mem_map] at hm
      obtain ⟨x, hx, rfl⟩ := hm
      simp only [rowOf, hsent x hx] at hwr; cases hwr
    · rcases List.mem_cons.mp hm with rfl | hm
      · simp only [rowOf] at hwr; cases hwr
      · have hm' := hm
        simp only [List.mem_map] at hm'
        obtain ⟨x, hx, rfl⟩ := hm'
        rcases List.mem_append.mp hsm with hsm | hsm
        · exact h.unwritten _ (by rw [hrows]; exact List.mem_append_right _ (List.mem_cons_of_mem _ hm)) hwr s hsm
        · simp only [List.mem_singleton] at hsm; subst hsm
          exact hpost_ser x hx
  · have ho := h.ord
    rw [hrows] at ho
    rw [hrows']
    simp only [List.map_append, List.map_cons, List.map_map, List.pairwise_append, List.pairwise_cons] at ho ⊢
    refine ⟨ho.1, ⟨?_, ho.2.1.2⟩, ?_⟩
    · intro b hb hne
      simp only [List.mem_map, Function.comp] at hb
      obtain ⟨x, hx, rfl⟩ := hb
      exact absurd (hpost x hx) hne
    · intro a ha b hb hne
      simp only [List.mem_map, Function.comp] at ha
      obtain ⟨x, hx, rfl⟩ := ha
      exact hsent x hx

/-- The flush of the current retained entry completed. -/
theorem Outbound.PLog.setState_sent {o o' : Outbound} {k : Nat} {l : List LogEntry} (h : o.PLog k l)
    {pre post : List RetainedPacket} {e : RetainedPacket} (hr : o.retained = pre ++ e :: post)
    (hsent : ∀ x ∈ pre, x.state = .sent) (hf : e.state = .flush)
    (hr' : o'.retained = pre ++ { e with state := .sent } :: post) (hb : o'.buf = o.buf) (hn : o'.nextSer = o.nextSer) :
    o'.PLog k l := by
  have hrows : o.rows = pre.map (rowOf o.buf) ++ rowOf o.buf e :: post.map (rowOf o.buf) := by
    simp only [Outbound.rows, hr]; exact rows_split _ _ _ _
  have hrows' : o'.rows = pre.map (rowOf o.buf) ++ rowOf o.buf { e with state := .sent } :: post.map (rowOf o.buf) := by
    simp only [Outbound.rows, hr', hb]; exact rows_split _ _ _ _
  refine ⟨h.sorted, by rw [hn]; exact h.below, ?_, ?_, ?_⟩
  · intro r hm hst
    rw [hrows'] at hm
    rcases List.mem_append.mp hm with hm | hm
    · exact h.written r (by rw [hrows]; exact List.mem_append_left _ hm) hst
    · rcases List.mem_cons.mp hm with rfl | hm
      · exact h.written (rowOf o.buf e) (by rw [hrows]; simp) (Or.inr hf)
      · exact h.written r (by rw [hrows]; exact List.mem_append_right _ (List.mem_cons_of_mem _ hm)) hst
  · intro r hm hwr s hs
    rw [hrows'] at hm
    rcases List.mem_append.mp hm with hm | hm
    · exact h.unwritten r (by rw [hrows]; exact List.mem_append_left _ hm) hwr s hs
    · rcases List.mem_cons.mp hm with rfl | hm
      · simp only [rowOf] at hwr; cases hwr
      · exact h.unwritten r (by rw [hrows]; exact List.mem_append_right _ (List.mem_cons_of_mem _ hm)) hwr s hs
  · have ho := h.ord
    rw [hrows] at ho
    rw [hrows']
    simp only [List.map_append, List.map_cons, List.map_map, List.pairwise_append, List.pairwise_cons] at ho ⊢
    refine ⟨ho.1, ⟨fun _ _ _ => rfl, ho.2.1.2⟩, ?_⟩
    intro a ha b hb hne
    simp only [List.mem_map, Function.comp] at ha
    obtain ⟨x, hx, rfl⟩ := ha
    exact hsent x hx

/-- With every entry waiting for its first byte, the empty log agrees with the queue. -/
theorem PLog_of_allFresh (o : Outbound) (k : Nat) (h : ∀ e ∈ o.retained, e.state = .write 0) : o.PLog k [] := by
  refine ⟨by simp [Minimq.sers], by simp [Minimq.sers], ?_, by simp [Minimq.sers], ?_⟩
  · intro r hm hst
    simp only [Outbound.rows, List.mem_map] at hm
    obtain ⟨e, he, rfl⟩ := hm
    simp only [rowOf, h e he] at hst
    rcases hst with h1 | h1 <;> cases h1
  · have : ∀ (l : List RetainedPacket), (∀ e ∈ l, e.state = .write 0) →
        ((l.map (rowOf o.buf)).map (·.state)).Pairwise (fun a b => b ≠ .write 0 → a = .sent) := by
      intro l
      induction l with
      | nil => intro _; exact List.Pairwise.nil
      | cons x xs ih =>
        intro hl
        simp only [List.map_cons, List.pairwise_cons]
        refine ⟨?_, ih (fun e he => hl e (by simp [he]))⟩
        intro c hc hne
        simp only [List.map_map, List.mem_map, Function.comp] at hc
        obtain ⟨y, hy, rfl⟩ := hc
        exact absurd (hl y (by simp [hy])) hne
    exact this _ h


/-! ### The log entry `setWritten` records, and the queue steps -/

/-- `World.doneFrame` as a function of the queues and the transport ordinal. -/
def Outbound.done (o : Outbound) (k : Nat) (pkt : Flushed) : LogEntry :=
  match pkt with
  | .control a => { net := k, tag := .control a, bytes := ((encodeControl a).toOption).getD [] }
  | .release id =>
    (match o.release.find? (fun e => e.id == id) with
     | some e => { net := k, tag := .release e.rser e.pser id e.rc, bytes := ((encodePubrel id e.rc).toOption).getD [] }
     | none => { net := k, tag := .unknown, bytes := [] })
  | .retained id =>
    (match o.retained.find? (fun e => e.id == id) with
     | some e => { net := k, tag := .retained e.ser id, bytes := o.retainedPacket e.offset e.len }
     | none => { net := k, tag := .unknown, bytes := [] })

theorem doneFrame_eq (w : World) (pkt : Flushed) : w.doneFrame pkt = w.sess.data.outbound.done w.nets.length pkt := by
  unfold World.doneFrame Outbound.done
  cases pkt <;> rfl

/-- The tag a step's entry gets in the log. -/
def Outbound.stepTag (o : Outbound) : Outbound.Step → Tag
  | .control a _ => .control a
  | .release id rc _ => .release (((o.release.find? (fun e => e.id == id)).map (·.rser)).getD 0)
      (((o.release.find? (fun e => e.id == id)).map (·.pser)).getD 0) id rc
  | .retained id _ _ _ => .retained (((o.retained.find? (fun e => e.id == id)).map (·.ser)).getD 0) id

/-- For the current entry the recorded bytes are the bytes `perform_outbound_step` writes. -/
theorem done_of_slot {o : Outbound} {step : Outbound.Step} {bytes : Bytes} (k : Nat) (hs : o.Slot step)
    (hb : o.StepBytes step bytes) : o.done k step.flushed = ⟨k, o.stepTag step, bytes⟩ := by
  cases hs with
  | control a st rest hc hrest hrel hret =>
    simp only [Outbound.StepBytes] at hb
    simp [Outbound.done, Outbound.Step.flushed, Outbound.stepTag, hb, Except.toOption]
  | release pre id rc st rs ps post hr hpre hpost hctl hret hsent =>
    simp only [Outbound.StepBytes] at hb
    have hf : o.release.find? (fun e => e.id == id) = some ⟨id, rc, st, rs, ps⟩ := by
      rw [hr]; exact find?_hit _ pre _ post (fun x hx => by simp [(hpre x hx).1]) (by simp)
    simp [Outbound.done, Outbound.Step.flushed, Outbound.stepTag, hf, hb, Except.toOption]
  | retained pre e post hr hpre hpost hctl hrel hsent =>
    simp only [Outbound.StepBytes] at hb
    have hf : o.retained.find? (fun x => x.id == e.id) = some e := by
      rw [hr]; exact find?_hit _ pre _ post (fun x hx => by simp [(hpre x hx).1]) (by simp)
    simp [Outbound.done, Outbound.Step.flushed, Outbound.stepTag, hf, hb.1, Outbound.retainedPacket]

theorem done_retained {o : Outbound} {pre post : List RetainedPacket} {e : RetainedPacket} (k : Nat)
    (hr : o.retained = pre ++ e :: post) (hpre : ∀ x ∈ pre, x.id ≠ e.id) :
    o.done k (.retained e.id) = ⟨k, .retained e.ser e.id, slice o.buf e.offset e.len⟩ := by
  have hf : o.retained.find? (fun x => x.id == e.id) = some e := by
    rw [hr]; exact find?_hit _ pre _ post (fun x hx => by simp [hpre x hx]) (by simp)
  simp [Outbound.done, hf, Outbound.retainedPacket]

theorem stepTag_retained {o : Outbound} {pre post : List RetainedPacket} {e : RetainedPacket}
    (hr : o.retained = pre ++ e :: post) (hpre : ∀ x ∈ pre, x.id ≠ e.id) :
    o.stepTag (.retained e.id e.offset e.len e.state) = .retained e.ser e.id := by
  have hf : o.retained.find? (fun x => x.id == e.id) = some e := by
    rw [hr]; exact find?_hit _ pre _ post (fun x hx => by simp [hpre x hx]) (by simp)
  simp [Outbound.stepTag, hf]

/-- `set_written` on the current entry: the log stays in agreement with the queue; when the entry is
completely written, with the entry recorded. -/
theorem Outbound.PLog.setWritten {o : Outbound} {k : Nat} {l : List LogEntry} {step : Outbound.Step} {j : Nat}
    (h : o.PLog k l) (hser : o.SerInv) (hs : o.Slot step) (hst : step.state = .write j) (wr len : Nat) :
    (wr < len → (o.setWritten step.flushed wr len).PLog k l) ∧
    (len ≤ wr → (o.setWritten step.flushed wr len).PLog k (l ++ [o.done k step.flushed])) := by
  cases hs with
  | control a st rest hc hrest hrel hret =>
    have hsame : (o.setWritten (Outbound.Step.flushed (.control a st)) wr len).PLog k l := h.congr rfl rfl
    exact ⟨fun _ => hsame, fun _ => hsame.append_other _ (by simp [Outbound.done, Outbound.Step.flushed, LogEntry.ser?])⟩
  | release pre id rc st rs ps post hr hpre hpost hctl hret hsent =>
    have hsame : (o.setWritten (Outbound.Step.flushed (.release id rc st)) wr len).PLog k l := h.congr rfl rfl
    refine ⟨fun _ => hsame, fun _ => hsame.append_other _ ?_⟩
    simp only [Outbound.done, Outbound.Step.flushed]
    split <;> rfl
  | retained pre e post hr hpre hpost hctl hrel hsent =>
    simp only [Outbound.Step.state] at hst
    have hw : e.state.isWrite = true := by rw [hst]; rfl
    have hr' : (o.setWritten (.retained e.id) wr len).retained =
        pre ++ { e with state := SendState.afterWrite wr len } :: post := by
      simp only [Outbound.setWritten, setRetainedWritten, hr]
      rw [modifyFirst_hit _ _ pre _ post (fun x hx => by simp [(hpre x hx).1]) (by simp)]
    constructor
    · intro hlt
      rw [afterWrite_lt hlt] at hr'
      exact h.setState_write hr hsent hw wr hr' rfl rfl
    · intro hge
      rw [afterWrite_ge hge] at hr'
      simp only [Outbound.Step.flushed]
      rw [done_retained k hr (fun x hx => (hpre x hx).1)]
      exact h.setState_flush hser hr hsent hw hr' rfl rfl

/-- `complete_flush` on the current entry. -/
theorem Outbound.PLog.completeFlush {o : Outbound} {k : Nat} {l : List LogEntry} {step : Outbound.Step}
    (h : o.PLog k l) (hs : o.Slot step) (hst : step.state = .flush) : (o.completeFlush step.flushed).PLog k l := by
  cases hs with
  | control a st rest hc hrest hrel hret => exact h.congr rfl rfl
  | release pre id rc st rs ps post hr hpre hpost hctl hret hsent => exact h.congr rfl rfl
  | retained pre e post hr hpre hpost hctl hrel hsent =>
    simp only [Outbound.Step.state] at hst
    have hr' : (o.completeFlush (.retained e.id)).retained = pre ++ { e with state := .sent } :: post := by
      simp only [Outbound.completeFlush, flushRetained, hr]
      rw [modifyFirst_hit _ _ pre _ post (fun x hx => by simp [(hpre x hx).1]) (by simp)]
    exact h.setState_sent hr hsent hst hr' rfl rfl

theorem Outbound.PLog.queueControl {o o' : Outbound} {k : Nat} {l : List LogEntry} {a : ControlAction} (h : o.PLog k l)
    (hq : o.queueControl a = some o') : o'.PLog k l := by
  unfold Outbound.queueControl at hq
  split at hq
  · simp at hq
  · simp only [Option.some.injEq] at hq; subst hq; exact h.congr rfl rfl

theorem Outbound.PLog.queueRelease {o o' : Outbound} {k : Nat} {l : List LogEntry} {id rc ps : Nat} (h : o.PLog k l)
    (hq : o.queueRelease id rc ps = some o') : o'.PLog k l := by
  unfold Outbound.queueRelease at hq
  split at hq
  · simp at hq
  · simp only [Option.some.injEq] at hq; subst hq; exact h.congr rfl rfl

theorem Outbound.PLog.ackRelease {o : Outbound} {k : Nat} {l : List LogEntry} (id : Nat) (h : o.PLog k l) :
    (o.ackRelease id).1.PLog k l := by
  unfold Outbound.ackRelease
  split
  · exact h.congr rfl rfl
  · exact h

theorem Outbound.PLog.ackPacket {o : Outbound} {k : Nat} {l : List LogEntry} (id : Nat) (kind : AckKind) (ha : o.ArenaInv)
    (h : o.PLog k l) : (o.ackPacket id kind).1.PLog k l := by
  obtain ⟨h1, h2⟩ := rows_ackPacket o id kind ha
  exact h.sublist h1 (by rw [h2]; exact Nat.le_refl _)

/-- Handling an inbound packet removes acknowledged packets and queues acknowledgements; the log stays
in agreement with what remains. -/
theorem PLog_handlePacket (d : SessionData) (r : Runtime) (p : Recv) (k : Nat) (l : List LogEntry) (ha : d.outbound.ArenaInv)
    (hf : d.outbound.PLog k l) : (handlePacket d r p).1.outbound.PLog k l := by
  have hack := fun id kind => Outbound.PLog.ackPacket (o := d.outbound) id kind ha hf
  cases p with
  | connAck sp rc props => exact hf
  | pingResp => exact hf
  | disconnect rc props => exact hf
  | subAck id props codes =>
    simp only [handlePacket]
    split
    · exact hf
    · split <;> exact hack id .subAck
  | unsubAck id props codes =>
    simp only [handlePacket]
    split
    · exact hf
    · split <;> exact hack id .unsubAck
  | pubAck id rs =>
    simp only [handlePacket]
    split
    · exact hf
    · split <;> exact hack id .pubAck
  | pubComp id rs =>
    simp only [handlePacket]
    split
    · exact hf
    · split <;> exact Outbound.PLog.ackRelease _ hf
  | pubRec id rs =>
    simp only [handlePacket]
    split
    · split
      · exact hack id .pubRec
      · split
        · exact hack id .pubRec
        · split
          · exact hack id .pubRec
          · rename_i o' hq
            exact Outbound.PLog.queueRelease (hack id .pubRec) hq
    · split
      · split <;> exact hf
      · exact hf
  | pubRel id rs =>
    simp only [handlePacket]
    repeat' split
    all_goals first
      | exact hf
      | exact Outbound.PLog.queueControl hf (by assumption)
  | publish topic id props payload retain qos dup =>
    simp only [handlePacket]
    repeat' split
    all_goals first
      | exact hf
      | exact Outbound.PLog.queueControl hf (by assumption)

theorem PLog_handle (s : Session) (p : Recv) (k : Nat) (l : List LogEntry) (ha : s.data.outbound.ArenaInv)
    (h : s.data.outbound.PLog k l) : (s.handle p).1.data.outbound.PLog k l := by
  rw [Session.handle_fst_data]; exact PLog_handlePacket _ _ _ _ _ ha h

theorem PLog_queuePing {s s' : Session} {now : Nat} {k : Nat} {l : List LogEntry} (hq : s.queuePing now = .ok s')
    (h : s.data.outbound.PLog k l) : s'.data.outbound.PLog k l := by
  rcases Session.queuePing_ok hq with rfl | ⟨o, ho, rfl⟩
  · exact h
  · exact h.queueControl ho

theorem PLog_encode {ε : Type} (s : Session) (enc : Nat → (Nat → Nat → Bytes) → Except ε (Nat × Bytes)) {k : Nat}
    {l : List LogEntry} (ha : s.data.outbound.ArenaInv) (he : EncOk enc) (h : s.data.outbound.PLog k l) :
    (s.encode enc).1.data.outbound.PLog k l := by
  rw [Session.encode_fst]
  obtain ⟨h1, h2⟩ := rows_encodeAt s.data.outbound enc ha he
  exact h.congr h1 h2

/-- Retaining the packet just encoded: it enters the queue behind everything, with a new serial. -/
theorem PLog_retain {ε : Type} (s s3 : Session) (enc : Nat → (Nat → Nat → Bytes) → Except ε (Nat × Bytes)) {k : Nat}
    {l : List LogEntry} (ha : s.data.outbound.ArenaInv) (he : EncOk enc) (h : s.data.outbound.PLog k l)
    (id off len : Nat) (isPub : Bool) (hres : (s.encode enc).2 = .ok (off, len))
    (hr : (s.encode enc).1.retain id off len isPub = some s3) : s3.data.outbound.PLog k l := by
  have hl2 := PLog_encode s enc ha he h
  rw [Session.encode_snd] at hres
  rw [Session.encode_fst] at hr hl2
  obtain ⟨hi, _, _, _, hbl, _, _, _, hpos⟩ := encodeAt_spec s.data.outbound enc ha he
  obtain ⟨p1, p2, p3⟩ := hpos off len hres
  unfold Session.retain at hr
  split at hr
  · simp at hr
  · rename_i o ho
    simp only [Session.setOutbound] at ho
    obtain ⟨r1, r2⟩ := rows_retainPacket _ o id off len hi p1 (by rw [hbl]; exact p2) p3 ho
    have := Outbound.PLog.retain hl2 _ r1 rfl rfl r2
    simp only [Option.some.injEq] at hr; subst hr
    split <;> exact this


/-! ### The agreement of log and queue, in terms of the queue entries -/

theorem Outbound.PLog.written_entry {o : Outbound} {k : Nat} {l : List LogEntry} (h : o.PLog k l) {e : RetainedPacket}
    (he : e ∈ o.retained) (hst : e.state = .sent ∨ e.state = .flush) :
    (⟨k, .retained e.ser e.id, slice o.buf e.offset e.len⟩ : LogEntry) ∈ l :=
  h.written (rowOf o.buf e) (List.mem_map.mpr ⟨e, he, rfl⟩) hst

theorem Outbound.PLog.unwritten_entry {o : Outbound} {k : Nat} {l : List LogEntry} (h : o.PLog k l) {e : RetainedPacket}
    (he : e ∈ o.retained) {n : Nat} (hst : e.state = .write n) : ∀ s ∈ Minimq.sers l, s < e.ser :=
  h.unwritten (rowOf o.buf e) (List.mem_map.mpr ⟨e, he, rfl⟩) (by simp [rowOf, hst, SendState.isWrite])

/-- Along the retained queue: once an entry has been started (anything but "waiting for its first
byte"), every entry in front of it is sent. -/
theorem Outbound.PLog.ord_entry {o : Outbound} {k : Nat} {l : List LogEntry} (h : o.PLog k l) :
    o.retained.Pairwise (fun a c => c.state ≠ .write 0 → a.state = .sent) := by
  have ho := h.ord
  simp only [Outbound.rows, List.map_map] at ho
  rw [List.pairwise_map] at ho
  exact ho


/-! ## The release queue against the log

The same agreement for PUBREL entries, in terms of the ghost serial `PendingRelease.rser`. -/

/-- The serial of a release entry's log entry. -/
def LogEntry.rser? (f : LogEntry) : Option Nat :=
  match f.tag with
  | .release r _ _ _ => some r
  | _ => none

/-- The serials of the PUBREL entries in a log, in the order they were written. -/
def relSers (l : List LogEntry) : List Nat := l.filterMap LogEntry.rser?

theorem relSers_append (l l' : List LogEntry) : relSers (l ++ l') = relSers l ++ relSers l' := by
  simp [relSers, List.filterMap_append]

/-- The log entry of a release entry on transport `k`: its serial, the serial of the PUBLISH it
continues, identifier and reason code, and the PUBREL packet. -/
def relEntry (k : Nat) (e : PendingRelease) : LogEntry :=
  ⟨k, .release e.rser e.pser e.id e.rc, ((encodePubrel e.id e.rc).toOption).getD []⟩

theorem relEntry_rser (k : Nat) (e : PendingRelease) : (relEntry k e).rser? = some e.rser := rfl
theorem relEntry_ser (k : Nat) (e : PendingRelease) : (relEntry k e).ser? = none := rfl

/-- The log `l` of the transport with ordinal `k` agrees with the release queue. -/
structure Outbound.RLog (o : Outbound) (k : Nat) (l : List LogEntry) : Prop where
  /-- PUBREL packets went out in the order of their serials, none twice. -/
  sorted : (relSers l).Pairwise (· < ·)
  below : ∀ s ∈ relSers l, s < o.nextRser
  /-- A release entry recorded as written (waiting for its flush, or sent) is in the log. -/
  written : ∀ e ∈ o.release, (e.state = .sent ∨ e.state = .flush) → relEntry k e ∈ l
  /-- One not yet completely written is not in the log, and everything in the log is older. -/
  unwritten : ∀ e ∈ o.release, e.state.isWrite = true → ∀ s ∈ relSers l, s < e.rser
  /-- In front of an entry that has been started every entry is sent. -/
  ord : (o.release.map (·.state)).Pairwise (fun a b => b ≠ .write 0 → a = .sent)

theorem Outbound.RLog.congr {o o' : Outbound} {k : Nat} {l : List LogEntry} (h : o.RLog k l) (hr : o'.release = o.release)
    (hn : o'.nextRser = o.nextRser) : o'.RLog k l :=
  ⟨h.sorted, by rw [hn]; exact h.below, by rw [hr]; exact h.written, by rw [hr]; exact h.unwritten, by rw [hr]; exact h.ord⟩

theorem Outbound.RLog.sublist {o o' : Outbound} {k : Nat} {l : List LogEntry} (h : o.RLog k l)
    (hr : o'.release.Sublist o.release) (hn : o.nextRser ≤ o'.nextRser) : o'.RLog k l :=
  ⟨h.sorted, fun s hs => Nat.lt_of_lt_of_le (h.below s hs) hn, fun e hm => h.written e (hr.subset hm),
   fun e hm => h.unwritten e (hr.subset hm), h.ord.sublist (hr.map _)⟩

theorem Outbound.RLog.append_other {o : Outbound} {k : Nat} {l : List LogEntry} (h : o.RLog k l) (f : LogEntry)
    (hf : f.rser? = none) : o.RLog k (l ++ [f]) := by
  have hs : relSers (l ++ [f]) = relSers l := by simp [relSers_append, relSers, hf]
  exact ⟨by rw [hs]; exact h.sorted, by rw [hs]; exact h.below,
    fun e hm hst => List.mem_append_left _ (h.written e hm hst), by rw [hs]; exact h.unwritten, h.ord⟩

/-- A new release entry gets a serial above everything in the log. -/
theorem Outbound.RLog.append_new {o o' : Outbound} {k : Nat} {l : List LogEntry} (h : o.RLog k l) (e : PendingRelease)
    (hrel : o'.release = o.release ++ [e]) (hser : e.rser = o.nextRser) (hst : e.state = .write 0)
    (hn : o'.nextRser = o.nextRser + 1) : o'.RLog k l := by
  refine ⟨h.sorted, fun s hs => by rw [hn]; exact Nat.lt_succ_of_lt (h.below s hs), ?_, ?_, ?_⟩
  · intro x hx hstx
    rw [hrel] at hx
    rcases List.mem_append.mp hx with hm | hm
    · exact h.written x hm hstx
    · simp only [List.mem_singleton] at hm; subst hm
      rw [hst] at hstx; rcases hstx with h1 | h1 <;> cases h1
  · intro x hx hw s hs
    rw [hrel] at hx
    rcases List.mem_append.mp hx with hm | hm
    · exact h.unwritten x hm hw s hs
    · simp only [List.mem_singleton] at hm; subst hm
      rw [hser]; exact h.below s hs
  · rw [hrel, List.map_append, List.pairwise_append]
    refine ⟨h.ord, by simp, ?_⟩
    intro a _ c hc hne
    simp only [List.map_cons, List.map_nil, List.mem_singleton] at hc
    subst hc
    exact absurd hst hne

theorem Outbound.RLog.post_fresh {o : Outbound} {k : Nat} {l : List LogEntry} (h : o.RLog k l)
    {pre post : List PendingRelease} {e : PendingRelease} (hr : o.release = pre ++ e :: post) (hne : e.state ≠ .sent) :
    ∀ x ∈ post, x.state = .write 0 := by
  intro x hx
  have ho := h.ord
  simp only [hr, List.map_append, List.map_cons, List.pairwise_append] at ho
  have := (List.pairwise_cons.mp ho.2.1).1 x.state (List.mem_map.mpr ⟨x, hx, rfl⟩)
  by_cases hx0 : x.state = .write 0
  · exact hx0
  · exact absurd (this hx0) hne

/-- The ordering part after the state of the current entry changed. -/
theorem rel_ord_of {pre post : List PendingRelease} {e e' : PendingRelease}
    (ho : ((pre ++ e :: post).map (·.state)).Pairwise (fun a b => b ≠ SendState.write 0 → a = .sent))
    (hsent : ∀ x ∈ pre, x.state = .sent) (hpost : e'.state = .sent ∨ ∀ x ∈ post, x.state = .write 0) :
    ((pre ++ e' :: post).map (·.state)).Pairwise (fun a b => b ≠ SendState.write 0 → a = .sent) := by
  simp only [List.map_append, List.map_cons, List.pairwise_append, List.pairwise_cons] at ho ⊢
  refine ⟨ho.1, ⟨?_, ho.2.1.2⟩, ?_⟩
  · intro c hc hne
    rcases hpost with h1 | h1
    · exact h1
    · obtain ⟨x, hx, rfl⟩ := List.mem_map.mp hc
      exact absurd (h1 x hx) hne
  · intro a ha c _ _
    obtain ⟨x, hx, rfl⟩ := List.mem_map.mp ha
    exact hsent x hx

theorem Outbound.RLog.setState_write {o o' : Outbound} {k : Nat} {l : List LogEntry} (h : o.RLog k l)
    {pre post : List PendingRelease} {e : PendingRelease} (hr : o.release = pre ++ e :: post)
    (hsent : ∀ x ∈ pre, x.state = .sent) (hw : e.state.isWrite = true) (n : Nat)
    (hr' : o'.release = pre ++ { e with state := .write n } :: post) (hn : o'.nextRser = o.nextRser) :
    o'.RLog k l := by
  have hpost := h.post_fresh hr (by intro hs; rw [hs] at hw; cases hw)
  refine ⟨h.sorted, by rw [hn]; exact h.below, ?_, ?_, ?_⟩
  · intro x hm hst
    rw [hr'] at hm
    rcases List.mem_append.mp hm with hm | hm
    · exact h.written x (by rw [hr]; exact List.mem_append_left _ hm) hst
    · rcases List.mem_cons.mp hm with rfl | hm
      · rcases hst with h1 | h1 <;> cases h1
      · exact h.written x (by rw [hr]; exact List.mem_append_right _ (List.mem_cons_of_mem _ hm)) hst
  · intro x hm hwr s hs
    rw [hr'] at hm
    rcases List.mem_append.mp hm with hm | hm
    · exact h.unwritten x (by rw [hr]; exact List.mem_append_left _ hm) hwr s hs
    · rcases List.mem_cons.mp hm with rfl | hm
      · exact h.unwritten e (by rw [hr]; simp) hw s hs
      · exact h.unwritten x (by rw [hr]; exact List.mem_append_right _ (List.mem_cons_of_mem _ hm)) hwr s hs
  · rw [hr']
    exact rel_ord_of (by rw [← hr]; exact h.ord) hsent (Or.inr hpost)

theorem Outbound.RLog.setState_flush {o o' : Outbound} {k : Nat} {l : List LogEntry} (h : o.RLog k l) (hinv : o.RelInv)
    {pre post : List PendingRelease} {e : PendingRelease} (hr : o.release = pre ++ e :: post)
    (hsent : ∀ x ∈ pre, x.state = .sent) (hw : e.state.isWrite = true)
    (hr' : o'.release = pre ++ { e with state := .flush } :: post) (hn : o'.nextRser = o.nextRser) :
    o'.RLog k (l ++ [relEntry k e]) := by
  have hpost := h.post_fresh hr (by intro hs; rw [hs] at hw; cases hw)
  have hs : relSers (l ++ [relEntry k e]) = relSers l ++ [e.rser] := by
    simp [relSers_append, relSers, relEntry_rser]
  have hbelow_e : ∀ s ∈ relSers l, s < e.rser := h.unwritten e (by rw [hr]; simp) hw
  have hinc := hinv.inc
  simp only [Outbound.rsers, hr, List.map_append, List.map_cons, List.pairwise_append] at hinc
  have hpost_ser : ∀ x ∈ post, e.rser < x.rser := fun x hx =>
    (List.pairwise_cons.mp hinc.2.1).1 x.rser (List.mem_map.mpr ⟨x, hx, rfl⟩)
  refine ⟨?_, ?_, ?_, ?_, ?_⟩
  · rw [hs, List.pairwise_append]
    exact ⟨h.sorted, by simp, fun a ha c hc => by simp only [List.mem_singleton] at hc; subst hc; exact hbelow_e a ha⟩
  · intro s hm
    rw [hs] at hm
    rcases List.mem_append.mp hm with hm | hm
    · rw [hn]; exact h.below s hm
    · simp only [List.mem_singleton] at hm; subst hm
      rw [hn]; exact hinv.lt e (by rw [hr]; simp)
  · intro x hm hst
    rw [hr'] at hm
    rcases List.mem_append.mp hm with hm | hm
    · exact List.mem_append_left _ (h.written x (by rw [hr]; exact List.mem_append_left _ hm) hst)
    · rcases List.mem_cons.mp hm with rfl | hm
      · exact List.mem_append_right _ (by simp [relEntry])
      · exact List.mem_append_left _
          (h.written x (by rw [hr]; exact List.mem_append_right _ (List.mem_cons_of_mem _ hm)) hst)
  · intro x hm hwr s hsm
    rw [hr'] at hm
    rw [hs] at hsm
    rcases List.mem_append.mp hm with hm | hm
    · rw [hsent x hm] at hwr; cases hwr
    · rcases List.mem_cons.mp hm with rfl | hm
      · cases hwr
      · rcases List.mem_append.mp hsm with hsm | hsm
        · exact h.unwritten x (by rw [hr]; exact List.mem_append_right _ (List.mem_cons_of_mem _ hm)) hwr s hsm
        · simp only [List.mem_singleton] at hsm; subst hsm
          exact hpost_ser x hm
  · rw [hr']
    exact rel_ord_of (by rw [← hr]; exact h.ord) hsent (Or.inr hpost)

theorem Outbound.RLog.setState_sent {o o' : Outbound} {k : Nat} {l : List LogEntry} (h : o.RLog k l)
    {pre post : List PendingRelease} {e : PendingRelease} (hr : o.release = pre ++ e :: post)
    (hsent : ∀ x ∈ pre, x.state = .sent) (hf : e.state = .flush)
    (hr' : o'.release = pre ++ { e with state := .sent } :: post) (hn : o'.nextRser = o.nextRser) :
    o'.RLog k l := by
  refine ⟨h.sorted, by rw [hn]; exact h.below, ?_, ?_, ?_⟩
  · intro x hm hst
    rw [hr'] at hm
    rcases List.mem_append.mp hm with hm | hm
    · exact h.written x (by rw [hr]; exact List.mem_append_left _ hm) hst
    · rcases List.mem_cons.mp hm with rfl | hm
      · exact h.written e (by rw [hr]; simp) (Or.inr hf)
      · exact h.written x (by rw [hr]; exact List.mem_append_right _ (List.mem_cons_of_mem _ hm)) hst
  · intro x hm hwr s hs
    rw [hr'] at hm
    rcases List.mem_append.mp hm with hm | hm
    · exact h.unwritten x (by rw [hr]; exact List.mem_append_left _ hm) hwr s hs
    · rcases List.mem_cons.mp hm with rfl | hm
      · cases hwr
      · exact h.unwritten x (by rw [hr]; exact List.mem_append_right _ (List.mem_cons_of_mem _ hm)) hwr s hs
  · rw [hr']
    exact rel_ord_of (by rw [← hr]; exact h.ord) hsent (Or.inl rfl)

theorem RLog_of_allFresh (o : Outbound) (k : Nat) (h : ∀ e ∈ o.release, e.state = .write 0) : o.RLog k [] := by
  refine ⟨by simp [relSers], by simp [relSers], ?_, by simp [relSers], ?_⟩
  · intro e he hst
    rw [h e he] at hst
    rcases hst with h1 | h1 <;> cases h1
  · have : ∀ (l : List PendingRelease), (∀ e ∈ l, e.state = .write 0) →
        (l.map (·.state)).Pairwise (fun a b => b ≠ SendState.write 0 → a = .sent) := by
      intro l
      induction l with
      | nil => intro _; exact List.Pairwise.nil
      | cons x xs ih =>
        intro hl
        simp only [List.map_cons, List.pairwise_cons]
        refine ⟨?_, ih (fun e he => hl e (by simp [he]))⟩
        intro c hc hne
        obtain ⟨y, hy, rfl⟩ := List.mem_map.mp hc
        exact absurd (hl y (by simp [hy])) hne
    exact this _ h

/-! ## Both queues -/

/-- In a log (of one transport) the retained packets and the PUBREL packets each went out in the order
of their serials, none twice. -/
def LogSorted (l : List LogEntry) : Prop := (Minimq.sers l).Pairwise (· < ·) ∧ (relSers l).Pairwise (· < ·)

theorem LogSorted.nil : LogSorted [] := ⟨by simp [Minimq.sers], by simp [relSers]⟩

/-- The log `l` of the transport with ordinal `k` agrees with the retained queue and with the release queue. -/
structure Outbound.Log (o : Outbound) (k : Nat) (l : List LogEntry) : Prop where
  p : o.PLog k l
  r : o.RLog k l

theorem Outbound.Log.sorted {o : Outbound} {k : Nat} {l : List LogEntry} (h : o.Log k l) : LogSorted l := ⟨h.p.sorted, h.r.sorted⟩

theorem Log_of_allFresh (o : Outbound) (k : Nat) (h1 : ∀ e ∈ o.retained, e.state = .write 0)
    (h2 : ∀ e ∈ o.release, e.state = .write 0) : o.Log k [] :=
  ⟨PLog_of_allFresh o k h1, RLog_of_allFresh o k h2⟩

theorem done_release {o : Outbound} {pre post : List PendingRelease} {e : PendingRelease} (k : Nat)
    (hr : o.release = pre ++ e :: post) (hpre : ∀ x ∈ pre, x.id ≠ e.id) :
    o.done k (.release e.id) = relEntry k e := by
  have hf : o.release.find? (fun x => x.id == e.id) = some e := by
    rw [hr]; exact find?_hit _ pre _ post (fun x hx => by simp [hpre x hx]) (by simp)
  simp [Outbound.done, hf, relEntry]

theorem done_ser_none_of_release (o : Outbound) (k id : Nat) : (o.done k (.release id)).ser? = none := by
  simp only [Outbound.done]
  split <;> rfl

theorem done_rser_none_of_retained (o : Outbound) (k id : Nat) : (o.done k (.retained id)).rser? = none := by
  simp only [Outbound.done]
  split <;> rfl

/-- `set_written` on the current entry: the log stays in agreement with both queues; when the entry is
completely written, with the entry recorded. -/
theorem Outbound.Log.setWritten {o : Outbound} {k : Nat} {l : List LogEntry} {step : Outbound.Step} {j : Nat}
    (h : o.Log k l) (hser : o.SerInv) (hrel : o.RelInv) (hs : o.Slot step) (hst : step.state = .write j) (wr len : Nat) :
    (wr < len → (o.setWritten step.flushed wr len).Log k l) ∧
    (len ≤ wr → (o.setWritten step.flushed wr len).Log k (l ++ [o.done k step.flushed])) := by
  have hp := h.p.setWritten hser hs hst wr len
  cases hs with
  | control a st rest hc hrest hrel' hret =>
    have hsame : (o.setWritten (Outbound.Step.flushed (.control a st)) wr len).RLog k l := h.r.congr rfl rfl
    exact ⟨fun hlt => ⟨hp.1 hlt, hsame⟩,
      fun hge => ⟨hp.2 hge, hsame.append_other _ (by simp [Outbound.done, Outbound.Step.flushed, LogEntry.rser?])⟩⟩
  | release pre id rc st rs ps post hr hpre hpost hctl hret hsent =>
    simp only [Outbound.Step.state] at hst
    have hw : (⟨id, rc, st, rs, ps⟩ : PendingRelease).state.isWrite = true := by rw [hst]; rfl
    have hr' : (o.setWritten (.release id) wr len).release =
        pre ++ ⟨id, rc, SendState.afterWrite wr len, rs, ps⟩ :: post := by
      simp only [Outbound.setWritten, setReleaseWritten, hr]
      rw [modifyFirst_hit _ _ pre _ post (fun x hx => by simp [(hpre x hx).1]) (by simp)]
    constructor
    · intro hlt
      refine ⟨hp.1 hlt, ?_⟩
      rw [afterWrite_lt hlt] at hr'
      exact h.r.setState_write hr hsent hw wr hr' rfl
    · intro hge
      refine ⟨hp.2 hge, ?_⟩
      rw [afterWrite_ge hge] at hr'
      simp only [Outbound.Step.flushed]
      rw [done_release (e := ⟨id, rc, st, rs, ps⟩) k hr (fun x hx => (hpre x hx).1)]
      exact h.r.setState_flush hrel hr hsent hw hr' rfl
  | retained pre e post hr hpre hpost hctl hrel' hsent =>
    have hsame : (o.setWritten (Outbound.Step.flushed (.retained e.id e.offset e.len e.state)) wr len).RLog k l :=
      h.r.congr rfl rfl
    exact ⟨fun hlt => ⟨hp.1 hlt, hsame⟩,
      fun hge => ⟨hp.2 hge, hsame.append_other _ (done_rser_none_of_retained _ _ _)⟩⟩

theorem Outbound.Log.completeFlush {o : Outbound} {k : Nat} {l : List LogEntry} {step : Outbound.Step}
    (h : o.Log k l) (hs : o.Slot step) (hst : step.state = .flush) : (o.completeFlush step.flushed).Log k l := by
  refine ⟨h.p.completeFlush hs hst, ?_⟩
  cases hs with
  | control a st rest hc hrest hrel hret => exact h.r.congr rfl rfl
  | release pre id rc st rs ps post hr hpre hpost hctl hret hsent =>
    simp only [Outbound.Step.state] at hst
    have hr' : (o.completeFlush (.release id)).release = pre ++ ⟨id, rc, .sent, rs, ps⟩ :: post := by
      simp only [Outbound.completeFlush, flushRelease, hr]
      rw [modifyFirst_hit _ _ pre _ post (fun x hx => by simp [(hpre x hx).1]) (by simp)]
    exact h.r.setState_sent (e := ⟨id, rc, st, rs, ps⟩) hr hsent hst hr' rfl
  | retained pre e post hr hpre hpost hctl hrel hsent => exact h.r.congr rfl rfl

theorem Outbound.RLog.queueControl {o o' : Outbound} {k : Nat} {l : List LogEntry} {a : ControlAction} (h : o.RLog k l)
    (hq : o.queueControl a = some o') : o'.RLog k l := by
  unfold Outbound.queueControl at hq
  split at hq
  · simp at hq
  · simp only [Option.some.injEq] at hq; subst hq; exact h.congr rfl rfl

theorem Outbound.RLog.queueRelease {o o' : Outbound} {k : Nat} {l : List LogEntry} {id rc ps : Nat} (h : o.RLog k l)
    (hq : o.queueRelease id rc ps = some o') : o'.RLog k l := by
  unfold Outbound.queueRelease at hq
  split at hq
  · simp at hq
  · simp only [Option.some.injEq] at hq; subst hq
    exact h.append_new _ rfl rfl rfl rfl

theorem Outbound.RLog.ackRelease {o : Outbound} {k : Nat} {l : List LogEntry} (id : Nat) (h : o.RLog k l) :
    (o.ackRelease id).1.RLog k l := by
  unfold Outbound.ackRelease
  split
  · exact h.sublist (removeFirst_sublist _ _) (Nat.le_refl _)
  · exact h

theorem Outbound.RLog.ackPacket {o : Outbound} {k : Nat} {l : List LogEntry} (id : Nat) (kind : AckKind)
    (h : o.RLog k l) : (o.ackPacket id kind).1.RLog k l :=
  h.congr (ackPacket_frame o id kind).2.1 (ackPacket_nextRser o id kind)

theorem RLog_handlePacket (d : SessionData) (r : Runtime) (p : Recv) (k : Nat) (l : List LogEntry)
    (hf : d.outbound.RLog k l) : (handlePacket d r p).1.outbound.RLog k l := by
  have hack := fun id kind => Outbound.RLog.ackPacket (o := d.outbound) id kind hf
  cases p with
  | connAck sp rc props => exact hf
  | pingResp => exact hf
  | disconnect rc props => exact hf
  | subAck id props codes =>
    simp only [handlePacket]
    split
    · exact hf
    · split <;> exact hack id .subAck
  | unsubAck id props codes =>
    simp only [handlePacket]
    split
    · exact hf
    · split <;> exact hack id .unsubAck
  | pubAck id rs =>
    simp only [handlePacket]
    split
    · exact hf
    · split <;> exact hack id .pubAck
  | pubComp id rs =>
    simp only [handlePacket]
    split
    · exact hf
    · split <;> exact Outbound.RLog.ackRelease _ hf
  | pubRec id rs =>
    simp only [handlePacket]
    split
    · split
      · exact hack id .pubRec
      · split
        · exact hack id .pubRec
        · split
          · exact hack id .pubRec
          · rename_i o' hq
            exact Outbound.RLog.queueRelease (hack id .pubRec) hq
    · split
      · split <;> exact hf
      · exact hf
  | pubRel id rs =>
    simp only [handlePacket]
    repeat' split
    all_goals first
      | exact hf
      | exact Outbound.RLog.queueControl hf (by assumption)
  | publish topic id props payload retain qos dup =>
    simp only [handlePacket]
    repeat' split
    all_goals first
      | exact hf
      | exact Outbound.RLog.queueControl hf (by assumption)

theorem Log_handle (s : Session) (p : Recv) (k : Nat) (l : List LogEntry) (ha : s.data.outbound.ArenaInv)
    (h : s.data.outbound.Log k l) : (s.handle p).1.data.outbound.Log k l :=
  ⟨PLog_handle s p k l ha h.p, by rw [Session.handle_fst_data]; exact RLog_handlePacket _ _ _ _ _ h.r⟩

theorem Log_queuePing {s s' : Session} {now : Nat} {k : Nat} {l : List LogEntry} (hq : s.queuePing now = .ok s')
    (h : s.data.outbound.Log k l) : s'.data.outbound.Log k l := by
  refine ⟨PLog_queuePing hq h.p, ?_⟩
  rcases Session.queuePing_ok hq with rfl | ⟨o, ho, rfl⟩
  · exact h.r
  · exact h.r.queueControl ho

theorem Log_encode {ε : Type} (s : Session) (enc : Nat → (Nat → Nat → Bytes) → Except ε (Nat × Bytes)) {k : Nat}
    {l : List LogEntry} (ha : s.data.outbound.ArenaInv) (he : EncOk enc) (h : s.data.outbound.Log k l) :
    (s.encode enc).1.data.outbound.Log k l := by
  refine ⟨PLog_encode s enc ha he h.p, ?_⟩
  rw [Session.encode_fst]
  exact h.r.congr (encodeAt_frame _ enc).2.1 (encodeAt_nextRser _ enc)

theorem Log_retain {ε : Type} (s s3 : Session) (enc : Nat → (Nat → Nat → Bytes) → Except ε (Nat × Bytes)) {k : Nat}
    {l : List LogEntry} (ha : s.data.outbound.ArenaInv) (he : EncOk enc) (h : s.data.outbound.Log k l)
    (id off len : Nat) (isPub : Bool) (hres : (s.encode enc).2 = .ok (off, len))
    (hr : (s.encode enc).1.retain id off len isPub = some s3) : s3.data.outbound.Log k l := by
  refine ⟨PLog_retain s s3 enc ha he h.p id off len isPub hres hr, ?_⟩
  have h2 := (Log_encode s enc ha he h).r
  unfold Session.retain at hr
  split at hr
  · simp at hr
  · rename_i o ho
    obtain ⟨_, rfl⟩ := retainPacket_some ho
    simp only [Option.some.injEq] at hr; subst hr
    split <;> exact h2.congr rfl rfl

/-! ### The agreement of log and release queue, in terms of the queue entries -/

theorem Outbound.RLog.ord_entry {o : Outbound} {k : Nat} {l : List LogEntry} (h : o.RLog k l) :
    o.release.Pairwise (fun a c => c.state ≠ .write 0 → a.state = .sent) := by
  have ho := h.ord
  rw [List.pairwise_map] at ho
  exact ho

theorem Outbound.RLog.unwritten_entry {o : Outbound} {k : Nat} {l : List LogEntry} (h : o.RLog k l) {e : PendingRelease}
    (he : e ∈ o.release) {n : Nat} (hst : e.state = .write n) : ∀ s ∈ relSers l, s < e.rser :=
  h.unwritten e he (by simp [hst, SendState.isWrite])

end Minimq
