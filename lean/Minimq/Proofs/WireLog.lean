import Minimq.Proofs.WireSess
/-
The transmission log (ghost field `World.log`) against the retained queue: on one connection the
retained packets are handed to the transport in the order of their serial numbers, each at most once,
the ones recorded as sent are exactly the ones in the log (with the bytes that are in the arena now),
and the ones still waiting have serials above everything in the log.
-/
namespace Minimq
open Gen World Outbound

/-- The serial of a retained packet's log entry. -/
def LogEntry.ser? (f : LogEntry) : Option Nat :=
  match f.tag with
  | .retained s _ => some s
  | _ => none

/-- The serials of the retained packets in a log, in the order they were written. -/
def sers (l : List LogEntry) : List Nat := l.filterMap LogEntry.ser?

theorem sers_append (l l' : List LogEntry) : sers (l ++ l') = sers l ++ sers l' := by
  simp [sers, List.filterMap_append]

def SendState.isWrite : SendState → Bool
  | .write _ => true
  | _ => false

/-- Serial, identifier, send state and current bytes of a retained packet. -/
structure Row where
  ser : Nat
  id : Nat
  state : SendState
  bytes : Bytes

def rowOf (buf : Bytes) (e : RetainedPacket) : Row := ⟨e.ser, e.id, e.state, slice buf e.offset e.len⟩

/-- The retained queue as rows, oldest first. -/
def Outbound.rows (o : Outbound) : List Row := o.retained.map (rowOf o.buf)

theorem rows_of_meta_contents (buf buf' : Bytes) (l l' : List RetainedPacket)
    (hm : l'.map (fun e => (e.id, e.len, e.state, e.ser)) = l.map (fun e => (e.id, e.len, e.state, e.ser)))
    (hc : contents buf' l' = contents buf l) : l'.map (rowOf buf') = l.map (rowOf buf) := by
  induction l generalizing l' with
  | nil => cases l' with
    | nil => rfl
    | cons x xs => simp at hm
  | cons e es ih =>
    cases l' with
    | nil => simp at hm
    | cons x xs =>
      simp only [List.map_cons, List.cons.injEq, Prod.mk.injEq, contents] at hm hc
      obtain ⟨⟨h1, _, h3, h4⟩, hm'⟩ := hm
      obtain ⟨hc1, hc'⟩ := hc
      simp only [List.map_cons, List.cons.injEq]
      refine ⟨?_, ih xs hm' hc'⟩
      simp only [rowOf, h1, h3, h4, hc1]

theorem rows_congr {o o' : Outbound} (hm : o'.meta = o.meta) (hc : o'.contents = o.contents) : o'.rows = o.rows :=
  rows_of_meta_contents _ _ _ _ hm hc

/-- The log `l` of the transport with ordinal `k` agrees with the retained queue. -/
structure Outbound.Log (o : Outbound) (k : Nat) (l : List LogEntry) : Prop where
  /-- Retained packets went out in the order of their serials, none twice. -/
  sorted : (sers l).Pairwise (· < ·)
  below : ∀ s ∈ sers l, s < o.nextSer
  /-- A packet recorded as written (waiting for its flush, or sent) is in the log, with the bytes that are in the arena. -/
  written : ∀ r ∈ o.rows, (r.state = .sent ∨ r.state = .flush) → (⟨k, .retained r.ser r.id, r.bytes⟩ : LogEntry) ∈ l
  /-- A packet not yet completely written is not in the log, and everything in the log is older. -/
  unwritten : ∀ r ∈ o.rows, r.state.isWrite = true → ∀ s ∈ sers l, s < r.ser
  /-- Behind a packet that has been started, nothing has been started: everything in front of a
  started packet is sent. -/
  ord : (o.rows.map (·.state)).Pairwise (fun a b => b ≠ .write 0 → a = .sent)

theorem Outbound.Log.congr {o o' : Outbound} {k : Nat} {l : List LogEntry} (h : o.Log k l) (hr : o'.rows = o.rows)
    (hn : o'.nextSer = o.nextSer) : o'.Log k l :=
  ⟨h.sorted, by rw [hn]; exact h.below, by rw [hr]; exact h.written, by rw [hr]; exact h.unwritten, by rw [hr]; exact h.ord⟩

theorem Outbound.Log.sublist {o o' : Outbound} {k : Nat} {l : List LogEntry} (h : o.Log k l) (hr : o'.rows.Sublist o.rows)
    (hn : o.nextSer ≤ o'.nextSer) : o'.Log k l :=
  ⟨h.sorted, fun s hs => Nat.lt_of_lt_of_le (h.below s hs) hn, fun r hm => h.written r (hr.subset hm),
   fun r hm => h.unwritten r (hr.subset hm), h.ord.sublist (hr.map _)⟩

/-- Appending a log entry that is not a retained packet. -/
theorem Outbound.Log.append_other {o : Outbound} {k : Nat} {l : List LogEntry} (h : o.Log k l) (f : LogEntry)
    (hf : f.ser? = none) : o.Log k (l ++ [f]) := by
  have hs : sers (l ++ [f]) = sers l := by simp [sers_append, sers, hf]
  exact ⟨by rw [hs]; exact h.sorted, by rw [hs]; exact h.below,
    fun r hm hst => List.mem_append_left _ (h.written r hm hst), by rw [hs]; exact h.unwritten, h.ord⟩

/-! ### Arena operations keep the rows -/

theorem rows_compact (o : Outbound) (h : o.ArenaInv) : o.compact.rows = o.rows ∧ o.compact.nextSer = o.nextSer := by
  obtain ⟨_, c2, c3, _, _, _, _, c8⟩ := compact_spec o h
  exact ⟨rows_congr c3 c2, c8⟩

theorem rows_encodeAt {ε : Type} (o : Outbound) (enc : Nat → (Nat → Nat → Bytes) → Except ε (Nat × Bytes))
    (h : o.ArenaInv) (he : EncOk enc) : (o.encodeAt enc).1.rows = o.rows ∧ (o.encodeAt enc).1.nextSer = o.nextSer := by
  obtain ⟨_, c2, c3, _, _, _, _, c8, _⟩ := encodeAt_spec o enc h he
  exact ⟨rows_congr c3 c2, c8⟩

theorem rows_ackPacket (o : Outbound) (id : Nat) (k : AckKind) (h : o.ArenaInv) :
    (o.ackPacket id k).1.rows.Sublist o.rows ∧ (o.ackPacket id k).1.nextSer = o.nextSer := by
  obtain ⟨_, ht, hn, hs, _⟩ := ackPacket_spec o id k h
  refine ⟨?_, hs⟩
  cases hfound : (o.ackPacket id k).2 with
  | false => rw [hn hfound]; exact List.Sublist.refl _
  | true =>
    obtain ⟨hc, hm⟩ := ht hfound
    have : (o.ackPacket id k).1.rows =
        (removeFirst (fun (e : RetainedPacket) => e.id == id && k.acknowledges (o.headerAt e.offset)) o.retained).map (rowOf o.buf) :=
      rows_of_meta_contents _ _ _ _ hm hc
    rw [this]
    exact (removeFirst_sublist _ _).map _

theorem rows_retainPacket (o o' : Outbound) (id off len : Nat) (h : o.ArenaInv)
    (hoff : o.used ≤ off) (hend : off + len ≤ o.buf.length) (hpos : 0 < len) (hr : o.retainPacket id off len = some o') :
    o'.rows = o.rows ++ [⟨o.nextSer, id, .write 0, slice o.buf off len⟩] ∧ o'.nextSer = o.nextSer + 1 := by
  obtain ⟨_, _, _, rb, _, _, rn⟩ := retainPacket_spec o o' id off len h hoff hend hpos hr
  obtain ⟨h1, _, _, _⟩ := retainPacket_appends o o' id off len hr
  refine ⟨?_, rn⟩
  simp only [Outbound.rows, h1, rb, List.map_append, List.map_cons, List.map_nil, rowOf]

/-- A new retained packet gets a serial above everything in the log. -/
theorem Outbound.Log.retain {o o' : Outbound} {k : Nat} {l : List LogEntry} (h : o.Log k l) (r : Row)
    (hrows : o'.rows = o.rows ++ [r]) (hser : r.ser = o.nextSer) (hst : r.state = .write 0) (hn : o'.nextSer = o.nextSer + 1) :
    o'.Log k l := by
  refine ⟨h.sorted, fun s hs => by rw [hn]; exact Nat.lt_succ_of_lt (h.below s hs), ?_, ?_, ?_⟩
  · intro x hx hstx
    rw [hrows] at hx
    rcases List.mem_append.mp hx with hm | hm
    · exact h.written x hm hstx
    · simp only [List.mem_singleton] at hm; subst hm
      rw [hst] at hstx; rcases hstx with h1 | h1 <;> cases h1
  · intro x hx hw s hs
    rw [hrows] at hx
    rcases List.mem_append.mp hx with hm | hm
    · exact h.unwritten x hm hw s hs
    · simp only [List.mem_singleton] at hm; subst hm
      rw [hser]; exact h.below s hs
  · rw [hrows, List.map_append, List.pairwise_append]
    refine ⟨h.ord, by simp, ?_⟩
    intro a _ c hc hne
    simp only [List.map_cons, List.map_nil, List.mem_singleton] at hc
    subst hc
    exact absurd hst hne

/-! ### The state of one entry changes -/

theorem rows_split (buf : Bytes) (pre : List RetainedPacket) (e : RetainedPacket) (post : List RetainedPacket) :
    (pre ++ e :: post).map (rowOf buf) = pre.map (rowOf buf) ++ rowOf buf e :: post.map (rowOf buf) := by simp

/-- What the entry in progress looks like in the queue: everything in front of it is sent, everything
behind it still waits for its first byte. -/
theorem Outbound.Log.post_fresh {o : Outbound} {k : Nat} {l : List LogEntry} (h : o.Log k l)
    {pre post : List RetainedPacket} {e : RetainedPacket} (hr : o.retained = pre ++ e :: post) (hne : e.state ≠ .sent) :
    ∀ x ∈ post, x.state = .write 0 := by
  intro x hx
  have ho := h.ord
  simp only [Outbound.rows, hr, List.map_append, List.map_cons, List.map_map, List.pairwise_append] at ho
  have := (List.pairwise_cons.mp ho.2.1).1 (rowOf o.buf x).state
    (by simp only [List.mem_map, Function.comp]; exact ⟨x, hx, rfl⟩)
  by_cases hx0 : x.state = .write 0
  · exact hx0
  · exact absurd (this hx0) hne

/-- The state of the current retained entry changes from one unfinished state to another. -/
theorem Outbound.Log.setState_write {o o' : Outbound} {k : Nat} {l : List LogEntry} (h : o.Log k l)
    {pre post : List RetainedPacket} {e : RetainedPacket} (hr : o.retained = pre ++ e :: post)
    (hsent : ∀ x ∈ pre, x.state = .sent) (hw : e.state.isWrite = true) (n : Nat)
    (hr' : o'.retained = pre ++ { e with state := .write n } :: post) (hb : o'.buf = o.buf) (hn : o'.nextSer = o.nextSer) :
    o'.Log k l := by
  have hpost := h.post_fresh hr (by intro hs; rw [hs] at hw; cases hw)
  have hrows : o.rows = pre.map (rowOf o.buf) ++ rowOf o.buf e :: post.map (rowOf o.buf) := by
    simp only [Outbound.rows, hr]; exact rows_split _ _ _ _
  have hrows' : o'.rows = pre.map (rowOf o.buf) ++ rowOf o.buf { e with state := .write n } :: post.map (rowOf o.buf) := by
    simp only [Outbound.rows, hr', hb]; exact rows_split _ _ _ _
  refine ⟨h.sorted, by rw [hn]; exact h.below, ?_, ?_, ?_⟩
  · intro r hm hst
    rw [hrows'] at hm
    rcases List.mem_append.mp hm with hm | hm
    · exact h.written r (by rw [hrows]; exact List.mem_append_left _ hm) hst
    · rcases List.mem_cons.mp hm with rfl | hm
      · simp only [rowOf] at hst; rcases hst with h1 | h1 <;> cases h1
      · exact h.written r (by rw [hrows]; exact List.mem_append_right _ (List.mem_cons_of_mem _ hm)) hst
  · intro r hm hwr s hs
    rw [hrows'] at hm
    rcases List.mem_append.mp hm with hm | hm
    · exact h.unwritten r (by rw [hrows]; exact List.mem_append_left _ hm) hwr s hs
    · rcases List.mem_cons.mp hm with rfl | hm
      · exact h.unwritten (rowOf o.buf e) (by rw [hrows]; simp) hw s hs
      · exact h.unwritten r (by rw [hrows]; exact List.mem_append_right _ (List.mem_cons_of_mem _ hm)) hwr s hs
  · have ho := h.ord
    rw [hrows] at ho
    rw [hrows']
    simp only [List.map_append, List.map_cons, List.map_map, List.pairwise_append, List.pairwise_cons] at ho ⊢
    refine ⟨ho.1, ⟨?_, ho.2.1.2⟩, ?_⟩
    · intro b hb hne
      simp only [List.mem_map, Function.comp] at hb
      obtain ⟨x, hx, rfl⟩ := hb
      exact absurd (hpost x hx) hne
    · intro a ha b hb hne
      simp only [List.mem_map, Function.comp] at ha
      obtain ⟨x, hx, rfl⟩ := ha
      exact hsent x hx

/-- The last byte of the current retained entry has been accepted: it goes into the log. -/
theorem Outbound.Log.setState_flush {o o' : Outbound} {k : Nat} {l : List LogEntry} (h : o.Log k l) (hser : o.SerInv)
    {pre post : List RetainedPacket} {e : RetainedPacket} (hr : o.retained = pre ++ e :: post)
    (hsent : ∀ x ∈ pre, x.state = .sent) (hw : e.state.isWrite = true)
    (hr' : o'.retained = pre ++ { e with state := .flush } :: post) (hb : o'.buf = o.buf) (hn : o'.nextSer = o.nextSer) :
    o'.Log k (l ++ [⟨k, .retained e.ser e.id, slice o.buf e.offset e.len⟩]) := by
  have hpost := h.post_fresh hr (by intro hs; rw [hs] at hw; cases hw)
  have hrows : o.rows = pre.map (rowOf o.buf) ++ rowOf o.buf e :: post.map (rowOf o.buf) := by
    simp only [Outbound.rows, hr]; exact rows_split _ _ _ _
  have hrows' : o'.rows = pre.map (rowOf o.buf) ++ rowOf o.buf { e with state := .flush } :: post.map (rowOf o.buf) := by
    simp only [Outbound.rows, hr', hb]; exact rows_split _ _ _ _
  have hs : sers (l ++ [(⟨k, .retained e.ser e.id, slice o.buf e.offset e.len⟩ : LogEntry)]) = sers l ++ [e.ser] := by
    simp [sers_append, sers, LogEntry.ser?]
  have hbelow_e : ∀ s ∈ sers l, s < e.ser := h.unwritten (rowOf o.buf e) (by rw [hrows]; simp) hw
  have hinc := hser.inc
  rw [hr, List.map_append, List.map_cons, List.pairwise_append] at hinc
  have hpost_ser : ∀ x ∈ post, e.ser < x.ser := fun x hx =>
    (List.pairwise_cons.mp hinc.2.1).1 x.ser (List.mem_map.mpr ⟨x, hx, rfl⟩)
  refine ⟨?_, ?_, ?_, ?_, ?_⟩
  · rw [hs, List.pairwise_append]
    exact ⟨h.sorted, by simp, fun a ha c hc => by simp only [List.mem_singleton] at hc; subst hc; exact hbelow_e a ha⟩
  · intro s hm
    rw [hs] at hm
    rcases List.mem_append.mp hm with hm | hm
    · rw [hn]; exact h.below s hm
    · simp only [List.mem_singleton] at hm; subst hm
      rw [hn]; exact hser.lt e (by rw [hr]; simp)
  · intro r hm hst
    rw [hrows'] at hm
    rcases List.mem_append.mp hm with hm | hm
    · exact List.mem_append_left _ (h.written r (by rw [hrows]; exact List.mem_append_left _ hm) hst)
    · rcases List.mem_cons.mp hm with rfl | hm
      · exact List.mem_append_right _ (by simp [rowOf])
      · exact List.mem_append_left _
          (h.written r (by rw [hrows]; exact List.mem_append_right _ (List.mem_cons_of_mem _ hm)) hst)
  · intro r hm hwr s hsm
    rw [hrows'] at hm
    rw [hs] at hsm
    rcases List.mem_append.mp hm with hm | hm
    · simp only [List.mem_map] at hm
      obtain ⟨x, hx, rfl⟩ := hm
      simp only [rowOf, hsent x hx] at hwr; cases hwr
    · rcases List.mem_cons.mp hm with rfl | hm
      · simp only [rowOf] at hwr; cases hwr
      · have hm' := hm
        simp only [List.mem_map] at hm'
        obtain ⟨x, hx, rfl⟩ := hm'
        rcases List.mem_append.mp hsm with hsm | hsm
        · exact h.unwritten _ (by rw [hrows]; exact List.mem_append_right _ (List.mem_cons_of_mem _ hm)) hwr s hsm
        · simp only [List.mem_singleton] at hsm; subst hsm
          exact hpost_ser x hx
  · have ho := h.ord
    rw [hrows] at ho
    rw [hrows']
    simp only [List.map_append, List.map_cons, List.map_map, List.pairwise_append, List.pairwise_cons] at ho ⊢
    refine ⟨ho.1, ⟨?_, ho.2.1.2⟩, ?_⟩
    · intro b hb hne
      simp only [List.mem_map, Function.comp] at hb
      obtain ⟨x, hx, rfl⟩ := hb
      exact absurd (hpost x hx) hne
    · intro a ha b hb hne
      simp only [List.mem_map, Function.comp] at ha
      obtain ⟨x, hx, rfl⟩ := ha
      exact hsent x hx

/-- The flush of the current retained entry completed. -/
theorem Outbound.Log.setState_sent {o o' : Outbound} {k : Nat} {l : List LogEntry} (h : o.Log k l)
    {pre post : List RetainedPacket} {e : RetainedPacket} (hr : o.retained = pre ++ e :: post)
    (hsent : ∀ x ∈ pre, x.state = .sent) (hf : e.state = .flush)
    (hr' : o'.retained = pre ++ { e with state := .sent } :: post) (hb : o'.buf = o.buf) (hn : o'.nextSer = o.nextSer) :
    o'.Log k l := by
  have hrows : o.rows = pre.map (rowOf o.buf) ++ rowOf o.buf e :: post.map (rowOf o.buf) := by
    simp only [Outbound.rows, hr]; exact rows_split _ _ _ _
  have hrows' : o'.rows = pre.map (rowOf o.buf) ++ rowOf o.buf { e with state := .sent } :: post.map (rowOf o.buf) := by
    simp only [Outbound.rows, hr', hb]; exact rows_split _ _ _ _
  refine ⟨h.sorted, by rw [hn]; exact h.below, ?_, ?_, ?_⟩
  · intro r hm hst
    rw [hrows'] at hm
    rcases List.mem_append.mp hm with hm | hm
    · exact h.written r (by rw [hrows]; exact List.mem_append_left _ hm) hst
    · rcases List.mem_cons.mp hm with rfl | hm
      · exact h.written (rowOf o.buf e) (by rw [hrows]; simp) (Or.inr hf)
      · exact h.written r (by rw [hrows]; exact List.mem_append_right _ (List.mem_cons_of_mem _ hm)) hst
  · intro r hm hwr s hs
    rw [hrows'] at hm
    rcases List.mem_append.mp hm with hm | hm
    · exact h.unwritten r (by rw [hrows]; exact List.mem_append_left _ hm) hwr s hs
    · rcases List.mem_cons.mp hm with rfl | hm
      · simp only [rowOf] at hwr; cases hwr
      · exact h.unwritten r (by rw [hrows]; exact List.mem_append_right _ (List.mem_cons_of_mem _ hm)) hwr s hs
  · have ho := h.ord
    rw [hrows] at ho
    rw [hrows']
    simp only [List.map_append, List.map_cons, List.map_map, List.pairwise_append, List.pairwise_cons] at ho ⊢
    refine ⟨ho.1, ⟨fun _ _ _ => rfl, ho.2.1.2⟩, ?_⟩
    intro a ha b hb hne
    simp only [List.mem_map, Function.comp] at ha
    obtain ⟨x, hx, rfl⟩ := ha
    exact hsent x hx

/-- With every entry waiting for its first byte, the empty log agrees with the queue. -/
theorem Log_of_allFresh (o : Outbound) (k : Nat) (h : ∀ e ∈ o.retained, e.state = .write 0) : o.Log k [] := by
  refine ⟨by simp [sers], by simp [sers], ?_, by simp [sers], ?_⟩
  · intro r hm hst
    simp only [Outbound.rows, List.mem_map] at hm
    obtain ⟨e, he, rfl⟩ := hm
    simp only [rowOf, h e he] at hst
    rcases hst with h1 | h1 <;> cases h1
  · have : ∀ (l : List RetainedPacket), (∀ e ∈ l, e.state = .write 0) →
        ((l.map (rowOf o.buf)).map (·.state)).Pairwise (fun a b => b ≠ .write 0 → a = .sent) := by
      intro l
      induction l with
      | nil => intro _; exact List.Pairwise.nil
      | cons x xs ih =>
        intro hl
        simp only [List.map_cons, List.pairwise_cons]
        refine ⟨?_, ih (fun e he => hl e (by simp [he]))⟩
        intro c hc hne
        simp only [List.map_map, List.mem_map, Function.comp] at hc
        obtain ⟨y, hy, rfl⟩ := hc
        exact absurd (hl y (by simp [hy])) hne
    exact this _ h


/-! ### The log entry `setWritten` records, and the queue steps -/

/-- `World.doneFrame` as a function of the queues and the transport ordinal. -/
def Outbound.done (o : Outbound) (k : Nat) (pkt : Flushed) : LogEntry :=
  match pkt with
  | .control a => { net := k, tag := .control a, bytes := ((encodeControl a).toOption).getD [] }
  | .release id =>
    (match o.release.find? (fun e => e.id == id) with
     | some e => { net := k, tag := .release id e.rc, bytes := ((encodePubrel id e.rc).toOption).getD [] }
     | none => { net := k, tag := .unknown, bytes := [] })
  | .retained id =>
    (match o.retained.find? (fun e => e.id == id) with
     | some e => { net := k, tag := .retained e.ser id, bytes := o.retainedPacket e.offset e.len }
     | none => { net := k, tag := .unknown, bytes := [] })

theorem doneFrame_eq (w : World) (pkt : Flushed) : w.doneFrame pkt = w.sess.data.outbound.done w.nets.length pkt := by
  unfold World.doneFrame Outbound.done
  cases pkt <;> rfl

/-- The tag a step's entry gets in the log. -/
def Outbound.stepTag (o : Outbound) : Outbound.Step → Tag
  | .control a _ => .control a
  | .release id rc _ => .release id rc
  | .retained id _ _ _ => .retained (((o.retained.find? (fun e => e.id == id)).map (·.ser)).getD 0) id

/-- For the current entry the recorded bytes are the bytes `perform_outbound_step` writes. -/
theorem done_of_slot {o : Outbound} {step : Outbound.Step} {bytes : Bytes} (k : Nat) (hs : o.Slot step)
    (hb : o.StepBytes step bytes) : o.done k step.flushed = ⟨k, o.stepTag step, bytes⟩ := by
  cases hs with
  | control a st rest hc hrest hrel hret =>
    simp only [Outbound.StepBytes] at hb
    simp [Outbound.done, Outbound.Step.flushed, Outbound.stepTag, hb, Except.toOption]
  | release pre id rc st post hr hpre hpost hctl hret hsent =>
    simp only [Outbound.StepBytes] at hb
    have hf : o.release.find? (fun e => e.id == id) = some ⟨id, rc, st⟩ := by
      rw [hr]; exact find?_hit _ pre _ post (fun x hx => by simp [(hpre x hx).1]) (by simp)
    simp [Outbound.done, Outbound.Step.flushed, Outbound.stepTag, hf, hb, Except.toOption]
  | retained pre e post hr hpre hpost hctl hrel hsent =>
    simp only [Outbound.StepBytes] at hb
    have hf : o.retained.find? (fun x => x.id == e.id) = some e := by
      rw [hr]; exact find?_hit _ pre _ post (fun x hx => by simp [(hpre x hx).1]) (by simp)
    simp [Outbound.done, Outbound.Step.flushed, Outbound.stepTag, hf, hb.1, Outbound.retainedPacket]

theorem done_retained {o : Outbound} {pre post : List RetainedPacket} {e : RetainedPacket} (k : Nat)
    (hr : o.retained = pre ++ e :: post) (hpre : ∀ x ∈ pre, x.id ≠ e.id) :
    o.done k (.retained e.id) = ⟨k, .retained e.ser e.id, slice o.buf e.offset e.len⟩ := by
  have hf : o.retained.find? (fun x => x.id == e.id) = some e := by
    rw [hr]; exact find?_hit _ pre _ post (fun x hx => by simp [hpre x hx]) (by simp)
  simp [Outbound.done, hf, Outbound.retainedPacket]

theorem stepTag_retained {o : Outbound} {pre post : List RetainedPacket} {e : RetainedPacket}
    (hr : o.retained = pre ++ e :: post) (hpre : ∀ x ∈ pre, x.id ≠ e.id) :
    o.stepTag (.retained e.id e.offset e.len e.state) = .retained e.ser e.id := by
  have hf : o.retained.find? (fun x => x.id == e.id) = some e := by
    rw [hr]; exact find?_hit _ pre _ post (fun x hx => by simp [hpre x hx]) (by simp)
  simp [Outbound.stepTag, hf]

/-- `set_written` on the current entry: the log stays in agreement with the queue; when the entry is
completely written, with the entry recorded. -/
theorem Outbound.Log.setWritten {o : Outbound} {k : Nat} {l : List LogEntry} {step : Outbound.Step} {j : Nat}
    (h : o.Log k l) (hser : o.SerInv) (hs : o.Slot step) (hst : step.state = .write j) (wr len : Nat) :
    (wr < len → (o.setWritten step.flushed wr len).Log k l) ∧
    (len ≤ wr → (o.setWritten step.flushed wr len).Log k (l ++ [o.done k step.flushed])) := by
  cases hs with
  | control a st rest hc hrest hrel hret =>
    have hsame : (o.setWritten (Outbound.Step.flushed (.control a st)) wr len).Log k l := h.congr rfl rfl
    exact ⟨fun _ => hsame, fun _ => hsame.append_other _ (by simp [Outbound.done, Outbound.Step.flushed, LogEntry.ser?])⟩
  | release pre id rc st post hr hpre hpost hctl hret hsent =>
    have hsame : (o.setWritten (Outbound.Step.flushed (.release id rc st)) wr len).Log k l := h.congr rfl rfl
    refine ⟨fun _ => hsame, fun _ => hsame.append_other _ ?_⟩
    simp only [Outbound.done, Outbound.Step.flushed]
    split <;> rfl
  | retained pre e post hr hpre hpost hctl hrel hsent =>
    simp only [Outbound.Step.state] at hst
    have hw : e.state.isWrite = true := by rw [hst]; rfl
    have hr' : (o.setWritten (.retained e.id) wr len).retained =
        pre ++ { e with state := SendState.afterWrite wr len } :: post := by
      simp only [Outbound.setWritten, setRetainedWritten, hr]
      rw [modifyFirst_hit _ _ pre _ post (fun x hx => by simp [(hpre x hx).1]) (by simp)]
    constructor
    · intro hlt
      rw [afterWrite_lt hlt] at hr'
      exact h.setState_write hr hsent hw wr hr' rfl rfl
    · intro hge
      rw [afterWrite_ge hge] at hr'
      simp only [Outbound.Step.flushed]
      rw [done_retained k hr (fun x hx => (hpre x hx).1)]
      exact h.setState_flush hser hr hsent hw hr' rfl rfl

/-- `complete_flush` on the current entry. -/
theorem Outbound.Log.completeFlush {o : Outbound} {k : Nat} {l : List LogEntry} {step : Outbound.Step}
    (h : o.Log k l) (hs : o.Slot step) (hst : step.state = .flush) : (o.completeFlush step.flushed).Log k l := by
  cases hs with
  | control a st rest hc hrest hrel hret => exact h.congr rfl rfl
  | release pre id rc st post hr hpre hpost hctl hret hsent => exact h.congr rfl rfl
  | retained pre e post hr hpre hpost hctl hrel hsent =>
    simp only [Outbound.Step.state] at hst
    have hr' : (o.completeFlush (.retained e.id)).retained = pre ++ { e with state := .sent } :: post := by
      simp only [Outbound.completeFlush, flushRetained, hr]
      rw [modifyFirst_hit _ _ pre _ post (fun x hx => by simp [(hpre x hx).1]) (by simp)]
    exact h.setState_sent hr hsent hst hr' rfl rfl

theorem Outbound.Log.queueControl {o o' : Outbound} {k : Nat} {l : List LogEntry} {a : ControlAction} (h : o.Log k l)
    (hq : o.queueControl a = some o') : o'.Log k l := by
  unfold Outbound.queueControl at hq
  split at hq
  · simp at hq
  · simp only [Option.some.injEq] at hq; subst hq; exact h.congr rfl rfl

theorem Outbound.Log.queueRelease {o o' : Outbound} {k : Nat} {l : List LogEntry} {id rc : Nat} (h : o.Log k l)
    (hq : o.queueRelease id rc = some o') : o'.Log k l := by
  unfold Outbound.queueRelease at hq
  split at hq
  · simp at hq
  · simp only [Option.some.injEq] at hq; subst hq; exact h.congr rfl rfl

theorem Outbound.Log.ackRelease {o : Outbound} {k : Nat} {l : List LogEntry} (id : Nat) (h : o.Log k l) :
    (o.ackRelease id).1.Log k l := by
  unfold Outbound.ackRelease
  split
  · exact h.congr rfl rfl
  · exact h

theorem Outbound.Log.ackPacket {o : Outbound} {k : Nat} {l : List LogEntry} (id : Nat) (kind : AckKind) (ha : o.ArenaInv)
    (h : o.Log k l) : (o.ackPacket id kind).1.Log k l := by
  obtain ⟨h1, h2⟩ := rows_ackPacket o id kind ha
  exact h.sublist h1 (by rw [h2]; exact Nat.le_refl _)

/-- Handling an inbound packet removes acknowledged packets and queues acknowledgements; the log stays
in agreement with what remains. -/
theorem Log_handlePacket (d : SessionData) (r : Runtime) (p : Recv) (k : Nat) (l : List LogEntry) (ha : d.outbound.ArenaInv)
    (hf : d.outbound.Log k l) : (handlePacket d r p).1.outbound.Log k l := by
  have hack := fun id kind => Outbound.Log.ackPacket (o := d.outbound) id kind ha hf
  cases p with
  | connAck sp rc props => exact hf
  | pingResp => exact hf
  | disconnect rc props => exact hf
  | subAck id props codes =>
    simp only [handlePacket]
    split
    · exact hf
    · split <;> exact hack id .subAck
  | unsubAck id props codes =>
    simp only [handlePacket]
    split
    · exact hf
    · split <;> exact hack id .unsubAck
  | pubAck id rs =>
    simp only [handlePacket]
    split
    · exact hf
    · split <;> exact hack id .pubAck
  | pubComp id rs =>
    simp only [handlePacket]
    split
    · exact hf
    · split <;> exact Outbound.Log.ackRelease _ hf
  | pubRec id rs =>
    simp only [handlePacket]
    split
    · split
      · exact hack id .pubRec
      · split
        · exact hack id .pubRec
        · split
          · exact hack id .pubRec
          · rename_i o' hq
            exact Outbound.Log.queueRelease (hack id .pubRec) hq
    · split
      · split <;> exact hf
      · exact hf
  | pubRel id rs =>
    simp only [handlePacket]
    repeat' split
    all_goals first
      | exact hf
      | exact Outbound.Log.queueControl hf (by assumption)
  | publish topic id props payload retain qos dup =>
    simp only [handlePacket]
    repeat' split
    all_goals first
      | exact hf
      | exact Outbound.Log.queueControl hf (by assumption)

theorem Log_handle (s : Session) (p : Recv) (k : Nat) (l : List LogEntry) (ha : s.data.outbound.ArenaInv)
    (h : s.data.outbound.Log k l) : (s.handle p).1.data.outbound.Log k l := by
  rw [Session.handle_fst_data]; exact Log_handlePacket _ _ _ _ _ ha h

theorem Log_queuePing {s s' : Session} {now : Nat} {k : Nat} {l : List LogEntry} (hq : s.queuePing now = .ok s')
    (h : s.data.outbound.Log k l) : s'.data.outbound.Log k l := by
  rcases Session.queuePing_ok hq with rfl | ⟨o, ho, rfl⟩
  · exact h
  · exact h.queueControl ho

theorem Log_encode {ε : Type} (s : Session) (enc : Nat → (Nat → Nat → Bytes) → Except ε (Nat × Bytes)) {k : Nat}
    {l : List LogEntry} (ha : s.data.outbound.ArenaInv) (he : EncOk enc) (h : s.data.outbound.Log k l) :
    (s.encode enc).1.data.outbound.Log k l := by
  rw [Session.encode_fst]
  obtain ⟨h1, h2⟩ := rows_encodeAt s.data.outbound enc ha he
  exact h.congr h1 h2

/-- Retaining the packet just encoded: it enters the queue behind everything, with a new serial. -/
theorem Log_retain {ε : Type} (s s3 : Session) (enc : Nat → (Nat → Nat → Bytes) → Except ε (Nat × Bytes)) {k : Nat}
    {l : List LogEntry} (ha : s.data.outbound.ArenaInv) (he : EncOk enc) (h : s.data.outbound.Log k l)
    (id off len : Nat) (isPub : Bool) (hres : (s.encode enc).2 = .ok (off, len))
    (hr : (s.encode enc).1.retain id off len isPub = some s3) : s3.data.outbound.Log k l := by
  have hl2 := Log_encode s enc ha he h
  rw [Session.encode_snd] at hres
  rw [Session.encode_fst] at hr hl2
  obtain ⟨hi, _, _, _, hbl, _, _, _, hpos⟩ := encodeAt_spec s.data.outbound enc ha he
  obtain ⟨p1, p2, p3⟩ := hpos off len hres
  unfold Session.retain at hr
  split at hr
  · simp at hr
  · rename_i o ho
    simp only [Session.setOutbound] at ho
    obtain ⟨r1, r2⟩ := rows_retainPacket _ o id off len hi p1 (by rw [hbl]; exact p2) p3 ho
    have := Outbound.Log.retain hl2 _ r1 rfl rfl r2
    simp only [Option.some.injEq] at hr; subst hr
    split <;> exact this


/-! ### The agreement of log and queue, in terms of the queue entries -/

theorem Outbound.Log.written_entry {o : Outbound} {k : Nat} {l : List LogEntry} (h : o.Log k l) {e : RetainedPacket}
    (he : e ∈ o.retained) (hst : e.state = .sent ∨ e.state = .flush) :
    (⟨k, .retained e.ser e.id, slice o.buf e.offset e.len⟩ : LogEntry) ∈ l :=
  h.written (rowOf o.buf e) (List.mem_map.mpr ⟨e, he, rfl⟩) hst

theorem Outbound.Log.unwritten_entry {o : Outbound} {k : Nat} {l : List LogEntry} (h : o.Log k l) {e : RetainedPacket}
    (he : e ∈ o.retained) {n : Nat} (hst : e.state = .write n) : ∀ s ∈ sers l, s < e.ser :=
  h.unwritten (rowOf o.buf e) (List.mem_map.mpr ⟨e, he, rfl⟩) (by simp [rowOf, hst, SendState.isWrite])

/-- Along the retained queue: once an entry has been started (anything but "waiting for its first
byte"), every entry in front of it is sent. -/
theorem Outbound.Log.ord_entry {o : Outbound} {k : Nat} {l : List LogEntry} (h : o.Log k l) :
    o.retained.Pairwise (fun a c => c.state ≠ .write 0 → a.state = .sent) := by
  have ho := h.ord
  simp only [Outbound.rows, List.map_map] at ho
  rw [List.pairwise_map] at ho
  exact ho

end Minimq
