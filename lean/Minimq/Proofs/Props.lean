import Minimq.Proofs.Varint
import Minimq.Packets
namespace Minimq
open Gen

theorem lenPrefixed_ok {bs out : Bytes} (h : lenPrefixed bs = .ok out) :
    out = u16be bs.length ++ bs ∧ bs.length ≤ 65535 := by
  unfold lenPrefixed at h
  split at h
  · simp at h
  · simp at h; subst h; exact ⟨rfl, by omega⟩

theorem varintField_ok {v : Nat} {out : Bytes} (h : varintField v = .ok out) :
    out = encodeVarint v ∧ v ≤ MQTT_VARINT_MAX := by
  unfold varintField writeVarint at h
  split at h
  · rename_i bs hh
    split at hh
    · simp at hh
    · simp at hh h; subst hh; subst h; exact ⟨rfl, by omega⟩
  · simp at h

theorem catChunks_cons_ok {x : Bytes} {cs : List (Except SerErr Bytes)} {out : Bytes}
    (h : catChunks (.ok x :: cs) = .ok out) : ∃ r, catChunks cs = .ok r ∧ out = x ++ r := by
  simp only [catChunks] at h
  split at h
  · rename_i r hr; simp at h; exact ⟨r, hr, h.symm⟩
  · simp at h

theorem catChunks_cons {c : Except SerErr Bytes} {cs : List (Except SerErr Bytes)} {out : Bytes}
    (h : catChunks (c :: cs) = .ok out) : ∃ x r, c = .ok x ∧ catChunks cs = .ok r ∧ out = x ++ r := by
  cases c with
  | error e => simp [catChunks] at h
  | ok x => obtain ⟨r, hr, ho⟩ := catChunks_cons_ok h; exact ⟨x, r, rfl, hr, ho⟩

theorem catChunks_nil {out : Bytes} (h : catChunks [] = .ok out) : out = [] := by
  simp [catChunks] at h; exact h

/-- `Property::size` equals the number of bytes `impl Serialize for Property` emits, for every
property kind and every well-typed value: the anchor of C09. -/
theorem Property.size_eq_encode_length (p : Property) (out : Bytes) (hwf : p.wf = true)
    (h : p.encode = .ok out) : out.length = p.size := by
  obtain ⟨k, v⟩ := p
  unfold Property.encode Property.chunks at h
  obtain ⟨x, r, hx, hr, ho⟩ := catChunks_cons h
  obtain ⟨hx1, hx2⟩ := varintField_ok hx
  subst ho hx1
  cases k <;> cases v <;> simp [Property.wf, PropKind.declShape] at hwf <;>
    simp only [PropKind.serShape] at hr
  all_goals first
    | (obtain ⟨y, r2, hy, hr2, ho2⟩ := catChunks_cons hr
       obtain ⟨y2, r3, hy2, hr3, ho3⟩ := catChunks_cons hr2
       have := catChunks_nil hr3
       obtain ⟨e1, _⟩ := lenPrefixed_ok hy
       obtain ⟨e2, _⟩ := lenPrefixed_ok hy2
       subst ho2 ho3 this e1 e2
       simp [Property.size, PropKind.sizeExpr, PVal.len1, PVal.len2, encodeVarint_length, u16be]
       omega)
    | (obtain ⟨y, r2, hy, hr2, ho2⟩ := catChunks_cons hr
       have := catChunks_nil hr2
       first
        | (obtain ⟨e1, _⟩ := lenPrefixed_ok hy
           subst ho2 this e1
           simp [Property.size, PropKind.sizeExpr, PVal.len1, encodeVarint_length, u16be]
           omega)
        | (obtain ⟨e1, _⟩ := varintField_ok hy
           subst ho2 this e1
           simp [Property.size, PropKind.sizeExpr, PVal.num, encodeVarint_length]
           omega)
        | (simp at hy; subst ho2 this hy
           simp [Property.size, PropKind.sizeExpr, encodeVarint_length, u16be, u32be]
           omega))
end Minimq
