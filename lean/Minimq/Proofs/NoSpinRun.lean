import Minimq.Proofs.NoSpinStep
/-
No busy loop inside `poll()` — part 3: from one step to whole runs, POLLs, directives and programs.
-/
namespace Minimq
open Gen World Fuel
namespace NoSpin

/-- From `w` to `r` the trace only grew, and not by the line `"spin"`. -/
def Calm (w r : World) : Prop := ∃ new, r.out = new ++ w.out ∧ ∀ l ∈ new, l ≠ "spin"

theorem Calm.refl (w : World) : Calm w w := ⟨[], rfl, by simp⟩

theorem Calm.trans {a b c : World} (h1 : Calm a b) (h2 : Calm b c) : Calm a c := by
  obtain ⟨n1, e1, f1⟩ := h1
  obtain ⟨n2, e2, f2⟩ := h2
  refine ⟨n2 ++ n1, by rw [e2, e1, List.append_assoc], ?_⟩
  intro l hl
  rcases List.mem_append.mp hl with h | h
  · exact f2 l h
  · exact f1 l h

theorem Calm.of_eq {w a b : World} (h : Calm w a) (ho : b.out = a.out) : Calm w b := by
  unfold Calm; rw [ho]; exact h

theorem Calm.of_eq_left {a a' b : World} (h : Calm a b) (ho : a'.out = a.out) : Calm a' b := by
  unfold Calm; rw [ho]; exact h

theorem Calm.emit {w a : World} (h : Calm w a) (l : String) (hl : l ≠ "spin") : Calm w (a.emit l) := by
  refine h.trans ⟨[l], rfl, ?_⟩
  intro x hx; simp only [List.mem_singleton] at hx; subst hx; exact hl

theorem Lines.calm {w r : World} (h : Lines w r) : Calm w r := by
  obtain ⟨new, e, hn⟩ := h
  exact ⟨new, e, fun l hl => ne_spin_of_space l (hn l hl)⟩

/-- What a run under the invariant ends in — for any fuel; with too little fuel the last line is
`fuel` and nothing is known about the suspended-operation slot. -/
structure Res (b : Nat) (w r : World) : Prop where
  out : ∃ new, r.out = new ++ w.out ∧ (∀ l ∈ new, l ≠ "spin") ∧ (FutOk r ∨ new.head? = some "fuel")
  wakes : r.wakes ≤ b

theorem run_res (b : Nat) : ∀ (n : Nat) (c : Call), K b c → Res b c.world (c.run n)
  | 0, c, k => by
    rw [Call.run_zero]
    exact ⟨⟨["fuel"], rfl, fun l hl => by simp only [List.mem_singleton] at hl; subst hl; decide, .inr rfl⟩, k.1⟩
  | n + 1, c, k => by
    cases step2 b c k with
    | done r t hw hf h =>
      rw [h n]
      obtain ⟨new, e, hn⟩ := t
      exact ⟨⟨new, e, fun l hl => ne_spin_of_space l (hn l hl), .inl hf⟩, hw⟩
    | call c' k' t h =>
      rw [h n]
      obtain ⟨⟨new2, e2, s2, f2⟩, hw⟩ := run_res b n c' k'
      obtain ⟨new1, e1, s1⟩ := t
      refine ⟨⟨new2 ++ new1, by rw [e2, e1, List.append_assoc], ?_, ?_⟩, hw⟩
      · intro l hl
        rcases List.mem_append.mp hl with h | h
        · exact s2 l h
        · exact ne_spin_of_space l (s1 l h)
      · rcases f2 with f | f
        · exact .inl f
        · right
          cases new2 with
          | nil => simp at f
          | cons x xs => simpa using f

/-- With `pollFuel` the fuel does not run out (`FuelAdequate.lean`), so the run ends properly. -/
theorem run_pollFuel_res (b : Nat) (c : Call) (k : K b c) :
    Calm c.world (c.run pollFuel) ∧ (c.run pollFuel).wakes ≤ b ∧ FutOk (c.run pollFuel) := by
  obtain ⟨⟨new, e, s, f⟩, hw⟩ := run_res b pollFuel c k
  refine ⟨⟨new, e, s⟩, hw, ?_⟩
  rcases f with f | f
  · exact f
  · exfalso
    obtain ⟨new', e', hq⟩ := (run_pollFuel_final c).rel.quiet
    have : new = new' := List.append_cancel_right (e.symm.trans e')
    subst this
    cases new with
    | nil => simp at f
    | cons x xs =>
      simp only [List.head?_cons, Option.some.injEq] at f
      exact hq x (by simp) f

/-! ### POLL -/

theorem K_resume_any (w : World) (pc : Pc) (hw : w.wakes = 0) : K 1 (resumeCall w pc) := by
  refine ⟨by rw [resumeCall_world, hw]; omega, ?_⟩
  cases pc with
  | waitRead o d y =>
    cases y with
    | true => exact .inl trivial
    | false => exact .inr ⟨rfl, rfl, hw⟩
  | _ => exact .inl trivial

theorem K_resume_ok (w : World) (pc : Pc) (hw : w.wakes = 0) (hp : PcOk pc) : K 0 (resumeCall w pc) := by
  refine ⟨by rw [resumeCall_world, hw]; omega, .inl ?_⟩
  cases pc with
  | waitRead o d y =>
    have : y = true := hp
    subst this; trivial
  | _ => trivial

/-- **Any POLL, any world**: no `spin` line, at most one self-wake, and what is left suspended is an
await point of the machine's making. -/
theorem poll_any (w : World) :
    Calm w (World.poll w) ∧ (World.poll w).wakes ≤ 1 ∧ FutOk (World.poll w) := by
  rw [poll_eq_pollWith]
  unfold World.pollWith
  cases hf : w.fut with
  | none => exact ⟨(Calm.refl w).of_eq rfl, by show 0 ≤ 1; omega, .inl rfl⟩
  | some pc =>
    simp only []
    have := run_pollFuel_res 1 _ (K_resume_any { w with wakes := 0, lastIoStarved := false, fut := none } pc rfl)
    rw [resumeCall_world] at this
    exact ⟨this.1.of_eq_left rfl, this.2⟩

/-- **A POLL of an operation the machine itself suspended never wakes itself.** -/
theorem poll_ok (w : World) (h : FutOk w) : (World.poll w).wakes = 0 := by
  rw [poll_eq_pollWith]
  unfold World.pollWith
  cases hf : w.fut with
  | none => rfl
  | some pc =>
    simp only []
    have hp : PcOk pc := by
      rcases h with h | ⟨pc', h1, h2⟩
      · rw [hf] at h; simp at h
      · rw [hf] at h1; simp only [Option.some.injEq] at h1; subst h1; exact h2
    have := run_pollFuel_res 0 _ (K_resume_ok { w with wakes := 0, lastIoStarved := false, fut := none } pc rfl hp)
    omega

/-! ### Directives -/

/-- The invariant of the worlds of an execution: the suspended operation, if any, is at an await point
of the machine's making, and no self-wake is on record. -/
def WI (w : World) : Prop := FutOk w ∧ w.wakes = 0

theorem WI.of_eq {a b : World} (h : WI a) (hf : b.fut = a.fut) (hw : b.wakes = a.wakes) : WI b := by
  unfold WI FutOk; rw [hf, hw]; exact h

theorem Calm.finish {w a : World} (h : Calm w a) (line : String) : Calm w (a.finish line) :=
  (h.emit (s!"{line} @{a.now}") (by apply ne_spin_of_space; simp [toString])).of_eq rfl

theorem Calm.finishErr {w a : World} (h : Calm w a) (op : String) (e : Err) : Calm w (a.finishErr op e) :=
  (h.finish _).of_eq rfl

/-- Starting one of the machine functions from a world without self-wakes. -/
theorem start_call (c : Call) (hg : Good c) (hw : c.world.wakes = 0) :
    Calm c.world (c.run pollFuel) ∧ WI (c.run pollFuel) := by
  have := run_pollFuel_res 0 c ⟨by omega, .inl hg⟩
  exact ⟨this.1, this.2.2, by omega⟩

theorem poll_WI (w : World) (h : WI w) : Calm w (World.poll w) ∧ WI (World.poll w) :=
  ⟨(poll_any w).1, (poll_any w).2.2, poll_ok w h.1⟩

theorem cancelFut_facts (w : World) : Calm w w.cancelFut ∧ w.cancelFut.fut = none ∧ w.cancelFut.wakes = w.wakes := by
  unfold World.cancelFut
  split
  · exact ⟨((Calm.refl w).emit "cancel" (by decide)).of_eq rfl, rfl, rfl⟩
  · rename_i h
    refine ⟨Calm.refl w, ?_, rfl⟩
    cases hf : w.fut with
    | none => rfl
    | some pc => rw [hf] at h; simp at h

theorem dropConn_facts (w : World) : Calm w w.dropConn ∧ w.dropConn.fut = none ∧ w.dropConn.wakes = w.wakes := by
  obtain ⟨h1, h2, h3⟩ := cancelFut_facts w
  unfold World.dropConn
  simp only []
  split
  · exact ⟨(h1.emit "drop" (by decide)).of_eq rfl, h2, h3⟩
  · exact ⟨h1, h2, h3⟩

theorem startConnect_WI (w : World) : Calm w w.startConnect ∧ WI w.startConnect := by
  obtain ⟨h1, h2, _⟩ := dropConn_facts w
  unfold World.startConnect
  simp only []
  have hc : Calm w ({ w.dropConn with nets := w.dropConn.nets ++ [({ } : Net)] } : World) := h1.of_eq rfl
  split
  · exact ⟨((hc.emit _ (by apply ne_spin_of_space; simp [toString])).of_eq (b := _) rfl).finishErr _ _,
      .inl rfl, rfl⟩
  · have key : ∀ (w' : World) (bs : Bytes), w'.wakes = 0 → Calm w w' →
        Calm w (doLocalWrite pollFuel w' 0 bs) ∧ WI (doLocalWrite pollFuel w' 0 bs) := by
      intro w' bs hw' hcw
      have := start_call (.DLW w' 0 bs) trivial hw'
      exact ⟨hcw.trans this.1, this.2⟩
    exact key _ _ rfl ((hc.emit _ (by apply ne_spin_of_space; simp [toString])).of_eq rfl)

theorem startOp_WI (w : World) (name : String) (body : World → World) (h : WI w)
    (hb : ∀ w', w'.wakes = 0 → Calm w' (body w') ∧ WI (body w')) :
    Calm w (w.startOp name body) ∧ WI (w.startOp name body) := by
  unfold World.startOp
  split
  · exact ⟨(Calm.refl w).emit _ (by apply ne_spin_of_space; simp [toString]), h.of_eq rfl rfl⟩
  · obtain ⟨h1, _, _⟩ := cancelFut_facts w
    have := hb ({ w.cancelFut with wakes := 0, lastIoStarved := false }) rfl
    exact ⟨(h1.of_eq (b := { w.cancelFut with wakes := 0, lastIoStarved := false }) rfl).trans this.1, this.2⟩

theorem finishErr_WI (w : World) (op : String) (e : Err) (hw : w.wakes = 0) :
    Calm w (w.finishErr op e) ∧ WI (w.finishErr op e) := ⟨(Calm.refl w).finishErr _ _, .inl rfl, hw⟩

theorem finish_WI (w : World) (line : String) (hw : w.wakes = 0) :
    Calm w (w.finish line) ∧ WI (w.finish line) := ⟨(Calm.refl w).finish _, .inl rfl, hw⟩

/-- `go` ran through all its `n` rounds: every POLL (with the decision "everything") left the
operation suspended, after an I/O call that was not starved. -/
def GoBusy : Nat → World → Prop
  | 0, _ => True
  | n + 1, w =>
    let w' : World := { World.poll { w with slot := some 250 } with slot := none }
    w'.fut.isSome = true ∧ w'.wakes < 64 ∧ w'.lastIoStarved = false ∧ GoBusy n w'

theorem goLoop_WI (n : Nat) (w : World) (h : WI w) :
    WI (World.goLoop n w) ∧ (Calm w (World.goLoop n w) ∨ GoBusy n w) := by
  induction n generalizing w with
  | zero => exact ⟨h.of_eq rfl rfl, .inr trivial⟩
  | succ n ih =>
    unfold World.goLoop
    simp only []
    have hp := poll_WI { w with slot := some 250 } (h.of_eq rfl rfl)
    have h1 : Calm w ({ World.poll { w with slot := some 250 } with slot := none } : World) :=
      (hp.1.of_eq_left rfl).of_eq rfl
    have h2 : WI ({ World.poll { w with slot := some 250 } with slot := none } : World) := hp.2.of_eq rfl rfl
    split
    · exact ⟨h2, .inl h1⟩
    · split
      · exact ⟨h2, .inl h1⟩
      · split
        · exact ⟨h2, .inl h1⟩
        · rename_i hf hwk hst
          obtain ⟨i1, i2⟩ := ih _ h2
          refine ⟨i1, ?_⟩
          rcases i2 with c | g
          · exact .inl (h1.trans c)
          · right
            refine ⟨?_, ?_, ?_, g⟩
            · cases hfut : ({ World.poll { w with slot := some 250 } with slot := none } : World).fut with
              | none => rw [hfut] at hf; simp at hf
              | some pc => rfl
            · exact Nat.lt_of_not_ge hwk
            · simpa using hst

theorem decodeLine_ne_spin (bs : Bytes) : decodeLine bs ≠ "spin" := by
  apply ne_spin_of_space
  unfold decodeLine
  apply space_append_left
  decide

/-- **Every directive keeps the invariant, and prints `spin` only if it is a `go` that ran through
all its 10000 rounds.** -/
theorem execDirective_WI (w : World) (d : Directive) (h : WI w) :
    WI (w.execDirective d) ∧ (Calm w (w.execDirective d) ∨ d = .go ∧ GoBusy 10000 w) := by
  have key : ∀ {r : World}, Calm w r ∧ WI r → WI r ∧ (Calm w r ∨ d = .go ∧ GoBusy 10000 w) :=
    fun h => ⟨h.2, .inl h.1⟩
  unfold World.execDirective
  cases d with
  | bad => exact key ⟨(Calm.refl w).emit _ (by decide), h.of_eq rfl rfl⟩
  | connect => exact key (startConnect_WI w)
  | publish r =>
    apply key; apply startOp_WI w _ _ h; intro w' hw'; try simp only []
    split
    · exact finishErr_WI w' _ _ hw'
    · exact start_call (.FL w' _) trivial hw'
  | subscribe r =>
    apply key; apply startOp_WI w _ _ h; intro w' hw'; try simp only []
    repeat' split
    all_goals first
      | exact finishErr_WI w' _ _ hw'
      | exact start_call (.FL w' _) trivial hw'
  | unsubscribe r =>
    apply key; apply startOp_WI w _ _ h; intro w' hw'; try simp only []
    repeat' split
    all_goals first
      | exact finishErr_WI w' _ _ hw'
      | exact start_call (.FL w' _) trivial hw'
  | disconnect dd =>
    apply key; apply startOp_WI w _ _ h; intro w' hw'; try simp only []
    repeat' split
    all_goals first
      | exact finishErr_WI w' _ _ hw'
      | exact finish_WI w' _ hw'
      | exact start_call (.FL w' _) trivial hw'
  | poll => apply key; apply startOp_WI w _ _ h; intro w' hw'; exact start_call (.DE w' .poll) trivial hw'
  | recv => apply key; apply startOp_WI w _ _ h; intro w' hw'; exact start_call (.DE w' .recv) trivial hw'
  | drive => apply key; apply startOp_WI w _ _ h; intro w' hw'; exact start_call (.DE w' .drive) trivial hw'
  | d n =>
    apply key
    simp only []
    split
    · exact ⟨(Calm.refl w).emit _ (by decide), h.of_eq rfl rfl⟩
    · have hp := poll_WI { w with slot := some n } (h.of_eq rfl rfl)
      exact ⟨(hp.1.of_eq_left rfl).of_eq rfl, hp.2.of_eq rfl rfl⟩
  | go =>
    simp only []
    split
    · exact ⟨h.of_eq rfl rfl, .inl ((Calm.refl w).emit "bad-op" (by decide))⟩
    · obtain ⟨g1, g2⟩ := goLoop_WI 10000 w h
      exact ⟨g1, g2.elim .inl (fun g => .inr ⟨by simp, g⟩)⟩
  | tick us =>
    apply key
    simp only []
    split
    · exact ⟨(Calm.refl w).emit "bad-op" (by decide), h.of_eq rfl rfl⟩
    · split
      · have hp := poll_WI { w with now := w.now + us } (h.of_eq rfl rfl)
        exact ⟨hp.1.of_eq_left rfl, hp.2⟩
      · exact ⟨(Calm.refl w).of_eq rfl, h.of_eq rfl rfl⟩
  | rx bytes =>
    apply key
    simp only []
    split
    · exact ⟨(Calm.refl w).emit _ (by decide), h.of_eq rfl rfl⟩
    · exact ⟨(Calm.refl w).of_eq rfl, h.of_eq rfl rfl⟩
  | cancel =>
    apply key
    obtain ⟨h1, h2, h3⟩ := cancelFut_facts w
    exact ⟨h1, .inl h2, by rw [h3]; exact h.2⟩
  | drop =>
    apply key
    obtain ⟨h1, h2, h3⟩ := dropConn_facts w
    exact ⟨h1, .inl h2, by rw [h3]; exact h.2⟩
  | setpid n =>
    apply key
    simp only []
    split
    · exact ⟨(Calm.refl w).emit _ (by decide), h.of_eq rfl rfl⟩
    · exact ⟨(Calm.refl w).of_eq rfl, h.of_eq rfl rfl⟩
  | decode bs => exact key ⟨(Calm.refl w).emit _ (decodeLine_ne_spin bs), h.of_eq rfl rfl⟩

/-! ### Programs -/

theorem emitState_WI (w : World) (h : WI w) : Calm w w.emitState ∧ WI w.emitState := by
  unfold World.emitState
  refine ⟨(((Calm.refl w).emit _ ?_).emit _ ?_).emit _ ?_, h.of_eq rfl rfl⟩
  · apply ne_spin_of_space; unfold stateLine; simp [toString]
  · apply ne_spin_of_space; unfold handleLine
    split
    · decide
    · exact space_append_left _ _ (by decide)
  · apply ne_spin_of_space; unfold capLine; simp [toString]

theorem exec_WI (w : World) (line : String) (h : WI w) :
    WI (w.exec line) ∧ (Calm w (w.exec line) ∨ parseDirective line = .go ∧ GoBusy 10000 w) := by
  obtain ⟨h1, h2⟩ := execDirective_WI w (parseDirective line) h
  obtain ⟨h3, h4⟩ := emitState_WI _ h1
  exact ⟨h4, h2.elim (fun c => .inl (c.trans h3)) .inr⟩

/-- **A whole run of directives**: the invariant holds at the end, and the trace gained the line
`spin` only if some `go` in it ran through all its 10000 rounds. -/
theorem run_WI (ds : List Directive) (w : World) (h : WI w) :
    WI (ds.foldl World.execDirective w) ∧
    (Calm w (ds.foldl World.execDirective w) ∨
      ∃ ds1 ds2, ds = ds1 ++ Directive.go :: ds2 ∧ GoBusy 10000 (ds1.foldl World.execDirective w)) := by
  induction ds generalizing w with
  | nil => exact ⟨h, .inl (Calm.refl w)⟩
  | cons d ds ih =>
    obtain ⟨h1, h2⟩ := execDirective_WI w d h
    obtain ⟨i1, i2⟩ := ih _ h1
    refine ⟨i1, ?_⟩
    rcases h2 with c | ⟨rfl, g⟩
    · rcases i2 with c2 | ⟨ds1, ds2, e, g⟩
      · exact .inl (c.trans c2)
      · exact .inr ⟨d :: ds1, ds2, by rw [e]; rfl, g⟩
    · exact .inr ⟨[], ds, rfl, g⟩

/-- The same for program lines (each line is executed and followed by the state lines). -/
theorem program_WI (ls : List String) (w : World) (h : WI w) :
    WI (ls.foldl World.exec w) ∧
    (Calm w (ls.foldl World.exec w) ∨
      ∃ ls1 l ls2, ls = ls1 ++ l :: ls2 ∧ parseDirective l = .go ∧ GoBusy 10000 (ls1.foldl World.exec w)) := by
  induction ls generalizing w with
  | nil => exact ⟨h, .inl (Calm.refl w)⟩
  | cons l ls ih =>
    obtain ⟨h1, h2⟩ := exec_WI w l h
    obtain ⟨i1, i2⟩ := ih _ h1
    refine ⟨i1, ?_⟩
    rcases h2 with c | ⟨hl, g⟩
    · rcases i2 with c2 | ⟨ls1, l', ls2, e, hl', g⟩
      · exact .inl (c.trans c2)
      · exact .inr ⟨l :: ls1, l', ls2, by rw [e]; rfl, hl', g⟩
    · exact .inr ⟨[], l, ls, rfl, hl, g⟩

theorem not_spin_of_calm {w r : World} (h : Calm w r) (hw : w.out = []) : "spin" ∉ r.out.reverse := by
  obtain ⟨new, e, hn⟩ := h
  rw [e, hw]
  intro hm
  simp only [List.append_nil, List.mem_reverse] at hm
  exact hn _ hm rfl

theorem WI_initial (cfg : Cfg) : WI ({ sess := Session.new cfg } : World) := ⟨.inl rfl, rfl⟩

theorem no_spin_fold (ls : List String) (w : World) (h : WI w) (hw : w.out = [])
    (hgo : ∀ l ∈ ls, parseDirective l ≠ .go) : "spin" ∉ (ls.foldl World.exec w).out.reverse := by
  rcases (program_WI ls w h).2 with c | ⟨ls1, l, ls2, e, hl, _⟩
  · exact not_spin_of_calm c hw
  · exact absurd hl (hgo l (by rw [e]; simp))

/-- **A program without `go` never prints `spin`.** -/
theorem no_spin_in_runProgram (text : String) (hgo : ∀ l ∈ text.splitOn "\n", parseDirective l ≠ .go) :
    "spin" ∉ runProgram text := by
  unfold runProgram
  simp only []
  split
  · decide
  · rename_i hd rest heq
    have hrest : ∀ l ∈ rest, parseDirective l ≠ .go := by
      intro l hl
      have : l ∈ (text.splitOn "\n").filter (fun l => !isComment l) := by rw [heq]; exact List.mem_cons_of_mem _ hl
      exact hgo l (List.mem_filter.mp this).1
    repeat' split
    all_goals first
      | decide
      | exact no_spin_fold _ _ ⟨.inl rfl, rfl⟩ rfl hrest


end NoSpin
end Minimq
