import Minimq.Proofs.Lift
import Minimq.Proofs.IdsClosed
/-
The arena invariant and the stability of retained bytes are preserved by every session primitive,
hence hold after every program.
-/
namespace Minimq
open Gen World Outbound

/-! ### Layout-only changes -/

def layout (es : List RetainedPacket) : List (Nat × Nat) := es.map fun e => (e.offset, e.len)

theorem Sorted_of_layout {lo cap : Nat} {es es' : List RetainedPacket} (h : Sorted lo cap es)
    (hl : layout es' = layout es) : Sorted lo cap es' := by
  induction es generalizing lo es' with
  | nil => cases es' with
    | nil => exact h
    | cons x xs => simp [layout] at hl
  | cons e es ih =>
    cases es' with
    | nil => simp [layout] at hl
    | cons x xs =>
      simp only [layout, List.map_cons, List.cons.injEq, Prod.mk.injEq] at hl
      obtain ⟨⟨ho, hn⟩, ht⟩ := hl
      exact ⟨by rw [ho]; exact h.1, by rw [ho, hn]; exact ih h.2 ht⟩

theorem forall_of_layout {es es' : List RetainedPacket} (Q : Nat → Nat → Prop) (h : ∀ x ∈ es, Q x.offset x.len)
    (hl : layout es' = layout es) : ∀ x ∈ es', Q x.offset x.len := by
  intro x hx
  have : (x.offset, x.len) ∈ layout es' := List.mem_map.mpr ⟨x, hx, rfl⟩
  rw [hl] at this
  obtain ⟨y, hy, he⟩ := List.mem_map.mp this
  simp only [Prod.mk.injEq] at he
  rw [← he.1, ← he.2]; exact h y hy

theorem ArenaInv_of_layout {o o' : Outbound} (h : o.ArenaInv) (hl : layout o'.retained = layout o.retained)
    (hb : o'.buf.length = o.buf.length) (hu : o'.used = o.used) : o'.ArenaInv :=
  ⟨by rw [hb]; exact Sorted_of_layout h.sorted hl,
   by rw [hu]; exact forall_of_layout (fun a n => a + n ≤ o.used) h.ends hl,
   by rw [hu, hb]; exact h.used_le,
   forall_of_layout (fun _ n => 0 < n) h.pos hl⟩

theorem layout_modifyFirst (p : RetainedPacket → Bool) (f : RetainedPacket → RetainedPacket)
    (hf : ∀ e, (f e).offset = e.offset ∧ (f e).len = e.len) (es : List RetainedPacket) :
    layout (modifyFirst p f es) = layout es := by
  induction es with
  | nil => rfl
  | cons e es ih =>
    simp only [modifyFirst]
    split
    · simp [layout, hf e]
    · simp only [layout, List.map_cons] at ih ⊢; rw [ih]

/-! ### What survives: identifier and bytes (up to the DUP bit) of every retained packet -/

def unDupByte (x : UInt8) : UInt8 := b (x.toNat / 16 * 16 + x.toNat % 8)

/-- A packet with bit 3 of its first byte cleared. -/
def unDup : Bytes → Bytes
  | [] => []
  | x :: r => unDupByte x :: r

theorem unDup_setDup (l : Bytes) : unDup (setDup l) = unDup l := by
  cases l with
  | nil => rfl
  | cons x r =>
    simp only [setDup, unDup, List.cons.injEq, and_true]
    have := x.toNat_lt
    unfold unDupByte dupByte
    congr 1
    simp only [b, UInt8.toNat_ofNat']
    omega

/-- Serial, identifier and DUP-masked bytes of every retained packet, oldest first. -/
def Outbound.tagged (o : Outbound) : List ((Nat × Nat) × Bytes) :=
  o.retained.map fun e => ((e.ser, e.id), unDup (slice o.buf e.offset e.len))

/-- Serial numbers identify retained packets: they increase along the list and are below the counter. -/
structure Outbound.SerInv (o : Outbound) : Prop where
  inc : (o.retained.map (·.ser)).Pairwise (· < ·)
  lt : ∀ x ∈ o.retained, x.ser < o.nextSer

/-- From `a` to `b` no retained packet was altered: every packet of `b` that already existed at `a`
(its serial is below `a`'s counter) is in `a` with the same serial, the same identifier and the same
bytes up to the DUP bit — and these packets are still in the same order. -/
def Keeps (a b : Outbound) : Prop :=
  a.nextSer ≤ b.nextSer ∧ (b.tagged.filter (fun t => decide (t.1.1 < a.nextSer))).Sublist a.tagged

theorem Keeps.refl (a : Outbound) : Keeps a a := ⟨Nat.le_refl _, List.filter_sublist⟩

theorem Keeps.trans {a b c : Outbound} (h1 : Keeps a b) (h2 : Keeps b c) : Keeps a c := by
  obtain ⟨n1, s1⟩ := h1
  obtain ⟨n2, s2⟩ := h2
  refine ⟨Nat.le_trans n1 n2, ?_⟩
  have hf : c.tagged.filter (fun t => decide (t.1.1 < a.nextSer)) =
      (c.tagged.filter (fun t => decide (t.1.1 < b.nextSer))).filter (fun t => decide (t.1.1 < a.nextSer)) := by
    rw [List.filter_filter]
    apply List.filter_congr
    intro t _
    by_cases h : t.1.1 < a.nextSer
    · have : t.1.1 < b.nextSer := by omega
      simp [h, this]
    · simp [h]
  rw [hf]
  exact (s2.filter _).trans s1

theorem Keeps.of_sublist {a b : Outbound} (hn : a.nextSer ≤ b.nextSer) (h : b.tagged.Sublist a.tagged) : Keeps a b :=
  ⟨hn, List.filter_sublist.trans h⟩

theorem Keeps.of_eq {a b : Outbound} (hn : b.nextSer = a.nextSer) (h : b.tagged = a.tagged) : Keeps a b :=
  Keeps.of_sublist (by omega) (by rw [h]; exact List.Sublist.refl _)

theorem tagged_eq_zip (o : Outbound) :
    o.tagged = (o.retained.map (fun e => (e.ser, e.id))).zip (o.contents.map unDup) := by
  simp only [Outbound.tagged, Outbound.contents, contents, List.map_map]
  induction o.retained with
  | nil => rfl
  | cons e es ih => simp [ih]

/-- `tagged` is determined by serials, identifiers and contents. -/
theorem tagged_congr {o o' : Outbound}
    (hid : o'.retained.map (fun e => (e.ser, e.id)) = o.retained.map (fun e => (e.ser, e.id)))
    (hc : o'.contents.map unDup = o.contents.map unDup) : o'.tagged = o.tagged := by
  rw [tagged_eq_zip, tagged_eq_zip, hid, hc]

theorem tags_of_meta {o o' : Outbound} (h : o'.meta = o.meta) :
    o'.retained.map (fun e => (e.ser, e.id)) = o.retained.map (fun e => (e.ser, e.id)) := by
  have := congrArg (List.map (fun (t : Nat × Nat × SendState × Nat) => (t.2.2.2, t.1))) h
  simp only [Outbound.meta, List.map_map] at this
  exact this

theorem sers_of_tags {es es' : List RetainedPacket}
    (h : es'.map (fun e => (e.ser, e.id)) = es.map (fun e => (e.ser, e.id))) : es'.map (·.ser) = es.map (·.ser) := by
  have := congrArg (List.map (fun (t : Nat × Nat) => t.1)) h
  simp only [List.map_map] at this
  exact this

theorem SerInv_of_sublist {o o' : Outbound} (h : o.SerInv) (hs : (o'.retained.map (·.ser)).Sublist (o.retained.map (·.ser)))
    (hn : o.nextSer ≤ o'.nextSer) : o'.SerInv := by
  refine ⟨h.inc.sublist hs, ?_⟩
  intro x hx
  have : x.ser ∈ o.retained.map (·.ser) := hs.subset (List.mem_map.mpr ⟨x, hx, rfl⟩)
  obtain ⟨y, hy, he⟩ := List.mem_map.mp this
  have := h.lt y hy
  omega

/-- A step of the arena: keeps the layout invariant, the serial numbering and the retained packets. -/
def OStep (a b : Outbound) : Prop :=
  a.ArenaInv ∧ a.SerInv → (b.ArenaInv ∧ b.SerInv) ∧ Keeps a b ∧ b.buf.length = a.buf.length

theorem OStep.refl (a : Outbound) : OStep a a := fun h => ⟨h, Keeps.refl a, rfl⟩

theorem OStep.trans {a b c : Outbound} (h1 : OStep a b) (h2 : OStep b c) : OStep a c := by
  intro h
  obtain ⟨i1, k1, l1⟩ := h1 h
  obtain ⟨i2, k2, l2⟩ := h2 i1
  exact ⟨i2, k1.trans k2, by omega⟩

/-- Changes that touch neither the buffer nor the layout nor the identifiers of the retained list. -/
theorem OStep.same {a b : Outbound} (hb : b.buf = a.buf) (hu : b.used = a.used) (hn : b.nextSer = a.nextSer)
    (hl : b.retained.map (fun e => (e.ser, e.id, e.offset, e.len)) = a.retained.map (fun e => (e.ser, e.id, e.offset, e.len))) :
    OStep a b := by
  intro ⟨h, hser⟩
  have hlay : layout b.retained = layout a.retained := by
    have := congrArg (List.map (fun (t : Nat × Nat × Nat × Nat) => t.2.2)) hl
    simp only [List.map_map] at this
    exact this
  have hsers : b.retained.map (·.ser) = a.retained.map (·.ser) := by
    have := congrArg (List.map (fun (t : Nat × Nat × Nat × Nat) => t.1)) hl
    simp only [List.map_map] at this
    exact this
  refine ⟨⟨ArenaInv_of_layout h hlay (by rw [hb]) hu, SerInv_of_sublist hser (by rw [hsers]; exact List.Sublist.refl _) (by omega)⟩,
    Keeps.of_eq hn ?_, by rw [hb]⟩
  have := congrArg (List.map (fun (t : Nat × Nat × Nat × Nat) => ((t.1, t.2.1), unDup (slice a.buf t.2.2.1 t.2.2.2)))) hl
  simp only [List.map_map] at this
  simp only [Outbound.tagged, hb]
  exact this

theorem OStep.ackPacket (o : Outbound) (id : Nat) (k : AckKind) : OStep o (o.ackPacket id k).1 := by
  intro ⟨h, hser⟩
  obtain ⟨hi, ht, hf, hn, hlen⟩ := ackPacket_spec o id k h
  cases hfound : (o.ackPacket id k).2 with
  | false => rw [hf hfound]; exact ⟨⟨h, hser⟩, Keeps.refl o, rfl⟩
  | true =>
    obtain ⟨hc, hm⟩ := ht hfound
    have htags : (o.ackPacket id k).1.retained.map (fun e => (e.ser, e.id)) =
        (removeFirst (fun (e : RetainedPacket) => e.id == id && k.acknowledges (o.headerAt e.offset)) o.retained).map
          (fun e => (e.ser, e.id)) := by
      have := congrArg (List.map (fun (t : Nat × Nat × SendState × Nat) => (t.2.2.2, t.1))) hm
      simp only [Outbound.meta, List.map_map] at this
      exact this
    refine ⟨⟨hi, SerInv_of_sublist hser ?_ (by omega)⟩, Keeps.of_sublist (by omega) ?_, hlen⟩
    · rw [sers_of_tags htags]
      exact (removeFirst_sublist _ _).map _
    · rw [tagged_eq_zip, hc, htags]
      have : ∀ es : List RetainedPacket,
          (es.map (fun e => (e.ser, e.id))).zip ((contents o.buf es).map unDup) =
            es.map fun e => ((e.ser, e.id), unDup (slice o.buf e.offset e.len)) := by
        intro es; induction es with
        | nil => rfl
        | cons e es ih => simp [contents] at ih ⊢; exact ih
      rw [this]
      exact (removeFirst_sublist _ _).map _

theorem OStep.encodeAt {ε : Type} (o : Outbound) (enc : Nat → (Nat → Nat → Bytes) → Except ε (Nat × Bytes))
    (he : EncOk enc) : OStep o (o.encodeAt enc).1 := by
  intro ⟨h, hser⟩
  obtain ⟨hi, hc, hm, _, hbl, _, _, hn, _⟩ := encodeAt_spec o enc h he
  exact ⟨⟨hi, SerInv_of_sublist hser (by rw [sers_of_tags (tags_of_meta hm)]; exact List.Sublist.refl _) (by omega)⟩,
    Keeps.of_eq hn (tagged_congr (tags_of_meta hm) (by rw [hc])), hbl⟩

theorem OStep.armReplay (o : Outbound) : OStep o o.armReplay := by
  intro ⟨h, hser⟩
  obtain ⟨hi, hc, hm, _, hbl, hn⟩ := armReplay_spec o h
  have htags : o.armReplay.retained.map (fun e => (e.ser, e.id)) = o.retained.map (fun e => (e.ser, e.id)) := by
    have := congrArg (List.map (fun (t : Nat × Nat × Nat) => (t.2.2, t.1))) hm
    simp only [List.map_map] at this
    exact this
  refine ⟨⟨hi, SerInv_of_sublist hser (by rw [sers_of_tags htags]; exact List.Sublist.refl _) (by omega)⟩, ?_, hbl⟩
  rcases hc with hc | ⟨he, _⟩
  · apply Keeps.of_eq hn
    apply tagged_congr htags
    rw [hc, List.map_map]
    apply List.map_congr_left
    intro l _
    exact unDup_setDup l
  · rw [he]; exact Keeps.refl o

theorem OStep.dropPingreq (o : Outbound) : OStep o o.dropPingreq := OStep.same rfl rfl rfl rfl

theorem OStep.rearm (o : Outbound) : OStep o o.rearm := (OStep.dropPingreq o).trans (OStep.armReplay _)

theorem OStep.clear (o : Outbound) : OStep o o.clear := by
  intro ⟨h, hser⟩
  exact ⟨⟨ArenaInv_clear o h, ⟨by simp [Outbound.clear], by simp [Outbound.clear]⟩⟩,
    Keeps.of_sublist (Nat.le_refl _) (by simp [Outbound.tagged, Outbound.clear]), rfl⟩

theorem OStep.queueControl {o o' : Outbound} {a : ControlAction} (h : o.queueControl a = some o') : OStep o o' := by
  unfold Outbound.queueControl at h
  split at h
  · simp at h
  · simp at h; subst h; exact OStep.same rfl rfl rfl rfl

theorem OStep.queueRelease {o o' : Outbound} {id rc ps : Nat} (h : o.queueRelease id rc ps = some o') : OStep o o' := by
  unfold Outbound.queueRelease at h
  split at h
  · simp at h
  · simp at h; subst h; exact OStep.same rfl rfl rfl rfl

theorem OStep.ackRelease (o : Outbound) (id : Nat) : OStep o (o.ackRelease id).1 := by
  unfold Outbound.ackRelease
  split
  · exact OStep.same rfl rfl rfl rfl
  · exact OStep.refl o

theorem map_modifyFirst_state (p : RetainedPacket → Bool) (st : RetainedPacket → SendState) (es : List RetainedPacket) :
    (modifyFirst p (fun e => { e with state := st e }) es).map (fun e => (e.ser, e.id, e.offset, e.len)) =
      es.map (fun e => (e.ser, e.id, e.offset, e.len)) := by
  induction es with
  | nil => rfl
  | cons e es ih =>
    simp only [modifyFirst]
    split
    · simp
    · simp only [List.map_cons, ih]

/-- After encoding, retaining the encoded packet appends it with a new serial. -/
theorem OStep.retain {ε : Type} (o o' : Outbound) (enc : Nat → (Nat → Nat → Bytes) → Except ε (Nat × Bytes))
    (he : EncOk enc) (id off len : Nat) (hres : (o.encodeAt enc).2 = .ok (off, len))
    (hr : (o.encodeAt enc).1.retainPacket id off len = some o') : OStep o o' := by
  intro ⟨h, hser⟩
  obtain ⟨⟨hi, hser1⟩, hk1, _⟩ := OStep.encodeAt o enc he ⟨h, hser⟩
  obtain ⟨_, hc, hm, hu, hbl, _, _, hn, hpos⟩ := encodeAt_spec o enc h he
  obtain ⟨p1, p2, p3⟩ := hpos off len hres
  obtain ⟨ri, rc, rm, rb, _, _, rn⟩ := retainPacket_spec _ o' id off len hi p1 (by rw [hbl]; exact p2) p3 hr
  have htags : o'.retained.map (fun e => (e.ser, e.id)) =
      (o.encodeAt enc).1.retained.map (fun e => (e.ser, e.id)) ++ [((o.encodeAt enc).1.nextSer, id)] := by
    have := congrArg (List.map (fun (t : Nat × Nat × SendState × Nat) => (t.2.2.2, t.1))) rm
    simp only [Outbound.meta, List.map_map, List.map_append, List.map_cons, List.map_nil] at this
    exact this
  have hsers : o'.retained.map (·.ser) = (o.encodeAt enc).1.retained.map (·.ser) ++ [(o.encodeAt enc).1.nextSer] := by
    have := congrArg (List.map (fun (t : Nat × Nat) => t.1)) htags
    simp only [List.map_map, List.map_append, List.map_cons, List.map_nil] at this
    exact this
  refine ⟨⟨ri, ?_, ?_⟩, hk1.trans ⟨by omega, ?_⟩, by rw [rb, hbl]⟩
  · rw [hsers, List.pairwise_append]
    refine ⟨hser1.inc, by simp, ?_⟩
    intro a ha b hb
    simp only [List.mem_singleton] at hb
    obtain ⟨y, hy, rfl⟩ := List.mem_map.mp ha
    subst hb
    exact hser1.lt y hy
  · intro x hx
    have : x.ser ∈ o'.retained.map (·.ser) := List.mem_map.mpr ⟨x, hx, rfl⟩
    rw [hsers, List.mem_append, List.mem_singleton] at this
    rcases this with hm' | hm'
    · obtain ⟨y, hy, he'⟩ := List.mem_map.mp hm'
      have := hser1.lt y hy
      omega
    · omega
  · rw [tagged_eq_zip o', rc, htags, List.map_append, List.zip_append (by simp [Outbound.contents, contents]),
      ← tagged_eq_zip, List.filter_append]
    have : List.filter (fun t => decide (t.1.1 < (o.encodeAt enc).1.nextSer))
        (List.zip [((o.encodeAt enc).1.nextSer, id)] (List.map unDup [slice (o.encodeAt enc).1.buf off len])) = [] := by
      simp
    rw [this, List.append_nil]
    exact List.filter_sublist

theorem nextPacketIdFuel_outbound (fuel : Nat) (d : SessionData) :
    (d.nextPacketIdFuel fuel).1.outbound = d.outbound := by
  induction fuel generalizing d with
  | zero => rfl
  | succ n ih =>
    simp only [SessionData.nextPacketIdFuel]
    split
    · rfl
    · rw [ih]

theorem nextPacketId_outbound (d : SessionData) : (d.nextPacketId).1.outbound = d.outbound :=
  nextPacketIdFuel_outbound _ d

theorem Session.encode_snd {ε : Type} (s : Session) (enc : Nat → (Nat → Nat → Bytes) → Except ε (Nat × Bytes)) :
    (s.encode enc).2 = (s.data.outbound.encodeAt enc).2 := by
  unfold Session.encode
  cases s.data.outbound.encodeAt enc; rfl

theorem handlePacket_OStep (d : SessionData) (r : Runtime) (p : Recv) :
    OStep d.outbound (handlePacket d r p).1.outbound := by
  have hack := fun id k => OStep.ackPacket d.outbound id k
  cases p with
  | connAck sp rc props => exact OStep.refl _
  | pingResp => exact OStep.refl _
  | disconnect rc props => exact OStep.refl _
  | subAck id props codes =>
    simp only [handlePacket]
    split
    · exact OStep.refl _
    · split <;> exact hack id .subAck
  | unsubAck id props codes =>
    simp only [handlePacket]
    split
    · exact OStep.refl _
    · split <;> exact hack id .unsubAck
  | pubAck id rs =>
    simp only [handlePacket]
    split
    · exact OStep.refl _
    · split <;> exact hack id .pubAck
  | pubComp id rs =>
    simp only [handlePacket]
    split
    · exact OStep.refl _
    · split <;> exact OStep.ackRelease _ _
  | pubRec id rs =>
    simp only [handlePacket]
    split
    · split
      · exact hack id .pubRec
      · split
        · exact hack id .pubRec
        · split
          · exact hack id .pubRec
          · rename_i o' hq
            exact (hack id .pubRec).trans (OStep.queueRelease hq)
    · split
      · split <;> exact OStep.refl _
      · exact OStep.refl _
  | pubRel id rs =>
    simp only [handlePacket]
    repeat' split
    all_goals first
      | exact OStep.refl _
      | exact OStep.queueControl (by assumption)
  | publish topic id props payload retain qos dup =>
    simp only [handlePacket]
    repeat' split
    all_goals first
      | exact OStep.refl _
      | exact OStep.queueControl (by assumption)

/-- The invariant lifted to all executions: the arena is laid out sanely and, relative to a fixed
earlier arena `o0`, retained packets were only removed or appended. -/
def ArenaP (o0 : Outbound) (s : Session) : Prop :=
  (s.data.outbound.ArenaInv ∧ s.data.outbound.SerInv) ∧ Keeps o0 s.data.outbound ∧
  s.data.outbound.buf.length = o0.buf.length

theorem ArenaP.step {o0 : Outbound} {s s' : Session} (h : ArenaP o0 s) (hs : OStep s.data.outbound s'.data.outbound) :
    ArenaP o0 s' := by
  obtain ⟨i, k, l⟩ := hs h.1
  exact ⟨i, h.2.1.trans k, by rw [l]; exact h.2.2⟩

theorem closed_ArenaP (o0 : Outbound) : Closed (ArenaP o0) where
  queuePing := by
    intro s now s' h hq
    rcases Session.queuePing_ok hq with rfl | ⟨o, ho, rfl⟩
    · exact h
    · exact h.step (OStep.queueControl ho)
  completeFlush := by
    intro s pkt now h
    apply h.step
    simp only [Session.completeFlush, Session.setOutbound]
    cases pkt <;> simp only []
    · exact OStep.same rfl rfl rfl rfl
    · exact OStep.same rfl rfl rfl rfl
    · exact OStep.same rfl rfl rfl (map_modifyFirst_state _ (fun _ => .sent) _)
  setWritten := by
    intro s pkt a c h
    apply h.step
    simp only [Session.setWritten, Session.setOutbound]
    cases pkt <;> simp only []
    · exact OStep.same rfl rfl rfl rfl
    · exact OStep.same rfl rfl rfl rfl
    · exact OStep.same rfl rfl rfl (map_modifyFirst_state _ (fun _ => SendState.afterWrite a c) _)
  takePkt := by
    intro s h
    apply h.step
    rw [(Session.takePkt_data s).1]; exact OStep.refl _
  handle := by
    intro s p h
    apply h.step
    rw [Session.handle_fst_data]; exact handlePacket_OStep s.data s.rt p
  handleDisconnect := by intro s h; exact h.step (OStep.rearm _)
  activate := by
    intro s sp block now h
    unfold Session.activate
    simp only []
    have h0 : ArenaP o0 (if (!sp) = true then { s with data := s.data.reset } else s) := by
      split
      · exact h.step (OStep.clear _)
      · exact h
    split
    · exact h0.step (OStep.rearm _)
    · exact h0.step (OStep.refl _)
  alloc := by
    intro s h
    apply h.step
    rw [Session.alloc_fst]
    simp only []
    rw [nextPacketId_outbound]; exact OStep.refl _
  encodeConnect := by
    intro s c h
    apply h.step
    rw [Session.encode_fst]; exact OStep.encodeAt _ _ (EncOk_encodeConnect c)
  encodeAfterAlloc := by
    intro ε s enc he h
    apply h.step
    rw [Session.encode_fst, Session.alloc_fst]
    simp only [Session.setOutbound]
    rw [nextPacketId_outbound]
    exact OStep.encodeAt _ _ he
  encodeScratch := by
    intro ε s enc he h
    apply h.step
    rw [Session.encode_fst]; exact OStep.encodeAt _ _ he
  enqueue := by
    intro ε s enc off len isPub s3 _ he _ _ h _ hres hr
    apply h.step
    rw [Session.encode_fst, Session.alloc_fst, Session.alloc_snd] at hr
    rw [Session.encode_snd, Session.alloc_fst] at hres
    unfold Session.retain at hr
    split at hr
    · simp at hr
    · rename_i o ho
      simp only [Session.setOutbound] at ho hres
      rw [nextPacketId_outbound] at ho hres
      have := OStep.retain s.data.outbound o enc he _ off len hres ho
      simp at hr; subst hr
      split <;> exact this
  clearPing := by intro s h; exact h
  noteActivity := by intro s now h; exact h
  window := by
    intro s s' n h hw
    unfold Session.window at hw
    split at hw
    · simp at hw
    · simp at hw; rw [← hw.1]; exact h
  commit := by intro s bytes h; exact h
  beginConnect := by intro s h; exact h.step (OStep.rearm _)
  setPid := by intro s n _ _ h; exact h

end Minimq
