import Minimq.Proofs.ReadMachine
import Minimq.Proofs.LiftWorld
import Minimq.Proofs.SessionFacts
/-
C15, read half: the reader hypothesis `Waiting` of `Proofs/ReadMachine.lean` holds in every world a
program produces that is suspended in `read_packet` (`Pc.waitRead`).

* `Waiting r rx` does not depend on `rx` (`waiting_iff`): it is the reader-only predicate `Waiting' r`
  = "probed" (`Reader.Probed`: asking `receive_buffer` again gives the same reader and the same
  non-empty window) + "the known length is the one the fixed header of the bytes held announces"
  (`Reader.KnownHdr`).
* `Reader.KnownHdr` is preserved by every session primitive (`closed_KnownHdr`), hence holds after
  every program (`run_inv`).
* `Reader.Probed` holds at every `waitRead` suspension (`WaitWin`): the only two places that suspend
  there (`doWaitRead`) do so right after `receive_buffer` offered a non-empty window, and nothing
  touches the session while the operation is suspended. This is an induction over the thirteen
  machine functions (`wmachine`) in the style of `Proofs/LiftWorld.lean`; it needs no hypothesis on
  the world the machine function is entered in other than that nothing is suspended, so neither
  liveness of the handle nor the ghost mark `tornNets` enters.
-/
namespace Minimq
open Gen World

/-! ## Reader level -/

/-- If the reader knows the length of the packet it is assembling, it is the total the fixed header
of the bytes held announces. -/
def Reader.KnownHdr (r : Reader) : Prop :=
  ∀ l, r.packetLength = some l → ∃ hl, fixedHeader r.data = .complete hl l

/-- The reader as `receive_buffer` leaves it when it offers a non-empty window: asking again gives
the same reader and the same window. -/
def Reader.Probed (r : Reader) : Prop := ∃ n, n ≠ 0 ∧ r.receiveWindow = some (r, n)

/-- `Waiting` without the stream: what is left of it once one sees that it asks nothing of the
bytes not read yet. -/
structure Waiting' (r : Reader) : Prop where
  win : r.Probed
  known : r.KnownHdr

theorem fixedHeader_prefix_incomplete {d : Bytes} {y : UInt8} (h : fixedHeader (d ++ [y]) = .incomplete) :
    fixedHeader d = .incomplete := by
  cases hfd : fixedHeader d with
  | incomplete => rfl
  | complete hl t => rw [fixedHeader_append_complete [y] hfd] at h; cases h
  | tooLong => rw [fixedHeader_append_tooLong [y] hfd] at h; cases h

/-- A probed reader with a consistent known length satisfies the window invariant of
`Proofs/ReaderStream.lean` against ANY continuation `rx` of the bytes held. -/
theorem Waiting'.rdw {r : Reader} (h : Waiting' r) (rx : Bytes) {n : Nat}
    (hw : r.receiveWindow = some (r, n)) : RdWInv r (r.data ++ rx) n := by
  cases hp : r.packetLength with
  | some l =>
    obtain ⟨hl, hfh⟩ := h.known l hp
    rw [receiveWindow_known r l hp] at hw
    split at hw
    · rename_i hc
      simp only [Option.some.injEq, Prod.mk.injEq, true_and] at hw
      obtain ⟨m, hm, hwm⟩ := h.win
      rw [receiveWindow_known r l hp, if_pos hc] at hwm
      simp only [Option.some.injEq, Prod.mk.injEq, true_and] at hwm
      refine ⟨by omega, ?_, ?_⟩
      · intro l' hl'
        rw [hp] at hl'; cases hl'
        exact ⟨⟨hl, fixedHeader_append_complete rx hfh⟩, hc, by omega, hw.symm⟩
      · intro hn; rw [hp] at hn; cases hn
    · simp at hw
  | none =>
    rw [receiveWindow_unknown r hp] at hw
    cases hfh : fixedHeader r.data with
    | complete hl t =>
      rw [hfh] at hw
      simp only at hw
      split at hw
      · simp only [Option.some.injEq, Prod.mk.injEq] at hw
        have : ({ r with packetLength := some t } : Reader).packetLength = r.packetLength := by rw [hw.1]
        rw [hp] at this; cases this
      · simp at hw
    | tooLong => rw [hfh] at hw; simp at hw
    | incomplete =>
      rw [hfh] at hw
      simp only at hw
      split at hw
      · rename_i hc
        simp only [Option.some.injEq, Prod.mk.injEq, true_and] at hw
        refine ⟨by omega, ?_, ?_⟩
        · intro l' hl'; rw [hp] at hl'; cases hl'
        · intro _; exact ⟨hfh, hc, hw.symm⟩
      · simp at hw

/-- **`Waiting` asks nothing of the bytes not read yet.** -/
theorem waiting_iff (r : Reader) (rx : Bytes) : Waiting r rx ↔ Waiting' r := by
  constructor
  · intro h; exact ⟨h.win, h.known⟩
  · intro h
    obtain ⟨n, hn, hw⟩ := h.win
    exact ⟨(h.rdw rx hw).toRInv', ⟨n, hn, hw⟩, h.known⟩

theorem Waiting'.waiting {r : Reader} (h : Waiting' r) (rx : Bytes) : Waiting r rx :=
  (waiting_iff r rx).2 h

/-! ### `KnownHdr` and the reader operations -/

theorem KnownHdr_of_none {r : Reader} (h : r.packetLength = none) : r.KnownHdr := by
  intro l hl; rw [h] at hl; cases hl

theorem KnownHdr_new (cap : Nat) : (Reader.new cap).KnownHdr := KnownHdr_of_none rfl

theorem KnownHdr_reset (r : Reader) : r.reset.KnownHdr := KnownHdr_of_none rfl

theorem KnownHdr.commit {r : Reader} (h : r.KnownHdr) (bytes : Bytes) : (r.commit bytes).KnownHdr := by
  intro l hl
  obtain ⟨k, hk⟩ := h l hl
  exact ⟨k, fixedHeader_append_complete bytes hk⟩

theorem KnownHdr.window {r r1 : Reader} {n : Nat} (h : r.KnownHdr) (hw : r.receiveWindow = some (r1, n)) :
    r1.KnownHdr := by
  cases hp : r.packetLength with
  | some l =>
    rw [receiveWindow_known r l hp] at hw
    split at hw
    · simp only [Option.some.injEq, Prod.mk.injEq] at hw
      rw [← hw.1]; exact h
    · simp at hw
  | none =>
    rw [receiveWindow_unknown r hp] at hw
    cases hfh : fixedHeader r.data with
    | complete hl t =>
      rw [hfh] at hw
      simp only at hw
      split at hw
      · simp only [Option.some.injEq, Prod.mk.injEq] at hw
        rw [← hw.1]
        intro l hl
        simp only [Option.some.injEq] at hl
        subst hl
        exact ⟨hl, hfh⟩
      · simp at hw
    | incomplete =>
      rw [hfh] at hw
      simp only at hw
      split at hw
      · simp only [Option.some.injEq, Prod.mk.injEq] at hw
        rw [← hw.1]; exact h
      · simp at hw
    | tooLong => rw [hfh] at hw; simp at hw

theorem KnownHdr.takePacket {r : Reader} (h : r.KnownHdr) : r.takePacket.1.KnownHdr := by
  unfold Reader.takePacket
  split
  · exact h
  · simp only []
    split <;> exact KnownHdr_of_none rfl

/-- What `receive_buffer` returns with a non-empty window is probed. -/
theorem Probed_of_window {r r1 : Reader} {n : Nat} (hw : r.receiveWindow = some (r1, n)) (hn : n ≠ 0) :
    r1.Probed :=
  ⟨n, hn, (Fuel.receiveWindow_idem hw).1⟩

theorem Probed_of_session_window {s s1 : Session} {n : Nat} (hw : s.window = some (s1, n)) (hn : n ≠ 0) :
    s1.reader.Probed := by
  unfold Session.window at hw
  split at hw
  · simp at hw
  · rename_i rd m hrw
    simp only [Option.some.injEq, Prod.mk.injEq] at hw
    obtain ⟨rfl, rfl⟩ := hw
    exact Probed_of_window hrw hn

/-! ## Session level: `KnownHdr` is an invariant of every execution -/

theorem closed_KnownHdr : Closed (fun s => s.reader.KnownHdr) where
  queuePing := by
    intro s now s' h hq
    rcases Session.queuePing_ok hq with rfl | ⟨o, _, rfl⟩
    · exact h
    · exact h
  completeFlush := by intro s pkt now h; exact h
  setWritten := by intro s pkt a c h; exact h
  takePkt := by
    intro s h
    have : s.takePkt.1.reader = s.reader.takePacket.1 := by
      unfold Session.takePkt
      cases s.reader.takePacket; rfl
    show s.takePkt.1.reader.KnownHdr
    rw [this]; exact KnownHdr.takePacket h
  handle := by
    intro s p h
    show (s.handle p).1.reader.KnownHdr
    rw [(Session.handle_fst_other s p).2.2.2.2]; exact h
  handleDisconnect := by intro s _; exact KnownHdr_reset _
  activate := by
    intro s sp block now h
    unfold Session.activate
    simp only []
    split <;> split <;> first | exact h | exact KnownHdr_reset _
  alloc := by intro s h; rw [Session.alloc_fst]; exact h
  encodeConnect := by intro s c h; rw [Session.encode_fst]; exact h
  encodeAfterAlloc := by intro ε s enc _ h; rw [Session.encode_fst, Session.alloc_fst]; exact h
  encodeScratch := by intro ε s enc _ h; rw [Session.encode_fst]; exact h
  enqueue := by
    intro ε s enc off len isPub s3 typ _ _ _ h _ _ hr
    rw [Session.encode_fst, Session.alloc_fst] at hr
    unfold Session.retain at hr
    split at hr
    · simp at hr
    · simp at hr; subst hr
      split <;> exact h
  clearPing := by intro s h; exact h
  noteActivity := by intro s now h; exact h
  window := by
    intro s s' n h hw
    unfold Session.window at hw
    split at hw
    · simp at hw
    · rename_i rd k hrw
      simp at hw; rw [← hw.1]
      exact KnownHdr.window h hrw
  commit := by intro s bytes h; exact KnownHdr.commit h bytes
  beginConnect := by intro s _; exact KnownHdr_reset _
  setPid := by intro s n _ _ h; exact h

/-- After every program, from a fresh session. -/
theorem KnownHdr_reachable (cfg : Cfg) (ds : List Directive) :
    (ds.foldl World.execDirective { sess := Session.new cfg }).sess.reader.KnownHdr :=
  run_inv closed_KnownHdr ds { sess := Session.new cfg } (KnownHdr_new cfg.rx)


/-! ## World level: at every `waitRead` suspension the reader is probed -/

/-- If the suspended operation waits in `read_packet`, the reader is probed. -/
def WaitWin (w : World) : Prop :=
  ∀ o d y, w.fut = some (.waitRead o d y) → w.sess.reader.Probed

namespace ReaderReach

theorem ofNone {w : World} (h : w.fut = none) : WaitWin w := by
  intro o d y hf; rw [h] at hf; cases hf

theorem suspend_other {w : World} {pc : Pc} (h : ∀ o d y, pc ≠ .waitRead o d y) :
    WaitWin (w.suspend pc) := by
  intro o d y hf
  have : pc = .waitRead o d y := by simpa [World.suspend] using hf
  exact absurd this (h o d y)

theorem suspend_read {w : World} (o : Outer) (d : Option Nat) (y : Bool) (h : w.sess.reader.Probed) :
    WaitWin (w.suspend (.waitRead o d y)) := fun _ _ _ _ => h

theorem nf_ioWrite {w w' : World} {bs : Bytes} {r : WriteRes} (heq : w.ioWrite bs = (w', r))
    (h : w.fut = none) : w'.fut = none := by
  have := (ioWrite_core w bs).2.2; rw [heq] at this; exact this.trans h

theorem nf_ioFlush {w w' : World} {r : FlushRes} (heq : w.ioFlush = (w', r))
    (h : w.fut = none) : w'.fut = none := by
  have := (ioFlush_core w).2.2; rw [heq] at this; exact this.trans h

theorem nf_ioRead {w w' : World} {n : Nat} {r : ReadRes} (heq : w.ioRead n = (w', r))
    (h : w.fut = none) : w'.fut = none := by
  have := (ioRead_core w n).2.2; rw [heq] at this; exact this.trans h

theorem nf_mqp {w w' : World} {now : Nat} (heq : w.maybeQueuePingreq now = .ok w')
    (h : w.fut = none) : w'.fut = none := by
  unfold World.maybeQueuePingreq at heq
  split at heq
  · simp at heq
  · simp at heq; subst heq; exact h

theorem nf_discFail (w : World) (ctx : StepCtx) (h : w.fut = none) : (w.discFail ctx).fut = none := by
  rw [discFail_fut]; exact h

theorem deliver_nf (w : World) (n : String) (len : Nat) : (w.deliver n len).fut = none := by
  unfold World.deliver
  simp only []
  split
  · exact (foldl_emit_core _ _).2.2.trans rfl
  · rfl

theorem prp_fut (w : World) : (w.processReceivedPacket).1.fut = w.fut := by
  unfold World.processReceivedPacket
  split
  · rfl
  · simp only []
    split
    · rfl
    · split <;> rfl

theorem activate_nf (w : World) (sp : Bool) (block : Bytes) : (World.activate w sp block).fut = none := by
  unfold World.activate
  split <;> rfl

theorem cgp_nf (w : World) : (World.connectGotPacket w).fut = none := by
  unfold World.connectGotPacket
  simp only []
  split
  · rfl
  · split
    · rfl
    · exact activate_nf _ _ _
  · rfl
  · rfl

theorem cancelFut_nf (w : World) : w.cancelFut.fut = none := by
  unfold World.cancelFut
  split
  · rfl
  · rename_i h; simpa using h

/-! ### The thirteen machine functions -/

/-- Entered with nothing suspended, every machine function returns or suspends in a world where a
`waitRead` suspension has a probed reader. -/
def WM (fuel : Nat) : Prop :=
  (∀ w k, w.fut = none → WaitWin (flushLoop fuel w k)) ∧
  (∀ w ctx step now, w.fut = none → WaitWin (performStep fuel w ctx step now)) ∧
  (∀ w ctx pkt bytes wr len now, w.fut = none → WaitWin (doStepWrite fuel w ctx pkt bytes wr len now)) ∧
  (∀ w ctx pkt now, w.fut = none → WaitWin (doStepFlush fuel w ctx pkt now)) ∧
  (∀ w ctx adv, w.fut = none → WaitWin (stepReturned fuel w ctx adv)) ∧
  (∀ w k, w.fut = none → WaitWin (afterFlush fuel w k)) ∧
  (∀ w which bytes, w.fut = none → WaitWin (doLocalWrite fuel w which bytes)) ∧
  (∀ w which, w.fut = none → WaitWin (doLocalFlush fuel w which)) ∧
  (∀ w, w.fut = none → WaitWin (doConnRead fuel w)) ∧
  (∀ w o adv, w.fut = none → WaitWin (driveLoop fuel w o adv)) ∧
  (∀ w o adv, w.fut = none → WaitWin (driveAfterService fuel w o adv)) ∧
  (∀ w o, w.fut = none → WaitWin (driveEnter fuel w o)) ∧
  (∀ w o d y, w.fut = none → WaitWin (doWaitRead fuel w o d y))

theorem wm_zero : WM 0 := by
  refine ⟨?_, ?_, ?_, ?_, ?_, ?_, ?_, ?_, ?_, ?_, ?_, ?_, ?_⟩ <;> intros <;>
    simp only [flushLoop, performStep, doStepWrite, doStepFlush, stepReturned, afterFlush, doLocalWrite, doLocalFlush,
      doConnRead, driveLoop, driveAfterService, driveEnter, doWaitRead] <;> apply ofNone <;> assumption

theorem wstep_stepReturned (fuel : Nat) (ih : WM fuel) :
    ∀ w ctx adv, w.fut = none → WaitWin (stepReturned (fuel + 1) w ctx adv) := by
  intro w ctx adv h
  obtain ⟨i1, _, _, _, _, _, _, _, _, _, i11, _, _⟩ := ih
  cases ctx with
  | flush k => unfold stepReturned; exact i1 _ _ h
  | drive a o => unfold stepReturned; exact i11 _ _ _ h

theorem wstep_doStepFlush (fuel : Nat) (ih : WM fuel) :
    ∀ w ctx pkt now, w.fut = none → WaitWin (doStepFlush (fuel + 1) w ctx pkt now) := by
  intro w ctx pkt now h
  obtain ⟨_, _, _, _, i5, _⟩ := ih
  simp only [doStepFlush]
  split
  · exact suspend_other (by intro _ _ _ e; cases e)
  · exact ofNone rfl
  · rename_i w' heq
    have hf : w'.fut = none := nf_ioFlush heq h
    exact i5 _ _ _ hf

theorem wstep_doStepWrite (fuel : Nat) (ih : WM fuel) :
    ∀ w ctx pkt bytes wr len now, w.fut = none →
      WaitWin (doStepWrite (fuel + 1) w ctx pkt bytes wr len now) := by
  intro w ctx pkt bytes wr len now h
  obtain ⟨_, _, _, i4, i5, _⟩ := ih
  simp only [doStepWrite]
  split
  · exact suspend_other (by intro _ _ _ e; cases e)
  · exact ofNone rfl
  · exact ofNone rfl
  · rename_i w' count heq
    have hf : w'.fut = none := nf_ioWrite heq h
    have h2 : (w'.setWritten pkt (wr + count) len).fut = none := hf
    split
    · exact i5 _ _ _ h2
    · exact i4 _ _ _ _ h2

theorem wstep_performStep (fuel : Nat) (ih : WM fuel) :
    ∀ w ctx step now, w.fut = none → WaitWin (performStep (fuel + 1) w ctx step now) := by
  intro w ctx step now h
  obtain ⟨_, _, i3, i4, i5, _⟩ := ih
  simp only [performStep]
  split
  · exact ofNone rfl
  · exact i5 _ _ _ h
  · split
    · exact ofNone rfl
    · exact i4 _ _ _ _ h
  · split
    · exact ofNone rfl
    · exact i3 _ _ _ _ _ _ _ h

theorem wstep_flushLoop (fuel : Nat) (ih : WM fuel) :
    ∀ w k, w.fut = none → WaitWin (flushLoop (fuel + 1) w k) := by
  intro w k h
  obtain ⟨_, i2, _, _, _, i6, _⟩ := ih
  simp only [flushLoop]
  split
  · exact ofNone rfl
  · rename_i w' heq
    have h' := nf_mqp heq h
    split
    · exact i6 _ _ h'
    · exact i2 _ _ _ _ h'

theorem wstep_driveEnter (fuel : Nat) (ih : WM fuel) :
    ∀ w o, w.fut = none → WaitWin (driveEnter (fuel + 1) w o) := by
  intro w o h
  obtain ⟨_, _, _, _, _, _, _, _, _, i10, _⟩ := ih
  simp only [driveEnter]
  split
  · exact ofNone rfl
  · exact i10 _ _ _ h

theorem wstep_doLocalFlush (fuel : Nat) (ih : WM fuel) :
    ∀ w which, w.fut = none → WaitWin (doLocalFlush (fuel + 1) w which) := by
  intro w which h
  obtain ⟨_, _, _, _, _, _, _, _, i9, _⟩ := ih
  simp only [doLocalFlush]
  split
  · repeat' split
    all_goals exact suspend_other (by intro _ _ _ e; cases e)
  · repeat' split
    all_goals exact ofNone rfl
  · rename_i w' heq
    have hs := nf_ioFlush heq h
    split
    · exact i9 _ hs
    · split <;> exact ofNone rfl

theorem wstep_doLocalWrite (fuel : Nat) (ih : WM fuel) :
    ∀ w which bytes, w.fut = none → WaitWin (doLocalWrite (fuel + 1) w which bytes) := by
  intro w which bytes h
  obtain ⟨_, _, _, _, _, _, i7, i8, _⟩ := ih
  simp only [doLocalWrite]
  split
  · exact i8 _ _ (by rw [discDone_fut]; exact h)
  · split
    · repeat' split
      all_goals exact suspend_other (by intro _ _ _ e; cases e)
    · rename_i w' n heq; exact i7 _ _ _ (nf_ioWrite heq h)
    · repeat' split
      all_goals exact ofNone rfl
    · repeat' split
      all_goals exact ofNone rfl

theorem wstep_doConnRead (fuel : Nat) (ih : WM fuel) :
    ∀ w, w.fut = none → WaitWin (doConnRead (fuel + 1) w) := by
  intro w h
  obtain ⟨_, _, _, _, _, _, _, _, i9, _⟩ := ih
  simp only [doConnRead]
  split
  · exact ofNone (cgp_nf _)
  · split
    · exact ofNone rfl
    · rename_i s1 window hw
      split
      · exact ofNone (cgp_nf _)
      · split
        · exact suspend_other (by intro _ _ _ e; cases e)
        · exact ofNone rfl
        · exact ofNone rfl
        · rename_i w' bytes heq
          have hf : w'.fut = none := nf_ioRead heq h
          exact i9 _ hf

/-- The two suspensions at `waitRead`: both right behind a non-empty window. -/
theorem wstep_doWaitRead (fuel : Nat) (ih : WM fuel) :
    ∀ w o d y, w.fut = none → WaitWin (doWaitRead (fuel + 1) w o d y) := by
  intro w o d y h
  obtain ⟨_, _, _, _, _, _, _, _, _, _, _, i12, i13⟩ := ih
  simp only [doWaitRead]
  split
  · exact i12 _ _ h
  · split
    · exact ofNone rfl
    · rename_i s1 window hw
      split
      · exact i12 _ _ h
      · rename_i hn
        split
        · exact ofNone rfl
        · exact ofNone rfl
        · rename_i w' bytes heq
          have hf : w'.fut = none := nf_ioRead heq h
          exact i13 _ _ _ _ hf
        · rename_i w' heq
          have hf := nf_ioRead heq h
          have hp : w'.sess.reader.Probed := by
            rw [io_read_sess' heq]; exact Probed_of_session_window hw hn
          split
          · exact suspend_read _ _ _ hp
          · split
            · split
              · exact i12 _ _ hf
              · split
                · exact suspend_read _ _ _ hp
                · exact i13 _ _ _ _ hf
            · exact suspend_read _ _ _ hp

theorem wstep_driveLoop (fuel : Nat) (ih : WM fuel) :
    ∀ w o adv, w.fut = none → WaitWin (driveLoop (fuel + 1) w o adv) := by
  intro w o adv h
  obtain ⟨_, i2, _, _, _, _, _, _, _, i10, i11, _, _⟩ := ih
  simp only [driveLoop]
  split
  · have h1 : (w.processReceivedPacket).1.fut = none := (prp_fut w).trans h
    split
    · exact ofNone rfl
    · exact ofNone (deliver_nf _ _ _)
    · rename_i w' heq; rw [heq] at h1; exact i10 _ _ _ h1
  · repeat' split
    all_goals first
      | exact ofNone rfl
      | exact i11 _ _ _ (nf_mqp (by assumption) h)
      | exact i2 _ _ _ _ (nf_mqp (by assumption) h)

theorem wstep_driveAfterService (fuel : Nat) (ih : WM fuel) :
    ∀ w o adv, w.fut = none → WaitWin (driveAfterService (fuel + 1) w o adv) := by
  intro w o adv h
  obtain ⟨_, _, _, _, _, _, _, _, _, i10, _, i12, i13⟩ := ih
  unfold driveAfterService
  split
  · have h1 : (w.processReceivedPacket).1.fut = none := (prp_fut w).trans h
    split
    · exact ofNone rfl
    · exact ofNone (deliver_nf _ _ _)
    · rename_i w' heq; rw [heq] at h1; exact i10 _ _ _ h1
  · split
    · split
      · split
        · exact ofNone rfl
        · exact ofNone rfl
        · exact i12 _ _ h
      · split
        · exact ofNone rfl
        · exact i13 _ _ _ _ h
    · exact i10 _ _ _ h

theorem wstep_afterFlush (fuel : Nat) (ih : WM fuel) :
    ∀ w k, w.fut = none → WaitWin (afterFlush (fuel + 1) w k) := by
  intro w k h
  obtain ⟨i1, _, _, _, _, _, i7, _⟩ := ih
  unfold afterFlush
  cases k with
  | post name op => exact ofNone rfl
  | discPre d =>
    simp only []
    repeat' split
    all_goals first
      | exact ofNone rfl
      | exact i7 _ _ _ h
  | subPre r =>
    simp only []
    repeat' split
    all_goals first
      | exact ofNone rfl
      | exact i1 _ _ h
  | unsubPre r =>
    simp only []
    repeat' split
    all_goals first
      | exact ofNone rfl
      | exact i1 _ _ h
  | publishPre r =>
    simp only []
    repeat' split
    all_goals first
      | exact ofNone rfl
      | exact i1 _ _ h
      | exact i7 _ _ _ h

theorem wm : ∀ fuel, WM fuel := by
  intro fuel
  induction fuel with
  | zero => exact wm_zero
  | succ fuel ih =>
    exact ⟨wstep_flushLoop fuel ih, wstep_performStep fuel ih, wstep_doStepWrite fuel ih,
      wstep_doStepFlush fuel ih, wstep_stepReturned fuel ih, wstep_afterFlush fuel ih,
      wstep_doLocalWrite fuel ih, wstep_doLocalFlush fuel ih, wstep_doConnRead fuel ih,
      wstep_driveLoop fuel ih, wstep_driveAfterService fuel ih, wstep_driveEnter fuel ih,
      wstep_doWaitRead fuel ih⟩

/-! ### `poll`, the directives, programs -/

/-- One POLL, from any world. -/
theorem poll_WaitWin (w : World) : WaitWin (World.poll w) := by
  obtain ⟨_, _, i3, i4, _, _, i7, i8, i9, _, _, _, i13⟩ := wm pollFuel
  unfold World.poll
  simp only []
  split
  · rename_i hn; exact ofNone hn
  · split
    · exact i3 _ _ _ _ _ _ _ rfl
    · exact i4 _ _ _ _ rfl
    · exact i7 _ _ _ rfl
    · exact i8 _ _ rfl
    · exact i9 _ rfl
    · exact i7 _ _ _ rfl
    · exact i8 _ _ rfl
    · exact i7 _ _ _ rfl
    · exact i8 _ _ rfl
    · exact i13 _ _ _ _ rfl

/-- Session and suspended operation untouched. -/
theorem same {w w' : World} (h : WaitWin w) (hs : w'.sess = w.sess) (hf : w'.fut = w.fut) :
    WaitWin w' := by
  intro o d y hf'
  rw [hs]; exact h o d y (hf ▸ hf')

theorem goLoop_WaitWin (n : Nat) (w : World) (h : WaitWin w) : WaitWin (World.goLoop n w) := by
  induction n generalizing w with
  | zero => exact same h rfl rfl
  | succ n ih =>
    simp only [World.goLoop]
    have h1 : WaitWin { (World.poll { w with slot := some 250 }) with slot := none } :=
      same (poll_WaitWin _) rfl rfl
    repeat' split
    all_goals first
      | exact h1
      | exact ih _ h1

theorem startConnect_WaitWin (w : World) : WaitWin (World.startConnect w) := by
  obtain ⟨_, _, _, _, _, _, i7, _⟩ := wm pollFuel
  unfold World.startConnect
  simp only []
  split
  · exact ofNone rfl
  · exact i7 _ _ _ (dropConn_fut w)

theorem startOp_WaitWin (w : World) (name : String) (body : World → World)
    (hb : ∀ w', w'.fut = none → WaitWin (body w')) (h : WaitWin w) : WaitWin (w.startOp name body) := by
  unfold World.startOp
  split
  · exact same h rfl rfl
  · exact hb _ (cancelFut_nf w)

/-- **Every directive keeps it.** -/
theorem exec_WaitWin (w : World) (d : Directive) (h : WaitWin w) : WaitWin (w.execDirective d) := by
  obtain ⟨i1, _, _, _, _, _, _, _, _, _, _, i12, _⟩ := wm pollFuel
  cases d with
  | bad => exact same h rfl rfl
  | connect => exact startConnect_WaitWin w
  | publish r =>
    simp only [World.execDirective]
    apply startOp_WaitWin w _ _ _ h
    intro w' hw'
    split
    · exact ofNone rfl
    · exact i1 _ _ hw'
  | subscribe r =>
    simp only [World.execDirective]
    apply startOp_WaitWin w _ _ _ h
    intro w' hw'
    repeat' split
    all_goals first
      | exact ofNone rfl
      | exact i1 _ _ hw'
  | unsubscribe r =>
    simp only [World.execDirective]
    apply startOp_WaitWin w _ _ _ h
    intro w' hw'
    repeat' split
    all_goals first
      | exact ofNone rfl
      | exact i1 _ _ hw'
  | disconnect dd =>
    simp only [World.execDirective]
    apply startOp_WaitWin w _ _ _ h
    intro w' hw'
    repeat' split
    all_goals first
      | exact ofNone rfl
      | exact i1 _ _ hw'
  | poll =>
    simp only [World.execDirective]
    exact startOp_WaitWin w _ _ (fun w' hw' => i12 _ _ hw') h
  | recv =>
    simp only [World.execDirective]
    exact startOp_WaitWin w _ _ (fun w' hw' => i12 _ _ hw') h
  | drive =>
    simp only [World.execDirective]
    exact startOp_WaitWin w _ _ (fun w' hw' => i12 _ _ hw') h
  | d n =>
    simp only [World.execDirective]
    split
    · exact same h rfl rfl
    · exact same (poll_WaitWin _) rfl rfl
  | go =>
    simp only [World.execDirective]
    split
    · exact same h rfl rfl
    · exact goLoop_WaitWin _ _ h
  | tick us =>
    simp only [World.execDirective]
    split
    · exact same h rfl rfl
    · split
      · exact poll_WaitWin _
      · exact same h rfl rfl
  | rx bytes =>
    simp only [World.execDirective]
    split
    · exact same h rfl rfl
    · exact same h rfl rfl
  | cancel => exact ofNone (cancelFut_nf w)
  | drop => exact ofNone (dropConn_fut w)
  | setpid n =>
    simp only [World.execDirective]
    split
    · exact same h rfl rfl
    · rename_i hn
      simp at hn
      exact ofNone hn.1.1
  | decode bs => exact same h rfl rfl

theorem run_WaitWin (ds : List Directive) (w : World) (h : WaitWin w) :
    WaitWin (ds.foldl World.execDirective w) := by
  induction ds generalizing w with
  | nil => exact h
  | cons d ds ih =>
    simp only [List.foldl]
    exact ih _ (exec_WaitWin w d h)

end ReaderReach

/-- **After every program, from a fresh session: a world suspended in `read_packet` has a probed
reader.** -/
theorem WaitWin_reachable (cfg : Cfg) (ds : List Directive) :
    WaitWin (ds.foldl World.execDirective { sess := Session.new cfg }) :=
  ReaderReach.run_WaitWin ds _ (ReaderReach.ofNone rfl)

/-- **`Waiting'` at every reachable `waitRead` suspension.** -/
theorem waiting'_of_reachable (cfg : Cfg) (ds : List Directive) (outer : Outer) (dl : Option Nat) (y : Bool)
    (hf : (ds.foldl World.execDirective { sess := Session.new cfg }).fut = some (.waitRead outer dl y)) :
    Waiting' (ds.foldl World.execDirective { sess := Session.new cfg }).sess.reader :=
  ⟨WaitWin_reachable cfg ds outer dl y hf, KnownHdr_reachable cfg ds⟩


/-! ## The consumer side: `ReadsOK` / `Admissible` without the reader hypothesis -/

/-- The two reader facts that every reachable world satisfies, as an invariant of worlds (so that it
can be carried along programs that start in an arbitrary world). -/
structure ReadReady (w : World) : Prop where
  win : WaitWin w
  known : w.sess.reader.KnownHdr

theorem ReadReady_init (cfg : Cfg) : ReadReady { sess := Session.new cfg } :=
  ⟨ReaderReach.ofNone rfl, KnownHdr_new cfg.rx⟩

theorem ReadReady.exec {w : World} (h : ReadReady w) (d : Directive) : ReadReady (w.execDirective d) :=
  ⟨ReaderReach.exec_WaitWin w d h.win, execDirective_inv closed_KnownHdr w d h.known⟩

theorem ReadReady.run {w : World} (h : ReadReady w) (ds : List Directive) :
    ReadReady (ds.foldl World.execDirective w) := by
  induction ds generalizing w with
  | nil => exact h
  | cons d ds ih => exact ih (h.exec d)

theorem ReadReady_reachable (cfg : Cfg) (ds : List Directive) :
    ReadReady (ds.foldl World.execDirective { sess := Session.new cfg }) :=
  (ReadReady_init cfg).run ds

/-- Suspended in `read_packet`, the reader is `Waiting` for whatever the transport holds. -/
theorem ReadReady.waiting {w : World} (h : ReadReady w) {outer : Outer} {dl : Option Nat} {y : Bool}
    (hf : w.fut = some (.waitRead outer dl y)) (rx : Bytes) : Waiting w.sess.reader rx :=
  Waiting'.waiting ⟨h.win outer dl y hf, h.known⟩ rx

theorem ReadReady.foldl_d {w : World} (h : ReadReady w) (ks : List Nat) :
    ReadReady (ks.foldl (fun w k => w.execDirective (.d k)) w) := by
  induction ks generalizing w with
  | nil => exact h
  | cons k ks ih => exact ih (h.exec (.d k))

theorem ReadReady.readPacket {w : World} (h : ReadReady w) (ks : List Nat) : ReadReady (readPacket ks w) := by
  obtain ⟨n, _, e⟩ := readPacket_eq_foldl ks w
  rw [e]; exact h.foldl_d _

/-- `ReadsOK` without the reader hypothesis: suspended in `read_packet` before the deadline, bytes to
read, decisions in range and enough of them. -/
def ReadsOK' (w : World) (ks : List Nat) : Prop :=
  ∃ outer dl y, w.fut = some (.waitRead outer dl y) ∧ DeadlineOK w.now dl ∧ w.curNet.rx ≠ [] ∧
    (∀ k ∈ ks, 1 ≤ k ∧ k ≤ 250) ∧ w.curNet.rx.length ≤ ks.length

theorem ReadReady.readsOK {w : World} (h : ReadReady w) {ks : List Nat} (hr : ReadsOK' w ks) : ReadsOK w ks := by
  obtain ⟨outer, dl, y, hf, hdl, hne, hks, hlen⟩ := hr
  exact ⟨outer, dl, y, hf, hdl, h.waiting hf _, hne, hks, hlen⟩

/-- `Admissible` without the reader hypothesis. -/
def Admissible' : World → List Seg → Prop
  | _, [] => True
  | w, .same d :: segs => Admissible' (w.execDirective d) segs
  | w, .reads ks₁ ks₂ :: segs =>
    ReadsOK' w ks₁ ∧ (∀ k ∈ ks₂, 1 ≤ k ∧ k ≤ 250) ∧ w.curNet.rx.length ≤ ks₂.length ∧
      Admissible' (readPacket ks₁ w) segs

theorem ReadReady.admissible : ∀ (segs : List Seg) {w : World}, ReadReady w → Admissible' w segs →
    Admissible w segs := by
  intro segs
  induction segs with
  | nil => intro w _ _; trivial
  | cons sg segs ih =>
    intro w h ha
    cases sg with
    | same d => exact ih (h.exec d) ha
    | reads ks₁ ks₂ =>
      obtain ⟨h1, h2, h3, h4⟩ := ha
      exact ⟨h.readsOK h1, h2, h3, ih (h.readPacket ks₁) h4⟩

/-! ### Decidable forms, for concrete programs (no packet-boundary condition any more) -/

def readsOKb' (w : World) (ks : List Nat) : Bool :=
  (match w.fut with
   | some (.waitRead _ dl _) =>
     (match dl with
      | none => true
      | some d => decide (w.now < d))
   | _ => false) &&
  !w.curNet.rx.isEmpty && ks.all (fun k => decide (1 ≤ k) && decide (k ≤ 250)) &&
  decide (w.curNet.rx.length ≤ ks.length)

theorem readsOK'_of_b {w : World} {ks : List Nat} (h : readsOKb' w ks = true) : ReadsOK' w ks := by
  unfold readsOKb' at h
  simp only [Bool.and_eq_true, decide_eq_true_eq, Bool.not_eq_true', List.all_eq_true] at h
  obtain ⟨⟨⟨hf, hrx⟩, hks⟩, hlen⟩ := h
  cases hfut : w.fut with
  | none => rw [hfut] at hf; cases hf
  | some pc =>
    cases pc with
    | waitRead outer dl y =>
      rw [hfut] at hf
      refine ⟨outer, dl, y, hfut, ?_, ?_, hks, hlen⟩
      · cases dl with
        | none => trivial
        | some d => simpa [DeadlineOK] using hf
      · intro h0; rw [h0] at hrx; cases hrx
    | _ => rw [hfut] at hf; cases hf

def admissibleb' : World → List Seg → Bool
  | _, [] => true
  | w, .same d :: segs => admissibleb' (w.execDirective d) segs
  | w, .reads ks₁ ks₂ :: segs =>
    readsOKb' w ks₁ && ks₂.all (fun k => decide (1 ≤ k) && decide (k ≤ 250)) &&
      decide (w.curNet.rx.length ≤ ks₂.length) && admissibleb' (readPacket ks₁ w) segs

theorem admissible'_of_b : ∀ (segs : List Seg) (w : World), admissibleb' w segs = true → Admissible' w segs := by
  intro segs
  induction segs with
  | nil => intro w _; trivial
  | cons sg segs ih =>
    intro w h
    cases sg with
    | same d => exact ih _ h
    | reads ks₁ ks₂ =>
      simp only [admissibleb', Bool.and_eq_true, decide_eq_true_eq, List.all_eq_true] at h
      obtain ⟨⟨⟨h1, h2⟩, h3⟩, h4⟩ := h
      exact ⟨readsOK'_of_b h1, h2, h3, ih _ h4⟩

end Minimq
