import Minimq.Proofs.Ops
/-
Fuel adequacy of the thirteen machine functions of `Ops.lean` — part 1: the vocabulary.

 * `Call`: a call of one of the thirteen functions without its fuel; `Call.run fuel c` runs it.
 * `wt`, `Call.rank`: the termination measure. One POLL holds at most one I/O decision (`slot`); the
   timer self-wake counter `wakes` is capped at 64; a packet lying in the receive buffer is consumed
   once (`Reader.cls`); within these, each function has a small local position in the loop.
 * `Rel w w'`: what every piece of synchronous code between two calls guarantees about the world:
   the trace only grows and never by the line `"fuel"`; the I/O decision is either still there (then
   the transports are untouched) or has been consumed.
 * facts about the primitives (`ioWrite`, `ioFlush`, `ioRead`, the `Session.*` operations, the
   reader) in this vocabulary.
-/
namespace Minimq
open Gen World
namespace Fuel

/-! ### Calls -/

/-- A call of one of the thirteen machine functions, without the fuel argument. -/
inductive Call where
  | FL (w : World) (k : AfterFlush)
  | PS (w : World) (ctx : StepCtx) (step : Outbound.Step) (now : Nat)
  | DSW (w : World) (ctx : StepCtx) (pkt : Flushed) (bytes : Bytes) (written len now : Nat)
  | DSF (w : World) (ctx : StepCtx) (pkt : Flushed) (now : Nat)
  | SR (w : World) (ctx : StepCtx) (adv : Bool)
  | AF (w : World) (k : AfterFlush)
  | DLW (w : World) (which : Nat) (bytes : Bytes)
  | DLF (w : World) (which : Nat)
  | DCR (w : World)
  | DL (w : World) (outer : Outer) (adv : Bool)
  | DAS (w : World) (outer : Outer) (adv : Bool)
  | DE (w : World) (outer : Outer)
  | DWR (w : World) (outer : Outer) (deadline : Option Nat) (yielded : Bool)

/-- Run a call with the given fuel. -/
def Call.run (fuel : Nat) : Call → World
  | .FL w k => flushLoop fuel w k
  | .PS w ctx step now => performStep fuel w ctx step now
  | .DSW w ctx pkt bytes written len now => doStepWrite fuel w ctx pkt bytes written len now
  | .DSF w ctx pkt now => doStepFlush fuel w ctx pkt now
  | .SR w ctx adv => stepReturned fuel w ctx adv
  | .AF w k => afterFlush fuel w k
  | .DLW w which bytes => doLocalWrite fuel w which bytes
  | .DLF w which => doLocalFlush fuel w which
  | .DCR w => doConnRead fuel w
  | .DL w outer adv => driveLoop fuel w outer adv
  | .DAS w outer adv => driveAfterService fuel w outer adv
  | .DE w outer => driveEnter fuel w outer
  | .DWR w outer deadline yielded => doWaitRead fuel w outer deadline yielded

/-- The world a call starts from. -/
def Call.world : Call → World
  | .FL w _ | .PS w _ _ _ | .DSW w _ _ _ _ _ _ | .DSF w _ _ _ | .SR w _ _ | .AF w _ | .DLW w _ _
  | .DLF w _ | .DCR w | .DL w _ _ | .DAS w _ _ | .DE w _ | .DWR w _ _ _ => w

theorem Call.run_zero (c : Call) : c.run 0 = c.world.emit "fuel" := by
  cases c <;> simp only [Call.run, Call.world, flushLoop, performStep, doStepWrite, doStepFlush, stepReturned,
    afterFlush, doLocalWrite, doLocalFlush, doConnRead, driveLoop, driveAfterService, driveEnter, doWaitRead]

/-! ### The measure -/

/-- 1 when the POLL still holds its I/O decision. -/
def sig : Option Nat → Nat
  | none => 0
  | some _ => 1

/-- The state of the receive buffer as far as the drive loop is concerned: 1 = a complete packet is
known to be there; 2 = it is there but the reader has not yet probed its length (the next
`receive_buffer` offers an empty window); 0 = more bytes are needed. -/
def _root_.Minimq.Reader.cls (r : Reader) : Nat :=
  if r.packetAvailable then 1 else
  match r.receiveWindow with
  | some (_, 0) => 2
  | _ => 0

/-- Weight of a world: I/O decision, remaining timer self-wakes, packet in the buffer. -/
def wt (w : World) : Nat := 20 * sig w.slot + 5 * (63 - w.wakes) + 5 * w.sess.reader.cls

def isPost : AfterFlush → Bool
  | .post _ _ => true
  | _ => false

def isDone : Prepared → Bool
  | .done => true
  | _ => false

/-- The termination measure: an upper bound on the number of calls a call can still make. -/
def Call.rank : Call → Nat
  | .FL w k => wt w + (if isPost k then 3 else 5)
  | .PS w _ step _ => wt w + (if isDone (prepareStep w step) then 9 else 2)
  | .DSW w _ _ _ _ _ _ => wt w + 1
  | .DSF w _ _ _ => wt w + 1
  | .SR w _ _ => wt w + 8
  | .AF w k => wt w + (if isPost k then 1 else 4)
  | .DLW w _ _ => wt w + 2
  | .DLF w which => if which = 0 then wt w + 1 else 1     -- only CONNECT's flush calls on (doConnRead)
  | .DCR w => wt w + 1
  | .DL w _ adv => wt w + (if adv then 6 else 3)
  | .DAS w _ adv =>
    wt w + (if w.sess.data.outbound.nextStep.isNone then (if adv then 5 else 2) else 7)
  | .DE w _ => wt w + 4
  | .DWR w _ _ y => wt w + (if y || w.sess.reader.packetAvailable then 5 else 1)

theorem sig_le (o : Option Nat) : sig o ≤ 1 := by cases o <;> simp [sig]

theorem _root_.Minimq.Reader.cls_le (r : Reader) : r.cls ≤ 2 := by
  unfold Reader.cls
  repeat' split
  all_goals omega

theorem wt_le (w : World) : wt w ≤ 345 := by
  have := sig_le w.slot; have := w.sess.reader.cls_le
  unfold wt; omega

/-- The uniform bound: no call has a rank above 354. -/
theorem Call.rank_le (c : Call) : c.rank ≤ 354 := by
  cases c <;> simp only [Call.rank] <;> (have := wt_le ‹World›; repeat' split) <;> omega

theorem Call.rank_pos (c : Call) : 1 ≤ c.rank := by
  cases c <;> simp only [Call.rank] <;> (repeat' split) <;> omega

/-! ### `Rel`: what the synchronous code does to trace, decision and transports -/

/-- What one I/O call may do to the transports: nothing, or change the current one — by appending
accepted bytes to what is on its wire, or by taking bytes from the front of what it has to deliver. -/
def OneIo (ns ns' : List Net) : Prop :=
  ns' = ns ∨ ∃ net', ns' = ns.dropLast ++ [net'] ∧
    ((net'.rx = (ns.getLast?.getD {}).rx ∧ ∃ acc, net'.wire = (ns.getLast?.getD {}).wire ++ acc) ∨
     (net'.wire = (ns.getLast?.getD {}).wire ∧ ∃ c, net'.rx = (ns.getLast?.getD {}).rx.drop c))

/-- From `w` to `w'` the trace only grew, and not by the line `"fuel"`; the I/O decision is either
untouched (then so are the transports) or it has been consumed, by one I/O call. -/
structure Rel (w w' : World) : Prop where
  quiet : ∃ new, w'.out = new ++ w.out ∧ ∀ l ∈ new, l ≠ "fuel"
  io : (w'.slot = w.slot ∧ w'.nets = w.nets) ∨ (w.slot.isSome = true ∧ w'.slot = none ∧ OneIo w.nets w'.nets)

theorem Rel.refl (w : World) : Rel w w := ⟨⟨[], rfl, by simp⟩, .inl ⟨rfl, rfl⟩⟩

theorem Rel.trans {a b c : World} (h1 : Rel a b) (h2 : Rel b c) : Rel a c := by
  obtain ⟨⟨n1, e1, f1⟩, i1⟩ := h1
  obtain ⟨⟨n2, e2, f2⟩, i2⟩ := h2
  refine ⟨⟨n2 ++ n1, by rw [e2, e1, List.append_assoc], ?_⟩, ?_⟩
  · intro l hl
    rcases List.mem_append.mp hl with h | h
    · exact f2 l h
    · exact f1 l h
  · rcases i1 with ⟨s1, t1⟩ | ⟨s1, t1, u1⟩
    · rcases i2 with ⟨s2, t2⟩ | ⟨s2, t2, u2⟩
      · exact .inl ⟨s2.trans s1, t2.trans t1⟩
      · exact .inr ⟨by rw [← s1]; exact s2, t2, by rw [← t1]; exact u2⟩
    · rcases i2 with ⟨s2, t2⟩ | ⟨s2, _⟩
      · exact .inr ⟨s1, s2.trans t1, by rw [t2]; exact u1⟩
      · rw [t1] at s2; simp at s2

/-- `Rel` looks only at `out`, `slot`, `nets` of its second argument. -/
theorem Rel.of_eq {w a b : World} (h : Rel w a) (ho : b.out = a.out) (hs : b.slot = a.slot) (hn : b.nets = a.nets) :
    Rel w b := by
  obtain ⟨q, i⟩ := h
  exact ⟨by rw [ho]; exact q, by rw [hs, hn]; exact i⟩

theorem Rel.emit {w a : World} (h : Rel w a) (l : String) (hl : l ≠ "fuel") : Rel w (a.emit l) := by
  refine h.trans ⟨⟨[l], rfl, ?_⟩, .inl ⟨rfl, rfl⟩⟩
  intro x hx; simp only [List.mem_singleton] at hx; subst hx; exact hl

/-! ### Trace lines other than `"fuel"` -/

theorem ne_fuel_of_space (s : String) (h : ' ' ∈ s.toList) : s ≠ "fuel" := by
  intro e; subst e; revert h; decide

theorem space_append_left (a c : String) (h : ' ' ∈ a.toList) : ' ' ∈ (a ++ c).toList := by
  rw [String.toList_append]; exact List.mem_append_left _ h

theorem space_append_right (a c : String) (h : ' ' ∈ c.toList) : ' ' ∈ (a ++ c).toList := by
  rw [String.toList_append]; exact List.mem_append_right _ h


theorem msgLines_ne_fuel (topic payload : Bytes) (qos : Nat) (retain : Bool) (block : Bytes) :
    ∀ l ∈ msgLines topic payload qos retain block, l ≠ "fuel" := by
  intro l hl
  apply ne_fuel_of_space
  unfold msgLines at hl
  simp only [List.mem_append, List.mem_cons, List.mem_map, List.not_mem_nil, or_false] at hl
  rcases hl with ((h | h | h) | ⟨⟨tc, cc⟩, _, h⟩) | h <;> subst h <;> simp [toString]

theorem Rel.foldl_emit {w a : World} (ls : List String) (h : Rel w a) (hl : ∀ l ∈ ls, l ≠ "fuel") :
    Rel w (ls.foldl World.emit a) := by
  induction ls generalizing a with
  | nil => exact h
  | cons x xs ih => exact ih (h.emit x (hl x (by simp))) (fun l m => hl l (by simp [m]))

theorem Rel.finish {w a : World} (h : Rel w a) (line : String) : Rel w (a.finish line) :=
  (h.emit (s!"{line} @{a.now}") (by apply ne_fuel_of_space; simp [toString])).of_eq rfl rfl rfl

theorem Rel.finishErr {w a : World} (h : Rel w a) (op : String) (e : Err) : Rel w (a.finishErr op e) :=
  (h.finish _).of_eq rfl rfl rfl

theorem Rel.suspend {w a : World} (h : Rel w a) (pc : Pc) : Rel w (a.suspend pc) := h.of_eq rfl rfl rfl

theorem Rel.handleDisconnect {w a : World} (h : Rel w a) : Rel w a.handleDisconnect := h.of_eq rfl rfl rfl

theorem Rel.discFail {w a : World} (h : Rel w a) (ctx : StepCtx) : Rel w (a.discFail ctx) := by
  rcases discFail_cases a ctx with ⟨e, _⟩ | ⟨e, _⟩ <;> rw [e]
  · exact h
  · exact h.handleDisconnect

theorem Rel.failStep {w a : World} (h : Rel w a) (ctx : StepCtx) (st : Outbound.Step) : Rel w (a.failStep ctx st) := by
  rcases failStep_cases a ctx st with e | e <;> rw [e]
  · exact h
  · exact h.handleDisconnect

theorem Rel.finishOp {w a : World} (h : Rel w a) (name : String) (op : Op) : Rel w (a.finishOp name op) :=
  Rel.finish (a := { a with handles := a.handles ++ [op] }) (h.of_eq rfl rfl rfl) _

theorem Rel.deliver {w a : World} (h : Rel w a) (name : String) (len : Nat) : Rel w (a.deliver name len) := by
  unfold World.deliver
  simp only []
  split
  · exact Rel.foldl_emit _ (h.finish _) (msgLines_ne_fuel _ _ _ _ _)
  · exact (h.finish _).emit _ (by decide)

/-! ### The three I/O calls -/

/-- What any I/O call does: the session and the wake counter are untouched, the decision is gone
afterwards (it was consumed, or there was none). -/
structure IoFacts (w w1 : World) : Prop where
  sess : w1.sess = w.sess
  wakes : w1.wakes = w.wakes
  slot : w1.slot = none
  rel : Rel w w1

theorem line_ne_fuel {l x : String} (hx : ' ' ∈ x.toList) : l ∈ [x] → l ≠ "fuel" := by
  intro hl; simp only [List.mem_singleton] at hl; subst hl; exact ne_fuel_of_space _ hx

theorem ioWrite_facts {w w1 : World} {bs : Bytes} {r : WriteRes} (h : w.ioWrite bs = (w1, r)) :
    IoFacts w w1 ∧ (w.slot = none → r = .pending) := by
  unfold World.ioWrite at h
  cases hs : w.slot with
  | none =>
    rw [hs] at h; simp only [Prod.mk.injEq] at h; obtain ⟨rfl, rfl⟩ := h
    exact ⟨⟨rfl, rfl, hs, ⟨⟨[_], rfl, fun l => line_ne_fuel (by simp [toString])⟩, .inl ⟨rfl, rfl⟩⟩⟩, fun _ => rfl⟩
  | some n =>
    rw [hs] at h; simp only [] at h
    refine ⟨?_, fun h => by simp at h⟩
    split at h
    · simp only [Prod.mk.injEq] at h; obtain ⟨rfl, rfl⟩ := h
      exact ⟨rfl, rfl, rfl, ⟨⟨[_], rfl, fun l => line_ne_fuel (by simp [toString])⟩, .inr ⟨by simp [hs], rfl, by first | exact .inl rfl | exact .inr ⟨_, rfl, .inl ⟨rfl, _, rfl⟩⟩ | exact .inr ⟨_, rfl, .inr ⟨rfl, _, rfl⟩⟩⟩⟩⟩
    · split at h
      · simp only [Prod.mk.injEq] at h; obtain ⟨rfl, rfl⟩ := h
        exact ⟨rfl, rfl, rfl, ⟨⟨[_], rfl, fun l => line_ne_fuel (by simp [toString])⟩, .inr ⟨by simp [hs], rfl, by first | exact .inl rfl | exact .inr ⟨_, rfl, .inl ⟨rfl, _, rfl⟩⟩ | exact .inr ⟨_, rfl, .inr ⟨rfl, _, rfl⟩⟩⟩⟩⟩
      · simp only [Prod.mk.injEq] at h; obtain ⟨rfl, rfl⟩ := h
        exact ⟨rfl, rfl, rfl, ⟨⟨[_], rfl, fun l => line_ne_fuel (by simp [toString])⟩, .inr ⟨by simp [hs], rfl, by first | exact .inl rfl | exact .inr ⟨_, rfl, .inl ⟨rfl, _, rfl⟩⟩ | exact .inr ⟨_, rfl, .inr ⟨rfl, _, rfl⟩⟩⟩⟩⟩

theorem ioFlush_facts {w w1 : World} {r : FlushRes} (h : w.ioFlush = (w1, r)) :
    IoFacts w w1 ∧ (w.slot = none → r = .pending) := by
  unfold World.ioFlush at h
  cases hs : w.slot with
  | none =>
    rw [hs] at h; simp only [Prod.mk.injEq] at h; obtain ⟨rfl, rfl⟩ := h
    exact ⟨⟨rfl, rfl, hs, ⟨⟨[_], rfl, fun l => line_ne_fuel (by simp [toString])⟩, .inl ⟨rfl, rfl⟩⟩⟩, fun _ => rfl⟩
  | some n =>
    rw [hs] at h; simp only [] at h
    refine ⟨?_, fun h => by simp at h⟩
    split at h
    · simp only [Prod.mk.injEq] at h; obtain ⟨rfl, rfl⟩ := h
      exact ⟨rfl, rfl, rfl, ⟨⟨[_], rfl, fun l => line_ne_fuel (by simp [toString])⟩, .inr ⟨by simp [hs], rfl, by first | exact .inl rfl | exact .inr ⟨_, rfl, .inl ⟨rfl, _, rfl⟩⟩ | exact .inr ⟨_, rfl, .inr ⟨rfl, _, rfl⟩⟩⟩⟩⟩
    · simp only [Prod.mk.injEq] at h; obtain ⟨rfl, rfl⟩ := h
      exact ⟨rfl, rfl, rfl, ⟨⟨[_], rfl, fun l => line_ne_fuel (by simp [toString])⟩, .inr ⟨by simp [hs], rfl, by first | exact .inl rfl | exact .inr ⟨_, rfl, .inl ⟨rfl, _, rfl⟩⟩ | exact .inr ⟨_, rfl, .inr ⟨rfl, _, rfl⟩⟩⟩⟩⟩

theorem ioRead_facts {w w1 : World} {n : Nat} {r : ReadRes} (h : w.ioRead n = (w1, r)) :
    IoFacts w w1 ∧ (w.slot = none → r = .pending) := by
  unfold World.ioRead at h
  cases hs : w.slot with
  | none =>
    rw [hs] at h; simp only [Prod.mk.injEq] at h; obtain ⟨rfl, rfl⟩ := h
    exact ⟨⟨rfl, rfl, hs, ⟨⟨[_], rfl, fun l => line_ne_fuel (by simp [toString])⟩, .inl ⟨rfl, rfl⟩⟩⟩, fun _ => rfl⟩
  | some k =>
    rw [hs] at h; simp only [] at h
    refine ⟨?_, fun h => by simp at h⟩
    repeat' split at h
    all_goals
      simp only [Prod.mk.injEq] at h; obtain ⟨rfl, rfl⟩ := h
      exact ⟨rfl, rfl, rfl, ⟨⟨[_], rfl, fun l => line_ne_fuel (by simp [toString])⟩, .inr ⟨by simp [hs], rfl, by first | exact .inl rfl | exact .inr ⟨_, rfl, .inl ⟨rfl, _, rfl⟩⟩ | exact .inr ⟨_, rfl, .inr ⟨rfl, _, rfl⟩⟩⟩⟩⟩

/-! ### Steps that do no I/O -/

/-- A step that neither does I/O nor touches the receive buffer. -/
structure Pure (w w1 : World) : Prop where
  reader : w1.sess.reader = w.sess.reader
  slot : w1.slot = w.slot
  wakes : w1.wakes = w.wakes
  out : w1.out = w.out
  nets : w1.nets = w.nets

theorem Pure.wt {w w1 : World} (h : Pure w w1) : wt w1 = wt w := by
  unfold Fuel.wt; rw [h.reader, h.slot, h.wakes]

theorem Pure.rel {w w1 : World} (h : Pure w w1) : Rel w w1 := (Rel.refl w).of_eq h.out h.slot h.nets

theorem Pure.sess (w : World) (s : Session) (h : s.reader = w.sess.reader) : Pure w { w with sess := s } :=
  ⟨h, rfl, rfl, rfl, rfl⟩

theorem queuePing_reader {s s' : Session} {now : Nat} (h : s.queuePing now = .ok s') : s'.reader = s.reader := by
  unfold Session.queuePing at h
  simp only [] at h
  repeat' split at h
  all_goals first
    | (simp only [Except.ok.injEq] at h; subst h; rfl)
    | (simp at h; done)

theorem maybeQueuePingreq_pure {w w1 : World} {now : Nat} (h : w.maybeQueuePingreq now = .ok w1) : Pure w w1 := by
  unfold World.maybeQueuePingreq at h
  split at h
  · simp at h
  · rename_i s hs
    simp only [Except.ok.injEq] at h; subst h
    exact Pure.sess _ _ (queuePing_reader hs)

theorem retain_reader {s s3 : Session} {id off len : Nat} {b : Bool} (h : s.retain id off len b = some s3) :
    s3.reader = s.reader := by
  unfold Session.retain at h
  split at h
  · simp at h
  · simp only [Option.some.injEq] at h; subst h
    split <;> rfl

@[simp] theorem encode_reader {ε} (s : Session) (enc : Nat → (Nat → Nat → Bytes) → Except ε (Nat × Bytes)) :
    (s.encode enc).1.reader = s.reader := rfl
@[simp] theorem alloc_reader (s : Session) : s.alloc.1.reader = s.reader := rfl
@[simp] theorem setWritten_reader (s : Session) (pkt : Flushed) (a c : Nat) : (s.setWritten pkt a c).reader = s.reader := rfl
@[simp] theorem completeFlush_reader (s : Session) (pkt : Flushed) (now : Nat) : (s.completeFlush pkt now).reader = s.reader := rfl
@[simp] theorem handle_reader (s : Session) (p : Recv) : (s.handle p).1.reader = s.reader := rfl

/-! ### The receive buffer -/

theorem cls_empty (r : Reader) (l : Bytes) :
    ({ r with data := [], packetLength := none, last := l } : Reader).cls = 0 := by
  simp only [Reader.cls, Reader.packetAvailable, Reader.receiveWindow, Reader.probe, Reader.readBytes,
    Option.isNone_none, List.length_nil, Nat.zero_le, if_true]
  split
  · simp at *
  · split
    · rename_i h; by_cases hc : 0 + 1 ≤ r.cap <;> simp [hc] at h
    · rfl

theorem cls_reset (r : Reader) : r.reset.cls = 0 := by
  have := cls_empty r r.last
  exact this

theorem takePkt_cls (s : Session) (h : s.reader.packetAvailable = true) : s.takePkt.1.reader.cls = 0 := by
  unfold Session.takePkt Reader.takePacket
  unfold Reader.packetAvailable at h
  split at h
  · rename_i l hl
    simp only [hl]
    split <;> exact cls_empty _ _
  · simp at h

theorem handleDisconnect_cls (s : Session) : s.handleDisconnect.reader.cls = 0 := cls_reset _

theorem cls_of_available {r : Reader} (h : r.packetAvailable = true) : r.cls = 1 := by
  simp [Reader.cls, h]

theorem available_of_cls_zero {r : Reader} (h : r.cls = 0) : r.packetAvailable = false := by
  cases hp : r.packetAvailable with
  | false => rfl
  | true => rw [cls_of_available hp] at h; omega

/-- Second half of `receive_buffer`, after probing. -/
def _root_.Minimq.Reader.offer (r1 : Reader) : Option (Reader × Nat) :=
  let stop := match r1.packetLength with
    | some l => l
    | none => r1.readBytes + 1
  if stop ≤ r1.cap then some (r1, stop - r1.readBytes) else none

theorem receiveWindow_eq (r : Reader) : r.receiveWindow =
    match (if r.packetLength.isNone then r.probe else some r) with
    | none => none
    | some r1 => r1.offer := rfl

theorem probe_idem {r r1 : Reader} (hn : r.packetLength = none) (h : r.probe = some r1) :
    (if r1.packetLength.isNone then r1.probe else some r1) = some r1 := by
  unfold Reader.probe at h
  split at h
  · simp only [Option.some.injEq] at h; subst h
    simp only [hn, Option.isNone_none, if_true]
    unfold Reader.probe; rw [if_pos (by assumption)]
  · simp only [] at h
    split at h
    · simp at h
    · simp only [Option.some.injEq] at h; subst h
      rename_i h1 h2
      cases hp : probeLen (List.drop 1 r.data) 0 0 with
      | some l => simp
      | none =>
        simp only [Option.isNone_none, if_true]
        unfold Reader.probe
        simp only [Reader.readBytes] at h1 h2 ⊢
        simp only [hp] at h2 ⊢
        simp only [h1, if_false]
        split
        · rename_i h3; exact absurd h3 h2
        · rfl

theorem offer_fst {r r1 : Reader} {n : Nat} (h : r.offer = some (r1, n)) : r1 = r := by
  unfold Reader.offer at h; simp only [] at h
  generalize (match r.packetLength with | some l => l | none => r.readBytes + 1) = stop at h
  by_cases hc : stop ≤ r.cap <;> simp [hc] at h
  exact h.1.symm

theorem receiveWindow_idem {r r1 : Reader} {n : Nat} (h : r.receiveWindow = some (r1, n)) :
    r1.receiveWindow = some (r1, n) ∧ r1.offer = some (r1, n) := by
  rw [receiveWindow_eq] at h
  cases hp : r.packetLength with
  | some l =>
    simp only [hp, Option.isNone_some, Bool.false_eq_true, if_false] at h
    have h1 : r1 = r := offer_fst h
    subst h1
    refine ⟨?_, h⟩
    rw [receiveWindow_eq]; simp only [hp, Option.isNone_some, Bool.false_eq_true, if_false]; exact h
  | none =>
    simp only [hp, Option.isNone_none, if_true] at h
    cases hq : r.probe with
    | none => simp [hq] at h
    | some r2 =>
      simp only [hq] at h
      have h1 : r1 = r2 := offer_fst h
      subst h1
      refine ⟨?_, h⟩
      rw [receiveWindow_eq, probe_idem hp hq]; exact h

theorem offer_available {r r1 : Reader} {n : Nat} (h : r.offer = some (r1, n)) :
    r.packetAvailable = decide (n = 0) := by
  unfold Reader.offer at h; unfold Reader.packetAvailable
  cases hp : r.packetLength with
  | some l =>
    simp only [hp] at h ⊢
    by_cases hc : l ≤ r.cap <;> simp [hc] at h
    obtain ⟨_, rfl⟩ := h
    simp only [ge_iff_le, decide_eq_decide]; omega
  | none =>
    simp only [hp] at h ⊢
    by_cases hc : r.readBytes + 1 ≤ r.cap <;> simp [hc] at h
    obtain ⟨_, rfl⟩ := h
    simp

theorem cls_of_window_eq {r r1 : Reader} {n : Nat} (hpa : r.packetAvailable = false)
    (h : r.receiveWindow = some (r1, n)) : r.cls = if n = 0 then 2 else 0 := by
  unfold Reader.cls
  simp only [hpa, Bool.false_eq_true, if_false, h]
  cases n <;> simp

/-- What `receive_buffer` tells about the buffer: an empty window means the packet is complete;
a non-empty window means that it is not, and asking again gives the same answer. -/
theorem window_facts {r r1 : Reader} {n : Nat} (h : r.receiveWindow = some (r1, n)) :
    (n = 0 → r1.packetAvailable = true) ∧ (n ≠ 0 → r1.cls = 0) ∧
    (r.packetAvailable = false → r.cls = if n = 0 then 2 else 0) := by
  obtain ⟨h1, h2⟩ := receiveWindow_idem h
  have h3 := offer_available h2
  refine ⟨fun hn => by simp [h3, hn], fun hn => ?_, fun hpa => cls_of_window_eq hpa h⟩
  have hpa : r1.packetAvailable = false := by simp [h3, hn]
  rw [cls_of_window_eq hpa h1, if_neg hn]


theorem session_window_facts {s s1 : Session} {n : Nat} (h : s.window = some (s1, n)) :
    (n = 0 → s1.reader.packetAvailable = true) ∧ (n ≠ 0 → s1.reader.cls = 0) ∧
    (s.reader.packetAvailable = false → s.reader.cls = if n = 0 then 2 else 0) := by
  unfold Session.window at h
  split at h
  · simp at h
  · rename_i rd m hw
    simp only [Option.some.injEq, Prod.mk.injEq] at h
    obtain ⟨rfl, rfl⟩ := h
    exact window_facts hw

/-- `process_received_packet` on a buffer that holds a packet: whatever the outcome, the buffer is
empty afterwards, and nothing else of what the measure looks at has changed. -/
theorem processReceivedPacket_facts {w w1 : World} {res : Except Err (Option Nat)}
    (h : w.processReceivedPacket = (w1, res)) (hpa : w.sess.reader.packetAvailable = true) :
    w1.sess.reader.cls = 0 ∧ w1.slot = w.slot ∧ w1.wakes = w.wakes ∧ w1.out = w.out ∧ w1.nets = w.nets := by
  unfold World.processReceivedPacket at h
  rw [hpa] at h
  simp only [Bool.not_true, Bool.false_eq_true, if_false] at h
  have h0 := takePkt_cls w.sess hpa
  split at h
  · simp only [Prod.mk.injEq] at h; obtain ⟨rfl, _⟩ := h
    exact ⟨handleDisconnect_cls _, rfl, rfl, rfl, rfl⟩
  · split at h
    all_goals
      simp only [Prod.mk.injEq] at h; obtain ⟨rfl, _⟩ := h
      first
        | exact ⟨h0, rfl, rfl, rfl, rfl⟩
        | exact ⟨handleDisconnect_cls _, rfl, rfl, rfl, rfl⟩

/-! ### The scheduler never hands out an entry that is already sent -/

def stepState : Outbound.Step → SendState
  | .control _ s => s
  | .release _ _ s => s
  | .retained _ _ _ s => s

theorem matchesPriority_not_sent (b : Bool) : SendState.sent.matchesPriority b = false := by
  cases b <;> rfl

theorem nextStepPrio_state (o : Outbound) (b : Bool) (s : Outbound.Step) (h : o.nextStepPrio b = some s) :
    stepState s ≠ .sent := by
  unfold Outbound.nextStepPrio at h
  intro hs
  cases hc : o.control.find? (fun e => e.state.matchesPriority b) with
  | some e =>
    rw [hc] at h; simp only [Option.some.injEq] at h; subst h
    have := List.find?_some hc
    simp only [stepState] at hs
    simp only [hs, matchesPriority_not_sent] at this
    exact Bool.false_ne_true this
  | none =>
    rw [hc] at h; simp only [] at h
    cases hr : o.release.find? (fun e => e.state.matchesPriority b) with
    | some e =>
      rw [hr] at h; simp only [Option.some.injEq] at h; subst h
      have := List.find?_some hr
      simp only [stepState] at hs
      simp only [hs, matchesPriority_not_sent] at this
      exact Bool.false_ne_true this
    | none =>
      rw [hr] at h; simp only [] at h
      cases ht : o.retained.find? (fun e => e.state.matchesPriority b) with
      | some e =>
        rw [ht] at h; simp only [Option.some.injEq] at h; subst h
        have := List.find?_some ht
        simp only [stepState] at hs
        simp only [hs, matchesPriority_not_sent] at this
        exact Bool.false_ne_true this
      | none => rw [ht] at h; simp at h

theorem nextStep_state (o : Outbound) (s : Outbound.Step) (h : o.nextStep = some s) : stepState s ≠ .sent := by
  unfold Outbound.nextStep at h
  cases h1 : o.nextStepPrio true with
  | some s1 => rw [h1] at h; simp only [Option.some.injEq] at h; subst h; exact nextStepPrio_state o true _ h1
  | none => rw [h1] at h; exact nextStepPrio_state o false s h

/-- `perform_outbound_step` finds nothing to do only for an entry that is already sent. -/
theorem prepareStep_not_done (w : World) (s : Outbound.Step) (h : stepState s ≠ .sent) :
    isDone (prepareStep w s) = false := by
  unfold prepareStep
  cases s with
  | control a st =>
    cases st with
    | sent => exact absurd rfl h
    | flush => rfl
    | write n => simp only []; repeat' split
                 all_goals rfl
  | release id rc st =>
    cases st with
    | sent => exact absurd rfl h
    | flush => rfl
    | write n => simp only []; repeat' split
                 all_goals rfl
  | retained id off len st =>
    cases st with
    | sent => exact absurd rfl h
    | flush => rfl
    | write n => simp only []; repeat' split
                 all_goals rfl

/-- The step the scheduler hands out is never a no-op. -/
theorem nextStep_not_done (w : World) (o : Outbound) (s : Outbound.Step) (h : o.nextStep = some s) :
    isDone (prepareStep w s) = false := prepareStep_not_done w s (nextStep_state o s h)

end Fuel
end Minimq
