import Minimq.Proofs.Packets
import Minimq.Out
/-
The transmit arena (`outbound.rs`): layout invariant, correctness of `compact`, and what each
operation of the arena does to the bytes of the retained packets.
-/
namespace Minimq
open Gen Outbound

/-- One complete MQTT control packet as far as framing goes: a header byte, the canonical
remaining length, and exactly that many bytes. -/
def Framed (bs : Bytes) : Prop :=
  ∃ hdr body, bs = hdr :: (encodeVarint body.length ++ body) ∧ body.length ≤ MQTT_VARINT_MAX

/-- What an encoder handed `cap` bytes of scratch space may return: a non-empty, framed packet that
lies inside them. -/
def EncOk {ε : Type} (enc : Nat → (Nat → Nat → Bytes) → Except ε (Nat × Bytes)) : Prop :=
  ∀ cap view off pkt, (∀ i n, (view i n).length ≤ n) → enc cap view = .ok (off, pkt) →
    off + pkt.length ≤ cap ∧ 0 < pkt.length ∧ Framed pkt

/-- The packets an encoder produces are of type `typ` (high nibble of the first byte). -/
def EncTyp {ε : Type} (enc : Nat → (Nat → Nat → Bytes) → Except ε (Nat × Bytes)) (typ : Nat) : Prop :=
  ∀ cap view off pkt, enc cap view = .ok (off, pkt) → ∃ x rest, pkt = x :: rest ∧ x.toNat / 16 = typ

theorem encodeVarint_length_le (n : Nat) : (encodeVarint n).length ≤ 4 := by
  unfold encodeVarint; repeat' split
  all_goals simp

theorem finalize_bound {w : W} {typ flags off : Nat} {pkt : Bytes} (h : w.finalize typ flags = .ok (off, pkt))
    (hfit : w.body = [] ∨ MAX_FIXED_HEADER_SIZE + w.body.length ≤ w.cap) :
    off + pkt.length ≤ w.cap ∧ 0 < pkt.length ∧ Framed pkt := by
  obtain ⟨f1, f2, f3, f4⟩ := finalize_ok h
  have hv := encodeVarint_length_le w.body.length
  have hvl := encodeVarint_length w.body.length
  have h5 : MAX_FIXED_HEADER_SIZE = 5 := by decide
  refine ⟨?_, ?_, ⟨_, _, f3, f1⟩⟩
  · rw [f3, f4]
    simp only [List.length_cons, List.length_append]
    rcases hfit with h0 | h1
    · rw [h0] at hv hvl ⊢; simp at hv hvl ⊢; omega
    · omega
  · rw [f3]; simp

theorem finalize_typ {w : W} {typ flags off : Nat} {pkt : Bytes} (h : w.finalize typ flags = .ok (off, pkt))
    (ht : typ < 16) : ∃ x rest, pkt = x :: rest ∧ x.toNat / 16 = typ := by
  unfold W.finalize at h
  split at h
  · simp at h
  · split at h
    · simp at h
    · simp only [Except.ok.injEq, Prod.mk.injEq] at h
      refine ⟨_, _, h.2.symm, ?_⟩
      simp only [b, UInt8.toNat_ofNat']
      omega

theorem EncTyp_encodeWithOffset (cs : List (Except SerErr Bytes)) (typ flags : Nat) (ht : typ < 16) :
    EncTyp (fun cap _ => encodeWithOffset cap cs typ flags) typ := by
  intro cap view off pkt h
  simp only [encodeWithOffset] at h
  split at h
  · simp at h
  · exact finalize_typ h ht

theorem EncTyp_encodePublish (h : PublishHeader) (payload : Payload) :
    EncTyp (fun cap fill => encodePublishWithOffset cap h payload fill) MT_Publish := by
  intro cap view off pkt he
  simp only [encodePublishWithOffset] at he
  split at he
  · simp at he
  · split at he
    · simp at he
    · split at he
      · simp at he
      · split at he
        · simp at he
        · rename_i r hr
          simp only [Except.ok.injEq] at he
          subst he
          exact finalize_typ hr (by decide)
    · split at he
      · simp at he
      · split at he
        · simp at he
        · rename_i r hr
          simp only [Except.ok.injEq] at he
          subst he
          exact finalize_typ hr (by decide)

theorem EncOk_encodeWithOffset (cs : List (Except SerErr Bytes)) (typ flags : Nat) :
    EncOk (fun cap _ => encodeWithOffset cap cs typ flags) := by
  intro cap view off pkt _ h
  simp only [encodeWithOffset] at h
  split at h
  · simp at h
  · rename_i w hw
    obtain ⟨bs, _, hbody, hcap, hfits⟩ := pushAll_ok hw
    have := finalize_bound h (by
      rcases hfits with h0 | h1
      · left; rw [hbody, h0]; simp [W.new]
      · right; rw [hcap]; exact h1)
    rw [hcap] at this
    exact this

theorem EncOk_encodeConnect (c : Connect) : EncOk (fun cap _ => encodeConnect cap c) :=
  EncOk_encodeWithOffset _ _ _

theorem EncOk_encodePublish (h : PublishHeader) (payload : Payload) :
    EncOk (fun cap fill => encodePublishWithOffset cap h payload fill) := by
  intro cap view off pkt hv he
  simp only [encodePublishWithOffset] at he
  split at he
  · simp at he
  · rename_i w hw
    obtain ⟨bs, _, hbody, hcap, hfits⟩ := pushAll_ok hw
    have hc : (W.new cap).cap = cap := rfl
    have hb0 : (W.new cap).body = [] := rfl
    rw [hc] at hcap hfits
    rw [hb0, List.nil_append] at hbody
    split at he
    · simp at he
    · rename_i pb
      split at he
      · simp at he
      · rename_i hroom
        split at he
        · simp at he
        · rename_i r hr
          simp only [Except.ok.injEq] at he
          subst he
          have := finalize_bound hr (by
            simp only [W.index] at hroom
            simp only [List.length_append]
            by_cases hp : pb = []
            · subst hp
              rcases hfits with h0 | h1
              · left; rw [hbody, h0]; rfl
              · right; simp; exact hcap ▸ h1
            · right
              have : 0 < pb.length := List.length_pos_iff.mpr hp
              omega)
          simpa [hcap] using this
    · rename_i n
      split at he
      · simp at he
      · rename_i hroom
        split at he
        · simp at he
        · rename_i r hr
          simp only [Except.ok.injEq] at he
          subst he
          have hvl := hv w.index n
          have := finalize_bound hr (by
            simp only [W.index] at hroom hvl
            simp only [List.length_append]
            by_cases hp : view w.index n = []
            · rw [hp]
              rcases hfits with h0 | h1
              · left; rw [hbody, h0]; rfl
              · right; simp; exact hcap ▸ h1
            · right
              have : 0 < (view w.index n).length := List.length_pos_iff.mpr hp
              simp only [W.index] at this ⊢
              omega)
          simpa [hcap] using this
end Minimq
namespace Minimq
open Gen Outbound

theorem getElem?_slice (bs : Bytes) (off n i : Nat) :
    (slice bs off n)[i]? = if i < n then bs[off + i]? else none := by
  simp only [slice, List.getElem?_take, List.getElem?_drop]

theorem getElem?_setRange (bs : Bytes) (off : Nat) (src : Bytes) (i : Nat) (h : off + src.length ≤ bs.length) :
    (setRange bs off src)[i]? =
      if i < off then bs[i]? else if i < off + src.length then src[i - off]? else bs[i]? := by
  simp only [setRange]
  have hl : (bs.take off).length = off := by simp; omega
  by_cases h1 : i < off
  · simp only [h1, if_true]
    rw [List.append_assoc, List.getElem?_append_left (by omega)]
    simp [h1]
  · simp only [h1, if_false]
    rw [List.append_assoc, List.getElem?_append_right (by omega), hl]
    by_cases h2 : i < off + src.length
    · simp only [h2, if_true]
      rw [List.getElem?_append_left (by omega)]
    · simp only [h2, if_false]
      rw [List.getElem?_append_right (by omega), List.getElem?_drop]
      congr 1; omega

theorem length_setRange (bs : Bytes) (off : Nat) (src : Bytes) (h : off + src.length ≤ bs.length) :
    (setRange bs off src).length = bs.length := by
  simp [setRange]; omega

theorem slice_length (bs : Bytes) (off len : Nat) (h : off + len ≤ bs.length) : (slice bs off len).length = len := by
  simp [slice]; omega

theorem slice_setRange_same (bs : Bytes) (off : Nat) (src : Bytes) (h : off + src.length ≤ bs.length) :
    slice (setRange bs off src) off src.length = src := by
  apply List.ext_getElem?
  intro i
  rw [getElem?_slice, getElem?_setRange _ _ _ _ h]
  by_cases hi : i < src.length
  · simp only [hi, if_true]
    rw [if_neg (by omega), if_pos (by omega)]
    congr 1; omega
  · simp only [hi, if_false]
    rw [List.getElem?_eq_none (by omega)]

theorem slice_setRange_right (bs : Bytes) (off : Nat) (src : Bytes) (o2 n : Nat)
    (h : off + src.length ≤ bs.length) (h2 : off + src.length ≤ o2) :
    slice (setRange bs off src) o2 n = slice bs o2 n := by
  apply List.ext_getElem?
  intro i
  rw [getElem?_slice, getElem?_slice, getElem?_setRange _ _ _ _ h]
  split
  · rw [if_neg (by omega), if_neg (by omega)]
  · rfl

theorem slice_setRange_left (bs : Bytes) (off : Nat) (src : Bytes) (o2 n : Nat)
    (h : off + src.length ≤ bs.length) (h2 : o2 + n ≤ off) :
    slice (setRange bs off src) o2 n = slice bs o2 n := by
  apply List.ext_getElem?
  intro i
  rw [getElem?_slice, getElem?_slice, getElem?_setRange _ _ _ _ h]
  split
  · rw [if_pos (by omega)]
  · rfl
end Minimq
namespace Minimq
open Gen Outbound

/-- Entries are in increasing offset order, do not overlap, start at or after `lo`, end within `cap`. -/
def Sorted (lo cap : Nat) : List RetainedPacket → Prop
  | [] => lo ≤ cap
  | e :: es => lo ≤ e.offset ∧ Sorted (e.offset + e.len) cap es

theorem Sorted.le_cap {lo cap : Nat} {es : List RetainedPacket} (h : Sorted lo cap es) : lo ≤ cap := by
  induction es generalizing lo with
  | nil => exact h
  | cons e es ih => have := ih h.2; have := h.1; omega

theorem Sorted.mono {lo lo' cap : Nat} {es : List RetainedPacket} (h : Sorted lo cap es) (hl : lo' ≤ lo) :
    Sorted lo' cap es := by
  cases es with
  | nil => exact Nat.le_trans hl h
  | cons e es => exact ⟨Nat.le_trans hl h.1, h.2⟩

theorem Sorted.mem {lo cap : Nat} {es : List RetainedPacket} (h : Sorted lo cap es) :
    ∀ x ∈ es, lo ≤ x.offset ∧ x.offset + x.len ≤ cap := by
  induction es generalizing lo with
  | nil => intro x hx; simp at hx
  | cons e es ih =>
    intro x hx
    simp only [List.mem_cons] at hx
    rcases hx with rfl | hx
    · exact ⟨h.1, h.2.le_cap⟩
    · have := ih h.2 x hx; exact ⟨by have := h.1; omega, this.2⟩

/-- The bytes of each retained packet, in order. -/
def contents (buf : Bytes) (es : List RetainedPacket) : List Bytes := es.map fun e => slice buf e.offset e.len

theorem contents_congr (buf buf' : Bytes) (es : List RetainedPacket)
    (h : ∀ x ∈ es, slice buf' x.offset x.len = slice buf x.offset x.len) : contents buf' es = contents buf es := by
  simp only [contents]
  exact List.map_congr_left h

/-- **`compact` is correct**: every retained packet keeps its bytes, identifier, length and send state;
the packets end up packed from the cursor on; nothing below the cursor is touched; the buffer keeps its size. -/
theorem compactGo_spec (es : List RetainedPacket) (buf : Bytes) (c cap : Nat)
    (hs : Sorted c cap es) (hb : buf.length = cap) :
    let r := compactGo es buf c
    contents r.2.1 r.1 = contents buf es ∧
    r.1.map (fun e => (e.id, e.len, e.state, e.ser)) = es.map (fun e => (e.id, e.len, e.state, e.ser)) ∧
    Sorted c cap r.1 ∧ r.2.2 = c + (es.map (·.len)).sum ∧ r.2.1.length = cap ∧
    (∀ o n, o + n ≤ c → slice r.2.1 o n = slice buf o n) ∧
    (∀ x ∈ r.1, x.offset + x.len ≤ r.2.2) ∧ r.2.2 ≤ cap := by
  induction es generalizing buf c with
  | nil =>
    simp only [compactGo, contents, List.map_nil, List.sum_nil, Nat.add_zero]
    exact ⟨trivial, trivial, hs, trivial, hb, fun _ _ _ => trivial, by simp, hs⟩
  | cons e es ih =>
    obtain ⟨h1, h2⟩ := hs
    have hend : e.offset + e.len ≤ cap := h2.le_cap
    simp only [compactGo]
    -- the buffer after moving `e` down to the cursor
    generalize hbuf1 : (if e.offset ≠ c then setRange buf c (slice buf e.offset e.len) else buf) = buf1
    have hsl : (slice buf e.offset e.len).length = e.len := slice_length _ _ _ (by omega)
    have hb1 : buf1.length = cap := by
      rw [← hbuf1]; split
      · rw [length_setRange _ _ _ (by omega)]; exact hb
      · exact hb
    have he1 : slice buf1 c e.len = slice buf e.offset e.len := by
      rw [← hbuf1]; split
      · have := slice_setRange_same buf c (slice buf e.offset e.len) (by omega)
        rw [hsl] at this; exact this
      · rename_i hne; simp at hne; rw [hne]
    have htail : ∀ o n, e.offset + e.len ≤ o → slice buf1 o n = slice buf o n := by
      intro o n ho
      rw [← hbuf1]; split
      · exact slice_setRange_right _ _ _ _ _ (by omega) (by omega)
      · rfl
    have hlow : ∀ o n, o + n ≤ c → slice buf1 o n = slice buf o n := by
      intro o n ho
      rw [← hbuf1]; split
      · exact slice_setRange_left _ _ _ _ _ (by omega) ho
      · rfl
    have ih' := ih buf1 (c + e.len) (h2.mono (by omega)) hb1
    simp only [] at ih'
    obtain ⟨i1, i2, i3, i4, i5, i6, i7, i8⟩ := ih'
    refine ⟨?_, ?_, ?_, ?_, i5, ?_, ?_, i8⟩
    · simp only [contents, List.map_cons]
      congr 1
      · rw [i6 c e.len (by omega), he1]
      · have := i1
        simp only [contents] at this
        rw [this]
        exact List.map_congr_left (fun x hx => htail _ _ (h2.mem x hx).1)
    · simp only [List.map_cons]; rw [i2]
    · exact ⟨Nat.le_refl _, i3⟩
    · simp only [List.map_cons, List.sum_cons, i4]; omega
    · intro o n ho
      rw [i6 o n (by omega), hlow o n ho]
    · intro x hx
      simp only [List.mem_cons] at hx
      rcases hx with rfl | hx
      · simp only [i4]; omega
      · exact i7 x hx
end Minimq
namespace Minimq
open Gen Outbound

theorem Sorted.sublist {lo cap : Nat} {es es' : List RetainedPacket} (h : Sorted lo cap es) (hs : es'.Sublist es) :
    Sorted lo cap es' := by
  induction hs generalizing lo with
  | slnil => exact h
  | cons a _ ih => exact ih (h.2.mono (by have := h.1; omega))
  | cons_cons a _ ih => exact ⟨h.1, ih h.2⟩

/-- The arena is laid out sanely: retained packets in increasing offset order without overlap, all
inside `used`, `used` inside the buffer. -/
structure Outbound.ArenaInv (o : Outbound) : Prop where
  sorted : Sorted 0 o.buf.length o.retained
  ends : ∀ x ∈ o.retained, x.offset + x.len ≤ o.used
  used_le : o.used ≤ o.buf.length
  pos : ∀ x ∈ o.retained, 0 < x.len

def Outbound.contents (o : Outbound) : List Bytes := Minimq.contents o.buf o.retained

/-- Identifier, length and send state of every retained packet, in order. -/
def Outbound.meta (o : Outbound) : List (Nat × Nat × SendState × Nat) := o.retained.map fun e => (e.id, e.len, e.state, e.ser)

theorem ArenaInv_new (cap : Nat) : (Outbound.new cap).ArenaInv := by
  constructor <;> simp [Outbound.new, Sorted]

theorem ArenaInv_clear (o : Outbound) (h : o.ArenaInv) : (o.clear).ArenaInv := by
  constructor <;> simp [Outbound.clear, Sorted]

/-- `compact` keeps every packet's bytes, identifier, length and state; afterwards the packets are
packed at the front and `used` is exactly the sum of their lengths. -/
theorem compact_spec (o : Outbound) (h : o.ArenaInv) :
    (o.compact).ArenaInv ∧ (o.compact).contents = o.contents ∧ (o.compact).meta = o.meta ∧
    (o.compact).used = (o.retained.map (·.len)).sum ∧ (o.compact).buf.length = o.buf.length ∧
    (o.compact).release = o.release ∧ (o.compact).control = o.control ∧ (o.compact).nextSer = o.nextSer := by
  have hs := compactGo_spec o.retained o.buf 0 o.buf.length h.sorted rfl
  simp only [] at hs
  obtain ⟨h1, h2, h3, h4, h5, _, h7, h8⟩ := hs
  refine ⟨⟨?_, ?_, ?_, ?_⟩, ?_, ?_, ?_, ?_, rfl, rfl, rfl⟩
  · simp only [compact]; rw [h5]; exact h3
  · simp only [compact]; exact h7
  · simp only [compact]; rw [h5]; exact h8
  · simp only [compact]
    intro x hx
    have hl : (compactGo o.retained o.buf 0).1.map (·.len) = o.retained.map (·.len) := by
      have := congrArg (List.map (fun (t : Nat × Nat × SendState × Nat) => t.2.1)) h2
      rw [List.map_map, List.map_map] at this
      exact this
    have hm : x.len ∈ (compactGo o.retained o.buf 0).1.map (·.len) := List.mem_map.mpr ⟨x, hx, rfl⟩
    rw [hl] at hm
    obtain ⟨y, hy, hyl⟩ := List.mem_map.mp hm
    have := h.pos y hy; omega
  · simp only [Outbound.contents, compact]; exact h1
  · simp only [Outbound.meta, compact]; exact h2
  · simp only [compact]; rw [h4]; simp
  · simp only [compact]; exact h5
end Minimq

namespace Minimq
open Gen Outbound

/-! ### The API keeps the layout and the bytes -/

theorem removeFirst_sublist {α} (p : α → Bool) (l : List α) : (removeFirst p l).Sublist l := by
  induction l with
  | nil => exact List.Sublist.slnil
  | cons x xs ih =>
    simp only [removeFirst]
    split
    · exact List.sublist_cons_self x xs
    · exact List.Sublist.cons_cons x ih

theorem ArenaInv_sub (o : Outbound) (es : List RetainedPacket) (h : o.ArenaInv) (hs : es.Sublist o.retained) :
    ({ o with retained := es } : Outbound).ArenaInv :=
  ⟨h.sorted.sublist hs, fun x hx => h.ends x (hs.subset hx), h.used_le, fun x hx => h.pos x (hs.subset hx)⟩

/-- `ack_packet` removes exactly the first entry with that identifier whose packet is of the
acknowledged kind; every other packet keeps its bytes, identifier, length and send state. -/
theorem ackPacket_spec (o : Outbound) (id : Nat) (k : AckKind) (h : o.ArenaInv) :
    let p := fun (e : RetainedPacket) => e.id == id && k.acknowledges (o.headerAt e.offset)
    (o.ackPacket id k).1.ArenaInv ∧
    ((o.ackPacket id k).2 = true →
      (o.ackPacket id k).1.contents = contents o.buf (removeFirst p o.retained) ∧
      (o.ackPacket id k).1.meta = (removeFirst p o.retained).map (fun e => (e.id, e.len, e.state, e.ser))) ∧
    ((o.ackPacket id k).2 = false → (o.ackPacket id k).1 = o) ∧ (o.ackPacket id k).1.nextSer = o.nextSer ∧
    (o.ackPacket id k).1.buf.length = o.buf.length := by
  intro p
  unfold ackPacket
  simp only []
  split
  · have hi := ArenaInv_sub o (removeFirst p o.retained) h (removeFirst_sublist p _)
    have hc := compact_spec _ hi
    exact ⟨hc.1, fun _ => ⟨hc.2.1, hc.2.2.1⟩, fun hf => by simp at hf, hc.2.2.2.2.2.2.2, hc.2.2.2.2.1⟩
  · exact ⟨h, fun hf => by simp at hf, fun _ => rfl, rfl, rfl⟩

theorem slice_length_le (bs : Bytes) (off n : Nat) : (slice bs off n).length ≤ n := by
  simp [slice]; omega

/-- Encoding into the scratch space behind the retained packets leaves all of them as they were. -/
theorem encodeAt_spec {ε : Type} (o : Outbound) (enc : Nat → (Nat → Nat → Bytes) → Except ε (Nat × Bytes))
    (h : o.ArenaInv) (he : EncOk enc) :
    (o.encodeAt enc).1.ArenaInv ∧ (o.encodeAt enc).1.contents = o.contents ∧
    (o.encodeAt enc).1.meta = o.meta ∧ (o.encodeAt enc).1.used = (o.retained.map (·.len)).sum ∧
    (o.encodeAt enc).1.buf.length = o.buf.length ∧
    (o.encodeAt enc).1.release = o.release ∧ (o.encodeAt enc).1.control = o.control ∧
    (o.encodeAt enc).1.nextSer = o.nextSer ∧
    (∀ off len, (o.encodeAt enc).2 = .ok (off, len) →
      (o.encodeAt enc).1.used ≤ off ∧ off + len ≤ o.buf.length ∧ 0 < len) := by
  obtain ⟨c1, c2, c3, c4, c5, c6, c7, c8⟩ := compact_spec o h
  unfold encodeAt
  simp only []
  generalize hres : enc (o.compact.capacity - o.compact.used)
    (fun idx n => slice o.compact.buf (o.compact.used + idx) n) = res
  cases res with
  | error e => exact ⟨c1, c2, c3, c4, c5, c6, c7, c8, fun _ _ hf => by simp at hf⟩
  | ok r =>
    obtain ⟨off, pkt⟩ := r
    obtain ⟨hb, hp, _⟩ := he _ _ off pkt (fun i n => slice_length_le _ _ _) hres
    have hu := c1.used_le
    simp only [capacity] at hb
    have hfit : o.compact.used + off + pkt.length ≤ o.compact.buf.length := by omega
    have hlen := length_setRange o.compact.buf (o.compact.used + off) pkt hfit
    have hkeep : ∀ x ∈ o.compact.retained,
        slice (setRange o.compact.buf (o.compact.used + off) pkt) x.offset x.len = slice o.compact.buf x.offset x.len := by
      intro x hx
      exact slice_setRange_left _ _ _ _ _ hfit (by have := c1.ends x hx; omega)
    refine ⟨⟨?_, c1.ends, ?_, c1.pos⟩, ?_, c3, c4, ?_, c6, c7, c8, ?_⟩
    · simp only []; rw [hlen]; exact c1.sorted
    · simp only []; rw [hlen]; exact hu
    · simp only [Outbound.contents]
      rw [contents_congr _ _ _ hkeep]; exact c2
    · simp only []; rw [hlen]; exact c5
    · intro off' len' heq
      simp only [Except.ok.injEq, Prod.mk.injEq] at heq
      obtain ⟨rfl, rfl⟩ := heq
      simp only []
      exact ⟨by omega, by omega, hp⟩

theorem Sorted.append {lo cap : Nat} {es : List RetainedPacket} (e : RetainedPacket) (h : Sorted lo cap es)
    (hlo : lo ≤ e.offset) (hpre : ∀ x ∈ es, x.offset + x.len ≤ e.offset) (hend : e.offset + e.len ≤ cap) :
    Sorted lo cap (es ++ [e]) := by
  induction es generalizing lo with
  | nil => exact ⟨hlo, hend⟩
  | cons x xs ih =>
    refine ⟨h.1, ih h.2 (hpre x (by simp)) (fun y hy => hpre y (by simp [hy]))⟩

/-- `retain_packet` of a packet that lies behind `used` appends it and touches nothing else. -/
theorem retainPacket_spec (o o' : Outbound) (id off len : Nat) (h : o.ArenaInv)
    (hoff : o.used ≤ off) (hend : off + len ≤ o.buf.length) (hpos : 0 < len) (hr : o.retainPacket id off len = some o') :
    o'.ArenaInv ∧ o'.contents = o.contents ++ [slice o.buf off len] ∧
    o'.meta = o.meta ++ [(id, len, .write 0, o.nextSer)] ∧ o'.buf = o.buf ∧ o'.release = o.release ∧ o'.control = o.control ∧
    o'.nextSer = o.nextSer + 1 := by
  unfold retainPacket at hr
  split at hr
  · simp at hr
  · simp only [Option.some.injEq] at hr
    subst hr
    refine ⟨⟨?_, ?_, ?_, ?_⟩, ?_, ?_, rfl, rfl, rfl, rfl⟩
    · exact Sorted.append _ h.sorted (Nat.zero_le _) (fun x hx => by have := h.ends x hx; simp only []; omega) hend
    · intro x hx
      simp only [List.mem_append, List.mem_singleton] at hx
      rcases hx with hx | rfl
      · have := h.ends x hx; simp only []; omega
      · simp only []; omega
    · simp only []; have := h.used_le; omega
    · intro x hx
      simp only [List.mem_append, List.mem_singleton] at hx
      rcases hx with hx | rfl
      · exact h.pos x hx
      · exact hpos
    · simp [Outbound.contents, Minimq.contents]
    · simp [Outbound.meta]

end Minimq

namespace Minimq
open Gen Outbound

/-! ### Replay: only the DUP bit of the first byte changes -/

/-- `byte | 1 << 3`. -/
def dupByte (x : UInt8) : UInt8 := b (x.toNat / 16 * 16 + (x.toNat % 16 / 8 * 0 + 8) + x.toNat % 8)

/-- A packet with bit 3 of its first byte set. -/
def setDup : Bytes → Bytes
  | [] => []
  | x :: r => dupByte x :: r

theorem dupByte_idem (x : UInt8) : dupByte (dupByte x) = dupByte x := by
  have := x.toNat_lt
  unfold dupByte
  congr 1
  simp only [b, UInt8.toNat_ofNat']
  omega

theorem getElem?_orDupAt (buf : Bytes) (off i : Nat) :
    (orDupAt buf off)[i]? = if i = off then buf[i]?.map dupByte else buf[i]? := by
  unfold orDupAt
  cases h : buf[off]? with
  | none =>
    simp only []
    split
    · rename_i he; subst he; simp [h]
    · rfl
  | some x =>
    simp only []
    rw [List.getElem?_set]
    by_cases he : off = i
    · subst he
      have hl : off < buf.length := by
        rcases Nat.lt_or_ge off buf.length with hl | hl
        · exact hl
        · rw [List.getElem?_eq_none hl] at h; simp at h
      have hx : buf[off] = x := by
        rw [List.getElem?_eq_getElem hl] at h; simpa using h
      simp [hl, hx, dupByte]
    · rw [if_neg he, if_neg (fun h' => he h'.symm)]

theorem length_orDupAt (buf : Bytes) (off : Nat) : (orDupAt buf off).length = buf.length := by
  unfold orDupAt; split <;> simp

theorem foldl_orDupAt (es : List RetainedPacket) (buf : Bytes) :
    (es.foldl (fun buf e => orDupAt buf e.offset) buf).length = buf.length ∧
    ∀ i, (es.foldl (fun buf e => orDupAt buf e.offset) buf)[i]? =
      if es.any (fun e => e.offset == i) then buf[i]?.map dupByte else buf[i]? := by
  induction es generalizing buf with
  | nil => simp
  | cons e es ih =>
    simp only [List.foldl_cons]
    obtain ⟨l, g⟩ := ih (orDupAt buf e.offset)
    refine ⟨by rw [l, length_orDupAt], ?_⟩
    intro i
    rw [g i, getElem?_orDupAt]
    simp only [List.any_cons]
    by_cases h1 : i = e.offset
    · subst h1
      simp only [beq_self_eq_true, Bool.true_or, if_true]
      split
      · cases buf[e.offset]? with
        | none => rfl
        | some x => simp [dupByte_idem]
      · rfl
    · have : (e.offset == i) = false := by simp; omega
      simp only [h1, this, if_false, Bool.false_or]

theorem Sorted.disjoint {lo cap : Nat} {es : List RetainedPacket} (h : Sorted lo cap es) :
    ∀ x ∈ es, ∀ y ∈ es, y.offset + y.len ≤ x.offset ∨ x.offset + x.len ≤ y.offset ∨ x.offset = y.offset := by
  induction es generalizing lo with
  | nil => intro x hx; simp at hx
  | cons e es ih =>
    intro x hx y hy
    simp only [List.mem_cons] at hx hy
    rcases hx with rfl | hx <;> rcases hy with rfl | hy
    · exact Or.inr (Or.inr rfl)
    · exact Or.inr (Or.inl (h.2.mem y hy).1)
    · exact Or.inl (h.2.mem x hx).1
    · exact ih h.2 x hx y hy

theorem getElem?_setDup (l : Bytes) (i : Nat) : (setDup l)[i]? = if i = 0 then l[i]?.map dupByte else l[i]? := by
  cases l with
  | nil => simp [setDup]
  | cons x r =>
    cases i with
    | zero => simp [setDup]
    | succ i => simp [setDup]

/-- `mark_retained_dup` sets bit 3 of the first byte of every retained packet and changes nothing else
in any of them. -/
theorem markRetainedDup_spec (o : Outbound) (h : o.ArenaInv) :
    (o.markRetainedDup).contents = o.contents.map setDup ∧ (o.markRetainedDup).buf.length = o.buf.length := by
  obtain ⟨l, g⟩ := foldl_orDupAt o.retained o.buf
  refine ⟨?_, l⟩
  simp only [Outbound.contents, markRetainedDup, contents, List.map_map]
  apply List.map_congr_left
  intro x hx
  simp only [Function.comp]
  apply List.ext_getElem?
  intro i
  rw [getElem?_slice, getElem?_setDup, getElem?_slice, g]
  by_cases hi : i < x.len
  · simp only [hi, if_true]
    by_cases h0 : i = 0
    · subst h0
      have : o.retained.any (fun e => e.offset == x.offset + 0) = true := by
        rw [List.any_eq_true]; exact ⟨x, hx, by simp⟩
      rw [this]; simp
    · have : o.retained.any (fun e => e.offset == x.offset + i) = false := by
        rw [List.any_eq_false]
        intro y hy
        have hd := h.sorted.disjoint x hx y hy
        have hp := h.pos y hy
        simp only [beq_iff_eq]
        omega
      rw [this]; simp [h0]
  · simp only [hi, if_false]
    split <;> rfl

/-- `arm_replay` keeps the layout and changes, in the retained packets, only the DUP bit. -/
theorem armReplay_spec (o : Outbound) (h : o.ArenaInv) :
    (o.armReplay).ArenaInv ∧
    ((o.armReplay).contents = o.contents.map setDup ∨ ((o.armReplay) = o ∧ o.retained = [])) ∧
    (o.armReplay).retained.map (fun e => (e.id, e.len, e.ser)) = o.retained.map (fun e => (e.id, e.len, e.ser)) ∧
    (o.armReplay).used = o.used ∧ (o.armReplay).buf.length = o.buf.length ∧ (o.armReplay).nextSer = o.nextSer := by
  unfold armReplay
  split
  · rename_i hq
    refine ⟨h, Or.inr ⟨rfl, ?_⟩, rfl, rfl, rfl, rfl⟩
    simp [hasPendingState] at hq
    exact hq.1.2
  · obtain ⟨hc, hl⟩ := markRetainedDup_spec o h
    have hl' : (o.markRetainedDup).buf.length = o.buf.length := hl
    refine ⟨⟨?_, ?_, ?_, ?_⟩, Or.inl ?_, ?_, rfl, hl, rfl⟩
    · simp only []
      rw [hl']
      have : ∀ (lo : Nat) (es : List RetainedPacket), Sorted lo o.buf.length es →
          Sorted lo o.buf.length (es.map fun e => { e with state := SendState.write 0 }) := by
        intro lo es; induction es generalizing lo with
        | nil => exact id
        | cons e es ih => intro hs; exact ⟨hs.1, ih _ hs.2⟩
      exact this _ _ h.sorted
    · intro x hx
      simp only [markRetainedDup, List.mem_map] at hx
      obtain ⟨y, hy, rfl⟩ := hx
      exact h.ends y hy
    · simp only []; rw [hl']; exact h.used_le
    · intro x hx
      simp only [markRetainedDup, List.mem_map] at hx
      obtain ⟨y, hy, rfl⟩ := hx
      exact h.pos y hy
    · rw [← hc]
      simp [Outbound.contents, contents, markRetainedDup, List.map_map, Function.comp]
    · simp [markRetainedDup, List.map_map, Function.comp]

end Minimq
