import Minimq.Proofs.Exchange
import Minimq.Proofs.SessionFacts
/-
The ghost serials of the release queue. `queue_release` gives every new release entry the next value
of the ghost counter `Outbound.nextRser` (`PendingRelease.rser`) and records the serial of the retained
PUBLISH whose PUBREC created it (`PendingRelease.pser`). Nothing else writes these fields.

`RelInv`: along the release queue the serials strictly increase and stay below the counter. It is
preserved by every primitive (`closed_RelInv`).
-/
namespace Minimq
open Gen World Outbound

/-- Ghost serial, origin serial, identifier and reason code of every release entry, oldest first. -/
def Outbound.relTags (o : Outbound) : List (Nat × Nat × Nat × Nat) := o.release.map fun e => (e.rser, e.pser, e.id, e.rc)

/-- The serials of the release entries, oldest first. -/
def Outbound.rsers (o : Outbound) : List Nat := o.release.map (·.rser)

theorem rsers_eq_relTags (o : Outbound) : o.rsers = o.relTags.map (·.1) := by
  simp [Outbound.rsers, Outbound.relTags, Function.comp_def]

/-- The release entries are the same up to their send states, and so is the counter. -/
structure RelSame (o o' : Outbound) : Prop where
  tags : o'.relTags = o.relTags
  next : o'.nextRser = o.nextRser

theorem RelSame.refl (o : Outbound) : RelSame o o := ⟨rfl, rfl⟩

theorem RelSame.of_eq {o o' : Outbound} (hr : o'.release = o.release) (hn : o'.nextRser = o.nextRser) : RelSame o o' :=
  ⟨by simp [Outbound.relTags, hr], hn⟩

theorem RelSame.trans {a b c : Outbound} (h1 : RelSame a b) (h2 : RelSame b c) : RelSame a c :=
  ⟨h2.tags.trans h1.tags, h2.next.trans h1.next⟩

theorem RelSame.releaseState (o : Outbound) (p : PendingRelease → Bool) (st : SendState) :
    RelSame o { o with release := modifyFirst p (fun e => { e with state := st }) o.release } :=
  ⟨modifyFirst_map p (fun e => { e with state := st }) (fun e => (e.rser, e.pser, e.id, e.rc)) (fun _ => rfl) o.release, rfl⟩

theorem RelSame.armReplay (o : Outbound) : RelSame o o.armReplay := by
  unfold Outbound.armReplay
  split
  · exact RelSame.refl _
  · exact ⟨by simp [Outbound.relTags, markRetainedDup, Function.comp_def], rfl⟩

theorem RelSame.rearm (o : Outbound) : RelSame o o.rearm := by
  have := RelSame.armReplay o.dropPingreq
  exact ⟨this.tags, this.next⟩

theorem encodeAt_nextRser {ε : Type} (o : Outbound) (enc : Nat → (Nat → Nat → Bytes) → Except ε (Nat × Bytes)) :
    (o.encodeAt enc).1.nextRser = o.nextRser := by
  unfold encodeAt
  simp only []
  split <;> rfl

theorem RelSame.encodeAt {ε : Type} (o : Outbound) (enc : Nat → (Nat → Nat → Bytes) → Except ε (Nat × Bytes)) :
    RelSame o (o.encodeAt enc).1 :=
  RelSame.of_eq (encodeAt_frame o enc).2.1 (encodeAt_nextRser o enc)

theorem RelSame.retainPacket {o o' : Outbound} {id off len : Nat} (h : o.retainPacket id off len = some o') : RelSame o o' := by
  obtain ⟨_, rfl⟩ := retainPacket_some h
  exact RelSame.of_eq rfl rfl

/-- Every primitive step leaves the release entries (up to send states) and the counter alone, or
handles an inbound packet, or is the CONNACK of a fresh broker session. -/
theorem SessStep.relFrame {s s' : Session} (st : SessStep s s') :
    RelSame s.data.outbound s'.data.outbound ∨ (∃ p, s' = (s.handle p).1) ∨
    (∃ block now, s' = (s.activate false block now).1) := by
  cases st
  case queuePing now hq =>
    left
    rcases Session.queuePing_ok hq with rfl | ⟨o, ho, rfl⟩
    · exact RelSame.refl _
    · rw [queueControl_eq] at ho
      split at ho
      · simp only [Option.some.injEq] at ho; subst ho
        exact RelSame.of_eq rfl rfl
      · simp at ho
  case completeFlush pkt now =>
    left
    simp only [Session.completeFlush, Session.setOutbound]
    cases pkt <;> simp only []
    · exact RelSame.of_eq rfl rfl
    · exact RelSame.releaseState _ _ _
    · exact RelSame.of_eq rfl rfl
  case setWritten pkt a c =>
    left
    simp only [Session.setWritten, Session.setOutbound]
    cases pkt <;> simp only []
    · exact RelSame.of_eq rfl rfl
    · exact RelSame.releaseState _ _ _
    · exact RelSame.of_eq rfl rfl
  case takePkt => left; rw [(Session.takePkt_data s).1]; exact RelSame.refl _
  case handle p => exact Or.inr (Or.inl ⟨p, rfl⟩)
  case handleDisconnect => left; exact RelSame.rearm _
  case activate sp block now =>
    cases sp
    · exact Or.inr (Or.inr ⟨block, now, rfl⟩)
    · left
      unfold Session.activate
      simp only [Bool.not_true, Bool.false_eq_true, if_false]
      split
      · exact RelSame.rearm _
      · exact RelSame.refl _
  case alloc => left; rw [Session.alloc_fst]; simp only []; rw [nextPacketId_outbound]; exact RelSame.refl _
  case encode ε enc he => left; rw [Session.encode_fst]; exact RelSame.encodeAt _ _
  case encodeAfterAlloc ε enc he =>
    left
    rw [Session.encode_fst, Session.alloc_fst]
    simp only [Session.setOutbound]
    rw [nextPacketId_outbound]; exact RelSame.encodeAt _ _
  case enqueue ε enc off len isPub typ he ht hpub hq hres hr =>
    left
    rw [Session.encode_fst, Session.alloc_fst, Session.alloc_snd] at hr
    unfold Session.retain at hr
    split at hr
    · simp at hr
    · rename_i o ho
      simp only [Session.setOutbound] at ho
      rw [nextPacketId_outbound] at ho
      have hq : RelSame s.data.outbound o := (RelSame.encodeAt _ enc).trans (RelSame.retainPacket ho)
      simp only [Option.some.injEq] at hr
      subst hr
      split <;> exact hq
  case clearPing => left; exact RelSame.refl _
  case noteActivity now => left; exact RelSame.refl _
  case window n hw =>
    left
    unfold Session.window at hw
    split at hw
    · simp at hw
    · simp only [Option.some.injEq, Prod.mk.injEq] at hw; rw [← hw.1]; exact RelSame.refl _
  case commit bytes => left; exact RelSame.refl _
  case beginConnect => left; exact RelSame.rearm _
  case setPid n h1 h2 => left; exact RelSame.refl _

/-! ### Inbound packets -/

/-- The condition under which a PUBREC creates a release entry. -/
def SessionData.pubrecCreates (d : SessionData) (r : Runtime) (id : Nat) (rs : ReasonIn) : Bool :=
  d.awaits id .pubRec && reasonSuccess rs.rc && !r.packetTooLarge 5 && decide (d.outbound.release.length < MAX_PENDING_RELEASE)

/-- The ghost counter moves exactly when a PUBREC creates a release entry. -/
theorem handlePacket_nextRser (d : SessionData) (r : Runtime) (p : Recv) :
    (handlePacket d r p).1.outbound.nextRser =
      match p with
      | .pubRec id rs => if d.pubrecCreates r id rs then d.outbound.nextRser + 1 else d.outbound.nextRser
      | _ => d.outbound.nextRser := by
  by_cases hc : ∃ id rs, p = .pubComp id rs
  · obtain ⟨id, rs, rfl⟩ := hc
    rw [handlePacket_pubComp]
    simp only []
    split <;> rfl
  · cases hp : p.ackOf with
    | none =>
      have := (handlePacket_onlyControl d r p hp (fun id rs h => hc ⟨id, rs, h⟩)).1
      have hrel : (handlePacket d r p).1.outbound.nextRser = d.outbound.nextRser := by
        rcases this with h | ⟨a, h⟩ <;> rw [h]
      rw [hrel]
      cases p <;> first | exact absurd ⟨_, _, rfl⟩ hc | rfl | (simp [Recv.ackOf] at hp; done)
    | some ik =>
      cases p with
      | subAck i props codes =>
        rw [handlePacket_subAck]; simp only []; split
        · exact ackPacket_nextRser _ _ _
        · rfl
      | unsubAck i props codes =>
        rw [handlePacket_unsubAck]; simp only []; split
        · exact ackPacket_nextRser _ _ _
        · rfl
      | pubAck i rs =>
        rw [handlePacket_pubAck]; simp only []; split
        · exact ackPacket_nextRser _ _ _
        · rfl
      | pubRec i rs =>
        rw [handlePacket_pubRec]
        simp only [SessionData.pubrecCreates]
        have hn : (d.acked i .pubRec).outbound.nextRser = d.outbound.nextRser := ackPacket_nextRser _ _ _
        by_cases h1 : d.awaits i .pubRec = true
        · by_cases h2 : reasonSuccess rs.rc = true
          · by_cases h3 : r.packetTooLarge 5 = true
            · simp [h1, h2, h3, hn]
            · by_cases h4 : d.outbound.release.length < MAX_PENDING_RELEASE
              · simp [h1, h2, h3, h4, SessionData.withRelease, hn]
              · simp [h1, h2, h3, h4, hn]
          · simp [h1, h2, hn]
        · simp only [h1, Bool.false_eq_true, if_false, Bool.false_and]
          split <;> rfl
      | _ => simp [Recv.ackOf] at hp

/-! ### The invariant -/

/-- Along the release queue the ghost serials strictly increase, and they are below the counter. -/
structure Outbound.RelInv (o : Outbound) : Prop where
  inc : o.rsers.Pairwise (· < ·)
  lt : ∀ e ∈ o.release, e.rser < o.nextRser

theorem RelInv_of_same {o o' : Outbound} (h : o.RelInv) (hs : RelSame o o') : o'.RelInv := by
  have hr : o'.rsers = o.rsers := by rw [rsers_eq_relTags, rsers_eq_relTags, hs.tags]
  refine ⟨by rw [hr]; exact h.inc, ?_⟩
  intro e he
  have : e.rser ∈ o'.rsers := List.mem_map.mpr ⟨e, he, rfl⟩
  rw [hr] at this
  obtain ⟨e0, he0, h0⟩ := List.mem_map.mp this
  rw [hs.next, ← h0]; exact h.lt e0 he0

theorem RelInv_handlePacket (d : SessionData) (r : Runtime) (p : Recv) (h : d.outbound.RelInv) :
    (handlePacket d r p).1.outbound.RelInv := by
  have hrel := handlePacket_release d r p
  have hnext := handlePacket_nextRser d r p
  cases p with
  | pubRec id rs =>
    simp only [] at hrel hnext
    have hc : d.pubrecCreates r id rs = (d.awaits id .pubRec && reasonSuccess rs.rc && !r.packetTooLarge 5 &&
        decide (d.outbound.release.length < MAX_PENDING_RELEASE)) := rfl
    rw [← hc] at hrel
    cases hcr : d.pubrecCreates r id rs with
    | false =>
      rw [hcr] at hrel hnext
      simp only [Bool.false_eq_true, if_false] at hrel hnext
      exact RelInv_of_same h (RelSame.of_eq hrel hnext)
    | true =>
      rw [hcr] at hrel hnext
      simp only [if_true] at hrel hnext
      refine ⟨?_, ?_⟩
      · simp only [Outbound.rsers, hrel, List.map_append, List.map_cons, List.map_nil, List.pairwise_append]
        refine ⟨h.inc, by simp, ?_⟩
        intro a ha c hcm
        simp only [List.mem_singleton] at hcm; subst hcm
        obtain ⟨e, he, rfl⟩ := List.mem_map.mp ha
        exact h.lt e he
      · intro e he
        rw [hrel] at he
        rw [hnext]
        rcases List.mem_append.mp he with hm | hm
        · exact Nat.lt_succ_of_lt (h.lt e hm)
        · simp only [List.mem_singleton] at hm; subst hm; exact Nat.lt_succ_self _
  | pubComp id rs =>
    simp only [] at hrel hnext
    have hsub : (handlePacket d r (.pubComp id rs)).1.outbound.release.Sublist d.outbound.release := by
      rw [hrel]; exact removeFirst_sublist _ _
    exact ⟨h.inc.sublist (hsub.map _), fun e he => by rw [hnext]; exact h.lt e (hsub.subset he)⟩
  | connAck sp rc props => exact RelInv_of_same h (RelSame.of_eq hrel hnext)
  | pingResp => exact RelInv_of_same h (RelSame.of_eq hrel hnext)
  | disconnect rc props => exact RelInv_of_same h (RelSame.of_eq hrel hnext)
  | subAck id props codes => exact RelInv_of_same h (RelSame.of_eq hrel hnext)
  | unsubAck id props codes => exact RelInv_of_same h (RelSame.of_eq hrel hnext)
  | pubAck id rs => exact RelInv_of_same h (RelSame.of_eq hrel hnext)
  | pubRel id rs => exact RelInv_of_same h (RelSame.of_eq hrel hnext)
  | publish topic id props payload retain qos dup => exact RelInv_of_same h (RelSame.of_eq hrel hnext)

def RelP (s : Session) : Prop := s.data.outbound.RelInv

theorem closed_RelP : Closed RelP :=
  Closed.of_step (fun s s' st h => by
    rcases st.relFrame with hs | ⟨p, rfl⟩ | ⟨block, now, rfl⟩
    · exact RelInv_of_same h hs
    · show (s.handle p).1.data.outbound.RelInv
      rw [Session.handle_fst_data]; exact RelInv_handlePacket _ _ _ h
    · have hd := activate_false_data s block now
      simp only [] at hd
      exact ⟨by simp [Outbound.rsers, hd.2.2.2.1], by intro e he; rw [hd.2.2.2.1] at he; simp at he⟩)

theorem RelP_new (cfg : Cfg) : RelP (Session.new cfg) :=
  ⟨by simp [Outbound.rsers, Session.new, Outbound.new], by intro e he; simp [Session.new, Outbound.new] at he⟩

end Minimq
