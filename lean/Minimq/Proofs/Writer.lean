import Minimq.Proofs.SpecProps
/-
The serializer with a bounded buffer (`ser/mod.rs`) against the unbounded concatenation of chunks.
-/
namespace Minimq
open Gen

/-! ### The bounded writer agrees with the unbounded concatenation -/

theorem push_fit (w : W) (x : Bytes) (h : MAX_FIXED_HEADER_SIZE + w.body.length + x.length ≤ w.cap) :
    w.push x = .ok { w with body := w.body ++ x } := by
  unfold W.push W.index
  split
  · omega
  · rfl

theorem push_inv {w w' : W} {x : Bytes} (h : w.push x = .ok w') :
    w' = { w with body := w.body ++ x } ∧ (x = [] ∨ MAX_FIXED_HEADER_SIZE + w.body.length + x.length ≤ w.cap) := by
  unfold W.push W.index at h
  split at h
  · simp at h
  · rename_i hh
    simp at h
    refine ⟨h.symm, ?_⟩
    by_cases hx : x = []
    · exact Or.inl hx
    · right
      have : 0 < x.length := List.length_pos_iff.mpr hx
      omega

theorem pushAll_ok {w w' : W} {cs : List (Except SerErr Bytes)} (h : w.pushAll cs = .ok w') :
    ∃ bs, catChunks cs = .ok bs ∧ w'.body = w.body ++ bs ∧ w'.cap = w.cap ∧
      (bs = [] ∨ MAX_FIXED_HEADER_SIZE + w'.body.length ≤ w.cap) := by
  induction cs generalizing w with
  | nil => simp [W.pushAll] at h; subst h; exact ⟨[], rfl, by simp, rfl, Or.inl rfl⟩
  | cons c cs ih =>
    simp only [W.pushAll] at h
    cases c with
    | error e => simp [W.pushE] at h
    | ok x =>
      simp only [W.pushE] at h
      cases hp : w.push x with
      | error e => rw [hp] at h; simp at h
      | ok w1 =>
        rw [hp] at h
        simp only [] at h
        obtain ⟨hw1, hfit⟩ := push_inv hp
        obtain ⟨bs, hbs, hbody, hcap, hfits⟩ := ih h
        subst hw1
        simp only [] at hbody hcap hfits
        refine ⟨x ++ bs, by simp [catChunks, hbs], by simp [hbody], hcap, ?_⟩
        rcases hfits with h0 | h1
        · subst h0
          rcases hfit with hx | hx
          · left; simp [hx]
          · right; rw [hbody]; simp; omega
        · right; exact h1

theorem pushAll_complete {w : W} {cs : List (Except SerErr Bytes)} {bs : Bytes}
    (h : catChunks cs = .ok bs) (hfit : MAX_FIXED_HEADER_SIZE + w.body.length + bs.length ≤ w.cap) :
    w.pushAll cs = .ok { w with body := w.body ++ bs } := by
  induction cs generalizing w bs with
  | nil => simp [catChunks] at h; subst h; simp [W.pushAll]
  | cons c cs ih =>
    obtain ⟨x, r, hx, hr, ho⟩ := catChunks_cons h
    subst hx ho
    simp at hfit
    simp only [W.pushAll, W.pushE]
    rw [push_fit w x (by omega)]
    simp only []
    rw [ih hr (by simp; omega)]
    simp

/-- An encoder never produces output when a chunk cannot be produced: the result is an error,
nothing else (no truncation). -/
theorem pushAll_error_of_chunk_error {w : W} {cs : List (Except SerErr Bytes)} {e : SerErr}
    (h : catChunks cs = .error e) : ∃ e', w.pushAll cs = .error e' := by
  induction cs generalizing w e with
  | nil => simp [catChunks] at h
  | cons c cs ih =>
    cases c with
    | error e0 => exact ⟨e0, by simp [W.pushAll, W.pushE]⟩
    | ok x =>
      simp only [catChunks] at h
      split at h
      · simp at h
      · rename_i e1 he1
        simp only [W.pushAll, W.pushE]
        cases hp : w.push x with
        | error e2 => exact ⟨e2, rfl⟩
        | ok w1 => exact ih he1

/-- `encode_with_offset` succeeds only when every chunk can be produced, the body fits behind the
reserved header and its length is a legal remaining length; the packet is then header, remaining
length, body — and the returned offset is where it starts in the buffer. -/
theorem encodeWithOffset_ok {cap : Nat} {cs : List (Except SerErr Bytes)} {typ flags off : Nat} {pkt : Bytes}
    (h : encodeWithOffset cap cs typ flags = .ok (off, pkt)) :
    ∃ body, catChunks cs = .ok body ∧ MAX_FIXED_HEADER_SIZE + body.length ≤ cap ∧
      body.length ≤ MQTT_VARINT_MAX ∧
      pkt = b (typ * 16 + flags % 16) :: (encodeVarint body.length ++ body) ∧
      off = MAX_FIXED_HEADER_SIZE - varintLen body.length - 1 := by
  unfold encodeWithOffset at h
  cases hw : (W.new cap).pushAll cs with
  | error e => rw [hw] at h; simp at h
  | ok w =>
    rw [hw] at h
    simp only [] at h
    obtain ⟨bs, hbs, hbody, hcap, hfits⟩ := pushAll_ok hw
    simp only [W.new, List.nil_append] at hbody hcap hfits
    unfold W.finalize writeVarint at h
    by_cases hmax : w.body.length > MQTT_VARINT_MAX
    · rw [if_pos hmax] at h; simp at h
    · rw [if_neg hmax] at h
      simp only [] at h
      by_cases hc : w.cap < MAX_FIXED_HEADER_SIZE
      · rw [if_pos hc] at h; simp at h
      · rw [if_neg hc] at h
        simp at h
        obtain ⟨h1, h2⟩ := h
        refine ⟨bs, hbs, ?_, by rw [hbody] at hmax; omega, by rw [← h2, hbody], by rw [← h1, hbody, encodeVarint_length]⟩
        rcases hfits with h0 | h1'
        · subst h0; simp; rw [hcap] at hc; omega
        · rw [hbody] at h1'; exact h1'

theorem encodeWithOffset_complete {cap : Nat} {cs : List (Except SerErr Bytes)} {typ flags : Nat} {body : Bytes}
    (hb : catChunks cs = .ok body) (hfit : MAX_FIXED_HEADER_SIZE + body.length ≤ cap)
    (hmax : body.length ≤ MQTT_VARINT_MAX) :
    encodeWithOffset cap cs typ flags =
      .ok (MAX_FIXED_HEADER_SIZE - varintLen body.length - 1,
           b (typ * 16 + flags % 16) :: (encodeVarint body.length ++ body)) := by
  unfold encodeWithOffset
  rw [pushAll_complete hb (by simp [W.new]; omega)]
  have e1 : ({ W.new cap with body := (W.new cap).body ++ body } : W) = { cap := cap, body := body } := by
    simp [W.new]
  rw [e1]
  simp only [W.finalize, writeVarint]
  split
  · rename_i hh; split at hh
    · omega
    · simp at hh
  · rename_i rl hh
    split at hh
    · omega
    · simp at hh; subst hh
      split
      · omega
      · simp [encodeVarint_length]
end Minimq
