import Minimq.Varint
/-
Round-trip laws of the variable byte integer codec (`src/varint.rs`).
-/
namespace Minimq
@[simp] theorem b_toNat (n : Nat) : (b n).toNat = n % 256 := by
  simp [b, UInt8.toNat_ofNat']
theorem MAXV : Gen.MQTT_VARINT_MAX = 268435455 := by decide

theorem encodeVarint_length (n : Nat) : (encodeVarint n).length = varintLen n := by
  unfold encodeVarint varintLen Gen.varintLen
  repeat' split
  all_goals simp
  all_goals omega

theorem decode_encode_varint (n : Nat) (r : Bytes) (h : n ≤ Gen.MQTT_VARINT_MAX) :
    decodeVarint (encodeVarint n ++ r) = some (n, r) := by
  rw [MAXV] at h
  unfold encodeVarint
  split
  · simp only [decodeVarint, List.cons_append, List.nil_append, b_toNat]
    rw [if_pos (by omega)]
    congr 2; omega
  · split
    · simp only [decodeVarint, List.cons_append, List.nil_append, b_toNat]
      rw [if_neg (by omega), if_pos (by omega), if_neg (by omega)]
      congr 2; omega
    · split
      · simp only [decodeVarint, List.cons_append, List.nil_append, b_toNat]
        rw [if_neg (by omega), if_neg (by omega), if_pos (by omega), if_neg (by omega)]
        congr 2; omega
      · simp only [decodeVarint, List.cons_append, List.nil_append, b_toNat]
        rw [if_neg (by omega), if_neg (by omega), if_neg (by omega), if_pos (by omega), if_neg (by omega)]
        congr 2; omega
theorem b_of_toNat (x : UInt8) (m : Nat) (h : x.toNat = m) : x = b m := by
  subst h; simp [b]

theorem toNat_lt (x : UInt8) : x.toNat < 256 := x.toNat_lt

/-- The decoder only accepts the canonical encoding: what it accepts is exactly what the encoder
writes for the decoded value, and the value is within the MQTT range. -/
theorem decodeVarint_canonical (bs r : Bytes) (n : Nat) (h : decodeVarint bs = some (n, r)) :
    bs = encodeVarint n ++ r ∧ n ≤ Gen.MQTT_VARINT_MAX := by
  rw [MAXV]
  unfold decodeVarint at h
  split at h
  · simp at h
  · rename_i b0 r0
    have hb0 := toNat_lt b0
    split at h
    · simp at h; obtain ⟨h1, h2⟩ := h; subst h2
      unfold encodeVarint
      rw [if_pos (by omega)]
      exact ⟨by simp [b_of_toNat b0 n h1], by omega⟩
    · split at h
      · simp at h
      · rename_i b1 r1
        have hb1 := toNat_lt b1
        split at h
        · split at h
          · simp at h
          · simp at h; obtain ⟨h1, h2⟩ := h; subst h2
            unfold encodeVarint
            rw [if_neg (by omega), if_pos (by omega)]
            refine ⟨?_, by omega⟩
            simp
            exact ⟨b_of_toNat b0 _ (by omega), b_of_toNat b1 _ (by omega)⟩
        · split at h
          · simp at h
          · rename_i b2 r2
            have hb2 := toNat_lt b2
            split at h
            · split at h
              · simp at h
              · simp at h; obtain ⟨h1, h2⟩ := h; subst h2
                unfold encodeVarint
                rw [if_neg (by omega), if_neg (by omega), if_pos (by omega)]
                refine ⟨?_, by omega⟩
                simp
                exact ⟨b_of_toNat b0 _ (by omega), b_of_toNat b1 _ (by omega), b_of_toNat b2 _ (by omega)⟩
            · split at h
              · simp at h
              · rename_i b3 r3
                have hb3 := toNat_lt b3
                split at h
                · split at h
                  · simp at h
                  · simp at h; obtain ⟨h1, h2⟩ := h; subst h2
                    unfold encodeVarint
                    rw [if_neg (by omega), if_neg (by omega), if_neg (by omega)]
                    refine ⟨?_, by omega⟩
                    simp
                    exact ⟨b_of_toNat b0 _ (by omega), b_of_toNat b1 _ (by omega), b_of_toNat b2 _ (by omega), b_of_toNat b3 _ (by omega)⟩
                · simp at h
end Minimq
