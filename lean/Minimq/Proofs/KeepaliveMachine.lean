import Minimq.Proofs.ConnectMachine
import Minimq.Proofs.NoSpin
/-
Keep-alive at the level of the machine (whole `World`, virtual time, I/O decisions): what a `tick`
does to an operation waiting in `wait_for_progress`; the service pass when nothing is to be done, when
a PINGREQ is due, when the ping timeout has expired; the write and the flush decision of the PINGREQ;
the arrival of the PINGRESP. For `Theorems/C10Machine.lean`.
-/

namespace Minimq
open Gen World Outbound

/-! ## The drive loop, one call at a time (any fuel) -/

theorem de_live (fuel : Nat) (w : World) (outer : Outer) (h : w.live = true) :
    driveEnter (fuel + 1) w outer = driveLoop fuel w outer false := by
  simp only [driveEnter, h, Bool.not_true, Bool.false_eq_true, if_false]

theorem das_wait (fuel : Nat) (w : World) (outer : Outer) (ho : outer ≠ .drive)
    (hna : w.sess.reader.packetAvailable = false) (hn : w.sess.data.outbound.nextStep = none) :
    driveAfterService (fuel + 1) w outer false = doWaitRead fuel w outer w.sess.rt.nextDeadline false := by
  cases outer with
  | drive => exact absurd rfl ho
  | poll =>
    unfold driveAfterService
    simp only [hna, Bool.false_eq_true, if_false, hn, Option.isNone_none, if_true]
  | recv =>
    unfold driveAfterService
    simp only [hna, Bool.false_eq_true, if_false, hn, Option.isNone_none, if_true]

theorem das_advanced_poll (fuel : Nat) (w : World)
    (hna : w.sess.reader.packetAvailable = false) (hn : w.sess.data.outbound.nextStep = none) :
    driveAfterService (fuel + 1) w .poll true = w.finish "ret poll ok none" := by
  unfold driveAfterService
  simp only [hna, Bool.false_eq_true, if_false, hn, Option.isNone_none, if_true]

theorem das_advanced_recv (fuel : Nat) (w : World)
    (hna : w.sess.reader.packetAvailable = false) (hn : w.sess.data.outbound.nextStep = none) :
    driveAfterService (fuel + 1) w .recv true = driveEnter fuel w .recv := by
  unfold driveAfterService
  simp only [hna, Bool.false_eq_true, if_false, hn, Option.isNone_none, if_true]

theorem ps_write (fuel : Nat) (w : World) (ctx : StepCtx) (step : Outbound.Step) (now : Nat) (pkt : Flushed)
    (bytes : Bytes) (wr len : Nat) (hp : prepareStep w step = .write pkt bytes wr len) (hl : w.live = true) :
    performStep (fuel + 1) w ctx step now = doStepWrite fuel w ctx pkt bytes wr len now := by
  rw [performStep]
  simp only [hp, hl, Bool.not_true, Bool.false_eq_true, if_false]

theorem dsw_pending (fuel : Nat) (w : World) (ctx : StepCtx) (pkt : Flushed) (bytes : Bytes) (wr len now : Nat)
    (hs : w.slot = none) :
    doStepWrite (fuel + 1) w ctx pkt bytes wr len now =
      ({ (w.emit s!"wp {w.netIdx}") with lastIoStarved := false } : World).suspend (.stepWrite ctx pkt bytes wr len now) := by
  rw [doStepWrite, ioWrite_none _ _ hs]

/-- The write decision accepts everything that is left: the entry moves to `Flush`, the packet is
logged, and `flush_current` runs. -/
theorem dsw_all (fuel : Nat) (w : World) (ctx : StepCtx) (pkt : Flushed) (bytes : Bytes) (wr len now k : Nat)
    (hs : w.slot = some k) (hk : k ≤ 250) (hall : len ≤ wr + wcount k (bytes.drop wr).length) :
    doStepWrite (fuel + 1) w ctx pkt bytes wr len now =
      doStepFlush fuel ((w.wrote k (bytes.drop wr)).setWritten pkt (wr + wcount k (bytes.drop wr).length) len) ctx pkt now := by
  rw [doStepWrite, ioWrite_some _ _ k hs hk]
  simp only []
  rw [if_neg (by omega)]

theorem dsf_pending (fuel : Nat) (w : World) (ctx : StepCtx) (pkt : Flushed) (now : Nat) (hs : w.slot = none) :
    doStepFlush (fuel + 1) w ctx pkt now =
      ({ (w.emit s!"fp {w.netIdx}") with lastIoStarved := false } : World).suspend (.stepFlush ctx pkt now) := by
  rw [doStepFlush, ioFlush_none _ hs]

theorem dsf_ok (fuel : Nat) (w : World) (ctx : StepCtx) (pkt : Flushed) (now k : Nat) (hs : w.slot = some k) (hk : k ≤ 251) :
    doStepFlush (fuel + 1) w ctx pkt now =
      stepReturned fuel (((({ w with slot := none, lastIoStarved := false } : World).emit
        s!"f {w.netIdx} ok @{w.now}")).completeFlush pkt now) ctx true := by
  rw [doStepFlush, ioFlush_some _ k hs hk]

theorem sr_drive (fuel : Nat) (w : World) (adv : Bool) (outer : Outer) (a : Bool) :
    stepReturned (fuel + 1) w (.drive adv outer) a = driveAfterService fuel w outer (adv || a) := by
  rw [stepReturned]

/-- The timer of `wait_for_progress` has fired (the read is still pending): back to the top of
`drive_packet`. -/
theorem dwr_fired (fuel : Nat) (w : World) (outer : Outer) (d : Nat) (r1 : Reader)
    (n : Nat) (hna : w.sess.reader.packetAvailable = false)
    (hw : w.sess.reader.receiveWindow = some (r1, n)) (hn : n ≠ 0) (hs : w.slot = none) (hd : d ≤ w.now) :
    doWaitRead (fuel + 1) w outer (some d) true =
      driveEnter fuel ({ (({ w with sess := { w.sess with reader := r1 } } : World).emit s!"rp {w.netIdx}") with
          lastIoStarved := false } : World) outer := by
  have hio := ioRead_none ({ w with sess := { w.sess with reader := r1 } } : World) n hs
  simp only [doWaitRead, hna, Bool.false_eq_true, if_false, session_window_of hw, if_neg hn]
  rw [hio]
  simp only []
  split
  · simp only [if_true]; rfl
  · rename_i h; exact absurd (show w.now ≥ d from hd) h

theorem execDirective_tick (W : World) (us : Nat) (hb : W.now + us ≤ 4611686018427387904) (hf : W.fut.isSome = true) :
    W.execDirective (.tick us) = World.poll { W with now := W.now + us } := by
  simp only [World.execDirective]
  rw [if_neg (by omega)]
  simp only [hf, if_true]

theorem poll_stepWrite (w : World) (ctx : StepCtx) (pkt : Flushed) (bytes : Bytes) (wr len now : Nat)
    (h : w.fut = some (.stepWrite ctx pkt bytes wr len now)) :
    World.poll w = doStepWrite pollFuel w.pollBase ctx pkt bytes wr len now := by
  unfold World.poll; simp only [h]; rfl

theorem poll_stepFlush (w : World) (ctx : StepCtx) (pkt : Flushed) (now : Nat)
    (h : w.fut = some (.stepFlush ctx pkt now)) :
    World.poll w = doStepFlush pollFuel w.pollBase ctx pkt now := by
  unfold World.poll; simp only [h]; rfl
end Minimq

namespace Minimq
open Gen World Outbound

/-! ## One POLL of an operation waiting in `wait_for_progress` -/

theorem poll_tick_base (W : World) (us : Nat) : ({ W with now := W.now + us } : World).pollBase.now = W.now + us := rfl

/-- A tick that does not reach the deadline: the read is still pending, the operation stays
suspended in the same read; only the clock (and the trace) changed. -/
theorem tick_waits (W : World) (outer : Outer) (dl : Option Nat) (y : Bool) (us : Nat)
    (hfut : W.fut = some (.waitRead outer dl y)) (hslot : W.slot = none)
    (hwait : Waiting W.sess.reader W.curNet.rx) (hb : W.now + us ≤ 4611686018427387904)
    (hdl : DeadlineOK (W.now + us) dl) :
    W.execDirective (.tick us) =
      ({ ((({ W with now := W.now + us } : World).pollBase).emit s!"rp {W.netIdx}") with lastIoStarved := false } : World).suspend
        (.waitRead outer dl true) := by
  obtain ⟨n, hn, hw⟩ := hwait.win
  rw [execDirective_tick W us hb (by simp [hfut])]
  rw [poll_waitRead { W with now := W.now + us } outer dl y hfut]
  rw [show pollFuel = 3999 + 1 from rfl]
  rw [dwr_pending 3999 (({ W with now := W.now + us } : World).pollBase) outer dl y W.sess.reader n hwait.notAvail hw hn hslot hdl]
  rfl

/-- A tick that reaches the deadline: the timer fires and `drive_packet` starts over. -/
theorem tick_fires (W : World) (outer : Outer) (d : Nat) (us : Nat)
    (hfut : W.fut = some (.waitRead outer (some d) true)) (hslot : W.slot = none)
    (hwait : Waiting W.sess.reader W.curNet.rx) (hb : W.now + us ≤ 4611686018427387904)
    (hd : d ≤ W.now + us) :
    W.execDirective (.tick us) =
      driveEnter 3999
        ({ ((({ W with now := W.now + us } : World).pollBase).emit s!"rp {W.netIdx}") with lastIoStarved := false } : World)
        outer := by
  obtain ⟨n, hn, hw⟩ := hwait.win
  rw [execDirective_tick W us hb (by simp [hfut])]
  rw [poll_waitRead { W with now := W.now + us } outer (some d) true hfut]
  rw [show pollFuel = 3999 + 1 from rfl]
  rw [dwr_fired 3999 (({ W with now := W.now + us } : World).pollBase) outer d W.sess.reader n hwait.notAvail hw hn hslot hd]
  rfl

/-! ### The service pass when nothing is to be done, and when a PINGREQ is due -/

theorem maybeQueuePingreq_same (w : World) (now : Nat) (h : w.sess.queuePing now = .ok w.sess) :
    w.maybeQueuePingreq now = .ok w := by
  unfold World.maybeQueuePingreq; rw [h]

/-- Nothing to do: `service` neither closes nor queues, nothing is to be sent, and `wait_for_progress`
suspends in the read with the (fresh) deadline `next_deadline()`. -/
theorem driveLoop_idle (fuel : Nat) (W : World) (outer : Outer) (ho : outer ≠ .drive)
    (hwait : Waiting W.sess.reader W.curNet.rx) (hslot : W.slot = none)
    (hto : ∀ t, W.sess.rt.pingTimeout = some t → W.now < t)
    (hq : W.sess.queuePing W.now = .ok W.sess) (hn : W.sess.data.outbound.nextStep = none) :
    driveLoop (fuel + 3) W outer false =
      ({ (W.emit s!"rp {W.netIdx}") with lastIoStarved := false } : World).suspend
        (.waitRead outer W.sess.rt.nextDeadline true) := by
  obtain ⟨n, hnz, hw⟩ := hwait.win
  have hmq := maybeQueuePingreq_same W W.now hq
  have hfresh : DeadlineOK W.now W.sess.rt.nextDeadline := by
    cases hpt : W.sess.rt.pingTimeout with
    | some t => rw [NoSpin.nextDeadline_of_timeout _ t hpt]; exact hto t hpt
    | none =>
      rw [NoSpin.nextDeadline_no_timeout _ hpt]
      cases hnp : W.sess.rt.nextPing with
      | none => trivial
      | some np => exact (NoSpin.queuePing_served W.sess W.sess W.now hq hn).2 hpt np hnp
  rw [driveLoop_no_timeout (fuel + 2) W outer false hwait.notAvail hto, hmq]
  simp only [hn]
  rw [das_wait (fuel + 1) W outer ho hwait.notAvail hn]
  rw [dwr_pending fuel W outer _ false W.sess.reader n hwait.notAvail hw hnz hslot hfresh]
end Minimq

namespace Minimq
open Gen World Outbound

theorem nextStep_none_prio (o : Outbound) (h : o.nextStep = none) (b : Bool) : o.nextStepPrio b = none := by
  unfold Outbound.nextStep at h
  cases ht : o.nextStepPrio true with
  | some s => rw [ht] at h; cases h
  | none =>
    rw [ht] at h
    cases b
    · exact h
    · exact ht

theorem nextStep_none_finds (o : Outbound) (h : o.nextStep = none) (b : Bool) :
    o.control.find? (fun e => e.state.matchesPriority b) = none ∧
    o.release.find? (fun e => e.state.matchesPriority b) = none ∧
    o.retained.find? (fun e => e.state.matchesPriority b) = none := by
  have hp := nextStep_none_prio o h b
  unfold Outbound.nextStepPrio at hp
  cases h1 : o.control.find? (fun e => e.state.matchesPriority b) with
  | some e => rw [h1] at hp; cases hp
  | none =>
    rw [h1] at hp
    cases h2 : o.release.find? (fun e => e.state.matchesPriority b) with
    | some e => rw [h2] at hp; cases hp
    | none =>
      rw [h2] at hp
      cases h3 : o.retained.find? (fun e => e.state.matchesPriority b) with
      | some e => rw [h3] at hp; cases hp
      | none => exact ⟨rfl, rfl, rfl⟩

/-- `next_step` only looks at the three queues. -/
theorem nextStep_congr {o o' : Outbound} (h1 : o'.control = o.control) (h2 : o'.release = o.release)
    (h3 : o'.retained = o.retained) : o'.nextStep = o.nextStep := by
  unfold Outbound.nextStep Outbound.nextStepPrio
  rw [h1, h2, h3]

/-- With nothing else to send, a freshly queued PINGREQ is what `next_step` hands out. -/
theorem nextStep_ping (o : Outbound) (h : o.nextStep = none) :
    ({ o with control := [{ action := ControlAction.pingReq, state := .write 0 }] } : Outbound).nextStep =
      some (.control ControlAction.pingReq (.write 0)) := by
  obtain ⟨_, r1, t1⟩ := nextStep_none_finds o h true
  obtain ⟨_, r2, t2⟩ := nextStep_none_finds o h false
  unfold Outbound.nextStep Outbound.nextStepPrio
  simp only [r1, t1, r2, t2]
  simp [List.find?, SendState.matchesPriority, SendState.isInProgress, SendState.isFresh]

theorem hasPendingPingreq_nil (o : Outbound) (h : o.control = []) : o.hasPendingPingreq = false := by
  unfold Outbound.hasPendingPingreq; rw [h]; rfl

/-- The session with a PINGREQ queued (into an empty control queue). -/
def Session.withPing (s : Session) : Session :=
  s.setOutbound { s.data.outbound with control := [{ action := ControlAction.pingReq, state := .write 0 }] }

theorem queuePing_due (s : Session) (now np : Nat) (hpt : s.rt.pingTimeout = none) (hnp : s.rt.nextPing = some np)
    (hle : np ≤ now) (hctl : s.data.outbound.control = []) (hsz : s.rt.packetTooLarge 2 = false) :
    s.queuePing now = .ok s.withPing := by
  have hw : s.pingWanted now := ⟨hpt, ⟨np, hnp, hle⟩, hasPendingPingreq_nil _ hctl⟩
  have := ((queuePing_spec s now).2 hw).2.2 hsz (by rw [hctl]; decide)
  rw [this, hctl]; rfl

theorem prepareStep_ping (w : World) (hsz : w.sess.rt.packetTooLarge 2 = false) :
    prepareStep w (.control ControlAction.pingReq (.write 0)) =
      .write (.control ControlAction.pingReq) [b 0xC0, b 0] 0 2 := by
  unfold prepareStep
  simp only [encodeControl_pingReq]
  show (if w.sess.rt.packetTooLarge 2 = true then _ else _) = _
  rw [hsz]; rfl

/-- **The service pass when a PINGREQ is due** (no timeout running, none pending, nothing else to
send): the PINGREQ is queued, handed out by `next_step`, and its write is pending. -/
theorem driveLoop_ping_due (fuel : Nat) (W : World) (outer : Outer) (adv : Bool)
    (hna : W.sess.reader.packetAvailable = false) (hslot : W.slot = none) (hlive : W.live = true)
    (hpt : W.sess.rt.pingTimeout = none) (np : Nat) (hnp : W.sess.rt.nextPing = some np) (hle : np ≤ W.now)
    (hn : W.sess.data.outbound.nextStep = none) (hctl : W.sess.data.outbound.control = [])
    (hsz : W.sess.rt.packetTooLarge 2 = false) :
    driveLoop (fuel + 3) W outer adv =
      ({ ((({ W with sess := W.sess.withPing } : World)).emit s!"wp {W.netIdx}") with lastIoStarved := false } : World).suspend
        (.stepWrite (.drive adv outer) (.control ControlAction.pingReq) [b 0xC0, b 0] 0 2 W.now) := by
  have hq := queuePing_due W.sess W.now np hpt hnp hle hctl hsz
  have hmq : W.maybeQueuePingreq W.now = .ok { W with sess := W.sess.withPing } := by
    unfold World.maybeQueuePingreq; rw [hq]
  rw [driveLoop_no_timeout (fuel + 2) W outer adv hna (by intro t ht; rw [hpt] at ht; cases ht), hmq]
  have hns : ({ W with sess := W.sess.withPing } : World).sess.data.outbound.nextStep =
      some (.control ControlAction.pingReq (.write 0)) := nextStep_ping _ hn
  simp only [hns]
  rw [ps_write (fuel + 1) ({ W with sess := W.sess.withPing } : World) _ _ _ _ _ _ _ (prepareStep_ping _ hsz) hlive]
  rw [dsw_pending fuel ({ W with sess := W.sess.withPing } : World) _ _ _ _ _ _ hslot]
  rfl
end Minimq

namespace Minimq
open Gen World Outbound

/-- The PINGREQ bytes. -/
def pingBytes : Bytes := [b 0xC0, b 0]

/-- A write decision of at least two bytes on the suspended PINGREQ write: both bytes go to the wire,
the entry moves to `Flush`, the packet is logged, and the flush is pending. -/
theorem d_pingWrite (W : World) (ctx : StepCtx) (t k : Nat)
    (hfut : W.fut = some (.stepWrite ctx (.control ControlAction.pingReq) pingBytes 0 2 t))
    (hk2 : 2 ≤ k) (hk : k ≤ 250) :
    let W1 := ((({ W with slot := some k } : World).pollBase).wrote k pingBytes).setWritten (.control ControlAction.pingReq) 2 2
    W.execDirective (.d k) =
      { (({ (W1.emit s!"fp {W1.netIdx}") with lastIoStarved := false } : World).suspend
          (.stepFlush ctx (.control ControlAction.pingReq) t)) with slot := none } := by
  intro W1
  have hc : wcount k (pingBytes.drop 0).length = 2 := by
    show wcount k 2 = 2
    unfold wcount; split <;> omega
  rw [execDirective_d W k (by simp [hfut])]
  rw [poll_stepWrite { W with slot := some k } _ _ _ _ _ _ hfut]
  rw [show pollFuel = 3999 + 1 from rfl]
  rw [dsw_all 3999 _ ctx _ pingBytes 0 2 t k rfl hk (by rw [hc]; omega)]
  rw [hc]
  rw [show (3999 : Nat) = 3998 + 1 from rfl, dsf_pending 3998 _ ctx _ t rfl]
  rfl

theorem d_pingWrite_fields (W : World) (ctx : StepCtx) (t k : Nat)
    (hfut : W.fut = some (.stepWrite ctx (.control ControlAction.pingReq) pingBytes 0 2 t))
    (hk2 : 2 ≤ k) (hk : k ≤ 250) (hnets : W.nets ≠ []) :
    let R := W.execDirective (.d k)
    R.fut = some (.stepFlush ctx (.control ControlAction.pingReq) t) ∧
    R.sess = W.sess.setWritten (.control ControlAction.pingReq) 2 2 ∧
    R.nets = W.nets.dropLast ++ [{ W.curNet with wire := W.curNet.wire ++ pingBytes }] ∧
    R.conn = W.conn ∧ R.now = W.now ∧ R.slot = none ∧ R.lastRes = W.lastRes ∧
    R.log = W.log ++ [{ net := W.nets.length, tag := .control ControlAction.pingReq, bytes := pingBytes }] := by
  intro R
  have h := d_pingWrite W ctx t k hfut hk2 hk
  simp only [] at h
  have hc : wcount k pingBytes.length = 2 := by
    show wcount k 2 = 2
    unfold wcount; split <;> omega
  have hR : R = _ := h
  rw [hR]
  refine ⟨rfl, rfl, ?_, rfl, rfl, rfl, rfl, ?_⟩
  · show W.nets.dropLast ++ [{ W.curNet with wire := W.curNet.wire ++ pingBytes.take (wcount k pingBytes.length) }] = _
    rw [hc]; rfl
  · show (if 2 ≥ 2 then W.log ++ [World.doneFrame _ (.control ControlAction.pingReq)] else W.log) = _
    rw [if_pos (by omega)]
    unfold World.doneFrame
    simp only [encodeControl_pingReq]
    have hl : ((({ W with slot := some k } : World).pollBase).wrote k pingBytes).nets.length = W.nets.length := by
      show (W.nets.dropLast ++ [_]).length = _
      have : 1 ≤ W.nets.length := List.length_pos_iff.mpr hnets
      simp; omega
    rw [hl]; rfl
end Minimq

namespace Minimq
open Gen World Outbound

theorem completeFlush_reader (s : Session) (pkt : Flushed) (t : Nat) : (s.completeFlush pkt t).reader = s.reader := rfl

theorem completeFlush_ping_rt (s : Session) (t : Nat) :
    (s.completeFlush (.control ControlAction.pingReq) t).rt.pingTimeout = some (t + ROUND_TRIP_TIMEOUT_MS * 1000) ∧
    (s.completeFlush (.control ControlAction.pingReq) t).rt.nextPing = s.rt.keepaliveSendInterval.map (fun i => t + i * 1000) ∧
    (s.completeFlush (.control ControlAction.pingReq) t).rt.keepaliveMs = s.rt.keepaliveMs := by
  obtain ⟨h1, h2, h3⟩ := completeFlush_rt s (.control ControlAction.pingReq) t
  refine ⟨?_, h1, h2⟩
  rw [h3]; rfl

/-- The flush decision on the suspended PINGREQ flush, from `poll()`: the PINGREQ is complete, the ping
timeout starts, the timer is re-armed, and `poll()` returns `Ok(None)` (it made progress). -/
theorem d_pingFlush_poll (W : World) (adv : Bool) (t k : Nat)
    (hfut : W.fut = some (.stepFlush (.drive adv .poll) (.control ControlAction.pingReq) t)) (hk : k ≤ 250)
    (hna : W.sess.reader.packetAvailable = false)
    (hn : (W.sess.completeFlush (.control ControlAction.pingReq) t).data.outbound.nextStep = none) :
    let W2 : World := ((({ (({ W with slot := some k } : World).pollBase) with slot := none, lastIoStarved := false } : World).emit
          s!"f {W.netIdx} ok @{W.now}")).completeFlush (.control ControlAction.pingReq) t
    W.execDirective (.d k) = { W2.finish "ret poll ok none" with slot := none } := by
  intro W2
  rw [execDirective_d W k (by simp [hfut])]
  rw [poll_stepFlush { W with slot := some k } _ _ _ hfut]
  rw [show pollFuel = 3999 + 1 from rfl, dsf_ok 3999 _ _ _ t k rfl (by omega)]
  rw [show (3999 : Nat) = 3998 + 1 from rfl, sr_drive]
  rw [show (adv || true) = true by cases adv <;> rfl]
  show ({ driveAfterService (3997 + 1) W2 .poll true with slot := none } : World) = _
  rw [das_advanced_poll 3997 W2 hna hn]

/-- The same from `recv()`: it goes on waiting, now with the ping timeout as its deadline. -/
theorem d_pingFlush_recv (W : World) (adv : Bool) (t k : Nat)
    (hfut : W.fut = some (.stepFlush (.drive adv .recv) (.control ControlAction.pingReq) t)) (hk : k ≤ 250)
    (hlive : W.live = true)
    (hwait : Waiting W.sess.reader W.curNet.rx)
    (hn : (W.sess.completeFlush (.control ControlAction.pingReq) t).data.outbound.nextStep = none)
    (hnow : W.now < t + ROUND_TRIP_TIMEOUT_MS * 1000) :
    let W2 : World := ((({ (({ W with slot := some k } : World).pollBase) with slot := none, lastIoStarved := false } : World).emit
          s!"f {W.netIdx} ok @{W.now}")).completeFlush (.control ControlAction.pingReq) t
    W.execDirective (.d k) =
      { (({ (W2.emit s!"rp {W2.netIdx}") with lastIoStarved := false } : World).suspend
          (.waitRead .recv (some (t + ROUND_TRIP_TIMEOUT_MS * 1000)) true)) with slot := none } := by
  intro W2
  obtain ⟨p1, p2, p3⟩ := completeFlush_ping_rt W.sess t
  rw [execDirective_d W k (by simp [hfut])]
  rw [poll_stepFlush { W with slot := some k } _ _ _ hfut]
  rw [show pollFuel = 3999 + 1 from rfl, dsf_ok 3999 _ _ _ t k rfl (by omega)]
  rw [show (3999 : Nat) = 3998 + 1 from rfl, sr_drive]
  rw [show (adv || true) = true by cases adv <;> rfl]
  show ({ driveAfterService (3997 + 1) W2 .recv true with slot := none } : World) = _
  rw [das_advanced_recv 3997 W2 hwait.notAvail hn]
  rw [show (3997 : Nat) = 3996 + 1 from rfl, de_live 3996 W2 .recv hlive]
  rw [show (3996 : Nat) = 3993 + 3 from rfl]
  rw [driveLoop_idle 3993 W2 .recv (by intro h; cases h) hwait rfl
    (by intro t' ht'; rw [show W2.sess.rt.pingTimeout = _ from p1] at ht'; cases ht'; exact hnow)
    (queuePing_while_waiting _ _ _ p1) hn]
  rw [show W2.sess.rt.nextDeadline = some (t + ROUND_TRIP_TIMEOUT_MS * 1000) from NoSpin.nextDeadline_of_timeout _ _ p1]
end Minimq

namespace Minimq
open Gen World Outbound

/-- A live connection whose application waits in `poll()` / `recv()` after a full service pass: suspended
in `wait_for_progress` with `next_deadline()` as deadline, nothing to send, the reader as
`receive_buffer` left it, no I/O decision left over. -/
structure IdleWait (W : World) (outer : Outer) : Prop where
  outer_ne : outer ≠ .drive
  fut : W.fut = some (.waitRead outer W.sess.rt.nextDeadline true)
  live : W.live = true
  slot : W.slot = none
  waiting : Waiting W.sess.reader W.curNet.rx
  idle : W.sess.data.outbound.nextStep = none
  nets : W.nets ≠ []

theorem pingCycle_out (o : Outbound) (hctl : o.control = []) :
    (({ o with control := [{ action := ControlAction.pingReq, state := .write 0 }] } : Outbound).setControlWritten
        ControlAction.pingReq 2 2).flushControl ControlAction.pingReq = o := by
  cases o with
  | mk buf used control retained release nextSer nextRser =>
    simp only at hctl
    subst hctl
    simp [Outbound.setControlWritten, Outbound.flushControl, Outbound.modifyFirst, SendState.afterWrite]

theorem pingCycle_outbound (s : Session) (t : Nat) (hctl : s.data.outbound.control = []) :
    let s3 := (s.withPing.setWritten (.control ControlAction.pingReq) 2 2).completeFlush (.control ControlAction.pingReq) t
    s3.data.outbound = s.data.outbound ∧ s3.data = s.data ∧ s3.reader = s.reader ∧ s3.clientId = s.clientId := by
  intro s3
  have ho : s3.data.outbound = s.data.outbound := pingCycle_out s.data.outbound hctl
  refine ⟨ho, ?_, rfl, rfl⟩
  show ({ s.data with outbound := s3.data.outbound } : SessionData) = s.data
  rw [ho]

/-- **A PINGREQ is sent when it is due.** The application waits in `poll()`/`recv()` on a live
connection after a full service pass; no ping timeout is running, the PINGREQ time is `p`, the control
queue is empty and the 2-byte PINGREQ is within the broker's Maximum Packet Size. A tick to `p` or
later (which polls the operation without any I/O decision) queues the PINGREQ and leaves the operation
suspended in its write — nothing is on the wire yet. A write decision (of at least the two bytes) puts
exactly `C0 00` on the wire and logs the packet; the flush decision completes it: the ping timeout
is `now + 5 s`, the PINGREQ timer `now + interval` for the `now` of the tick, the queues are as before;
`poll()` then returns `Ok(None)`, `recv()` goes on waiting with the ping timeout as its deadline. -/
theorem pingreq_cycle (W : World) (outer : Outer) (hI : IdleWait W outer)
    (hctl : W.sess.data.outbound.control = []) (hpt : W.sess.rt.pingTimeout = none) (p : Nat)
    (hnp : W.sess.rt.nextPing = some p) (hsz : W.sess.rt.packetTooLarge 2 = false)
    (us : Nat) (hb : W.now + us ≤ 4611686018427387904) (hdue : p ≤ W.now + us)
    (k1 k2 : Nat) (hk1 : 2 ≤ k1 ∧ k1 ≤ 250) (hk2 : k2 ≤ 250) :
    let t := W.now + us
    let A := W.execDirective (.tick us)
    let B := A.execDirective (.d k1)
    let C := B.execDirective (.d k2)
    (A.fut = some (.stepWrite (.drive false outer) (.control ControlAction.pingReq) pingBytes 0 2 t) ∧
      A.sess = W.sess.withPing ∧ A.nets = W.nets ∧ A.now = t ∧ A.log = W.log) ∧
    (B.fut = some (.stepFlush (.drive false outer) (.control ControlAction.pingReq) t) ∧
      B.nets = W.nets.dropLast ++ [{ W.curNet with wire := W.curNet.wire ++ pingBytes }] ∧
      B.log = W.log ++ [{ net := W.nets.length, tag := .control ControlAction.pingReq, bytes := pingBytes }]) ∧
    (C.nets = B.nets ∧ C.log = B.log ∧ C.now = t ∧ C.live = true ∧
      C.sess.rt.pingTimeout = some (t + ROUND_TRIP_TIMEOUT_MS * 1000) ∧
      C.sess.rt.nextPing = W.sess.rt.keepaliveSendInterval.map (fun i => t + i * 1000) ∧
      C.sess.data = W.sess.data ∧ C.sess.reader = W.sess.reader ∧
      (outer = .poll → C.fut = none ∧ (match C.lastRes with | some (.ok ()) => True | _ => False)) ∧
      (outer = .recv → C.fut = some (.waitRead .recv (some (t + ROUND_TRIP_TIMEOUT_MS * 1000)) true))) := by
  intro t A B C
  have hdl : W.sess.rt.nextDeadline = some p := by
    rw [NoSpin.nextDeadline_no_timeout _ hpt, hnp]
  have hfut : W.fut = some (.waitRead outer (some p) true) := by rw [hI.fut, hdl]
  -- the tick
  have hA : A = _ := tick_fires W outer p us hfut hI.slot hI.waiting hb hdue
  rw [show (3999 : Nat) = 3998 + 1 from rfl,
    de_live 3998 _ outer (show ({ ((({ W with now := W.now + us } : World).pollBase).emit s!"rp {W.netIdx}") with
      lastIoStarved := false } : World).live = true from hI.live)] at hA
  rw [show (3998 : Nat) = 3995 + 3 from rfl,
    driveLoop_ping_due 3995 ({ ((({ W with now := W.now + us } : World).pollBase).emit s!"rp {W.netIdx}") with
      lastIoStarved := false } : World) outer false hI.waiting.notAvail hI.slot hI.live hpt p hnp hdue hI.idle hctl hsz] at hA
  have hAfut : A.fut = some (.stepWrite (.drive false outer) (.control ControlAction.pingReq) pingBytes 0 2 t) := by
    rw [hA]; rfl
  have hAsess : A.sess = W.sess.withPing := by rw [hA]; rfl
  have hAnets : A.nets = W.nets := by rw [hA]; rfl
  have hAnow : A.now = t := by rw [hA]; rfl
  have hAlog : A.log = W.log := by rw [hA]; rfl
  have hAconn : A.conn = W.conn := by rw [hA]; rfl
  have hAcur : A.curNet = W.curNet := by unfold World.curNet; rw [hAnets]
  -- the write decision
  obtain ⟨b1, b2, b3, b4, b5, b6, _, b8⟩ := d_pingWrite_fields A (.drive false outer) t k1 hAfut hk1.1 hk1.2 (hAnets ▸ hI.nets)
  rw [hAnets, hAcur] at b3
  rw [hAlog, hAnets] at b8
  -- the flush decision
  have hBsess : B.sess = W.sess.withPing.setWritten (.control ControlAction.pingReq) 2 2 := by rw [b2, hAsess]
  obtain ⟨c1, c2, c3, c4⟩ := pingCycle_outbound W.sess t hctl
  have hBlive : B.live = true := by
    have : B.conn = W.conn := b4.trans hAconn
    unfold World.live; rw [this]; exact hI.live
  have hBcur : B.curNet.rx = W.curNet.rx := by
    have := curNet_of_nets b3
    rw [this]
  have hBwait : Waiting B.sess.reader B.curNet.rx := by
    rw [hBcur, hBsess]; exact hI.waiting
  have hBn : (B.sess.completeFlush (.control ControlAction.pingReq) t).data.outbound.nextStep = none := by
    rw [hBsess, c1]; exact hI.idle
  have hBnow : B.now = t := b5.trans hAnow
  obtain ⟨p1, p2, p3⟩ := completeFlush_ping_rt B.sess t
  have hint : B.sess.rt.keepaliveSendInterval = W.sess.rt.keepaliveSendInterval := by rw [hBsess]; rfl
  refine ⟨⟨hAfut, hAsess, hAnets, hAnow, hAlog⟩, ⟨b1, b3, b8⟩, ?_⟩
  cases outer with
  | drive => exact absurd rfl hI.outer_ne
  | poll =>
    have hC : C = _ := d_pingFlush_poll B false t k2 b1 hk2 hBwait.notAvail hBn
    simp only [] at hC
    have e1 : C.nets = B.nets := by rw [hC]; rfl
    have e2 : C.log = B.log := by rw [hC]; rfl
    have e3 : C.now = B.now := by rw [hC]; rfl
    have e4 : C.conn = B.conn := by rw [hC]; rfl
    have e5 : C.sess = B.sess.completeFlush (.control ControlAction.pingReq) t := by rw [hC]; rfl
    have e6 : C.fut = none := by rw [hC]; rfl
    have e7 : C.lastRes = some (.ok ()) := by rw [hC]; rfl
    refine ⟨e1, e2, e3.trans hBnow, ?_, ?_, ?_, ?_, ?_, ?_, ?_⟩
    · unfold World.live; rw [e4]; exact hBlive
    · rw [e5]; exact p1
    · rw [e5, ← hint]; exact p2
    · rw [e5, hBsess]; exact c2
    · rw [e5, hBsess]; exact c3
    · intro _; refine ⟨e6, ?_⟩; rw [e7]; trivial
    · intro h; cases h
  | recv =>
    have hC : C = _ := d_pingFlush_recv B false t k2 b1 hk2 hBlive hBwait hBn (by rw [hBnow, RT_val]; omega)
    simp only [] at hC
    have e1 : C.nets = B.nets := by rw [hC]; rfl
    have e2 : C.log = B.log := by rw [hC]; rfl
    have e3 : C.now = B.now := by rw [hC]; rfl
    have e4 : C.conn = B.conn := by rw [hC]; rfl
    have e5 : C.sess = B.sess.completeFlush (.control ControlAction.pingReq) t := by rw [hC]; rfl
    have e6 : C.fut = some (.waitRead .recv (some (t + ROUND_TRIP_TIMEOUT_MS * 1000)) true) := by rw [hC]; rfl
    refine ⟨e1, e2, e3.trans hBnow, ?_, ?_, ?_, ?_, ?_, ?_, ?_⟩
    · unfold World.live; rw [e4]; exact hBlive
    · rw [e5]; exact p1
    · rw [e5, ← hint]; exact p2
    · rw [e5, hBsess]; exact c2
    · rw [e5, hBsess]; exact c3
    · intro h; cases h
    · intro _; exact e6
end Minimq

namespace Minimq
open Gen World Outbound

/-- A tick that does not reach the deadline of the wait: nothing happens but the clock (and a trace
line): same session, same transports, same suspension (with `yielded = true`), no result. -/
theorem tick_waits_fields (W : World) (outer : Outer) (dl : Option Nat) (y : Bool) (us : Nat)
    (hfut : W.fut = some (.waitRead outer dl y)) (hslot : W.slot = none)
    (hwait : Waiting W.sess.reader W.curNet.rx) (hb : W.now + us ≤ 4611686018427387904)
    (hdl : DeadlineOK (W.now + us) dl) :
    let R := W.execDirective (.tick us)
    R.fut = some (.waitRead outer dl true) ∧ R.sess = W.sess ∧ R.nets = W.nets ∧ R.conn = W.conn ∧
    R.now = W.now + us ∧ R.slot = none ∧ R.lastRes = W.lastRes ∧ R.log = W.log := by
  intro R
  have h : R = _ := tick_waits W outer dl y us hfut hslot hwait hb hdl
  rw [h]
  exact ⟨rfl, rfl, rfl, rfl, rfl, hslot, rfl, rfl⟩

/-- **Dead peer.** A ping timeout `t` is running and the application waits (with `t` as deadline, as the
service pass leaves it). A tick to `t` or later ends the wait with `Disconnected`; the handle is dead
and the session disconnected. -/
theorem tick_timeout (W : World) (outer : Outer) (hI : IdleWait W outer) (t : Nat)
    (hpt : W.sess.rt.pingTimeout = some t) (us : Nat) (hb : W.now + us ≤ 4611686018427387904) (hd : t ≤ W.now + us) :
    let R := W.execDirective (.tick us)
    R.fut = none ∧ R.lastRes = some (.error .disconnected) ∧ R.live = false ∧ R.sess = W.sess.handleDisconnect ∧
    R.nets = W.nets ∧ R.log = W.log := by
  intro R
  have hdl : W.sess.rt.nextDeadline = some t := NoSpin.nextDeadline_of_timeout _ _ hpt
  have hfut : W.fut = some (.waitRead outer (some t) true) := by rw [hI.fut, hdl]
  have hR : R = _ := tick_fires W outer t us hfut hI.slot hI.waiting hb hd
  rw [show (3999 : Nat) = 3998 + 1 from rfl,
    de_live 3998 _ outer (show ({ ((({ W with now := W.now + us } : World).pollBase).emit s!"rp {W.netIdx}") with
      lastIoStarved := false } : World).live = true from hI.live)] at hR
  rw [show (3998 : Nat) = 3997 + 1 from rfl,
    driveLoop_timeout 3997 ({ ((({ W with now := W.now + us } : World).pollBase).emit s!"rp {W.netIdx}") with
      lastIoStarved := false } : World) outer false t hI.waiting.notAvail hpt hd] at hR
  rw [hR]
  refine ⟨rfl, rfl, ?_, rfl, rfl, rfl⟩
  simp

/-- **Keep-alive 0 at machine level.** With no PINGREQ timer (which is what keep-alive 0 means in every
reachable state, `closed_KaInv`) and no ping timeout running, the wait has no deadline at all: whatever
the tick, nothing is queued, nothing is written, the operation stays suspended in the same read. -/
theorem tick_no_keepalive (W : World) (outer : Outer) (hI : IdleWait W outer)
    (hnp : W.sess.rt.nextPing = none) (hpt : W.sess.rt.pingTimeout = none) (us : Nat)
    (hb : W.now + us ≤ 4611686018427387904) :
    let R := W.execDirective (.tick us)
    R.fut = some (.waitRead outer none true) ∧ R.sess = W.sess ∧ R.nets = W.nets ∧ R.conn = W.conn ∧
    R.now = W.now + us ∧ R.slot = none ∧ R.lastRes = W.lastRes ∧ R.log = W.log ∧ IdleWait R outer := by
  intro R
  have hdl : W.sess.rt.nextDeadline = none := by rw [NoSpin.nextDeadline_no_timeout _ hpt, hnp]
  have hfut : W.fut = some (.waitRead outer none true) := by rw [hI.fut, hdl]
  obtain ⟨a1, a2, a3, a4, a5, a6, a7, a8⟩ := tick_waits_fields W outer none true us hfut hI.slot hI.waiting hb trivial
  refine ⟨a1, a2, a3, a4, a5, a6, a7, a8, hI.outer_ne, ?_, ?_, a6, ?_, ?_, ?_⟩
  · rw [a1, a2, hdl]
  · unfold World.live; rw [a4]; exact hI.live
  · have : R.curNet = W.curNet := by unfold World.curNet; rw [a3]
    rw [a2, this]; exact hI.waiting
  · rw [a2]; exact hI.idle
  · rw [a3]; exact hI.nets
end Minimq

namespace Minimq
open Gen World Outbound

/-- PINGRESP on the wire. -/
def pingRespBytes : Bytes := [b 0xD0, b 0]

theorem pingRespBytes_spec : Spec.encodeServer .pingResp = pingRespBytes ∧ fromBuffer pingRespBytes = some .pingResp := by
  decide

/-- The session after a PINGRESP has been taken out of the reader and handled: the ping timeout is
cleared; reader empty; nothing else of data and runtime changes. -/
def Session.afterPingResp (s : Session) : Session :=
  (({ s with reader := { s.reader with data := [], packetLength := none, last := pingRespBytes } } : Session).handle .pingResp).1

theorem afterPingResp_fields (s : Session) :
    s.afterPingResp.rt = { s.rt with pingTimeout := none } ∧ s.afterPingResp.data = s.data ∧
    s.afterPingResp.reader = { s.reader with data := [], packetLength := none, last := pingRespBytes } ∧
    s.afterPingResp.clientId = s.clientId := ⟨rfl, rfl, rfl, rfl⟩

theorem prp_pingResp (Wp : World) (s : Session) (h : Wp.sess = { s with reader := s.reader.packetOf pingRespBytes }) :
    Wp.processReceivedPacket = ({ Wp with sess := s.afterPingResp }, .ok none) := by
  have hav : Wp.sess.reader.packetAvailable = true := by rw [h]; rfl
  have htk : Wp.sess.takePkt = ({ s with reader := { s.reader with data := [], packetLength := none, last := pingRespBytes } },
      some (2, .pingResp)) := by
    rw [h, takePkt_packetOf, pingRespBytes_spec.2]; rfl
  unfold World.processReceivedPacket
  simp only [hav, Bool.not_true, Bool.false_eq_true, if_false]
  rw [htk]
  rfl

/-- A service pass that has nothing to do, after progress was made: `poll()` returns `Ok(None)`. -/
theorem driveLoop_quiet_poll (fuel : Nat) (W : World)
    (hna : W.sess.reader.packetAvailable = false)
    (hto : ∀ t, W.sess.rt.pingTimeout = some t → W.now < t)
    (hq : W.sess.queuePing W.now = .ok W.sess) (hn : W.sess.data.outbound.nextStep = none) :
    driveLoop (fuel + 2) W .poll true = W.finish "ret poll ok none" := by
  rw [driveLoop_no_timeout (fuel + 1) W .poll true hna hto, maybeQueuePingreq_same W W.now hq]
  simp only [hn]
  rw [das_advanced_poll fuel W hna hn]

/-- …and `recv()` goes round once more and waits. -/
theorem driveLoop_quiet_recv (fuel : Nat) (W : World) (hlive : W.live = true)
    (hwait : Waiting W.sess.reader W.curNet.rx) (hslot : W.slot = none)
    (hto : ∀ t, W.sess.rt.pingTimeout = some t → W.now < t)
    (hq : W.sess.queuePing W.now = .ok W.sess) (hn : W.sess.data.outbound.nextStep = none) :
    driveLoop (fuel + 6) W .recv true =
      ({ (W.emit s!"rp {W.netIdx}") with lastIoStarved := false } : World).suspend
        (.waitRead .recv W.sess.rt.nextDeadline true) := by
  rw [driveLoop_no_timeout (fuel + 5) W .recv true hwait.notAvail hto, maybeQueuePingreq_same W W.now hq]
  simp only [hn]
  rw [das_advanced_recv (fuel + 4) W hwait.notAvail hn, de_live (fuel + 3) W .recv hlive,
    driveLoop_idle fuel W .recv (by intro h; cases h) hwait hslot hto hq hn]

theorem dl_avail (fuel : Nat) (w w' : World) (outer : Outer) (adv : Bool) (hav : w.sess.reader.packetAvailable = true)
    (hp : w.processReceivedPacket = (w', .ok none)) : driveLoop (fuel + 1) w outer adv = driveLoop fuel w' outer true := by
  simp only [driveLoop, hav, if_true, hp]

/-- **`drive_packet` entered with a PINGRESP in the reader** (no other inbound bytes, no PINGREQ due):
the timeout is cleared; `poll()` returns, `recv()` waits again — with the PINGREQ time as deadline. -/
theorem driveEnter_pingResp (fuel : Nat) (Wp : World) (outer : Outer) (ho : outer ≠ .drive) (s : Session)
    (h : Wp.sess = { s with reader := s.reader.packetOf pingRespBytes }) (hlive : Wp.live = true)
    (hslot : Wp.slot = none) (hcap : 1 ≤ s.reader.cap) (hrx : Wp.curNet.rx = [])
    (hnp : ∀ np, s.rt.nextPing = some np → Wp.now < np) (hn : s.data.outbound.nextStep = none) :
    let W' : World := { Wp with sess := s.afterPingResp }
    driveEnter (fuel + 8) Wp outer =
      match outer with
      | .poll => W'.finish "ret poll ok none"
      | _ => ({ (W'.emit s!"rp {W'.netIdx}") with lastIoStarved := false } : World).suspend
          (.waitRead outer s.rt.nextPing true) := by
  intro W'
  have hav : Wp.sess.reader.packetAvailable = true := by rw [h]; rfl
  have hq : W'.sess.queuePing W'.now = .ok W'.sess := by
    show s.afterPingResp.queuePing Wp.now = .ok s.afterPingResp
    cases hp : s.rt.nextPing with
    | none => exact queuePing_no_keepalive _ _ hp
    | some np => exact queuePing_early _ _ np hp (hnp np hp)
  have hto : ∀ t, W'.sess.rt.pingTimeout = some t → W'.now < t := by intro t ht; cases ht
  have hwait : Waiting W'.sess.reader W'.curNet.rx :=
    Waiting_fresh _ _ rfl rfl hcap
  have hdl : W'.sess.rt.nextDeadline = s.rt.nextPing := NoSpin.nextDeadline_no_timeout _ rfl
  rw [de_live (fuel + 7) Wp outer hlive]
  have hstep : driveLoop (fuel + 7) Wp outer false = driveLoop (fuel + 6) W' outer true :=
    dl_avail (fuel + 6) Wp W' outer false hav (prp_pingResp Wp s h)
  rw [hstep]
  cases outer with
  | drive => exact absurd rfl ho
  | poll => exact driveLoop_quiet_poll (fuel + 4) W' hwait.notAvail hto hq hn
  | recv =>
    rw [driveLoop_quiet_recv fuel W' hlive hwait hslot hto hq hn, hdl]
end Minimq

namespace Minimq
open Gen World Outbound

theorem frame1_pingResp (cap : Nat) (h : 2 ≤ cap) : frame1 cap pingRespBytes = .packet pingRespBytes [] := by
  have := frame1_encodeServer cap .pingResp (by decide) (by rw [pingRespBytes_spec.1]; exact h)
  rw [pingRespBytes_spec.1] at this
  exact this

/-- **A PINGRESP in time.** The application waits (after a full service pass) with a ping timeout `t`
running and the reader at a packet boundary; the PINGRESP arrives before `t` and the transport
delivers it under any read decisions (fed up to the one that completes the packet). Then the timeout
is cleared and nothing else of the session changes; the handle stays live; `poll()` returns
`Ok(None)`, `recv()` waits again — in the state `IdleWait` with the PINGREQ time as its deadline and no
ping timeout, so that no later tick can take the dead-peer branch because of this ping. -/
theorem pingresp_in_time (W : World) (outer : Outer) (hI : IdleWait W outer) (t : Nat)
    (hpt : W.sess.rt.pingTimeout = some t) (hnow : W.now < t)
    (hrd : W.sess.reader.data = [] ∧ W.sess.reader.packetLength = none ∧ 2 ≤ W.sess.reader.cap)
    (hrx : W.curNet.rx = [])
    (hnp : ∀ np, W.sess.rt.nextPing = some np → W.now < np)
    (ks : List Nat) (hks : ∀ k ∈ ks, 1 ≤ k ∧ k ≤ 250) (hlen : 2 ≤ ks.length) :
    let R := readPacket ks (W.execDirective (.rx pingRespBytes))
    R.sess.rt.pingTimeout = none ∧ R.sess.rt.nextPing = W.sess.rt.nextPing ∧ R.sess.rt.keepaliveMs = W.sess.rt.keepaliveMs ∧
    R.sess.data = W.sess.data ∧ R.live = true ∧ R.now = W.now ∧ R.nets.dropLast = W.nets.dropLast ∧
    R.curNet.wire = W.curNet.wire ∧ R.curNet.rx = [] ∧ R.log = W.log ∧
    (outer = .poll → R.fut = none ∧ (match R.lastRes with | some (.ok ()) => True | _ => False)) ∧
    (outer = .recv → IdleWait R .recv) := by
  intro R
  have hdl : W.sess.rt.nextDeadline = some t := NoSpin.nextDeadline_of_timeout _ _ hpt
  have hemp : W.nets.isEmpty = false := by
    cases hn : W.nets with
    | nil => exact absurd hn hI.nets
    | cons x xs => rfl
  have hW1 : W.execDirective (.rx pingRespBytes) = W.setCurNet { W.curNet with rx := W.curNet.rx ++ pingRespBytes } := by
    simp only [World.execDirective, hemp, Bool.false_eq_true, if_false]
  obtain ⟨W1, hW1def⟩ : ∃ W1, W.execDirective (.rx pingRespBytes) = W1 := ⟨_, rfl⟩
  have hRdef : R = readPacket ks W1 := by
    show readPacket ks (W.execDirective (.rx pingRespBytes)) = _
    rw [hW1def]
  rw [hW1def] at hW1
  have h1cur : W1.curNet = { W.curNet with rx := pingRespBytes } := by
    rw [hW1, hrx]; simp [World.setCurNet, World.curNet]
  have h1sess : W1.sess = W.sess := by rw [hW1]; rfl
  have h1fut : W1.fut = some (.waitRead outer (some t) true) := by rw [hW1]; show W.fut = _; rw [hI.fut, hdl]
  have h1now : W1.now = W.now := by rw [hW1]; rfl
  have h1rx : W1.curNet.rx = pingRespBytes := by rw [h1cur]
  have hwait1 : Waiting W1.sess.reader W1.curNet.rx := by
    rw [h1sess]; exact Waiting_fresh _ _ hrd.1 hrd.2.1 (by omega)
  obtain ⟨io, _, hfin⟩ := readPacket_final ks W1 outer (some t) true h1fut (by rw [h1now]; exact hnow) hwait1
    (by rw [h1rx]; decide) hks (by rw [h1rx]; exact hlen)
  have hframe : frame1 W1.sess.reader.cap (W1.sess.reader.data ++ W1.curNet.rx) = .packet pingRespBytes [] := by
    rw [h1sess, hrd.1, h1rx]; exact frame1_pingResp _ hrd.2.2
  have hR : R = { driveEnter 3998 (W1.withRead (W1.sess.reader.packetOf pingRespBytes) [] io none) outer with slot := none } := by
    rw [hRdef, hfin]; unfold World.finalRead; rw [hframe]
  generalize hWp : W1.withRead (W1.sess.reader.packetOf pingRespBytes) [] io none = Wp at hR
  have hpsess : Wp.sess = { W.sess with reader := W.sess.reader.packetOf pingRespBytes } := by
    rw [← hWp]; show ({ W1.sess with reader := _ } : Session) = _; rw [h1sess]
  have hpconn : Wp.conn = W.conn := by rw [← hWp]; show W1.conn = _; rw [hW1]; rfl
  have hplive : Wp.live = true := by unfold World.live; rw [hpconn]; exact hI.live
  have hpnow : Wp.now = W.now := by rw [← hWp]; exact h1now
  have hpcur : Wp.curNet = { W.curNet with rx := [] } := by rw [← hWp, withRead_curNet, h1cur]
  have hpnets : Wp.nets.dropLast = W.nets.dropLast := by
    rw [← hWp]; show (W1.nets.dropLast ++ [_]).dropLast = _
    rw [hW1]; simp [World.setCurNet]
  have hplog : Wp.log = W.log := by rw [← hWp]; show W1.log = _; rw [hW1]; rfl
  have hde := driveEnter_pingResp 3990 Wp outer hI.outer_ne W.sess hpsess hplive (by rw [← hWp]; rfl) (by omega)
    (by rw [hpcur]) (by intro np h; rw [hpnow]; exact hnp np h) hI.idle
  simp only [] at hde
  obtain ⟨f1, f2, f3, f4⟩ := afterPingResp_fields W.sess
  cases outer with
  | drive => exact absurd rfl hI.outer_ne
  | poll =>
    rw [hde] at hR
    have hs : R.sess = W.sess.afterPingResp := by rw [hR]; rfl
    have hcn : R.curNet = Wp.curNet := by rw [hR]; rfl
    refine ⟨?_, ?_, ?_, ?_, ?_, ?_, ?_, ?_, ?_, ?_, ?_, ?_⟩
    · rw [hs, f1]
    · rw [hs, f1]
    · rw [hs, f1]
    · rw [hs, f2]
    · rw [hR]; exact hplive
    · rw [hR]; exact hpnow
    · rw [hR]; exact hpnets
    · rw [hcn, hpcur]
    · rw [hcn, hpcur]
    · rw [hR]; exact hplog
    · intro _; refine ⟨?_, ?_⟩
      · rw [hR]; rfl
      · rw [hR]; trivial
    · intro h; cases h
  | recv =>
    rw [hde] at hR
    have hs : R.sess = W.sess.afterPingResp := by rw [hR]; rfl
    have hcn : R.curNet = Wp.curNet := by rw [hR]; rfl
    have hlv : R.live = true := by rw [hR]; exact hplive
    have hnd : R.sess.rt.nextDeadline = W.sess.rt.nextPing := by rw [hs]; exact NoSpin.nextDeadline_no_timeout _ rfl
    refine ⟨?_, ?_, ?_, ?_, hlv, ?_, ?_, ?_, ?_, ?_, ?_, ?_⟩
    · rw [hs, f1]
    · rw [hs, f1]
    · rw [hs, f1]
    · rw [hs, f2]
    · rw [hR]; exact hpnow
    · rw [hR]; exact hpnets
    · rw [hcn, hpcur]
    · rw [hcn, hpcur]
    · rw [hR]; exact hplog
    · intro h; cases h
    · intro _
      refine ⟨?_, ?_, hlv, ?_, ?_, ?_, ?_⟩
      · intro h; cases h
      · rw [hnd, hR]; rfl
      · rw [hR]
      · rw [hcn, hpcur, hs, f3]
        exact Waiting_fresh _ _ rfl rfl (by show 1 ≤ W.sess.reader.cap; omega)
      · rw [hs, f2]; exact hI.idle
      · rw [hR]
        show Wp.nets ≠ []
        rw [← hWp]; show W1.nets.dropLast ++ [_] ≠ []
        simp
end Minimq
