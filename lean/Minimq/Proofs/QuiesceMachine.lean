import Minimq.Proofs.CancelSim
import Minimq.Proofs.KeepaliveMachine
/-
Bounded quiescence (C16, liveness half) — part 1: the machine, one POLL at a time.

A `poll()` whose every I/O call gets the decision 250 ("everything"): what one POLL does at each of
its three await points (`stepWrite`, `stepFlush`, `waitRead`), in closed form up to the trace. `ev`
(`Proofs/CancelSim.lean`) is the value of a call with enough fuel; `settle w adv` is where the drive
loop comes to rest from `w` when no I/O decision is left: suspended in the write or the flush of the
next outbound step, or — nothing to send — returned `Ok(None)` (if the round advanced) or suspended in
`wait_for_progress`.
-/
namespace Minimq
open Gen World Fuel Outbound
namespace Quiesce

/-! ### `poll` through `ev` -/

theorem poll_ev (w : World) (pc : Pc) (h : w.fut = some pc) : World.poll w = ev (resumeCall w.pollBase pc) := by
  rw [poll_eq_pollWith]
  unfold World.pollWith
  rw [h]
  exact run_ev _ pollFuel fuelBound_le_pollFuel

/-- One POLL with the decision 250, as `d 250` and each round of `go` perform it. -/
def step (W : World) : World := { World.poll { W with slot := some 250 } with slot := none }

theorem step_ev (W : World) (pc : Pc) (h : W.fut = some pc) :
    step W = { ev (resumeCall ({ W with slot := some 250 } : World).pollBase pc) with slot := none } := by
  unfold step
  rw [poll_ev { W with slot := some 250 } pc h]

theorem execDirective_d250 (W : World) (h : W.fut.isSome = true) : W.execDirective (.d 250) = step W := by
  rw [execDirective_d W 250 (by cases hf : W.fut <;> simp_all)]
  rfl

theorem goLoop_succ (n : Nat) (W : World) :
    World.goLoop (n + 1) W =
      if (step W).fut.isNone then step W else if (step W).wakes ≥ 64 then step W
      else if (step W).lastIoStarved then step W else World.goLoop n (step W) := by
  rw [World.goLoop]
  rfl

/-! ### Where the drive loop comes to rest -/

/-- The world after an I/O call that found no decision. -/
def pendW (w : World) : World := { (w.emit s!"wp {w.netIdx}") with lastIoStarved := false }
def pendF (w : World) : World := { (w.emit s!"fp {w.netIdx}") with lastIoStarved := false }
def pendR (w : World) : World := { (w.emit s!"rp {w.netIdx}") with lastIoStarved := false }

/-- `drive_packet` of a `poll()` from `w`, with no I/O decision and no inbound packet: the service
pass performs the next outbound step up to its first I/O call, where it suspends; with nothing to send
the round ends — `Ok(None)` if it had advanced, else `wait_for_progress` suspends in its read. -/
def settle (w : World) (adv : Bool) : World :=
  match w.sess.data.outbound.nextStep with
  | some st =>
    (match prepareStep w st with
     | .write pkt bytes wr len => (pendW w).suspend (.stepWrite (.drive adv .poll) pkt bytes wr len w.now)
     | .flush pkt => (pendF w).suspend (.stepFlush (.drive adv .poll) pkt w.now)
     | .done => w
     | .fail e => (w.failStep (.drive adv .poll) st).finishErr "poll" e)
  | none =>
    if adv then w.finish "ret poll ok none"
    else (pendR w).suspend (.waitRead .poll w.sess.rt.nextDeadline true)

theorem ev_DL_settle (w : World) (adv : Bool) (hl : w.live = true) (hs : w.slot = none)
    (hw : Waiting w.sess.reader w.curNet.rx) (hc : KaCalm w.sess.rt w.now) :
    ev (.DL w .poll adv) = settle w adv := by
  have hna := hw.notAvail
  rw [ev_DL]
  simp only [hna, Bool.false_eq_true, if_false, hc.notTimedOut, hc.maybe]
  unfold settle
  cases hn : w.sess.data.outbound.nextStep with
  | some st =>
    simp only []
    rw [ev_PS]
    cases hp : prepareStep w st with
    | fail e => rfl
    | done =>
      have := nextStep_not_done w _ st hn
      rw [hp] at this; exact Bool.noConfusion this
    | flush pkt =>
      simp only [hl, Bool.not_true, Bool.false_eq_true, if_false]
      rw [ev_DSF, cs_ioFlush_none hs]
      rfl
    | write pkt bytes wr len =>
      simp only [hl, Bool.not_true, Bool.false_eq_true, if_false]
      rw [ev_DSW, cs_ioWrite_none _ hs]
      rfl
  | none =>
    simp only []
    rw [ev_DAS]
    simp only [hna, Bool.false_eq_true, if_false, hn, Option.isNone_none, if_true]
    cases adv with
    | true => rfl
    | false =>
      simp only [Bool.false_eq_true, if_false]
      rw [ev_DWR]
      obtain ⟨n, hn0, hwin⟩ := hw.win
      simp only [hna, Bool.false_eq_true, if_false, session_window_of hwin, if_neg hn0]
      have hio := cs_ioRead_none (w := ({ w with sess := { w.sess with reader := w.sess.reader } } : World)) n hs
      rw [hio]
      simp only []
      cases hd : w.sess.rt.nextDeadline with
      | none => rfl
      | some d =>
        have := hc.deadline d hd
        simp only []
        rw [if_neg (by show ¬ (w.now ≥ d); omega)]
        rfl

theorem wcount_all (n : Nat) : wcount 250 n = n := by simp [wcount]

theorem dropLast_concat_length {α} (l : List α) (x : α) (h : l ≠ []) : (l.dropLast ++ [x]).length = l.length := by
  have : 0 < l.length := List.length_pos_iff.mpr h
  simp; omega

/-- **The write decision.** Everything that is left of the packet is accepted: the entry moves to
`Flush`, the packet is logged, and the operation suspends in the flush. -/
theorem step_write (W : World) (ctx : StepCtx) (pkt : Flushed) (bytes : Bytes) (wr len now : Nat)
    (h : W.fut = some (.stepWrite ctx pkt bytes wr len now)) (hlen : len ≤ wr + (bytes.drop wr).length)
    (hnets : W.nets ≠ []) :
    ∃ o, step W = { W with
      sess := W.sess.setWritten pkt (wr + (bytes.drop wr).length) len,
      fut := some (.stepFlush ctx pkt now),
      nets := W.nets.dropLast ++ [{ W.curNet with wire := W.curNet.wire ++ bytes.drop wr }],
      log := W.log ++ [W.doneFrame pkt],
      out := o, slot := none, wakes := 0, lastIoStarved := false } := by
  have key : step W = { (pendF (((({ W with slot := some 250 } : World).pollBase).wrote 250 (bytes.drop wr)).setWritten
      pkt (wr + (bytes.drop wr).length) len)).suspend (.stepFlush ctx pkt now) with slot := none } := by
    rw [step_ev W _ h]
    simp only [resumeCall]
    rw [ev_DSW, ioWrite_some _ _ 250 rfl (Nat.le_refl _)]
    simp only [wcount_all]
    rw [if_neg (by omega), ev_DSF, cs_ioFlush_none rfl]
    rfl
  have hdf : ((({ W with slot := some 250 } : World).pollBase).wrote 250 (bytes.drop wr)).doneFrame pkt = W.doneFrame pkt := by
    unfold World.doneFrame
    have : ((({ W with slot := some 250 } : World).pollBase).wrote 250 (bytes.drop wr)).nets.length = W.nets.length :=
      dropLast_concat_length _ _ hnets
    simp only [this]
    rfl
  rw [key]
  refine ⟨(pendF (((({ W with slot := some 250 } : World).pollBase).wrote 250 (bytes.drop wr)).setWritten
      pkt (wr + (bytes.drop wr).length) len)).out, ?_⟩
  simp only [World.setWritten, hdf, pendF]
  rw [if_pos (by omega)]
  simp only [World.wrote, wcount_all, List.take_length, World.suspend, World.emit, World.pollBase, World.setCurNet]
  rfl

theorem ev_DAS_settle (w : World) (hl : w.live = true) (hs : w.slot = none)
    (hw : Waiting w.sess.reader w.curNet.rx) (hc : KaCalm w.sess.rt w.now) :
    ev (.DAS w .poll true) = settle w true := by
  rw [ev_DAS]
  simp only [hw.notAvail, Bool.false_eq_true, if_false]
  cases hn : w.sess.data.outbound.nextStep with
  | none =>
    simp only [Option.isNone_none, if_true]
    unfold settle
    rw [hn]
    rfl
  | some st =>
    simp only [Option.isNone_some, Bool.false_eq_true, if_false]
    exact ev_DL_settle w true hl hs hw hc

theorem with_slot_none (x : World) (h : x.slot = none) : ({ x with slot := none } : World) = x := by
  cases x; simp_all

theorem settle_slot (w : World) (adv : Bool) : (settle w adv).slot = w.slot := by
  unfold settle
  repeat' split
  all_goals first | rfl | exact failStep_slot _ _ _

/-- The world in which the drive loop goes on after a completed flush (trace `o`). -/
def flushedW (W : World) (pkt : Flushed) (now : Nat) (o : List String) : World :=
  { W with sess := W.sess.completeFlush pkt now, fut := none, out := o, slot := none, wakes := 0,
           lastIoStarved := false }

/-- **The flush decision.** The flush completes: the entry is `Sent` (a control entry leaves its
queue), and the drive loop goes on to where it comes to rest next. -/
theorem step_flush (W : World) (adv : Bool) (pkt : Flushed) (now : Nat)
    (h : W.fut = some (.stepFlush (.drive adv .poll) pkt now)) (hl : W.live = true)
    (hw : Waiting W.sess.reader W.curNet.rx) (hc : KaCalm (W.sess.completeFlush pkt now).rt W.now) :
    ∃ o, step W = settle (flushedW W pkt now o) true := by
  refine ⟨s!"f {W.netIdx} ok @{W.now}" :: W.out, ?_⟩
  rw [step_ev W _ h]
  simp only [resumeCall]
  rw [ev_DSF, ioFlush_some _ 250 rfl (by omega)]
  simp only []
  rw [ev_SR]
  simp only [Bool.or_true]
  change ({ ev (.DAS (flushedW W pkt now (s!"f {W.netIdx} ok @{W.now}" :: W.out)) .poll true) with slot := none } : World) = _
  have e := ev_DAS_settle (flushedW W pkt now (s!"f {W.netIdx} ok @{W.now}" :: W.out)) hl rfl hw hc
  simp only [] at e ⊢
  rw [e]
  exact with_slot_none _ (by rw [settle_slot]; rfl)

/-! ### The read decision -/

theorem ioRead_starved (w : World) (n k : Nat) (hs : w.slot = some k) (hk : k ≤ 250) (hrx : w.curNet.rx = []) :
    w.ioRead n = ({ (({ w with slot := none } : World).emit s!"rs {w.netIdx}") with lastIoStarved := true }, .pending) := by
  unfold World.ioRead
  rw [hs]
  simp only []
  rw [if_pos hk]
  have hc : ({ w with slot := none } : World).curNet.rx = [] := hrx
  have h0 : (if k = 250 then min n ({ w with slot := none } : World).curNet.rx.length
      else min k (min n ({ w with slot := none } : World).curNet.rx.length)) = 0 := by
    rw [hc]; split <;> simp
  rw [if_pos h0]
  rfl

/-- `read_packet` on a reader that has to wait: the window is offered as it is. -/
theorem ev_DWR_waiting (w : World) (outer : Outer) (dl : Option Nat) (y : Bool) (n : Nat) (hn0 : n ≠ 0)
    (hna : w.sess.reader.packetAvailable = false) (hwin : w.sess.reader.receiveWindow = some (w.sess.reader, n)) :
    ev (.DWR w outer dl y) =
      match w.ioRead n with
      | (w, .eof) => (w.handleDisconnect).finishErr (outerName outer) .disconnected
      | (w, .err k) => (w.handleDisconnect).finishErr (outerName outer) (.transport k)
      | (w, .ok bytes) => ev (.DWR { w with sess := w.sess.commit bytes } outer dl y)
      | (w, .pending) =>
        match dl with
        | none => w.suspend (.waitRead outer none true)
        | some d =>
          if w.now ≥ d then
            if y then ev (.DE w outer)
            else
              if w.wakes + 1 ≥ 64 then
                ({ w with wakes := w.wakes + 1 }.emit "spin").suspend (.waitRead outer dl true)
              else ev (.DWR { w with wakes := w.wakes + 1 } outer dl true)
          else w.suspend (.waitRead outer dl true) := by
  rw [ev_DWR]
  simp only [hna, Bool.false_eq_true, if_false, session_window_of hwin, if_neg hn0]
  rfl

/-- **Nothing to read.** The transport has delivered everything: the read is starved and the operation
stays suspended where it was (this is what stops `go`). -/
theorem step_starved (W : World) (outer : Outer) (dl : Option Nat) (y : Bool)
    (h : W.fut = some (.waitRead outer dl y)) (hw : Waiting W.sess.reader W.curNet.rx)
    (hrx : W.curNet.rx = []) (hdl : DeadlineOK W.now dl) :
    ∃ o, step W = { W with fut := some (.waitRead outer dl true), out := o, slot := none, wakes := 0,
                           lastIoStarved := true } := by
  refine ⟨s!"rs {W.netIdx}" :: W.out, ?_⟩
  rw [step_ev W _ h]
  simp only [resumeCall]
  obtain ⟨n, hn0, hwin⟩ := hw.win
  rw [ev_DWR_waiting (({ W with slot := some 250 } : World).pollBase) outer dl y n hn0 hw.notAvail hwin,
    ioRead_starved (({ W with slot := some 250 } : World).pollBase) n 250 rfl (Nat.le_refl _) hrx]
  simp only []
  cases dl with
  | none => rfl
  | some d =>
    simp only []
    rw [if_neg (by show ¬ (W.now ≥ d); simp only [DeadlineOK] at hdl; omega)]
    rfl

/-- **More bytes are needed** (and the transport has some): they are taken, and the operation waits in
the same read again. -/
theorem step_more (W : World) (outer : Outer) (dl : Option Nat) (y : Bool)
    (h : W.fut = some (.waitRead outer dl y)) (hdl : DeadlineOK W.now dl)
    (hw : Waiting W.sess.reader W.curNet.rx) (hne : W.curNet.rx ≠ [])
    (hkind : readKind W.sess.reader W.curNet.rx (W.readCount 250) = .more) :
    step W = W.withRead (W.sess.reader.holding (W.sess.reader.data ++ W.curNet.rx.take (W.readCount 250)))
        (W.curNet.rx.drop (W.readCount 250)) [W.rpLine, W.rLine (W.readCount 250)]
        (some (.waitRead outer dl true)) ∧
    Waiting (W.sess.reader.holding (W.sess.reader.data ++ W.curNet.rx.take (W.readCount 250)))
      (W.curNet.rx.drop (W.readCount 250)) ∧
    (W.curNet.rx.drop (W.readCount 250) = [] →
      frame1 W.sess.reader.cap (W.sess.reader.data ++ W.curNet.rx) =
        .stop (.exhausted (W.sess.reader.data ++ W.curNet.rx))) := by
  rw [← execDirective_d250 W (by rw [h]; rfl)]
  exact d_more W outer dl y 250 h hdl hw hne (by omega) (Nat.le_refl _) hkind

/-- The session after `take_packet` handed off the packet `pkt`. -/
def took (s : Session) (pkt : Bytes) : Session :=
  { s with reader := { s.reader with data := [], packetLength := none, last := pkt } }

theorem takePkt_packetOf (s : Session) (R : Reader) (pkt : Bytes) (p : Recv) (hr : s.reader = R.packetOf pkt)
    (hp : fromBuffer pkt = some p) : s.takePkt = (took s pkt, some (pkt.length, p)) := by
  simp only [Session.takePkt, Reader.takePacket, took, hr, Reader.packetOf, List.take_length, hp]

/-- `process_received_packet` when the packet decodes and `handle_packet` has nothing to deliver. -/
theorem prp_handled (X : World) (R : Reader) (pkt : Bytes) (p : Recv) (hr : X.sess.reader = R.packetOf pkt)
    (hp : fromBuffer pkt = some p) (hres : ((took X.sess pkt).handle p).2 = .ok false) :
    X.processReceivedPacket = ({ X with sess := ((took X.sess pkt).handle p).1 }, .ok none) := by
  have hav : X.sess.reader.packetAvailable = true := by
    rw [hr]; simp [Reader.packetOf, Reader.packetAvailable, Reader.readBytes]
  unfold World.processReceivedPacket
  rw [hav, takePkt_packetOf X.sess R pkt p hr hp]
  simp only [Bool.not_true, Bool.false_eq_true, if_false]
  cases hh : (took X.sess pkt).handle p with
  | mk s2 r =>
    rw [hh] at hres
    simp only [] at hres
    subst hres
    rfl

/-- The world in which the drive loop goes on after an inbound packet has been handled: session
`S`, `rest` left in the transport, trace `o`. -/
def recvW (W : World) (S : Session) (rest : Bytes) (o : List String) : World :=
  { W with sess := S, nets := W.nets.dropLast ++ [{ W.curNet with rx := rest }], fut := none, out := o,
           slot := none, wakes := 0, lastIoStarved := false }

theorem handle_reader' (s : Session) (p : Recv) : (s.handle p).1.reader = s.reader := rfl

/-- **The read decision completes a packet.** It is decoded and handled; `handle_packet` has nothing
to deliver (an acknowledgement), so the round has advanced and the drive loop goes on to where it
comes to rest next. -/
theorem step_packet (W : World) (dl : Option Nat) (y : Bool)
    (h : W.fut = some (.waitRead .poll dl y)) (hw : Waiting W.sess.reader W.curNet.rx) (hne : W.curNet.rx ≠ [])
    (hkind : readKind W.sess.reader W.curNet.rx (W.readCount 250) = .packet) (hl : W.live = true)
    (hcap : 1 ≤ W.sess.reader.cap) (p : Recv)
    (hp : fromBuffer (W.sess.reader.data ++ W.curNet.rx.take (W.readCount 250)) = some p)
    (hres : ((took W.sess (W.sess.reader.data ++ W.curNet.rx.take (W.readCount 250))).handle p).2 = .ok false)
    (hc : KaCalm ((took W.sess (W.sess.reader.data ++ W.curNet.rx.take (W.readCount 250))).handle p).1.rt W.now) :
    frame1 W.sess.reader.cap (W.sess.reader.data ++ W.curNet.rx) =
      .packet (W.sess.reader.data ++ W.curNet.rx.take (W.readCount 250)) (W.curNet.rx.drop (W.readCount 250)) ∧
    ∃ o, step W = settle (recvW W ((took W.sess (W.sess.reader.data ++ W.curNet.rx.take (W.readCount 250))).handle p).1
      (W.curNet.rx.drop (W.readCount 250)) o) true := by
  obtain ⟨hf, hd⟩ := d_packet W .poll dl y 250 h hw hne (by omega) (Nat.le_refl _) hkind
  refine ⟨hf, [W.rLine (W.readCount 250)] ++ W.out, ?_⟩
  rw [← execDirective_d250 W (by rw [h]; rfl), hd]
  generalize hpkt : W.sess.reader.data ++ W.curNet.rx.take (W.readCount 250) = pkt at *
  generalize hrest : W.curNet.rx.drop (W.readCount 250) = rest at *
  have hde : driveEnter 3998 (W.withRead (W.sess.reader.packetOf pkt) rest [W.rLine (W.readCount 250)] none) .poll =
      ev (.DE (W.withRead (W.sess.reader.packetOf pkt) rest [W.rLine (W.readCount 250)] none) .poll) :=
    run_ev (.DE _ .poll) 3998 (by decide)
  rw [hde, ev_DE]
  have hlive : (W.withRead (W.sess.reader.packetOf pkt) rest [W.rLine (W.readCount 250)] none).live = true := hl
  simp only [hlive, Bool.not_true, Bool.false_eq_true, if_false]
  rw [ev_DL]
  have hav : (W.withRead (W.sess.reader.packetOf pkt) rest [W.rLine (W.readCount 250)] none).sess.reader.packetAvailable = true := by
    simp [World.withRead, Reader.packetOf, Reader.packetAvailable, Reader.readBytes]
  simp only [hav, if_true]
  rw [prp_handled (W.withRead (W.sess.reader.packetOf pkt) rest [W.rLine (W.readCount 250)] none)
    W.sess.reader pkt p rfl hp hres]
  simp only []
  have hsettle := ev_DL_settle (recvW W ((took W.sess pkt).handle p).1 rest ([W.rLine (W.readCount 250)] ++ W.out)) true hl rfl
    (by
      apply Waiting_fresh
      · rfl
      · rfl
      · exact hcap) hc
  have heq : ({ W.withRead (W.sess.reader.packetOf pkt) rest [W.rLine (W.readCount 250)] none with
      sess := ((took (W.withRead (W.sess.reader.packetOf pkt) rest [W.rLine (W.readCount 250)] none).sess pkt).handle p).1 } : World) =
      recvW W ((took W.sess pkt).handle p).1 rest ([W.rLine (W.readCount 250)] ++ W.out) := rfl
  rw [heq, hsettle]
  exact with_slot_none _ (by rw [settle_slot]; rfl)

/-! ### Calling `poll()` -/

/-- The world `poll()` starts in: a suspended operation is dropped (trace `o`, ghost marks `t`). -/
def startW (W : World) (o : List String) (t : List Nat) : World :=
  { W with fut := none, out := o, tornNets := t, wakes := 0, lastIoStarved := false }

/-- **`poll()` is called** on a live connection with no decision at hand: whatever was suspended is
dropped, and the new operation comes to rest at its first I/O call. -/
theorem poll_start (W : World) (hl : W.live = true) (hs : W.slot = none)
    (hw : Waiting W.sess.reader W.curNet.rx) (hc : KaCalm W.sess.rt W.now) :
    ∃ o t, W.execDirective .poll = settle (startW W o t) false := by
  have hconn : W.conn.isNone = false := by
    unfold World.live at hl
    cases hcn : W.conn with
    | none => rw [hcn] at hl; simp at hl
    | some c => rfl
  have key : ∀ X : World, X.live = true → X.slot = none → Waiting X.sess.reader X.curNet.rx →
      KaCalm X.sess.rt X.now → driveEnter pollFuel X .poll = settle X false := by
    intro X h1 h2 h3 h4
    have : driveEnter pollFuel X .poll = ev (.DE X .poll) := run_ev (.DE X .poll) pollFuel fuelBound_le_pollFuel
    rw [this, ev_DE]
    simp only [h1, Bool.not_true, Bool.false_eq_true, if_false]
    exact ev_DL_settle X false h1 h2 h3 h4
  simp only [World.execDirective, World.startOp, hconn, Bool.false_eq_true, if_false]
  unfold World.cancelFut
  split
  · exact ⟨"cancel" :: W.out, W.tornAfterDrop, key (startW W ("cancel" :: W.out) W.tornAfterDrop) hl hs hw hc⟩
  · rename_i hf
    have hfn : W.fut = none := by cases hfu : W.fut <;> simp_all
    refine ⟨W.out, W.tornNets, ?_⟩
    have := key (startW W W.out W.tornNets) hl hs hw hc
    rw [← this]
    unfold startW
    rw [hfn]


end Quiesce
end Minimq
