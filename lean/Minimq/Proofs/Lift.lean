import Minimq.Proofs.Ops
import Minimq.Proofs.Arena
/-
Lifting: a predicate on the session that is preserved by each primitive through which the
operations change the session (`Closed`) holds after every program (`run_inv`) — induction over
the fuel of the thirteen mutually recursive machine functions, then over the directive list.
-/
namespace Minimq
open Gen World

/-- What it takes for a predicate on the session to be an invariant of every execution: it is
preserved by each primitive through which the operations change the session. -/
structure Closed (P : Session → Prop) : Prop where
  queuePing : ∀ s now s', P s → s.queuePing now = .ok s' → P s'
  completeFlush : ∀ s pkt now, P s → P (s.completeFlush pkt now)
  setWritten : ∀ s pkt a c, P s → P (s.setWritten pkt a c)
  takePkt : ∀ s, P s → P s.takePkt.1
  handle : ∀ s p, P s → P (s.handle p).1
  handleDisconnect : ∀ s, P s → P s.handleDisconnect
  activate : ∀ s sp block now, P s → P (s.activate sp block now).1
  alloc : ∀ s, P s → P s.alloc.1
  encodeConnect : ∀ s c, P s → P (s.encode (ε := SerErr) (fun cap _ => encodeConnect cap c)).1
  encodeAfterAlloc : ∀ {ε : Type} s (enc : Nat → (Nat → Nat → Bytes) → Except ε (Nat × Bytes)), EncOk enc → P s →
    P (s.alloc.1.encode enc).1
  encodeScratch : ∀ {ε : Type} s (enc : Nat → (Nat → Nat → Bytes) → Except ε (Nat × Bytes)), EncOk enc → P s →
    P (s.encode enc).1
  enqueue : ∀ {ε : Type} s (enc : Nat → (Nat → Nat → Bytes) → Except ε (Nat × Bytes)) off len isPub s3 typ, EncOk enc →
    EncTyp enc typ → (isPub = true ↔ typ = MT_Publish) → P s →
    (isPub = true → s.rt.sendQuota ≠ 0) → (s.alloc.1.encode enc).2 = .ok (off, len) →
    (s.alloc.1.encode enc).1.retain s.alloc.2 off len isPub = some s3 → P s3
  clearPing : ∀ s, P s → P s.clearPing
  noteActivity : ∀ s now, P s → P (s.noteActivity now)
  window : ∀ s s' n, P s → s.window = some (s', n) → P s'
  commit : ∀ s bytes, P s → P (s.commit bytes)
  beginConnect : ∀ s, P s → P s.beginConnect
  setPid : ∀ s n, 1 ≤ n → n ≤ 65535 → P s → P (s.setPid n)

theorem ite_fst_sess {α} (c : Prop) [Decidable c] (a b : World × α) (s : Session)
    (ha : a.1.sess = s) (hb : b.1.sess = s) : (if c then a else b).1.sess = s := by
  split <;> assumption

@[simp] theorem ioRead_sess (w : World) (n : Nat) : (w.ioRead n).1.sess = w.sess := by
  unfold World.ioRead
  cases w.slot with
  | none => rfl
  | some k =>
    simp only []
    repeat (first | rfl | apply ite_fst_sess)

@[simp] theorem ioWrite_sess (w : World) (bs : Bytes) : (w.ioWrite bs).1.sess = w.sess := by
  unfold World.ioWrite
  cases w.slot with
  | none => rfl
  | some k =>
    simp only []
    repeat (first | rfl | apply ite_fst_sess)

@[simp] theorem ioFlush_sess (w : World) : (w.ioFlush).1.sess = w.sess := by
  unfold World.ioFlush
  cases w.slot with
  | none => rfl
  | some k =>
    simp only []
    repeat (first | rfl | apply ite_fst_sess)

@[simp] theorem emit_sess (w : World) (l : String) : (w.emit l).sess = w.sess := rfl
@[simp] theorem suspend_sess (w : World) (pc : Pc) : (w.suspend pc).sess = w.sess := rfl
@[simp] theorem handleDisconnect_sess (w : World) : (w.handleDisconnect).sess = w.sess.handleDisconnect := rfl
@[simp] theorem finishOp_sess (w : World) (n : String) (op : Op) : (w.finishOp n op).sess = w.sess := rfl

@[simp] theorem cancelFut_sess (w : World) : (w.cancelFut).sess = w.sess := by
  unfold World.cancelFut; split <;> rfl

@[simp] theorem dropConn_sess (w : World) : (w.dropConn).sess = w.sess := by
  unfold World.dropConn
  simp only []
  split
  · simp [World.emit]
  · simp

theorem deliver_sess (w : World) (n : String) (len : Nat) : (w.deliver n len).sess = w.sess := by
  unfold World.deliver
  simp only []
  split
  · have : ∀ (ls : List String) (w0 : World), (ls.foldl World.emit w0).sess = w0.sess := by
      intro ls; induction ls with
      | nil => intro w0; rfl
      | cons l ls ih => intro w0; simp [List.foldl, ih]
    rw [this]; rfl
  · rfl

section
variable {P : Session → Prop} (hc : Closed P)
include hc

theorem processReceivedPacket_inv (w : World) (h : P w.sess) : P (w.processReceivedPacket).1.sess := by
  unfold World.processReceivedPacket
  split
  · exact h
  · simp only []
    have h1 := hc.takePkt w.sess h
    split
    · simpa using hc.handleDisconnect _ h1
    · rename_i len pkt hres
      have h2 := hc.handle w.sess.takePkt.1 pkt h1
      split <;> first | exact h2 | (simpa using hc.handleDisconnect _ h2)

theorem activate_inv (w : World) (sp : Bool) (block : Bytes) (h : P w.sess) : P (World.activate w sp block).sess := by
  unfold World.activate
  have h1 := hc.activate w.sess sp block w.now h
  split
  · rename_i s e heq; rw [heq] at h1; simpa using h1
  · rename_i s heq; rw [heq] at h1; simpa using h1

theorem connectGotPacket_inv (w : World) (h : P w.sess) : P (World.connectGotPacket w).sess := by
  unfold World.connectGotPacket
  simp only []
  have h1 := hc.takePkt w.sess h
  split
  · simpa using hc.handleDisconnect _ h1
  · split
    · simpa using h1
    · exact activate_inv hc _ _ _ (by simpa using h1)
  · simpa using hc.handleDisconnect _ h1
  · simpa using hc.handleDisconnect _ h1

theorem maybeQueuePingreq_inv (w w' : World) (now : Nat) (h : P w.sess) (hq : w.maybeQueuePingreq now = .ok w') :
    P w'.sess := by
  unfold World.maybeQueuePingreq at hq
  split at hq
  · simp at hq
  · rename_i s hs
    simp at hq; subst hq
    exact hc.queuePing _ _ _ h hs
end

section
variable {P : Session → Prop} (hc : Closed P)
include hc

/-- The statement proved for all thirteen mutually recursive machine functions at once. -/
def MachineInv (P : Session → Prop) (fuel : Nat) : Prop :=
  (∀ w k, P w.sess → P (flushLoop fuel w k).sess) ∧
  (∀ w ctx step now, P w.sess → P (performStep fuel w ctx step now).sess) ∧
  (∀ w ctx pkt bytes wr len now, P w.sess → P (doStepWrite fuel w ctx pkt bytes wr len now).sess) ∧
  (∀ w ctx pkt now, P w.sess → P (doStepFlush fuel w ctx pkt now).sess) ∧
  (∀ w ctx adv, P w.sess → P (stepReturned fuel w ctx adv).sess) ∧
  (∀ w k, P w.sess → P (afterFlush fuel w k).sess) ∧
  (∀ w which bytes, P w.sess → P (doLocalWrite fuel w which bytes).sess) ∧
  (∀ w which, P w.sess → P (doLocalFlush fuel w which).sess) ∧
  (∀ w, P w.sess → P (doConnRead fuel w).sess) ∧
  (∀ w o adv, P w.sess → P (driveLoop fuel w o adv).sess) ∧
  (∀ w o adv, P w.sess → P (driveAfterService fuel w o adv).sess) ∧
  (∀ w o, P w.sess → P (driveEnter fuel w o).sess) ∧
  (∀ w o d y, P w.sess → P (doWaitRead fuel w o d y).sess)

omit hc in
theorem machine_inv_zero : MachineInv P 0 := by
  refine ⟨?_, ?_, ?_, ?_, ?_, ?_, ?_, ?_, ?_, ?_, ?_, ?_, ?_⟩ <;> intros <;>
    simp only [flushLoop, performStep, doStepWrite, doStepFlush, stepReturned, afterFlush, doLocalWrite, doLocalFlush,
      doConnRead, driveLoop, driveAfterService, driveEnter, doWaitRead, emit_sess] <;> assumption

omit hc in
theorem io_write_sess' {w w' : World} {bs : Bytes} {r : WriteRes} (h : w.ioWrite bs = (w', r)) : w'.sess = w.sess := by
  have := ioWrite_sess w bs; rw [h] at this; exact this
omit hc in
theorem io_flush_sess' {w w' : World} {r : FlushRes} (h : w.ioFlush = (w', r)) : w'.sess = w.sess := by
  have := ioFlush_sess w; rw [h] at this; exact this
omit hc in
theorem io_read_sess' {w w' : World} {n : Nat} {r : ReadRes} (h : w.ioRead n = (w', r)) : w'.sess = w.sess := by
  have := ioRead_sess w n; rw [h] at this; exact this

theorem discFail_inv (w : World) (ctx : StepCtx) (h : P w.sess) : P (w.discFail ctx).sess := by
  rcases discFail_cases w ctx with ⟨e, _⟩ | ⟨e, _⟩ <;> rw [e]
  · exact h
  · simpa using hc.handleDisconnect _ h

theorem failStep_inv (w : World) (ctx : StepCtx) (st : Outbound.Step) (h : P w.sess) : P (w.failStep ctx st).sess := by
  rcases failStep_cases w ctx st with e | e <;> rw [e]
  · exact h
  · simpa using hc.handleDisconnect _ h

theorem step_stepReturned (fuel : Nat) (ih : MachineInv P fuel) :
    ∀ w ctx adv, P w.sess → P (stepReturned (fuel + 1) w ctx adv).sess := by
  intro w ctx adv h
  obtain ⟨i1, _, _, _, _, _, _, _, _, _, i11, _, _⟩ := ih
  unfold stepReturned
  split
  · exact i1 _ _ h
  · exact i11 _ _ _ h

theorem step_doStepFlush (fuel : Nat) (ih : MachineInv P fuel) :
    ∀ w ctx pkt now, P w.sess → P (doStepFlush (fuel + 1) w ctx pkt now).sess := by
  intro w ctx pkt now h
  obtain ⟨_, _, _, _, i5, _⟩ := ih
  simp only [doStepFlush]
  split
  · rename_i w' heq; simp [io_flush_sess' heq, h]
  · rename_i w' k heq; simpa [io_flush_sess' heq] using hc.handleDisconnect _ h
  · rename_i w' heq
    apply i5
    simp only [World.completeFlush, io_flush_sess' heq]
    exact hc.completeFlush _ _ _ h

theorem step_doStepWrite (fuel : Nat) (ih : MachineInv P fuel) :
    ∀ w ctx pkt bytes wr len now, P w.sess → P (doStepWrite (fuel + 1) w ctx pkt bytes wr len now).sess := by
  intro w ctx pkt bytes wr len now h
  obtain ⟨_, _, _, i4, i5, _⟩ := ih
  simp only [doStepWrite]
  split
  · rename_i w' heq; simp [io_write_sess' heq, h]
  · rename_i w' heq; simp only [finishErr_sess]; exact discFail_inv hc _ _ (by rw [io_write_sess' heq]; exact h)
  · rename_i w' k heq; simpa [io_write_sess' heq] using hc.handleDisconnect _ h
  · rename_i w' count heq
    have h2 : P (w'.setWritten pkt (wr + count) len).sess := by
      simp only [World.setWritten, io_write_sess' heq]; exact hc.setWritten _ _ _ _ h
    split
    · exact i5 _ _ _ h2
    · exact i4 _ _ _ _ h2

theorem step_performStep (fuel : Nat) (ih : MachineInv P fuel) :
    ∀ w ctx step now, P w.sess → P (performStep (fuel + 1) w ctx step now).sess := by
  intro w ctx step now h
  obtain ⟨_, _, i3, i4, i5, _⟩ := ih
  simp only [performStep]
  split
  · simpa using failStep_inv hc _ _ _ h
  · exact i5 _ _ _ h
  · split
    · simpa using discFail_inv hc _ _ h
    · exact i4 _ _ _ _ h
  · split
    · simpa using discFail_inv hc _ _ h
    · exact i3 _ _ _ _ _ _ _ h

theorem step_flushLoop (fuel : Nat) (ih : MachineInv P fuel) :
    ∀ w k, P w.sess → P (flushLoop (fuel + 1) w k).sess := by
  intro w k h
  obtain ⟨_, i2, _, _, _, i6, _⟩ := ih
  simp only [flushLoop]
  split
  · simpa using discFail_inv hc _ _ h
  · rename_i w' heq
    have h' := maybeQueuePingreq_inv hc w w' w.now h heq
    split
    · exact i6 _ _ h'
    · exact i2 _ _ _ _ h'

theorem step_driveEnter (fuel : Nat) (ih : MachineInv P fuel) :
    ∀ w o, P w.sess → P (driveEnter (fuel + 1) w o).sess := by
  intro w o h
  obtain ⟨_, _, _, _, _, _, _, _, _, i10, _⟩ := ih
  simp only [driveEnter]
  split
  · simpa using h
  · exact i10 _ _ _ h

theorem step_doLocalFlush (fuel : Nat) (ih : MachineInv P fuel) :
    ∀ w which, P w.sess → P (doLocalFlush (fuel + 1) w which).sess := by
  intro w which h
  obtain ⟨_, _, _, _, _, _, _, _, i9, _⟩ := ih
  simp only [doLocalFlush]
  split
  · rename_i w' heq; simp [io_flush_sess' heq, h]
  · rename_i w' k heq
    have hs := io_flush_sess' heq
    split
    · simpa [hs] using h
    · split
      · simpa [hs] using hc.handleDisconnect _ h
      · simpa [hs] using hc.handleDisconnect _ h
  · rename_i w' heq
    have hs := io_flush_sess' heq
    split
    · apply i9; simp only [hs]; exact hc.clearPing _ h
    · split
      · simp only [finish_sess, hs]; exact hc.noteActivity _ _ h
      · simpa [hs] using hc.handleDisconnect _ h

theorem step_doLocalWrite (fuel : Nat) (ih : MachineInv P fuel) :
    ∀ w which bytes, P w.sess → P (doLocalWrite (fuel + 1) w which bytes).sess := by
  intro w which bytes h
  obtain ⟨_, _, _, _, _, _, i7, i8, _⟩ := ih
  simp only [doLocalWrite]
  split
  · apply i8
    rcases discDone_cases w which with ⟨e, _⟩ | ⟨e, _⟩ <;> rw [e]
    · exact h
    · simpa using hc.handleDisconnect _ h
  · split
    · rename_i w' heq; simp [io_write_sess' heq, h]
    · rename_i w' n heq; exact i7 _ _ _ (by simpa [io_write_sess' heq] using h)
    · rename_i w' heq
      have hs := io_write_sess' heq
      split
      · simpa [hs] using h
      · split <;> simpa [hs] using hc.handleDisconnect _ h
    · rename_i w' k heq
      have hs := io_write_sess' heq
      split
      · simpa [hs] using h
      · split <;> simpa [hs] using hc.handleDisconnect _ h

theorem step_doConnRead (fuel : Nat) (ih : MachineInv P fuel) :
    ∀ w, P w.sess → P (doConnRead (fuel + 1) w).sess := by
  intro w h
  obtain ⟨_, _, _, _, _, _, _, _, i9, _⟩ := ih
  simp only [doConnRead]
  split
  · exact connectGotPacket_inv hc _ h
  · split
    · simpa using hc.handleDisconnect _ h
    · rename_i s1 window hw
      have h1 := hc.window _ _ _ h hw
      split
      · exact connectGotPacket_inv hc _ h1
      · split
        · rename_i w' heq; simpa [io_read_sess' heq] using h1
        · rename_i w' heq; simpa [io_read_sess' heq] using hc.handleDisconnect _ h1
        · rename_i w' k heq; simpa [io_read_sess' heq] using hc.handleDisconnect _ h1
        · rename_i w' bytes heq
          apply i9
          simp only [io_read_sess' heq]
          exact hc.commit _ _ h1

theorem step_doWaitRead (fuel : Nat) (ih : MachineInv P fuel) :
    ∀ w o d y, P w.sess → P (doWaitRead (fuel + 1) w o d y).sess := by
  intro w o d y h
  obtain ⟨_, _, _, _, _, _, _, _, _, _, _, i12, i13⟩ := ih
  simp only [doWaitRead]
  split
  · exact i12 _ _ h
  · split
    · simpa using hc.handleDisconnect _ h
    · rename_i s1 window hw
      have h1 := hc.window _ _ _ h hw
      split
      · exact i12 _ _ h1
      · split
        · rename_i w' heq; simpa [io_read_sess' heq] using hc.handleDisconnect _ h1
        · rename_i w' k heq; simpa [io_read_sess' heq] using hc.handleDisconnect _ h1
        · rename_i w' bytes heq
          apply i13
          simp only [io_read_sess' heq]
          exact hc.commit _ _ h1
        · rename_i w' heq
          have hs := io_read_sess' heq
          split
          · simpa [hs] using h1
          · split
            · split
              · exact i12 _ _ (by simpa [hs] using h1)
              · split
                · simpa [hs] using h1
                · exact i13 _ _ _ _ (by simpa [hs] using h1)
            · simpa [hs] using h1

theorem step_driveLoop (fuel : Nat) (ih : MachineInv P fuel) :
    ∀ w o adv, P w.sess → P (driveLoop (fuel + 1) w o adv).sess := by
  intro w o adv h
  obtain ⟨_, i2, _, _, _, _, _, _, _, i10, i11, _, _⟩ := ih
  simp only [driveLoop]
  split
  · have h1 := processReceivedPacket_inv hc w h
    split
    · rename_i w' e heq; rw [heq] at h1; simpa using h1
    · rename_i w' len heq; rw [heq] at h1; rw [deliver_sess]; exact h1
    · rename_i w' heq; rw [heq] at h1; exact i10 _ _ _ h1
  · repeat' split
    all_goals first
      | (simpa using hc.handleDisconnect _ h)
      | (simpa using h)
      | exact i11 _ _ _ (maybeQueuePingreq_inv hc _ _ _ h (by assumption))
      | exact i2 _ _ _ _ (maybeQueuePingreq_inv hc _ _ _ h (by assumption))

theorem step_driveAfterService (fuel : Nat) (ih : MachineInv P fuel) :
    ∀ w o adv, P w.sess → P (driveAfterService (fuel + 1) w o adv).sess := by
  intro w o adv h
  obtain ⟨_, _, _, _, _, _, _, _, _, i10, _, i12, i13⟩ := ih
  unfold driveAfterService
  split
  · have h1 := processReceivedPacket_inv hc w h
    split
    · rename_i w' e heq; rw [heq] at h1; simpa using h1
    · rename_i w' len heq; rw [heq] at h1; rw [deliver_sess]; exact h1
    · rename_i w' heq; rw [heq] at h1; exact i10 _ _ _ h1
  · split
    · split
      · split
        · simpa using h
        · simpa using h
        · exact i12 _ _ h
      · split
        · simpa using h
        · exact i13 _ _ _ _ h
    · exact i10 _ _ _ h

theorem step_afterFlush (fuel : Nat) (ih : MachineInv P fuel) :
    ∀ w k, P w.sess → P (afterFlush (fuel + 1) w k).sess := by
  intro w k h
  obtain ⟨i1, _, _, _, _, _, i7, _⟩ := ih
  unfold afterFlush
  cases k with
  | post name op => simpa using h
  | discPre d =>
    simp only []
    repeat' split
    all_goals first
      | (simpa using h)
      | exact i7 _ _ _ h
  | subPre r =>
    simp only []
    split
    · simpa using h
    · have ha := hc.encodeAfterAlloc w.sess (fun cap _ =>
        encodeWithOffset cap (subscribeChunks w.sess.alloc.2 (.slice r.props) r.topics) MT_Subscribe FLAGS_Subscribe)
        (EncOk_encodeWithOffset _ _ _) h
      split
      · simpa using ha
      · split
        · simpa using ha
        · split
          · simpa using ha
          · rename_i s3 hs3
            apply i1
            rename_i _ off len hres _ _
            exact hc.enqueue w.sess _ _ _ false s3 _ (EncOk_encodeWithOffset _ _ _) (EncTyp_encodeWithOffset _ _ _ (by decide)) (by decide) h (by simp) hres hs3
  | unsubPre r =>
    simp only []
    split
    · simpa using h
    · have ha := hc.encodeAfterAlloc w.sess (fun cap _ =>
        encodeWithOffset cap (unsubscribeChunks w.sess.alloc.2 (.slice r.props) r.topics) MT_Unsubscribe FLAGS_Unsubscribe)
        (EncOk_encodeWithOffset _ _ _) h
      split
      · simpa using ha
      · split
        · simpa using ha
        · split
          · simpa using ha
          · rename_i s3 hs3
            apply i1
            rename_i _ off len hres _ _
            exact hc.enqueue w.sess _ _ _ false s3 _ (EncOk_encodeWithOffset _ _ _) (EncTyp_encodeWithOffset _ _ _ (by decide)) (by decide) h (by simp) hres hs3
  | publishPre r =>
    simp only []
    split
    · simpa using h
    · generalize effectiveQos w.sess.rt.maxQos w.sess.downgrade r.qos = qos
      split
      · -- QoS > 0
        have h1 := hc.alloc w.sess h
        split
        · simpa using h1
        · split
          · simpa using h1
          · rename_i hcan
            have ha := hc.encodeAfterAlloc w.sess (fun cap fill => encodePublishWithOffset cap
              { topic := r.topic, packetId := some w.sess.alloc.2, props := r.props, retain := r.retain,
                qos := qos, dup := false } r.payload fill) (EncOk_encodePublish _ _) h
            split
            · simpa using ha
            · split
              · simpa using ha
              · split
                · simpa using ha
                · rename_i s3 hs3
                  apply i1
                  rename_i _ off len hres _ _
                  refine hc.enqueue w.sess _ _ _ true s3 _ (EncOk_encodePublish _ _) (EncTyp_encodePublish _ _) (by decide) h ?_ hres hs3
                  intro _
                  have hq : qos ≠ 0 := by omega
                  have hcp : canPublishS w.sess.alloc.1.data w.sess.alloc.1.rt qos = true := by
                    simp at hcan; exact hcan.2
                  simp only [canPublishS, hq, if_false, Bool.and_eq_true, bne_iff_ne, ne_eq, decide_eq_true_eq] at hcp
                  have hrt : w.sess.alloc.1.rt = w.sess.rt := rfl
                  rw [hrt] at hcp
                  exact hcp.1
      · -- QoS 0
        split
        · simpa using h
        · have ha := hc.encodeScratch w.sess (fun cap fill => encodePublishWithOffset cap
            { topic := r.topic, packetId := none, props := r.props, retain := r.retain, qos := 0, dup := false } r.payload fill)
            (EncOk_encodePublish _ _) h
          split
          · simpa using ha
          · split
            · simpa using ha
            · exact i7 _ _ _ ha

theorem machine_inv : ∀ fuel, MachineInv P fuel := by
  intro fuel
  induction fuel with
  | zero => exact machine_inv_zero
  | succ fuel ih =>
    exact ⟨step_flushLoop hc fuel ih, step_performStep hc fuel ih, step_doStepWrite hc fuel ih,
      step_doStepFlush hc fuel ih, step_stepReturned hc fuel ih, step_afterFlush hc fuel ih,
      step_doLocalWrite hc fuel ih, step_doLocalFlush hc fuel ih, step_doConnRead hc fuel ih,
      step_driveLoop hc fuel ih, step_driveAfterService hc fuel ih, step_driveEnter hc fuel ih,
      step_doWaitRead hc fuel ih⟩

theorem poll_inv (w : World) (h : P w.sess) : P (World.poll w).sess := by
  obtain ⟨_, _, i3, i4, _, _, i7, i8, i9, _, _, _, i13⟩ := machine_inv hc pollFuel
  unfold World.poll
  simp only []
  split
  · exact h
  · split
    · exact i3 _ _ _ _ _ _ _ h
    · exact i4 _ _ _ _ h
    · exact i7 _ _ _ h
    · exact i8 _ _ h
    · exact i9 _ h
    · exact i7 _ _ _ h
    · exact i8 _ _ h
    · exact i7 _ _ _ h
    · exact i8 _ _ h
    · exact i13 _ _ _ _ h

theorem goLoop_inv (n : Nat) (w : World) (h : P w.sess) : P (World.goLoop n w).sess := by
  induction n generalizing w with
  | zero => simpa [World.goLoop] using h
  | succ n ih =>
    simp only [World.goLoop]
    have h1 : P (World.poll { w with slot := some 250 }).sess := poll_inv hc _ h
    repeat' split
    all_goals first
      | exact h1
      | exact ih _ h1

theorem startConnect_inv (w : World) (h : P w.sess) : P (World.startConnect w).sess := by
  obtain ⟨_, _, _, _, _, _, i7, _⟩ := machine_inv hc pollFuel
  unfold World.startConnect
  simp only []
  have hd : (w.dropConn).sess = w.sess := dropConn_sess w
  have h1 : P (w.dropConn).sess.beginConnect := hc.beginConnect _ (hd ▸ h)
  have h2 := hc.encodeConnect _ (w.dropConn).sess.beginConnect.connectPacket h1
  split
  · simpa using h2
  · exact i7 _ _ _ h2

theorem startOp_inv (w : World) (name : String) (body : World → World)
    (hb : ∀ w', w'.sess = w.sess → P (body w').sess) (h : P w.sess) : P (w.startOp name body).sess := by
  unfold World.startOp
  split
  · simpa using h
  · apply hb
    simp

/-- **Every directive preserves every closed predicate on the session.** -/
theorem execDirective_inv (w : World) (d : Directive) (h : P w.sess) : P (w.execDirective d).sess := by
  obtain ⟨i1, _, _, _, _, _, _, _, _, _, _, i12, _⟩ := machine_inv hc pollFuel
  cases d with
  | bad => simpa [World.execDirective] using h
  | connect => exact startConnect_inv hc w h
  | publish r =>
    simp only [World.execDirective]
    apply startOp_inv hc w _ _ _ h
    intro w' hw'
    split
    · simpa [hw'] using h
    · exact i1 _ _ (hw' ▸ h)
  | subscribe r =>
    simp only [World.execDirective]
    apply startOp_inv hc w _ _ _ h
    intro w' hw'
    repeat' split
    all_goals first
      | (simpa [hw'] using h)
      | exact i1 _ _ (hw' ▸ h)
  | unsubscribe r =>
    simp only [World.execDirective]
    apply startOp_inv hc w _ _ _ h
    intro w' hw'
    repeat' split
    all_goals first
      | (simpa [hw'] using h)
      | exact i1 _ _ (hw' ▸ h)
  | disconnect dd =>
    simp only [World.execDirective]
    apply startOp_inv hc w _ _ _ h
    intro w' hw'
    repeat' split
    all_goals first
      | (simpa [hw'] using h)
      | exact i1 _ _ (hw' ▸ h)
  | poll =>
    simp only [World.execDirective]
    exact startOp_inv hc w _ _ (fun w' hw' => i12 _ _ (hw' ▸ h)) h
  | recv =>
    simp only [World.execDirective]
    exact startOp_inv hc w _ _ (fun w' hw' => i12 _ _ (hw' ▸ h)) h
  | drive =>
    simp only [World.execDirective]
    exact startOp_inv hc w _ _ (fun w' hw' => i12 _ _ (hw' ▸ h)) h
  | d n =>
    simp only [World.execDirective]
    split
    · simpa using h
    · exact poll_inv hc _ h
  | go =>
    simp only [World.execDirective]
    split
    · simpa using h
    · exact goLoop_inv hc _ _ h
  | tick us =>
    simp only [World.execDirective]
    split
    · simpa using h
    · split
      · exact poll_inv hc _ h
      · exact h
  | rx bytes =>
    simp only [World.execDirective]
    split
    · simpa using h
    · simpa [World.setCurNet] using h
  | cancel =>
    simp only [World.execDirective, cancelFut_sess]; exact h
  | drop =>
    simp only [World.execDirective, dropConn_sess]; exact h
  | setpid n =>
    simp only [World.execDirective]
    split
    · simpa using h
    · rename_i hn
      simp at hn
      exact hc.setPid _ _ (by omega) (by omega) h
  | decode bs => simpa [World.execDirective] using h

/-- **Every program preserves it**: from any world satisfying `P`, after any list of directives. -/
theorem run_inv (ds : List Directive) (w : World) (h : P w.sess) :
    P (ds.foldl World.execDirective w).sess := by
  induction ds generalizing w with
  | nil => exact h
  | cons d ds ih =>
    simp only [List.foldl]
    exact ih _ (execDirective_inv hc w d h)
end
end Minimq
