import Minimq.Proofs.OutFrame
import Minimq.Proofs.ReaderStream
import Minimq.Proofs.Fuel
/-
C15, read half, at the level of the machine: an operation suspended in `read_packet`
(`Pc.waitRead`) that is resumed with read decisions `d k` assembles the next packet and goes on in
a way that does not depend on how the decisions cut the inbound bytes.

 * reader level: `Waiting` (the reader as `receive_buffer` leaves it when the read has to wait) and
   what one more delivery of `c` bytes leads to (`read_*`), from `Proofs/ReaderStream.lean`;
 * machine level: what `execDirective w (.d k)` does in such a state (`d_partial`, `d_packet`,
   `d_malformed`);
 * `readPacket ks w`: feed read decisions until the one that completes the packet; its result is
   `(w.afterPacket …).addOld (io ++ w.out)` where `afterPacket` does not mention `ks`
   (`readPacket_eq`);
 * programs that differ only in how each packet's reads are cut (`Seg`, `runSegs_sim`).
-/
namespace Minimq
open Gen World

/-! ## Reader level -/

/-- The reader as `receive_buffer` leaves it when `read()` has to be called: probed (asking again
gives the same non-empty window) and consistent with the stream `data ++ rx`. -/
structure Waiting (r : Reader) (rx : Bytes) : Prop where
  inv : RInv r (r.data ++ rx)
  win : ∃ n, n ≠ 0 ∧ r.receiveWindow = some (r, n)
  known : ∀ l, r.packetLength = some l → ∃ hl, fixedHeader r.data = .complete hl l

/-- The probed reader holding `held`: the length is known exactly when `held` contains a complete
fixed header. -/
def Reader.holding (r : Reader) (held : Bytes) : Reader :=
  { r with data := held,
           packetLength := match fixedHeader held with
             | .complete _ t => some t
             | _ => none }

/-- The reader holding the complete packet `pkt`. -/
def Reader.packetOf (r : Reader) (pkt : Bytes) : Reader :=
  { r with data := pkt, packetLength := some pkt.length }

theorem holding_holding (r : Reader) (a c : Bytes) : (r.holding a).holding c = r.holding c := rfl
theorem holding_data (r : Reader) (a : Bytes) : (r.holding a).data = a := rfl
theorem holding_packetOf (r : Reader) (a c : Bytes) : (r.holding a).packetOf c = r.packetOf c := rfl

theorem Waiting.notAvail {r : Reader} {rx : Bytes} (h : Waiting r rx) : r.packetAvailable = false := by
  obtain ⟨n, hn, hw⟩ := h.win
  have := Fuel.offer_available (Fuel.receiveWindow_idem hw).2
  simp [this, hn]

/-- A reader at a packet boundary with room for at least one byte. -/
theorem Waiting_fresh (r : Reader) (rx : Bytes) (hd : r.data = []) (hp : r.packetLength = none)
    (hc : 1 ≤ r.cap) : Waiting r rx := by
  refine ⟨RInv_fresh _ _ hd hp, ⟨1, by omega, ?_⟩, by simp [hp]⟩
  rw [receiveWindow_unknown r hp, hd]
  simp only [fixedHeader, List.length_nil]
  rw [if_pos (by omega)]

theorem Waiting.canonical {r : Reader} {rx : Bytes} (h : Waiting r rx) : r = r.holding r.data := by
  obtain ⟨n, hn, hw⟩ := h.win
  have hk := h.known
  obtain ⟨cap, data, pl, last⟩ := r
  simp only [Reader.holding, Reader.mk.injEq, true_and]
  cases hp : pl with
  | some l =>
    obtain ⟨hl, hfh⟩ := hk l (by simp [hp])
    simp only at hfh
    rw [hfh]
    exact ⟨rfl, trivial⟩
  | none =>
    subst hp
    rw [receiveWindow_unknown _ rfl] at hw
    simp only at hw ⊢
    cases hfh : fixedHeader data with
    | complete hl t =>
      rw [hfh] at hw
      simp only at hw
      split at hw
      · simp at hw
      · simp at hw
    | incomplete => exact ⟨rfl, trivial⟩
    | tooLong => exact ⟨rfl, trivial⟩

theorem RdWInv.toRInv' {r1 : Reader} {s : Bytes} {n : Nat} (h : RdWInv r1 s n) : RInv r1 s := by
  refine ⟨h.fits, ?_, ?_⟩
  · intro l hl
    obtain ⟨a, b, c, _⟩ := h.known l hl
    exact ⟨a, b, c⟩
  · intro hp
    obtain ⟨hinc, _, _⟩ := h.unknown hp
    rcases List.eq_nil_or_concat r1.data with hd | ⟨d, y, hd⟩
    · exact Or.inl hd
    · right
      rw [List.concat_eq_append] at hd
      refine ⟨d, y, hd, ?_⟩
      rw [hd] at hinc
      cases hfd : fixedHeader d with
      | incomplete => rfl
      | complete hl t => rw [fixedHeader_append_complete [y] hfd] at hinc; cases hinc
      | tooLong => rw [fixedHeader_append_tooLong [y] hfd] at hinc; cases hinc

/-- The reader after `c` more bytes. -/
def Reader.fed (r : Reader) (rx : Bytes) (c : Nat) : Reader := r.commit (rx.take c)

theorem fed_data (r : Reader) (rx : Bytes) (c : Nat) : (r.fed rx c).data = r.data ++ rx.take c := rfl
theorem fed_cap (r : Reader) (rx : Bytes) (c : Nat) : (r.fed rx c).cap = r.cap := rfl

theorem fed_stream (r : Reader) (rx : Bytes) (c : Nat) :
    (r.fed rx c).data ++ rx.drop c = r.data ++ rx := by
  simp [Reader.fed, Reader.commit]

/-- Committing a delivery that respects the window keeps the invariant. -/
theorem Waiting.fed_inv {r : Reader} {rx : Bytes} (h : Waiting r rx) {n c : Nat}
    (hw : r.receiveWindow = some (r, n)) (hc1 : 1 ≤ c) (hcn : c ≤ n) (hcl : c ≤ rx.length) :
    RInv (r.fed rx c) (r.data ++ rx) :=
  (window_some h.inv rfl hw).1.commit rfl hc1 hcn hcl

theorem reader_ext {a c : Reader} (h1 : a.cap = c.cap) (h2 : a.data = c.data)
    (h3 : a.packetLength = c.packetLength) (h4 : a.last = c.last) : a = c := by
  cases a; cases c; simp_all

/-- The delivery completes the packet and the length was known: the held bytes are the next packet
of the specification. -/
theorem read_packet {r : Reader} {rx : Bytes} (h : Waiting r rx) {n c : Nat}
    (hw : r.receiveWindow = some (r, n)) (hc1 : 1 ≤ c) (hcn : c ≤ n) (hcl : c ≤ rx.length)
    (ha : (r.fed rx c).packetAvailable = true) :
    frame1 r.cap (r.data ++ rx) = .packet (r.data ++ rx.take c) (rx.drop c) ∧
    r.fed rx c = r.packetOf (r.data ++ rx.take c) := by
  have hinv := h.fed_inv hw hc1 hcn hcl
  have hts := take_spec hinv (fed_stream r rx c).symm ha
  refine ⟨hts.2.1, ?_⟩
  cases hp : (r.fed rx c).packetLength with
  | none => simp [Reader.packetAvailable, hp] at ha
  | some l =>
    have hge : l ≤ (r.fed rx c).data.length := by
      simpa [Reader.packetAvailable, hp, Reader.readBytes] using ha
    obtain ⟨_, _, hle⟩ := hinv.known l hp
    refine reader_ext rfl rfl ?_ rfl
    rw [hp]
    show some l = some (r.data ++ rx.take c).length
    rw [← fed_data]; congr 1; omega

/-- The delivery completes the packet and the length becomes known by it (the last header byte of a
packet without body): the next `receive_buffer` probes and offers an empty window. -/
theorem read_zero {r : Reader} {rx : Bytes} (h : Waiting r rx) {n c : Nat}
    (hw : r.receiveWindow = some (r, n)) (hc1 : 1 ≤ c) (hcn : c ≤ n) (hcl : c ≤ rx.length)
    {r3 : Reader} (hw2 : (r.fed rx c).receiveWindow = some (r3, 0)) :
    frame1 r.cap (r.data ++ rx) = .packet (r.data ++ rx.take c) (rx.drop c) ∧
    r3 = r.packetOf (r.data ++ rx.take c) := by
  have hinv := h.fed_inv hw hc1 hcn hcl
  obtain ⟨hwi, hd, hcap, hlast⟩ := window_some hinv (fed_stream r rx c).symm hw2
  obtain ⟨ha3, _⟩ := hwi.zero_available
  have hinv3 : RInv r3 (r3.data ++ rx.drop c) := by
    rw [hd, fed_stream]; exact hwi.toRInv
  have hts := take_spec hinv3 rfl ha3
  rw [hd, fed_stream, hcap, fed_cap, fed_data] at hts
  refine ⟨hts.2.1, ?_⟩
  cases hp : r3.packetLength with
  | none => simp [Reader.packetAvailable, hp] at ha3
  | some l =>
    have hge : l ≤ r3.data.length := by
      simpa [Reader.packetAvailable, hp, Reader.readBytes] using ha3
    obtain ⟨_, _, hle, _⟩ := hwi.known l hp
    refine reader_ext (by rw [hcap]; rfl) (by rw [hd]; rfl) ?_ (by rw [hlast]; rfl)
    rw [hp]
    show some l = some (r.data ++ rx.take c).length
    rw [← fed_data, ← hd]; congr 1; omega

/-- The delivery makes `receive_buffer` fail: exactly where the specification says, holding
exactly what it says. -/
theorem read_malformed {r : Reader} {rx : Bytes} (h : Waiting r rx) {n c : Nat}
    (hw : r.receiveWindow = some (r, n)) (hc1 : 1 ≤ c) (hcn : c ≤ n) (hcl : c ≤ rx.length)
    (hw2 : (r.fed rx c).receiveWindow = none) :
    frame1 r.cap (r.data ++ rx) = .stop (.malformed (r.data ++ rx.take c)) := by
  have hinv := h.fed_inv hw hc1 hcn hcl
  exact window_none hinv (fed_stream r rx c).symm hw2

/-- The delivery leaves the packet incomplete: the reader waits again, in canonical form; if the
stream is used up the specification says `exhausted`. -/
theorem read_more {r : Reader} {rx : Bytes} (h : Waiting r rx) {n c : Nat}
    (hw : r.receiveWindow = some (r, n)) (hc1 : 1 ≤ c) (hcn : c ≤ n) (hcl : c ≤ rx.length)
    {r3 : Reader} {n' : Nat} (hw2 : (r.fed rx c).receiveWindow = some (r3, n')) (hn' : n' ≠ 0) :
    Waiting r3 (rx.drop c) ∧ r3 = r.holding (r.data ++ rx.take c) ∧
    (rx.drop c = [] → frame1 r.cap (r.data ++ rx) = .stop (.exhausted (r.data ++ rx))) := by
  have hinv := h.fed_inv hw hc1 hcn hcl
  obtain ⟨hwi, hd, hcap, hlast⟩ := window_some hinv (fed_stream r rx c).symm hw2
  have hidem := (Fuel.receiveWindow_idem hw2).1
  have hwait : Waiting r3 (rx.drop c) := by
    refine ⟨by rw [hd, fed_stream]; exact hwi.toRInv', ⟨n', hn', hidem⟩, ?_⟩
    intro l hl
    cases hp2 : (r.fed rx c).packetLength with
    | some l2 =>
      -- the length was known before: the header is in the bytes held before
      rw [receiveWindow_known _ l2 hp2] at hw2
      split at hw2
      · simp only [Option.some.injEq, Prod.mk.injEq] at hw2
        obtain ⟨rfl, _⟩ := hw2
        rw [hp2] at hl
        cases hl
        obtain ⟨hl0, hfh⟩ := h.known l hp2
        exact ⟨hl0, fixedHeader_append_complete _ hfh⟩
      · simp at hw2
    | none =>
      rw [receiveWindow_unknown _ hp2] at hw2
      cases hfh : fixedHeader (r.fed rx c).data with
      | complete hl0 t =>
        rw [hfh] at hw2
        simp only at hw2
        split at hw2
        · simp only [Option.some.injEq, Prod.mk.injEq] at hw2
          obtain ⟨rfl, _⟩ := hw2
          simp only [Option.some.injEq] at hl
          subst hl
          exact ⟨hl0, hfh⟩
        · simp at hw2
      | incomplete =>
        rw [hfh] at hw2
        simp only at hw2
        split at hw2
        · simp only [Option.some.injEq, Prod.mk.injEq] at hw2
          obtain ⟨rfl, _⟩ := hw2
          rw [hp2] at hl; cases hl
        · simp at hw2
      | tooLong => rw [hfh] at hw2; simp at hw2
  refine ⟨hwait, ?_, ?_⟩
  · have hcan := hwait.canonical
    rw [hcan]
    refine reader_ext (hcap.trans rfl) (hd.trans rfl) ?_ (hlast.trans rfl)
    show (r3.holding r3.data).packetLength = (r.holding (r.data ++ rx.take c)).packetLength
    rw [hd, fed_data]; rfl
  · intro hnil
    have hs : r.data ++ rx = r3.data := by rw [hd, ← fed_stream r rx c, hnil, List.append_nil]
    have hwi' : RdWInv r3 r3.data n' := hs ▸ hwi
    rw [hs, ← fed_cap r rx c, ← hcap]
    exact hwi'.stream_end hn'


/-! ## Machine level: `doWaitRead` one step at a time -/

/-- The deadline of the wait has not been reached (so the timer branch of `with_deadline` is not
taken). -/
def DeadlineOK (now : Nat) : Option Nat → Prop
  | none => True
  | some d => now < d

/-- Number of bytes the read decision `k` obtains: `250` = as much as the window allows. -/
def takeCount (k n len : Nat) : Nat := if k = 250 then min n len else min k (min n len)

theorem takeCount_bounds {k n len : Nat} (hk : 1 ≤ k) (hn : n ≠ 0) (hl : len ≠ 0) :
    1 ≤ takeCount k n len ∧ takeCount k n len ≤ n ∧ takeCount k n len ≤ len := by
  unfold takeCount; split <;> omega

/-- What a successful `read` of `c` bytes does to the world (`ioRead`, the `.ok` branch). -/
def World.gotBytes (w : World) (c : Nat) : World :=
  let w := { w with slot := none }
  let net := w.curNet
  let w := w.setCurNet { net with rx := net.rx.drop c }
  { (w.emit s!"r {w.netIdx} {c}") with lastIoStarved := false }

theorem ioRead_ok (w : World) (n k : Nat) (hs : w.slot = some k) (hk : k ≤ 250)
    (hc : takeCount k n w.curNet.rx.length ≠ 0) :
    w.ioRead n = (w.gotBytes (takeCount k n w.curNet.rx.length),
      .ok (w.curNet.rx.take (takeCount k n w.curNet.rx.length))) := by
  unfold World.ioRead
  rw [hs]
  simp only []
  rw [if_pos hk]
  show (if takeCount k n w.curNet.rx.length = 0 then _ else _) = _
  rw [if_neg hc]
  rfl

theorem ioRead_none (w : World) (n : Nat) (hs : w.slot = none) :
    w.ioRead n = ({ (w.emit s!"rp {w.netIdx}") with lastIoStarved := false }, .pending) := by
  unfold World.ioRead
  rw [hs]

theorem session_window_of {s : Session} {r1 : Reader} {n : Nat} (h : s.reader.receiveWindow = some (r1, n)) :
    s.window = some ({ s with reader := r1 }, n) := by
  unfold Session.window; rw [h]

theorem dwr_avail (fuel : Nat) (w : World) (outer : Outer) (dl : Option Nat) (y : Bool)
    (ha : w.sess.reader.packetAvailable = true) :
    doWaitRead (fuel + 1) w outer dl y = driveEnter fuel w outer := by
  simp only [doWaitRead, ha, if_true]

theorem dwr_zero (fuel : Nat) (w : World) (outer : Outer) (dl : Option Nat) (y : Bool) (r1 : Reader)
    (hna : w.sess.reader.packetAvailable = false) (hw : w.sess.reader.receiveWindow = some (r1, 0)) :
    doWaitRead (fuel + 1) w outer dl y =
      driveEnter fuel { w with sess := { w.sess with reader := r1 } } outer := by
  simp only [doWaitRead, hna, Bool.false_eq_true, if_false, session_window_of hw, if_true]

theorem dwr_malformed (fuel : Nat) (w : World) (outer : Outer) (dl : Option Nat) (y : Bool)
    (hna : w.sess.reader.packetAvailable = false) (hw : w.sess.reader.receiveWindow = none) :
    doWaitRead (fuel + 1) w outer dl y =
      (w.handleDisconnect).finishErr (outerName outer) .peerInvalid := by
  simp [doWaitRead, hna, Session.window, hw]

/-- A decision is there and bytes are there: they are read and committed, and the loop goes on. -/
theorem dwr_read (fuel : Nat) (w : World) (outer : Outer) (dl : Option Nat) (y : Bool) (r1 : Reader)
    (n k : Nat) (hna : w.sess.reader.packetAvailable = false)
    (hw : w.sess.reader.receiveWindow = some (r1, n)) (hn : n ≠ 0) (hs : w.slot = some k)
    (hk : k ≤ 250) (hc : takeCount k n w.curNet.rx.length ≠ 0) :
    doWaitRead (fuel + 1) w outer dl y =
      doWaitRead fuel
        { (({ w with sess := { w.sess with reader := r1 } } : World).gotBytes
            (takeCount k n w.curNet.rx.length)) with
          sess := { w.sess with reader := r1.commit (w.curNet.rx.take (takeCount k n w.curNet.rx.length)) } }
        outer dl y := by
  have hio := ioRead_ok ({ w with sess := { w.sess with reader := r1 } } : World) n k hs hk hc
  simp only [doWaitRead, hna, Bool.false_eq_true, if_false, session_window_of hw, if_neg hn]
  rw [hio]
  rfl

/-- No decision left: the read is pending, and before its deadline the operation suspends. -/
theorem dwr_pending (fuel : Nat) (w : World) (outer : Outer) (dl : Option Nat) (y : Bool) (r1 : Reader)
    (n : Nat) (hna : w.sess.reader.packetAvailable = false)
    (hw : w.sess.reader.receiveWindow = some (r1, n)) (hn : n ≠ 0) (hs : w.slot = none)
    (hdl : DeadlineOK w.now dl) :
    doWaitRead (fuel + 1) w outer dl y =
      ({ (({ w with sess := { w.sess with reader := r1 } } : World).emit s!"rp {w.netIdx}") with
          lastIoStarved := false } : World).suspend (.waitRead outer dl true) := by
  have hio := ioRead_none ({ w with sess := { w.sess with reader := r1 } } : World) n hs
  simp only [doWaitRead, hna, Bool.false_eq_true, if_false, session_window_of hw, if_neg hn]
  rw [hio]
  cases dl with
  | none => rfl
  | some d =>
    simp only []
    have : ¬ (w.now ≥ d) := by simp only [DeadlineOK] at hdl; omega
    split
    · rename_i h; exact absurd (h : w.now ≥ d) this
    · rfl


/-! ## Machine level: one read decision on a suspended `read_packet` -/

/-- The world after bytes of the inbound stream have been moved into the reader (now `rd`), `rest`
being what the transport still has to deliver, `io` the trace lines printed meanwhile, `fut` the
suspended operation; the decision is used up, no self-wake, last I/O not starved. -/
def World.withRead (W : World) (rd : Reader) (rest : Bytes) (io : List String) (fut : Option Pc) : World :=
  { W with sess := { W.sess with reader := rd },
           nets := W.nets.dropLast ++ [{ W.curNet with rx := rest }],
           out := io ++ W.out, slot := none, wakes := 0, lastIoStarved := false, fut := fut }

/-- The trace line of a read of `c` bytes, and of a pending read. -/
def World.rLine (W : World) (c : Nat) : String := s!"r {W.netIdx} {c}"
def World.rpLine (W : World) : String := s!"rp {W.netIdx}"

theorem netIdx_concat (ns : List Net) (n : Net) (h : ns ≠ []) :
    (ns.dropLast ++ [n]).length - 1 = ns.length - 1 := by
  have : 1 ≤ ns.length := by
    cases ns with
    | nil => exact absurd rfl h
    | cons _ _ => simp
  simp

theorem withRead_netIdx (W : World) (rd : Reader) (rest : Bytes) (io : List String) (fut : Option Pc)
    (h : W.nets ≠ []) : (W.withRead rd rest io fut).netIdx = W.netIdx :=
  netIdx_concat _ _ h

theorem withRead_curNet (W : World) (rd : Reader) (rest : Bytes) (io : List String) (fut : Option Pc) :
    (W.withRead rd rest io fut).curNet = { W.curNet with rx := rest } := by
  simp [World.withRead, World.curNet]

theorem withRead_withRead (W : World) (rd rd' : Reader) (rest rest' : Bytes) (io io' : List String)
    (fut fut' : Option Pc) :
    (W.withRead rd rest io fut).withRead rd' rest' io' fut' = W.withRead rd' rest' (io' ++ io) fut' := by
  simp [World.withRead, World.curNet, List.append_assoc]

theorem nets_ne_of_rx {W : World} (h : W.curNet.rx ≠ []) : W.nets ≠ [] := by
  intro hn
  apply h
  simp [World.curNet, hn]

theorem execDirective_d (W : World) (k : Nat) (h : W.fut.isNone = false) :
    W.execDirective (.d k) = { World.poll { W with slot := some k } with slot := none } := by
  simp only [World.execDirective, h, Bool.false_eq_true, if_false]

theorem poll_waitRead (w : World) (outer : Outer) (dl : Option Nat) (y : Bool)
    (h : w.fut = some (.waitRead outer dl y)) :
    World.poll w = doWaitRead pollFuel w.pollBase outer dl y := by
  unfold World.poll
  simp only [h]
  rfl

/-- The world `dwr_read` continues in, in closed form. -/
theorem after_read_world (w : World) (r1 : Reader) (c : Nat) (hnets : w.nets ≠ []) (hwk : w.wakes = 0)
    (hf : w.fut = none) :
    ({ (({ w with sess := { w.sess with reader := r1 } } : World).gotBytes c) with
        sess := { w.sess with reader := r1.commit (w.curNet.rx.take c) } } : World) =
      w.withRead (r1.commit (w.curNet.rx.take c)) (w.curNet.rx.drop c) [w.rLine c] none := by
  obtain ⟨sess, conn, nets, fut, now, slot, handles, starved, wakes, lastRes, out, torn, log⟩ := w
  simp only at hwk hf hnets
  subst hwk hf
  simp only [World.withRead, World.gotBytes, World.rLine, World.emit, World.setCurNet, World.curNet,
    World.netIdx, List.cons_append, List.nil_append]
  rw [netIdx_concat _ _ hnets]

/-- The first half of a read decision on a waiting reader: `c` bytes are taken and committed, and
`read_packet` looks at the reader again (with the decision used up). -/
theorem d_read_eq (W : World) (outer : Outer) (dl : Option Nat) (y : Bool) (n k : Nat)
    (hfut : W.fut = some (.waitRead outer dl y))
    (hna : W.sess.reader.packetAvailable = false)
    (hw : W.sess.reader.receiveWindow = some (W.sess.reader, n)) (hn : n ≠ 0)
    (hne : W.curNet.rx ≠ []) (hk1 : 1 ≤ k) (hk : k ≤ 250) :
    W.execDirective (.d k) =
      { doWaitRead (3998 + 1)
          (W.withRead (W.sess.reader.fed W.curNet.rx (takeCount k n W.curNet.rx.length))
            (W.curNet.rx.drop (takeCount k n W.curNet.rx.length))
            [W.rLine (takeCount k n W.curNet.rx.length)] none)
          outer dl y with slot := none } := by
  have hnets := nets_ne_of_rx hne
  have hlen : W.curNet.rx.length ≠ 0 := by
    intro h0; exact hne (List.eq_nil_of_length_eq_zero h0)
  obtain ⟨hc1, _, _⟩ := takeCount_bounds (k := k) (n := n) (len := W.curNet.rx.length) hk1 hn hlen
  rw [execDirective_d W k (by simp [hfut])]
  rw [poll_waitRead { W with slot := some k } outer dl y hfut]
  have h1 := dwr_read (3998 + 1) ({ W with slot := some k } : World).pollBase outer dl y W.sess.reader n k
    hna hw hn rfl hk (by show takeCount k n W.curNet.rx.length ≠ 0; omega)
  have h2 := after_read_world ({ W with slot := some k } : World).pollBase W.sess.reader
    (takeCount k n W.curNet.rx.length) hnets rfl rfl
  have key : doWaitRead (3998 + 1 + 1) ({ W with slot := some k } : World).pollBase outer dl y =
      doWaitRead (3998 + 1)
        (W.withRead (W.sess.reader.fed W.curNet.rx (takeCount k n W.curNet.rx.length))
          (W.curNet.rx.drop (takeCount k n W.curNet.rx.length))
          [W.rLine (takeCount k n W.curNet.rx.length)] none) outer dl y :=
    h1.trans (congrArg (fun q => doWaitRead (3998 + 1) q outer dl y) h2)
  exact congrArg (fun q : World => ({ q with slot := none } : World)) key

/-! ### The three things a read decision can lead to -/

inductive ReadKind where
  /-- the packet is complete -/
  | packet
  /-- `receive_buffer` fails -/
  | malformed
  /-- more bytes are needed -/
  | more
  deriving DecidableEq, Repr

/-- What `read_packet` finds after `c` more bytes. -/
def readKind (r : Reader) (rx : Bytes) (c : Nat) : ReadKind :=
  if (r.fed rx c).packetAvailable then .packet else
  match (r.fed rx c).receiveWindow with
  | none => .malformed
  | some (_, 0) => .packet
  | some _ => .more

/-- The window the waiting reader offers. -/
def World.window (W : World) : Nat :=
  match W.sess.reader.receiveWindow with
  | some (_, n) => n
  | none => 0

/-- The number of bytes the read decision `k` obtains in this world. -/
def World.readCount (W : World) (k : Nat) : Nat := takeCount k W.window W.curNet.rx.length

/-- The facts every case needs. -/
theorem read_setup {W : World} (hwait : Waiting W.sess.reader W.curNet.rx) (hne : W.curNet.rx ≠ [])
    {k : Nat} (hk1 : 1 ≤ k) :
    W.window ≠ 0 ∧ W.sess.reader.receiveWindow = some (W.sess.reader, W.window) ∧
    1 ≤ W.readCount k ∧ W.readCount k ≤ W.window ∧ W.readCount k ≤ W.curNet.rx.length := by
  obtain ⟨n, hn, hw⟩ := hwait.win
  have hwin : W.window = n := by simp [World.window, hw]
  have hlen : W.curNet.rx.length ≠ 0 := by
    intro h0; exact hne (List.eq_nil_of_length_eq_zero h0)
  rw [hwin]
  exact ⟨hn, hw, by unfold World.readCount; rw [hwin]; exact takeCount_bounds hk1 hn hlen⟩

/-- **The decision completes the packet.** The operation goes on (`driveEnter`: `drive_packet`
from its start) in the world where the reader holds exactly the next packet of the specification
and the transport exactly the rest. -/
theorem d_packet (W : World) (outer : Outer) (dl : Option Nat) (y : Bool) (k : Nat)
    (hfut : W.fut = some (.waitRead outer dl y)) (hwait : Waiting W.sess.reader W.curNet.rx)
    (hne : W.curNet.rx ≠ []) (hk1 : 1 ≤ k) (hk : k ≤ 250)
    (hkind : readKind W.sess.reader W.curNet.rx (W.readCount k) = .packet) :
    frame1 W.sess.reader.cap (W.sess.reader.data ++ W.curNet.rx) =
      .packet (W.sess.reader.data ++ W.curNet.rx.take (W.readCount k)) (W.curNet.rx.drop (W.readCount k)) ∧
    W.execDirective (.d k) =
      { driveEnter 3998
          (W.withRead (W.sess.reader.packetOf (W.sess.reader.data ++ W.curNet.rx.take (W.readCount k)))
            (W.curNet.rx.drop (W.readCount k)) [W.rLine (W.readCount k)] none) outer with slot := none } := by
  obtain ⟨hn, hw, hc1, hcn, hcl⟩ := read_setup hwait hne hk1
  have heq := d_read_eq W outer dl y W.window k hfut hwait.notAvail hw hn hne hk1 hk
  change W.execDirective (.d k) = { doWaitRead (3998 + 1)
    (W.withRead (W.sess.reader.fed W.curNet.rx (W.readCount k)) (W.curNet.rx.drop (W.readCount k))
      [W.rLine (W.readCount k)] none) outer dl y with slot := none } at heq
  unfold readKind at hkind
  by_cases ha : (W.sess.reader.fed W.curNet.rx (W.readCount k)).packetAvailable = true
  · obtain ⟨hf1, hrd⟩ := read_packet hwait hw hc1 hcn hcl ha
    refine ⟨hf1, ?_⟩
    rw [heq, dwr_avail _ _ _ _ _ ha, hrd]
  · rw [if_neg ha] at hkind
    have ha' : (W.sess.reader.fed W.curNet.rx (W.readCount k)).packetAvailable = false := by
      simpa using ha
    cases hw2 : (W.sess.reader.fed W.curNet.rx (W.readCount k)).receiveWindow with
    | none => rw [hw2] at hkind; cases hkind
    | some p =>
      obtain ⟨r3, n'⟩ := p
      rw [hw2] at hkind
      cases n' with
      | succ m => simp at hkind
      | zero =>
        obtain ⟨hf1, hrd⟩ := read_zero hwait hw hc1 hcn hcl hw2
        refine ⟨hf1, ?_⟩
        rw [heq, dwr_zero _ _ _ _ _ r3 ha' hw2, hrd]
        rfl

/-- **The decision makes the reader fail** (remaining length of more than four bytes, packet larger
than the receive buffer): `Peer(InvalidPacket)`, dead handle, exactly where the specification says. -/
theorem d_malformed (W : World) (outer : Outer) (dl : Option Nat) (y : Bool) (k : Nat)
    (hfut : W.fut = some (.waitRead outer dl y)) (hwait : Waiting W.sess.reader W.curNet.rx)
    (hne : W.curNet.rx ≠ []) (hk1 : 1 ≤ k) (hk : k ≤ 250)
    (hkind : readKind W.sess.reader W.curNet.rx (W.readCount k) = .malformed) :
    frame1 W.sess.reader.cap (W.sess.reader.data ++ W.curNet.rx) =
      .stop (.malformed (W.sess.reader.data ++ W.curNet.rx.take (W.readCount k))) ∧
    W.execDirective (.d k) =
      { ((W.withRead (W.sess.reader.fed W.curNet.rx (W.readCount k))
            (W.curNet.rx.drop (W.readCount k)) [W.rLine (W.readCount k)] none).handleDisconnect).finishErr
          (outerName outer) .peerInvalid with slot := none } := by
  obtain ⟨hn, hw, hc1, hcn, hcl⟩ := read_setup hwait hne hk1
  have heq := d_read_eq W outer dl y W.window k hfut hwait.notAvail hw hn hne hk1 hk
  change W.execDirective (.d k) = { doWaitRead (3998 + 1)
    (W.withRead (W.sess.reader.fed W.curNet.rx (W.readCount k)) (W.curNet.rx.drop (W.readCount k))
      [W.rLine (W.readCount k)] none) outer dl y with slot := none } at heq
  unfold readKind at hkind
  by_cases ha : (W.sess.reader.fed W.curNet.rx (W.readCount k)).packetAvailable = true
  · rw [if_pos ha] at hkind; cases hkind
  · rw [if_neg ha] at hkind
    have ha' : (W.sess.reader.fed W.curNet.rx (W.readCount k)).packetAvailable = false := by
      simpa using ha
    cases hw2 : (W.sess.reader.fed W.curNet.rx (W.readCount k)).receiveWindow with
    | some p =>
      obtain ⟨r3, n'⟩ := p
      rw [hw2] at hkind
      cases n' <;> simp at hkind
    | none =>
      refine ⟨read_malformed hwait hw hc1 hcn hcl hw2, ?_⟩
      rw [heq, dwr_malformed _ _ _ _ _ ha' hw2]

/-- **The decision leaves the packet incomplete.** The operation is suspended in the same read
again; only the reader (now holding `c` more bytes, in canonical form), the transport and the trace
have changed. -/
theorem d_more (W : World) (outer : Outer) (dl : Option Nat) (y : Bool) (k : Nat)
    (hfut : W.fut = some (.waitRead outer dl y)) (hdl : DeadlineOK W.now dl)
    (hwait : Waiting W.sess.reader W.curNet.rx)
    (hne : W.curNet.rx ≠ []) (hk1 : 1 ≤ k) (hk : k ≤ 250)
    (hkind : readKind W.sess.reader W.curNet.rx (W.readCount k) = .more) :
    W.execDirective (.d k) =
      W.withRead (W.sess.reader.holding (W.sess.reader.data ++ W.curNet.rx.take (W.readCount k)))
        (W.curNet.rx.drop (W.readCount k)) [W.rpLine, W.rLine (W.readCount k)]
        (some (.waitRead outer dl true)) ∧
    Waiting (W.sess.reader.holding (W.sess.reader.data ++ W.curNet.rx.take (W.readCount k)))
      (W.curNet.rx.drop (W.readCount k)) ∧
    (W.curNet.rx.drop (W.readCount k) = [] →
      frame1 W.sess.reader.cap (W.sess.reader.data ++ W.curNet.rx) =
        .stop (.exhausted (W.sess.reader.data ++ W.curNet.rx))) := by
  obtain ⟨hn, hw, hc1, hcn, hcl⟩ := read_setup hwait hne hk1
  have hnets := nets_ne_of_rx hne
  have heq := d_read_eq W outer dl y W.window k hfut hwait.notAvail hw hn hne hk1 hk
  change W.execDirective (.d k) = { doWaitRead (3998 + 1)
    (W.withRead (W.sess.reader.fed W.curNet.rx (W.readCount k)) (W.curNet.rx.drop (W.readCount k))
      [W.rLine (W.readCount k)] none) outer dl y with slot := none } at heq
  unfold readKind at hkind
  by_cases ha : (W.sess.reader.fed W.curNet.rx (W.readCount k)).packetAvailable = true
  · rw [if_pos ha] at hkind; cases hkind
  · rw [if_neg ha] at hkind
    have ha' : (W.sess.reader.fed W.curNet.rx (W.readCount k)).packetAvailable = false := by
      simpa using ha
    cases hw2 : (W.sess.reader.fed W.curNet.rx (W.readCount k)).receiveWindow with
    | none => rw [hw2] at hkind; cases hkind
    | some p =>
      obtain ⟨r3, n'⟩ := p
      rw [hw2] at hkind
      cases n' with
      | zero => simp at hkind
      | succ m =>
        obtain ⟨hwait3, hrd, hex⟩ := read_more hwait hw hc1 hcn hcl hw2 (Nat.succ_ne_zero m)
        rw [← hrd]
        refine ⟨?_, hwait3, hex⟩
        rw [heq, dwr_pending 3998 (W.withRead (W.sess.reader.fed W.curNet.rx (W.readCount k))
          (W.curNet.rx.drop (W.readCount k)) [W.rLine (W.readCount k)] none) outer dl y r3 (m + 1) ha' hw2
          (Nat.succ_ne_zero m) rfl hdl]
        unfold World.withRead World.suspend World.emit World.rpLine
        simp only [List.cons_append, List.nil_append]
        simp only [World.netIdx]
        rw [netIdx_concat _ _ hnets]


/-! ## Reading one packet under an arbitrary list of read decisions -/

/-- This read decision ends the reading: the packet is complete, or the reader fails, or the
transport has nothing more to deliver. -/
def World.readDone (W : World) (k : Nat) : Bool :=
  match readKind W.sess.reader W.curNet.rx (W.readCount k) with
  | .more => (W.curNet.rx.drop (W.readCount k)).isEmpty
  | _ => true

/-- Resume the suspended `read_packet` with the read decisions `ks`, one `d k` directive each, up
to and including the one that ends the reading. -/
def readPacket : List Nat → World → World
  | [], W => W
  | k :: ks, W =>
    if W.readDone k then W.execDirective (.d k) else readPacket ks (W.execDirective (.d k))

/-- `readPacket` runs a prefix of the directives `d k₁, d k₂, …`. -/
theorem readPacket_eq_foldl : ∀ (ks : List Nat) (W : World), ∃ n, n ≤ ks.length ∧
    readPacket ks W = (ks.take n).foldl (fun w k => w.execDirective (.d k)) W := by
  intro ks
  induction ks with
  | nil => intro W; exact ⟨0, Nat.le_refl _, rfl⟩
  | cons k ks ih =>
    intro W
    simp only [readPacket]
    by_cases hd : W.readDone k = true
    · exact ⟨1, by simp, by rw [if_pos hd]; rfl⟩
    · obtain ⟨n, hn, h⟩ := ih (W.execDirective (.d k))
      exact ⟨n + 1, by simp; omega, by rw [if_neg hd, h]; rfl⟩

/-- Where reading the next packet ends, as a function of the world it starts from and the trace
lines `io` printed by the reads — nothing else of the read decisions enters. By `frame1` (the
specification of framing) on the bytes held followed by the bytes the transport has:
* a packet: `drive_packet` is entered with exactly the packet in the reader and the rest in the
  transport;
* the reader must fail: the handle is dead, the operation returns `Peer(InvalidPacket)`;
* the bytes run out first: the operation is suspended in the same read, holding them all. -/
def World.finalRead (W : World) (outer : Outer) (dl : Option Nat) (io : List String) : World :=
  match frame1 W.sess.reader.cap (W.sess.reader.data ++ W.curNet.rx) with
  | .packet pkt rest =>
    { driveEnter 3998 (W.withRead (W.sess.reader.packetOf pkt) rest io none) outer with slot := none }
  | .stop (.malformed held) =>
    { ((W.withRead (W.sess.reader.packetOf held)
          ((W.sess.reader.data ++ W.curNet.rx).drop held.length) io none).handleDisconnect).finishErr
        (outerName outer) .peerInvalid with slot := none }
  | .stop (.exhausted held) =>
    W.withRead (W.sess.reader.holding held) [] io (some (.waitRead outer dl true))

/-- The lines `io` are trace lines of reads on the current transport. -/
def IoLines (W : World) (io : List String) : Prop :=
  ∀ l ∈ io, l = W.rpLine ∨ ∃ c, l = W.rLine c

theorem handleDisconnect_withRead (W : World) (rd rd' : Reader) (rest : Bytes) (io : List String)
    (fut : Option Pc) (hc : rd.cap = rd'.cap) (hl : rd.last = rd'.last) :
    (W.withRead rd rest io fut).handleDisconnect = (W.withRead rd' rest io fut).handleDisconnect := by
  unfold World.handleDisconnect Session.handleDisconnect World.withRead Reader.reset
  simp only [hc, hl]

theorem finalRead_withRead (W : World) (outer : Outer) (dl : Option Nat) (d' rest : Bytes)
    (io0 io' : List String) (f : Option Pc) (hs : d' ++ rest = W.sess.reader.data ++ W.curNet.rx) :
    (W.withRead (W.sess.reader.holding d') rest io0 f).finalRead outer dl io' =
      W.finalRead outer dl (io' ++ io0) := by
  unfold World.finalRead
  rw [withRead_curNet]
  show (match frame1 W.sess.reader.cap (d' ++ rest) with
    | .packet pkt rest' => _
    | .stop (.malformed held) => _
    | .stop (.exhausted held) => _) = _
  rw [hs]
  cases frame1 W.sess.reader.cap (W.sess.reader.data ++ W.curNet.rx) with
  | packet pkt rest' =>
    simp only []
    rw [withRead_withRead]; rfl
  | stop e =>
    cases e with
    | malformed held =>
      simp only []
      rw [withRead_withRead]
      have e : (W.withRead (W.sess.reader.holding d') rest io0 f).sess.reader.data ++ rest =
          W.sess.reader.data ++ W.curNet.rx := hs
      rw [e]
      rfl
    | exhausted held =>
      simp only []
      rw [withRead_withRead]; rfl

theorem drop_append_take (a rx : Bytes) (c : Nat) :
    (a ++ rx).drop (a ++ rx.take c).length = rx.drop c := by
  simp only [List.length_append, List.length_take]
  by_cases h : c ≤ rx.length
  · rw [Nat.min_eq_left h, List.drop_append]
    simp
  · have h' : rx.length ≤ c := by omega
    rw [Nat.min_eq_right h', List.drop_append]
    simp [List.drop_eq_nil_of_le h']

/-- **One packet, any fragmentation.** An operation suspended in `read_packet` on a waiting reader,
before its deadline, with bytes to read; read decisions `ks`, each between 1 and 250, at least as
many as there are bytes. Feeding them up to the one that ends the reading leads to
`W.finalRead outer dl io`, where `io` are the trace lines of the reads. -/
theorem readPacket_final : ∀ (ks : List Nat) (W : World) (outer : Outer) (dl : Option Nat) (y : Bool),
    W.fut = some (.waitRead outer dl y) → DeadlineOK W.now dl →
    Waiting W.sess.reader W.curNet.rx → W.curNet.rx ≠ [] →
    (∀ k ∈ ks, 1 ≤ k ∧ k ≤ 250) → W.curNet.rx.length ≤ ks.length →
    ∃ io, IoLines W io ∧ readPacket ks W = W.finalRead outer dl io := by
  intro ks
  induction ks with
  | nil =>
    intro W outer dl y _ _ _ hne _ hlen
    exact absurd (List.eq_nil_of_length_eq_zero (by simpa using hlen)) hne
  | cons k ks ih =>
    intro W outer dl y hfut hdl hwait hne hks hlen
    obtain ⟨hk1, hk⟩ := hks k (by simp)
    obtain ⟨_, _, hc1, _, hcl⟩ := read_setup hwait hne hk1
    simp only [readPacket]
    cases hkind : readKind W.sess.reader W.curNet.rx (W.readCount k) with
    | packet =>
      obtain ⟨hf1, hex⟩ := d_packet W outer dl y k hfut hwait hne hk1 hk hkind
      refine ⟨[W.rLine (W.readCount k)], ?_, ?_⟩
      · intro l hl; simp only [List.mem_singleton] at hl; exact Or.inr ⟨_, hl⟩
      · have hd : W.readDone k = true := by simp [World.readDone, hkind]
        rw [if_pos hd, hex]
        unfold World.finalRead
        rw [hf1]
    | malformed =>
      obtain ⟨hf1, hex⟩ := d_malformed W outer dl y k hfut hwait hne hk1 hk hkind
      refine ⟨[W.rLine (W.readCount k)], ?_, ?_⟩
      · intro l hl; simp only [List.mem_singleton] at hl; exact Or.inr ⟨_, hl⟩
      · have hd : W.readDone k = true := by simp [World.readDone, hkind]
        rw [if_pos hd, hex]
        have hF : W.finalRead outer dl [W.rLine (W.readCount k)] =
            { ((W.withRead (W.sess.reader.packetOf (W.sess.reader.data ++ W.curNet.rx.take (W.readCount k)))
                  (W.curNet.rx.drop (W.readCount k)) [W.rLine (W.readCount k)] none).handleDisconnect).finishErr
                (outerName outer) .peerInvalid with slot := none } := by
          unfold World.finalRead
          rw [hf1]
          simp only []
          rw [drop_append_take]
        have hH := handleDisconnect_withRead W (W.sess.reader.fed W.curNet.rx (W.readCount k))
          (W.sess.reader.packetOf (W.sess.reader.data ++ W.curNet.rx.take (W.readCount k)))
          (W.curNet.rx.drop (W.readCount k)) [W.rLine (W.readCount k)] none rfl rfl
        rw [hF, hH]
    | more =>
      obtain ⟨hex, hwait', hexh⟩ := d_more W outer dl y k hfut hdl hwait hne hk1 hk hkind
      have hnets := nets_ne_of_rx hne
      have hstream : (W.sess.reader.data ++ W.curNet.rx.take (W.readCount k)) ++
          W.curNet.rx.drop (W.readCount k) = W.sess.reader.data ++ W.curNet.rx := by simp
      by_cases hnil : W.curNet.rx.drop (W.readCount k) = []
      · refine ⟨[W.rpLine, W.rLine (W.readCount k)], ?_, ?_⟩
        · intro l hl
          simp only [List.mem_cons, List.not_mem_nil, or_false] at hl
          rcases hl with rfl | rfl
          · exact Or.inl rfl
          · exact Or.inr ⟨_, rfl⟩
        · have hd : W.readDone k = true := by simp [World.readDone, hkind, hnil]
          rw [if_pos hd, hex]
          unfold World.finalRead
          rw [hexh hnil]
          simp only []
          have htk : W.curNet.rx.take (W.readCount k) = W.curNet.rx := by
            have := List.take_append_drop (W.readCount k) W.curNet.rx
            rw [hnil, List.append_nil] at this; exact this
          rw [hnil, htk]
      · have hd : W.readDone k = false := by simp [World.readDone, hkind, hnil]
        rw [hd, hex]
        simp only [Bool.false_eq_true, if_false]
        have hlen' : (W.curNet.rx.drop (W.readCount k)).length ≤ ks.length := by
          simp only [List.length_drop]
          simp only [List.length_cons] at hlen
          omega
        obtain ⟨io', hio', hrun⟩ := ih
          (W.withRead (W.sess.reader.holding (W.sess.reader.data ++ W.curNet.rx.take (W.readCount k)))
            (W.curNet.rx.drop (W.readCount k)) [W.rpLine, W.rLine (W.readCount k)]
            (some (.waitRead outer dl true)))
          outer dl true rfl hdl
          (by rw [withRead_curNet]; exact hwait')
          (by rw [withRead_curNet]; exact hnil)
          (fun k' hk' => hks k' (by simp [hk']))
          (by rw [withRead_curNet]; exact hlen')
        refine ⟨io' ++ [W.rpLine, W.rLine (W.readCount k)], ?_, ?_⟩
        · intro l hl
          rcases List.mem_append.mp hl with hl | hl
          · have := hio' l hl
            simp only [World.rpLine, World.rLine, withRead_netIdx _ _ _ _ _ hnets] at this
            exact this
          · simp only [List.mem_cons, List.not_mem_nil, or_false] at hl
            rcases hl with rfl | rfl
            · exact Or.inl rfl
            · exact Or.inr ⟨_, rfl⟩
        · rw [hrun]
          exact finalRead_withRead W outer dl _ _ _ _ _ hstream


/-! ## The result does not depend on the read decisions -/

/-- The world with an empty trace. -/
def World.clearOut (w : World) : World := { w with out := [] }

theorem clearOut_addOld (w : World) (o : List String) : (w.addOld o).clearOut = w.clearOut := rfl
theorem addOld_clearOut (w : World) : w.clearOut.addOld w.out = w := by
  simp [World.clearOut, World.addOld]

/-- Where reading the next packet leaves the machine, with the trace started afresh: a function of
the world alone. What is in its trace is what the machine prints *after* the reads (the handling of
the packet: `msg` and `ret` lines, pending writes). -/
def World.afterPacket (W : World) (outer : Outer) (dl : Option Nat) : World :=
  W.clearOut.finalRead outer dl []

theorem withRead_eq_addOld (W : World) (rd : Reader) (rest : Bytes) (io : List String) (fut : Option Pc) :
    W.withRead rd rest io fut = (W.clearOut.withRead rd rest [] fut).addOld (io ++ W.out) := rfl

/-- `finalRead` with the trace factored out. -/
theorem finalRead_eq (W : World) (outer : Outer) (dl : Option Nat) (io : List String) :
    W.finalRead outer dl io = (W.afterPacket outer dl).addOld (io ++ W.out) := by
  unfold World.afterPacket World.finalRead
  show (match frame1 W.sess.reader.cap (W.sess.reader.data ++ W.curNet.rx) with
    | .packet pkt rest => _
    | .stop (.malformed held) => _
    | .stop (.exhausted held) => _) =
    World.addOld (match frame1 W.sess.reader.cap (W.sess.reader.data ++ W.curNet.rx) with
    | .packet pkt rest => _
    | .stop (.malformed held) => _
    | .stop (.exhausted held) => _) _
  cases frame1 W.sess.reader.cap (W.sess.reader.data ++ W.curNet.rx) with
  | packet pkt rest =>
    simp only []
    rw [withRead_eq_addOld, (frame_all 3998).de]
    rfl
  | stop e =>
    cases e with
    | malformed held => rfl
    | exhausted held => rfl

/-- **Reading one packet: the outcome is that of `afterPacket`, plus read lines in the trace.** -/
theorem readPacket_eq (ks : List Nat) (W : World) (outer : Outer) (dl : Option Nat) (y : Bool)
    (hfut : W.fut = some (.waitRead outer dl y)) (hdl : DeadlineOK W.now dl)
    (hwait : Waiting W.sess.reader W.curNet.rx) (hne : W.curNet.rx ≠ [])
    (hks : ∀ k ∈ ks, 1 ≤ k ∧ k ≤ 250) (hlen : W.curNet.rx.length ≤ ks.length) :
    ∃ io, IoLines W io ∧ readPacket ks W = (W.afterPacket outer dl).addOld (io ++ W.out) := by
  obtain ⟨io, hio, h⟩ := readPacket_final ks W outer dl y hfut hdl hwait hne hks hlen
  exact ⟨io, hio, by rw [h, finalRead_eq]⟩

/-! ## Programs that differ only in how the reads of each packet are cut -/

/-- A trace line of a read: `r <transport> <count>` or `rp <transport>`. -/
def isReadLine (l : String) : Prop := ∃ i c : Nat, l = s!"rp {i}" ∨ l = s!"r {i} {c}"

theorem IoLines.isRead {W : World} {io : List String} (h : IoLines W io) : ∀ l ∈ io, isReadLine l := by
  intro l hl
  rcases h l hl with rfl | ⟨c, rfl⟩
  · exact ⟨W.netIdx, 0, Or.inl rfl⟩
  · exact ⟨W.netIdx, c, Or.inr rfl⟩

/-- Two traces that become equal when some read lines are deleted from each. -/
inductive OutSim : List String → List String → Prop where
  | nil : OutSim [] []
  | same (l : String) {a c : List String} : OutSim a c → OutSim (l :: a) (l :: c)
  | left (l : String) {a c : List String} : isReadLine l → OutSim a c → OutSim (l :: a) c
  | right (l : String) {a c : List String} : isReadLine l → OutSim a c → OutSim a (l :: c)

theorem OutSim.refl : ∀ a : List String, OutSim a a
  | [] => .nil
  | l :: a => .same l (OutSim.refl a)

theorem OutSim.prepend (x : List String) {a c : List String} (h : OutSim a c) : OutSim (x ++ a) (x ++ c) := by
  induction x with
  | nil => exact h
  | cons l x ih => exact .same l ih

theorem OutSim.reads {io₁ io₂ a c : List String} (h1 : ∀ l ∈ io₁, isReadLine l)
    (h2 : ∀ l ∈ io₂, isReadLine l) (h : OutSim a c) : OutSim (io₁ ++ a) (io₂ ++ c) := by
  induction io₁ with
  | cons l io₁ ih =>
    exact .left l (h1 l (by simp)) (ih (fun l' hl' => h1 l' (by simp [hl'])))
  | nil =>
    induction io₂ with
    | nil => exact h
    | cons l io₂ ih => exact .right l (h2 l (by simp)) (ih (fun l' hl' => h2 l' (by simp [hl'])))

/-- Whatever is selected from the traces by a test that never selects a read line is the same. -/
theorem OutSim.filter {a c : List String} (h : OutSim a c) (p : String → Bool)
    (hp : ∀ l, isReadLine l → p l = false) : a.filter p = c.filter p := by
  induction h with
  | nil => rfl
  | same l _ ih => simp only [List.filter_cons, ih]
  | left l hl _ ih => rw [List.filter_cons, hp l hl]; exact ih
  | right l hl _ ih => rw [List.filter_cons, hp l hl]; exact ih

/-- The two worlds agree on everything but the trace, and the traces agree up to read lines. -/
structure Sim (a c : World) : Prop where
  state : a.clearOut = c.clearOut
  out : OutSim a.out c.out

theorem Sim.refl (a : World) : Sim a a := ⟨rfl, OutSim.refl _⟩

/-- Every directive keeps the relation (`execDirective_addOld`: the trace is write-only). -/
theorem Sim.exec {a c : World} (h : Sim a c) (d : Directive) :
    Sim (a.execDirective d) (c.execDirective d) := by
  have ea : a.execDirective d = (a.clearOut.execDirective d).addOld a.out := by
    rw [← execDirective_addOld, addOld_clearOut]
  have ec : c.execDirective d = (a.clearOut.execDirective d).addOld c.out := by
    rw [h.state, ← execDirective_addOld, addOld_clearOut]
  rw [ea, ec]
  exact ⟨rfl, OutSim.prepend _ h.out⟩

theorem Sim.run {a c : World} (h : Sim a c) (ds : List Directive) :
    Sim (ds.foldl World.execDirective a) (ds.foldl World.execDirective c) := by
  induction ds generalizing a c with
  | nil => exact h
  | cons d ds ih => exact ih (h.exec d)

/-- Everything but the trace. -/
theorem Sim.fields {a c : World} (h : Sim a c) :
    a.sess = c.sess ∧ a.conn = c.conn ∧ a.nets = c.nets ∧ a.fut = c.fut ∧ a.now = c.now ∧
    a.slot = c.slot ∧ a.handles = c.handles ∧ a.lastIoStarved = c.lastIoStarved ∧ a.wakes = c.wakes ∧
    a.lastRes = c.lastRes ∧ a.tornNets = c.tornNets ∧ a.log = c.log := by
  have := h.state
  simp only [World.clearOut, World.mk.injEq] at this
  obtain ⟨h1, h2, h3, h4, h5, h6, h7, h8, h9, h10, _, h12, h13⟩ := this
  exact ⟨h1, h2, h3, h4, h5, h6, h7, h8, h9, h10, h12, h13⟩

/-- The conditions under which a list of read decisions reads one packet in the world `w`. -/
def ReadsOK (w : World) (ks : List Nat) : Prop :=
  ∃ outer dl y, w.fut = some (.waitRead outer dl y) ∧ DeadlineOK w.now dl ∧
    Waiting w.sess.reader w.curNet.rx ∧ w.curNet.rx ≠ [] ∧
    (∀ k ∈ ks, 1 ≤ k ∧ k ≤ 250) ∧ w.curNet.rx.length ≤ ks.length

/-- **Two fragmentations of the reads of one packet.** -/
theorem Sim.reads {a c : World} (h : Sim a c) {ks₁ ks₂ : List Nat} (h1 : ReadsOK a ks₁)
    (hk2 : ∀ k ∈ ks₂, 1 ≤ k ∧ k ≤ 250) (hl2 : a.curNet.rx.length ≤ ks₂.length) :
    Sim (readPacket ks₁ a) (readPacket ks₂ c) := by
  obtain ⟨outer, dl, y, hfut, hdl, hwait, hne, hk1, hl1⟩ := h1
  obtain ⟨es, _, en, ef, enow, _⟩ := h.fields
  have ecur : c.curNet = a.curNet := by unfold World.curNet; rw [en]
  obtain ⟨io₁, hio₁, e1⟩ := readPacket_eq ks₁ a outer dl y hfut hdl hwait hne hk1 hl1
  obtain ⟨io₂, hio₂, e2⟩ := readPacket_eq ks₂ c outer dl y (by rw [← ef]; exact hfut)
    (by rw [← enow]; exact hdl) (by rw [← es, ecur]; exact hwait) (by rw [ecur]; exact hne) hk2
    (by rw [ecur]; exact hl2)
  have eA : c.afterPacket outer dl = a.afterPacket outer dl := by
    unfold World.afterPacket; rw [h.state]
  rw [e1, e2, eA]
  refine ⟨rfl, ?_⟩
  exact OutSim.prepend _ (OutSim.reads hio₁.isRead hio₂.isRead h.out)

/-- A piece of a pair of programs: the same directive in both, or the reads of one packet cut in
two ways. -/
inductive Seg where
  | same (d : Directive)
  | reads (ks₁ ks₂ : List Nat)

/-- Run a piece: the left (`true`) or the right program. -/
def runSeg (left : Bool) (w : World) : Seg → World
  | .same d => w.execDirective d
  | .reads ks₁ ks₂ => readPacket (if left then ks₁ else ks₂) w

/-- Every `reads` piece is entered (in the left run) in a state where it reads one packet. -/
def Admissible : World → List Seg → Prop
  | _, [] => True
  | w, .same d :: segs => Admissible (w.execDirective d) segs
  | w, .reads ks₁ ks₂ :: segs =>
    ReadsOK w ks₁ ∧ (∀ k ∈ ks₂, 1 ≤ k ∧ k ≤ 250) ∧ w.curNet.rx.length ≤ ks₂.length ∧
      Admissible (readPacket ks₁ w) segs

/-- **A whole stream of packets, any fragmentation of each.** Two programs made of the same
directives (operations issued, write and flush decisions, ticks, further inbound bytes — anything)
between the reads of the packets, each packet read under two different lists of read decisions:
the two runs agree on everything but the trace, and the traces agree up to read lines. -/
theorem runSegs_sim : ∀ (segs : List Seg) (a c : World), Sim a c → Admissible a segs →
    Sim (segs.foldl (runSeg true) a) (segs.foldl (runSeg false) c) := by
  intro segs
  induction segs with
  | nil => intro a c h _; exact h
  | cons sg segs ih =>
    intro a c h hadm
    cases sg with
    | same d => exact ih _ _ (h.exec d) hadm
    | reads ks₁ ks₂ =>
      obtain ⟨h1, hk2, hl2, hrest⟩ := hadm
      exact ih _ _ (h.reads h1 hk2 hl2) hrest

/-! ### Decidable sufficient conditions, for concrete programs -/

/-- At a packet boundary: suspended in `read_packet` before the deadline, reader empty with room for
a byte, bytes to read, decisions in range and enough of them. -/
def readsOKb (w : World) (ks : List Nat) : Bool :=
  (match w.fut with
   | some (.waitRead _ dl _) =>
     (match dl with
      | none => true
      | some d => decide (w.now < d))
   | _ => false) &&
  w.sess.reader.data.isEmpty && w.sess.reader.packetLength.isNone && decide (1 ≤ w.sess.reader.cap) &&
  !w.curNet.rx.isEmpty && ks.all (fun k => decide (1 ≤ k) && decide (k ≤ 250)) &&
  decide (w.curNet.rx.length ≤ ks.length)

theorem readsOK_of_b {w : World} {ks : List Nat} (h : readsOKb w ks = true) : ReadsOK w ks := by
  unfold readsOKb at h
  simp only [Bool.and_eq_true, decide_eq_true_eq, List.isEmpty_iff, Option.isNone_iff_eq_none,
    Bool.not_eq_true', List.all_eq_true] at h
  obtain ⟨⟨⟨⟨⟨⟨hf, hd⟩, hp⟩, hc⟩, hrx⟩, hks⟩, hlen⟩ := h
  cases hfut : w.fut with
  | none => rw [hfut] at hf; cases hf
  | some pc =>
    cases pc with
    | waitRead outer dl y =>
      rw [hfut] at hf
      refine ⟨outer, dl, y, hfut, ?_, Waiting_fresh _ _ hd hp hc, ?_, hks, hlen⟩
      · cases dl with
        | none => trivial
        | some d => simpa [DeadlineOK] using hf
      · intro h0; rw [h0] at hrx; cases hrx
    | _ => rw [hfut] at hf; cases hf

def admissibleb : World → List Seg → Bool
  | _, [] => true
  | w, .same d :: segs => admissibleb (w.execDirective d) segs
  | w, .reads ks₁ ks₂ :: segs =>
    readsOKb w ks₁ && ks₂.all (fun k => decide (1 ≤ k) && decide (k ≤ 250)) &&
      decide (w.curNet.rx.length ≤ ks₂.length) && admissibleb (readPacket ks₁ w) segs

theorem admissible_of_b : ∀ (segs : List Seg) (w : World), admissibleb w segs = true → Admissible w segs := by
  intro segs
  induction segs with
  | nil => intro w _; trivial
  | cons sg segs ih =>
    intro w h
    cases sg with
    | same d => exact ih _ h
    | reads ks₁ ks₂ =>
      simp only [admissibleb, Bool.and_eq_true, decide_eq_true_eq, List.all_eq_true] at h
      obtain ⟨⟨⟨h1, h2⟩, h3⟩, h4⟩ := h
      exact ⟨readsOK_of_b h1, h2, h3, ih _ h4⟩

end Minimq
