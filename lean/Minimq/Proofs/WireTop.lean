import Minimq.Proofs.Wire
/-
C01, whole machine, continued: `poll`, the directives, and whole programs.
-/
namespace Minimq
open Gen World Outbound

/-! ### A stable predicate: only the current transport is touched -/

/-- Same number of transports, the same older transports, and the same torn-transport marks. -/
def Frame (w0 w : World) : Prop :=
  w.nets ≠ [] ∧ w.nets.length = w0.nets.length ∧ w.nets.dropLast = w0.nets.dropLast ∧
  (∀ i ∈ w0.tornNets, i ∈ w.tornNets) ∧ (∀ i ∈ w.tornNets, i ∈ w0.tornNets ∨ i = w0.nets.length)

theorem Frame.refl {w : World} (h : w.nets ≠ []) : Frame w w :=
  ⟨h, rfl, rfl, fun _ hi => hi, fun _ hi => Or.inl hi⟩

theorem wstable_frame (w0 : World) : WStable (Frame w0) where
  emit := fun _ _ h => h
  sess := fun _ _ h => h
  fut := fun _ _ h => h
  conn := fun _ _ h => h
  slot := fun _ _ h => h
  starved := fun _ _ h => h
  wakes := fun _ _ h => h
  lastRes := fun _ _ h => h
  handles := fun _ _ h => h
  setCurNet := fun w n h => by
    obtain ⟨h1, h2, h3, h4, h5⟩ := h
    obtain ⟨s1, _, s3, _⟩ := setCurNet_spec w n h1
    exact ⟨nets_ne_of_length h1 s1, s1.trans h2, s3.trans h3, h4, h5⟩

theorem frame_cancel (w0 : World) (w : World) (h : Frame w0 w) : Frame w0 w.cancelFut := by
  obtain ⟨h1, h2, h3, h4, h5⟩ := h
  unfold World.cancelFut
  split
  · refine ⟨h1, h2, h3, ?_, ?_⟩
    · intro i hi
      show i ∈ w.tornAfterDrop
      unfold World.tornAfterDrop
      split
      · exact List.mem_cons_of_mem _ (h4 i hi)
      · exact h4 i hi
    · intro i hi
      have hi' : i ∈ w.tornAfterDrop := hi
      unfold World.tornAfterDrop at hi'
      split at hi'
      · rcases List.mem_cons.mp hi' with rfl | hm
        · exact Or.inr h2
        · exact h5 i hm
      · exact h5 i hi'
  · exact ⟨h1, h2, h3, h4, h5⟩

/-! ### `poll` and `go` -/

theorem pollFuel_val : pollFuel = 4000 := rfl

theorem φIO_le (w : World) : φIO w ≤ 1001 := by have := mS_le w; simp only [φIO]; omega
theorem φLW_le (w : World) : φLW w ≤ 1002 := by have := mS_le w; simp only [φLW]; omega
theorem φFL_le (w : World) (k : AfterFlush) : φFL w k ≤ 1045 := by
  have := mS_le w; have := kpN_le k; simp only [φFL]; omega
theorem φDE_le (w : World) : φDE w ≤ 1714 := by
  have := mS_le w; have := mK_le w; have := mRW_le w; simp only [φDE, mD]; omega

theorem φIO_poll (w : World) : φIO w ≤ pollFuel := by have := φIO_le w; have := pollFuel_val; omega
theorem φLW_poll (w : World) : φLW w ≤ pollFuel := by have := φLW_le w; have := pollFuel_val; omega
theorem φDWR_poll (w : World) (y : Bool) : φDWR w y ≤ pollFuel := by
  have := φDWR_le w y; have := mS_le w; have := pollFuel_val; omega

/-- `poll` keeps the invariant: `pollFuel` covers the potential of every await point. -/
theorem poll_post (w : World) (h : PhaseV w.view w.fut) : Post (World.poll w) := by
  obtain ⟨_, _, i3, i4, _, _, i7, i8, i9, _, _, _, i13⟩ := machineW pollFuel
  have hp := pollFuel_val
  unfold World.poll
  simp only []
  split
  · exact h
  · rename_i pc hsome
    have hpc : PcOK w.view pc := by
      have : w.fut = some pc := hsome
      rw [this] at h; exact h
    cases pc with
    | stepWrite ctx pkt bytes written len now => exact i3 _ _ _ _ _ _ _ (φIO_poll _) hpc
    | stepFlush ctx pkt now => exact i4 _ _ _ _ (φIO_poll _) hpc
    | connWrite bytes => exact i7 _ _ _ (φLW_poll _) hpc
    | connFlush => exact i8 _ _ (φIO_poll _) hpc
    | connRead => exact i9 _ (φIO_poll _) hpc
    | q0Write bytes => exact i7 _ _ _ (φLW_poll _) hpc
    | q0Flush => exact i8 _ _ (φIO_poll _) hpc
    | discWrite bytes => exact i7 _ _ _ (φLW_poll _) hpc
    | discFlush => exact i8 _ _ (φIO_poll _) hpc
    | waitRead outer deadline yielded => exact i13 _ _ _ _ (φDWR_poll _ _) hpc.1

theorem Post_goLoop (n : Nat) (w : World) (h : Post w) : Post (World.goLoop n w) := by
  induction n generalizing w with
  | zero => exact h
  | succ n ih =>
    simp only [World.goLoop]
    have h1 : Post { (World.poll { w with slot := some 250 }) with slot := none } := poll_post { w with slot := some 250 } h
    repeat' split
    all_goals first
      | exact h1
      | exact ih _ h1

/-! ### Dropping the suspended future -/

/-- The current transport carries the ghost mark "a packet may have been torn here". -/
def CurTorn (w : World) : Prop := w.nets.length ∈ w.tornNets

theorem cancelFut_view (w : World) : w.cancelFut.view = w.view := by
  unfold World.cancelFut; split <;> rfl

theorem cancelFut_nets (w : World) : w.cancelFut.nets = w.nets := by
  unfold World.cancelFut; split <;> rfl

theorem cancelFut_fut (w : World) : w.cancelFut.fut = none := by
  unfold World.cancelFut
  split
  · rfl
  · rename_i h; simpa using h

theorem PhaseV_none_cases {v : View} (h : PhaseV v none) : (v.live = true ∧ FlushPre v) ∨ (v.live = false ∧ Pfx v.wire) := by
  simp only [PhaseV] at h
  split at h
  · rename_i hl; exact Or.inl ⟨hl, h⟩
  · rename_i hl; exact Or.inr ⟨by simpa using hl, h⟩

theorem PhaseV_none_pfx {v : View} (h : PhaseV v none) : Pfx v.wire := by
  rcases PhaseV_none_cases h with ⟨_, hf⟩ | ⟨_, hp⟩
  · exact hf.pfx
  · exact hp

theorem LocalFlushPre.flushPre {v : View} {which : Nat} (h : LocalFlushPre v which) (hw : which ≠ 0) : FlushPre v := by
  obtain ⟨h1, h2, h3, h4, h5⟩ := h
  rcases h4 with ⟨h0, _⟩ | ⟨_, hl, ha⟩
  · exact (hw h0).elim
  · exact ⟨[], ⟨h1, hl, h2, h5⟩, .quiet h3, ha⟩

/-- Whatever is suspended, the current wire is whole packets and the beginning of one more. -/
theorem PhaseV_pfx {v : View} {fut : Option Pc} (h : PhaseV v fut) : Pfx v.wire := by
  cases fut with
  | none => exact PhaseV_none_pfx h
  | some pc =>
    cases pc with
    | stepWrite ctx pkt bytes written len now => obtain ⟨step, hp, _⟩ := h; exact hp.pfx
    | stepFlush ctx pkt now => obtain ⟨step, hp, _⟩ := h; exact hp.pfx
    | connWrite bytes => exact LocalPre.pfx h
    | connFlush => exact LocalFlushPre.pfx h
    | connRead => exact LocalFlushPre.pfx h
    | q0Write bytes => exact LocalPre.pfx h
    | q0Flush => exact LocalFlushPre.pfx h
    | discWrite bytes => exact LocalPre.pfx h
    | discFlush => exact LocalFlushPre.pfx h
    | waitRead outer deadline yielded => exact h.1.pfx

/-- Dropping a future that is not inside an operation-local write leaves the invariant intact: the
queue entry it was working on records exactly how much of its packet is on the wire. -/
theorem cancel_phase {v : View} {fut : Option Pc} (h : PhaseV v fut) (hnt : tearsPacket fut = false) : PhaseV v none := by
  cases fut with
  | none => exact h
  | some pc =>
    cases pc with
    | stepWrite ctx pkt bytes written len now => obtain ⟨step, hp, _⟩ := h; exact PhaseV.live hp.flushPre
    | stepFlush ctx pkt now => obtain ⟨step, hp, _⟩ := h; exact PhaseV.live hp.flushPre
    | connWrite bytes => simp [tearsPacket] at hnt
    | connFlush => exact PhaseV.dead (Mode.dead h.2.2.2.1) (LocalFlushPre.pfx h)
    | connRead => exact PhaseV.dead (Mode.dead h.2.2.2.1) (LocalFlushPre.pfx h)
    | q0Write bytes => simp [tearsPacket] at hnt
    | q0Flush => exact PhaseV.live (LocalFlushPre.flushPre h (by decide))
    | discWrite bytes => simp [tearsPacket] at hnt
    | discFlush => exact PhaseV.live (LocalFlushPre.flushPre h (by decide))
    | waitRead outer deadline yielded => exact PhaseV.live (h.1.flushPre h.2)

theorem PhaseV_net {v : View} {pc : Pc} (h : PhaseV v (some pc)) : v.net = true := by
  cases pc with
  | stepWrite ctx pkt bytes written len now => obtain ⟨step, hp, _⟩ := h; exact hp.1.net
  | stepFlush ctx pkt now => obtain ⟨step, hp, _⟩ := h; exact hp.1.net
  | connWrite bytes => exact h.1
  | connFlush => exact h.1
  | connRead => exact h.1
  | q0Write bytes => exact h.1
  | q0Flush => exact h.1
  | discWrite bytes => exact h.1
  | discFlush => exact h.1
  | waitRead outer deadline yielded => exact h.1.1.net

theorem cancel_cases (w : World) (h : PhaseV w.view w.fut) :
    (w.nets ≠ [] ∧ CurTorn w.cancelFut) ∨ PhaseV w.cancelFut.view w.cancelFut.fut := by
  by_cases ht : tearsPacket w.fut = true
  · left
    have hsome : w.fut.isSome = true := by
      cases hf : w.fut with
      | none => rw [hf] at ht; simp [tearsPacket] at ht
      | some pc => rfl
    have hnet : w.nets ≠ [] := by
      cases hf : w.fut with
      | none => rw [hf] at hsome; simp at hsome
      | some pc => rw [hf] at h; exact nets_ne_of_view (PhaseV_net h)
    refine ⟨hnet, ?_⟩
    unfold CurTorn
    rw [cancelFut_nets]
    unfold World.cancelFut
    rw [if_pos hsome]
    show w.nets.length ∈ w.tornAfterDrop
    unfold World.tornAfterDrop
    rw [if_pos ht]
    exact List.mem_cons_self
  · right
    rw [cancelFut_view, cancelFut_fut]
    exact cancel_phase h (by simpa using ht)

/-! ### Operations started by a directive -/

/-- The body of an operation is built from the machine functions: it preserves every stable predicate. -/
def Stab (body : World → World) : Prop := ∀ (Q : World → Prop), WStable Q → ∀ w', Q w' → Q (body w')

theorem wstable_torn (t L : Nat) : WStable (fun x => x.nets ≠ [] ∧ x.nets.length = L ∧ t ∈ x.tornNets) where
  emit := fun _ _ h => h
  sess := fun _ _ h => h
  fut := fun _ _ h => h
  conn := fun _ _ h => h
  slot := fun _ _ h => h
  starved := fun _ _ h => h
  wakes := fun _ _ h => h
  lastRes := fun _ _ h => h
  handles := fun _ _ h => h
  setCurNet := fun w n h => by
    obtain ⟨h1, h2, h3⟩ := h
    obtain ⟨s1, _, _, _⟩ := setCurNet_spec w n h1
    exact ⟨nets_ne_of_length h1 s1, s1.trans h2, h3⟩

theorem CurTorn_of_stab {body : World → World} (hst : Stab body) (w : World) (hn : w.nets ≠ []) (h : CurTorn w) :
    CurTorn (body w) := by
  have := hst _ (wstable_torn w.nets.length w.nets.length) w ⟨hn, rfl, h⟩
  unfold CurTorn
  rw [this.2.1]; exact this.2.2

theorem startOp_post (w : World) (name : String) (body : World → World) (hst : Stab body)
    (hbody : ∀ w', PhaseV w'.view none → Post (body w')) (h : PhaseV w.view w.fut) :
    CurTorn (w.startOp name body) ∨ Post (w.startOp name body) := by
  unfold World.startOp
  split
  · right; exact h
  · rcases cancel_cases w h with ⟨hn, ht⟩ | hp
    · left
      exact CurTorn_of_stab hst { w.cancelFut with wakes := 0, lastIoStarved := false }
        (by show w.cancelFut.nets ≠ []; rw [cancelFut_nets]; exact hn) ht
    · right
      apply hbody
      rw [cancelFut_fut] at hp
      exact hp

theorem stab_finishErr (n : String) (e : Err) : Stab (fun w => w.finishErr n e) := fun _ hq _ h => hq.finishErr _ _ _ h

theorem stab_publish (r : PubReq) :
    Stab (fun w => if !w.live then w.finishErr "publish" .disconnected else flushLoop pollFuel w (.publishPre r)) := by
  intro Q hq w' h
  simp only []
  split
  · exact hq.finishErr _ _ _ h
  · exact (wmachine hq pollFuel).1 _ _ h

theorem stab_subscribe (r : SubReq) :
    Stab (fun w => if !w.live then w.finishErr "subscribe" .disconnected
      else if r.topics.isEmpty then w.finishErr "subscribe" .invalidRequest
      else if !(Properties.slice r.props).validFor .Subscribe then w.finishErr "subscribe" .invalidRequest
      else flushLoop pollFuel w (.subPre r)) := by
  intro Q hq w' h
  simp only []
  repeat' split
  all_goals first
    | exact hq.finishErr _ _ _ h
    | exact (wmachine hq pollFuel).1 _ _ h

theorem stab_unsubscribe (r : UnsubReq) :
    Stab (fun w => if !w.live then w.finishErr "unsubscribe" .disconnected
      else if r.topics.isEmpty then w.finishErr "unsubscribe" .invalidRequest
      else if !(Properties.slice r.props).validFor .Unsubscribe then w.finishErr "unsubscribe" .invalidRequest
      else flushLoop pollFuel w (.unsubPre r)) := by
  intro Q hq w' h
  simp only []
  repeat' split
  all_goals first
    | exact hq.finishErr _ _ _ h
    | exact (wmachine hq pollFuel).1 _ _ h

theorem stab_disconnect (d : Disconnect) :
    Stab (fun w => if !w.live then w.finish "ret disconnect ok"
      else
        let bad := match d.props with
          | some ps => !(Properties.slice ps).validFor .Disconnect
          | none => false
        if bad then w.finishErr "disconnect" .invalidRequest
        else flushLoop pollFuel w (.discPre d)) := by
  intro Q hq w' h
  simp only []
  repeat' split
  all_goals first
    | exact hq.finishErr _ _ _ h
    | exact hq.finish _ _ h
    | exact (wmachine hq pollFuel).1 _ _ h

theorem stab_drive (o : Outer) : Stab (fun w => driveEnter pollFuel w o) := by
  intro Q hq w' h
  exact (wmachine hq pollFuel).2.2.2.2.2.2.2.2.2.2.2.1 _ _ h

/-- The operations' first run: from the idle invariant to the invariant. -/
theorem flushOp_post (w : World) (k : AfterFlush) (h : PhaseV w.view none) (hl : w.live = true) :
    Post (flushLoop pollFuel w k) := by
  rcases PhaseV_none_cases h with ⟨_, hf⟩ | ⟨hd, _⟩
  · exact (machineW pollFuel).1 _ _ (by have := φFL_le w k; have := pollFuel_val; omega) hf
  · rw [view_live, hl] at hd; cases hd

theorem deadOp_finishErr (w : World) (n : String) (e : Err) (h : PhaseV w.view none) : Post (w.finishErr n e) := h

theorem deadOp_finish (w : World) (l : String) (h : PhaseV w.view none) : Post (w.finish l) := h

theorem driveOp_post (w : World) (o : Outer) (h : PhaseV w.view none) : Post (driveEnter pollFuel w o) := by
  rcases PhaseV_none_cases h with ⟨_, hf⟩ | ⟨hd, hp⟩
  · exact (machineW pollFuel).2.2.2.2.2.2.2.2.2.2.2.1 _ _ (by have := φDE_le w; have := pollFuel_val; omega) hf.drive
  · rw [driveEnter_dead w o (by rw [← view_live]; exact hd)]
    exact h

/-! ### Every directive except `connect` -/

theorem view_rx (w : World) (bytes : Bytes) (hn : w.nets ≠ []) :
    (w.setCurNet { w.curNet with rx := w.curNet.rx ++ bytes }).view = w.view := by
  obtain ⟨s1, s2, _, _⟩ := setCurNet_spec w { w.curNet with rx := w.curNet.rx ++ bytes } hn
  simp only [World.view, s2, isEmpty_of_length s1]
  rfl

theorem FlushPre.setPid {v : View} (h : FlushPre v) (n : Nat) (h1 : 1 ≤ n) (h2 : n ≤ 65535) :
    FlushPre { v with sess := v.sess.setPid n } := by
  obtain ⟨part, hl, ho, ha⟩ := h
  exact ⟨part, hl.sess (closed_SP.setPid _ _ h1 h2 hl.sp), ho, ha⟩

theorem dropConn_eq (w : World) :
    w.dropConn = if w.cancelFut.conn.isSome then { (w.cancelFut.emit "drop") with conn := none } else w.cancelFut := rfl

/-- One directive other than `connect`: the invariant is kept, or the future dropped was inside an
operation-local write (ghost mark), or the fuel ran out. -/
theorem exec_phase (w : World) (d : Directive) (hd : d ≠ .connect) (h : PhaseV w.view w.fut) :
    CurTorn (w.execDirective d) ∨ Post (w.execDirective d) := by
  cases d with
  | bad => right; exact h
  | connect => exact (hd rfl).elim
  | publish r =>
    simp only [World.execDirective]
    apply startOp_post w _ _ (stab_publish r) _ h
    intro w' hw'
    split
    · exact deadOp_finishErr _ _ _ hw'
    · rename_i hl; exact flushOp_post _ _ hw' (by simpa using hl)
  | subscribe r =>
    simp only [World.execDirective]
    apply startOp_post w _ _ (stab_subscribe r) _ h
    intro w' hw'
    split
    · exact deadOp_finishErr _ _ _ hw'
    · rename_i hl
      split
      · exact deadOp_finishErr _ _ _ hw'
      · split
        · exact deadOp_finishErr _ _ _ hw'
        · exact flushOp_post _ _ hw' (by simpa using hl)
  | unsubscribe r =>
    simp only [World.execDirective]
    apply startOp_post w _ _ (stab_unsubscribe r) _ h
    intro w' hw'
    split
    · exact deadOp_finishErr _ _ _ hw'
    · rename_i hl
      split
      · exact deadOp_finishErr _ _ _ hw'
      · split
        · exact deadOp_finishErr _ _ _ hw'
        · exact flushOp_post _ _ hw' (by simpa using hl)
  | disconnect dd =>
    simp only [World.execDirective]
    apply startOp_post w _ _ (stab_disconnect dd) _ h
    intro w' hw'
    split
    · exact deadOp_finish _ _ hw'
    · rename_i hl
      simp only []
      repeat' split
      all_goals first
        | exact deadOp_finishErr _ _ _ hw'
        | exact flushOp_post _ _ hw' (by simpa using hl)
  | poll =>
    simp only [World.execDirective]
    exact startOp_post w _ _ (stab_drive .poll) (fun w' hw' => driveOp_post _ _ hw') h
  | recv =>
    simp only [World.execDirective]
    exact startOp_post w _ _ (stab_drive .recv) (fun w' hw' => driveOp_post _ _ hw') h
  | drive =>
    simp only [World.execDirective]
    exact startOp_post w _ _ (stab_drive .drive) (fun w' hw' => driveOp_post _ _ hw') h
  | d n =>
    right
    simp only [World.execDirective]
    split
    · exact h
    · have := poll_post { w with slot := some n } h
      exact this
  | go =>
    right
    simp only [World.execDirective]
    split
    · exact h
    · exact Post_goLoop _ _ h
  | tick us =>
    right
    simp only [World.execDirective]
    split
    · exact h
    · split
      · exact poll_post { w with now := w.now + us } h
      · exact h
  | rx bytes =>
    right
    simp only [World.execDirective]
    split
    · exact h
    · rename_i hne
      have hn : w.nets ≠ [] := by simpa using hne
      show PhaseV (w.setCurNet { w.curNet with rx := w.curNet.rx ++ bytes }).view w.fut
      rw [view_rx w bytes hn]; exact h
  | cancel =>
    simp only [World.execDirective]
    rcases cancel_cases w h with ⟨_, ht⟩ | hp
    · exact Or.inl ht
    · exact Or.inr hp
  | drop =>
    simp only [World.execDirective]
    rw [dropConn_eq]
    rcases cancel_cases w h with ⟨_, ht⟩ | hp
    · left
      split
      · exact ht
      · exact ht
    · right
      rw [cancelFut_fut] at hp
      split
      · show PhaseV { w.cancelFut.view with conn := none } w.cancelFut.fut
        rw [cancelFut_fut]
        have hpf : Pfx w.cancelFut.view.wire := PhaseV_none_pfx hp
        exact PhaseV.dead rfl hpf
      · unfold Post; rw [cancelFut_fut]; exact hp
  | setpid n =>
    right
    simp only [World.execDirective]
    split
    · exact h
    · rename_i hg
      have hg' : w.fut = none ∧ 1 ≤ n ∧ n ≤ 65535 := by
        refine ⟨?_, ?_⟩
        · cases hf : w.fut with
          | none => rfl
          | some pc => simp [hf] at hg
        · simp at hg; omega
      show PhaseV { w.view with sess := w.sess.setPid n } w.fut
      rw [hg'.1] at h ⊢
      rcases PhaseV_none_cases h with ⟨_, hf⟩ | ⟨hdead, hp⟩
      · exact PhaseV.live (hf.setPid n hg'.2.1 hg'.2.2)
      · exact PhaseV.dead hdead hp
  | decode bs => right; exact h


/-! ### `connect` -/

theorem cancel_torn (w : World) :
    (∀ i ∈ w.tornNets, i ∈ w.cancelFut.tornNets) ∧ (∀ i ∈ w.cancelFut.tornNets, i ∈ w.tornNets ∨ i = w.nets.length) := by
  unfold World.cancelFut
  split
  · constructor
    · intro i hi
      show i ∈ w.tornAfterDrop
      unfold World.tornAfterDrop
      split
      · exact List.mem_cons_of_mem _ hi
      · exact hi
    · intro i hi
      have hi' : i ∈ w.tornAfterDrop := hi
      unfold World.tornAfterDrop at hi'
      split at hi'
      · rcases List.mem_cons.mp hi' with rfl | hm
        · exact Or.inr rfl
        · exact Or.inl hm
      · exact Or.inl hi'
  · exact ⟨fun _ hi => hi, fun _ hi => Or.inl hi⟩

theorem dropConn_tornNets (w : World) : w.dropConn.tornNets = w.cancelFut.tornNets := by
  rw [dropConn_eq]; split <;> rfl

/-- `connect` up to its first return: the new transport satisfies the invariant whatever came before. -/
theorem startConnect_post (w : World) (hsp : SP w.sess) : Post w.startConnect := by
  rw [startConnect_eq]
  obtain ⟨c1, c2, c3, _, c5, c6, _⟩ := connectStart_spec w
  have hsp1 : SP w.connectStart.sess := by rw [c1]; exact closed_SP.beginConnect _ hsp
  have hq1 : w.connectStart.sess.data.outbound.Quiet := by rw [c1]; exact Quiet_beginConnect _
  have hE : EncOk (connEnc w.connectStart.sess.connectPacket) := EncOk_encodeConnect _
  have hsp2 : SP (w.connectStart.sess.encode (connEnc w.connectStart.sess.connectPacket)).1 :=
    closed_SP.encodeConnect _ _ hsp1
  have hq2 := Quiet_encode w.connectStart.sess (connEnc w.connectStart.sess.connectPacket) hq1
  have hv : ∀ S : Session, ({ w.connectStart with sess := S } : World).view = { sess := S, conn := none, net := true, wire := [] } := by
    intro S
    show View.mk S w.connectStart.conn (!w.connectStart.nets.isEmpty) w.connectStart.curNet.wire = _
    rw [c6, c3, c2]; simp
  simp only []
  split
  · exact Post.dead_finishErr _ _ (by rw [hv]; rfl) (by rw [hv]; exact Pfx.nil)
  · rename_i off len hres
    refine (machineW pollFuel).2.2.2.2.2.2.1 _ _ _ (φLW_poll _) ?_
    rw [hv]
    have hfr := encode_packet_framed w.connectStart.sess _ hsp1.arena hE hres
    exact ⟨rfl, hsp2, hq2, Or.inl ⟨rfl, rfl⟩, [], WireIs.nil, by simpa using hfr⟩

theorem wstable_tornEq (T : List Nat) : WStable (fun x => x.tornNets = T) where
  emit := fun _ _ h => h
  sess := fun _ _ h => h
  fut := fun _ _ h => h
  conn := fun _ _ h => h
  slot := fun _ _ h => h
  starved := fun _ _ h => h
  wakes := fun _ _ h => h
  lastRes := fun _ _ h => h
  handles := fun _ _ h => h
  setCurNet := fun _ _ h => h

theorem startConnect_frame (w : World) :
    w.startConnect.nets.length = w.nets.length + 1 ∧ w.startConnect.nets.dropLast = w.nets ∧
    (∀ i ∈ w.tornNets, i ∈ w.startConnect.tornNets) ∧
    (∀ i ∈ w.startConnect.tornNets, i ∈ w.tornNets ∨ i = w.nets.length) ∧
    w.startConnect.tornNets = w.cancelFut.tornNets := by
  obtain ⟨_, c2, _⟩ := connectStart_spec w
  have hct : w.connectStart.tornNets = w.cancelFut.tornNets := by
    show w.dropConn.tornNets = _
    exact dropConn_tornNets w
  obtain ⟨t1, t2⟩ := cancel_torn w
  have key : ∀ (S : Session) (w' : World), Frame ({ w.connectStart with sess := S } : World) w' →
      w'.tornNets = w.cancelFut.tornNets →
      w'.nets.length = w.nets.length + 1 ∧ w'.nets.dropLast = w.nets ∧
      (∀ i ∈ w.tornNets, i ∈ w'.tornNets) ∧ (∀ i ∈ w'.tornNets, i ∈ w.tornNets ∨ i = w.nets.length) ∧
      w'.tornNets = w.cancelFut.tornNets := by
    intro S w' hf ht
    obtain ⟨_, f2, f3, _, _⟩ := hf
    have e1 : ({ w.connectStart with sess := S } : World).nets = w.nets ++ [({ } : Net)] := c2
    rw [e1] at f2 f3
    rw [ht]
    exact ⟨by rw [f2]; simp, by rw [f3]; simp, t1, t2, rfl⟩
  have hne : ∀ S : Session, ({ w.connectStart with sess := S } : World).nets ≠ [] := by
    intro S
    show w.connectStart.nets ≠ []
    rw [c2]; simp
  rw [startConnect_eq]
  simp only []
  split
  · exact key _ _ ((wstable_frame _).finishErr _ _ _ (Frame.refl (hne _)))
      ((wstable_tornEq _).finishErr _ _ _ hct)
  · exact key _ _ ((wmachine (wstable_frame _) pollFuel).2.2.2.2.2.2.1 _ _ _ (Frame.refl (hne _)))
      ((wmachine (wstable_tornEq _) pollFuel).2.2.2.2.2.2.1 _ _ _ hct)


/-! ### The invariant of whole executions -/

/-- Before the first `connect` nothing can run. -/
theorem exec_netless (w : World) (d : Directive) (hd : d ≠ .connect) (hn : w.nets = []) (hc : w.conn = none) (hf : w.fut = none) :
    (w.execDirective d).nets = [] ∧ (w.execDirective d).conn = none ∧ (w.execDirective d).fut = none ∧
    (w.execDirective d).tornNets = w.tornNets := by
  cases d with
  | connect => exact (hd rfl).elim
  | tick us =>
    simp only [World.execDirective]
    split
    · exact ⟨hn, hc, hf, rfl⟩
    · rw [if_neg (by simp [hf])]
      exact ⟨hn, hc, hf, rfl⟩
  | setpid n =>
    simp only [World.execDirective]
    split <;> exact ⟨hn, hc, hf, rfl⟩
  | _ =>
    simp [World.execDirective, World.startOp, World.cancelFut, World.dropConn, World.emit, hc, hf, hn]

/-- The invariant of whole executions. `old`: every transport that is no longer current, and was never
marked torn, carries whole packets and possibly the beginning of one more; `cur`: the current
transport is marked torn or satisfies the per-await-point invariant. -/
structure WInv (w : World) : Prop where
  sp : SP w.sess
  netless : w.nets = [] → w.conn = none ∧ w.fut = none
  tornBound : ∀ i ∈ w.tornNets, i ≤ w.nets.length
  old : ∀ i net, i + 1 < w.nets.length → w.nets[i]? = some net → (i + 1) ∉ w.tornNets → Pfx net.wire
  cur : CurTorn w ∨ PhaseV w.view w.fut

theorem WInv_init (cfg : Cfg) : WInv { sess := Session.new cfg } where
  sp := SP_new cfg
  netless := fun _ => ⟨rfl, rfl⟩
  tornBound := by intro i hi; simp at hi
  old := by intro i net hi; simp at hi
  cur := Or.inr (PhaseV.dead rfl Pfx.nil)

theorem getElem?_of_dropLast_eq {l l' : List Net} (hl : l'.length = l.length) (hd : l'.dropLast = l.dropLast) (i : Nat)
    (hi : i + 1 < l.length) : l'[i]? = l[i]? := by
  have h1 := List.getElem?_dropLast (xs := l') (i := i)
  have h2 := List.getElem?_dropLast (xs := l) (i := i)
  rw [if_pos (by omega)] at h1 h2
  rw [← h1, ← h2, hd]

theorem curNet_of_last (w : World) (i : Nat) (net : Net) (hi : i + 1 = w.nets.length) (hg : w.nets[i]? = some net) :
    w.curNet = net := by
  unfold World.curNet
  rw [List.getLast?_eq_getElem?]
  have : w.nets.length - 1 = i := by omega
  rw [this, hg]; rfl

/-- One directive keeps the invariant. -/
theorem exec_WInv (w : World) (d : Directive) (h : WInv w) : WInv (w.execDirective d) := by
  have hsp' : SP (w.execDirective d).sess := execDirective_inv closed_SP w d h.sp
  by_cases hd : d = .connect
  · subst hd
    obtain ⟨f1, f2, f3, f4, _⟩ := startConnect_frame w
    have hphase := startConnect_post w h.sp
    · refine ⟨hsp', ?_, ?_, ?_, Or.inr hphase⟩
      · intro h0
        have : (w.execDirective .connect).nets.length = w.nets.length + 1 := f1
        rw [h0] at this; simp at this
      · intro i hi
        have hlen : (w.execDirective .connect).nets.length = w.nets.length + 1 := f1
        rw [hlen]
        rcases f4 i hi with hm | rfl
        · have := h.tornBound i hm; omega
        · omega
      · intro i net hi hg hnt
        have hlen : (w.execDirective .connect).nets.length = w.nets.length + 1 := f1
        rw [hlen] at hi
        have hg' : w.nets[i]? = some net := by
          have h1 := List.getElem?_dropLast (xs := (w.execDirective .connect).nets) (i := i)
          rw [if_pos (by omega)] at h1
          have hdl : (w.execDirective .connect).nets.dropLast = w.nets := f2
          rw [hdl] at h1
          rw [h1]; exact hg
        by_cases hlt : i + 1 < w.nets.length
        · exact h.old i net hlt hg' (fun hm => hnt (f3 _ hm))
        · have heq : i + 1 = w.nets.length := by omega
          have hcur := curNet_of_last w i net heq hg'
          rcases h.cur with ht | hp
          · exact (hnt (f3 _ (by rw [heq]; exact ht))).elim
          · have := PhaseV_pfx hp
            rw [← hcur]; exact this
  · by_cases hn : w.nets = []
    · obtain ⟨hc, hf⟩ := h.netless hn
      obtain ⟨e1, e2, e3, e4⟩ := exec_netless w d hd hn hc hf
      refine ⟨hsp', fun _ => ⟨e2, e3⟩, ?_, ?_, Or.inr ?_⟩
      · intro i hi
        rw [e4] at hi
        have := h.tornBound i hi
        rw [hn] at this
        rw [e1]; exact this
      · intro i net hi
        rw [e1] at hi; simp at hi
      · rw [e3]
        refine PhaseV.dead ?_ ?_
        · show View.live (World.view _) = false
          simp only [World.view, View.live, e2]
        · show Pfx (World.curNet _).wire
          simp only [World.curNet, e1]
          exact Pfx.nil
    · have hfr : Frame w (w.execDirective d) :=
        wexec_noconnect (wstable_frame w) w (frame_cancel w w) (fun _ _ h => h) d (fun he => hd he) (Frame.refl hn)
      obtain ⟨g1, g2, g3, g4, g5⟩ := hfr
      have hrest : ∀ (hcur : CurTorn (w.execDirective d) ∨ PhaseV (w.execDirective d).view (w.execDirective d).fut),
          WInv (w.execDirective d) := by
        intro hcur
        refine ⟨hsp', fun h0 => (g1 h0).elim, ?_, ?_, hcur⟩
        · intro i hi
          rw [g2]
          rcases g5 i hi with hm | rfl
          · exact h.tornBound i hm
          · exact Nat.le_refl _
        · intro i net hi hg hnt
          rw [g2] at hi
          rw [getElem?_of_dropLast_eq g2 g3 i hi] at hg
          exact h.old i net hi hg (fun hm => hnt (g4 _ hm))
      rcases h.cur with ht | hp
      · apply hrest
        left
        unfold CurTorn
        rw [g2]; exact g4 _ ht
      · rcases exec_phase w d hd hp with ht | hphase
        · exact hrest (Or.inl ht)
        · exact hrest (Or.inr hphase)

/-- **Whole programs.** The invariant holds after any list of directives from a state satisfying it. -/
theorem run_WInv (ds : List Directive) (w : World) (h : WInv w) : WInv (ds.foldl World.execDirective w) := by
  induction ds generalizing w with
  | nil => exact h
  | cons d ds ih =>
    simp only [List.foldl]
    exact ih _ (exec_WInv w d h)

/-! ### Reading the invariant -/

/-- What the invariant says about the wire of the current transport while the connection is live or
the handshake is running: whole packets, then `part`, and `part` is accounted for either by the state
of the queues or by the operation-local write that is suspended. -/
theorem PhaseV_wire {v : View} {fut : Option Pc} (h : PhaseV v fut)
    (hact : v.live = true ∨ (v.conn = none ∧ fut.isSome = true)) :
    ∃ part, WireIs v.wire part ∧
      ((tearsPacket fut = false ∧ v.o.OState part) ∨
       (∃ rest, (fut = some (.connWrite rest) ∨ fut = some (.q0Write rest) ∨ fut = some (.discWrite rest)) ∧
          Framed (part ++ rest) ∧ v.o.Quiet)) := by
  have ofFlush : ∀ {f : Option Pc}, tearsPacket f = false → FlushPre v → ∃ part, WireIs v.wire part ∧
      ((tearsPacket f = false ∧ v.o.OState part) ∨
       (∃ rest, (f = some (.connWrite rest) ∨ f = some (.q0Write rest) ∨ f = some (.discWrite rest)) ∧
          Framed (part ++ rest) ∧ v.o.Quiet)) := by
    intro f hf ⟨part, hl, ho, _⟩
    exact ⟨part, hl.wire, Or.inl ⟨hf, ho⟩⟩
  cases fut with
  | none =>
    rcases PhaseV_none_cases h with ⟨_, hf⟩ | ⟨hd, _⟩
    · exact ofFlush rfl hf
    · rcases hact with hl | ⟨_, hs⟩
      · rw [hl] at hd; cases hd
      · simp at hs
  | some pc =>
    cases pc with
    | stepWrite ctx pkt bytes written len now => obtain ⟨step, hp, _⟩ := h; exact ofFlush rfl hp.flushPre
    | stepFlush ctx pkt now => obtain ⟨step, hp, _⟩ := h; exact ofFlush rfl hp.flushPre
    | connWrite bytes =>
      obtain ⟨_, _, hq, _, pre, hw, hfr⟩ := h
      exact ⟨pre, hw, Or.inr ⟨bytes, Or.inl rfl, hfr, hq⟩⟩
    | connFlush =>
      obtain ⟨_, _, hq, _, hw⟩ := h
      exact ⟨[], hw, Or.inl ⟨rfl, .quiet hq⟩⟩
    | connRead =>
      obtain ⟨_, _, hq, _, hw⟩ := h
      exact ⟨[], hw, Or.inl ⟨rfl, .quiet hq⟩⟩
    | q0Write bytes =>
      obtain ⟨_, _, hq, _, pre, hw, hfr⟩ := h
      exact ⟨pre, hw, Or.inr ⟨bytes, Or.inr (Or.inl rfl), hfr, hq⟩⟩
    | q0Flush =>
      obtain ⟨_, _, hq, _, hw⟩ := h
      exact ⟨[], hw, Or.inl ⟨rfl, .quiet hq⟩⟩
    | discWrite bytes =>
      obtain ⟨_, _, hq, _, pre, hw, hfr⟩ := h
      exact ⟨pre, hw, Or.inr ⟨bytes, Or.inr (Or.inr rfl), hfr, hq⟩⟩
    | discFlush =>
      obtain ⟨_, _, hq, _, hw⟩ := h
      exact ⟨[], hw, Or.inl ⟨rfl, .quiet hq⟩⟩
    | waitRead outer deadline yielded => exact ofFlush rfl (h.1.flushPre h.2)

/-! ### The ghost mark and the older transports -/

theorem cancelFut_tornNets_of (w : World) (h : tearsPacket w.fut = false) : w.cancelFut.tornNets = w.tornNets := by
  unfold World.cancelFut
  split
  · show w.tornAfterDrop = _
    unfold World.tornAfterDrop
    rw [if_neg (by simp [h])]
  · rfl

/-- The mark is set only by dropping a future that is suspended inside an operation-local write. -/
theorem exec_tornNets (w : World) (d : Directive) (h : tearsPacket w.fut = false) :
    (w.execDirective d).tornNets = w.tornNets := by
  by_cases hd : d = .connect
  · subst hd
    show w.startConnect.tornNets = _
    rw [(startConnect_frame w).2.2.2.2]
    exact cancelFut_tornNets_of w h
  · exact wexec_noconnect (wstable_tornEq w.tornNets) w (fun _ => cancelFut_tornNets_of w h) (fun _ _ h => h) d
      (fun he => hd he) rfl

/-- A transport that is no longer the current one is never touched again. -/
theorem exec_older_nets (w : World) (d : Directive) (i : Nat) (hi : i + 1 < w.nets.length) :
    (w.execDirective d).nets[i]? = w.nets[i]? := by
  by_cases hd : d = .connect
  · subst hd
    obtain ⟨f1, f2, _⟩ := startConnect_frame w
    have h1 := List.getElem?_dropLast (xs := w.startConnect.nets) (i := i)
    rw [if_pos (by omega), f2] at h1
    exact h1.symm
  · have hn : w.nets ≠ [] := by
      intro h0; rw [h0] at hi; simp at hi
    obtain ⟨_, g2, g3, _, _⟩ : Frame w (w.execDirective d) :=
      wexec_noconnect (wstable_frame w) w (frame_cancel w w) (fun _ _ h => h) d (fun he => hd he) (Frame.refl hn)
    exact getElem?_of_dropLast_eq g2 g3 i hi


/-! ### The invariant in plain terms -/

/-- No entry of the three outbound queues is partially written. -/
def Outbound.NoPartial (o : Outbound) : Prop :=
  ∀ n, (∀ e ∈ o.control, e.state ≠ .write (n + 1)) ∧ (∀ e ∈ o.release, e.state ≠ .write (n + 1)) ∧
    (∀ e ∈ o.retained, e.state ≠ .write (n + 1))

/-- No entry of the three outbound queues is partially written or waiting for its flush. -/
def Outbound.NoneInProgress (o : Outbound) : Prop :=
  (∀ e ∈ o.control, e.state.isInProgress = false) ∧ (∀ e ∈ o.release, e.state.isInProgress = false) ∧
    (∀ e ∈ o.retained, e.state.isInProgress = false)

/-- Exactly one entry of the three outbound queues is in progress: `n + 1` bytes of its packet `bytes`
have been written (an owed acknowledgement / PINGREQ and a PUBREL are encoded afresh from the entry, a
retained packet lies in the arena), and every other entry is neither partially written nor waiting for
its flush. -/
inductive Outbound.OnePartial (o : Outbound) (n : Nat) (bytes : Bytes) : Prop
  | control (pre post : List PendingControl) (e : PendingControl) (h : o.control = pre ++ e :: post)
      (hst : e.state = .write (n + 1)) (hb : encodeControl e.action = .ok bytes)
      (hoth : ∀ x ∈ pre ++ post, x.state.isInProgress = false)
      (hrel : ∀ x ∈ o.release, x.state.isInProgress = false) (hret : ∀ x ∈ o.retained, x.state.isInProgress = false)
  | release (pre post : List PendingRelease) (e : PendingRelease) (h : o.release = pre ++ e :: post)
      (hst : e.state = .write (n + 1)) (hb : encodePubrel e.id e.rc = .ok bytes)
      (hoth : ∀ x ∈ pre ++ post, x.state.isInProgress = false)
      (hctl : ∀ x ∈ o.control, x.state.isInProgress = false) (hret : ∀ x ∈ o.retained, x.state.isInProgress = false)
  | retained (pre post : List RetainedPacket) (e : RetainedPacket) (h : o.retained = pre ++ e :: post)
      (hst : e.state = .write (n + 1)) (hb : bytes = slice o.buf e.offset e.len)
      (hoth : ∀ x ∈ pre ++ post, x.state.isInProgress = false)
      (hctl : ∀ x ∈ o.control, x.state.isInProgress = false) (hrel : ∀ x ∈ o.release, x.state.isInProgress = false)

theorem Outbound.Quiet.noneInProgress {o : Outbound} (h : o.Quiet) : o.NoneInProgress :=
  ⟨fun e he => fresh_not_inProgress _ (h.control e he), h.release, h.retained⟩

theorem not_partial_of_not_inProgress {st : SendState} (h : st.isInProgress = false) (n : Nat) : st ≠ .write (n + 1) := by
  intro hs; rw [hs] at h; simp [SendState.isInProgress] at h

theorem Outbound.NoneInProgress.noPartial {o : Outbound} (h : o.NoneInProgress) : o.NoPartial :=
  fun n => ⟨fun e he => not_partial_of_not_inProgress (h.1 e he) n, fun e he => not_partial_of_not_inProgress (h.2.1 e he) n,
    fun e he => not_partial_of_not_inProgress (h.2.2 e he) n⟩

theorem Outbound.Slot.noPartial {o : Outbound} {step : Outbound.Step} (h : o.Slot step) (hst : step.state = .flush) : o.NoPartial := by
  intro n
  have hw0 : ∀ s : SendState, s = .write 0 → s ≠ .write (n + 1) := by intro s h1 h2; rw [h1] at h2; cases h2
  have hfl : ∀ s : SendState, s = .flush → s ≠ .write (n + 1) := by intro s h1 h2; rw [h1] at h2; cases h2
  cases h with
  | control a st rest hc hrest hrel hret =>
    simp only [Outbound.Step.state] at hst
    refine ⟨?_, fun e he => not_partial_of_not_inProgress (hrel e he) n, fun e he => not_partial_of_not_inProgress (hret e he) n⟩
    intro e he
    rw [hc] at he
    rcases List.mem_cons.mp he with rfl | hm
    · exact hfl _ hst
    · exact hw0 _ (hrest e hm)
  | release pre id rc st post hr hpre hpost hctl hret =>
    simp only [Outbound.Step.state] at hst
    refine ⟨fun e he => hw0 _ (hctl e he), ?_, fun e he => not_partial_of_not_inProgress (hret e he) n⟩
    intro e he
    rw [hr] at he
    rcases List.mem_append.mp he with hm | hm
    · exact not_partial_of_not_inProgress (hpre e hm).2 n
    · rcases List.mem_cons.mp hm with rfl | hm
      · exact hfl _ hst
      · exact not_partial_of_not_inProgress (hpost e hm) n
  | retained pre x post hr hpre hpost hctl hrel =>
    simp only [Outbound.Step.state] at hst
    refine ⟨fun e he => hw0 _ (hctl e he), fun e he => not_partial_of_not_inProgress (hrel e he) n, ?_⟩
    intro e he
    rw [hr] at he
    rcases List.mem_append.mp he with hm | hm
    · exact not_partial_of_not_inProgress (hpre e hm).2 n
    · rcases List.mem_cons.mp hm with rfl | hm
      · exact hfl _ hst
      · exact not_partial_of_not_inProgress (hpost e hm) n

theorem Outbound.Slot.onePartial {o : Outbound} {step : Outbound.Step} {n : Nat} {bytes : Bytes} (h : o.Slot step)
    (hst : step.state = .write (n + 1)) (hb : o.StepBytes step bytes) : o.OnePartial n bytes := by
  cases h with
  | control a st rest hc hrest hrel hret =>
    simp only [Outbound.Step.state] at hst
    exact .control [] rest ⟨a, st⟩ (by simpa using hc) hst hb
      (fun x hx => fresh_not_inProgress _ (hrest x (by simpa using hx))) hrel hret
  | release pre id rc st post hr hpre hpost hctl hret =>
    simp only [Outbound.Step.state] at hst
    refine .release pre post ⟨id, rc, st⟩ hr hst hb ?_ (fun x hx => fresh_not_inProgress _ (hctl x hx)) hret
    intro x hx
    rcases List.mem_append.mp hx with hm | hm
    · exact (hpre x hm).2
    · exact hpost x hm
  | retained pre e post hr hpre hpost hctl hrel =>
    simp only [Outbound.Step.state] at hst
    refine .retained pre post e hr hst hb.1 ?_ (fun x hx => fresh_not_inProgress _ (hctl x hx)) hrel
    intro x hx
    rcases List.mem_append.mp hx with hm | hm
    · exact (hpre x hm).2
    · exact hpost x hm

/-- The invariant, read off for the current transport. -/
theorem WInv.wire {w : World} (h : WInv w) (hnt : w.nets.length ∉ w.tornNets)
    (hact : w.live = true ∨ (w.conn = none ∧ w.fut.isSome = true)) :
    ∃ (frames : List Bytes) (part : Bytes), w.curNet.wire = frames.flatten ++ part ∧ (∀ f ∈ frames, Framed f) ∧
      ((part = [] ∧ tearsPacket w.fut = false ∧ w.sess.data.outbound.NoPartial) ∨
       (∃ n bytes, part = bytes.take (n + 1) ∧ n + 1 < bytes.length ∧ Framed bytes ∧ tearsPacket w.fut = false ∧
          w.sess.data.outbound.OnePartial n bytes) ∨
       (∃ rest, (w.fut = some (.connWrite rest) ∨ w.fut = some (.q0Write rest) ∨ w.fut = some (.discWrite rest)) ∧
          Framed (part ++ rest) ∧ w.sess.data.outbound.NoneInProgress)) := by
  rcases h.cur with ht | hp
  · exact (hnt ht).elim
  · obtain ⟨part, ⟨frames, hfr, hw⟩, hcase⟩ := PhaseV_wire hp hact
    refine ⟨frames, part, hw, hfr, ?_⟩
    rcases hcase with ⟨hf, ho⟩ | ⟨rest, hfut, hfr2, hq⟩
    · cases ho with
      | quiet hq => exact Or.inl ⟨rfl, hf, hq.noneInProgress.noPartial⟩
      | flushing step hs hst => exact Or.inl ⟨rfl, hf, hs.noPartial hst⟩
      | writing step n bytes hs hst hb hn hfb => exact Or.inr (Or.inl ⟨n, bytes, rfl, hn, hfb, hf, hs.onePartial hst hb⟩)
    · exact Or.inr (Or.inr ⟨rest, hfut, hfr2, hq.noneInProgress⟩)

/-- The invariant, read off for every transport ever opened. -/
theorem WInv.all_wires {w : World} (h : WInv w) (i : Nat) (net : Net) (hg : w.nets[i]? = some net)
    (hnt : (i + 1) ∉ w.tornNets) : Pfx net.wire := by
  have hlt : i < w.nets.length := by
    rcases Nat.lt_or_ge i w.nets.length with h1 | h1
    · exact h1
    · rw [List.getElem?_eq_none h1] at hg; cases hg
  by_cases hlast : i + 1 < w.nets.length
  · exact h.old i net hlast hg hnt
  · have heq : i + 1 = w.nets.length := by omega
    rcases h.cur with ht | hp
    · exact (hnt (by rw [heq]; exact ht)).elim
    · rw [← curNet_of_last w i net heq hg]
      exact PhaseV_pfx hp

end Minimq
