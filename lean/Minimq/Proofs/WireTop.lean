import Minimq.Proofs.Wire
/-
C01, whole machine, continued: `poll`, the directives, and whole programs.
-/
namespace Minimq
open Gen World Outbound

/-! ### A stable predicate: only the current transport is touched -/

/-- Same number of transports, the same older transports, and the same torn-transport marks. -/
def Frame (w0 w : World) : Prop :=
  w.nets ≠ [] ∧ w.nets.length = w0.nets.length ∧ w.nets.dropLast = w0.nets.dropLast ∧
  (∀ i ∈ w0.tornNets, i ∈ w.tornNets) ∧ (∀ i ∈ w.tornNets, i ∈ w0.tornNets ∨ i = w0.nets.length)

theorem Frame.refl {w : World} (h : w.nets ≠ []) : Frame w w :=
  ⟨h, rfl, rfl, fun _ hi => hi, fun _ hi => Or.inl hi⟩

theorem wstable_frame (w0 : World) : WStable (Frame w0) where
  emit := fun _ _ h => h
  sess := fun _ _ h => h
  fut := fun _ _ h => h
  conn := fun _ _ h => h
  slot := fun _ _ h => h
  starved := fun _ _ h => h
  wakes := fun _ _ h => h
  lastRes := fun _ _ h => h
  handles := fun _ _ h => h
  setCurNet := fun w n h => by
    obtain ⟨h1, h2, h3, h4, h5⟩ := h
    obtain ⟨s1, _, s3, _⟩ := setCurNet_spec w n h1
    exact ⟨nets_ne_of_length h1 s1, s1.trans h2, s3.trans h3, h4, h5⟩
  log := fun _ _ _ h => h

theorem frame_cancel (w0 : World) (w : World) (h : Frame w0 w) : Frame w0 w.cancelFut := by
  obtain ⟨h1, h2, h3, h4, h5⟩ := h
  unfold World.cancelFut
  split
  · refine ⟨h1, h2, h3, ?_, ?_⟩
    · intro i hi
      show i ∈ w.tornAfterDrop
      unfold World.tornAfterDrop
      split
      · exact List.mem_cons_of_mem _ (h4 i hi)
      · exact h4 i hi
    · intro i hi
      have hi' : i ∈ w.tornAfterDrop := hi
      unfold World.tornAfterDrop at hi'
      split at hi'
      · rcases List.mem_cons.mp hi' with rfl | hm
        · exact Or.inr h2
        · exact h5 i hm
      · exact h5 i hi'
  · exact ⟨h1, h2, h3, h4, h5⟩

/-! ### `poll` and `go` -/

theorem pollFuel_val : pollFuel = 4000 := rfl

theorem φIO_le (w : World) : φIO w ≤ 1001 := by have := mS_le w; simp only [φIO]; omega
theorem φLW_le (w : World) : φLW w ≤ 1002 := by have := mS_le w; simp only [φLW]; omega
theorem φFL_le (w : World) (k : AfterFlush) : φFL w k ≤ 1045 := by
  have := mS_le w; have := kpN_le k; simp only [φFL]; omega
theorem φDE_le (w : World) : φDE w ≤ 1714 := by
  have := mS_le w; have := mK_le w; have := mRW_le w; simp only [φDE, mD]; omega

theorem φIO_poll (w : World) : φIO w ≤ pollFuel := by have := φIO_le w; have := pollFuel_val; omega
theorem φLW_poll (w : World) : φLW w ≤ pollFuel := by have := φLW_le w; have := pollFuel_val; omega
theorem φLF_poll (w : World) (which : Nat) : φLF w which ≤ pollFuel := by
  unfold φLF; split
  · exact φIO_poll w
  · have := pollFuel_val; omega
theorem φDWR_poll (w : World) (y : Bool) : φDWR w y ≤ pollFuel := by
  have := φDWR_le w y; have := mS_le w; have := pollFuel_val; omega

/-- `poll` keeps the invariant: `pollFuel` covers the potential of every await point. -/
theorem poll_post (w : World) (h : PhaseV w.view w.fut) : Post (World.poll w) := by
  obtain ⟨_, _, i3, i4, _, _, i7, i8, i9, _, _, _, i13⟩ := machineW pollFuel
  have hp := pollFuel_val
  unfold World.poll
  simp only []
  split
  · exact h
  · rename_i pc hsome
    have hpc : PcOK w.view pc := by
      have : w.fut = some pc := hsome
      rw [this] at h; exact h
    cases pc with
    | stepWrite ctx pkt bytes written len now => exact i3 _ _ _ _ _ _ _ (φIO_poll _) hpc
    | stepFlush ctx pkt now => exact i4 _ _ _ _ (φIO_poll _) hpc
    | connWrite bytes => exact i7 _ _ _ (φLW_poll _) hpc
    | connFlush => exact i8 _ 0 (φLF_poll _ _) hpc
    | connRead => exact i9 _ (φIO_poll _) hpc
    | q0Write bytes => exact i7 _ _ _ (φLW_poll _) hpc
    | q0Flush => exact i8 _ 1 (φLF_poll _ _) hpc
    | discWrite bytes => exact i7 _ _ _ (φLW_poll _) hpc
    | discFlush => exact i8 _ 2 (φLF_poll _ _) hpc
    | waitRead outer deadline yielded => exact i13 _ _ _ _ (φDWR_poll _ _) hpc.1 hpc.2.2.2.1

theorem Post_goLoop (n : Nat) (w : World) (h : Post w) : Post (World.goLoop n w) := by
  induction n generalizing w with
  | zero => exact h
  | succ n ih =>
    simp only [World.goLoop]
    have h1 : Post { (World.poll { w with slot := some 250 }) with slot := none } := poll_post { w with slot := some 250 } h
    repeat' split
    all_goals first
      | exact h1
      | exact ih _ h1

/-! ### Dropping the suspended future -/

/-- The current transport carries the ghost mark "a packet may have been torn here". -/
def CurTorn (w : World) : Prop := w.nets.length ∈ w.tornNets

theorem cancelFut_view (w : World) : w.cancelFut.view = w.view := by
  unfold World.cancelFut; split <;> rfl

theorem cancelFut_nets (w : World) : w.cancelFut.nets = w.nets := by
  unfold World.cancelFut; split <;> rfl

theorem cancelFut_fut (w : World) : w.cancelFut.fut = none := by
  unfold World.cancelFut
  split
  · rfl
  · rename_i h; simpa using h

theorem PhaseV_none_cases {v : View} (h : PhaseV v none) : (v.live = true ∧ FlushPre v) ∨ (v.live = false ∧ DeadOK v) := by
  simp only [PhaseV] at h
  split at h
  · rename_i hl; exact Or.inl ⟨hl, h⟩
  · rename_i hl; exact Or.inr ⟨by simpa using hl, h⟩

theorem PhaseV_none_pfx {v : View} (h : PhaseV v none) : DeadOK v := by
  rcases PhaseV_none_cases h with ⟨_, hf⟩ | ⟨_, hp⟩
  · exact hf.pfx
  · exact hp

theorem LocalFlushPre.flushPre {v : View} {which : Nat} (h : LocalFlushPre v which) (hw : which ≠ 0) : FlushPre v := by
  obtain ⟨h1, h2, h3, h4⟩ := h
  rcases h4 with ⟨h0, _⟩ | ⟨_, ha, hl⟩
  · exact (hw h0).elim
  · exact ⟨[], hl, .quiet h3, ha⟩

/-- Whatever is suspended, the current wire is whole packets and the beginning of one more. -/
theorem PhaseV_pfx {v : View} {fut : Option Pc} (h : PhaseV v fut) : DeadOK v := by
  cases fut with
  | none => exact PhaseV_none_pfx h
  | some pc =>
    cases pc with
    | stepWrite ctx pkt bytes written len now => obtain ⟨step, hp, _⟩ := h; exact hp.pfx
    | stepFlush ctx pkt now => obtain ⟨step, hp, _⟩ := h; exact hp.pfx
    | connWrite bytes => exact LocalPre.pfx h
    | connFlush => exact LocalFlushPre.pfx h
    | connRead => exact LocalFlushPre.pfx h
    | q0Write bytes => exact LocalPre.pfx h
    | q0Flush => exact LocalFlushPre.pfx h
    | discWrite bytes => exact LocalPre.pfx h
    | discFlush => exact h.2.2.1
    | waitRead outer deadline yielded => exact h.1.1.pfx

/-- Dropping a future that is not inside an operation-local write leaves the invariant intact: the
queue entry it was working on records exactly how much of its packet is on the wire. -/
theorem cancel_phase {v : View} {fut : Option Pc} (h : PhaseV v fut) (hnt : tearsPacket fut = false) : PhaseV v none := by
  cases fut with
  | none => exact h
  | some pc =>
    cases pc with
    | stepWrite ctx pkt bytes written len now => obtain ⟨step, hp, _⟩ := h; exact PhaseV.live hp.flushPre
    | stepFlush ctx pkt now => obtain ⟨step, hp, _⟩ := h; exact PhaseV.live hp.flushPre
    | connWrite bytes => simp [tearsPacket] at hnt
    | connFlush => exact PhaseV.dead (LocalFlushPre.dead h) (LocalFlushPre.pfx h)
    | connRead => exact PhaseV.dead (LocalFlushPre.dead h) (LocalFlushPre.pfx h)
    | q0Write bytes => simp [tearsPacket] at hnt
    | q0Flush => exact PhaseV.live (LocalFlushPre.flushPre h (by decide))
    | discWrite bytes => simp [tearsPacket] at hnt
    | discFlush => exact PhaseV.dead h.2.1 h.2.2.1
    | waitRead outer deadline yielded => exact PhaseV.live (h.1.1.flushPre h.2.1)

theorem PhaseV_net {v : View} {pc : Pc} (h : PhaseV v (some pc)) : v.net = true := by
  cases pc with
  | stepWrite ctx pkt bytes written len now => obtain ⟨step, hp, _⟩ := h; exact hp.1.net
  | stepFlush ctx pkt now => obtain ⟨step, hp, _⟩ := h; exact hp.1.net
  | connWrite bytes => exact h.1
  | connFlush => exact h.1
  | connRead => exact h.1
  | q0Write bytes => exact h.1
  | q0Flush => exact h.1
  | discWrite bytes => exact h.1
  | discFlush => exact h.1
  | waitRead outer deadline yielded => exact h.1.1.1.net

theorem cancel_cases (w : World) (h : PhaseV w.view w.fut) :
    (w.nets ≠ [] ∧ CurTorn w.cancelFut) ∨ PhaseV w.cancelFut.view w.cancelFut.fut := by
  by_cases ht : tearsPacket w.fut = true
  · left
    have hsome : w.fut.isSome = true := by
      cases hf : w.fut with
      | none => rw [hf] at ht; simp [tearsPacket] at ht
      | some pc => rfl
    have hnet : w.nets ≠ [] := by
      cases hf : w.fut with
      | none => rw [hf] at hsome; simp at hsome
      | some pc => rw [hf] at h; exact nets_ne_of_view (PhaseV_net h)
    refine ⟨hnet, ?_⟩
    unfold CurTorn
    rw [cancelFut_nets]
    unfold World.cancelFut
    rw [if_pos hsome]
    show w.nets.length ∈ w.tornAfterDrop
    unfold World.tornAfterDrop
    rw [if_pos ht]
    exact List.mem_cons_self
  · right
    rw [cancelFut_view, cancelFut_fut]
    exact cancel_phase h (by simpa using ht)

/-! ### Operations started by a directive -/

/-- The body of an operation is built from the machine functions: it preserves every stable predicate. -/
def Stab (body : World → World) : Prop := ∀ (Q : World → Prop), WStable Q → ∀ w', Q w' → Q (body w')

theorem wstable_torn (t L : Nat) : WStable (fun x => x.nets ≠ [] ∧ x.nets.length = L ∧ t ∈ x.tornNets) where
  emit := fun _ _ h => h
  sess := fun _ _ h => h
  fut := fun _ _ h => h
  conn := fun _ _ h => h
  slot := fun _ _ h => h
  starved := fun _ _ h => h
  wakes := fun _ _ h => h
  lastRes := fun _ _ h => h
  handles := fun _ _ h => h
  setCurNet := fun w n h => by
    obtain ⟨h1, h2, h3⟩ := h
    obtain ⟨s1, _, _, _⟩ := setCurNet_spec w n h1
    exact ⟨nets_ne_of_length h1 s1, s1.trans h2, h3⟩
  log := fun _ _ _ h => h

theorem CurTorn_of_stab {body : World → World} (hst : Stab body) (w : World) (hn : w.nets ≠ []) (h : CurTorn w) :
    CurTorn (body w) := by
  have := hst _ (wstable_torn w.nets.length w.nets.length) w ⟨hn, rfl, h⟩
  unfold CurTorn
  rw [this.2.1]; exact this.2.2

theorem startOp_post (w : World) (name : String) (body : World → World) (hst : Stab body)
    (hbody : ∀ w', PhaseV w'.view none → Post (body w')) (h : PhaseV w.view w.fut) :
    CurTorn (w.startOp name body) ∨ Post (w.startOp name body) := by
  unfold World.startOp
  split
  · right; exact h
  · rcases cancel_cases w h with ⟨hn, ht⟩ | hp
    · left
      exact CurTorn_of_stab hst { w.cancelFut with wakes := 0, lastIoStarved := false }
        (by show w.cancelFut.nets ≠ []; rw [cancelFut_nets]; exact hn) ht
    · right
      apply hbody
      rw [cancelFut_fut] at hp
      exact hp

theorem stab_finishErr (n : String) (e : Err) : Stab (fun w => w.finishErr n e) := fun _ hq _ h => hq.finishErr _ _ _ h

theorem stab_publish (r : PubReq) :
    Stab (fun w => if !w.live then w.finishErr "publish" .disconnected else flushLoop pollFuel w (.publishPre r)) := by
  intro Q hq w' h
  simp only []
  split
  · exact hq.finishErr _ _ _ h
  · exact (wmachine hq pollFuel).1 _ _ h

theorem stab_subscribe (r : SubReq) :
    Stab (fun w => if !w.live then w.finishErr "subscribe" .disconnected
      else if r.topics.isEmpty then w.finishErr "subscribe" .invalidRequest
      else if !(Properties.slice r.props).validFor .Subscribe then w.finishErr "subscribe" .invalidRequest
      else flushLoop pollFuel w (.subPre r)) := by
  intro Q hq w' h
  simp only []
  repeat' split
  all_goals first
    | exact hq.finishErr _ _ _ h
    | exact (wmachine hq pollFuel).1 _ _ h

theorem stab_unsubscribe (r : UnsubReq) :
    Stab (fun w => if !w.live then w.finishErr "unsubscribe" .disconnected
      else if r.topics.isEmpty then w.finishErr "unsubscribe" .invalidRequest
      else if !(Properties.slice r.props).validFor .Unsubscribe then w.finishErr "unsubscribe" .invalidRequest
      else flushLoop pollFuel w (.unsubPre r)) := by
  intro Q hq w' h
  simp only []
  repeat' split
  all_goals first
    | exact hq.finishErr _ _ _ h
    | exact (wmachine hq pollFuel).1 _ _ h

theorem stab_disconnect (d : Disconnect) :
    Stab (fun w => if !w.live then w.finish "ret disconnect ok"
      else
        let bad := match d.props with
          | some ps => !(Properties.slice ps).validFor .Disconnect
          | none => false
        if bad then w.finishErr "disconnect" .invalidRequest
        else flushLoop pollFuel w (.discPre d)) := by
  intro Q hq w' h
  simp only []
  repeat' split
  all_goals first
    | exact hq.finishErr _ _ _ h
    | exact hq.finish _ _ h
    | exact (wmachine hq pollFuel).1 _ _ h

theorem stab_drive (o : Outer) : Stab (fun w => driveEnter pollFuel w o) := by
  intro Q hq w' h
  exact (wmachine hq pollFuel).2.2.2.2.2.2.2.2.2.2.2.1 _ _ h

/-- The operations' first run: from the idle invariant to the invariant. -/
theorem flushOp_post (w : World) (k : AfterFlush) (h : PhaseV w.view none) (hl : w.live = true) :
    Post (flushLoop pollFuel w k) := by
  rcases PhaseV_none_cases h with ⟨_, hf⟩ | ⟨hd, _⟩
  · exact (machineW pollFuel).1 _ _ (by have := φFL_le w k; have := pollFuel_val; omega) hf
  · rw [view_live, hl] at hd; cases hd

theorem deadOp_finishErr (w : World) (n : String) (e : Err) (h : PhaseV w.view none) : Post (w.finishErr n e) := h

theorem deadOp_finish (w : World) (l : String) (h : PhaseV w.view none) : Post (w.finish l) := h

theorem driveOp_post (w : World) (o : Outer) (h : PhaseV w.view none) : Post (driveEnter pollFuel w o) := by
  rcases PhaseV_none_cases h with ⟨_, hf⟩ | ⟨hd, hp⟩
  · exact (machineW pollFuel).2.2.2.2.2.2.2.2.2.2.2.1 _ _ (by have := φDE_le w; have := pollFuel_val; omega) hf.drive
  · rw [driveEnter_dead w o (by rw [← view_live]; exact hd)]
    exact h

/-! ### Every directive except `connect` -/

theorem view_rx (w : World) (bytes : Bytes) (hn : w.nets ≠ []) :
    (w.setCurNet { w.curNet with rx := w.curNet.rx ++ bytes }).view = w.view := by
  obtain ⟨s1, s2, _, _⟩ := setCurNet_spec w { w.curNet with rx := w.curNet.rx ++ bytes } hn
  have hlog : (w.setCurNet { w.curNet with rx := w.curNet.rx ++ bytes }).log = w.log := rfl
  simp only [World.view, World.curLog, s1, s2, hlog, isEmpty_of_length s1]
  rfl

theorem FlushPre.setPid {v : View} (h : FlushPre v) (n : Nat) (h1 : 1 ≤ n) (h2 : n ≤ 65535) :
    FlushPre { v with sess := v.sess.setPid n } := by
  obtain ⟨part, hl, ho, ha⟩ := h
  exact ⟨part, hl.sess (SessOK.same hl (closed_SP.setPid _ _ h1 h2 hl.sp) rfl rfl (Prim.setPid _ _ h1 h2) rfl rfl), ho, ha⟩

theorem dropConn_eq (w : World) :
    w.dropConn = if w.cancelFut.conn.isSome then { (w.cancelFut.emit "drop") with conn := none } else w.cancelFut := rfl

/-- One directive other than `connect`: the invariant is kept, or the future dropped was inside an
operation-local write (ghost mark), or the fuel ran out. -/
theorem exec_phase (w : World) (d : Directive) (hd : d ≠ .connect) (h : PhaseV w.view w.fut) :
    CurTorn (w.execDirective d) ∨ Post (w.execDirective d) := by
  cases d with
  | bad => right; exact h
  | connect => exact (hd rfl).elim
  | publish r =>
    simp only [World.execDirective]
    apply startOp_post w _ _ (stab_publish r) _ h
    intro w' hw'
    split
    · exact deadOp_finishErr _ _ _ hw'
    · rename_i hl; exact flushOp_post _ _ hw' (by simpa using hl)
  | subscribe r =>
    simp only [World.execDirective]
    apply startOp_post w _ _ (stab_subscribe r) _ h
    intro w' hw'
    split
    · exact deadOp_finishErr _ _ _ hw'
    · rename_i hl
      split
      · exact deadOp_finishErr _ _ _ hw'
      · split
        · exact deadOp_finishErr _ _ _ hw'
        · exact flushOp_post _ _ hw' (by simpa using hl)
  | unsubscribe r =>
    simp only [World.execDirective]
    apply startOp_post w _ _ (stab_unsubscribe r) _ h
    intro w' hw'
    split
    · exact deadOp_finishErr _ _ _ hw'
    · rename_i hl
      split
      · exact deadOp_finishErr _ _ _ hw'
      · split
        · exact deadOp_finishErr _ _ _ hw'
        · exact flushOp_post _ _ hw' (by simpa using hl)
  | disconnect dd =>
    simp only [World.execDirective]
    apply startOp_post w _ _ (stab_disconnect dd) _ h
    intro w' hw'
    split
    · exact deadOp_finish _ _ hw'
    · rename_i hl
      simp only []
      repeat' split
      all_goals first
        | exact deadOp_finishErr _ _ _ hw'
        | exact flushOp_post _ _ hw' (by simpa using hl)
  | poll =>
    simp only [World.execDirective]
    exact startOp_post w _ _ (stab_drive .poll) (fun w' hw' => driveOp_post _ _ hw') h
  | recv =>
    simp only [World.execDirective]
    exact startOp_post w _ _ (stab_drive .recv) (fun w' hw' => driveOp_post _ _ hw') h
  | drive =>
    simp only [World.execDirective]
    exact startOp_post w _ _ (stab_drive .drive) (fun w' hw' => driveOp_post _ _ hw') h
  | d n =>
    right
    simp only [World.execDirective]
    split
    · exact h
    · have := poll_post { w with slot := some n } h
      exact this
  | go =>
    right
    simp only [World.execDirective]
    split
    · exact h
    · exact Post_goLoop _ _ h
  | tick us =>
    right
    simp only [World.execDirective]
    split
    · exact h
    · split
      · exact poll_post { w with now := w.now + us } h
      · exact h
  | rx bytes =>
    right
    simp only [World.execDirective]
    split
    · exact h
    · rename_i hne
      have hn : w.nets ≠ [] := by simpa using hne
      show PhaseV (w.setCurNet { w.curNet with rx := w.curNet.rx ++ bytes }).view w.fut
      rw [view_rx w bytes hn]; exact h
  | cancel =>
    simp only [World.execDirective]
    rcases cancel_cases w h with ⟨_, ht⟩ | hp
    · exact Or.inl ht
    · exact Or.inr hp
  | drop =>
    simp only [World.execDirective]
    rw [dropConn_eq]
    rcases cancel_cases w h with ⟨_, ht⟩ | hp
    · left
      split
      · exact ht
      · exact ht
    · right
      rw [cancelFut_fut] at hp
      split
      · show PhaseV { w.cancelFut.view with conn := none } w.cancelFut.fut
        rw [cancelFut_fut]
        have hpf : DeadOK w.cancelFut.view := PhaseV_none_pfx hp
        exact PhaseV.dead rfl hpf
      · unfold Post; rw [cancelFut_fut]; exact hp
  | setpid n =>
    right
    simp only [World.execDirective]
    split
    · exact h
    · rename_i hg
      have hg' : w.fut = none ∧ 1 ≤ n ∧ n ≤ 65535 := by
        refine ⟨?_, ?_⟩
        · cases hf : w.fut with
          | none => rfl
          | some pc => simp [hf] at hg
        · simp at hg; omega
      show PhaseV { w.view with sess := w.sess.setPid n } w.fut
      rw [hg'.1] at h ⊢
      rcases PhaseV_none_cases h with ⟨_, hf⟩ | ⟨hdead, hp⟩
      · exact PhaseV.live (hf.setPid n hg'.2.1 hg'.2.2)
      · exact PhaseV.dead hdead hp
  | decode bs => right; exact h


/-! ### `connect` -/

theorem cancel_torn (w : World) :
    (∀ i ∈ w.tornNets, i ∈ w.cancelFut.tornNets) ∧ (∀ i ∈ w.cancelFut.tornNets, i ∈ w.tornNets ∨ i = w.nets.length) := by
  unfold World.cancelFut
  split
  · constructor
    · intro i hi
      show i ∈ w.tornAfterDrop
      unfold World.tornAfterDrop
      split
      · exact List.mem_cons_of_mem _ hi
      · exact hi
    · intro i hi
      have hi' : i ∈ w.tornAfterDrop := hi
      unfold World.tornAfterDrop at hi'
      split at hi'
      · rcases List.mem_cons.mp hi' with rfl | hm
        · exact Or.inr rfl
        · exact Or.inl hm
      · exact Or.inl hi'
  · exact ⟨fun _ hi => hi, fun _ hi => Or.inl hi⟩

theorem dropConn_tornNets (w : World) : w.dropConn.tornNets = w.cancelFut.tornNets := by
  rw [dropConn_eq]; split <;> rfl

/-- `connect` up to its first return: the new transport satisfies the invariant whatever came before. -/
theorem connectStart_log (w : World) : w.connectStart.log = w.log := by
  unfold World.connectStart World.dropConn World.cancelFut
  simp only []
  split <;> split <;> rfl

theorem startConnect_post (w : World) (hsp : SP w.sess) (hlb : ∀ f ∈ w.log, f.net ≤ w.nets.length) : Post w.startConnect := by
  rw [startConnect_eq]
  obtain ⟨c1, c2, c3, _, c5, c6, _⟩ := connectStart_spec w
  have hsp1 : SP w.connectStart.sess := by rw [c1]; exact closed_SP.beginConnect _ hsp
  have hq1 : w.connectStart.sess.data.outbound.Quiet := by rw [c1]; exact Quiet_beginConnect _
  have hE : EncOk (connEnc w.connectStart.sess.connectPacket) := EncOk_encodeConnect _
  have hsp2 : SP (w.connectStart.sess.encode (connEnc w.connectStart.sess.connectPacket)).1 :=
    closed_SP.encodeConnect _ _ hsp1
  have hq2 := Quiet_encode w.connectStart.sess (connEnc w.connectStart.sess.connectPacket) hq1
  have hfresh2 : (w.connectStart.sess.encode (connEnc w.connectStart.sess.connectPacket)).1.data.outbound.AllFresh :=
    (handshake_keeps_allFresh _ (by rw [c1]; exact beginConnect_allFresh _)).1 _
  have hcl : w.connectStart.curLog = [] := by
    unfold World.curLog
    rw [connectStart_log, c2, List.filter_eq_nil_iff]
    intro f hf
    have := hlb f hf
    simp only [List.length_append, List.length_cons, List.length_nil, beq_iff_eq]
    omega
  have hv : ∀ S : Session, ({ w.connectStart with sess := S } : World).view =
      { sess := S, conn := none, net := true, wire := [], ord := w.nets.length + 1, log := [] } := by
    intro S
    show View.mk S w.connectStart.conn (!w.connectStart.nets.isEmpty) w.connectStart.curNet.wire w.connectStart.nets.length
      w.connectStart.curLog = _
    rw [c6, c3, c2, hcl]; simp
  simp only []
  split
  · exact Post.dead_finishErr _ _ (by rw [hv]; rfl) (by rw [hv]; exact ⟨Pfx.nil, LogSorted.nil⟩)
  · rename_i off len hres
    refine (machineW pollFuel).2.2.2.2.2.2.1 _ _ _ (φLW_poll _) ?_
    rw [hv]
    have hfr := encode_packet_framed w.connectStart.sess _ hsp1.arena hE hres
    have hcc := encode_packet_typ w.connectStart.sess _ hsp1.arena hE
      (EncTyp_encodeWithOffset _ MT_Connect FLAGS_Connect (by decide)) hres
    exact ⟨rfl, hsp2, hq2, Or.inl ⟨rfl, ⟨rfl, rfl, hfresh2⟩, by simpa using hfr, by rw [List.nil_append]; exact hcc⟩⟩

theorem wstable_tornEq (T : List Nat) : WStable (fun x => x.tornNets = T) where
  emit := fun _ _ h => h
  sess := fun _ _ h => h
  fut := fun _ _ h => h
  conn := fun _ _ h => h
  slot := fun _ _ h => h
  starved := fun _ _ h => h
  wakes := fun _ _ h => h
  lastRes := fun _ _ h => h
  handles := fun _ _ h => h
  setCurNet := fun _ _ h => h
  log := fun _ _ _ h => h

theorem startConnect_frame (w : World) :
    w.startConnect.nets.length = w.nets.length + 1 ∧ w.startConnect.nets.dropLast = w.nets ∧
    (∀ i ∈ w.tornNets, i ∈ w.startConnect.tornNets) ∧
    (∀ i ∈ w.startConnect.tornNets, i ∈ w.tornNets ∨ i = w.nets.length) ∧
    w.startConnect.tornNets = w.cancelFut.tornNets := by
  obtain ⟨_, c2, _⟩ := connectStart_spec w
  have hct : w.connectStart.tornNets = w.cancelFut.tornNets := by
    show w.dropConn.tornNets = _
    exact dropConn_tornNets w
  obtain ⟨t1, t2⟩ := cancel_torn w
  have key : ∀ (S : Session) (w' : World), Frame ({ w.connectStart with sess := S } : World) w' →
      w'.tornNets = w.cancelFut.tornNets →
      w'.nets.length = w.nets.length + 1 ∧ w'.nets.dropLast = w.nets ∧
      (∀ i ∈ w.tornNets, i ∈ w'.tornNets) ∧ (∀ i ∈ w'.tornNets, i ∈ w.tornNets ∨ i = w.nets.length) ∧
      w'.tornNets = w.cancelFut.tornNets := by
    intro S w' hf ht
    obtain ⟨_, f2, f3, _, _⟩ := hf
    have e1 : ({ w.connectStart with sess := S } : World).nets = w.nets ++ [({ } : Net)] := c2
    rw [e1] at f2 f3
    rw [ht]
    exact ⟨by rw [f2]; simp, by rw [f3]; simp, t1, t2, rfl⟩
  have hne : ∀ S : Session, ({ w.connectStart with sess := S } : World).nets ≠ [] := by
    intro S
    show w.connectStart.nets ≠ []
    rw [c2]; simp
  rw [startConnect_eq]
  simp only []
  split
  · exact key _ _ ((wstable_frame _).finishErr _ _ _ (Frame.refl (hne _)))
      ((wstable_tornEq _).finishErr _ _ _ hct)
  · exact key _ _ ((wmachine (wstable_frame _) pollFuel).2.2.2.2.2.2.1 _ _ _ (Frame.refl (hne _)))
      ((wmachine (wstable_tornEq _) pollFuel).2.2.2.2.2.2.1 _ _ _ hct)


/-! ### The log only names transports that exist -/

/-- Every log entry names a transport that has been opened. -/
def LogB (w : World) : Prop := w.nets ≠ [] ∧ ∀ f ∈ w.log, f.net ≤ w.nets.length

theorem wstable_logB : WStable LogB where
  emit := fun _ _ h => h
  sess := fun _ _ h => h
  fut := fun _ _ h => h
  conn := fun _ _ h => h
  slot := fun _ _ h => h
  starved := fun _ _ h => h
  wakes := fun _ _ h => h
  lastRes := fun _ _ h => h
  handles := fun _ _ h => h
  setCurNet := fun w n h => by
    obtain ⟨h1, h2⟩ := h
    obtain ⟨s1, _, _, _⟩ := setCurNet_spec w n h1
    refine ⟨nets_ne_of_length h1 s1, ?_⟩
    intro f hf
    have : f ∈ w.log := hf
    rw [s1]; exact h2 f this
  log := fun w f hf h => by
    refine ⟨h.1, ?_⟩
    intro g hg
    rcases List.mem_append.mp hg with hm | hm
    · exact h.2 g hm
    · simp only [List.mem_singleton] at hm; subst hm
      exact Nat.le_of_eq hf

/-- Log entries are added only for the current transport (ordinal `L`): the parts of the log that
belong to other transports stay what they were in `l0`. -/
def LogOld (L : Nat) (l0 : List LogEntry) (x : World) : Prop :=
  x.nets ≠ [] ∧ x.nets.length = L ∧ ∀ k, k ≠ L → x.log.filter (fun f => f.net == k) = l0.filter (fun f => f.net == k)

theorem wstable_logOld (L : Nat) (l0 : List LogEntry) : WStable (LogOld L l0) where
  emit := fun _ _ h => h
  sess := fun _ _ h => h
  fut := fun _ _ h => h
  conn := fun _ _ h => h
  slot := fun _ _ h => h
  starved := fun _ _ h => h
  wakes := fun _ _ h => h
  lastRes := fun _ _ h => h
  handles := fun _ _ h => h
  setCurNet := fun w n h => by
    obtain ⟨h1, h2, h3⟩ := h
    obtain ⟨s1, _, _, _⟩ := setCurNet_spec w n h1
    exact ⟨nets_ne_of_length h1 s1, s1.trans h2, h3⟩
  log := fun w f hf h => by
    obtain ⟨h1, h2, h3⟩ := h
    refine ⟨h1, h2, ?_⟩
    intro k hk
    have hne : (f.net == k) = false := by
      rw [hf, h2]; simp; omega
    show (w.log ++ [f]).filter _ = _
    rw [List.filter_append, h3 k hk]
    simp [List.filter_cons, hne]

theorem logOld_cancel (L : Nat) (l0 : List LogEntry) (w : World) (h : LogOld L l0 w) : LogOld L l0 w.cancelFut := by
  unfold World.cancelFut
  split
  · exact h
  · exact h

theorem logB_cancel (w : World) (h : LogB w) : LogB w.cancelFut := by
  unfold World.cancelFut
  split
  · exact h
  · exact h

/-! ### The invariant of whole executions -/

/-- Before the first `connect` nothing can run. -/
theorem exec_netless (w : World) (d : Directive) (hd : d ≠ .connect) (hn : w.nets = []) (hc : w.conn = none) (hf : w.fut = none) :
    (w.execDirective d).nets = [] ∧ (w.execDirective d).conn = none ∧ (w.execDirective d).fut = none ∧
    (w.execDirective d).tornNets = w.tornNets ∧ (w.execDirective d).log = w.log := by
  cases d with
  | connect => exact (hd rfl).elim
  | tick us =>
    simp only [World.execDirective]
    split
    · exact ⟨hn, hc, hf, rfl, rfl⟩
    · rw [if_neg (by simp [hf])]
      exact ⟨hn, hc, hf, rfl, rfl⟩
  | setpid n =>
    simp only [World.execDirective]
    split <;> exact ⟨hn, hc, hf, rfl, rfl⟩
  | _ =>
    simp [World.execDirective, World.startOp, World.cancelFut, World.dropConn, World.emit, hc, hf, hn]

/-- The invariant of whole executions. `old`: every transport that is no longer current, and was never
marked torn, carries whole packets and possibly the beginning of one more; `cur`: the current
transport is marked torn or satisfies the per-await-point invariant. -/
structure WInv (w : World) : Prop where
  sp : SP w.sess
  netless : w.nets = [] → w.conn = none ∧ w.fut = none ∧ w.log = []
  tornBound : ∀ i ∈ w.tornNets, i ≤ w.nets.length
  old : ∀ i net, i + 1 < w.nets.length → w.nets[i]? = some net → (i + 1) ∉ w.tornNets → Pfx net.wire
  cur : CurTorn w ∨ PhaseV w.view w.fut
  logBound : ∀ f ∈ w.log, f.net ≤ w.nets.length
  /-- On every earlier transport that is not marked torn, no retained packet and no PUBREL went out
  twice, and they went out in serial order. -/
  oldLog : ∀ k, 1 ≤ k → k < w.nets.length → k ∉ w.tornNets → LogSorted (w.log.filter (fun f => f.net == k))

theorem WInv_init (cfg : Cfg) : WInv { sess := Session.new cfg } where
  sp := SP_new cfg
  netless := fun _ => ⟨rfl, rfl, rfl⟩
  tornBound := by intro i hi; simp at hi
  old := by intro i net hi; simp at hi
  cur := Or.inr (PhaseV.dead rfl ⟨Pfx.nil, LogSorted.nil⟩)
  logBound := by intro f hf; simp at hf
  oldLog := by intro k _ hk; simp at hk

theorem getElem?_of_dropLast_eq {l l' : List Net} (hl : l'.length = l.length) (hd : l'.dropLast = l.dropLast) (i : Nat)
    (hi : i + 1 < l.length) : l'[i]? = l[i]? := by
  have h1 := List.getElem?_dropLast (xs := l') (i := i)
  have h2 := List.getElem?_dropLast (xs := l) (i := i)
  rw [if_pos (by omega)] at h1 h2
  rw [← h1, ← h2, hd]

theorem curNet_of_last (w : World) (i : Nat) (net : Net) (hi : i + 1 = w.nets.length) (hg : w.nets[i]? = some net) :
    w.curNet = net := by
  unfold World.curNet
  rw [List.getLast?_eq_getElem?]
  have : w.nets.length - 1 = i := by omega
  rw [this, hg]; rfl

/-- One directive keeps the invariant. -/
theorem exec_WInv (w : World) (d : Directive) (h : WInv w) : WInv (w.execDirective d) := by
  have hsp' : SP (w.execDirective d).sess := execDirective_inv closed_SP w d h.sp
  by_cases hd : d = .connect
  · subst hd
    obtain ⟨f1, f2, f3, f4, _⟩ := startConnect_frame w
    have hphase := startConnect_post w h.sp h.logBound
    have hlb : ∀ f ∈ (w.execDirective .connect).log, f.net ≤ (w.execDirective .connect).nets.length := by
      have hgoal : LogB w.startConnect := by
        rw [startConnect_eq]
        obtain ⟨_, c2, _⟩ := connectStart_spec w
        have hb : ∀ S : Session, LogB ({ w.connectStart with sess := S } : World) := by
          intro S
          refine ⟨by show w.connectStart.nets ≠ []; rw [c2]; simp, ?_⟩
          intro f hf
          have hf' : f ∈ w.log := by rw [← connectStart_log w]; exact hf
          have := h.logBound f hf'
          show f.net ≤ w.connectStart.nets.length
          rw [c2]; simp; omega
        simp only []
        split
        · exact wstable_logB.finishErr _ _ _ (hb _)
        · exact (wmachine wstable_logB pollFuel).2.2.2.2.2.2.1 _ _ _ (hb _)
      exact hgoal.2
    have hold : ∀ k, k ≠ w.nets.length + 1 →
        (w.execDirective .connect).log.filter (fun f => f.net == k) = w.log.filter (fun f => f.net == k) := by
      have hgoal : LogOld (w.nets.length + 1) w.log w.startConnect := by
        rw [startConnect_eq]
        obtain ⟨_, c2, _⟩ := connectStart_spec w
        have hb : ∀ S : Session, LogOld (w.nets.length + 1) w.log ({ w.connectStart with sess := S } : World) := by
          intro S
          refine ⟨by show w.connectStart.nets ≠ []; rw [c2]; simp, by show w.connectStart.nets.length = _; rw [c2]; simp, ?_⟩
          intro k _
          show w.connectStart.log.filter _ = _
          rw [connectStart_log]
        simp only []
        split
        · exact (wstable_logOld _ _).finishErr _ _ _ (hb _)
        · exact (wmachine (wstable_logOld _ _) pollFuel).2.2.2.2.2.2.1 _ _ _ (hb _)
      exact hgoal.2.2
    have holdLog : ∀ k, 1 ≤ k → k < (w.execDirective .connect).nets.length → k ∉ (w.execDirective .connect).tornNets →
        LogSorted ((w.execDirective .connect).log.filter (fun f => f.net == k)) := by
      intro k hk1 hk hnt
      have hlen : (w.execDirective .connect).nets.length = w.nets.length + 1 := f1
      rw [hlen] at hk
      rw [hold k (by omega)]
      by_cases hlt : k < w.nets.length
      · exact h.oldLog k hk1 hlt (fun hm => hnt (f3 _ hm))
      · have heq : k = w.nets.length := by omega
        subst heq
        rcases h.cur with ht | hp
        · exact (hnt (f3 _ ht)).elim
        · exact (PhaseV_pfx hp).2
    · refine ⟨hsp', ?_, ?_, ?_, Or.inr hphase, hlb, holdLog⟩
      · intro h0
        have : (w.execDirective .connect).nets.length = w.nets.length + 1 := f1
        rw [h0] at this; simp at this
      · intro i hi
        have hlen : (w.execDirective .connect).nets.length = w.nets.length + 1 := f1
        rw [hlen]
        rcases f4 i hi with hm | rfl
        · have := h.tornBound i hm; omega
        · omega
      · intro i net hi hg hnt
        have hlen : (w.execDirective .connect).nets.length = w.nets.length + 1 := f1
        rw [hlen] at hi
        have hg' : w.nets[i]? = some net := by
          have h1 := List.getElem?_dropLast (xs := (w.execDirective .connect).nets) (i := i)
          rw [if_pos (by omega)] at h1
          have hdl : (w.execDirective .connect).nets.dropLast = w.nets := f2
          rw [hdl] at h1
          rw [h1]; exact hg
        by_cases hlt : i + 1 < w.nets.length
        · exact h.old i net hlt hg' (fun hm => hnt (f3 _ hm))
        · have heq : i + 1 = w.nets.length := by omega
          have hcur := curNet_of_last w i net heq hg'
          rcases h.cur with ht | hp
          · exact (hnt (f3 _ (by rw [heq]; exact ht))).elim
          · have := (PhaseV_pfx hp).1
            rw [← hcur]; exact this
  · by_cases hn : w.nets = []
    · obtain ⟨hc, hf, hlog0⟩ := h.netless hn
      obtain ⟨e1, e2, e3, e4, e5⟩ := exec_netless w d hd hn hc hf
      refine ⟨hsp', fun _ => ⟨e2, e3, e5.trans hlog0⟩, ?_, ?_, Or.inr ?_, by rw [e5, e1, ← hn]; exact h.logBound,
        by intro k _ hk; rw [e1] at hk; simp at hk⟩
      · intro i hi
        rw [e4] at hi
        have := h.tornBound i hi
        rw [hn] at this
        rw [e1]; exact this
      · intro i net hi
        rw [e1] at hi; simp at hi
      · rw [e3]
        refine PhaseV.dead ?_ ?_
        · show View.live (World.view _) = false
          simp only [World.view, View.live, e2]
        · refine ⟨?_, ?_⟩
          · show Pfx (World.curNet _).wire
            simp only [World.curNet, e1]
            exact Pfx.nil
          · show LogSorted (World.curLog _)
            simp only [World.curLog, e5, hlog0, List.filter_nil]
            exact LogSorted.nil
    · have hfr : Frame w (w.execDirective d) :=
        wexec_noconnect (wstable_frame w) w (frame_cancel w w) (fun _ _ h => h) d (fun he => hd he) (Frame.refl hn)
      obtain ⟨g1, g2, g3, g4, g5⟩ := hfr
      have hlb : LogB (w.execDirective d) :=
        wexec_noconnect wstable_logB w (logB_cancel w) (fun _ _ h => h) d (fun he => hd he) ⟨hn, h.logBound⟩
      have hlo : LogOld w.nets.length w.log (w.execDirective d) :=
        wexec_noconnect (wstable_logOld _ _) w (logOld_cancel _ _ w) (fun _ _ h => h) d (fun he => hd he) ⟨hn, rfl, fun _ _ => rfl⟩
      have hrest : ∀ (hcur : CurTorn (w.execDirective d) ∨ PhaseV (w.execDirective d).view (w.execDirective d).fut),
          WInv (w.execDirective d) := by
        intro hcur
        refine ⟨hsp', fun h0 => (g1 h0).elim, ?_, ?_, hcur, hlb.2, ?_⟩
        · intro i hi
          rw [g2]
          rcases g5 i hi with hm | rfl
          · exact h.tornBound i hm
          · exact Nat.le_refl _
        · intro i net hi hg hnt
          rw [g2] at hi
          rw [getElem?_of_dropLast_eq g2 g3 i hi] at hg
          exact h.old i net hi hg (fun hm => hnt (g4 _ hm))
        · intro k hk1 hk hnt
          rw [g2] at hk
          rw [hlo.2.2 k (by omega)]
          exact h.oldLog k hk1 hk (fun hm => hnt (g4 _ hm))
      rcases h.cur with ht | hp
      · apply hrest
        left
        unfold CurTorn
        rw [g2]; exact g4 _ ht
      · rcases exec_phase w d hd hp with ht | hphase
        · exact hrest (Or.inl ht)
        · exact hrest (Or.inr hphase)

/-- **Whole programs.** The invariant holds after any list of directives from a state satisfying it. -/
theorem run_WInv (ds : List Directive) (w : World) (h : WInv w) : WInv (ds.foldl World.execDirective w) := by
  induction ds generalizing w with
  | nil => exact h
  | cons d ds ih =>
    simp only [List.foldl]
    exact ih _ (exec_WInv w d h)

/-! ### Reading the invariant -/

theorem WireIs.unpack {lim : Option Nat} {wire part : Bytes} {logb : List Bytes} (h : WireIs lim wire logb part) :
    ∃ frames : List Bytes, wire = frames.flatten ++ part ∧ (∀ f ∈ frames, Framed f) ∧ (∀ f ∈ frames.head?, IsConnect f) ∧
      (∀ f ∈ frames.drop 1, Fits lim f.length) ∧ frames ≠ [] ∧ logb.Sublist (frames.drop 1) := by
  obtain ⟨c, fs, hc, hcc, hf, hl, hw⟩ := h
  refine ⟨c :: fs, by simp [hw], ?_, by simpa using hcc, fun f hm => (hf f (by simpa using hm)).2, by simp, by simpa using hl⟩
  intro f hm
  rcases List.mem_cons.mp hm with rfl | hm
  · exact hc
  · exact (hf f hm).1

/-- What the invariant says about the wire of the current transport while the connection is live or
the handshake is running: the CONNECT (once it is complete), whole packets within the Maximum Packet
Size of this connection, then `part`; the packets of the log of this transport are among the whole
packets, in order, and the log agrees with the retained queue; and `part` is accounted for either by
the state of the queues or by the operation-local write that is suspended. -/
theorem PhaseV_wire {v : View} {fut : Option Pc} (h : PhaseV v fut)
    (hact : v.live = true ∨ (v.conn = none ∧ fut.isSome = true)) :
    ∃ (frames : List Bytes) (part : Bytes), v.wire = frames.flatten ++ part ∧ (∀ f ∈ frames, Framed f) ∧
      (∀ f ∈ frames.head?, IsConnect f) ∧ (∀ f ∈ frames.drop 1, Fits v.lim f.length) ∧ (v.live = true → frames ≠ []) ∧
      (v.log.map (·.bytes)).Sublist (frames.drop 1) ∧ (v.live = true → v.o.Log v.ord v.log) ∧
      ((tearsPacket fut = false ∧ v.o.OState v.ok part) ∨
       (∃ rest, (fut = some (.connWrite rest) ∨ fut = some (.q0Write rest) ∨ fut = some (.discWrite rest)) ∧
          Framed (part ++ rest) ∧ v.o.Quiet ∧ (v.live = true → Fits v.lim (part ++ rest).length) ∧
          (fut = some (.connWrite rest) → IsConnect (part ++ rest) ∧ frames = []))) := by
  have ofFlush : ∀ {f : Option Pc}, tearsPacket f = false → FlushPre v →
      ∃ (frames : List Bytes) (part : Bytes), v.wire = frames.flatten ++ part ∧ (∀ f ∈ frames, Framed f) ∧
      (∀ f ∈ frames.head?, IsConnect f) ∧ (∀ f ∈ frames.drop 1, Fits v.lim f.length) ∧ (v.live = true → frames ≠ []) ∧
      (v.log.map (·.bytes)).Sublist (frames.drop 1) ∧ (v.live = true → v.o.Log v.ord v.log) ∧
      ((tearsPacket f = false ∧ v.o.OState v.ok part) ∨
       (∃ rest, (f = some (.connWrite rest) ∨ f = some (.q0Write rest) ∨ f = some (.discWrite rest)) ∧
          Framed (part ++ rest) ∧ v.o.Quiet ∧ (v.live = true → Fits v.lim (part ++ rest).length) ∧
          (f = some (.connWrite rest) → IsConnect (part ++ rest) ∧ frames = []))) := by
    intro f hf ⟨part, hl, ho, _⟩
    obtain ⟨frames, e1, e2, e3, e4, e5, e6⟩ := hl.wire.unpack
    exact ⟨frames, part, e1, e2, e3, e4, fun _ => e5, e6, fun _ => hl.log, Or.inl ⟨hf, ho⟩⟩
  have ofLocal : ∀ {f : Option Pc} {which : Nat} {bytes : Bytes}, which ≠ 0 → LocalPre v which bytes →
      (f = some (.q0Write bytes) ∨ f = some (.discWrite bytes)) →
      ∃ (frames : List Bytes) (part : Bytes), v.wire = frames.flatten ++ part ∧ (∀ f ∈ frames, Framed f) ∧
      (∀ f ∈ frames.head?, IsConnect f) ∧ (∀ f ∈ frames.drop 1, Fits v.lim f.length) ∧ (v.live = true → frames ≠ []) ∧
      (v.log.map (·.bytes)).Sublist (frames.drop 1) ∧ (v.live = true → v.o.Log v.ord v.log) ∧
      ((tearsPacket f = false ∧ v.o.OState v.ok part) ∨
       (∃ rest, (f = some (.connWrite rest) ∨ f = some (.q0Write rest) ∨ f = some (.discWrite rest)) ∧
          Framed (part ++ rest) ∧ v.o.Quiet ∧ (v.live = true → Fits v.lim (part ++ rest).length) ∧
          (f = some (.connWrite rest) → IsConnect (part ++ rest) ∧ frames = []))) := by
    intro f which bytes hw ⟨_, _, hq, h4⟩ hf
    rcases h4 with ⟨h0, _⟩ | ⟨_, _, pre, hl, hfr, hfit⟩
    · exact (hw h0).elim
    · obtain ⟨frames, e1, e2, e3, e4, e5, e6⟩ := hl.wire.unpack
      refine ⟨frames, pre, e1, e2, e3, e4, fun _ => e5, e6, fun _ => hl.log, Or.inr ⟨bytes, ?_, hfr, hq, fun _ => hfit, ?_⟩⟩
      · rcases hf with hf | hf
        · exact Or.inr (Or.inl hf)
        · exact Or.inr (Or.inr hf)
      · intro hc
        rcases hf with hf | hf <;> (rw [hf] at hc; cases hc)
  have ofHand : LocalFlushPre v 0 → ∀ {f : Option Pc}, tearsPacket f = false →
      ∃ (frames : List Bytes) (part : Bytes), v.wire = frames.flatten ++ part ∧ (∀ f ∈ frames, Framed f) ∧
      (∀ f ∈ frames.head?, IsConnect f) ∧ (∀ f ∈ frames.drop 1, Fits v.lim f.length) ∧ (v.live = true → frames ≠ []) ∧
      (v.log.map (·.bytes)).Sublist (frames.drop 1) ∧ (v.live = true → v.o.Log v.ord v.log) ∧
      ((tearsPacket f = false ∧ v.o.OState v.ok part) ∨
       (∃ rest, (f = some (.connWrite rest) ∨ f = some (.q0Write rest) ∨ f = some (.discWrite rest)) ∧
          Framed (part ++ rest) ∧ v.o.Quiet ∧ (v.live = true → Fits v.lim (part ++ rest).length) ∧
          (f = some (.connWrite rest) → IsConnect (part ++ rest) ∧ frames = []))) := by
    intro hh f hf
    have hdead := hh.dead
    obtain ⟨_, _, hq, h4⟩ := hh
    rcases h4 with ⟨_, hc, hfr, hcc⟩ | ⟨h0, _⟩
    · have hnl : v.live = true → False := fun hl => by rw [hl] at hdead; cases hdead
      exact ⟨[v.wire], [], by simp, by simpa using hfr, by simpa using hcc, by simp, fun _ => by simp,
        by rw [hc.log]; simp, fun hl => (hnl hl).elim, Or.inl ⟨hf, .quiet hq⟩⟩
    · exact (h0 rfl).elim
  cases fut with
  | none =>
    rcases PhaseV_none_cases h with ⟨_, hf⟩ | ⟨hd, _⟩
    · exact ofFlush rfl hf
    · rcases hact with hl | ⟨_, hs⟩
      · rw [hl] at hd; cases hd
      · simp at hs
  | some pc =>
    cases pc with
    | stepWrite ctx pkt bytes written len now => obtain ⟨step, hp, _⟩ := h; exact ofFlush rfl hp.flushPre
    | stepFlush ctx pkt now => obtain ⟨step, hp, _⟩ := h; exact ofFlush rfl hp.flushPre
    | connWrite bytes =>
      have hdead := LocalPre.dead h
      obtain ⟨_, _, hq, h4⟩ := h
      rcases h4 with ⟨_, hc, hfr, hcc⟩ | ⟨h0, _⟩
      · have hnl : v.live = true → False := fun hl => by rw [hl] at hdead; cases hdead
        exact ⟨[], v.wire, by simp, by simp, by simp, by simp, fun hl => (hnl hl).elim, by rw [hc.log]; simp,
          fun hl => (hnl hl).elim,
          Or.inr ⟨bytes, Or.inl rfl, hfr, hq, fun hl => (hnl hl).elim, fun _ => ⟨hcc, rfl⟩⟩⟩
      · exact (h0 rfl).elim
    | connFlush => exact ofHand h rfl
    | connRead => exact ofHand h rfl
    | q0Write bytes => exact ofLocal (which := 1) (by decide) h (Or.inl rfl)
    | q0Flush => exact ofFlush rfl (LocalFlushPre.flushPre h (by decide))
    | discWrite bytes => exact ofLocal (which := 2) (by decide) h (Or.inr rfl)
    | discFlush =>
      -- the handle is dead and exists: the theorem's premise excludes this state
      rcases hact with hl | ⟨hn, _⟩
      · have := h.2.1; rw [hl] at this; cases this
      · have := h.2.2.2; rw [hn] at this; cases this
    | waitRead outer deadline yielded => exact ofFlush rfl (h.1.1.flushPre h.2.1)

/-- On a live connection the facts of `Lv` hold, at every await point. -/
theorem PhaseV_lv {v : View} {fut : Option Pc} (h : PhaseV v fut) (hlive : v.live = true) : ∃ part, Lv v part := by
  have ofFlush : FlushPre v → ∃ part, Lv v part := fun ⟨part, hl, _⟩ => ⟨part, hl⟩
  have ofLocal : ∀ {which : Nat} {bytes : Bytes}, which ≠ 0 → LocalPre v which bytes → ∃ part, Lv v part := by
    intro which bytes hw ⟨_, _, _, h4⟩
    rcases h4 with ⟨h0, _⟩ | ⟨_, _, pre, hl, _⟩
    · exact (hw h0).elim
    · exact ⟨pre, hl⟩
  have ofHand : LocalFlushPre v 0 → ∃ part, Lv v part := fun hh => by
    have := hh.dead; rw [hlive] at this; cases this
  cases fut with
  | none =>
    rcases PhaseV_none_cases h with ⟨_, hf⟩ | ⟨hd, _⟩
    · exact ofFlush hf
    · rw [hlive] at hd; cases hd
  | some pc =>
    cases pc with
    | stepWrite ctx pkt bytes written len now => obtain ⟨step, hp, _⟩ := h; exact ofFlush hp.flushPre
    | stepFlush ctx pkt now => obtain ⟨step, hp, _⟩ := h; exact ofFlush hp.flushPre
    | connWrite bytes => have := LocalPre.dead h; rw [hlive] at this; cases this
    | connFlush => exact ofHand h
    | connRead => exact ofHand h
    | q0Write bytes => exact ofLocal (which := 1) (by decide) h
    | q0Flush => exact ofFlush (LocalFlushPre.flushPre h (by decide))
    | discWrite bytes => exact ofLocal (which := 2) (by decide) h
    | discFlush => have := h.2.1; rw [hlive] at this; cases this
    | waitRead outer deadline yielded => exact ofFlush (h.1.1.flushPre h.2.1)

/-- A connection is live only after an accepted CONNACK. -/
theorem PhaseV_acc {v : View} {fut : Option Pc} (h : PhaseV v fut) (hlive : v.live = true) :
    v.sess.data.everAccepted = true := by
  obtain ⟨_, hl⟩ := PhaseV_lv h hlive; exact hl.acc

/-! ### The ghost mark and the older transports -/

theorem cancelFut_tornNets_of (w : World) (h : tearsPacket w.fut = false) : w.cancelFut.tornNets = w.tornNets := by
  unfold World.cancelFut
  split
  · show w.tornAfterDrop = _
    unfold World.tornAfterDrop
    rw [if_neg (by simp [h])]
  · rfl

/-- The mark is set only by dropping a future that is suspended inside an operation-local write. -/
theorem exec_tornNets (w : World) (d : Directive) (h : tearsPacket w.fut = false) :
    (w.execDirective d).tornNets = w.tornNets := by
  by_cases hd : d = .connect
  · subst hd
    show w.startConnect.tornNets = _
    rw [(startConnect_frame w).2.2.2.2]
    exact cancelFut_tornNets_of w h
  · exact wexec_noconnect (wstable_tornEq w.tornNets) w (fun _ => cancelFut_tornNets_of w h) (fun _ _ h => h) d
      (fun he => hd he) rfl

/-- A transport that is no longer the current one is never touched again. -/
theorem exec_older_nets (w : World) (d : Directive) (i : Nat) (hi : i + 1 < w.nets.length) :
    (w.execDirective d).nets[i]? = w.nets[i]? := by
  by_cases hd : d = .connect
  · subst hd
    obtain ⟨f1, f2, _⟩ := startConnect_frame w
    have h1 := List.getElem?_dropLast (xs := w.startConnect.nets) (i := i)
    rw [if_pos (by omega), f2] at h1
    exact h1.symm
  · have hn : w.nets ≠ [] := by
      intro h0; rw [h0] at hi; simp at hi
    obtain ⟨_, g2, g3, _, _⟩ : Frame w (w.execDirective d) :=
      wexec_noconnect (wstable_frame w) w (frame_cancel w w) (fun _ _ h => h) d (fun he => hd he) (Frame.refl hn)
    exact getElem?_of_dropLast_eq g2 g3 i hi


/-! ### The invariant in plain terms -/

/-- No entry of the three outbound queues is partially written. -/
def Outbound.NoPartial (o : Outbound) : Prop :=
  ∀ n, (∀ e ∈ o.control, e.state ≠ .write (n + 1)) ∧ (∀ e ∈ o.release, e.state ≠ .write (n + 1)) ∧
    (∀ e ∈ o.retained, e.state ≠ .write (n + 1))

/-- No entry of the three outbound queues is partially written or waiting for its flush. -/
def Outbound.NoneInProgress (o : Outbound) : Prop :=
  (∀ e ∈ o.control, e.state.isInProgress = false) ∧ (∀ e ∈ o.release, e.state.isInProgress = false) ∧
    (∀ e ∈ o.retained, e.state.isInProgress = false)

/-- Exactly one entry of the three outbound queues is in progress: `n + 1` bytes of its packet `bytes`
have been written (an owed acknowledgement / PINGREQ and a PUBREL are encoded afresh from the entry, a
retained packet lies in the arena), and every other entry is neither partially written nor waiting for
its flush. -/
inductive Outbound.OnePartial (o : Outbound) (n : Nat) (bytes : Bytes) : Prop
  | control (pre post : List PendingControl) (e : PendingControl) (h : o.control = pre ++ e :: post)
      (hst : e.state = .write (n + 1)) (hb : encodeControl e.action = .ok bytes)
      (hoth : ∀ x ∈ pre ++ post, x.state.isInProgress = false)
      (hrel : ∀ x ∈ o.release, x.state.isInProgress = false) (hret : ∀ x ∈ o.retained, x.state.isInProgress = false)
  | release (pre post : List PendingRelease) (e : PendingRelease) (h : o.release = pre ++ e :: post)
      (hst : e.state = .write (n + 1)) (hb : encodePubrel e.id e.rc = .ok bytes)
      (hoth : ∀ x ∈ pre ++ post, x.state.isInProgress = false)
      (hctl : ∀ x ∈ o.control, x.state.isInProgress = false) (hret : ∀ x ∈ o.retained, x.state.isInProgress = false)
  | retained (pre post : List RetainedPacket) (e : RetainedPacket) (h : o.retained = pre ++ e :: post)
      (hst : e.state = .write (n + 1)) (hb : bytes = slice o.buf e.offset e.len)
      (hoth : ∀ x ∈ pre ++ post, x.state.isInProgress = false)
      (hctl : ∀ x ∈ o.control, x.state.isInProgress = false) (hrel : ∀ x ∈ o.release, x.state.isInProgress = false)

theorem Outbound.Quiet.noneInProgress {o : Outbound} (h : o.Quiet) : o.NoneInProgress :=
  ⟨fun e he => fresh_not_inProgress _ (h.control e he), h.release, h.retained⟩

theorem not_partial_of_not_inProgress {st : SendState} (h : st.isInProgress = false) (n : Nat) : st ≠ .write (n + 1) := by
  intro hs; rw [hs] at h; simp [SendState.isInProgress] at h

theorem Outbound.NoneInProgress.noPartial {o : Outbound} (h : o.NoneInProgress) : o.NoPartial :=
  fun n => ⟨fun e he => not_partial_of_not_inProgress (h.1 e he) n, fun e he => not_partial_of_not_inProgress (h.2.1 e he) n,
    fun e he => not_partial_of_not_inProgress (h.2.2 e he) n⟩

theorem Outbound.Slot.noPartial {o : Outbound} {step : Outbound.Step} (h : o.Slot step) (hst : step.state = .flush) : o.NoPartial := by
  intro n
  have hw0 : ∀ s : SendState, s = .write 0 → s ≠ .write (n + 1) := by intro s h1 h2; rw [h1] at h2; cases h2
  have hfl : ∀ s : SendState, s = .flush → s ≠ .write (n + 1) := by intro s h1 h2; rw [h1] at h2; cases h2
  cases h with
  | control a st rest hc hrest hrel hret =>
    simp only [Outbound.Step.state] at hst
    refine ⟨?_, fun e he => not_partial_of_not_inProgress (hrel e he) n, fun e he => not_partial_of_not_inProgress (hret e he) n⟩
    intro e he
    rw [hc] at he
    rcases List.mem_cons.mp he with rfl | hm
    · exact hfl _ hst
    · exact hw0 _ (hrest e hm)
  | release pre id rc st rs ps post hr hpre hpost hctl hret =>
    simp only [Outbound.Step.state] at hst
    refine ⟨fun e he => hw0 _ (hctl e he), ?_, fun e he => not_partial_of_not_inProgress (hret e he) n⟩
    intro e he
    rw [hr] at he
    rcases List.mem_append.mp he with hm | hm
    · exact not_partial_of_not_inProgress (hpre e hm).2 n
    · rcases List.mem_cons.mp hm with rfl | hm
      · exact hfl _ hst
      · exact not_partial_of_not_inProgress (hpost e hm) n
  | retained pre x post hr hpre hpost hctl hrel =>
    simp only [Outbound.Step.state] at hst
    refine ⟨fun e he => hw0 _ (hctl e he), fun e he => not_partial_of_not_inProgress (hrel e he) n, ?_⟩
    intro e he
    rw [hr] at he
    rcases List.mem_append.mp he with hm | hm
    · exact not_partial_of_not_inProgress (hpre e hm).2 n
    · rcases List.mem_cons.mp hm with rfl | hm
      · exact hfl _ hst
      · exact not_partial_of_not_inProgress (hpost e hm) n

theorem Outbound.Slot.onePartial {o : Outbound} {step : Outbound.Step} {n : Nat} {bytes : Bytes} (h : o.Slot step)
    (hst : step.state = .write (n + 1)) (hb : o.StepBytes step bytes) : o.OnePartial n bytes := by
  cases h with
  | control a st rest hc hrest hrel hret =>
    simp only [Outbound.Step.state] at hst
    exact .control [] rest ⟨a, st⟩ (by simpa using hc) hst hb
      (fun x hx => fresh_not_inProgress _ (hrest x (by simpa using hx))) hrel hret
  | release pre id rc st rs ps post hr hpre hpost hctl hret =>
    simp only [Outbound.Step.state] at hst
    refine .release pre post ⟨id, rc, st, rs, ps⟩ hr hst hb ?_ (fun x hx => fresh_not_inProgress _ (hctl x hx)) hret
    intro x hx
    rcases List.mem_append.mp hx with hm | hm
    · exact (hpre x hm).2
    · exact hpost x hm
  | retained pre e post hr hpre hpost hctl hrel =>
    simp only [Outbound.Step.state] at hst
    refine .retained pre post e hr hst hb.1 ?_ (fun x hx => fresh_not_inProgress _ (hctl x hx)) hrel
    intro x hx
    rcases List.mem_append.mp hx with hm | hm
    · exact (hpre x hm).2
    · exact hpost x hm

/-- The invariant, read off for the current transport, with sizes: the first whole packet is the
CONNECT, every later one is within the Maximum Packet Size `w.sess.rt.maximumPacketSize` of the
current connection, and so is the packet in progress. -/
theorem WInv.wire_full {w : World} (h : WInv w) (hnt : w.nets.length ∉ w.tornNets)
    (hact : w.live = true ∨ (w.conn = none ∧ w.fut.isSome = true)) :
    ∃ (frames : List Bytes) (part : Bytes), w.curNet.wire = frames.flatten ++ part ∧ (∀ f ∈ frames, Framed f) ∧
      (∀ f ∈ frames.head?, IsConnect f) ∧ (∀ f ∈ frames.drop 1, Fits w.sess.rt.maximumPacketSize f.length) ∧
      (w.live = true → frames ≠ []) ∧
      ((part = [] ∧ tearsPacket w.fut = false ∧ w.sess.data.outbound.NoPartial) ∨
       (∃ n bytes, part = bytes.take (n + 1) ∧ n + 1 < bytes.length ∧ Framed bytes ∧
          Fits w.sess.rt.maximumPacketSize bytes.length ∧ tearsPacket w.fut = false ∧
          w.sess.data.outbound.OnePartial n bytes) ∨
       (∃ rest, (w.fut = some (.connWrite rest) ∨ w.fut = some (.q0Write rest) ∨ w.fut = some (.discWrite rest)) ∧
          Framed (part ++ rest) ∧ w.sess.data.outbound.NoneInProgress ∧
          (w.live = true → Fits w.sess.rt.maximumPacketSize (part ++ rest).length) ∧
          (w.fut = some (.connWrite rest) → IsConnect (part ++ rest) ∧ frames = []))) := by
  rcases h.cur with ht | hp
  · exact (hnt ht).elim
  · obtain ⟨frames, part, hw, hfr, hhead, hfits, hne, _, _, hcase⟩ := PhaseV_wire hp hact
    refine ⟨frames, part, hw, hfr, hhead, hfits, hne, ?_⟩
    rcases hcase with ⟨hf, ho⟩ | ⟨rest, hfut, hfr2, hq, hfit, hconn⟩
    · cases ho with
      | quiet hq => exact Or.inl ⟨rfl, hf, hq.noneInProgress.noPartial⟩
      | flushing step hs hst => exact Or.inl ⟨rfl, hf, hs.noPartial hst⟩
      | writing step n bytes hs hst hb hn hfb hok =>
        exact Or.inr (Or.inl ⟨n, bytes, rfl, hn, hfb, hok, hf, hs.onePartial hst hb⟩)
    · exact Or.inr (Or.inr ⟨rest, hfut, hfr2, hq.noneInProgress, hfit, hconn⟩)

/-- The invariant, read off for the current transport. -/
theorem WInv.wire {w : World} (h : WInv w) (hnt : w.nets.length ∉ w.tornNets)
    (hact : w.live = true ∨ (w.conn = none ∧ w.fut.isSome = true)) :
    ∃ (frames : List Bytes) (part : Bytes), w.curNet.wire = frames.flatten ++ part ∧ (∀ f ∈ frames, Framed f) ∧
      ((part = [] ∧ tearsPacket w.fut = false ∧ w.sess.data.outbound.NoPartial) ∨
       (∃ n bytes, part = bytes.take (n + 1) ∧ n + 1 < bytes.length ∧ Framed bytes ∧ tearsPacket w.fut = false ∧
          w.sess.data.outbound.OnePartial n bytes) ∨
       (∃ rest, (w.fut = some (.connWrite rest) ∨ w.fut = some (.q0Write rest) ∨ w.fut = some (.discWrite rest)) ∧
          Framed (part ++ rest) ∧ w.sess.data.outbound.NoneInProgress)) := by
  obtain ⟨frames, part, hw, hfr, _, _, _, hcase⟩ := h.wire_full hnt hact
  refine ⟨frames, part, hw, hfr, ?_⟩
  rcases hcase with h1 | ⟨n, bytes, a, b', c, _, d, e⟩ | ⟨rest, a, b', c, _⟩
  · exact Or.inl h1
  · exact Or.inr (Or.inl ⟨n, bytes, a, b', c, d, e⟩)
  · exact Or.inr (Or.inr ⟨rest, a, b', c⟩)

/-- The invariant, read off for every transport ever opened. -/
theorem WInv.all_wires {w : World} (h : WInv w) (i : Nat) (net : Net) (hg : w.nets[i]? = some net)
    (hnt : (i + 1) ∉ w.tornNets) : Pfx net.wire := by
  have hlt : i < w.nets.length := by
    rcases Nat.lt_or_ge i w.nets.length with h1 | h1
    · exact h1
    · rw [List.getElem?_eq_none h1] at hg; cases hg
  by_cases hlast : i + 1 < w.nets.length
  · exact h.old i net hlast hg hnt
  · have heq : i + 1 = w.nets.length := by omega
    rcases h.cur with ht | hp
    · exact (hnt (by rw [heq]; exact ht)).elim
    · rw [← curNet_of_last w i net heq hg]
      exact (PhaseV_pfx hp).1

/-! ### The Maximum Packet Size changes only when a CONNACK is accepted -/

/-- Of all the primitives through which the operations change the session, only `activate` (the
second half of `connect_handshake`, after a successful CONNACK) touches the Maximum Packet Size. -/
theorem Prim.mps {s s' : Session} (h : Prim s s') :
    s'.rt.maximumPacketSize = s.rt.maximumPacketSize ∨ ∃ sp block now, s' = (s.activate sp block now).1 := by
  cases h with
  | queuePing _ now _ hq => left; rw [queuePing_rt hq]
  | completeFlush _ pkt now => exact Or.inl (completeFlush_mps _ _ _)
  | setWritten _ pkt a c => exact Or.inl rfl
  | takePkt => exact Or.inl (takePkt_mps _)
  | handle _ p => exact Or.inl (handle_mps _ _)
  | handleDisconnect => exact Or.inl rfl
  | activate _ sp block now => exact Or.inr ⟨sp, block, now, rfl⟩
  | alloc => left; rw [alloc_rt]
  | encodeConnect _ c => left; rw [encode_rt]
  | encodeAfterAlloc _ enc he => left; rw [alloc_encode_rt]
  | encodeScratch _ enc he => left; rw [encode_rt]
  | enqueue _ enc off len isPub _ typ he ht hp hq hres hr => left; rw [retain_mps hr, alloc_encode_rt]
  | clearPing => exact Or.inl rfl
  | noteActivity _ now => exact Or.inl rfl
  | window _ _ n hw => exact Or.inl (window_mps hw)
  | commit _ bytes => exact Or.inl rfl
  | beginConnect => exact Or.inl rfl
  | setPid _ n h1 h2 => exact Or.inl rfl

/-! ### The log of the current transport against the wire and the retained queue -/

/-- The invariant, read off for the transmission log of the current transport of a live connection:
the logged packets are on the wire behind the CONNECT, in order, and the log agrees with the retained queue. -/
theorem WInv.curLog {w : World} (h : WInv w) (hnt : w.nets.length ∉ w.tornNets) (hl : w.live = true) :
    (∃ (frames : List Bytes) (part : Bytes), w.curNet.wire = frames.flatten ++ part ∧ (∀ f ∈ frames, Framed f) ∧
        (w.curLog.map (·.bytes)).Sublist (frames.drop 1)) ∧
    w.sess.data.outbound.Log w.nets.length w.curLog := by
  rcases h.cur with ht | hp
  · exact (hnt ht).elim
  · obtain ⟨frames, part, hw, hfr, _, _, _, hsub, hlog, _⟩ := PhaseV_wire hp (Or.inl hl)
    exact ⟨⟨frames, part, hw, hfr, hsub⟩, hlog hl⟩

/-- On a live connection whose transport is not marked torn, a CONNACK has been accepted (ghost flag). -/
theorem WInv.accepted {w : World} (h : WInv w) (hnt : w.nets.length ∉ w.tornNets) (hl : w.live = true) :
    w.sess.data.everAccepted = true := by
  rcases h.cur with ht | hp
  · exact (hnt ht).elim
  · exact PhaseV_acc hp hl

/-- On a live connection whose transport is not marked torn: the acknowledgements written on this
transport, followed by the ones still waiting in the control queue, are the ones recorded in the inbound
log of this connection, in order. -/
theorem WInv.acks {w : World} (h : WInv w) (hnt : w.nets.length ∉ w.tornNets) (hl : w.live = true) :
    AckEq w.sess w.curLog := by
  rcases h.cur with ht | hp
  · exact (hnt ht).elim
  · obtain ⟨_, hlv⟩ := PhaseV_lv hp hl; exact hlv.acks

/-- On a live connection whose transport is not marked torn: every release entry, and every PUBREL in
the log of this transport, whose serial is at or above the mark of this connection has a transmission of
its PUBLISH in the log of this transport. -/
theorem WInv.relpub {w : World} (h : WInv w) (hnt : w.nets.length ∉ w.tornNets) (hl : w.live = true) :
    RelPub w.sess w.curLog := by
  rcases h.cur with ht | hp
  · exact (hnt ht).elim
  · obtain ⟨_, hlv⟩ := PhaseV_lv hp hl; exact hlv.relpub

/-- In a log whose serials increase, the entry with the smaller serial comes first. -/
theorem sublist_pair_of_sorted {l : List LogEntry} (hs : (sers l).Pairwise (· < ·)) {f g : LogEntry} {s t : Nat}
    (hf : f ∈ l) (hg : g ∈ l) (hfs : f.ser? = some s) (hgt : g.ser? = some t) (hlt : s < t) : [f, g].Sublist l := by
  induction l with
  | nil => simp at hf
  | cons x xs ih =>
    have hs' : (sers xs).Pairwise (· < ·) := by
      simp only [sers, List.filterMap_cons] at hs
      split at hs
      · exact hs
      · exact (List.pairwise_cons.mp hs).2
    rcases List.mem_cons.mp hg with rfl | hg'
    · -- `g` is the head: then `f` cannot be behind it
      rcases List.mem_cons.mp hf with rfl | hf'
      · rw [hfs] at hgt; cases hgt; omega
      · exfalso
        simp only [sers, List.filterMap_cons, hgt] at hs
        have := (List.pairwise_cons.mp hs).1 s (by
          simp only [List.mem_filterMap]; exact ⟨f, hf', hfs⟩)
        omega
    · rcases List.mem_cons.mp hf with rfl | hf'
      · exact List.Sublist.cons_cons _ (List.singleton_sublist.mpr hg')
      · exact (ih hs' hf' hg').cons _

/-! ### The log is append-only -/

theorem wstable_logPrefix (l0 : List LogEntry) : WStable (fun x => l0 <+: x.log) where
  emit := fun _ _ h => h
  sess := fun _ _ h => h
  fut := fun _ _ h => h
  conn := fun _ _ h => h
  slot := fun _ _ h => h
  starved := fun _ _ h => h
  wakes := fun _ _ h => h
  lastRes := fun _ _ h => h
  handles := fun _ _ h => h
  setCurNet := fun _ _ h => h
  log := fun _ _ _ h => h.trans (List.prefix_append _ _)

/-- No directive ever removes or alters an entry of the transmission log. -/
theorem exec_log_prefix (w : World) (d : Directive) : w.log <+: (w.execDirective d).log := by
  have hcancel : ∀ x : World, w.log <+: x.log → w.log <+: x.cancelFut.log := by
    intro x hx
    unfold World.cancelFut
    split
    · exact hx
    · exact hx
  by_cases hd : d = .connect
  · subst hd
    show w.log <+: w.startConnect.log
    rw [startConnect_eq]
    have h1 : ∀ S : Session, w.log <+: ({ w.connectStart with sess := S } : World).log := by
      intro S
      show w.log <+: w.connectStart.log
      rw [connectStart_log]; exact List.prefix_refl _
    simp only []
    split
    · exact (wstable_logPrefix w.log).finishErr _ _ _ (h1 _)
    · exact (wmachine (wstable_logPrefix w.log) pollFuel).2.2.2.2.2.2.1 _ _ _ (h1 _)
  · exact wexec_noconnect (wstable_logPrefix w.log) w (hcancel w) (fun _ _ h => h) d (fun he => hd he) (List.prefix_refl _)

/-- On every transport that is not marked torn — the current one or an earlier one — the retained
packets in its part of the log have strictly increasing serials, and so have the PUBREL packets. -/
theorem WInv.log_sorted {w : World} (h : WInv w) (k : Nat) (hk1 : 1 ≤ k) (hk : k ≤ w.nets.length) (hnt : k ∉ w.tornNets) :
    LogSorted (w.log.filter (fun f => f.net == k)) := by
  by_cases hlt : k < w.nets.length
  · exact h.oldLog k hk1 hlt hnt
  · have heq : k = w.nets.length := by omega
    subst heq
    rcases h.cur with ht | hp
    · exact (hnt ht).elim
    · exact (PhaseV_pfx hp).2

end Minimq
