import Minimq.Proofs.QuiesceRound
import Minimq.Proofs.WireQuota
/-
Bounded quiescence (C16, liveness half) — part 5: from a world a program produced to the invariant
between rounds; what quiescence means for the operation handles.
-/
namespace Minimq
open Gen World Fuel Outbound
namespace Quiesce

theorem Produced.winv {W : World} (h : Produced W) : WInv W := by
  obtain ⟨cfg, ds, rfl⟩ := h
  exact run_WInv ds _ (WInv_init cfg)

theorem Produced.maxQ {W : World} (h : Produced W) : MaxQ W.sess := by
  obtain ⟨cfg, ds, rfl⟩ := h
  exact run_inv closed_MaxQ ds { sess := Session.new cfg } (fun h => by cases h)

/-- **The setting of the closed loop**, for a world `w` (that a program produced):

* the connection is live and no I/O decision is left over;
* time stands still and no keep-alive event is due (`KaCalm`: PINGREQ time and ping timeout, if armed,
  lie in the future), and no PINGREQ is queued;
* every queued packet is within the broker's Maximum Packet Size (`fits`; finding F14 is a retained
  packet above a limit announced by a later CONNACK — then `poll` fails for ever), `deficit` is clear
  (finding F5c), the maximum send quota is within the local limit of 8 (`maxq`; true on every live
  connection whose transport is not marked torn: `maxq_of_untorn`), and the quota books balance
  (`quotaEq`: remaining quota plus exchanges in flight is the maximum — what `connect` establishes and
  every accepted publish and every acknowledgement keeps, as long as nothing fails half-way; the lifted
  invariant `QuotaP` is only the inequality);
* the retained packets are QoS 1/2 PUBLISH, SUBSCRIBE or UNSUBSCRIBE packets (`kinds`), the identifiers in
  use fit two bytes (`small`), the control queue holds at most `MAX_PENDING_CONTROL` entries, none of them
  `Sent` (`clean`: sent acknowledgements leave the queue at once) — all true of every world a program
  produces, but not among the invariants lifted so far, hence hypotheses;
* the receive buffer has room for the broker's answers (6 bytes) and the reader is at a packet boundary;
* **the broker is up to date** (`sync`): the inbound queue of the transport holds exactly its answers to
  the packets that are completely on the wire and not yet acknowledged (`expected`), in some order, and
  nothing else. (A packet that is on the wire with no answer under way would wait for ever: the broker of
  the loop answers what it sees completed, it does not remember.) -/
structure Setting (w : World) : Prop where
  live : w.live = true
  slot : w.slot = none
  calm : KaCalm w.sess.rt w.now
  clean : ∀ e ∈ w.sess.data.outbound.control, e.state ≠ .sent
  noPing : ∀ e ∈ w.sess.data.outbound.control, e.action.typ ≠ MT_PingReq
  ctlCap : w.sess.data.outbound.control.length ≤ MAX_PENDING_CONTROL
  fits : Fits w.sess
  small : ∀ id ∈ w.sess.data.outbound.usedIds, id < 65536
  deficit : w.sess.rt.deficit = false
  maxq : w.sess.rt.maxSendQuota ≤ maxInflight
  quotaEq : w.sess.rt.sendQuota + w.sess.data.outbound.inflightPublishes = w.sess.rt.maxSendQuota
  kinds : KnownKinds w.sess.data.outbound
  cap : 6 ≤ w.sess.reader.cap
  rdData : w.sess.reader.data = []
  rdLen : w.sess.reader.packetLength = none
  sync : ∃ as, w.curNet.rx = enc as ∧ as.Perm (expected w.sess.data.outbound)

theorem ready_of (w : World) (hreach : Produced w) (hs : Setting w) : Ready w := by
  have hw := hreach.winv
  have hnets : w.nets ≠ [] := by
    intro h0
    have := (hw.netless h0).1
    have hl := hs.live
    unfold World.live at hl
    rw [this] at hl; cases hl
  exact ⟨hreach, ⟨hreach.ids, hreach.arena, hreach.quota, hs.live, hs.slot, hnets, hs.calm,
    ⟨hs.clean, hs.noPing, hs.ctlCap, hs.fits, hs.small, hs.deficit, hs.maxq, hs.quotaEq⟩, hs.kinds, hs.cap,
    Waiting_fresh _ _ hs.rdData hs.rdLen (Nat.le_trans (by omega) hs.cap), fun _ => hs.rdData⟩, hs.rdData, hs.sync⟩

/-- On a live connection whose transport is not marked torn a CONNACK has been accepted, and then the
maximum send quota is the negotiated one, at most 8. -/
theorem maxq_of_untorn (w : World) (hreach : Produced w) (hl : w.live = true) (hnt : w.nets.length ∉ w.tornNets) :
    w.sess.rt.maxSendQuota ≤ maxInflight :=
  hreach.maxQ (hreach.winv.accepted hnt hl)

/-- Every handle that was pending reports `complete` once the queues are empty (the session generation
being the same). -/
theorem status_complete (d d' : SessionData) (op : Op) (hgen : d'.generation = d.generation)
    (hq : d'.outbound.isQuiescent = true) (hp : d.status op = .pending) : d'.status op = .complete := by
  obtain ⟨_, hr, hl⟩ := (quiescent_iff' _).mp hq
  unfold SessionData.status at hp ⊢
  split at hp
  · cases hp
  · rename_i hg
    rw [if_neg (by rw [hgen]; exact hg)]
    simp only [Outbound.hasRetained, Outbound.hasPendingRelease, hr, hl, List.any_nil, Bool.or_false]
    cases op.kind <;> rfl

/-- With the queues empty and the books balanced, the whole send quota is available again. -/
theorem quota_restored (s : Session) (h : s.rt.sendQuota + s.data.outbound.inflightPublishes = s.rt.maxSendQuota)
    (hq : s.data.outbound.isQuiescent = true) : s.rt.sendQuota = s.rt.maxSendQuota := by
  obtain ⟨_, hr, hl⟩ := (quiescent_iff' _).mp hq
  have : s.data.outbound.inflightPublishes = 0 := by rw [inflight_def, hr, hl]; rfl
  omega

theorem rounds_reach {W : World} (h : Produced W) : ∀ n, Produced (rounds n W) := by
  intro n
  induction n generalizing W with
  | zero => exact h
  | succ n ih => exact ih ((h.exec _).exec _ |>.exec _)

theorem expected_nil_of_allFresh (o : Outbound) (h : o.AllFresh) : expected o = [] := by
  unfold expected
  have h1 : (retView o).filterMap ansRet = [] := by
    apply List.filterMap_eq_nil_iff.mpr
    intro v hv
    obtain ⟨e, he, rfl⟩ := List.mem_map.mp hv
    simp [ansRet, h.retained e he, sentish]
  have h2 : (relView o).filterMap ansRel = [] := by
    apply List.filterMap_eq_nil_iff.mpr
    intro v hv
    obtain ⟨e, he, rfl⟩ := List.mem_map.mp hv
    simp [ansRel, h.release e he, sentish]
  rw [h1, h2]; rfl

theorem calm_of_armed (r : Runtime) (now : Nat) (h1 : r.nextPing = r.keepaliveSendInterval.map (fun i => now + i * 1000))
    (h2 : r.pingTimeout = none) : KaCalm r now := by
  refine ⟨?_, fun pt h => by rw [h2] at h; cases h⟩
  intro np hnp
  rw [h1] at hnp
  simp only [Runtime.keepaliveSendInterval] at hnp
  split at hnp
  · simp at hnp
  · rename_i hka
    simp only [Option.map_some, Option.some.injEq] at hnp
    have ha : min ROUND_TRIP_TIMEOUT_MS (r.keepaliveMs / 2) ≤ r.keepaliveMs / 2 := Nat.min_le_right _ _
    have hb : 1 ≤ r.keepaliveMs - min ROUND_TRIP_TIMEOUT_MS (r.keepaliveMs / 2) := by omega
    have hc : 1000 ≤ (r.keepaliveMs - min ROUND_TRIP_TIMEOUT_MS (r.keepaliveMs / 2)) * 1000 :=
      Nat.le_mul_of_pos_left _ hb
    omega

/-- **After a resumed reconnect the setting holds**, as far as it follows from the handshake: the world
`W` is what `connect`, a conformant CONNACK with session present and enough healthy decisions made of `w`
(`C12M_connect_succeeds` gives the first six hypotheses). Everything is waiting to be replayed
(`arm_replay`), the new transport has delivered nothing, the PINGREQ timer is armed in the future. What the
handshake does not decide is asked for: the size limit and `deficit` of the new CONNACK (F14, F5c), and the
facts about the queues that no CONNACK changes. -/
theorem setting_after_reconnect (w W : World) (pkt ack block : Bytes)
    (hlive : W.live = true) (hslot : W.slot = none)
    (hnets : W.nets = w.nets ++ [{ wire := pkt, rx := [] }]) (hnow : W.now = w.now)
    (hsess : W.sess = (hsP w pkt ack).taken.activated true block w.now)
    (hclean : ∀ e ∈ W.sess.data.outbound.control, e.state ≠ .sent)
    (hnoPing : ∀ e ∈ W.sess.data.outbound.control, e.action.typ ≠ MT_PingReq)
    (hctl : W.sess.data.outbound.control.length ≤ MAX_PENDING_CONTROL)
    (hfits : Fits W.sess) (hsmall : ∀ id ∈ W.sess.data.outbound.usedIds, id < 65536)
    (hdef : W.sess.rt.deficit = false) (hkinds : KnownKinds W.sess.data.outbound)
    (hcap : 6 ≤ w.sess.reader.cap) : Setting W := by
  have hout : W.sess.data.outbound = (hsP w pkt ack).S.data.outbound := by
    rw [hsess]; exact (activated_resumed (hsP w pkt ack).taken block w.now).1
  have hfresh : W.sess.data.outbound.AllFresh := by
    rw [hout]
    show (w.sess.beginConnect.encode _).1.data.outbound.AllFresh
    rw [Session.encode_fst]
    exact encodeAt_allFresh _ _ (beginConnect_allFresh w.sess)
  have hka := activated_keepalive (hsP w pkt ack).taken true block w.now
  have hrx : W.curNet.rx = [] := by rw [curNet_of_nets' W _ _ hnets]
  have hrd : (hsP w pkt ack).S.reader = w.sess.reader.reset := hsP_reader w pkt ack
  have hres := activated_resumed (hsP w pkt ack).taken block w.now
  have hquota : W.sess.rt.sendQuota + W.sess.data.outbound.inflightPublishes = W.sess.rt.maxSendQuota := by
    have hd : ((hsP w pkt ack).taken.activated true block w.now).rt.deficit = false := by rw [← hsess]; exact hdef
    have hd' : decide ((connackSettings ((hsP w pkt ack).taken.preActivate true).rt.configuredKeepaliveMs block).1 <
        ((hsP w pkt ack).taken.preActivate true).data.outbound.inflightPublishes) = false := hd
    rw [(connackSettings_quota _ block).1] at hd'
    have hge : ((hsP w pkt ack).taken.preActivate true).data.outbound.inflightPublishes ≤ negotiatedQuota block := by
      simpa using hd'
    rw [hsess, hres.2.2.2.2.2.2.2.1, hres.2.2.2.2.2.2.2.2, hres.1]
    have : ((hsP w pkt ack).taken.preActivate true).data.outbound = (hsP w pkt ack).taken.data.outbound := rfl
    rw [this] at hge
    omega
  refine ⟨hlive, hslot, ?_, hclean, hnoPing, hctl, hfits, hsmall, hdef, ?_, hquota, hkinds, ?_, ?_, ?_, ?_⟩
  · rw [hnow, hsess]; exact calm_of_armed _ _ hka.2.2.1 hka.2.2.2
  · rw [hsess]
    show (connackSettings ((hsP w pkt ack).taken.preActivate true).rt.configuredKeepaliveMs block).2.1 ≤ _
    rw [(connackSettings_quota _ block).2]; exact negotiatedQuota_le block
  · rw [hsess]; show 6 ≤ (hsP w pkt ack).S.reader.cap; rw [hrd]; exact hcap
  · rw [hsess]; rfl
  · rw [hsess]; rfl
  · exact ⟨[], by rw [hrx]; rfl, by rw [expected_nil_of_allFresh _ hfresh]⟩


theorem Produced.run {W : World} (h : Produced W) (ds : List Directive) : Produced (ds.foldl World.execDirective W) := by
  induction ds generalizing W with
  | nil => exact h
  | cons d ds ih => exact ih (h.exec d)

theorem exec_frame (w : World) (d : Directive) (hd : d ≠ .connect) (hn : w.nets ≠ []) : Frame w (w.execDirective d) :=
  wexec_noconnect (wstable_frame w) w (frame_cancel w w) (fun _ _ h => h) d (fun he => hd he) (Frame.refl hn)

/-- A directive other than `connect`, on a world whose suspended operation is not inside an
operation-local write, leaves the transport unmarked. -/
theorem untorn_exec (w : World) (d : Directive) (hd : d ≠ .connect) (hn : w.nets ≠ [])
    (hs : tearsPacket w.fut = false) (hu : w.nets.length ∉ w.tornNets) :
    (w.execDirective d).nets.length ∉ (w.execDirective d).tornNets := by
  rw [exec_tornNets w d hs, (exec_frame w d hd hn).2.1]; exact hu

theorem pcOK_safe {W : World} (h : PcOK W) : tearsPacket W.fut = false := by
  unfold PcOK at h
  cases hf : W.fut with
  | none => rfl
  | some pc =>
    rw [hf] at h
    cases pc <;> first | rfl | exact absurd h id

/-- **A round leaves the transport unmarked**, and what it leaves suspended is a `poll()`. -/
theorem round_untorn (W : World) (hr : Ready W) (hsafe : tearsPacket W.fut = false)
    (hu : W.nets.length ∉ W.tornNets) :
    (round W).nets.length ∉ (round W).tornNets ∧ tearsPacket (round W).fut = false := by
  obtain ⟨hm1, h', hm2, _⟩ := client_turn W hr
  have u1 := untorn_exec W .poll (by intro h; cases h) hr.live.nets hsafe hu
  have u2 := untorn_exec _ .go (by intro h; cases h) hm1.live.nets (pcOK_safe hm1.pc) u1
  have u3 := untorn_exec _ (.rx (brokerBytes (newLog W.log.length (clientTurn W)))) (by intro h; cases h)
    hm2.live.nets (pcOK_safe hm2.pc) u2
  refine ⟨u3, ?_⟩
  have : (round W).fut = (clientTurn W).fut := by
    show ((clientTurn W).execDirective (.rx _)).fut = _
    rw [rx_eq _ _ hm2.live.nets]; rfl
  rw [this]; exact pcOK_safe hm2.pc

theorem rounds_untorn (W : World) (hr : Ready W) (hsafe : tearsPacket W.fut = false)
    (hu : W.nets.length ∉ W.tornNets) : ∀ n,
    Ready (rounds n W) ∧ (rounds n W).nets.length ∉ (rounds n W).tornNets ∧ tearsPacket (rounds n W).fut = false := by
  intro n
  induction n with
  | zero => exact ⟨hr, hu, hsafe⟩
  | succ n ih =>
    rw [rounds_add_one]
    obtain ⟨h1, h2, h3⟩ := ih
    exact ⟨(round_ready _ h1).1, round_untorn _ h1 h3 h2⟩

/-- **Nothing is handed to the transport twice.** In every world of the loop — a world a program
produced, live, its transport unmarked — the serials of the retained packets, and those of the PUBRELs, in
the log of the current transport strictly increase: each went out at most once on this connection, in
queue order. -/
theorem no_resend (W : World) (hprod : Produced W) (hl : W.live = true) (hu : W.nets.length ∉ W.tornNets) :
    (sers W.curLog).Pairwise (· < ·) ∧ (relSers W.curLog).Pairwise (· < ·) := by
  have h := (hprod.winv.curLog hu hl).2
  exact ⟨h.p.sorted, h.r.sorted⟩


end Quiesce
end Minimq
